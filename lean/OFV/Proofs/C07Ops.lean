/-
C07 — operator-level (dictionary) statements: `commutator` / `anticommutator` denote
`A·B ∓ B·A` (via the shared denotation lemmas of OFV/Proofs/C01Hom.lean); term-wise commuting
operands give a vanishing commutator; the stable re-sort in the Boson / Quad branches of
`hermitian_conjugated` does not change the operator a term denotes.  Core Lean only.
-/
import OFV.Proofs.C01Hom
import OFV.Proofs.SpecBoson
import OFV.Model.C07

namespace OFV
namespace Proofs
namespace C07
open OFV.Model OFV.Model.C07 OFV.GQ

/-- the product functional: `ψ l r = factor · φ(simplified l ++ r)` (what one term pair contributes) -/
def prodF (cls : Cls) (φ : Term → GQ) (l r : Term) : GQ :=
  (simplify cls (l ++ r)).1 * φ (simplify cls (l ++ r)).2

/-- `⟦commutator(A, B)⟧_φ = ⟦A·B⟧_φ - ⟦B·A⟧_φ` in the exact regime of the `-=` -/
theorem den_commutator (tol : Rat) (cls : Cls) (φ : Term → GQ) (A B : Op)
    (h : ExactAdd tol (mulOp cls A B) ((mulOp cls B A).map fun e => (e.1, -e.2))) :
    den φ (commutator tol cls A B) = bil (prodF cls φ) A B + -(bil (prodF cls φ) B A) := by
  unfold commutator
  rw [isub_eq_iadd_neg, den_iadd tol φ _ _ h, den_map_neg, den_mulOp, den_mulOp]
  rfl

/-- `⟦anticommutator(A, B)⟧_φ = ⟦A·B⟧_φ + ⟦B·A⟧_φ` in the exact regime of the `+=` -/
theorem den_anticommutator (tol : Rat) (cls : Cls) (φ : Term → GQ) (A B : Op)
    (h : ExactAdd tol (mulOp cls A B) (mulOp cls B A)) :
    den φ (anticommutator tol cls A B) = bil (prodF cls φ) A B + bil (prodF cls φ) B A := by
  unfold anticommutator
  rw [den_iadd tol φ _ _ h, den_mulOp, den_mulOp]
  rfl

/-- swapping the operands of the bilinear extension swaps the arguments of the functional -/
theorem bil_swap (ψ : Term → Term → GQ) (A B : Op) : bil ψ A B = bil (fun l r => ψ r l) B A := by
  unfold bil
  induction A with
  | nil =>
    induction B with
    | nil => rfl
    | cons r B ih => simp only [List.foldr_cons, List.foldr_nil] at ih ⊢; rw [← ih, add_zero']
  | cons l A ih =>
    simp only [List.foldr_cons]
    rw [ih]
    clear ih
    induction B with
    | nil => simp [add_zero']
    | cons r B ihB =>
      simp only [List.foldr_cons]
      rw [← ihB]
      apply GQ.ext <;> simp <;> grind

/-- if every pair of terms commutes under the functional, the commutator denotes 0 -/
theorem den_commutator_zero (tol : Rat) (cls : Cls) (φ : Term → GQ) (A B : Op)
    (h : ExactAdd tol (mulOp cls A B) ((mulOp cls B A).map fun e => (e.1, -e.2)))
    (hc : ∀ l ∈ A, ∀ r ∈ B, prodF cls φ l.1 r.1 = prodF cls φ r.1 l.1) :
    den φ (commutator tol cls A B) = 0 := by
  rw [den_commutator tol cls φ A B h, bil_swap (prodF cls φ) B A,
    bil_congr (fun l r => prodF cls φ r l) (prodF cls φ) A B (fun l hl r hr => (hc l hl r hr).symm)]
  exact add_neg_cancel' _

/-! ### the formal involution on ladder / quadrature words -/

theorem hcTermF_append (t₁ t₂ : Term) : hcTermF (t₁ ++ t₂) = hcTermF t₂ ++ hcTermF t₁ := by
  simp [hcTermF]

theorem hcTermF_gen (j a : Nat) : hcTermF [(j, a)] = [(j, 1 - a)] := rfl

/-- BosonOperator branch: the stored key `sorted(reverse-and-flip(t))` denotes the same operator
as the reversed-and-flipped word (modes with different indices commute), on every monomial -/
theorem hcBoson_key_sound (t : Term) (e : Spec.Mono) :
    Spec.actTermWith Spec.actB (sortF (hcTermF t)) e = Spec.actTermWith Spec.actB (hcTermF t) e :=
  Spec.actB_sortF _ e

/-- QuadOperator branch: the stored key `sorted(reversed(t))` denotes the reversed word -/
theorem hcQuad_key_sound (hbar : GQ) (t : Term) (e : Spec.Mono) :
    Spec.actTermWith (Spec.actQuad hbar) (sortF t.reverse) e = Spec.actTermWith (Spec.actQuad hbar) t.reverse e :=
  Spec.actQuad_sortF hbar _ e

end C07
end Proofs
end OFV
