/- C01: the ingredients of `ExprHom.Sound` for each operator class: the Spec action of a concatenated
term is the composition of the actions, and the admissible terms are closed under `_simplify`. -/
import OFV.Proofs.C01Expr
import OFV.Proofs.C01Qubit
import OFV.Proofs.C01Ising
import OFV.Proofs.SpecCAR
import OFV.Proofs.SpecBoson

namespace OFV
namespace ExprHom
open Spec Model

/-- canonical representative of a state of a bit algebra: the one-element list holding the mask -/
def normBit (s : St) : St := [maskOf s]

/-! ### qubit / Ising -/

theorem actPTerm_append (lt rt : Term) (m : Nat) :
    (actPTerm (lt ++ rt) m).2 = (actPTerm lt (actPTerm rt m).2).2 ∧
    GQ.ipow (actPTerm (lt ++ rt) m).1 =
      GQ.ipow (actPTerm lt (actPTerm rt m).2).1 * GQ.ipow (actPTerm rt m).1 := by
  have key := foldr_stepP_from lt (actPTerm rt m)
  have e : actPTerm (lt ++ rt) m = lt.foldr stepP (actPTerm rt m) := by
    rw [actPTerm_eq (lt ++ rt), List.foldr_append, ← actPTerm_eq rt m]
  rw [e]
  refine ⟨key.1, ?_⟩
  rw [ipow_mul, ← ipow_mod, key.2, ipow_mod, Nat.add_comm]

theorem act_append_qubit (lt rt : Term) (s : St) :
    actTerm .qubit (lt ++ rt) s =
      match actTerm .qubit rt s with
      | none => none
      | some (k, s') => match actTerm .qubit lt s' with
        | none => none
        | some (k', s'') => some (k' * k, s'') := by
  obtain ⟨h1, h2⟩ := actPTerm_append lt rt (maskOf s)
  simp only [actTerm, maskOf, List.headD_cons] at h1 h2 ⊢
  rw [h1, h2]

theorem ipow_zero : GQ.ipow 0 = 1 := by decide +kernel

theorem act_nil_qubit (s : St) : actTerm .qubit [] s = some (1, normBit s) := by
  simp only [actTerm, actPTerm, List.foldr_nil, ipow_zero, normBit]

theorem mergeQK_actionsOk (l : Factor) (rest : Term) (hl : l.2 < 4) (hr : ActionsOk rest) :
    ActionsOk (mergeQK l rest).2 := by
  induction rest generalizing l with
  | nil =>
    simp only [mergeQK]
    split
    · intro f hf; simp at hf
    · intro f hf; simp at hf; subst hf; exact hl
  | cons r rest ih =>
    have hr2 : r.2 < 4 := hr r List.mem_cons_self
    have hrest : ActionsOk rest := fun f hf => hr f (List.mem_cons_of_mem _ hf)
    simp only [mergeQK]
    split
    · exact ih (l.1, (Generated.pauliProdK l.2 r.2).2) (pauliProdK_lt _ _) hrest
    · split
      · exact ih r hr2 hrest
      · intro f hf
        rcases List.mem_cons.mp hf with rfl | hf
        · exact hl
        · exact ih r hr2 hrest f hf

theorem simplifyQubit_actionsOk (t : Term) (h : ActionsOk t) : ActionsOk (simplifyQubit t).2 := by
  have hperm := sortF_perm t
  simp only [simplifyQubit]
  cases hst : sortF t with
  | nil => intro f hf; simp at hf
  | cons l rest =>
    have hok : ActionsOk (l :: rest) := by
      intro f hf
      exact h f (hperm.mem_iff.mp (by simpa [hst] using hf))
    simp only [mergeQ_eq]
    exact mergeQK_actionsOk l rest (hok l List.mem_cons_self)
      (fun f hf => hok f (List.mem_cons_of_mem _ hf))

theorem actionsOk_append (lt rt : Term) (h1 : ActionsOk lt) (h2 : ActionsOk rt) : ActionsOk (lt ++ rt) := by
  intro f hf
  rcases List.mem_append.mp hf with h | h
  · exact h1 f h
  · exact h2 f h

theorem allZ_append (lt rt : Term) (h1 : AllZ lt) (h2 : AllZ rt) : AllZ (lt ++ rt) := by
  intro f hf
  rcases List.mem_append.mp hf with h | h
  · exact h1 f h
  · exact h2 f h

/-! ### fermion -/

theorem sgn_add' (k k' : Nat) : GQ.sgn ((k + k') % 2) = GQ.sgn k' * GQ.sgn k := by
  have h1 : k % 2 = 0 ∨ k % 2 = 1 := by omega
  have h2 : k' % 2 = 0 ∨ k' % 2 = 1 := by omega
  unfold GQ.sgn
  rcases h1 with h1 | h1 <;> rcases h2 with h2 | h2 <;>
    simp [h1, h2, Nat.add_mod]

theorem foldr_stepF_from (lt : Term) (k0 s0 : Nat) :
    match lt.foldr stepF (some (0, s0)) with
    | none => lt.foldr stepF (some (k0, s0)) = none
    | some (k, s') => ∃ k', lt.foldr stepF (some (k0, s0)) = some (k', s') ∧ k' % 2 = (k0 + k) % 2 := by
  induction lt with
  | nil => exact ⟨k0, rfl, rfl⟩
  | cons f lt ih =>
    simp only [List.foldr_cons]
    cases h0 : lt.foldr stepF (some (0, s0)) with
    | none => rw [h0] at ih; simp only at ih; rw [ih]; rfl
    | some p =>
      obtain ⟨k, s'⟩ := p
      rw [h0] at ih
      obtain ⟨k', hk', hmod⟩ := ih
      rw [hk']
      simp only [stepF]
      cases actF f.1 f.2 s' with
      | none => rfl
      | some q =>
        obtain ⟨k'', s''⟩ := q
        exact ⟨_, rfl, by omega⟩

theorem sgn_congr' (a b : Nat) (h : a % 2 = b % 2) : GQ.sgn a = GQ.sgn b := by
  unfold GQ.sgn; rw [h]

theorem act_append_fermion (lt rt : Term) (s : St) :
    actTerm .fermion (lt ++ rt) s =
      match actTerm .fermion rt s with
      | none => none
      | some (k, s') => match actTerm .fermion lt s' with
        | none => none
        | some (k', s'') => some (k' * k, s'') := by
  simp only [actTerm]
  rw [actFTerm_eq (lt ++ rt), List.foldr_append, ← actFTerm_eq rt]
  cases hr : actFTerm rt (maskOf s) with
  | none =>
    simp only [Option.map_none]
    have : lt.foldr stepF none = none := by
      induction lt with
      | nil => rfl
      | cons f lt ih => simp only [List.foldr_cons, ih]; rfl
    rw [this]; rfl
  | some p =>
    obtain ⟨k0, s0⟩ := p
    simp only [Option.map_some, maskOf, List.headD_cons]
    have key := foldr_stepF_from lt k0 s0
    rw [actFTerm_eq lt s0]
    cases h0 : lt.foldr stepF (some (0, s0)) with
    | none => rw [h0] at key; simp only at key; rw [key]; rfl
    | some q =>
      obtain ⟨k, s'⟩ := q
      rw [h0] at key
      obtain ⟨k', hk', hmod⟩ := key
      rw [hk']
      simp only [Option.map_some]
      rw [sgn_congr' k' ((k0 + k) % 2) (by omega), sgn_add']

theorem act_nil_fermion (s : St) : actTerm .fermion [] s = some (1, normBit s) := by
  simp only [actTerm, actFTerm, List.foldr_nil, Option.map_some, normBit]
  congr 1

/-! ### boson / quadrature -/

theorem foldr_stepW_from (act : Nat → Nat → Mono → Option (GQ × Mono)) (lt : Term) (c0 : GQ) (e0 : Mono) :
    lt.foldr (stepW act) (some (c0, e0)) =
      (lt.foldr (stepW act) (some (1, e0))).map fun p => (p.1 * c0, p.2) := by
  induction lt with
  | nil => simp
  | cons f lt ih =>
    simp only [List.foldr_cons, ih]
    cases lt.foldr (stepW act) (some (1, e0)) with
    | none => rfl
    | some p =>
      obtain ⟨c, e⟩ := p
      simp only [Option.map_some, stepW]
      cases act f.1 f.2 e with
      | none => rfl
      | some q => obtain ⟨c', e''⟩ := q; simp only [Option.map_some]; congr 2; ring

theorem actTermWith_append (act : Nat → Nat → Mono → Option (GQ × Mono)) (lt rt : Term) (e : Mono) :
    actTermWith act (lt ++ rt) e =
      match actTermWith act rt e with
      | none => none
      | some (k, s') => match actTermWith act lt s' with
        | none => none
        | some (k', s'') => some (k' * k, s'') := by
  rw [actTermWith_eq act (lt ++ rt), List.foldr_append, ← actTermWith_eq act rt]
  cases hr : actTermWith act rt e with
  | none =>
    have : lt.foldr (stepW act) none = none := by
      induction lt with
      | nil => rfl
      | cons f lt ih => simp only [List.foldr_cons, ih]; rfl
    rw [this]
  | some p =>
    obtain ⟨c0, e0⟩ := p
    simp only
    rw [foldr_stepW_from, ← actTermWith_eq act lt e0]
    cases actTermWith act lt e0 with
    | none => rfl
    | some q => rfl

end ExprHom
end OFV
