/- C09: binary_code_transform with the linear built-in codes (Jordan-Wigner, Bravyi-Kitaev, parity):
structural hypotheses of binary_code_transform_sound and the resulting matrix-element statements. -/
import OFV.Proofs.C09Sum
import OFV.Proofs.C09Bk3
import OFV.Proofs.C09Parity
import OFV.Proofs.C09Checksum
import OFV.Proofs.C09Inter

namespace OFV.C09
open OFV.Model OFV.Model.C09 OFV.Spec.C09
open OFV.Spec (actF actFTerm countBelow melF)
open OFV.Sem (den)

/-! ### decoders made by `linearize_decoder` have no empty monomial -/

theorem checkTerms_vars_ne (cols : List Nat) : ∀ t ∈ checkTerms (cols.map fun c => [some c]), t ≠ [] := by
  unfold checkTerms
  suffices H : ∀ (l : List Nat) (acc : Poly), (∀ t ∈ acc, t ≠ []) →
      ∀ t ∈ (l.map fun c => [some c]).foldl (fun acc item => if item.isEmpty then acc else sumRule acc (canonTerm item)) acc,
        t ≠ [] from H cols [] (by simp)
  intro l
  induction l with
  | nil => intro acc h; exact h
  | cons c r ih =>
    intro acc h
    rw [List.map_cons, List.foldl_cons]
    apply ih
    intro t ht
    simp only [List.isEmpty_cons, Bool.false_eq_true, if_false, canonTerm_single] at ht
    rcases mem_sumRule acc [some c] t ht with h1 | h1
    · exact h t h1
    · rw [h1]; simp

theorem linearizeRow_ne (row : List Nat) (p : Poly) (h : linearizeRow row = .ok p) : ∀ t ∈ p, t ≠ [] := by
  unfold linearizeRow at h
  change (if (onesOf row).isEmpty then ofString [[]] else ofString ((onesOf row).map fun c => [Tok.var c])) = .ok p at h
  split at h
  · have : ofString [[]] = .ok [] := rfl
    rw [this] at h
    cases h
    simp
  · unfold ofString at h
    rw [mapM_parse_vars] at h
    simp only [bind, Except.bind, pure, Except.pure, Except.ok.injEq] at h
    subst h
    exact checkTerms_vars_ne _

theorem linearizeDecoder_ne (M : Mat) (ps : List Poly) (h : linearizeDecoder M = .ok ps) :
    ∀ p ∈ ps, ∀ t ∈ p, t ≠ [] := by
  unfold linearizeDecoder at h
  induction M generalizing ps with
  | nil =>
    simp only [List.mapM_nil, pure, Except.pure, Except.ok.injEq] at h
    subst h; simp
  | cons row M ih =>
    rw [List.mapM_cons] at h
    cases h1 : linearizeRow row with
    | error e => simp [h1, bind, Except.bind] at h
    | ok p =>
      cases h2 : M.mapM linearizeRow with
      | error e => simp [h1, h2, bind, Except.bind] at h
      | ok rest =>
        simp only [h1, h2, bind, Except.bind, pure, Except.pure, Except.ok.injEq] at h
        subst h
        intro q hq
        rcases List.mem_cons.mp hq with rfl | hq
        · exact linearizeRow_ne row q h1
        · exact ih rest h2 q hq

/-- the structural hypotheses of `binary_code_transform_sound` for a code built from a linearised decoder -/
theorem linear_code_structure (enc M : Mat) (nq nm : Nat) (ps : List Poly) (c : Code)
    (hps : linearizeDecoder M = .ok ps) (h : Code.mk' enc nq nm ps = .ok c) :
    c.dec.length = c.nm ∧ (∀ e ∈ c.dec, ∃ p, e = .poly p) ∧ (∀ e ∈ c.dec, ∀ t ∈ e.toPoly, t ≠ []) := by
  obtain ⟨rfl, hnm, _⟩ := mk'_ok enc nq nm ps c h
  refine ⟨by simp [hnm], ?_, ?_⟩
  · intro e he
    simp only [List.mem_map] at he
    obtain ⟨p, _, rfl⟩ := he
    exact ⟨p, rfl⟩
  · intro e he
    simp only [List.mem_map] at he
    obtain ⟨p, hp, rfl⟩ := he
    exact linearizeDecoder_ne M ps hps p hp

/-- a code valid on every 0/1 vector of length `n_modes`: the transform has the Spec matrix elements
between all encoded states -/
theorem bct_sound_total (c : Code) (h R : Op)
    (hst : c.dec.length = c.nm ∧ (∀ e ∈ c.dec, ∃ p, e = .poly p) ∧ (∀ e ∈ c.dec, ∀ t ∈ e.toPoly, t ≠ []))
    (hval : ∀ v : List Nat, v.length = c.nm → (∀ x ∈ v, x ≤ 1) → ValidOn c v)
    (hwf : ∀ tc ∈ h, ∀ f ∈ tc.1, f.2 ≤ 1 ∧ f.1 < c.nm)
    (hR : binaryCodeTransform 0 h c = .ok R) (s out wq xq : Nat) (hs : s < 2 ^ c.nm) (ho : out < 2 ^ c.nm)
    (hw : bitsOf wq = encFn c (occList s c.nm)) (hx : bitsOf xq = encFn c (occList out c.nm)) :
    den .qubit R [wq] [xq] = melF h out s := by
  have hbits : ∀ (m : Nat), m < 2 ^ c.nm → ∀ j, m.testBit j = ((occList m c.nm).getD j 0 == 1) := by
    intro m hm j
    rw [occList_getD]
    by_cases hj : j < c.nm
    · simp [hj]
    · have : m.testBit j = false :=
        Nat.testBit_lt_two_pow (Nat.lt_of_lt_of_le hm (Nat.pow_le_pow_right (by omega) (by omega)))
      simp [hj, this]
  exact bct_sound_encoded c h R (fun v => v.length = c.nm ∧ ∀ x ∈ v, x ≤ 1) hst.1 hst.2.1 hst.2.2
    (fun v hv => ⟨hv.1, hv.2, hval v hv.1 hv.2⟩) hwf (occList s c.nm) (occList out c.nm)
    ⟨occList_length _ _, occList_le _ _⟩ ⟨occList_length _ _, occList_le _ _⟩ wq xq s out hw hx
    (hbits s hs) (hbits out ho) (fun _ _ _ s' _ => ⟨occList_length _ _, occList_le _ _⟩) hR

/-! ### the three linear built-in codes -/

theorem jw_structure (n : Nat) (c : Code) (h : jordanWignerCode n = .ok c) :
    c.nm = n ∧ c.enc = identity n ∧
      (c.dec.length = c.nm ∧ (∀ e ∈ c.dec, ∃ p, e = .poly p) ∧ (∀ e ∈ c.dec, ∀ t ∈ e.toPoly, t ≠ [])) := by
  unfold jordanWignerCode at h
  obtain ⟨ps, hps, _, _⟩ := linearizeDecoder_sound (identity n)
  simp only [hps, bind, Except.bind] at h
  have hst := linear_code_structure _ _ _ _ _ _ hps h
  obtain ⟨rfl, _, _⟩ := mk'_ok _ _ _ _ _ h
  exact ⟨rfl, rfl, hst⟩

theorem bk_structure (n : Nat) (c : Code) (h : bravyiKitaevCode n = .ok c) :
    c.nm = n ∧ (c.dec.length = c.nm ∧ (∀ e ∈ c.dec, ∃ p, e = .poly p) ∧ (∀ e ∈ c.dec, ∀ t ∈ e.toPoly, t ≠ [])) := by
  unfold bravyiKitaevCode at h
  obtain ⟨ps, hps, _, _⟩ := linearizeDecoder_sound (decoderBk n)
  simp only [hps, bind, Except.bind] at h
  have hst := linear_code_structure _ _ _ _ _ _ hps h
  obtain ⟨rfl, _, _⟩ := mk'_ok _ _ _ _ _ h
  exact ⟨rfl, hst⟩

theorem parity_structure (n : Nat) (c : Code) (h : parityCode n = .ok c) :
    c.nm = n ∧ (c.dec.length = c.nm ∧ (∀ e ∈ c.dec, ∃ p, e = .poly p) ∧ (∀ e ∈ c.dec, ∀ t ∈ e.toPoly, t ≠ [])) := by
  unfold parityCode at h
  obtain ⟨ps, hps, _, _⟩ := linearizeDecoder_sound (parityDec n)
  simp only [hps, bind, Except.bind] at h
  have hst := linear_code_structure _ _ _ _ _ _ hps h
  obtain ⟨rfl, _, _⟩ := mk'_ok _ _ _ _ _ h
  exact ⟨rfl, hst⟩

/-- the Jordan-Wigner code encodes a Fock state as itself -/
theorem jw_encoding_id (n : Nat) (c : Code) (h : jordanWignerCode n = .ok c) (s : Nat) (hs : s < 2 ^ n) :
    bitsOf s = encFn c (occList s n) := by
  obtain ⟨_, henc, _⟩ := jw_structure n c h
  funext i
  show s.testBit i = _
  by_cases hi : i < n
  · rw [encFn_eq _ _ _ (by rw [henc]; simpa [identity] using hi), henc, getD_identity n i hi, dot_unit, if_pos hi,
      bit_eq _ (getD_le_one _ (occList_le s n) i), occList_getD]
    simp [hi]
  · have h1 : s.testBit i = false :=
      Nat.testBit_lt_two_pow (Nat.lt_of_lt_of_le hs (Nat.pow_le_pow_right (by omega) (by omega)))
    rw [h1]
    unfold encFn encode matVec
    rw [henc, List.getD_eq_getElem?_getD, List.getElem?_eq_none (by simp [identity]; omega)]
    rfl

/-- `binary_code_transform(h, jordan_wigner_code(n))` has the matrix elements of `h` in the occupation basis -/
theorem bct_jw_matrix' (n : Nat) (c : Code) (hc : jordanWignerCode n = .ok c) (h R : Op)
    (hwf : ∀ tc ∈ h, ∀ f ∈ tc.1, f.2 ≤ 1 ∧ f.1 < n) (hR : binaryCodeTransform 0 h c = .ok R)
    (s out : Nat) (hs : s < 2 ^ n) (ho : out < 2 ^ n) : den .qubit R [s] [out] = melF h out s := by
  obtain ⟨hnm, _, hst⟩ := jw_structure n c hc
  apply bct_sound_total c h R hst (fun v _ hb => jw_valid' n c hc v hb) (by rw [hnm]; exact hwf) hR s out s out
    (by rw [hnm]; exact hs) (by rw [hnm]; exact ho)
  · rw [hnm]; exact jw_encoding_id n c hc s hs
  · rw [hnm]; exact jw_encoding_id n c hc out ho

theorem bct_bk_matrix' (n : Nat) (c : Code) (hc : bravyiKitaevCode n = .ok c) (h R : Op)
    (hwf : ∀ tc ∈ h, ∀ f ∈ tc.1, f.2 ≤ 1 ∧ f.1 < n) (hR : binaryCodeTransform 0 h c = .ok R)
    (s out wq xq : Nat) (hs : s < 2 ^ n) (ho : out < 2 ^ n)
    (hw : bitsOf wq = encFn c (occList s n)) (hx : bitsOf xq = encFn c (occList out n)) :
    den .qubit R [wq] [xq] = melF h out s := by
  obtain ⟨hnm, hst⟩ := bk_structure n c hc
  exact bct_sound_total c h R hst (fun v hl hb => bk_valid' n c hc v (by rw [hl, hnm]) hb) (by rw [hnm]; exact hwf) hR
    s out wq xq (by rw [hnm]; exact hs) (by rw [hnm]; exact ho) (by rw [hnm]; exact hw) (by rw [hnm]; exact hx)

theorem bct_parity_matrix' (n : Nat) (c : Code) (hc : parityCode n = .ok c) (h R : Op)
    (hwf : ∀ tc ∈ h, ∀ f ∈ tc.1, f.2 ≤ 1 ∧ f.1 < n) (hR : binaryCodeTransform 0 h c = .ok R)
    (s out wq xq : Nat) (hs : s < 2 ^ n) (ho : out < 2 ^ n)
    (hw : bitsOf wq = encFn c (occList s n)) (hx : bitsOf xq = encFn c (occList out n)) :
    den .qubit R [wq] [xq] = melF h out s := by
  obtain ⟨hnm, hst⟩ := parity_structure n c hc
  exact bct_sound_total c h R hst (fun v hl hb => parity_valid' n c hc v (by rw [hl, hnm]) hb) (by rw [hnm]; exact hwf) hR
    s out wq xq (by rw [hnm]; exact hs) (by rw [hnm]; exact ho) (by rw [hnm]; exact hw) (by rw [hnm]; exact hx)

/-! ### interleaved and checksum codes -/

theorem interleaved_structure (m : Nat) (c : Code) (h : interleavedCode m = .ok c) :
    c.nm = m ∧ (c.dec.length = c.nm ∧ (∀ e ∈ c.dec, ∃ p, e = .poly p) ∧ (∀ e ∈ c.dec, ∀ t ∈ e.toPoly, t ≠ [])) := by
  unfold interleavedCode at h
  split at h
  · cases h
  · split at h
    · cases h
    · obtain ⟨ps, hps, _, _⟩ := linearizeDecoder_sound (transpose m (interleavedMat m))
      simp only [hps, bind, Except.bind] at h
      have hst := linear_code_structure _ _ _ _ _ _ hps h
      obtain ⟨rfl, _, _⟩ := mk'_ok _ _ _ _ _ h
      exact ⟨rfl, hst⟩

theorem bct_interleaved_matrix' (hh : Nat) (c : Code) (hc : interleavedCode (2 * hh) = .ok c) (h R : Op)
    (hwf : ∀ tc ∈ h, ∀ f ∈ tc.1, f.2 ≤ 1 ∧ f.1 < 2 * hh) (hR : binaryCodeTransform 0 h c = .ok R)
    (s out wq xq : Nat) (hs : s < 2 ^ (2 * hh)) (ho : out < 2 ^ (2 * hh))
    (hw : bitsOf wq = encFn c (occList s (2 * hh))) (hx : bitsOf xq = encFn c (occList out (2 * hh))) :
    den .qubit R [wq] [xq] = melF h out s := by
  obtain ⟨hnm, hst⟩ := interleaved_structure (2 * hh) c hc
  exact bct_sound_total c h R hst (fun v _ hb => interleaved_valid' hh c hc v hb) (by rw [hnm]; exact hwf) hR
    s out wq xq (by rw [hnm]; exact hs) (by rw [hnm]; exact ho) (by rw [hnm]; exact hw) (by rw [hnm]; exact hx)

theorem allIn_ne (ms : List Nat) (start p : Poly) (hs : ∀ t ∈ start, t ≠ [])
    (h : ms.foldlM allInStep start = .ok p) : ∀ t ∈ p, t ≠ [] := by
  induction ms generalizing start with
  | nil =>
    simp only [List.foldlM_nil, pure, Except.pure, Except.ok.injEq] at h
    subst h; exact hs
  | cons m r ih =>
    rw [List.foldlM_cons] at h
    have hstep : allInStep start m = .ok (iadd start [[some m]]) := by
      unfold allInStep; rw [ofString_var]; rfl
    rw [hstep] at h
    apply ih (iadd start [[some m]]) ?_ h
    intro t ht
    rcases mem_iadd start [[some m]] t ht with h1 | h1
    · exact hs t h1
    · simp at h1; rw [h1]; simp

theorem checksum_structure (n : Nat) (odd : Bool) (c : Code) (h : checksumCode n odd = .ok c) :
    c.nm = n ∧ (c.dec.length = c.nm ∧ (∀ e ∈ c.dec, ∃ p, e = .poly p) ∧ (∀ e ∈ c.dec, ∀ t ∈ e.toPoly, t ≠ [])) := by
  unfold checksumCode at h
  split at h
  · cases h
  · cases hd : decoderChecksum n odd with
    | error e => simp [hd, bind, Except.bind] at h
    | ok ps =>
      simp only [hd, bind, Except.bind] at h
      obtain ⟨rfl, hnm, _⟩ := mk'_ok _ _ _ _ _ h
      have hne : ∀ p ∈ ps, ∀ t ∈ p, t ≠ [] := by
        unfold decoderChecksum at hd
        have hstart : checksumStart odd = .ok (if odd then [[none]] else []) := by cases odd <;> rfl
        rw [hstart] at hd
        simp only [bind, Except.bind] at hd
        cases ha : (List.range (n - 1)).foldlM allInStep (if odd then [[none]] else []) with
        | error e => simp [ha] at hd
        | ok allIn =>
          cases hl : linearizeDecoder (identity (n - 1)) with
          | error e => simp [ha, hl] at hd
          | ok djw =>
            simp only [ha, hl, pure, Except.pure, Except.ok.injEq] at hd
            subst hd
            intro p hp
            rcases List.mem_append.mp hp with hp | hp
            · exact linearizeDecoder_ne _ _ hl p hp
            · simp at hp; subst hp
              apply allIn_ne _ _ _ ?_ ha
              cases odd <;> simp
      refine ⟨rfl, by simp [hnm], ?_, ?_⟩
      · intro e he
        simp only [List.mem_map] at he
        obtain ⟨p, _, rfl⟩ := he
        exact ⟨p, rfl⟩
      · intro e he
        simp only [List.mem_map] at he
        obtain ⟨p, hp, rfl⟩ := he
        exact hne p hp

/-- `checksum_code(n, odd)`: for a Hamiltonian whose terms keep the parity of the particle number, the transform
has the Spec matrix elements between the encoded states of the parity sector -/
theorem bct_checksum_matrix' (n : Nat) (odd : Bool) (c : Code) (hc : checksumCode n odd = .ok c) (h R : Op)
    (hwf : ∀ tc ∈ h, ∀ f ∈ tc.1, f.2 ≤ 1 ∧ f.1 < n) (hR : binaryCodeTransform 0 h c = .ok R)
    (s out wq xq : Nat) (hs : s < 2 ^ n) (ho : out < 2 ^ n)
    (hps : ((occList s n).sum % 2 == 1) = odd) (hpo : ((occList out n).sum % 2 == 1) = odd)
    (hpres : ∀ tc ∈ h, ∀ k s', actFTerm tc.1 s = some (k, s') → ((occList s' n).sum % 2 == 1) = odd)
    (hw : bitsOf wq = encFn c (occList s n)) (hx : bitsOf xq = encFn c (occList out n)) :
    den .qubit R [wq] [xq] = melF h out s := by
  obtain ⟨hnm, hst⟩ := checksum_structure n odd c hc
  have hbits : ∀ (m : Nat), m < 2 ^ n → ∀ j, m.testBit j = ((occList m n).getD j 0 == 1) := by
    intro m hm j
    rw [occList_getD]
    by_cases hj : j < n
    · simp [hj]
    · have : m.testBit j = false :=
        Nat.testBit_lt_two_pow (Nat.lt_of_lt_of_le hm (Nat.pow_le_pow_right (by omega) (by omega)))
      simp [hj, this]
  exact bct_sound_encoded c h R (fun v => v.length = n ∧ (∀ x ∈ v, x ≤ 1) ∧ ((v.sum % 2 == 1) = odd))
    hst.1 hst.2.1 hst.2.2
    (fun v hv => ⟨by rw [hnm]; exact hv.1, hv.2.1, checksum_valid' n odd c hc v hv.1 hv.2.1 hv.2.2⟩)
    (by rw [hnm]; exact hwf) (occList s n) (occList out n)
    ⟨occList_length _ _, occList_le _ _, hps⟩ ⟨occList_length _ _, occList_le _ _, hpo⟩ wq xq s out hw hx
    (hbits s hs) (hbits out ho)
    (fun tc htc k s' hact => by rw [hnm]; exact ⟨occList_length _ _, occList_le _ _, hpres tc htc k s' hact⟩) hR

end OFV.C09
