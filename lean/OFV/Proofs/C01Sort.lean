/- Helper lemmas for C01: the stable insertion sort of `_simplify` and invariance of
   any "different indices commute" action under it.  Core Lean only. -/
import OFV.Model.Symbolic

namespace OFV
namespace Model

theorem insertF_perm (f : Factor) (t : Term) : (insertF f t).Perm (f :: t) := by
  induction t with
  | nil => simp [insertF]
  | cons g r ih =>
    simp only [insertF]
    split
    · exact List.Perm.refl _
    · exact (List.Perm.cons g ih).trans (List.Perm.swap f g r)

theorem sortF_perm (t : Term) : (sortF t).Perm t := by
  induction t with
  | nil => simp [sortF]
  | cons f r ih => exact (insertF_perm f (sortF r)).trans (List.Perm.cons f ih)

/-- indices non-decreasing -/
def SortedIdx (t : Term) : Prop := t.Pairwise (fun a b => a.1 ≤ b.1)

theorem insertF_sorted (f : Factor) (t : Term) (h : SortedIdx t) : SortedIdx (insertF f t) := by
  induction t with
  | nil => simp [insertF, SortedIdx]
  | cons g r ih =>
    simp only [insertF]
    split
    · rename_i hfg
      simp only [SortedIdx, List.pairwise_cons] at h ⊢
      refine ⟨?_, h⟩
      intro x hx
      rcases List.mem_cons.mp hx with rfl | hx
      · exact hfg
      · exact Nat.le_trans hfg (h.1 x hx)
    · rename_i hfg
      simp only [SortedIdx, List.pairwise_cons] at h ⊢
      refine ⟨?_, ih h.2⟩
      intro x hx
      have := (insertF_perm f r).mem_iff.mp hx
      rcases List.mem_cons.mp this with rfl | hx'
      · omega
      · exact h.1 x hx'

theorem sortF_sorted (t : Term) : SortedIdx (sortF t) := by
  induction t with
  | nil => simp [sortF, SortedIdx]
  | cons f r ih => exact insertF_sorted f _ ih

/-- Any state action in which factors on different indices commute is invariant under
    the sort: `foldr` semantics = leftmost factor applied last. -/
theorem foldr_insertF {σ : Type} (act : Factor → σ → σ)
    (hc : ∀ f g x, f.1 ≠ g.1 → act f (act g x) = act g (act f x))
    (f : Factor) (t : Term) (x : σ) :
    (insertF f t).foldr act x = act f (t.foldr act x) := by
  induction t with
  | nil => simp [insertF]
  | cons g r ih =>
    simp only [insertF]
    split
    · rfl
    · rename_i hfg
      simp only [List.foldr_cons, ih]
      exact (hc f g _ (by omega)).symm

theorem foldr_sortF {σ : Type} (act : Factor → σ → σ)
    (hc : ∀ f g x, f.1 ≠ g.1 → act f (act g x) = act g (act f x))
    (t : Term) (x : σ) :
    (sortF t).foldr act x = t.foldr act x := by
  induction t with
  | nil => simp [sortF]
  | cons f r ih => simp only [sortF, foldr_insertF act hc, ih, List.foldr_cons]

end Model
end OFV
