/-
`reverse_jordan_wigner`, part 2: `FermionOperator.__imul__` denotes the operator product; the fermionic
images of single Paulis.
-/
import OFV.Proofs.C04Rev

namespace OFV
namespace Sem
open Spec Model Model.C04

theorem actFTerm_append (t u : List (Nat × Nat)) (m : Nat) :
    actFTerm (t ++ u) m = match actFTerm u m with
      | none => none
      | some (k, m') => match actFTerm t m' with
        | none => none
        | some (k', m'') => some ((k + k') % 2, m'') := by
  induction t with
  | nil =>
    simp only [List.nil_append]
    cases h : actFTerm u m with
    | none => rfl
    | some km =>
      obtain ⟨k, m'⟩ := km
      simp only [actFTerm, List.foldr_nil, Nat.add_zero]
      -- the accumulated sign is already reduced mod 2
      have hk : k % 2 = k := by
        cases u with
        | nil => simp [actFTerm] at h; omega
        | cons f r =>
          simp only [actFTerm, List.foldr_cons] at h
          split at h
          · simp at h
          · split at h
            · simp at h
            · simp only [Option.some.injEq, Prod.mk.injEq] at h; omega
      rw [hk]
  | cons f t ih =>
    simp only [List.cons_append]
    have e : ∀ v s, actFTerm (f :: v) s = match actFTerm v s with
        | none => none
        | some (k, s') => match actF f.1 f.2 s' with
          | none => none
          | some (k', s'') => some ((k + k') % 2, s'') := fun v s => rfl
    rw [e, ih]
    cases actFTerm u m with
    | none => rfl
    | some km =>
      obtain ⟨k, m'⟩ := km
      simp only
      rw [e]
      cases actFTerm t m' with
      | none => rfl
      | some km2 =>
        obtain ⟨k2, m2⟩ := km2
        simp only
        cases actF f.1 f.2 m2 with
        | none => rfl
        | some km3 => obtain ⟨k3, m3⟩ := km3; simp only; congr 2; omega

theorem termCoef_fermion_append (lt rt : List (Nat × Nat)) (m x : Nat) :
    termCoef .fermion (lt ++ rt) [m] [x]
      = match actFTerm rt m with
        | none => 0
        | some (k, m') => GQ.sgn k * termCoef .fermion lt [m'] [x] := by
  rw [termCoef_fermion, actFTerm_append]
  cases actFTerm rt m with
  | none => rfl
  | some km =>
    obtain ⟨k, m'⟩ := km
    simp only
    rw [termCoef_fermion]
    cases actFTerm lt m' with
    | none => simp
    | some km2 =>
      obtain ⟨k2, m2⟩ := km2
      simp only
      split
      · rw [sgn_add]
      · simp

theorem den_mulOpF_inner (lt : List (Nat × Nat)) (lc : GQ) (b acc : Op) (s x : St) :
    den .fermion (b.foldl (fun acc2 (r : List (Nat × Nat) × GQ) =>
      accum acc2 (simplify .fermion (lt ++ r.1)).2 (lc * r.2 * (simplify .fermion (lt ++ r.1)).1)) acc) s x
    = den .fermion acc s x + (b.map fun r => lc * r.2 * termCoef .fermion (lt ++ r.1) s x).sum := by
  induction b generalizing acc with
  | nil => simp
  | cons r b ih =>
    simp only [List.foldl_cons, List.map_cons, List.sum_cons]
    rw [ih, den_accum]
    simp only [simplify]
    ring

theorem den_mulOpF (a b : Op) (s x : St) :
    den .fermion (mulOp .fermion a b) s x
      = (a.map fun l => (b.map fun r => l.2 * r.2 * termCoef .fermion (l.1 ++ r.1) s x).sum).sum := by
  unfold mulOp
  suffices h : ∀ acc, den .fermion (a.foldl (fun acc (l : List (Nat × Nat) × GQ) =>
      b.foldl (fun acc2 (r : List (Nat × Nat) × GQ) =>
        accum acc2 (simplify .fermion (l.1 ++ r.1)).2 (l.2 * r.2 * (simplify .fermion (l.1 ++ r.1)).1)) acc) acc) s x
      = den .fermion acc s x
        + (a.map fun l => (b.map fun r => l.2 * r.2 * termCoef .fermion (l.1 ++ r.1) s x).sum).sum by
    have := h []
    rw [den_nil, zero_add] at this
    exact this
  induction a with
  | nil => intro acc; simp
  | cons l a ih =>
    intro acc
    simp only [List.foldl_cons, List.map_cons, List.sum_cons]
    rw [ih, den_mulOpF_inner]
    ring

/-- fermionic product, right factor applied first -/
theorem den_mulOpF_right (a b : Op) (m x : Nat) :
    den .fermion (mulOp .fermion a b) [m] [x]
      = (b.map fun r => r.2 * (match actFTerm r.1 m with
          | none => 0
          | some (k, m') => GQ.sgn k * den .fermion a [m'] [x])).sum := by
  rw [den_mulOpF, sum_swap]
  congr 1
  apply List.map_congr_left
  intro r _
  cases h : actFTerm r.1 m with
  | none =>
    simp only [mul_zero]
    apply sum_zero_map
    intro l _
    rw [termCoef_fermion_append, h]; ring
  | some km =>
    obtain ⟨k, m'⟩ := km
    simp only
    rw [den_eq_sum, ← sum_map_mul_left', ← sum_map_mul_left']
    congr 1
    apply List.map_congr_left
    intro l _
    rw [termCoef_fermion_append, h]; ring

end Sem
end OFV
