/- Helper lemmas for C17: the truncation list arithmetic (cumsum / errors / argmax). -/
import OFV.Model.C17
import OFV.Spec.C17
import Mathlib.Tactic.Linarith
import Mathlib.Tactic.Ring
import Mathlib.Algebra.Order.Field.Rat

namespace OFV
namespace Model
namespace C17
open Spec.C17

theorem cumsumFrom_length (acc : Rat) (ws : List Rat) : (cumsumFrom acc ws).length = ws.length := by
  induction ws generalizing acc with
  | nil => rfl
  | cons w ws ih => simp [cumsumFrom, ih]

theorem cumsumFrom_get (acc : Rat) (ws : List Rat) (i : Nat) (hi : i < ws.length) :
    (cumsumFrom acc ws)[i]? = some (acc + (ws.take (i + 1)).sum) := by
  induction ws generalizing acc i with
  | nil => simp at hi
  | cons w ws ih =>
    cases i with
    | zero => simp [cumsumFrom]
    | succ i =>
      simp only [cumsumFrom, List.getElem?_cons_succ]
      rw [ih (acc + w) i (by simpa using hi)]
      simp [List.take_succ_cons]; ring

theorem cumsumFrom_getLastD (acc : Rat) (ws : List Rat) (h : ws ≠ []) :
    (cumsumFrom acc ws).getLastD 0 = acc + ws.sum := by
  induction ws generalizing acc with
  | nil => exact absurd rfl h
  | cons w ws ih =>
    cases ws with
    | nil => simp [cumsumFrom]
    | cons w' ws' =>
      have := ih (acc + w) (by simp)
      simp only [cumsumFrom] at this ⊢
      simp only [List.getLastD_cons] at this ⊢
      rw [this]; simp; ring

theorem sum_take_drop (ws : List Rat) (k : Nat) : (ws.take k).sum + (ws.drop k).sum = ws.sum := by
  rw [← List.sum_append, List.take_append_drop]

/-- entry `i` of `truncation_errors` is the weight of the terms after the first `i + 1` -/
theorem truncationErrors_get (ws : List Rat) (i : Nat) (hi : i < ws.length) :
    (truncationErrors ws)[i]? = some ((ws.drop (i + 1)).sum) := by
  have hne : ws ≠ [] := by intro h; rw [h] at hi; simp at hi
  unfold truncationErrors cumsum
  simp only [List.getElem?_map, cumsumFrom_get 0 ws i hi, cumsumFrom_getLastD 0 ws hne, Option.map_some]
  congr 1
  have := sum_take_drop ws (i + 1)
  linarith

theorem truncationErrors_length (ws : List Rat) : (truncationErrors ws).length = ws.length := by
  unfold truncationErrors cumsum; simp [cumsumFrom_length]

theorem truncationErrors_getLast (ws : List Rat) (h : ws ≠ []) : (truncationErrors ws).getLast? = some 0 := by
  have hl : ws.length - 1 < ws.length := by
    have : 0 < ws.length := List.length_pos_iff.mpr h
    omega
  rw [List.getLast?_eq_getElem?, truncationErrors_length, truncationErrors_get ws _ hl]
  have : ws.length - 1 + 1 = ws.length := by omega
  rw [this, List.drop_length]; rfl

theorem getLast?_of_getLastD (l : List Rat) (h : l ≠ []) : l.getLast? = some (l.getLastD 0) := by
  cases l with
  | nil => exact absurd rfl h
  | cons x xs => simp [List.getLast?_cons, List.getLastD_cons]

/-- `cumulative_error_sum[-1]` is the total weight -/
theorem cumsum_getLast (ws : List Rat) (h : ws ≠ []) : (cumsum ws).getLast? = some ws.sum := by
  have hne : cumsum ws ≠ [] := by
    intro h0
    have := congrArg List.length h0
    unfold cumsum at this
    rw [cumsumFrom_length] at this
    exact h (List.length_eq_zero_iff.mp this)
  rw [getLast?_of_getLastD _ hne]
  unfold cumsum
  rw [cumsumFrom_getLastD 0 ws h]; simp

/-- `argmaxTrue` returns the first `true`, if there is one -/
theorem argmaxTrue_spec : ∀ (bs : List Bool), bs.any id = true →
    bs[argmaxTrue bs]? = some true ∧ ∀ j, j < argmaxTrue bs → bs[j]? = some false := by
  intro bs
  induction bs with
  | nil => intro h; simp at h
  | cons b rest ih =>
    intro h
    unfold argmaxTrue
    cases b with
    | true => simp
    | false =>
      have hr : rest.any id = true := by simpa using h
      simp only [hr, if_true, Bool.false_eq_true, if_false]
      obtain ⟨h1, h2⟩ := ih hr
      constructor
      · rw [Nat.add_comm]; simpa using h1
      · intro j hj
        cases j with
        | zero => simp
        | succ j => simp only [List.getElem?_cons_succ]; exact h2 j (by omega)

end C17
end Model
end OFV
