/- `_seeley_richard_love`, case by case: the four strings of each branch are the four product strings. -/
import OFV.Proofs.C05SrlProd

set_option linter.unusedSimpArgs false
set_option linter.unusedVariables false

namespace OFV
namespace BK
open Model Model.C05 Spec Sem

/-! ### `_qubit_operator_creation` on an exact run -/

def δ (x : Nat) : Nat → GQ := fun y => if y = x then 1 else 0

theorem termCoef_φW (t : List (Nat × Nat)) (m x : Nat) : termCoef .qubit t [m] [x] = φW m (δ x) t := by
  rw [termCoef_qubit]; unfold φW δ; split <;> simp

theorem den_qoc (tol : Rat) (ops : List (List (Nat × Nat))) (coefs : List GQ) (hv : ∀ t ∈ ops, ValidQ t)
    (hok : qocOk tol ops coefs = true) (m x : Nat) :
    den .qubit (qubitOperatorCreation tol ops coefs) [m] [x]
      = ((ops.zip coefs).map fun tc => tc.2 * φW m (δ x) tc.1).sum := by
  have e : qubitOperatorCreation tol ops coefs
      = ((ops.zip coefs).map fun tc => mk .qubit tc.1 tc.2).foldl (fun acc img => iadd tol acc img) [] := by
    unfold qubitOperatorCreation; rw [List.foldl_map]
  rw [e, den_sum_ok .qubit tol _ _ _ hok, List.map_map]
  congr 1
  apply List.map_congr_left
  intro tc htc
  have hm : tc.1 ∈ ops := (List.of_mem_zip htc).1
  simp only [Function.comp]
  rw [den_mk _ (hv _ hm), termCoef_φW]

theorem bkTerm_hop' (tol : Rat) (htol : tol * tol ≤ 1 / 4) (n i j : Nat) (hi : i < n) (hj : j < n)
    (c : GQ) (s x : Nat) :
    den .qubit (bkTerm tol n [(i, 1), (j, 0)] c) [Spec.C05.enc .bk n s] [x] = c * hopAct n i j s (δ x) :=
  bkTerm_hop tol htol n i j hi hj c s x

theorem validQ_append {a b : List (Nat × Nat)} (ha : ValidQ a) (hb : ValidQ b) : ValidQ (a ++ b) := by
  intro f hf
  rcases List.mem_append.1 hf with h | h
  · exact ha f h
  · exact hb f h

theorem validQ_cons {f : Nat × Nat} {b : List (Nat × Nat)} (hf : f.2 < 4) (hb : ValidQ b) : ValidQ (f :: b) := by
  intro g hg
  rcases List.mem_cons.1 hg with rfl | h
  · exact hf
  · exact hb g h

theorem validQ_nil : ValidQ [] := fun _ h => by simp at h

syntax "vq" : tactic
macro_rules
  | `(tactic| vq) => `(tactic| first
      | exact validQ_nil
      | exact pad_valid _ (by decide) _
      | (apply validQ_append <;> vq)
      | (apply validQ_cons (by simp); vq))

/-! ### reading off the branch conditions -/

def tagB (eq ie je p u : Bool) : Nat :=
  if eq then 0
  else if ie && je then 1
  else if !ie && je && !p then 2
  else if !ie && je && p then 3
  else if ie && !je && !p && !u then 4
  else if ie && !je && !p && u then 5
  else if ie && !je && p && u then 6
  else if !ie && !je && !p && !u then 7
  else if !ie && !je && p && !u then 8
  else if !ie && !je && !p && u then 9
  else if !ie && !je && p && u then 10
  else 11

theorem srlTag_tagB (i j n : Nat) :
    srlTag i j n = tagB (decide (i = j)) (decide (i % 2 = 0)) (decide (j % 2 = 0)) (decide (i ∈ paritySet j))
      (decide (j ∈ updateSet i n)) := by
  unfold srlTag tagB
  have e1 : (i == j) = decide (i = j) := by by_cases h : i = j <;> simp [h]
  have e2 : (i % 2 == 0) = decide (i % 2 = 0) := by by_cases h : i % 2 = 0 <;> simp [h]
  have e3 : (j % 2 == 0) = decide (j % 2 = 0) := by by_cases h : j % 2 = 0 <;> simp [h]
  have e4 : (paritySet j).contains i = decide (i ∈ paritySet j) := by
    by_cases h : i ∈ paritySet j <;> simp [h]
  have e5 : (updateSet i n).contains j = decide (j ∈ updateSet i n) := by
    by_cases h : j ∈ updateSet i n <;> simp [h]
  simp only [e1, e2, e3, e4, e5]

theorem tagB_spec : ∀ eq ie je p u : Bool, ∀ k, tagB eq ie je p u = k →
    (k = 0 → eq = true) ∧
    (k = 1 → eq = false ∧ ie = true ∧ je = true) ∧
    (k = 2 → eq = false ∧ ie = false ∧ je = true ∧ p = false) ∧
    (k = 3 → eq = false ∧ ie = false ∧ je = true ∧ p = true) ∧
    (k = 4 → eq = false ∧ ie = true ∧ je = false ∧ p = false ∧ u = false) ∧
    (k = 5 → eq = false ∧ ie = true ∧ je = false ∧ p = false ∧ u = true) ∧
    (k = 6 → eq = false ∧ ie = true ∧ je = false ∧ p = true ∧ u = true) ∧
    (k = 7 → eq = false ∧ ie = false ∧ je = false ∧ p = false ∧ u = false) ∧
    (k = 8 → eq = false ∧ ie = false ∧ je = false ∧ p = true ∧ u = false) ∧
    (k = 9 → eq = false ∧ ie = false ∧ je = false ∧ p = false ∧ u = true) ∧
    (k = 10 → eq = false ∧ ie = false ∧ je = false ∧ p = true ∧ u = true) := by
  intro eq ie je p u k h
  subst h
  cases eq <;> cases ie <;> cases je <;> cases p <;> cases u <;> simp [tagB]

/-! ### tactics -/

syntax "srt" : tactic
macro_rules
  | `(tactic| srt) => `(tactic| first
      | exact srt_update _ _ | exact srt_parity _ | exact srt_occ _ | exact srt_upd' _ _ | exact srt_single _
      | exact srt_nil
      | (apply srt_diff; srt) | (apply srt_inter; srt) | (apply srt_union; srt) | (apply srt_symDiff; srt)
      | (apply srt_insertS; srt))

theorem self_update (i n : Nat) : decide (i ∈ updateSet i n) = false := by
  simp only [decide_eq_false_iff_not]; intro h; have := (updateSet_mem i n i).1 h; omega
theorem self_parity (i : Nat) : decide (i ∈ paritySet i) = false := by
  simp only [decide_eq_false_iff_not]; intro h; have := paritySet_lt i i h; omega
theorem self_occ (i : Nat) : decide (i ∈ occupationSet i) = true := by
  simp only [decide_eq_true_eq]; exact occupationSet_mem_self i
theorem self_eq (i : Nat) : decide (i = i) = true := by simp

/-- reduce a pointwise statement about supports to Boolean atoms -/
macro "nf_atoms" : tactic => `(tactic| (
  simp only [uDiffA, p0DiffA, uSet, p0Set, p1Set, p2Set, p3Set, remainderSet, alphaSet,
    xl_append, zl_append, xl_pad1, xl_pad2, xl_pad3, zl_pad1, zl_pad2, zl_pad3, xl_cons, zl_cons, xl_nil, zl_nil,
    xl_T1, xl_T2, zl_T1, zl_T2, isX, isZ,
    show ((1 : Nat) == 1) = true from rfl, show ((1 : Nat) == 2) = false from rfl, show ((1 : Nat) == 3) = false from rfl,
    show ((2 : Nat) == 1) = false from rfl, show ((2 : Nat) == 2) = true from rfl, show ((2 : Nat) == 3) = false from rfl,
    show ((3 : Nat) == 1) = false from rfl, show ((3 : Nat) == 2) = false from rfl, show ((3 : Nat) == 3) = true from rfl,
    Bool.or_true, Bool.true_or, Bool.or_false, Bool.false_or, if_true, if_false, Bool.false_eq_true,
    List.append_nil, List.nil_append, cpar_append, cpar_cons, cpar_nil]
  try simp (disch := srt) only [cpar_sorted]
  try simp only [diff_mem, symDiff_mem, inter_mem, union_mem, upd'_mem, List.mem_singleton, List.mem_cons, List.not_mem_nil,
    Bool.decide_and, Bool.decide_or, decide_not, or_false, false_or]))

set_option hygiene false in
/-- generalise the Boolean atoms in `F` (the point facts) and the goal, then decide -/
macro "bk_decide" : tactic => `(tactic| (
  try generalize decide (q ∈ updateSet i n) = ui at F ⊢
  try generalize decide (q ∈ updateSet j n) = uj at F ⊢
  try generalize decide (q ∈ paritySet i) = pi at F ⊢
  try generalize decide (q ∈ paritySet j) = pj at F ⊢
  try generalize decide (q ∈ occupationSet i) = oi at F ⊢
  try generalize decide (q ∈ occupationSet j) = oj at F ⊢
  try generalize decide (j ∈ updateSet i n) = gUi_j at F ⊢
  try generalize decide (i ∈ updateSet j n) = gUj_i at F ⊢
  try generalize decide (j ∈ paritySet i) = gPi_j at F ⊢
  try generalize decide (i ∈ paritySet j) = gPj_i at F ⊢
  try generalize decide (j ∈ occupationSet i) = gOi_j at F ⊢
  try generalize decide (i ∈ occupationSet j) = gOj_i at F ⊢
  try generalize decide (i < j) = lt at F ⊢
  try generalize decide (i % 2 = 0) = ie at F ⊢
  try generalize decide (j % 2 = 0) = je at F ⊢
  revert F
  decide +revert))

set_option hygiene false in
/-- pointwise comparison of supports: split on `q = i`, `q = j`, otherwise; the hypotheses in the list are
Boolean equations fixing global atoms (case conditions) -/
syntax "bk_point" "[" Lean.Parser.Tactic.simpLemma,* "]" : tactic
set_option hygiene false in
macro_rules
  | `(tactic| bk_point [$hs,*]) => `(tactic| (
      intro q
      have F := pt_facts i j n q hi hj hij
      nf_atoms
      by_cases hqi : i = q
      · subst hqi
        try simp only [self_update, self_parity, self_occ, self_eq, hne1, hne2, $hs,*] at F ⊢
        first | done | bk_decide
      · by_cases hqj : j = q
        · subst hqj
          try simp only [self_update, self_parity, self_occ, self_eq, hne1, hne2, $hs,*] at F ⊢
          first | done | bk_decide
        · have hqi' : decide (q = i) = false := decide_eq_false (fun h => hqi h.symm)
          have hqj' : decide (q = j) = false := decide_eq_false (fun h => hqj h.symm)
          try simp only [hqi', hqj', $hs,*] at F ⊢
          first | done | bk_decide))

/-! ### global consequences of the order of `i` and `j` -/

theorem lt_globals (i j n : Nat) (h : i < j) :
    decide (i ∈ updateSet j n) = false ∧ decide (j ∈ paritySet i) = false ∧ decide (j ∈ occupationSet i) = false ∧
    decide (i < j) = true ∧ (if j < i then 1 else 0 : Nat) = 0 := by
  refine ⟨?_, ?_, ?_, ?_, ?_⟩
  · simp only [decide_eq_false_iff_not]; intro h'; have := (updateSet_mem j n i).1 h'; omega
  · simp only [decide_eq_false_iff_not]; intro h'; have := paritySet_lt i j h'; omega
  · simp only [decide_eq_false_iff_not]; intro h'; have := occupationSet_le i j h'; omega
  · simp [h]
  · have : ¬ j < i := by omega
    simp [this]

theorem gt_globals (i j n : Nat) (h : j < i) :
    decide (j ∈ updateSet i n) = false ∧ decide (i ∈ paritySet j) = false ∧ decide (i ∈ occupationSet j) = false ∧
    decide (i < j) = false ∧ (if j < i then 1 else 0 : Nat) = 1 := by
  refine ⟨?_, ?_, ?_, ?_, ?_⟩
  · simp only [decide_eq_false_iff_not]; intro h'; have := (updateSet_mem i n j).1 h'; omega
  · simp only [decide_eq_false_iff_not]; intro h'; have := paritySet_lt j i h'; omega
  · simp only [decide_eq_false_iff_not]; intro h'; have := occupationSet_le j i h'; omega
  · have : ¬ i < j := by omega
    simp [this]
  · simp [h]

/-- the element of `alpha` differs from `i` and `j` -/
theorem alpha_atoms (i j n a : Nat) (h1 : a ∈ updateSet i n) (h2 : a ∈ paritySet j) :
    decide (a = i) = false ∧ decide (i = a) = false ∧ decide (a = j) = false ∧ decide (j = a) = false := by
  have := (updateSet_mem i n a).1 h1
  have := paritySet_lt j a h2
  refine ⟨?_, ?_, ?_, ?_⟩ <;> simp only [decide_eq_false_iff_not] <;> omega

theorem count_sorted (x : Nat) (S : List Nat) (h : Srt S) : S.count x = (decide (x ∈ S)).toNat := by
  by_cases hm : x ∈ S
  · rw [List.count_eq_one_of_mem (nodup_of_sorted h) hm]; simp [hm]
  · rw [List.count_eq_zero_of_not_mem hm]; simp [hm]

theorem count_cons' (a b : Nat) (l : List Nat) : (b :: l).count a = l.count a + (decide (a = b)).toNat := by
  rw [List.count_cons]
  by_cases h : a = b
  · subst h; simp
  · have : ¬ b = a := fun h' => h h'.symm
    simp [h, this]

theorem nfk_cons' (f : Nat × Nat) (r : List (Nat × Nat)) :
    nfk (f :: r) = nfk r + (if f.2 = 2 then 1 else 0) + (if isZ f.2 then 2 * (xl r).count f.1 else 0) := rfl

set_option hygiene false in
macro "bk_decide2" : tactic => `(tactic| (
  try generalize decide (j ∈ updateSet i n) = gUi_j at F1 F2 ⊢
  try generalize decide (i ∈ updateSet j n) = gUj_i at F1 F2 ⊢
  try generalize decide (j ∈ paritySet i) = gPi_j at F1 F2 ⊢
  try generalize decide (i ∈ paritySet j) = gPj_i at F1 F2 ⊢
  try generalize decide (j ∈ occupationSet i) = gOi_j at F1 F2 ⊢
  try generalize decide (i ∈ occupationSet j) = gOj_i at F1 F2 ⊢
  try generalize decide (i < j) = lt at F1 F2 ⊢
  try generalize decide (i % 2 = 0) = ie at F1 F2 ⊢
  try generalize decide (j % 2 = 0) = je at F1 F2 ⊢
  revert F1 F2
  decide +revert))

/-- phase comparison `nfk t % 4 = (nfk (T_a ++ T_b) + d) % 4` -/
syntax "bk_phase" "[" Lean.Parser.Tactic.simpLemma,* "]" : tactic
set_option hygiene false in
macro_rules
  | `(tactic| bk_phase [$hs,*]) => `(tactic| (
      have NP := nfk_prod n i j hi hj hij
      conv_rhs => rw [Nat.add_mod]
      first | rw [NP.1] | rw [NP.2.1] | rw [NP.2.2.1] | rw [NP.2.2.2]
      clear NP
      try simp only [uDiffA, p0DiffA]
      try simp only [$hs,*]
      simp only [uSet, p0Set, p1Set, p2Set, p3Set, remainderSet, pad_cons, pad_nil,
        nfk_append, nfk_pad1, nfk_pad3, nfk_cons', nfk_nil,
        xl_append, zl_append, xl_pad1, xl_pad2, xl_pad3, zl_pad1, zl_pad2, zl_pad3, xl_cons, zl_cons, xl_nil, zl_nil, isX, isZ,
        show ((1 : Nat) == 1) = true from rfl, show ((1 : Nat) == 2) = false from rfl, show ((1 : Nat) == 3) = false from rfl,
        show ((2 : Nat) == 1) = false from rfl, show ((2 : Nat) == 2) = true from rfl, show ((2 : Nat) == 3) = false from rfl,
        show ((3 : Nat) == 1) = false from rfl, show ((3 : Nat) == 2) = false from rfl, show ((3 : Nat) == 3) = true from rfl,
        show ((1 : Nat) = 2) = False from by simp, show ((2 : Nat) = 2) = True from by simp, show ((3 : Nat) = 2) = False from by simp,
        Bool.or_true, Bool.true_or, Bool.or_false, Bool.false_or, if_true, if_false, Bool.false_eq_true,
        List.append_nil, List.nil_append, crossX_nil_left, crossX_nil_right, crossX_cons_right, crossX_cons_left,
        crossX_append_left, crossX_append_right, List.count_append, List.count_nil, count_cons']
      all_goals (
      try simp (disch := srt) only [count_sorted]
      try simp only [diff_mem, symDiff_mem, inter_mem, union_mem, upd'_mem, List.mem_singleton, List.mem_cons,
        List.not_mem_nil, Bool.decide_and, Bool.decide_or, decide_not, or_false, false_or])
      all_goals (
      have F1 := pt_facts i j n i hi hj hij
      have F2 := pt_facts i j n j hi hj hij
      simp only [self_update, self_parity, self_occ, self_eq, hne1, hne2, $hs,*, Bool.toNat_true, Bool.toNat_false,
        Bool.not_true, Bool.not_false, Bool.and_true, Bool.and_false, Bool.true_and, Bool.false_and,
        Bool.or_true, Bool.or_false, Bool.true_or, Bool.false_or, decide_true, decide_false, eq_self_iff_true,
        not_true_eq_false, not_false_eq_true, and_true, and_false, true_and, false_and] at F1 F2 ⊢)
      all_goals (first | done | bk_decide2)))

/-- Gaussian-rational identity between two linear combinations of four unknowns -/
macro "gq_arith" : tactic => `(tactic| (
  apply GQ.ext <;>
  simp [GQ.ipow, cplx0, GQ.I, C05.half, mHalfI] <;>
  norm_num [Rat.mkRat_eq_div] <;>
  ring))

end BK
end OFV
