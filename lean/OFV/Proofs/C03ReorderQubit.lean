/- C03 — `reorder` on a QubitOperator denotes the relabelled operator (Spec.melQ), using the
shared soundness lemmas of `QubitOperator._simplify` (OFV.Proofs.C01Qubit). -/
import OFV.Proofs.C02PauliHerm
import OFV.Proofs.C03

namespace OFV
namespace Proofs
namespace C03
open Model Model.C03 Spec
open Proofs.C02 (melA melQ_eq_sum)

/-- `Σ c · φ(term)` over a dictionary -/
def sumφ (φ : Term → GQ) (A : Op) : GQ := (A.map (fun e => e.2 * φ e.1)).sum

theorem sumφ_set_add (φ : Term → GQ) (d : Op) (k : Term) (c : GQ) :
    sumφ φ (Dict.set d k (Dict.getD d k 0 + c)) = sumφ φ d + c * φ k := by
  unfold sumφ
  induction d with
  | nil => simp [Dict.set, Dict.getD, Dict.get?]
  | cons e r ih =>
    obtain ⟨k', v⟩ := e
    by_cases h : k' = k
    · subst h
      simp only [Dict.set, Dict.getD, Dict.get?, if_true, Option.getD_some, List.map_cons, List.sum_cons]
      ring
    · simp only [Dict.set, Dict.getD, Dict.get?, h, if_false, List.map_cons, List.sum_cons] at ih ⊢
      rw [ih]; ring

theorem sumφ_iadd (φ : Term → GQ) (a b : Op) : sumφ φ (iadd 0 a b) = sumφ φ a + sumφ φ b := by
  rw [Interp.iadd_zero_eq]
  induction b generalizing a with
  | nil => simp [sumφ]
  | cons e r ih =>
    rw [List.foldl_cons, ih, sumφ_set_add]
    unfold sumφ
    simp only [List.map_cons, List.sum_cons]; ring

/-- `QubitOperator._simplify` is sound (restated from C01 for matrix elements) -/
theorem melA_simplifyQubit (t : Term) (ht : ActionsOk t) (s t' : Nat) :
    (simplifyQubit t).1 * melA actPTerm (simplifyQubit t).2 s t' = melA actPTerm t s t' := by
  have hsound : (actPTerm (simplifyQubit t).2 s).2 = (actPTerm t s).2 ∧
      (simplifyQubit t).1 * GQ.ipow (actPTerm (simplifyQubit t).2 s).1 = GQ.ipow (actPTerm t s).1 := by
    have hperm := sortF_perm t
    have hsort := actPTerm_sortF t s
    simp only [simplifyQubit]
    cases hst : sortF t with
    | nil =>
      have : t = [] := by rw [hst] at hperm; exact hperm.symm.eq_nil
      subst this
      simp [actPTerm, GQ.ipow]
    | cons l rest =>
      have hok : ActionsOk (l :: rest) := by
        intro f hf
        exact ht f (hperm.mem_iff.mp (by simpa [hst] using hf))
      have hl : l.2 < 4 := hok l (List.mem_cons_self)
      have hrest : ActionsOk rest := fun f hf => hok f (List.mem_cons_of_mem _ hf)
      have key := mergeQK_sound l rest hl hrest (0, s)
      rw [hst] at hsort
      simp only [mergeQ_eq]
      rw [← hsort, actPTerm_eq, actPTerm_eq, key]
      simp only [shift]
      refine ⟨trivial, ?_⟩
      rw [ipow_mul, ← ipow_mod, Nat.add_comm]
  unfold melA
  rw [hsound.1]
  by_cases h : (actPTerm t s).2 = t'
  · rw [if_pos h, if_pos h]; exact hsound.2
  · rw [if_neg h, if_neg h, mul_zero]

/-- `reorder(QubitOperator)`: every Spec matrix element of the result is that of the operator with
relabelled qubits (terms relabelled factor by factor, not simplified) -/
theorem reorder_qubit_sound (m : List Nat) (a : Op) (ha : ∀ e ∈ a, ActionsOk e.1) (s t' : Nat) :
    melQ (reorder 0 .qubit m a) t' s =
      (a.map (fun e => e.2 * melA actPTerm (e.1.map fun f => (m.getD f.1 0, f.2)) s t')).sum := by
  rw [melQ_eq_sum]
  unfold reorder
  have : ∀ (l : Op), (∀ e ∈ l, ActionsOk e.1) → ∀ (acc : Op),
      sumφ (fun k => melA actPTerm k s t') (l.foldl (fun acc (x : Term × GQ) =>
        iadd 0 acc (mk .qubit (x.1.map fun f => (m.getD f.1 0, f.2)) x.2)) acc) =
      sumφ (fun k => melA actPTerm k s t') acc +
        (l.map (fun e => e.2 * melA actPTerm (e.1.map fun f => (m.getD f.1 0, f.2)) s t')).sum := by
    intro l
    induction l with
    | nil => intro _ acc; simp
    | cons e r ih =>
      intro hl acc
      rw [List.foldl_cons, ih (fun e' he' => hl e' (List.mem_cons_of_mem _ he')), sumφ_iadd,
        List.map_cons, List.sum_cons]
      have hok : ActionsOk (e.1.map fun f => (m.getD f.1 0, f.2)) := by
        intro f hf
        obtain ⟨g, hg, rfl⟩ := List.mem_map.1 hf
        exact hl e (by simp) g hg
      have hmk : sumφ (fun k => melA actPTerm k s t') (mk .qubit (e.1.map fun f => (m.getD f.1 0, f.2)) e.2) =
          e.2 * melA actPTerm (e.1.map fun f => (m.getD f.1 0, f.2)) s t' := by
        unfold mk sumφ
        simp only [simplify, List.map_cons, List.map_nil, List.sum_cons, List.sum_nil, add_zero]
        rw [mul_assoc, melA_simplifyQubit _ hok]
      rw [hmk]; ring
  have h0 := this a ha []
  simp only [sumφ, List.map_nil, List.sum_nil, zero_add] at h0
  exact h0

end C03
end Proofs
end OFV
