/-
C16 helper lemmas: `project_onto_sector` reproduces the matrix elements between embedded basis
states, for any embedding of masks that places the kept qubits at their new positions and fixes
the removed qubits to their sector values.
-/
import OFV.Proofs.C16Loop
import OFV.Proofs.C16

namespace OFV
namespace C16P
open Spec Model Model.C16

local notation "Op" => Model.Op
local notation "Term" => Model.Term

/-- what an embedding `E` of the small register into the full one has to satisfy -/
structure Emb (n : Nat) (qubits sectors : List Nat) (E : Nat → Nat) : Prop where
  kept_bit : ∀ s q, q < n → q ∉ qubits → (E s).testBit q = s.testBit (shiftDown qubits q)
  kept_flip : ∀ s q, q < n → q ∉ qubits → E (s ^^^ (1 <<< shiftDown qubits q)) = E s ^^^ (1 <<< q)
  removed_bit : ∀ s q, q ∈ qubits → (E s).testBit q = decide (sectors[indexOf qubits q]?.getD 0 = 1)
  inj : ∀ s t, s < 2 ^ (n - qubits.length) → t < 2 ^ (n - qubits.length) → E s = E t → s = t

def newTerm (qubits : List Nat) (τ : Term) : Term :=
  (τ.filter fun t => !qubits.contains t.1).map fun t => (shiftDown qubits t.1, t.2)

def expo (qubits sectors : List Nat) (τ : Term) : Nat :=
  ((τ.filter fun t => qubits.contains t.1).map fun t => sectors[indexOf qubits t.1]?.getD 0).sum

def Pauli123 (τ : Term) : Prop := ∀ f ∈ τ, f.2 = 1 ∨ f.2 = 2 ∨ f.2 = 3

/-- a term without `X` / `Y` on the removed qubits acts on an embedded state like the projected
term on the small state, times `(-1)^(number of Z on sector-1 qubits)` -/
theorem actPTerm_embed (n : Nat) (qubits sectors : List Nat) (E : Nat → Nat) (hE : Emb n qubits sectors E)
    (hsec : ∀ q, sectors[indexOf qubits q]?.getD 0 = 0 ∨ sectors[indexOf qubits q]?.getD 0 = 1)
    (τ : Term) (hp : Pauli123 τ) (hz : ∀ f ∈ τ, f.1 ∈ qubits → f.2 = 3) (hn : ∀ f ∈ τ, f.1 < n) (s : Nat) :
    actPTerm τ (E s) = (((actPTerm (newTerm qubits τ) s).1 + 2 * expo qubits sectors τ) % 4,
                         E (actPTerm (newTerm qubits τ) s).2) := by
  induction τ with
  | nil => simp [newTerm, expo, actPTerm]
  | cons f r ih =>
    obtain ⟨q, p⟩ := f
    have hpr : Pauli123 r := fun g hg => hp g (List.mem_cons_of_mem _ hg)
    have hzr : ∀ g ∈ r, g.1 ∈ qubits → g.2 = 3 := fun g hg => hz g (List.mem_cons_of_mem _ hg)
    have hnr : ∀ g ∈ r, g.1 < n := fun g hg => hn g (List.mem_cons_of_mem _ hg)
    have hqn : q < n := hn (q, p) (by simp)
    have ihr := ih hpr hzr hnr
    have hcons : actPTerm ((q, p) :: r) (E s) = stepP (q, p) (actPTerm r (E s)) := rfl
    rw [hcons, ihr]
    by_cases hq : q ∈ qubits
    · have h3 : p = 3 := hz (q, p) (by simp) hq
      subst h3
      have hc : qubits.contains q = true := by simpa using hq
      have hnt : newTerm qubits ((q, 3) :: r) = newTerm qubits r := by simp [newTerm, hq]
      have hex : expo qubits sectors ((q, 3) :: r)
          = sectors[indexOf qubits q]?.getD 0 + expo qubits sectors r := by simp [expo, hq]
      rw [hnt, hex]
      have hb := hE.removed_bit (actPTerm (newTerm qubits r) s).2 q hq
      simp only [stepP, actP, hb]
      rcases hsec q with h0 | h1
      · simp [h0]
      · simp [h1]; omega
    · have hc : qubits.contains q = false := by simpa using hq
      have hnt : newTerm qubits ((q, p) :: r) = (shiftDown qubits q, p) :: newTerm qubits r := by
        simp [newTerm, hq]
      have hex : expo qubits sectors ((q, p) :: r) = expo qubits sectors r := by simp [expo, hq]
      rw [hnt, hex]
      have hcons2 : actPTerm ((shiftDown qubits q, p) :: newTerm qubits r) s
          = stepP (shiftDown qubits q, p) (actPTerm (newTerm qubits r) s) := rfl
      rw [hcons2]
      have hb := hE.kept_bit (actPTerm (newTerm qubits r) s).2 q hqn hq
      have hf := hE.kept_flip (actPTerm (newTerm qubits r) s).2 q hqn hq
      rcases hp (q, p) (by simp) with h | h | h <;> simp only at h <;> subst h
      · simp only [stepP, actP, hf, Prod.mk.injEq, and_true]; omega
      · simp only [stepP, actP, hb, hf, Prod.mk.injEq, and_true]; split <;> omega
      · simp only [stepP, actP, hb, Prod.mk.injEq, and_true]; split <;> omega

/-- the bit of a qubit `q` after a term on pairwise distinct qubits: flipped iff the term has
`X` or `Y` on `q` -/
theorem testBit_actPTerm (τ : Term) (hd : τ.Pairwise (fun a b => a.1 ≠ b.1)) (q x : Nat) :
    (actPTerm τ x).2.testBit q
      = (x.testBit q != τ.any (fun f => f.1 == q && (f.2 == 1 || f.2 == 2))) := by
  induction τ with
  | nil => simp [actPTerm]
  | cons f r ih =>
    obtain ⟨j, p⟩ := f
    rw [List.pairwise_cons] at hd
    have hcons : actPTerm ((j, p) :: r) x = stepP (j, p) (actPTerm r x) := rfl
    rw [hcons]
    simp only [stepP, List.any_cons]
    have ih' := ih hd.2
    have hp4 : p = 1 ∨ p = 2 ∨ p = 3 ∨ (p ≠ 1 ∧ p ≠ 2 ∧ p ≠ 3) := by omega
    by_cases hj : j = q
    · subst hj
      have hr : r.any (fun f => f.1 == j && (f.2 == 1 || f.2 == 2)) = false := by
        rw [List.any_eq_false]
        intro g hg
        have hne : g.1 ≠ j := fun e => hd.1 g hg e.symm
        simp [hne]
      rw [hr] at ih' ⊢
      have h2 := testBit_xflip (actPTerm r x).2 j
      rcases hp4 with rfl | rfl | rfl | ⟨a, b, c⟩
      · simp [actP, h2, ih']
      · simp [actP, h2, ih']
      · simp [actP, ih']
      · have ha : actP j p (actPTerm r x).2 = (0, (actPTerm r x).2) := by
          unfold actP; split <;> simp_all
        have e1 : (p == 1) = false := by simpa using a
        have e2 : (p == 2) = false := by simpa using b
        simp [ha, ih', e1, e2]
    · have h2 := testBit_xflip_ne (actPTerm r x).2 j q hj
      have hjq : (j == q) = false := by simpa using hj
      rw [hjq]
      rcases hp4 with rfl | rfl | rfl | ⟨a, b, c⟩
      · simp [actP, h2, ih']
      · simp [actP, h2, ih']
      · simp [actP, ih']
      · have ha : actP j p (actPTerm r x).2 = (0, (actPTerm r x).2) := by
          unfold actP; split <;> simp_all
        simp [ha, ih']

/-- a term with `X` / `Y` on a removed qubit maps an embedded state outside the embedded sector -/
theorem actPTerm_leaves_sector (n : Nat) (qubits sectors : List Nat) (E : Nat → Nat) (hE : Emb n qubits sectors E)
    (τ : Term) (hd : τ.Pairwise (fun a b => a.1 ≠ b.1))
    (hxy : τ.any (fun t => qubits.contains t.1 && (t.2 == 1 || t.2 == 2)) = true) (s t : Nat) :
    (actPTerm τ (E s)).2 ≠ E t := by
  rw [List.any_eq_true] at hxy
  obtain ⟨f, hf, hfc⟩ := hxy
  simp only [Bool.and_eq_true, List.contains_iff_mem] at hfc
  obtain ⟨hq, hp⟩ := hfc
  intro heq
  have hb := testBit_actPTerm τ hd f.1 (E s)
  have hany : τ.any (fun g => g.1 == f.1 && (g.2 == 1 || g.2 == 2)) = true := by
    rw [List.any_eq_true]; exact ⟨f, hf, by simp [hp]⟩
  rw [heq, hany, hE.removed_bit t f.1 hq, hE.removed_bit s f.1 hq] at hb
  simp at hb

theorem sgn_eq_ipow2 (p : Nat) : GQ.sgn p = GQ.ipow (2 * p) := by
  unfold GQ.sgn GQ.ipow
  rcases Nat.mod_two_eq_zero_or_one p with h | h
  · have : 2 * p % 4 = 0 := by omega
    simp [h, this]
  · have : 2 * p % 4 = 2 := by omega
    simp [h, this]

theorem foldl_add_eq_sum (l : List Nat) (a : Nat) : l.foldl (· + ·) a = a + l.sum := by
  induction l generalizing a with
  | nil => simp
  | cons x r ih => simp only [List.foldl_cons, List.sum_cons, ih]; omega

theorem actPTerm_state_lt (m : Nat) : ∀ (τ : Term) (s : Nat), s < 2 ^ m → (∀ f ∈ τ, f.1 < m) →
    (actPTerm τ s).2 < 2 ^ m := by
  intro τ
  induction τ with
  | nil => intro s hs _; simpa [actPTerm] using hs
  | cons f r ih =>
    intro s hs hf
    have hr := ih s hs (fun g hg => hf g (List.mem_cons_of_mem _ hg))
    have hj : f.1 < m := hf f (by simp)
    have hcons : actPTerm (f :: r) s = stepP f (actPTerm r s) := rfl
    rw [hcons]
    have h2 : 1 <<< f.1 < 2 ^ m := by rw [Nat.one_shiftLeft]; exact Nat.pow_lt_pow_right (by omega) hj
    simp only [stepP]
    unfold actP
    split <;> first | exact hr | exact Nat.xor_lt_two_pow hr h2

theorem newTerm_lt (n : Nat) (qubits : List Nat) (hq : qubits.Nodup) (hqn : ∀ q ∈ qubits, q < n) (τ : Term)
    (hn : ∀ f ∈ τ, f.1 < n) : ∀ f ∈ newTerm qubits τ, f.1 < n - qubits.length := by
  intro f hf
  simp only [newTerm, List.mem_map, List.mem_filter] at hf
  obtain ⟨g, ⟨hg, hc⟩, rfl⟩ := hf
  have hgq : g.1 ∉ qubits := by simpa using hc
  exact shiftDown_lt qubits hq n hqn hgq (hn g hg)

/-- matrix elements of a kept term -/
theorem termCoef_kept (n : Nat) (qubits sectors : List Nat) (E : Nat → Nat) (hE : Emb n qubits sectors E)
    (hq : qubits.Nodup) (hqn : ∀ q ∈ qubits, q < n)
    (hsec : ∀ q, sectors[indexOf qubits q]?.getD 0 = 0 ∨ sectors[indexOf qubits q]?.getD 0 = 1)
    (τ : Term) (hp : Pauli123 τ) (hz : ∀ f ∈ τ, f.1 ∈ qubits → f.2 = 3) (hn : ∀ f ∈ τ, f.1 < n) (s t : Nat)
    (hs : s < 2 ^ (n - qubits.length)) (ht : t < 2 ^ (n - qubits.length)) :
    Sem.termCoef .qubit τ [E s] [E t]
      = GQ.sgn (expo qubits sectors τ) * Sem.termCoef .qubit (newTerm qubits τ) [s] [t] := by
  rw [Sem.termCoef_qubit, Sem.termCoef_qubit, actPTerm_embed n qubits sectors E hE hsec τ hp hz hn s]
  simp only
  by_cases h : (actPTerm (newTerm qubits τ) s).2 = t
  · simp only [h, if_true]
    rw [← ipow_mod, sgn_eq_ipow2, ipow_mul, ← ipow_mod (2 * _ + _)]
    congr 1
    omega
  · have hlt := actPTerm_state_lt _ (newTerm qubits τ) s hs (newTerm_lt n qubits hq hqn τ hn)
    have : ¬ E (actPTerm (newTerm qubits τ) s).2 = E t := fun e => h (hE.inj _ _ hlt ht e)
    simp [h, this]

theorem termCoef_dropped (n : Nat) (qubits sectors : List Nat) (E : Nat → Nat) (hE : Emb n qubits sectors E)
    (τ : Term) (hd : τ.Pairwise (fun a b => a.1 ≠ b.1))
    (hxy : τ.any (fun t => qubits.contains t.1 && (t.2 == 1 || t.2 == 2)) = true) (s t : Nat) :
    Sem.termCoef .qubit τ [E s] [E t] = 0 := by
  rw [Sem.termCoef_qubit, if_neg (actPTerm_leaves_sector n qubits sectors E hE τ hd hxy s t)]

theorem den_mk_qubit (nt : Term) (c : GQ) (hv : Sem.ValidQ nt) (s t : Nat) :
    Sem.den .qubit (mk .qubit nt c) [s] [t] = c * Sem.termCoef .qubit nt [s] [t] := by
  have := Sem.termCoef_simplify hv s t
  simp only [mk, simplify, Sem.den_cons, Sem.den_nil, add_zero]
  rw [mul_assoc, this]

theorem den_iadd_exact (tol : Rat) (A B : Op) (h : exactAddB tol A B = true) (s t : Nat) :
    Sem.den .qubit (Model.iadd tol A B) [s] [t] = Sem.den .qubit A [s] [t] + Sem.den .qubit B [s] [t] := by
  rw [semDen_eq_modelDen, semDen_eq_modelDen, semDen_eq_modelDen,
    den_iadd tol _ A B (exactAddB_sound tol B A h)]

theorem projPiece_none (qubits sectors : List Nat) (x : Term × GQ)
    (h : x.1.any (fun t => qubits.contains t.1 && (t.2 == 1 || t.2 == 2)) = true) :
    projPiece qubits sectors x = none := by
  unfold projPiece
  rw [if_pos h]

theorem projPiece_some (qubits sectors : List Nat) (x : Term × GQ)
    (h : x.1.any (fun t => qubits.contains t.1 && (t.2 == 1 || t.2 == 2)) = false) :
    projPiece qubits sectors x
      = some (mk .qubit (newTerm qubits x.1) (x.2 * GQ.sgn (expo qubits sectors x.1))) := by
  simp only [projPiece, h, Bool.false_eq_true, if_false, newTerm, expo, foldl_add_eq_sum, Nat.zero_add]

/-- the loop of `project_onto_sector` at the live tolerance, when its exactness flag comes out `true` -/
theorem project_fold (tol : Rat) (n : Nat) (qubits sectors : List Nat) (E : Nat → Nat)
    (hE : Emb n qubits sectors E) (hq : qubits.Nodup) (hqn : ∀ q ∈ qubits, q < n)
    (hsec : ∀ q, sectors[indexOf qubits q]?.getD 0 = 0 ∨ sectors[indexOf qubits q]?.getD 0 = 1) (s t : Nat)
    (hs : s < 2 ^ (n - qubits.length)) (ht : t < 2 ^ (n - qubits.length)) :
    ∀ (A : Op) (acc : Op × Bool),
    (∀ e ∈ A, Pauli123 e.1 ∧ e.1.Pairwise (fun a b => a.1 ≠ b.1) ∧ ∀ f ∈ e.1, f.1 < n) →
    (A.foldl (projStep tol qubits sectors) acc).2 = true →
    acc.2 = true ∧
    Sem.den .qubit (A.foldl (projStep tol qubits sectors) acc).1 [s] [t]
      = Sem.den .qubit acc.1 [s] [t] + Sem.den .qubit A [E s] [E t] := by
  intro A
  induction A with
  | nil => intro acc _ h; exact ⟨h, by simp [Sem.den_nil]⟩
  | cons e r ih =>
    intro acc hA hflag
    obtain ⟨τ, c⟩ := e
    obtain ⟨hp, hd, hnn⟩ := hA (τ, c) (by simp)
    simp only [List.foldl_cons, projStep] at hflag ⊢
    by_cases hxy : τ.any (fun t => qubits.contains t.1 && (t.2 == 1 || t.2 == 2)) = true
    · rw [projPiece_none qubits sectors (τ, c) hxy] at hflag ⊢
      obtain ⟨h1, h2⟩ := ih acc (fun e he => hA e (List.mem_cons_of_mem _ he)) hflag
      refine ⟨h1, ?_⟩
      rw [h2, Sem.den_cons, termCoef_dropped n qubits sectors E hE τ hd hxy s t]; ring
    · have hxy' : τ.any (fun t => qubits.contains t.1 && (t.2 == 1 || t.2 == 2)) = false := by simpa using hxy
      rw [projPiece_some qubits sectors (τ, c) hxy'] at hflag ⊢
      obtain ⟨h1, h2⟩ := ih _ (fun e he => hA e (List.mem_cons_of_mem _ he)) hflag
      simp only [Bool.and_eq_true] at h1
      refine ⟨h1.1, ?_⟩
      have hz : ∀ f ∈ τ, f.1 ∈ qubits → f.2 = 3 := by
        intro f hf hq
        have := hp f hf
        rw [List.any_eq_false] at hxy'
        have h3 := hxy' f hf
        have hc : qubits.contains f.1 = true := by simpa using hq
        rw [hc] at h3
        simp at h3
        omega
      have hv : Sem.ValidQ (newTerm qubits τ) := by
        intro f hf
        simp only [newTerm, List.mem_map, List.mem_filter] at hf
        obtain ⟨g, ⟨hg, _⟩, rfl⟩ := hf
        have := hp g hg
        show g.2 < 4
        omega
      rw [h2, den_iadd_exact tol _ _ h1.2, den_mk_qubit _ _ hv, Sem.den_cons,
        termCoef_kept n qubits sectors E hE hq hqn hsec τ hp hz hnn s t hs ht]
      ring

/-! ### a concrete embedding (non-vacuity): remove qubit 0, sector 1 -/

theorem shiftDown0 (q : Nat) (hq : q ≠ 0) : shiftDown [0] q = q - 1 := by
  have : 0 < q := by omega
  simp [shiftDown, this]

theorem emb_example (n : Nat) : Emb n [0] [1] (fun s => 2 * s + 1) where
  kept_bit := by
    intro s q _ hq
    have hq0 : q ≠ 0 := by simpa using hq
    rw [shiftDown0 q hq0]
    obtain ⟨k, rfl⟩ : ∃ k, q = k + 1 := ⟨q - 1, by omega⟩
    simp [Nat.testBit_succ, Nat.add_div]
  kept_flip := by
    intro s q _ hq
    have hq0 : q ≠ 0 := by simpa using hq
    rw [shiftDown0 q hq0]
    obtain ⟨k, rfl⟩ : ∃ k, q = k + 1 := ⟨q - 1, by omega⟩
    apply Nat.eq_of_testBit_eq
    intro i
    cases i with
    | zero => simp [Nat.testBit_zero, Nat.testBit_xor, Nat.one_shiftLeft, Nat.testBit_two_pow]
    | succ i =>
      simp [Nat.testBit_succ, Nat.testBit_xor, Nat.one_shiftLeft, Nat.testBit_two_pow, Nat.add_div]
      have : ((2 * s + 1) ^^^ 2 ^ (k + 1)) / 2 = s ^^^ 2 ^ k := by
        have h1 : (2 * s + 1) / 2 = s := by omega
        have h2 : 2 ^ (k + 1) / 2 = 2 ^ k := by rw [Nat.pow_succ]; omega
        rw [← Nat.shiftRight_one, Nat.shiftRight_xor_distrib, Nat.shiftRight_one, Nat.shiftRight_one, h1, h2]
      rw [this, Nat.testBit_xor, Nat.testBit_two_pow]
  removed_bit := by
    intro s q hq
    have : q = 0 := by simpa using hq
    subst this
    simp [indexOf, Nat.testBit_zero]
  inj := by intro a b _ _ h; simp at h; omega

end C16P
end OFV
