/- C09: Z / identity operators act diagonally in the Spec; `extractor` against the Spec action. -/
import OFV.Proofs.C09Ext3

namespace OFV.C09
open OFV.Model OFV.Model.C09 OFV.Spec.C09
open OFV.Spec (actP actPTerm applyQ melQ SV)

theorem sv_coeff_nil (t : Nat) : SV.coeff [] t = 0 := rfl

theorem sv_coeff_cons (s' : Nat) (c' : GQ) (r : SV) (t : Nat) :
    SV.coeff ((s', c') :: r) t = if s' = t then c' else SV.coeff r t := by
  simp only [SV.coeff, Dict.getD, Dict.get?]
  split <;> simp

theorem sv_coeff_addEntry (v : SV) (s : Nat) (c : GQ) (t : Nat) :
    SV.coeff (SV.addEntry v s c) t = if t = s then SV.coeff v s + c else SV.coeff v t := by
  induction v with
  | nil =>
    simp only [SV.addEntry, sv_coeff_cons, sv_coeff_nil]
    by_cases h : t = s
    · subst h; simp [gq_zero_add']
    · have : ¬ s = t := fun e => h e.symm
      simp [h, this]
  | cons e r ih =>
    obtain ⟨s', c'⟩ := e
    unfold SV.addEntry
    by_cases h1 : s' = s
    · subst h1
      simp only [if_true, sv_coeff_cons]
      by_cases h2 : t = s'
      · subst h2; simp
      · have : ¬ s' = t := fun e => h2 e.symm
        simp [h2, this]
    · simp only [h1, if_false, sv_coeff_cons, ih]
      by_cases h2 : t = s
      · subst h2; simp [h1]
      · simp [h2]

/-- a Z / identity string fixes the basis state and multiplies it by its value -/
theorem actPTerm_ZI (t : Term) (ht : ZI t) (s : Nat) :
    ∃ k, actPTerm t s = (k, s) ∧ (k = 0 ∨ k = 2) ∧ GQ.ipow k = chi (fun i => s.testBit i) t := by
  induction t with
  | nil => exact ⟨0, rfl, Or.inl rfl, rfl⟩
  | cons f r ih =>
    obtain ⟨k, hk, hk02, hchi⟩ := ih (fun g hg => ht g (List.mem_cons_of_mem _ hg))
    have hf := ht f (by simp)
    have hstep : actPTerm (f :: r) s = ((k + (actP f.1 f.2 s).1) % 4, (actP f.1 f.2 s).2) := by
      simp only [actPTerm, List.foldr_cons] at hk ⊢
      rw [hk]
    rcases hf with h0 | h3
    · -- identity factor
      have ha : actP f.1 f.2 s = (0, s) := by rw [h0]; rfl
      refine ⟨k, ?_, hk02, ?_⟩
      · rw [hstep, ha]; rcases hk02 with rfl | rfl <;> rfl
      · rw [chi_cons, ← hchi]; simp [chiF, h0, gq_one_mul]
    · -- Z factor
      have ha : actP f.1 f.2 s = (if s.testBit f.1 then 2 else 0, s) := by rw [h3]; rfl
      by_cases hb : s.testBit f.1
      · refine ⟨(k + 2) % 4, ?_, ?_, ?_⟩
        · rw [hstep, ha]; simp [hb]
        · rcases hk02 with rfl | rfl <;> simp
        · rw [chi_cons, ← hchi]
          have : chiF (fun i => s.testBit i) f = -1 := by simp [chiF, h3, sgnB, hb]
          rw [this]
          rcases hk02 with rfl | rfl <;> exact GQ.ext (by simp [GQ.ipow]) (by simp [GQ.ipow])
      · refine ⟨k, ?_, hk02, ?_⟩
        · rw [hstep, ha]; simp [hb]; rcases hk02 with rfl | rfl <;> omega
        · rw [chi_cons, ← hchi]
          have : chiF (fun i => s.testBit i) f = 1 := by simp [chiF, h3, sgnB, hb]
          rw [this, gq_one_mul]

theorem applyQ_ZI_go (o : Op) (ho : ZIop o) (s : Nat) (acc : SV) (t : Nat) :
    SV.coeff (o.foldl (fun acc (tc : Term × GQ) =>
        SV.addEntry acc (actPTerm tc.1 s).2 (tc.2 * GQ.ipow (actPTerm tc.1 s).1)) acc) t
      = if t = s then SV.coeff acc s + diag (fun i => s.testBit i) o else SV.coeff acc t := by
  induction o generalizing acc with
  | nil =>
    by_cases h : t = s
    · subst h; simp [diag_nil, gq_add_zero']
    · simp [h]
  | cons e r ih =>
    obtain ⟨tm, c⟩ := e
    obtain ⟨k, hk, _, hchi⟩ := actPTerm_ZI tm (ho (tm, c) (by simp)) s
    rw [List.foldl_cons, ih (fun x hx => ho x (List.mem_cons_of_mem _ hx))]
    simp only [hk, hchi]
    by_cases h : t = s
    · subst h
      simp only [if_true, sv_coeff_addEntry, diag_cons]
      rw [gq_add_assoc']
    · simp [h, sv_coeff_addEntry]

/-- the Spec matrix element of a Z / identity operator -/
theorem melQ_ZI (o : Op) (ho : ZIop o) (t s : Nat) :
    melQ o t s = if t = s then diag (fun i => s.testBit i) o else 0 := by
  unfold melQ applyQ
  have := applyQ_ZI_go o ho s [] t
  by_cases h : t = s
  · subst h
    simp only [if_true, sv_coeff_nil, gq_zero_add'] at this ⊢
    exact this
  · simp only [h, if_false, sv_coeff_nil] at this ⊢
    exact this

end OFV.C09
