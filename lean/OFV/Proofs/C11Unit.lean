/- C11: column rotations by the matrices of `givens_matrix_elements` preserve the inner products of rows. -/
import OFV.Model.C11
import OFV.Proofs.C11Num
import OFV.Proofs.C11Step
import OFV.Proofs.C11Sweep

namespace OFV
namespace Model
namespace C11

/-- what `givens_rotate(.., which='col')` needs from `G` to act as an isometry on rows: `G₀₀, G₁₀` real (they are
used unconjugated) and the columns of `G` orthonormal -/
structure G2.ColIsometry (G : G2) : Prop where
  re00 : G.g00.im = 0
  re10 : G.g10.im = 0
  n0 : G.g00 * G.g00.conj + G.g10 * G.g10.conj = 1
  n1 : G.g01 * G.g01.conj + G.g11 * G.g11.conj = 1
  orth : G.g00 * G.g01 + G.g10 * G.g11 = 0

theorem assemble_colIsometry {a b : GQ} {c s : Rat} {ph : GQ} (h : CSP a b c s ph) (right real : Bool)
    (hreal : real = true → ph.im = 0) : (assemble right real c s ph).ColIsometry := by
  have hu := h.unit
  have hp := h.phn
  cases right <;> cases real <;> simp only [assemble, Bool.not_true, Bool.not_false, if_true, if_false,
    Bool.false_eq_true]
  · refine ⟨by simp, by simp, GQ.ext ?_ ?_, GQ.ext ?_ ?_, GQ.ext ?_ ?_⟩ <;> simp <;>
      first | ring1 | linear_combination hu | linear_combination hu + (s*s) * hp | linear_combination hu + (c*c) * hp
            | linear_combination (s*s + c*c) * hp + hu
  · obtain ⟨hi, hr⟩ := ph_real_sq h (hreal rfl)
    refine ⟨by simp, by simp [hi], GQ.ext ?_ ?_, GQ.ext ?_ ?_, GQ.ext ?_ ?_⟩ <;> simp [hi] <;>
      first | ring1 | linear_combination hu | linear_combination hu + (s*s) * hr | linear_combination hu + (c*c) * hr
  · refine ⟨by simp, by simp, GQ.ext ?_ ?_, GQ.ext ?_ ?_, GQ.ext ?_ ?_⟩ <;> simp <;>
      first | ring1 | linear_combination hu | linear_combination hu + (s*s) * hp | linear_combination hu + (c*c) * hp
            | linear_combination (s*s + c*c) * hp + hu
  · obtain ⟨hi, hr⟩ := ph_real_sq h (hreal rfl)
    refine ⟨by simp, by simp [hi], GQ.ext ?_ ?_, GQ.ext ?_ ?_, GQ.ext ?_ ?_⟩ <;> simp [hi] <;>
      first | ring1 | linear_combination hu | linear_combination hu + (s*s) * hr | linear_combination hu + (c*c) * hr

/-- the 2×2 update of `givens_rotate(.., 'col')` preserves the inner product of two rows -/
theorem isometry2 {G : G2} (h : G.ColIsometry) (u v u' v' : GQ) :
    (G.g00 * u + G.g01.conj * v) * (G.g00 * u' + G.g01.conj * v').conj
      + (G.g10 * u + G.g11.conj * v) * (G.g10 * u' + G.g11.conj * v').conj = u * u'.conj + v * v'.conj := by
  have E1 := congrArg GQ.re h.n0
  have E2 := congrArg GQ.re h.n1
  have E3 := congrArg GQ.re h.orth
  have E4 := congrArg GQ.im h.orth
  simp at E1 E2 E3 E4
  refine GQ.ext ?_ ?_ <;> simp
  · linear_combination (u.re * u'.re + u.im * u'.im) * E1
      + ((u.re * v'.re + u.im * v'.im) + (v.re * u'.re + v.im * u'.im)) * E3
      + (-(u.im * v'.re - u.re * v'.im) + (v.im * u'.re - v.re * u'.im)) * E4
      + (v.re * v'.re + v.im * v'.im) * E2
  · linear_combination (u.im * u'.re - u.re * u'.im) * E1
      + ((u.im * v'.re - u.re * v'.im) + (v.im * u'.re - v.re * u'.im)) * E3
      + ((u.re * v'.re + u.im * v'.im) - (v.re * u'.re + v.im * u'.im)) * E4
      + (v.im * v'.re - v.re * v'.im) * E2

theorem rsum_diff (a b : Nat) (hab : a ≠ b) (f g : Nat → Rat) : ∀ n,
    (∀ x, x < n → x ≠ a → x ≠ b → f x = g x) →
    rsum n f - rsum n g = (if a < n then f a - g a else 0) + (if b < n then f b - g b else 0) := by
  intro n
  induction n with
  | zero => intro _; simp [rsum]
  | succ n ih =>
    intro h
    have ih' := ih (fun x hx => h x (by omega))
    simp only [rsum]
    by_cases ha : n = a
    · subst ha
      have hb1 : ¬ (b = n) := fun e => hab e.symm
      by_cases hb : b < n
      · have : b < n + 1 := by omega
        simp only [hb, this, if_true, Nat.lt_irrefl, if_false, Nat.lt_succ_self] at ih' ⊢
        linarith
      · have : ¬ b < n + 1 := by omega
        simp only [hb, this, if_false, Nat.lt_irrefl, Nat.lt_succ_self, if_true] at ih' ⊢
        linarith
    · by_cases hb : n = b
      · subst hb
        by_cases ha2 : a < n
        · have : a < n + 1 := by omega
          simp only [ha2, this, if_true, Nat.lt_irrefl, if_false, Nat.lt_succ_self] at ih' ⊢
          linarith
        · have : ¬ a < n + 1 := by omega
          simp only [ha2, this, if_false, Nat.lt_irrefl, Nat.lt_succ_self, if_true] at ih' ⊢
          linarith
      · have e := h n (Nat.lt_succ_self n) ha hb
        have ea : (a < n + 1) ↔ (a < n) := by constructor <;> intro h' <;> omega
        have eb : (b < n + 1) ↔ (b < n) := by constructor <;> intro h' <;> omega
        simp only [ea, eb]
        linarith

theorem rsum_eq_of_except2 (a b n : Nat) (hab : a ≠ b) (ha : a < n) (hb : b < n) (f g : Nat → Rat)
    (h : ∀ x, x < n → x ≠ a → x ≠ b → f x = g x) (hpair : f a + f b = g a + g b) : rsum n f = rsum n g := by
  have := rsum_diff a b hab f g n h
  simp only [ha, hb, if_true] at this
  linarith

/-- a column rotation by a column-isometric `G` preserves all inner products of rows -/
theorem rotateCols_rowDot {M : Mat} {m n : Nat} (hM : Rect M m n) {G : G2} (hG : G.ColIsometry)
    (a b : Nat) (hab : a ≠ b) (ha : a < n) (hb : b < n) (i i' : Nat) (hi : i < m) (hi' : i' < m) :
    rowDotRe (rotateCols M G a b) n i i' = rowDotRe M n i i' ∧
    rowDotIm (rotateCols M G a b) n i i' = rowDotIm M n i i' := by
  have hlen : M.length = m := hM.1
  have r1 : (M.getD i []).length = n := rect_row_len hM hi
  have r2 : (M.getD i' []).length = n := rect_row_len hM hi'
  have get1 := fun x => rotateCols_get M G a b i x (by omega) (by omega) (by omega) hab
  have get2 := fun x => rotateCols_get M G a b i' x (by omega) (by omega) (by omega) hab
  have hba : ¬ (b = a) := fun e => hab e.symm
  have iso := isometry2 hG (M.get i a) (M.get i b) (M.get i' a) (M.get i' b)
  constructor
  · unfold rowDotRe
    apply rsum_eq_of_except2 a b n hab ha hb
    · intro x _ hxa hxb
      simp only [get1 x, get2 x, hxa, hxb, if_false]
    · simp only [get1 a, get2 a, get1 b, get2 b, if_true, hab, if_false]
      have := congrArg GQ.re iso
      simp only [GQ.add_re] at this
      linarith
  · unfold rowDotIm
    apply rsum_eq_of_except2 a b n hab ha hb
    · intro x _ hxa hxb
      simp only [get1 x, get2 x, hxa, hxb, if_false]
    · simp only [get1 a, get2 a, get1 b, get2 b, if_true, hab, if_false]
      have := congrArg GQ.im iso
      simp only [GQ.add_im] at this
      linarith

/-- the matrix computed in the exact regime by `givens_matrix_elements` is column-isometric -/
theorem givensElems_colIsometry (tol : Rat) (htol : 0 < tol) (a b : GQ) (right : Bool) (G : G2)
    (hexa : small tol a = true → a = 0) (hexb : small tol b = true → b = 0)
    (hreal : RealExact tol a b)
    (h : givensElems tol a b right = .ok G) : G.ColIsometry := by
  obtain ⟨c, s, ph, hC, hr, rfl⟩ := givensElems_inv hreal h
  exact assemble_colIsometry (cosSinPhase_spec htol hexa hexb hC) right _ hr

/-- all inner products of the first `m` rows agree -/
def SameGram (M M' : Mat) (m n : Nat) : Prop :=
  ∀ i i', i < m → i' < m → rowDotRe M' n i i' = rowDotRe M n i i' ∧ rowDotIm M' n i i' = rowDotIm M n i i'

theorem SameGram.refl (M : Mat) (m n : Nat) : SameGram M M m n := fun _ _ _ _ => ⟨rfl, rfl⟩

theorem SameGram.trans {M M1 M2 : Mat} {m n : Nat} (h1 : SameGram M M1 m n) (h2 : SameGram M1 M2 m n) :
    SameGram M M2 m n := fun i i' hi hi' =>
  ⟨(h2 i i' hi hi').1.trans (h1 i i' hi hi').1, (h2 i i' hi hi').2.trans (h1 i i' hi hi').2⟩

theorem colLayer_gram (tol : Rat) (htol : 0 < tol) (ai : Bool) (m n : Nat) :
    ∀ (ps : List (Nat × Nat)) (M : Mat) (rs : List Rot) (M' : Mat),
      colLayer tol ai ps M = .ok (rs, M') → LayerExact tol ai ps M → Rect M m n →
      (∀ p ∈ ps, p.1 < m ∧ 1 ≤ p.2 ∧ p.2 < n) → Rect M' m n ∧ SameGram M M' m n := by
  intro ps
  induction ps with
  | nil =>
    intro M rs M' h _ hR _
    simp [colLayer] at h
    obtain ⟨_, h2⟩ := h
    subst h2
    exact ⟨hR, SameGram.refl _ _ _⟩
  | cons p ps ih =>
    intro M rs M' h hex hR hval
    obtain ⟨i, j⟩ := p
    obtain ⟨hstep, hexT, hexF⟩ := hex
    obtain ⟨hi, hj1, hjn⟩ := hval (i, j) List.mem_cons_self
    simp only at hi hj1 hjn
    have hvalps : ∀ p ∈ ps, p.1 < m ∧ 1 ≤ p.2 ∧ p.2 < n := fun p hp => hval p (List.mem_cons_of_mem _ hp)
    unfold colLayer at h
    simp only at h
    by_cases hc : (ai || big tol (M.get i j).conj) = true
    · rw [if_pos hc] at h
      cases hG : givensElems tol (M.get i (j - 1)).conj (M.get i j).conj true with
      | error e => simp [hG, bind, Except.bind] at h
      | ok G =>
        cases hP : params G with
        | error e => simp [hG, hP, bind, Except.bind] at h
        | ok t =>
          obtain ⟨s, c, e⟩ := t
          cases hRec : colLayer tol ai ps (rotateCols M G (j - 1) j) with
          | error e => simp [hG, hP, hRec, bind, Except.bind] at h
          | ok t2 =>
            obtain ⟨rs2, M2⟩ := t2
            simp only [hG, hP, hRec, bind, Except.bind] at h
            injection h with h
            injection h with _ h2
            subst h2
            have hR1 := rotateCols_rect hR G (j - 1) j
            have hiso := givensElems_colIsometry tol htol _ _ true G hstep.1 hstep.2.1 hstep.2.2.1 hG
            obtain ⟨hR', hg⟩ := ih _ _ _ hRec (hexT G hc hG) hR1 hvalps
            refine ⟨hR', SameGram.trans ?_ hg⟩
            intro r r' hr hr'
            exact rotateCols_rowDot hR hiso (j - 1) j (by omega) (by omega) hjn r r' hr hr'
    · have hc' : (ai || big tol (M.get i j).conj) = false := by simpa using hc
      rw [if_neg hc] at h
      exact ih _ _ _ h (hexF hc') hR hvalps

theorem colSweep_gram (tol : Rat) (htol : 0 < tol) (ai : Bool) (m n : Nat) (layerOf : Nat → List (Nat × Nat))
    (hval : ∀ k, ∀ p ∈ layerOf k, p.1 < m ∧ 1 ≤ p.2 ∧ p.2 < n) :
    ∀ (ks : List Nat) (M : Mat) (ls : List (List Rot)) (M' : Mat),
      colSweep tol layerOf ai ks M = .ok (ls, M') → SweepExact tol ai layerOf ks M → Rect M m n →
      Rect M' m n ∧ SameGram M M' m n := by
  intro ks
  induction ks with
  | nil =>
    intro M ls M' h _ hR
    simp [colSweep] at h
    obtain ⟨_, h2⟩ := h
    subst h2
    exact ⟨hR, SameGram.refl _ _ _⟩
  | cons k ks ih =>
    intro M ls M' h hex hR
    obtain ⟨hexL, hexS⟩ := hex
    unfold colSweep at h
    cases hL : colLayer tol ai (layerOf k) M with
    | error e => simp [hL, bind, Except.bind] at h
    | ok t =>
      obtain ⟨ops, M1⟩ := t
      cases hS : colSweep tol layerOf ai ks M1 with
      | error e => simp [hL, hS, bind, Except.bind] at h
      | ok t2 =>
        obtain ⟨ls2, M2⟩ := t2
        simp only [hL, hS, bind, Except.bind] at h
        injection h with h
        injection h with _ h2
        subst h2
        obtain ⟨hR1, hg1⟩ := colLayer_gram tol htol ai m n _ _ _ _ hL hexL hR (hval k)
        obtain ⟨hR2, hg2⟩ := ih _ _ _ hS (hexS ops M1 hL) hR1
        exact ⟨hR2, SameGram.trans hg1 hg2⟩

end C11
end Model
end OFV
