/- C03 — closed form of the InteractionOperator branch: the scattered assignments produce the
antisymmetrised tensor on `p > q, r > s` and zero elsewhere. -/
import OFV.Proofs.C03Pairs

namespace OFV
namespace Proofs
namespace C03
open Model.C03

theorem digits_inj (n a b a' b' : Nat) (hb : b < n) (hb' : b' < n) (h : a * n + b = a' * n + b') :
    a = a' ∧ b = b' := by
  have hn : 0 < n := by omega
  have h1 : (a * n + b) / n = a := by
    rw [Nat.mul_comm, Nat.mul_add_div hn, Nat.div_eq_of_lt hb, Nat.add_zero]
  have h2 : (a' * n + b') / n = a' := by
    rw [Nat.mul_comm, Nat.mul_add_div hn, Nat.div_eq_of_lt hb', Nat.add_zero]
  have ha : a = a' := by rw [← h1, ← h2, h]
  subst ha
  exact ⟨rfl, by omega⟩

/-- flattened (C order) index of `[p, q, r, s]` -/
def idx4 (n : Nat) (x : Pair × Pair) : Nat := ((x.1.1 * n + x.1.2) * n + x.2.1) * n + x.2.2

theorem idx4_inj (n : Nat) (x y : Pair × Pair) (hx : x.1.2 < n ∧ x.2.1 < n ∧ x.2.2 < n)
    (hy : y.1.2 < n ∧ y.2.1 < n ∧ y.2.2 < n) (h : idx4 n x = idx4 n y) : x = y := by
  unfold idx4 at h
  obtain ⟨h1, h2⟩ := digits_inj n _ _ _ _ hx.2.2 hy.2.2 h
  obtain ⟨h3, h4⟩ := digits_inj n _ _ _ _ hx.2.1 hy.2.1 h1
  obtain ⟨h5, h6⟩ := digits_inj n _ _ _ _ hx.1 hy.1 h3
  obtain ⟨⟨a, b⟩, ⟨c, d⟩⟩ := x
  obtain ⟨⟨a', b'⟩, ⟨c', d'⟩⟩ := y
  simp only at h2 h4 h5 h6
  subst h2 h4 h5 h6
  rfl

theorem idx4_lt (n : Nat) (x : Pair × Pair) (h : x.1.1 < n ∧ x.1.2 < n ∧ x.2.1 < n ∧ x.2.2 < n) :
    idx4 n x < n * n * n * n := by
  unfold idx4
  obtain ⟨h1, h2, h3, h4⟩ := h
  have e1 : x.1.1 * n + x.1.2 < n * n := by nlinarith
  have e2 : (x.1.1 * n + x.1.2) * n + x.2.1 < n * n * n := by nlinarith
  nlinarith

/-- a sequence of assignments `acc[key e] = val e` with coherent values -/
theorem foldl_set_getD {β : Type} (key : β → Nat) (val : β → GQ) (L : List β)
    (hco : ∀ e ∈ L, ∀ e' ∈ L, key e = key e' → val e = val e') :
    ∀ (init : List GQ),
      (L.foldl (fun acc e => acc.set (key e) (val e)) init).length = init.length ∧
      (∀ e0 ∈ L, key e0 < init.length →
        (L.foldl (fun acc e => acc.set (key e) (val e)) init).getD (key e0) 0 = val e0) ∧
      (∀ i, (∀ e ∈ L, key e ≠ i) →
        (L.foldl (fun acc e => acc.set (key e) (val e)) init).getD i 0 = init.getD i 0) := by
  induction L with
  | nil => intro init; simp
  | cons e r ih =>
    intro init
    have hco' : ∀ a ∈ r, ∀ b ∈ r, key a = key b → val a = val b :=
      fun a ha b hb => hco a (List.mem_cons_of_mem _ ha) b (List.mem_cons_of_mem _ hb)
    obtain ⟨l1, g1, g2⟩ := ih hco' (init.set (key e) (val e))
    rw [List.foldl_cons]
    refine ⟨by rw [l1, List.length_set], ?_, ?_⟩
    · intro e0 he0 hlt
      rcases List.mem_cons.1 he0 with rfl | he0'
      · by_cases hex : ∃ e' ∈ r, key e' = key e0
        · obtain ⟨e', he', hk⟩ := hex
          have := g1 e' he' (by rw [List.length_set, hk]; exact hlt)
          rw [hk] at this
          rw [this]
          exact (hco e0 (by simp) e' (List.mem_cons_of_mem _ he') hk.symm).symm
        · have hne : ∀ e' ∈ r, key e' ≠ key e0 := fun e' he' hk => hex ⟨e', he', hk⟩
          rw [g2 (key e0) hne]
          simp [List.getD, hlt]
      · exact g1 e0 he0' (by rw [List.length_set]; exact hlt)
    · intro i hi
      rw [g2 i (fun e' he' => hi e' (List.mem_cons_of_mem _ he'))]
      have : key e ≠ i := hi e (by simp)
      simp [List.getD, this]

/-- **closed form**: for all `p, q, r, s < n` the new two-body tensor is the antisymmetrised
old one on `p > q ∧ r > s` and zero elsewhere -/
theorem normalOrderedTwoBody_closed (n : Nat) (T : List GQ) (p q r s : Nat)
    (hp : p < n) (hq : q < n) (hr : r < n) (hs : s < n) :
    t4 n (normalOrderedTwoBody n T) p q r s =
      if q < p ∧ s < r then antisym n T (p, q) (r, s) else 0 := by
  have hco : ∀ e ∈ indexPairs n, ∀ e' ∈ indexPairs n, idx4 n e = idx4 n e' →
      antisym n T e.1 e.2 = antisym n T e'.1 e'.2 := by
    intro e he e' he' hk
    obtain ⟨a1, a2, a3, a4⟩ := indexPairs_sound n e he
    obtain ⟨b1, b2, b3, b4⟩ := indexPairs_sound n e' he'
    have := idx4_inj n e e' ⟨by omega, a4, by omega⟩ ⟨by omega, b4, by omega⟩ hk
    rw [this]
  obtain ⟨_, g1, g2⟩ := foldl_set_getD (idx4 n) (fun e => antisym n T e.1 e.2) (indexPairs n) hco
    (List.replicate (n * n * n * n) 0)
  have hdef : normalOrderedTwoBody n T =
      (indexPairs n).foldl (fun acc e => acc.set (idx4 n e) (antisym n T e.1 e.2))
        (List.replicate (n * n * n * n) 0) := rfl
  have hidx : ((p * n + q) * n + r) * n + s = idx4 n ((p, q), (r, s)) := rfl
  unfold t4
  rw [hdef, hidx]
  by_cases hc : q < p ∧ s < r
  · rw [if_pos hc]
    have hmem := indexPairs_complete n p q r s hc.1 hp hc.2 hr
    have := g1 ((p, q), (r, s)) hmem (by
      rw [List.length_replicate]; exact idx4_lt n _ ⟨hp, hq, hr, hs⟩)
    exact this
  · rw [if_neg hc]
    have hne : ∀ e ∈ indexPairs n, idx4 n e ≠ idx4 n ((p, q), (r, s)) := by
      intro e he hk
      obtain ⟨a1, a2, a3, a4⟩ := indexPairs_sound n e he
      have := idx4_inj n e ((p, q), (r, s)) ⟨by omega, a4, by omega⟩ ⟨hq, hr, hs⟩ hk
      subst this
      exact hc ⟨a1, a3⟩
    rw [g2 _ hne]
    simp only [List.getD, List.getElem?_replicate]
    split <;> rfl

end C03
end Proofs
end OFV
