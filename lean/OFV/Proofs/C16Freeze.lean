/-
C16 helper lemmas: the scan of `freeze_orbitals` against the Fock-space Spec (`Spec.actFTerm`).

A product of ladder operators acts on a basis state whose frozen mode `f` carries occupation `o`
exactly as the product with the operators on `f` removed acts on the state without that mode, up
to the sign `(-1)^(n_swaps + o · #{operators above f})` the code applies, and it vanishes on (or
leaves) the frozen sector exactly when the code drops the term.
-/
import OFV.Proofs.C03Spec
import OFV.Proofs.C04Term
import OFV.Proofs.C16Loop
import OFV.Proofs.C16

namespace OFV
namespace C16P
open Spec Model Model.C16
open Proofs.C03 (countBelow_xflip)

/-- the Spec action of a product, the factors listed in the order they act -/
def run : Term → Nat × Nat → Option (Nat × Nat)
  | [], a => some a
  | g :: r, a => match actF g.1 g.2 a.2 with
    | none => none
    | some b => run r ((a.1 + b.1) % 2, b.2)

theorem run_append (L : Term) (g : Factor) : ∀ a, run (L ++ [g]) a =
    match run L a with
    | none => none
    | some c => match actF g.1 g.2 c.2 with
      | none => none
      | some b => some ((c.1 + b.1) % 2, b.2) := by
  induction L with
  | nil =>
    intro a
    simp only [List.nil_append, run]
  | cons h r ih =>
    intro a
    simp only [List.cons_append, run]
    cases actF h.1 h.2 a.2 with
    | none => rfl
    | some b => exact ih _

theorem actFTerm_eq_run (τ : Term) (x : Nat) : actFTerm τ x = run τ.reverse (0, x) := by
  induction τ with
  | nil => rfl
  | cons g r ih =>
    rw [List.reverse_cons, run_append, ← ih]
    show (match actFTerm r x with
      | none => none
      | some (k, s') => match actF g.1 g.2 s' with
        | none => none
        | some (k', s'') => some ((k + k') % 2, s'')) = _
    cases actFTerm r x with
    | none => rfl
    | some c =>
      obtain ⟨k, s'⟩ := c
      simp only
      cases actF g.1 g.2 s' with
      | none => rfl
      | some b => rfl

/-- the mask of the frozen mode -/
def bitv (occ f : Nat) : Nat := if occ = 1 then 1 <<< f else 0

theorem testBit_bitv_self (Y occ f : Nat) (hY : Y.testBit f = false) :
    (Y ^^^ bitv occ f).testBit f = decide (occ = 1) := by
  unfold bitv
  by_cases h : occ = 1
  · rw [if_pos h, testBit_xflip, hY]; simp [h]
  · rw [if_neg h, Nat.xor_zero, hY]; simp [h]

theorem testBit_bitv_ne (Y occ f j : Nat) (h : f ≠ j) :
    (Y ^^^ bitv occ f).testBit j = Y.testBit j := by
  unfold bitv
  by_cases ho : occ = 1
  · rw [if_pos ho, testBit_xflip_ne _ _ _ h]
  · rw [if_neg ho, Nat.xor_zero]

theorem countBelow_bitv (Y occ f j : Nat) (hocc : occ < 2) :
    countBelow (Y ^^^ bitv occ f) j % 2 = (countBelow Y j + (if f < j then occ else 0)) % 2 := by
  unfold bitv
  by_cases ho : occ = 1
  · rw [if_pos ho, countBelow_xflip, ho]
  · have h0 : occ = 0 := by omega
    rw [if_neg ho, Nat.xor_zero, h0]; simp

theorem bitv_flip (Y occ f j : Nat) :
    (Y ^^^ bitv occ f) ^^^ (1 <<< j) = (Y ^^^ (1 <<< j)) ^^^ bitv occ f := by
  unfold bitv
  by_cases ho : occ = 1
  · rw [if_pos ho, xflip_comm]
  · rw [if_neg ho, Nat.xor_zero, Nat.xor_zero]

theorem bitv_toggle (Y occ f : Nat) (hocc : occ < 2) :
    (Y ^^^ bitv occ f) ^^^ (1 <<< f) = Y ^^^ bitv ((occ + 1) % 2) f := by
  unfold bitv
  by_cases ho : occ = 1
  · subst ho; simp [xflip_xflip]
  · have h0 : occ = 0 := by omega
    subst h0; simp

/-- the term is annihilated on the frozen mode: some operator on `f` meets the wrong occupation -/
def deadIn (f : Nat) : Nat → Term → Bool
  | _, [] => false
  | occ, g :: r => if g.1 = f then (occ == g.2) || deadIn f ((occ + 1) % 2) r else deadIn f occ r

/-- operators on other modes acting while the frozen mode is away from its initial occupation -/
def insideCnt (f : Nat) : Nat → Term → Nat
  | _, [] => 0
  | p, g :: r => if g.1 = f then insideCnt f ((p + 1) % 2) r else p + insideCnt f p r

/-- operators on modes above `f` -/
def Jcnt (f : Nat) : Term → Nat
  | [] => 0
  | g :: r => if g.1 = f then Jcnt f r else (if f < g.1 then 1 else 0) + Jcnt f r

theorem countIdx_cons_eq (f : Nat) (g : Factor) (r : Term) (h : g.1 = f) :
    countIdx f (g :: r) = countIdx f r + 1 := by
  simp [countIdx, List.filter_cons, h]

theorem countIdx_cons_ne (f : Nat) (g : Factor) (r : Term) (h : g.1 ≠ f) :
    countIdx f (g :: r) = countIdx f r := by
  simp [countIdx, List.filter_cons, h]

/-- **the joint invariant** of the Spec on the full register and on the register without the frozen
mode, from any intermediate point (`p` = parity of the operators on `f` seen so far). -/
theorem core (f o : Nat) (ho : o < 2) :
    ∀ (L : Term), (∀ g ∈ L, g.2 < 2) → ∀ (k k' Y p occ : Nat), p < 2 → occ = (o + p) % 2 →
    Y.testBit f = false →
    (run L (k, Y ^^^ bitv occ f) = none →
        deadIn f occ L = true ∨ run (L.filter fun g => g.1 ≠ f) (k', Y) = none) ∧
    (∀ kb Xb, run L (k, Y ^^^ bitv occ f) = some (kb, Xb) →
        deadIn f occ L = false ∧
        ∃ ks Ys, run (L.filter fun g => g.1 ≠ f) (k', Y) = some (ks, Ys) ∧ Ys.testBit f = false ∧
          Xb = Ys ^^^ bitv ((occ + countIdx f L) % 2) f ∧
          (kb + ks + k + k') % 2 = (o * Jcnt f L + insideCnt f p L + p * countBelow Y f +
            ((p + countIdx f L) % 2) * countBelow Ys f) % 2) := by
  intro L
  induction L with
  | nil =>
    intro _ k k' Y p occ hp hrel hY
    refine ⟨fun h => by simp [run] at h, ?_⟩
    intro kb Xb h
    simp only [run, Option.some.injEq, Prod.mk.injEq] at h
    obtain ⟨rfl, rfl⟩ := h
    refine ⟨rfl, k', Y, rfl, hY, ?_, ?_⟩
    · have : (occ + countIdx f []) % 2 = occ := by simp [countIdx]; omega
      rw [this]
    · have h1 : (p + countIdx f []) % 2 = p := by simp [countIdx]; omega
      rw [h1]; simp only [Jcnt, insideCnt, Nat.mul_zero]; omega
  | cons g r ih =>
    intro hL k k' Y p occ hp hrel hY
    have hg2 : g.2 < 2 := hL g (by simp)
    have hr : ∀ g ∈ r, g.2 < 2 := fun x hx => hL x (by simp [hx])
    have hocc : occ < 2 := by omega
    by_cases hf : g.1 = f
    · -- an operator on the frozen mode
      have hfilter : ((g :: r).filter fun g => g.1 ≠ f) = r.filter fun g => g.1 ≠ f := by
        simp [List.filter_cons, hf]
      have hX : (Y ^^^ bitv occ f).testBit g.1 = decide (occ = 1) := by
        rw [hf]; exact testBit_bitv_self Y occ f hY
      by_cases hd : occ = g.2
      · have hnone : run (g :: r) (k, Y ^^^ bitv occ f) = none := by
          have : actF g.1 g.2 (Y ^^^ bitv occ f) = none := by
            unfold actF; rw [hX, ← hd]
            by_cases h1 : occ = 1 <;> simp [h1]
          simp only [run, this]
        refine ⟨fun _ => Or.inl (by simp [deadIn, hf, hd]), ?_⟩
        intro kb Xb h; rw [hnone] at h; cases h
      · have hact : actF g.1 g.2 (Y ^^^ bitv occ f) =
            some (countBelow (Y ^^^ bitv occ f) g.1 % 2, (Y ^^^ bitv occ f) ^^^ (1 <<< g.1)) := by
          unfold actF; rw [hX]
          have : ((g.2 == 1) == decide (occ = 1)) = false := by
            rcases (by omega : g.2 = 0 ∨ g.2 = 1) with h | h <;>
              rcases (by omega : occ = 0 ∨ occ = 1) with h' | h' <;> simp [h, h'] <;> omega
          rw [this]; rfl
        have hrun : run (g :: r) (k, Y ^^^ bitv occ f) =
            run r ((k + countBelow (Y ^^^ bitv occ f) g.1 % 2) % 2, Y ^^^ bitv ((occ + 1) % 2) f) := by
          simp only [run, hact]
          rw [hf, bitv_toggle Y occ f hocc]
        have hcb : countBelow (Y ^^^ bitv occ f) g.1 % 2 = countBelow Y f % 2 := by
          rw [hf, countBelow_bitv Y occ f f hocc]; simp
        have hdead : deadIn f occ (g :: r) = deadIn f ((occ + 1) % 2) r := by
          have : (occ == g.2) = false := by simp [hd]
          simp [deadIn, hf, this]
        have hcnt := countIdx_cons_eq f g r hf
        have IH := ih hr ((k + countBelow (Y ^^^ bitv occ f) g.1 % 2) % 2) k' Y ((p + 1) % 2)
          ((occ + 1) % 2) (by omega) (by omega) hY
        rw [hrun, hfilter, hdead]
        refine ⟨IH.1, ?_⟩
        intro kb Xb h
        obtain ⟨h1, ks, Ys, h2, h3, h4, h5⟩ := IH.2 kb Xb h
        refine ⟨h1, ks, Ys, h2, h3, ?_, ?_⟩
        · rw [h4, hcnt]
          have : ((occ + 1) % 2 + countIdx f r) % 2 = (occ + (countIdx f r + 1)) % 2 := by omega
          rw [this]
        · rw [hcnt]
          have he : ((p + 1) % 2 + countIdx f r) % 2 = (p + (countIdx f r + 1)) % 2 := by omega
          rw [he] at h5
          have hJ : Jcnt f (g :: r) = Jcnt f r := by simp [Jcnt, hf]
          have hI : insideCnt f p (g :: r) = insideCnt f ((p + 1) % 2) r := by simp [insideCnt, hf]
          rw [hJ, hI]
          generalize ((p + (countIdx f r + 1)) % 2) * countBelow Ys f = z at h5 ⊢
          generalize o * Jcnt f r = w at h5 ⊢
          rw [hcb] at h5
          rcases (by omega : p = 0 ∨ p = 1) with hp0 | hp1
          · subst hp0
            simp only [Nat.zero_add, Nat.zero_mul, Nat.add_zero] at h5 ⊢
            omega
          · subst hp1
            have : ((1 + 1) % 2) = 0 := rfl
            rw [this] at h5 ⊢
            rw [Nat.zero_mul] at h5
            rw [Nat.one_mul]
            omega
    · -- an operator on another mode
      have hfne : f ≠ g.1 := fun h => hf h.symm
      have hfilter : ((g :: r).filter fun g => g.1 ≠ f) = g :: r.filter fun g => g.1 ≠ f := by
        simp [List.filter_cons, hf]
      have hX : (Y ^^^ bitv occ f).testBit g.1 = Y.testBit g.1 := testBit_bitv_ne Y occ f g.1 hfne
      have hdead : deadIn f occ (g :: r) = deadIn f occ r := by simp [deadIn, hf]
      have hcnt := countIdx_cons_ne f g r hf
      by_cases hd : (g.2 == 1) = Y.testBit g.1
      · have h1 : actF g.1 g.2 (Y ^^^ bitv occ f) = none := by
          unfold actF; rw [hX, hd]; simp
        have h2 : actF g.1 g.2 Y = none := by
          unfold actF; rw [hd]; simp
        have hnone : run (g :: r) (k, Y ^^^ bitv occ f) = none := by simp only [run, h1]
        refine ⟨fun _ => Or.inr (by rw [hfilter]; simp only [run, h2]), ?_⟩
        intro kb Xb h; rw [hnone] at h; cases h
      · have hb : ((g.2 == 1) == Y.testBit g.1) = false := by
          cases h1 : (g.2 == 1) <;> cases h2 : Y.testBit g.1 <;> simp_all
        have h1 : actF g.1 g.2 (Y ^^^ bitv occ f) =
            some (countBelow (Y ^^^ bitv occ f) g.1 % 2, (Y ^^^ (1 <<< g.1)) ^^^ bitv occ f) := by
          unfold actF; rw [hX, hb, ← bitv_flip]; rfl
        have h2 : actF g.1 g.2 Y = some (countBelow Y g.1 % 2, Y ^^^ (1 <<< g.1)) := by
          unfold actF; rw [hb]; rfl
        have hY' : (Y ^^^ (1 <<< g.1)).testBit f = false := by
          rw [testBit_xflip_ne _ _ _ hf]; exact hY
        have hrun : run (g :: r) (k, Y ^^^ bitv occ f) =
            run r ((k + countBelow (Y ^^^ bitv occ f) g.1 % 2) % 2,
              (Y ^^^ (1 <<< g.1)) ^^^ bitv occ f) := by
          simp only [run, h1]
        have hrun' : run (g :: r.filter fun g => g.1 ≠ f) (k', Y) =
            run (r.filter fun g => g.1 ≠ f) ((k' + countBelow Y g.1 % 2) % 2, Y ^^^ (1 <<< g.1)) := by
          simp only [run, h2]
        have IH := ih hr ((k + countBelow (Y ^^^ bitv occ f) g.1 % 2) % 2)
          ((k' + countBelow Y g.1 % 2) % 2) (Y ^^^ (1 <<< g.1)) p occ hp hrel hY'
        rw [hrun, hfilter, hrun', hdead, hcnt]
        refine ⟨IH.1, ?_⟩
        intro kb Xb h
        obtain ⟨e1, ks, Ys, e2, e3, e4, e5⟩ := IH.2 kb Xb h
        refine ⟨e1, ks, Ys, e2, e3, e4, ?_⟩
        have hcbX := countBelow_bitv Y occ f g.1 hocc
        have hcbY := countBelow_xflip Y g.1 f
        have hJ : Jcnt f (g :: r) = (if f < g.1 then 1 else 0) + Jcnt f r := by simp [Jcnt, hf]
        have hI : insideCnt f p (g :: r) = p + insideCnt f p r := by simp [insideCnt, hf]
        rw [hJ, hI, Nat.mul_add]
        generalize ((p + countIdx f r) % 2) * countBelow Ys f = z at e5 ⊢
        generalize o * Jcnt f r = w at e5 ⊢
        generalize countBelow (Y ^^^ bitv occ f) g.1 = cX at e5 hcbX
        generalize countBelow (Y ^^^ (1 <<< g.1)) f = cY' at e5 hcbY
        rcases (by omega : p = 0 ∨ p = 1) with hp0 | hp1
        · subst hp0
          simp only [Nat.zero_mul, Nat.add_zero, Nat.zero_add] at e5 ⊢
          by_cases hlt : f < g.1
          · rw [if_pos hlt] at hcbX ⊢
            rw [Nat.mul_one]
            omega
          · rw [if_neg hlt] at hcbX ⊢
            rw [Nat.mul_zero]
            omega
        · subst hp1
          simp only [Nat.one_mul] at e5 ⊢
          by_cases hlt : f < g.1
          · have hgt : ¬ g.1 < f := by omega
            rw [if_pos hlt] at hcbX ⊢
            rw [if_neg hgt] at hcbY
            rw [Nat.mul_one]
            omega
          · have hgt : g.1 < f := by omega
            rw [if_neg hlt] at hcbX ⊢
            rw [if_pos hgt] at hcbY
            rw [Nat.mul_zero]
            omega

/-! ### the counters of the scan -/

theorem scan_dead (item : Nat × Nat) :
    ∀ (L : Term) (i : Nat) (st : Term × Int × Bool × Nat × Int), st.2.2.2.1 < 2 →
    ((L.zipIdx i).foldl (freezeStep item) st).2.2.1 = (st.2.2.1 || deadIn item.1 st.2.2.2.1 L) ∧
    ((L.zipIdx i).foldl (freezeStep item) st).2.2.2.1 < 2 := by
  intro L
  induction L with
  | nil => intro i st h; simp [deadIn, h]
  | cons g r ih =>
    intro i st h
    simp only [List.zipIdx_cons, List.foldl_cons]
    by_cases hf : g.1 = item.1
    · have hstep : freezeStep item st (g, i) = (st.1, st.2.1 + ((i : Int) - (st.2.2.2.2 + 1)),
          st.2.2.1 || (st.2.2.2.1 == g.2), (st.2.2.2.1 + 1) % 2, st.2.2.2.2 + 1) := by
        simp [freezeStep, hf]
      have := ih (i + 1) (freezeStep item st (g, i)) (by rw [hstep]; simp only; omega)
      rw [hstep] at this ⊢
      refine ⟨?_, this.2⟩
      rw [this.1]
      simp [deadIn, hf, Bool.or_assoc]
    · have hstep : freezeStep item st (g, i) = (g :: st.1, st.2.1, st.2.2.1, st.2.2.2.1, st.2.2.2.2) := by
        simp [freezeStep, hf]
      have := ih (i + 1) (freezeStep item st (g, i)) (by rw [hstep]; exact h)
      rw [hstep] at this ⊢
      refine ⟨?_, this.2⟩
      rw [this.1]
      simp [deadIn, hf]

/-- operators on other modes -/
def others (f : Nat) (L : Term) : Nat := (L.filter fun g => g.1 ≠ f).length

theorem trueSwaps_parity (f : Nat) : ∀ (L : Term) (o' p : Nat), p < 2 →
    (trueSwaps f o' L + p * o') % 2
      = (insideCnt f p L + ((p + countIdx f L) % 2) * (o' + others f L)) % 2 := by
  intro L
  induction L with
  | nil =>
    intro o' p hp
    rcases (by omega : p = 0 ∨ p = 1) with h | h <;> subst h <;>
      simp [trueSwaps, insideCnt, countIdx, others]
  | cons g r ih =>
    intro o' p hp
    by_cases hf : g.1 = f
    · have IH := ih o' ((p + 1) % 2) (by omega)
      have he : ((p + 1) % 2 + countIdx f r) % 2 = (p + (countIdx f r + 1)) % 2 := by omega
      have hoth : others f (g :: r) = others f r := by simp [others, List.filter_cons, hf]
      have hts : trueSwaps f o' (g :: r) = o' + trueSwaps f o' r := by simp [trueSwaps, hf]
      have hI : insideCnt f p (g :: r) = insideCnt f ((p + 1) % 2) r := by simp [insideCnt, hf]
      rw [he] at IH
      rw [countIdx_cons_eq f g r hf, hoth, hts, hI]
      generalize ((p + (countIdx f r + 1)) % 2) * (o' + others f r) = z at IH ⊢
      rcases (by omega : p = 0 ∨ p = 1) with h | h
      · subst h
        have : (0 + 1) % 2 = 1 := rfl
        rw [this] at IH ⊢
        rw [Nat.one_mul] at IH
        rw [Nat.zero_mul]
        omega
      · subst h
        have : (1 + 1) % 2 = 0 := rfl
        rw [this] at IH ⊢
        rw [Nat.zero_mul] at IH
        rw [Nat.one_mul]
        omega
    · have IH := ih (o' + 1) p hp
      have hoth : others f (g :: r) = others f r + 1 := by simp [others, List.filter_cons, hf]
      have hts : trueSwaps f o' (g :: r) = trueSwaps f (o' + 1) r := by simp [trueSwaps, hf]
      have hI : insideCnt f p (g :: r) = p + insideCnt f p r := by simp [insideCnt, hf]
      have hre : o' + (others f r + 1) = o' + 1 + others f r := by omega
      rw [countIdx_cons_ne f g r hf, hoth, hts, hI, hre]
      generalize ((p + countIdx f r) % 2) * (o' + 1 + others f r) = z at IH ⊢
      rcases (by omega : p = 0 ∨ p = 1) with h | h
      · subst h
        rw [Nat.zero_mul] at IH ⊢
        omega
      · subst h
        rw [Nat.one_mul] at IH ⊢
        omega

theorem Jcnt_eq (f : Nat) (L : Term) :
    Jcnt f L = ((L.filter fun g => g.1 ≠ f).filter fun g => g.1 > f).length := by
  induction L with
  | nil => rfl
  | cons g r ih =>
    by_cases hf : g.1 = f
    · simp [Jcnt, hf, ih]
    · by_cases hlt : f < g.1
      · simp [Jcnt, hf, hlt, ih, List.filter_cons]; omega
      · simp [Jcnt, hf, hlt, ih, List.filter_cons]

theorem run_lt (L : Term) : ∀ (a b : Nat × Nat), a.1 < 2 → run L a = some b → b.1 < 2 := by
  induction L with
  | nil => intro a b h e; simp only [run, Option.some.injEq] at e; rw [← e]; exact h
  | cons g r ih =>
    intro a b h e
    simp only [run] at e
    cases hact : actF g.1 g.2 a.2 with
    | none => rw [hact] at e; cases e
    | some c =>
      rw [hact] at e
      exact ih _ b (Nat.mod_lt _ (by omega)) e

/-- **the scan of `freeze_orbitals` against the Spec**, one product of ladder operators, one frozen
mode `f` with occupation `o`; `Y` is a state of the register in which mode `f` is empty. -/
theorem freeze_term (f o : Nat) (ho : o < 2) (τ : Term) (hτ : ∀ g ∈ τ, g.2 < 2) (Y : Nat)
    (hY : Y.testBit f = false) :
    (((freezeScan (f, o) τ).2.2.1 = false ∧ (freezeScan (f, o) τ).2.2.2 = o) →
      match actFTerm (freezeScan (f, o) τ).1 Y with
      | none => actFTerm τ (Y ^^^ bitv o f) = none
      | some (ks, Ys) => Ys.testBit f = false ∧
          actFTerm τ (Y ^^^ bitv o f) = some ((ks + ((freezeScan (f, o) τ).2.1 % 2).toNat +
            o * ((freezeScan (f, o) τ).1.filter fun g => g.1 > f).length) % 2, Ys ^^^ bitv o f)) ∧
    (¬ ((freezeScan (f, o) τ).2.2.1 = false ∧ (freezeScan (f, o) τ).2.2.2 = o) →
      ∀ kb Xb, actFTerm τ (Y ^^^ bitv o f) = some (kb, Xb) → Xb.testBit f = !decide (o = 1)) := by
  obtain ⟨s1, s2, s3⟩ := scan_spec (f, o) τ
  have hdead : (freezeScan (f, o) τ).2.2.1 = deadIn f o τ.reverse ∧ (freezeScan (f, o) τ).2.2.2 < 2 := by
    have := scan_dead (f, o) τ.reverse 0 (([] : Term), (0 : Int), false, o, (0 : Int)) ho
    simpa [freezeScan] using this
  have hl : ∀ g ∈ τ.reverse, g.2 < 2 := fun g hg => hτ g (List.mem_reverse.mp hg)
  have hcnt : countIdx f τ.reverse = countIdx f τ := by
    simp [countIdx, List.filter_reverse]
  have hfr : (τ.reverse.filter fun g => g.1 ≠ f) = (τ.filter fun g => g.1 ≠ f).reverse := by
    rw [List.filter_reverse]
  have hJ : Jcnt f τ.reverse = ((freezeScan (f, o) τ).1.filter fun g => g.1 > f).length := by
    rw [Jcnt_eq, s1, hfr, List.filter_reverse, List.length_reverse]
  have C := core f o ho τ.reverse hl 0 0 Y 0 o (by omega) (by omega) hY
  rw [actFTerm_eq_run, s1, actFTerm_eq_run, ← hfr]
  simp only at s1 s2 s3
  rw [hcnt] at C
  constructor
  · rintro ⟨a1, a2⟩
    rw [hdead.1] at a1
    rw [a2] at s3
    have hev : countIdx f τ % 2 = 0 := by omega
    cases hsm : run (τ.reverse.filter fun g => g.1 ≠ f) (0, Y) with
    | none =>
      simp only
      cases hb : run τ.reverse (0, Y ^^^ bitv o f) with
      | none => rfl
      | some b =>
        obtain ⟨_, ks, Ys, e, _⟩ := C.2 b.1 b.2 hb
        rw [hsm] at e; cases e
    | some sm =>
      obtain ⟨ks, Ys⟩ := sm
      simp only
      cases hb : run τ.reverse (0, Y ^^^ bitv o f) with
      | none =>
        rcases C.1 hb with h | h
        · rw [a1] at h; cases h
        · rw [hsm] at h; cases h
      | some b =>
        obtain ⟨kb, Xb⟩ := b
        obtain ⟨_, ks', Ys', e, e3, e4, e5⟩ := C.2 kb Xb hb
        rw [hsm] at e
        simp only [Option.some.injEq, Prod.mk.injEq] at e
        obtain ⟨rfl, rfl⟩ := e
        have h1 : (o + countIdx f τ) % 2 = o := by omega
        have h2 : (0 + countIdx f τ) % 2 = 0 := by omega
        rw [h1] at e4
        rw [h2, Nat.zero_mul, Nat.zero_mul] at e5
        refine ⟨e3, ?_⟩
        have hkb := run_lt _ _ _ (by simp : (0, Y ^^^ bitv o f).1 < 2) hb
        have hts := trueSwaps_parity f τ.reverse 0 0 (by omega)
        rw [hcnt, h2, Nat.zero_mul, Nat.zero_mul] at hts
        rw [s1] at hJ
        rw [e4, ← hJ]
        congr 1
        simp only [Prod.mk.injEq, and_true]
        have hn : ((freezeScan (f, o) τ).2.1 % 2).toNat = trueSwaps f 0 τ.reverse % 2 := by
          rw [s2]; omega
        rw [hn]
        simp only at hkb
        generalize o * Jcnt f τ.reverse = w at e5 ⊢
        omega
  · intro hna kb Xb hb
    obtain ⟨d1, ks, Ys, e, e3, e4, _⟩ := C.2 kb Xb hb
    rw [← hdead.1] at d1
    have hne : (freezeScan (f, o) τ).2.2.2 ≠ o := fun h => hna ⟨d1, h⟩
    have hlt := hdead.2
    have hmod : (freezeScan (f, o) τ).2.2.2 % 2 = (freezeScan (f, o) τ).2.2.2 := Nat.mod_eq_of_lt hlt
    rw [hmod] at s3
    rw [e4, testBit_bitv_self _ _ _ e3, ← s3]
    rcases (by omega : o = 0 ∨ o = 1) with h | h <;> subst h <;> simp <;> omega

/-! ### whole operators, one frozen mode -/

theorem semDen_fermion (A : Model.Op) (m x : Nat) :
    Sem.den .fermion A [m] [x] = Model.den (fun t => Sem.termCoef .fermion t [m] [x]) A := by
  induction A with
  | nil => simp [Sem.den_nil, Model.den]
  | cons e r ih =>
    obtain ⟨t, c⟩ := e
    rw [Sem.den_cons, ih]
    rfl

theorem xor_cancel_right {a b c : Nat} (h : a ^^^ b = c ^^^ b) : a = c := by
  have := congrArg (· ^^^ b) h
  simpa [Nat.xor_assoc] using this

theorem sgn_add' (a b : Nat) : GQ.sgn (a + b) = GQ.sgn a * GQ.sgn b := by
  unfold GQ.sgn
  have ha : a % 2 = 0 ∨ a % 2 = 1 := by omega
  have hb : b % 2 = 0 ∨ b % 2 = 1 := by omega
  rcases ha with ha | ha <;> rcases hb with hb | hb <;>
    · have : (a + b) % 2 = (a % 2 + b % 2) % 2 := by omega
      rw [this, ha, hb]; simp

theorem sgn_mod' (a : Nat) : GQ.sgn (a % 2) = GQ.sgn a := by
  unfold GQ.sgn; rw [Nat.mod_mod]

/-- the sign `freeze_orbitals` applies for an occupied frozen mode -/
def sgO (f o : Nat) (t : Term) : GQ :=
  if (o * (t.filter fun g => g.1 > f).length) % 2 = 0 then 1 else -1

theorem sgO_eq (f o : Nat) (t : Term) : sgO f o t = GQ.sgn (o * (t.filter fun g => g.1 > f).length) := by
  unfold sgO GQ.sgn
  by_cases h : (o * (t.filter fun g => g.1 > f).length) % 2 = 0 <;> simp [h]

theorem den_map_sign (φ : Term → GQ) (P : Term → Prop) [DecidablePred P] (R : Model.Op) :
    Model.den φ (R.map fun (e : Term × GQ) => (e.1, if P e.1 then e.2 else e.2 * (-1)))
      = Model.den (fun t => (if P t then 1 else -1) * φ t) R := by
  induction R with
  | nil => rfl
  | cons e r ih =>
    simp only [List.map_cons, Model.den_cons, ih]
    by_cases h : P e.1 <;> simp [h]

/-- the coefficient `freeze_orbitals` gives the scanned term -/
def c1Of (f o : Nat) (τ : Term) (c : GQ) : GQ :=
  if (freezeScan (f, o) τ).2.1 % 2 ≠ 0
  then (if (freezeScan (f, o) τ).2.2.1 then 0 else c) * (-1)
  else (if (freezeScan (f, o) τ).2.2.1 then 0 else c)

theorem freezeStepX_eq (tol : Rat) (f o : Nat) (acc : Model.Op × Bool) (e : Term × GQ) :
    freezeStepX tol (f, o) acc e =
      if c1Of f o e.1 e.2 ≠ 0 ∧ (freezeScan (f, o) e.1).2.2.2 = o then
        (Model.iadd tol acc.1 (mk .fermion (freezeScan (f, o) e.1).1 (c1Of f o e.1 e.2)),
          acc.2 && exactAddB tol acc.1 (mk .fermion (freezeScan (f, o) e.1).1 (c1Of f o e.1 e.2)))
      else acc := rfl

/-- the contribution of one term to `tmp_operator`, against the Spec -/
theorem freeze_contrib (f o : Nat) (ho : o < 2) (τ : Term) (hτ : ∀ g ∈ τ, g.2 < 2) (c : GQ) (Y T : Nat)
    (hY : Y.testBit f = false) (hT : T.testBit f = false) :
    (if c1Of f o τ c ≠ 0 ∧ (freezeScan (f, o) τ).2.2.2 = o
      then c1Of f o τ c *
        (sgO f o (freezeScan (f, o) τ).1 * Sem.termCoef .fermion (freezeScan (f, o) τ).1 [Y] [T])
      else 0)
      = c * Sem.termCoef .fermion τ [Y ^^^ bitv o f] [T ^^^ bitv o f] := by
  obtain ⟨F1, F2⟩ := freeze_term f o ho τ hτ Y hY
  unfold c1Of
  generalize hsc : freezeScan (f, o) τ = sc at F1 F2 ⊢
  obtain ⟨nt, nsw, dead, occ⟩ := sc
  simp only at F1 F2 ⊢
  by_cases halive : dead = false ∧ occ = o
  · obtain ⟨hd, hocc⟩ := halive
    have F := F1 ⟨hd, hocc⟩
    subst hd; subst hocc
    simp only [Bool.false_eq_true, if_false, and_true]
    rw [Sem.termCoef_fermion, Sem.termCoef_fermion]
    cases hsm : actFTerm nt Y with
    | none =>
      rw [hsm] at F
      simp only at F
      rw [F]
      simp
    | some sm =>
      obtain ⟨ks, Ys⟩ := sm
      rw [hsm] at F
      simp only at F
      rw [F.2]
      simp only
      by_cases hYT : Ys = T
      · subst hYT
        simp only [if_true]
        rw [sgn_mod', sgn_add', sgn_add', sgO_eq]
        have hsw : (if nsw % 2 ≠ 0 then c * (-1) else c) = c * GQ.sgn (nsw % 2).toNat := by
          have : nsw % 2 = 0 ∨ nsw % 2 = 1 := by omega
          rcases this with h | h <;> simp [h, GQ.sgn]
        rw [hsw]
        by_cases hz : c * GQ.sgn (nsw % 2).toNat = 0
        · rw [if_neg (by simp [hz])]
          have : c * (GQ.sgn ks * GQ.sgn (nsw % 2).toNat * GQ.sgn (occ * (List.filter (fun g => decide (g.1 > f)) nt).length))
              = (c * GQ.sgn (nsw % 2).toNat) * (GQ.sgn ks * GQ.sgn (occ * (List.filter (fun g => decide (g.1 > f)) nt).length)) := by
            ring
          rw [this, hz, zero_mul]
        · rw [if_pos hz]; ring
      · have : ¬ Ys ^^^ bitv occ f = T ^^^ bitv occ f := fun h => hYT (xor_cancel_right h)
        rw [if_neg hYT, if_neg this]
        simp
  · have hzero : Sem.termCoef .fermion τ [Y ^^^ bitv o f] [T ^^^ bitv o f] = 0 := by
      rw [Sem.termCoef_fermion]
      cases hb : actFTerm τ (Y ^^^ bitv o f) with
      | none => rfl
      | some b =>
        obtain ⟨kb, Xb⟩ := b
        have h1 := F2 halive kb Xb hb
        have h2 := testBit_bitv_self T o f hT
        have : ¬ Xb = T ^^^ bitv o f := by
          intro h; rw [h, h2] at h1
          cases hdec : decide (o = 1) <;> rw [hdec] at h1 <;> cases h1
        simp only [if_neg this]
    rw [hzero, mul_zero]
    apply if_neg
    rintro ⟨h1, h2⟩
    apply halive
    refine ⟨?_, h2⟩
    cases dead with
    | false => rfl
    | true => simp at h1

/-- the same with a weight that does not see the removal of an even number of operators on `f` -/
theorem freeze_contrib_w (f o : Nat) (ho : o < 2) (w : Term → GQ)
    (hw : ∀ τ, countIdx f τ % 2 = 0 → w (τ.filter fun g => g.1 ≠ f) = w τ)
    (τ : Term) (hτ : ∀ g ∈ τ, g.2 < 2) (c : GQ) (Y T : Nat)
    (hY : Y.testBit f = false) (hT : T.testBit f = false) :
    (if c1Of f o τ c ≠ 0 ∧ (freezeScan (f, o) τ).2.2.2 = o
      then c1Of f o τ c * (w (freezeScan (f, o) τ).1 *
        (sgO f o (freezeScan (f, o) τ).1 * Sem.termCoef .fermion (freezeScan (f, o) τ).1 [Y] [T]))
      else 0)
      = c * (w τ * Sem.termCoef .fermion τ [Y ^^^ bitv o f] [T ^^^ bitv o f]) := by
  have hc := freeze_contrib f o ho τ hτ c Y T hY hT
  by_cases hocc : (freezeScan (f, o) τ).2.2.2 = o
  · have hev : countIdx f τ % 2 = 0 := by
      have := (scan_spec (f, o) τ).2.2
      rw [hocc] at this
      simp only at this
      omega
    have hwe : w (freezeScan (f, o) τ).1 = w τ := by rw [(scan_spec (f, o) τ).1]; exact hw τ hev
    rw [hwe]
    by_cases hcond : c1Of f o τ c ≠ 0 ∧ (freezeScan (f, o) τ).2.2.2 = o
    · rw [if_pos hcond] at hc ⊢
      rw [← mul_assoc, mul_comm (c1Of f o τ c) (w τ), mul_assoc, hc]; ring
    · rw [if_neg hcond] at hc ⊢
      rw [← mul_assoc, mul_comm c (w τ), mul_assoc, ← hc, mul_zero]
  · have hcond : ¬ (c1Of f o τ c ≠ 0 ∧ (freezeScan (f, o) τ).2.2.2 = o) := fun h => hocc h.2
    rw [if_neg hcond] at hc ⊢
    rw [← mul_assoc, mul_comm c (w τ), mul_assoc, ← hc, mul_zero]

/-- **one pass of `freeze_orbitals`**: the accumulated operator, weighted by the occupied-mode sign,
reproduces the matrix elements of the input between the states with the frozen occupation, in the
exact regime of the run -/
theorem freeze_fold (tol : Rat) (f o : Nat) (ho : o < 2) (w : Term → GQ)
    (hw : ∀ τ, countIdx f τ % 2 = 0 → w (τ.filter fun g => g.1 ≠ f) = w τ) (Y T : Nat)
    (hY : Y.testBit f = false) (hT : T.testBit f = false) :
    ∀ (A : Model.Op) (acc : Model.Op × Bool), (∀ e ∈ A, ∀ g ∈ e.1, g.2 < 2) →
    (A.foldl (freezeStepX tol (f, o)) acc).2 = true →
    acc.2 = true ∧
    Model.den (fun t => w t * (sgO f o t * Sem.termCoef .fermion t [Y] [T])) (A.foldl (freezeStepX tol (f, o)) acc).1
      = Model.den (fun t => w t * (sgO f o t * Sem.termCoef .fermion t [Y] [T])) acc.1
        + Model.den (fun τ => w τ * Sem.termCoef .fermion τ [Y ^^^ bitv o f] [T ^^^ bitv o f]) A := by
  intro A
  induction A with
  | nil => intro acc _ h; exact ⟨h, by simp [Model.den]⟩
  | cons e r ih =>
    intro acc hA h
    rw [List.foldl_cons] at h ⊢
    have hr : ∀ e ∈ r, ∀ g ∈ e.1, g.2 < 2 := fun x hx => hA x (by simp [hx])
    obtain ⟨h1, h2⟩ := ih (freezeStepX tol (f, o) acc e) hr h
    have hc := freeze_contrib_w f o ho w hw e.1 (hA e (by simp)) e.2 Y T hY hT
    rw [h2, Model.den_cons]
    rw [freezeStepX_eq] at h1 ⊢
    by_cases hcond : c1Of f o e.1 e.2 ≠ 0 ∧ (freezeScan (f, o) e.1).2.2.2 = o
    · rw [if_pos hcond] at hc h1 ⊢
      simp only [Bool.and_eq_true] at h1
      refine ⟨h1.1, ?_⟩
      simp only
      rw [den_iadd tol _ _ _ (exactAddB_sound tol _ _ h1.2)]
      simp only [mk, simplify, Model.den_cons, Model.den_nil, mul_one, add_zero]
      rw [← hc]; ring
    · rw [if_neg hcond] at hc h1 ⊢
      refine ⟨h1, ?_⟩
      rw [← hc]; ring

/-- `freeze_orbitals(A, [f] or [], [] or [f], prune=False)` for one frozen mode -/
theorem freeze_single (tol : Rat) (f o : Nat) (ho : o < 2) (A : Model.Op) (hA : ∀ e ∈ A, ∀ g ∈ e.1, g.2 < 2)
    (hex : (freezeOneX tol (f, o) A).2 = true) (Y T : Nat)
    (hY : Y.testBit f = false) (hT : T.testBit f = false) :
    Sem.den .fermion ((freezeOneX tol (f, o) A).1.map fun (e : Term × GQ) =>
        (e.1, if (o * (e.1.filter fun g => g.1 > f).length) % 2 = 0 then e.2 else e.2 * (-1))) [Y] [T]
      = Sem.den .fermion A [Y ^^^ bitv o f] [T ^^^ bitv o f] := by
  rw [semDen_fermion, semDen_fermion,
    den_map_sign (fun t => Sem.termCoef .fermion t [Y] [T])
      (fun t => (o * (t.filter fun g => g.1 > f).length) % 2 = 0)]
  have := (freeze_fold tol f o ho (fun _ => 1) (fun _ _ => rfl) Y T hY hT A ([], true) hA hex).2
  simp only [Model.den_nil, zero_add, one_mul] at this
  exact this

/-! ### several frozen modes -/

theorem erase_all (P : Term → Prop) {d : Model.Op} (t : Term) (hd : ∀ e ∈ d, P e.1) :
    ∀ e ∈ Dict.erase d t, P e.1 := by
  induction d with
  | nil => exact hd
  | cons e r ih =>
    obtain ⟨k, v⟩ := e
    have hr : ∀ e ∈ r, P e.1 := fun x hx => hd x (List.mem_cons_of_mem _ hx)
    simp only [Dict.erase]
    split
    · exact hr
    · intro x hx
      rcases List.mem_cons.mp hx with rfl | hx
      · exact hd _ (by simp)
      · exact ih hr x hx

theorem set_all (P : Term → Prop) {d : Model.Op} {k : Term} (v : GQ) (hd : ∀ e ∈ d, P e.1) (hk : P k) :
    ∀ e ∈ Dict.set d k v, P e.1 := by
  induction d with
  | nil => intro tc h; simp [Dict.set] at h; subst h; exact hk
  | cons e r ih =>
    obtain ⟨k', v'⟩ := e
    have hr : ∀ e ∈ r, P e.1 := fun tc h => hd tc (List.mem_cons_of_mem _ h)
    have he : P k' := hd (k', v') List.mem_cons_self
    simp only [Dict.set]
    split
    · intro tc h
      rcases List.mem_cons.1 h with rfl | h
      · exact he
      · exact hr tc h
    · intro tc h
      rcases List.mem_cons.1 h with rfl | h
      · exact he
      · exact ih hr tc h

theorem iadd_all (P : Term → Prop) (tol : Rat) (a b : Model.Op) (ha : ∀ e ∈ a, P e.1) (hb : ∀ e ∈ b, P e.1) :
    ∀ e ∈ Model.iadd tol a b, P e.1 := by
  unfold Model.iadd
  induction b generalizing a with
  | nil => exact ha
  | cons e r ih =>
    obtain ⟨t, c⟩ := e
    simp only [List.foldl_cons]
    apply ih _ _ (fun x hx => hb x (List.mem_cons_of_mem _ hx))
    split
    · exact erase_all P t ha
    · exact set_all P _ ha (hb (t, c) (by simp))

theorem freezeOne_all2 (P Q : Term → Prop) (tol : Rat) (f o : Nat)
    (hP : ∀ τ, P τ → Q (τ.filter fun g => g.1 ≠ f)) (A : Model.Op) (hA : ∀ e ∈ A, P e.1) :
    ∀ e ∈ (freezeOneX tol (f, o) A).1, Q e.1 := by
  unfold freezeOneX
  have gen : ∀ (A : Model.Op) (acc : Model.Op × Bool), (∀ e ∈ A, P e.1) → (∀ e ∈ acc.1, Q e.1) →
      ∀ e ∈ (A.foldl (freezeStepX tol (f, o)) acc).1, Q e.1 := by
    intro A
    induction A with
    | nil => intro acc _ h; exact h
    | cons x r ih =>
      intro acc hA hacc
      rw [List.foldl_cons]
      apply ih _ (fun e he => hA e (List.mem_cons_of_mem _ he))
      rw [freezeStepX_eq]
      split
      · apply iadd_all Q tol _ _ hacc
        intro e he
        simp only [mk, simplify, List.mem_singleton] at he
        subst he
        simp only
        rw [(scan_spec (f, o) x.1).1]
        exact hP _ (hA x (by simp))
      · exact hacc
  exact gen A _ hA (fun e he => by simp at he)

theorem freezeOne_all (P : Term → Prop) (tol : Rat) (f o : Nat)
    (hP : ∀ τ, P τ → P (τ.filter fun g => g.1 ≠ f)) (A : Model.Op) (hA : ∀ e ∈ A, P e.1) :
    ∀ e ∈ (freezeOneX tol (f, o) A).1, P e.1 := freezeOne_all2 P P tol f o hP A hA

/-- the mask of the frozen occupations -/
def maskF (frozen : List (Nat × Nat)) : Nat := frozen.foldr (fun it m => m ^^^ bitv it.2 it.1) 0

/-- the product of the occupied-mode signs -/
def sgAll (frozen : List (Nat × Nat)) (t : Term) : GQ := frozen.foldr (fun it s => sgO it.1 it.2 t * s) 1

theorem testBit_maskF (i : Nat) : ∀ (frozen : List (Nat × Nat)), (∀ it ∈ frozen, it.1 ≠ i) →
    (maskF frozen).testBit i = false := by
  intro frozen
  induction frozen with
  | nil => intro _; simp [maskF]
  | cons it r ih =>
    intro h
    have := ih (fun x hx => h x (by simp [hx]))
    simp only [maskF, List.foldr_cons] at this ⊢
    rw [testBit_bitv_ne _ _ _ _ (h it (by simp))]
    exact this

theorem filter_gt_count (i j : Nat) (τ : Term) :
    ((τ.filter fun g => g.1 ≠ j).filter fun g => g.1 > i).length + (if j > i then countIdx j τ else 0)
      = (τ.filter fun g => g.1 > i).length := by
  induction τ with
  | nil => simp [countIdx]
  | cons g r ih =>
    by_cases hj : g.1 = j
    · have hc : countIdx j (g :: r) = countIdx j r + 1 := countIdx_cons_eq j g r hj
      have h1 : ((g :: r).filter fun g => g.1 ≠ j) = r.filter fun g => g.1 ≠ j := by
        simp [List.filter_cons, hj]
      rw [hc, h1]
      by_cases hi : j > i
      · have h2 : ((g :: r).filter fun g => g.1 > i) = g :: r.filter fun g => g.1 > i := by
          have : g.1 > i := by omega
          simp [List.filter_cons, this]
        rw [h2, if_pos hi] at *
        simp only [List.length_cons]
        omega
      · have h2 : ((g :: r).filter fun g => g.1 > i) = r.filter fun g => g.1 > i := by
          have : ¬ g.1 > i := by omega
          simp [List.filter_cons, this]
        rw [h2, if_neg hi] at *
        omega
    · have hc : countIdx j (g :: r) = countIdx j r := countIdx_cons_ne j g r hj
      have h1 : ((g :: r).filter fun g => g.1 ≠ j) = g :: r.filter fun g => g.1 ≠ j := by
        simp [List.filter_cons, hj]
      rw [hc, h1]
      by_cases hgi : g.1 > i
      · have h2 : ∀ l : Term, ((g :: l).filter fun g => g.1 > i) = g :: l.filter fun g => g.1 > i := by
          intro l; simp [List.filter_cons, hgi]
        rw [h2, h2]
        simp only [List.length_cons]
        omega
      · have h2 : ∀ l : Term, ((g :: l).filter fun g => g.1 > i) = l.filter fun g => g.1 > i := by
          intro l; simp [List.filter_cons, hgi]
        rw [h2, h2]
        exact ih

theorem sgO_filter (i o j : Nat) (τ : Term) (hev : countIdx j τ % 2 = 0) :
    sgO i o (τ.filter fun g => g.1 ≠ j) = sgO i o τ := by
  rw [sgO_eq, sgO_eq]
  have := filter_gt_count i j τ
  unfold GQ.sgn
  have hpar : (o * ((τ.filter fun g => g.1 ≠ j).filter fun g => g.1 > i).length) % 2
      = (o * (τ.filter fun g => g.1 > i).length) % 2 := by
    rw [← this]
    by_cases hi : j > i
    · rw [if_pos hi, Nat.mul_add, Nat.add_mod, Nat.mul_mod _ (countIdx j τ), hev]; simp
    · rw [if_neg hi]; simp
  rw [hpar]

theorem den_congr' (φ ψ : Term → GQ) (h : ∀ t, φ t = ψ t) (A : Model.Op) : Model.den φ A = Model.den ψ A := by
  have : φ = ψ := funext h
  rw [this]

/-- **the outer loop of `freeze_orbitals`**, several frozen modes, in the exact regime of the run -/
theorem freeze_multi (tol : Rat) : ∀ (frozen : List (Nat × Nat)), (frozen.map (·.1)).Nodup →
    (∀ it ∈ frozen, it.2 < 2) → ∀ (A : Model.Op) (b : Bool) (w : Term → GQ) (Y T : Nat),
    (∀ it ∈ frozen, ∀ τ, countIdx it.1 τ % 2 = 0 → w (τ.filter fun g => g.1 ≠ it.1) = w τ) →
    (∀ e ∈ A, ∀ g ∈ e.1, g.2 < 2) →
    (∀ it ∈ frozen, Y.testBit it.1 = false) → (∀ it ∈ frozen, T.testBit it.1 = false) →
    (freezeAll tol frozen (A, b)).2 = true →
    b = true ∧
    Model.den (fun t => w t * (sgAll frozen t * Sem.termCoef .fermion t [Y] [T])) (freezeAll tol frozen (A, b)).1
      = Model.den (fun τ => w τ * Sem.termCoef .fermion τ [Y ^^^ maskF frozen] [T ^^^ maskF frozen]) A := by
  intro frozen
  induction frozen with
  | nil =>
    intro _ _ A b w Y T _ _ _ _ h
    refine ⟨h, ?_⟩
    simp [freezeAll, sgAll, maskF]
  | cons it rest ih =>
    intro hnd ho A b w Y T hw hA hY hT h
    obtain ⟨f, o⟩ := it
    have hnd0 : (f :: rest.map (·.1)).Nodup := hnd
    have hnd' : (rest.map (·.1)).Nodup := (List.nodup_cons.mp hnd0).2
    have hnotin : ∀ x ∈ rest, x.1 ≠ f := by
      intro x hx hxf
      exact (List.nodup_cons.mp hnd0).1 (List.mem_map.mpr ⟨x, hx, hxf⟩)
    have hof : o < 2 := ho (f, o) (by simp)
    have hstep : freezeAll tol ((f, o) :: rest) (A, b)
        = freezeAll tol rest ((freezeOneX tol (f, o) A).1, b && (freezeOneX tol (f, o) A).2) := rfl
    rw [hstep] at h ⊢
    have hA1 := freezeOne_all (fun τ => ∀ g ∈ τ, g.2 < 2) tol f o
      (fun τ hτ g hg => hτ g (List.mem_filter.mp hg).1) A hA
    have hw' : ∀ it ∈ rest, ∀ τ, countIdx it.1 τ % 2 = 0 →
        (fun t => w t * sgO f o t) (τ.filter fun g => g.1 ≠ it.1) = (fun t => w t * sgO f o t) τ := by
      intro it hit τ hev
      simp only
      rw [hw it (by simp [hit]) τ hev, sgO_filter f o it.1 τ hev]
    obtain ⟨hb, hden⟩ := ih hnd' (fun x hx => ho x (by simp [hx])) (freezeOneX tol (f, o) A).1
      (b && (freezeOneX tol (f, o) A).2) (fun t => w t * sgO f o t) Y T hw' hA1
      (fun x hx => hY x (by simp [hx])) (fun x hx => hT x (by simp [hx])) h
    simp only [Bool.and_eq_true] at hb
    refine ⟨hb.1, ?_⟩
    have hY' : (Y ^^^ maskF rest).testBit f = false := by
      rw [Nat.testBit_xor, hY (f, o) (by simp), testBit_maskF f rest hnotin]; rfl
    have hT' : (T ^^^ maskF rest).testBit f = false := by
      rw [Nat.testBit_xor, hT (f, o) (by simp), testBit_maskF f rest hnotin]; rfl
    have hfold := (freeze_fold tol f o hof w (hw (f, o) (by simp)) (Y ^^^ maskF rest) (T ^^^ maskF rest) hY' hT'
      A ([], true) hA hb.2).2
    simp only [Model.den_nil, zero_add] at hfold
    have hm : ∀ Z : Nat, Z ^^^ maskF ((f, o) :: rest) = (Z ^^^ maskF rest) ^^^ bitv o f := by
      intro Z; simp only [maskF, List.foldr_cons, Nat.xor_assoc]
    rw [hm Y, hm T]
    rw [den_congr' _ (fun t => (fun t => w t * sgO f o t) t * (sgAll rest t * Sem.termCoef .fermion t [Y] [T]))
      (fun t => by simp only [sgAll, List.foldr_cons]; ring)]
    rw [hden]
    rw [den_congr' _ (fun t => w t * (sgO f o t * Sem.termCoef .fermion t [Y ^^^ maskF rest] [T ^^^ maskF rest]))
      (fun t => by ring)]
    exact hfold

theorem foldl_add_eq (l : List Nat) (a : Nat) : l.foldl (· + ·) a = a + l.sum := by
  induction l generalizing a with
  | nil => simp
  | cons x r ih => simp only [List.foldl_cons, List.sum_cons, ih]; omega

theorem sgAll_append (a b : List (Nat × Nat)) (t : Term) : sgAll (a ++ b) t = sgAll a t * sgAll b t := by
  induction a with
  | nil => simp [sgAll]
  | cons x r ih =>
    simp only [sgAll, List.cons_append, List.foldr_cons] at ih ⊢
    rw [ih]; ring

theorem sgAll_unocc (l : List Nat) (t : Term) : sgAll (l.map fun i => (i, 0)) t = 1 := by
  induction l with
  | nil => rfl
  | cons x r ih =>
    simp only [sgAll, List.map_cons, List.foldr_cons] at ih ⊢
    rw [ih, sgO_eq]; simp [GQ.sgn]

theorem sgAll_occ (l : List Nat) (t : Term) :
    sgAll (l.map fun i => (i, 1)) t = GQ.sgn ((l.map fun idx => (t.filter fun g => g.1 > idx).length).sum) := by
  induction l with
  | nil => simp [sgAll, GQ.sgn]
  | cons x r ih =>
    simp only [sgAll, List.map_cons, List.foldr_cons, List.sum_cons] at ih ⊢
    rw [ih, sgO_eq, sgn_add', Nat.one_mul]

theorem maskF_unocc (l : List Nat) : maskF (l.map fun i => (i, 0)) = 0 := by
  induction l with
  | nil => rfl
  | cons x r ih =>
    simp only [maskF, List.map_cons, List.foldr_cons] at ih ⊢
    rw [ih]; simp [bitv]

/-- the mask with the occupied frozen modes set -/
def occMask (occupied : List Nat) : Nat := occupied.foldr (fun i m => m ^^^ (1 <<< i)) 0

theorem maskF_eq (occ unocc : List Nat) :
    maskF (occ.map (fun i => (i, 1)) ++ unocc.map (fun i => (i, 0))) = occMask occ := by
  induction occ with
  | nil => simp only [List.map_nil, List.nil_append, maskF_unocc]; rfl
  | cons x r ih =>
    simp only [maskF, occMask, List.map_cons, List.cons_append, List.foldr_cons] at ih ⊢
    rw [ih]; simp [bitv]

/-- **`freeze_orbitals(A, occupied, unoccupied, prune=False)`** against the Spec, whole operators -/
theorem freeze_orbitals_den (tol : Rat) (A : Model.Op) (occ unocc : List Nat) (hnd : (occ ++ unocc).Nodup)
    (hA : ∀ e ∈ A, ∀ g ∈ e.1, g.2 < 2)
    (hex : (freezeOrbitalsX tol A occ unocc false).2 = true) (Y T : Nat)
    (hY : ∀ i ∈ occ ++ unocc, Y.testBit i = false) (hT : ∀ i ∈ occ ++ unocc, T.testBit i = false) :
    Sem.den .fermion (freezeOrbitals tol A occ unocc false) [Y] [T]
      = Sem.den .fermion A [Y ^^^ occMask occ] [T ^^^ occMask occ] := by
  have hmap : List.map (fun it : Nat × Nat => it.1) ((occ.map fun i => (i, 1)) ++ unocc.map fun i => (i, 0))
      = occ ++ unocc := by
    simp [List.map_append, List.map_map, Function.comp_def]
  have hfr : ∀ it ∈ (occ.map fun i => (i, 1)) ++ unocc.map fun i => (i, 0), it.1 ∈ occ ++ unocc := by
    intro it hit; rw [← hmap]; exact List.mem_map.mpr ⟨it, hit, rfl⟩
  have h2 : ∀ it ∈ (occ.map fun i => (i, 1)) ++ unocc.map fun i => (i, 0), it.2 < 2 := by
    intro it hit
    rcases List.mem_append.mp hit with h | h <;> obtain ⟨_, _, rfl⟩ := List.mem_map.mp h <;> simp
  have M := freeze_multi tol _ (by rw [hmap]; exact hnd) h2 A true (fun _ => 1) Y T (fun _ _ _ _ => rfl) hA
    (fun it hit => hY _ (hfr it hit)) (fun it hit => hT _ (hfr it hit)) hex
  rw [maskF_eq] at M
  simp only [one_mul] at M
  show Sem.den .fermion ((freezeAll tol _ (A, true)).1.map _) [Y] [T] = _
  rw [semDen_fermion, semDen_fermion,
    den_map_sign (fun t => Sem.termCoef .fermion t [Y] [T])
      (fun t => ((occ.map fun idx => (t.filter fun f => f.1 > idx).length).foldl (· + ·) 0) % 2 = 0),
    ← M.2]
  apply den_congr'
  intro t
  rw [sgAll_append, sgAll_unocc, sgAll_occ, mul_one, foldl_add_eq, Nat.zero_add]
  unfold GQ.sgn
  by_cases h : (occ.map fun idx => (t.filter fun f => f.1 > idx).length).sum % 2 = 0 <;> simp [h]

end C16P
end OFV
