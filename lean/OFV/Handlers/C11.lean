/- Line-protocol handlers for C11 (Givens decompositions). -/
import OFV.Core.Json
import OFV.Model.C11
import OFV.Spec.C11

namespace OFV
namespace Handlers
namespace C11
open Lean Model.C11

def parseMat (j : Json) : Except String Mat := J.listOf (J.listOf J.gq) j

def ofMat (M : Mat) : Json := J.ofList (J.ofList J.ofGQ) M

def ofPairs (l : List (Nat × Nat)) : Json := J.ofList (fun (p : Nat × Nat) => J.ofNatList [p.1, p.2]) l

def ofRot (r : Rot) : Json :=
  Json.arr #[J.ofNat r.i, J.ofNat r.j, J.ofRat r.sin, J.ofRat r.cos, J.ofGQ r.eiphi]

def ofGOp : GOp → Json
  | .pht => Json.str "pht"
  | .rot r => ofRot r

/-- optional `"tolscale": [num, den]` multiplies the live EQ_TOLERANCE (margin probing) -/
def tolOf (j : Json) : Except String Rat := do
  match j.getObjVal? "tolscale" with
  | .ok v => do .ok (defaultTol * (← J.rat v))
  | .error _ => .ok defaultTol

def ofExcept (e : Except String Json) : Except String Json :=
  match e with
  | .ok j => .ok j
  | .error s => .ok (J.obj [("error", Json.str s)])

/-- all layers of a schedule: `{"kind", "m", "n"}` -> `[[[i, j], ...], ...]` (one entry per `k`) -/
def schedule (j : Json) : Except String Json := do
  let kind ← J.str (← J.field j "kind")
  let n ← J.nat (← J.field j "n")
  let m ← J.nat (J.fieldD j "m" (J.ofNat 0))
  match kind with
  | "square" => .ok (J.ofList (fun k => ofPairs (squareLayer n k)) (List.range (squareDepth n)))
  | "givens" => .ok (J.ofList (fun k => ofPairs (givensLayer m n k)) (List.range (givensDepth n)))
  | "gauss" => .ok (J.ofList (fun k => ofPairs (gaussLayer n k)) (List.range (gaussDepth n)))
  | "givensLeft" => .ok (ofPairs (givensLeft m n))
  | "gaussLeft" => .ok (ofPairs (gaussLeft n))
  | s => .error s!"bad kind {s}"

def elems (j : Json) : Except String Json := do
  let a ← J.gq (← J.field j "a")
  let b ← J.gq (← J.field j "b")
  let right ← J.bool (← J.field j "right")
  let tol ← tolOf j
  ofExcept do
    let G ← givensElems tol a b right
    let (s, c, e) ← params G
    .ok (J.obj [("G", J.ofList J.ofGQ [G.g00, G.g01, G.g10, G.g11]), ("negzero", Json.bool G.negZero11),
                ("sin", J.ofRat s), ("cos", J.ofRat c), ("eiphi", J.ofGQ e)])

def square (j : Json) : Except String Json := do
  let Q ← parseMat (← J.field j "Q")
  let ai ← J.bool (J.fieldD j "ai" (Json.bool false))
  let tol ← tolOf j
  ofExcept do
    let (ls, d) ← decompSquare tol Q ai
    .ok (J.obj [("layers", J.ofList (J.ofList ofRot) ls), ("diag", J.ofList J.ofGQ d)])

def givens (j : Json) : Except String Json := do
  let Q ← parseMat (← J.field j "Q")
  let n ← J.nat (← J.field j "n")
  let ai ← J.bool (J.fieldD j "ai" (Json.bool false))
  let tol ← tolOf j
  ofExcept do
    let o ← decompGivens tol Q n ai
    .ok (J.obj [("layers", J.ofList (J.ofList ofRot) o.layers), ("V", ofMat o.left),
                ("diag", J.ofList J.ofGQ o.diag)])

def gauss (j : Json) : Except String Json := do
  let W ← parseMat (← J.field j "W")
  let p ← J.nat (← J.field j "p")
  let tol ← tolOf j
  ofExcept do
    let o ← decompGauss tol W p
    .ok (J.obj [("layers", J.ofList (J.ofList ofGOp) o.layers),
                ("left_layers", J.ofList (J.ofList ofRot) o.leftLayers),
                ("diag", J.ofList J.ofGQ o.diag), ("left_diag", J.ofList J.ofGQ o.leftDiag),
                ("all_pivots", Json.bool (gaussAllPivots o W.length))])

/-- do the executable hypotheses of the reconstruction theorems hold for this input?
(`square_decomposition_checked` / `givens_decomposition_checked`) -/
def hypotheses (j : Json) : Except String Json := do
  let Q ← parseMat (← J.field j "Q")
  let n ← J.nat (← J.field j "n")
  let ai ← J.bool (J.fieldD j "ai" (Json.bool false))
  let tol ← tolOf j
  let sq := Q.length == n
  let probe := if sq then squareHypothesesB tol Q ai else givensHypothesesB tol Q n ai
  .ok (J.obj [("probe", Json.bool probe), ("orthonormal", Json.bool (orthonormalB Q Q.length n))])

/-- Spec: structural statement on a returned decomposition (index lists per op per layer) -/
def specLayers (j : Json) : Except String Json := do
  let n ← J.nat (← J.field j "n")
  let depth ← J.nat (← J.field j "depth")
  let layers ← J.listOf (J.listOf J.natList) (← J.field j "layers")
  match Spec.C11.firstBad n depth layers with
  | none => .ok (J.obj [("ok", Json.bool true)])
  | some k => .ok (J.obj [("ok", Json.bool false), ("layer", J.ofNat k)])

def handle (op : String) (j : Json) : Option (Except String Json) :=
  match op with
  | "c11.schedule" => some (schedule j)
  | "c11.elems" => some (elems j)
  | "c11.square" => some (square j)
  | "c11.givens" => some (givens j)
  | "c11.gauss" => some (gauss j)
  | "c11.spec.layers" => some (specLayers j)
  | "c11.hypotheses" => some (hypotheses j)
  | _ => none

end C11
end Handlers
end OFV
