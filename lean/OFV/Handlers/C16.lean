/- Line-protocol handlers for C16 (qubit and orbital reductions). -/
import OFV.Core.Json
import OFV.Model.C16
import OFV.Spec.C16
import OFV.Handlers.Common

namespace OFV
namespace Handlers
namespace C16
open Lean Model Model.C16

def errName : Err → String
  | .stabilizerError => "StabilizerError" | .typeError => "TypeError" | .valueError => "ValueError"
  | .indexError => "IndexError" | .unboundLocalError => "UnboundLocalError"

def ofExcept {α} (f : α → Json) : Except Err α → Json
  | .ok a => J.obj [("ok", f a)]
  | .error e => J.obj [("error", Json.str (errName e))]

def optNatList (j : Json) (k : String) : Except String (Option (List Nat)) :=
  match j.getObjVal? k with
  | .ok .null => .ok none
  | .ok v => do .ok (some (← J.natList v))
  | .error _ => .ok none

def tol : Rat := Generated.eqTolerance

def ofRed (r : Op × List Nat × Bool × Bool) : Json :=
  J.obj [("op", J.ofOp r.1), ("fixed", J.ofNatList r.2.1), ("stale", Json.bool r.2.2.1),
         ("exact", Json.bool r.2.2.2)]

def handle (op : String) (j : Json) : Option (Except String Json) :=
  match op with
  | "c16.reduce" => some do
    let A ← J.op (← J.field j "A")
    let stabs ← J.listOf J.op (← J.field j "stabs")
    let ml ← J.bool (← J.field j "maintain")
    let manual ← J.bool (← J.field j "manual")
    .ok (ofExcept ofRed (reduceNumberOfTerms tol A stabs ml manual (← optNatList j "fixed")))
  | "c16.taper_hyp" => some do
    let A ← J.op (← J.field j "A")
    let stabs ← J.listOf J.op (← J.field j "stabs")
    let manual ← J.bool (← J.field j "manual")
    .ok (Json.bool (taperHypX tol A stabs manual (← optNatList j "fixed")))
  | "c16.taper" => some do
    let A ← J.op (← J.field j "A")
    let stabs ← J.listOf J.op (← J.field j "stabs")
    let manual ← J.bool (← J.field j "manual")
    .ok (ofExcept ofRed (taperOffQubits tol A stabs manual (← optNatList j "fixed")))
  | "c16.project" => some do
    let A ← J.op (← J.field j "A")
    .ok (ofExcept (fun (r : Op × Bool) => J.obj [("op", J.ofOp r.1), ("exact", Json.bool r.2)])
      (projectOntoSector tol A (← J.natList (← J.field j "qubits")) (← J.natList (← J.field j "sectors"))))
  | "c16.projection_error_sq" => some do
    let A ← J.op (← J.field j "A")
    .ok (ofExcept J.ofRat (projectionErrorSq A (← J.natList (← J.field j "qubits"))
      (← J.natList (← J.field j "sectors"))))
  | "c16.rotate" => some do
    let Q ← J.op (← J.field j "Q")
    let P ← J.op (← J.field j "P")
    .ok (ofExcept J.ofOp (rotateQubitByPauli tol Q P (← J.gq (← J.field j "c2")) (← J.gq (← J.field j "s2"))))
  | "c16.freeze" => some do
    let A ← J.op (← J.field j "A")
    let r := freezeOrbitalsX tol A (← J.natList (← J.field j "occupied"))
      (← J.natList (← J.field j "unoccupied")) (← J.bool (← J.field j "prune"))
    .ok (J.obj [("op", J.ofOp r.1), ("exact", Json.bool r.2)])
  | "c16.prune" => some do
    .ok (J.ofOp (pruneUnusedIndices (← J.op (← J.field j "A"))))
  | "c16.edit" => some do
    let A ← J.op (← J.field j "A")
    .ok (J.ofOp (editHamiltonianForSpin tol A (← J.nat (← J.field j "spin_orbital")) (← J.gq (← J.field j "parity"))))
  | "c16.remove_indices" => some do
    .ok (J.ofOp (removeIndices (← J.op (← J.field j "A")) (← J.natList (← J.field j "indices"))))
  | "c16.scbk_exact" => some do
    let A ← J.op (← J.field j "A")
    .ok (Json.bool (scbkExact tol A (← J.nat (← J.field j "n")) (← J.nat (← J.field j "fermions"))))
  | "c16.scbk_reduce" => some do
    let A ← J.op (← J.field j "A")
    .ok (J.ofOp (scbkReduce tol A (← J.nat (← J.field j "n")) (← J.nat (← J.field j "fermions"))))
  -- Spec side
  | "c16.spec_embed_eq" => some do
    let alg ← parseAlg (← J.field j "alg")
    let m ← J.nat (← J.field j "m")
    let A ← J.op (← J.field j "A")
    let B ← J.op (← J.field j "B")
    let mm ← J.natList (← J.field j "modeMap")
    let ones ← J.natList (← J.field j "ones")
    match Spec.C16.embedDiff alg m mm ones A B with
    | none => .ok (J.obj [("eq", Json.bool true)])
    | some (s, t, b, a) => .ok (J.obj [("eq", Json.bool false), ("s", J.ofNat s), ("t", J.ofNat t),
        ("reduced", J.ofGQ b), ("original", J.ofGQ a)])
  | "c16.spec_dense" => some do
    let alg ← parseAlg (← J.field j "alg")
    let n ← J.nat (← J.field j "n")
    let e ← parseExpr (← J.field j "expr")
    .ok (J.ofList (J.ofList J.ofGQ) (Spec.C16.denseExpr alg n e))
  | _ => none

end C16
end Handlers
end OFV
