/- Line-protocol handlers for C08 (tensor representations and conversions). -/
import OFV.Core.Json
import OFV.Model.C08
import OFV.Model.C08Doci
import OFV.Spec.C08
import OFV.Handlers.Common

namespace OFV
namespace Handlers
namespace C08
open Lean Model Model.C08

partial def parseTensor (k : Nat) (j : Json) : Except String Tensor :=
  match k with
  | 0 => do .ok (.s (← J.gq j))
  | k + 1 => do
    let a ← J.arr j
    .ok (.v (← a.mapM (parseTensor k)))

partial def ofTensor : Tensor → Json
  | .s c => J.ofGQ c
  | .v l => Json.arr (l.map ofTensor).toArray

def parseEntry (j : Json) : Except String (Key × Tensor) := do
  match (← J.arr j) with
  | [k, t] => do
    let key ← J.natList k
    .ok (key, ← parseTensor key.length t)
  | _ => .error "bad tensor entry"

def parsePT (j : Json) : Except String PT := do
  let d ← J.listOf parseEntry (← J.field j "d")
  match j.getObjVal? "n" with
  | .ok nj => do .ok ⟨← J.nat nj, d⟩
  | .error _ => .ok (mkPT d)

def ofPT (a : PT) : Json :=
  J.obj [("n", J.ofNat a.n),
         ("d", J.ofList (fun (k, t) => Json.arr #[J.ofNatList k, ofTensor t]) a.d)]

def errName : Err → String
  | .typeError => "TypeError" | .valueError => "ValueError" | .keyError => "KeyError"
  | .indexError => "IndexError" | .interactionOperatorError => "InteractionOperatorError"
  | .quadraticHamiltonianError => "QuadraticHamiltonianError"

def ofExcept {α} (f : α → Json) : Except Err α → Json
  | .ok a => J.obj [("ok", f a)]
  | .error e => J.obj [("error", Json.str (errName e))]

def parseMat (j : Json) : Except String Mat := J.listOf (J.listOf J.gq) j

def optNat (j : Json) (k : String) : Except String (Option Nat) :=
  match j.getObjVal? k with
  | .ok .null => .ok none
  | .ok v => do .ok (some (← J.nat v))
  | .error _ => .ok none

def parseDCH (j : Json) : Except String DCH := do
  .ok ⟨← J.nat (← J.field j "n"), ← parseTensor 2 (← J.field j "one"),
       ← parseTensor 2 (← J.field j "two"), ← J.gq (← J.field j "c")⟩

def ofDCH (h : DCH) : Json :=
  J.obj [("n", J.ofNat h.n), ("one", ofTensor h.one), ("two", ofTensor h.two), ("c", J.ofGQ h.c)]

def toMOp (o : Op) : MOp := o.map fun (t, c) => (t.map (·.1), c)
def ofMOp (o : MOp) : Json := J.ofOp (o.map fun (t, c) => (t.map (fun i => (i, 0)), c))

def tol : Rat := Generated.eqTolerance

def parseDoci (j : Json) : Except String Doci.DOCI := do
  .ok ⟨← J.nat (← J.field j "n"), ← J.gq (← J.field j "c"), ← parseTensor 1 (← J.field j "hc"),
       ← parseTensor 2 (← J.field j "hr1"), ← parseTensor 2 (← J.field j "hr2")⟩

def ofDoci (d : Doci.DOCI) : Json :=
  J.obj [("n", J.ofNat d.n), ("c", J.ofGQ d.constant), ("hc", ofTensor d.hc), ("hr1", ofTensor d.hr1),
         ("hr2", ofTensor d.hr2)]

def arith (j : Json) : Except String Json := do
  let f ← J.str (← J.field j "f")
  let a ← parsePT (← J.field j "a")
  match f with
  | "iadd" => do .ok (ofExcept ofPT (iadd a (← parsePT (← J.field j "b"))))
  | "isub" => do .ok (ofExcept ofPT (isub a (← parsePT (← J.field j "b"))))
  | "imulT" => do .ok (ofExcept ofPT (imulT a (← parsePT (← J.field j "b"))))
  | "neg" => .ok (ofExcept ofPT (.ok (neg a)))
  | "imulS" => do .ok (ofExcept ofPT (.ok (imulS a (← J.gq (← J.field j "c")))))
  | "idivS" => do .ok (ofExcept ofPT (.ok (idivS a (← J.gq (← J.field j "c")))))
  | "iaddS" => do .ok (ofExcept ofPT (.ok (iaddS a (← J.gq (← J.field j "c")))))
  | "isubS" => do .ok (ofExcept ofPT (.ok (isubS a (← J.gq (← J.field j "c")))))
  | _ => .error s!"bad arith {f}"

def handle (op : String) (j : Json) : Option (Except String Json) :=
  match op with
  | "c08.arith" => some (arith j)
  | "c08.iter" => some do
    let a ← parsePT (← J.field j "a")
    .ok (J.ofList (fun t => Json.arr #[J.ofTerm t, ofExcept J.ofGQ (getitem a t)]) (iter a))
  | "c08.to_fermion" => some do
    let a ← parsePT (← J.field j "a")
    .ok (J.ofOp (toFermion tol a))
  | "c08.getitem" => some do
    let a ← parsePT (← J.field j "a")
    let args ← J.term (← J.field j "args")
    .ok (ofExcept J.ofGQ (getitem a args))
  | "c08.basis_change" => some do
    let key ← J.natList (← J.field j "key")
    let t ← parseTensor key.length (← J.field j "t")
    let R ← parseMat (← J.field j "R")
    .ok (ofTensor (generalBasisChange t R key))
  | "c08.rotate" => some do
    let a ← parsePT (← J.field j "a")
    let R ← parseMat (← J.field j "R")
    .ok (ofPT (rotateBasis a R))
  | "c08.normal_ordered" => some do
    .ok (J.ofOp (normalOrdered tol (← J.op (← J.field j "A"))))
  | "c08.get_io" => some do
    let A ← J.op (← J.field j "A")
    .ok (ofExcept ofPT (getInteractionOperator tol A (← optNat j "n")))
  | "c08.get_qh" => some do
    let A ← J.op (← J.field j "A")
    let mu ← J.gq (← J.field j "mu")
    let ig ← J.bool (← J.field j "ignore")
    .ok (ofExcept ofPT (getQuadraticHamiltonian tol A mu (← optNat j "n") ig))
  | "c08.get_dch" => some do
    let A ← J.op (← J.field j "A")
    let ig ← J.bool (← J.field j "ignore")
    .ok (ofExcept ofDCH (getDiagonalCoulomb tol A (← optNat j "n") ig))
  | "c08.qh_exact" => some do
    let A ← J.op (← J.field j "A")
    .ok (Json.bool (qhExact tol A))
  | "c08.dch_exact" => some do
    let A ← J.op (← J.field j "A")
    .ok (Json.bool (dchExact tol A))
  | "c08.mk_dch" => some do
    let h ← parseDCH j
    .ok (ofExcept ofDCH (mkDCH h.n h.one h.two h.c))
  | "c08.mk_qh" => some do
    let n ← J.nat (← J.field j "n")
    let M ← parseTensor 2 (← J.field j "M")
    let D ← match j.getObjVal? "D" with
      | .ok .null => pure none
      | .ok v => do pure (some (← parseTensor 2 v))
      | .error _ => pure none
    .ok (ofPT (mkQH n M D (← J.gq (← J.field j "c")) (← J.gq (← J.field j "mu"))))
  | "c08.dch_to_fermion" => some do
    .ok (J.ofOp (dchToFermion tol (← parseDCH (← J.field j "h"))))
  | "c08.dch_arith" => some do
    let h ← parseDCH (← J.field j "h")
    let c ← J.gq (← J.field j "c")
    match (← J.str (← J.field j "f")) with
    | "mul" => .ok (ofDCH (dchMulS h c))
    | "div" => .ok (ofDCH (dchDivS h c))
    | f => .error s!"bad dch_arith {f}"
  | "c08.maj_to_fermion" => some do
    .ok (J.ofOp (majoranaToFermion tol (toMOp (← J.op (← J.field j "M")))))
  | "c08.fermion_to_maj" => some do
    .ok (ofMOp (fermionToMajorana (← J.op (← J.field j "A"))))
  | "c08.get_quad" => some do
    .ok (J.ofOp (getQuad tol (← J.gq (← J.field j "r")) (← J.op (← J.field j "B"))))
  | "c08.get_boson" => some do
    .ok (J.ofOp (getBoson tol (← J.gq (← J.field j "r")) (← J.op (← J.field j "Q"))))
  -- Spec side (independent of the Model)
  | "c08.spec_pt" => some do
    let d ← J.listOf parseEntry (← J.field j "d")
    .ok (J.ofOp ((Spec.C08.denotePT d).filter fun (_, c) => c != 0))
  | "c08.spec_qh" => some do
    let n ← J.nat (← J.field j "n")
    let M ← parseTensor 2 (← J.field j "M")
    let D ← parseTensor 2 (← J.field j "D")
    .ok (J.ofOp ((Spec.C08.denoteQH n M D (← J.gq (← J.field j "mu")) (← J.gq (← J.field j "c"))).filter
      fun (_, c) => c != 0))
  | "c08.spec_dch" => some do
    let n ← J.nat (← J.field j "n")
    let T ← parseTensor 2 (← J.field j "T")
    let V ← parseTensor 2 (← J.field j "V")
    .ok (J.ofOp ((Spec.C08.denoteDCH n T V (← J.gq (← J.field j "c"))).filter fun (_, c) => c != 0))
  | "c08.spec_dense" => some do
    let n ← J.nat (← J.field j "n")
    let A ← J.op (← J.field j "A")
    .ok (J.ofList (J.ofList J.ofGQ) (Spec.C08.dense n A))
  | "c08.spec_ladder" => some do
    let R ← parseMat (← J.field j "R")
    .ok (J.ofOp (Spec.C08.rotatedLadder R (← J.nat (← J.field j "a")) (← J.nat (← J.field j "act"))))
  | "c08.doci_tensors" => some do
    let d ← parseDoci j
    .ok (J.obj [("n", J.ofNat d.n),
      ("d", J.ofList (fun (k, t) => Json.arr #[J.ofNatList k, ofTensor t]) (Doci.nBodyTensors tol d))])
  | "c08.doci_projected" => some do
    let d ← parseDoci j
    let r := Doci.projectedIntegrals d.n d.hc d.hr1 d.hr2
    .ok (J.obj [("one", ofTensor r.1), ("two", ofTensor r.2)])
  | "c08.doci_getitem" => some do
    let d ← parseDoci j
    .ok (ofExcept J.ofGQ (Doci.getitem d (← J.term (← J.field j "args"))))
  | "c08.doci_qubit" => some do
    .ok (J.ofOp (Doci.qubitOperator tol (← parseDoci j)))
  | "c08.doci_from_integrals" => some do
    let n ← J.nat (← J.field j "n")
    let r := Doci.dociFromIntegrals n (← parseTensor 2 (← J.field j "one")) (← parseTensor 4 (← J.field j "two"))
    .ok (J.obj [("hc", ofTensor r.1), ("hr1", ofTensor r.2.1), ("hr2", ofTensor r.2.2)])
  | "c08.doci_arith" => some do
    let a ← parseDoci (← J.field j "a")
    match (← J.str (← J.field j "f")) with
    | "iadd" => do .ok (ofExcept ofDoci (Doci.iadd a (← parseDoci (← J.field j "b"))))
    | "isub" => do .ok (ofExcept ofDoci (Doci.isub a (← parseDoci (← J.field j "b"))))
    | "imulS" => do .ok (ofExcept ofDoci (.ok (Doci.imulS a (← J.gq (← J.field j "c")))))
    | "idivS" => do .ok (ofExcept ofDoci (.ok (Doci.imulS a (GQ.inv (← J.gq (← J.field j "c"))))))
    | f => .error s!"bad doci_arith {f}"
  | "c08.spec_doci_block" => some do
    -- ⟨D t| A |D s⟩ (fermions on 2n modes, D = doubly occupied) against ⟨t| B |s⟩ (n qubits)
    let n ← J.nat (← J.field j "n")
    let A ← J.op (← J.field j "A")
    let B ← J.op (← J.field j "B")
    let dbl (s : Nat) : Nat := (List.range n).foldl (fun acc p => if s.testBit p then acc ||| (3 <<< (2 * p)) else acc) 0
    let bad := (List.range (2 ^ n)).findSome? fun s =>
      let va := Spec.applyOp .fermion A [dbl s]
      let vb := Spec.applyOp .qubit B [s]
      (List.range (2 ^ n)).findSome? fun t =>
        let a := Spec.GV.coeff va [dbl t]
        let b := Spec.GV.coeff vb [t]
        if a == b then none else some (s, t, a, b)
    match bad with
    | none => .ok (J.obj [("eq", Json.bool true)])
    | some (s, t, a, b) => .ok (J.obj [("eq", Json.bool false), ("s", J.ofNat s), ("t", J.ofNat t),
        ("fermion", J.ofGQ a), ("qubit", J.ofGQ b)])
  | "c08.spec_eq2" => some do
    -- do two expressions over (possibly different) algebras denote the same map on masks < 2^n ?
    let algL ← parseAlg (← J.field j "algL")
    let algR ← parseAlg (← J.field j "algR")
    let n ← J.nat (← J.field j "n")
    let l ← parseExpr (← J.field j "lhs")
    let r ← parseExpr (← J.field j "rhs")
    let bad := (List.range (2 ^ n)).findSome? fun s =>
      let a := l.apply algL [([s], 1)]
      let b := r.apply algR [([s], 1)]
      if Spec.GV.eqv a b then none else some (s, Spec.GV.nonzero a, Spec.GV.nonzero b)
    match bad with
    | none => .ok (J.obj [("eq", Json.bool true)])
    | some (s, a, b) => .ok (J.obj [("eq", Json.bool false), ("state", J.ofNatList [s]),
        ("lhs", ofGV a), ("rhs", ofGV b)])
  | _ => none

end C08
end Handlers
end OFV
