/- Line-protocol handlers for C06 (sparse matrices and linear operators). -/
import OFV.Core.Json
import OFV.Model.C06
import OFV.Model.C06Expect
import OFV.Spec.C06
import OFV.Handlers.Common

namespace OFV
namespace Handlers
namespace C06
open Lean Model Model.C06

def ofEntries (es : List (Nat × Nat × GQ)) : Json :=
  J.ofList (fun (e : Nat × Nat × GQ) => Json.arr #[J.ofNat e.1, J.ofNat e.2.1, J.ofGQ e.2.2]) es

def ofVec (v : List GQ) : Json := J.ofList J.ofGQ v

def optNat (j : Json) (k : String) : Except String (Option Nat) :=
  match j.getObjVal? k with
  | .ok .null => .ok none
  | .ok v => do .ok (some (← J.nat v))
  | .error _ => .ok none

def entry (j : Json) : Except String (Nat × Nat × GQ) := do
  match (← J.arr j) with
  | [r, c, v] => .ok (← J.nat r, ← J.nat c, ← J.gq v)
  | _ => J.err "entry: [row, col, value] expected"

def mat (dim : Nat) (j : Json) : Except String Mat := do
  .ok ⟨dim, dim, ← J.listOf entry j⟩

def handle (op : String) (j : Json) : Option (Except String Json) :=
  match op with
  | "c06.is_hermitian" => some do
    let dim ← J.nat (← J.field j "dim")
    let M ← mat dim (← J.field j "entries")
    let tol ← J.rat (← J.field j "tol")
    .ok (Json.bool (isHermitianMat tol M))
  | "c06.expectation" => some do
    let dim ← J.nat (← J.field j "dim")
    let M ← mat dim (← J.field j "entries")
    match j.getObjVal? "rho" with
    | .ok r =>
      let rho ← mat dim r
      .ok (J.obj [("expectation", J.ofGQ (expectationDensity M rho)), ("variance", J.ofGQ (varianceDensity M rho))])
    | .error _ =>
      let psi ← J.listOf J.gq (← J.field j "state")
      .ok (J.obj [("expectation", J.ofGQ (expectationVec M psi)), ("variance", J.ofGQ (varianceVec M psi))])
  | "c06.count_qubits" => some do
    let a ← J.op (← J.field j "a")
    match (← J.str (← J.field j "cls")) with
    | "fermion" => .ok (J.ofNat (countQubitsFermion a))
    | _ => .ok (J.ofNat (countQubitsQubit a))
  | "c06.qubit_sparse" => some do
    let a ← J.op (← J.field j "a")
    match qubitOperatorSparse (← optNat j "n") a with
    | none => .ok (J.obj [("error", Json.str "ValueError")])
    | some (d, es) => .ok (J.obj [("dim", J.ofNat d), ("entries", ofEntries es)])
  | "c06.jw_sparse" => some do
    let a ← J.op (← J.field j "a")
    let (d, es) := jordanWignerSparse (← optNat j "n") a
    .ok (J.obj [("dim", J.ofNat d), ("entries", ofEntries es)])
  | "c06.jw_ladder" => some do
    let M := jwLadder (← J.nat (← J.field j "n")) (← J.nat (← J.field j "j")) (← J.nat (← J.field j "type"))
    .ok (J.obj [("dim", J.ofNat M.rows), ("entries", ofEntries (canonEntries M.entries))])
  | "c06.matvec" => some do
    let a ← J.op (← J.field j "a")
    let x ← J.listOf J.gq (← J.field j "x")
    .ok (ofVec (matvec a x))
  | "c06.diagonal" => some do
    let a ← J.op (← J.field j "a")
    match linearDiagonal (← optNat j "n") a with
    | none => .ok (J.obj [("error", Json.str "ValueError")])
    | some v => .ok (J.obj [("diag", ofVec v)])
  | "c06.groups" => some do
    let a ← J.op (← J.field j "a")
    .ok (J.ofList J.ofOp (operatorGroups (← J.nat (← J.field j "k")) a))
  | "c06.parallel_matvec" => some do
    let a ← J.op (← J.field j "a")
    let x ← J.listOf J.gq (← J.field j "x")
    .ok (ofVec (parallelMatvec (← J.nat (← J.field j "k")) a x (← J.natList (← J.field j "perm"))))
  | "c06.boson_entries" => some do
    let a ← J.op (← J.field j "a")
    let (d, es) := bosonOperatorEntries (← J.nat (← J.field j "trunc")) a
    .ok (J.obj [("dim", J.ofNat d), ("entries",
      J.ofList (fun (e : Nat × Nat × Nat × Nat) => J.ofNatList [e.1, e.2.1, e.2.2.1, e.2.2.2]) es)])
  | "c06.spec_matrix" => some do
    let alg ← parseAlg (← J.field j "alg")
    let n ← J.nat (← J.field j "n")
    .ok (ofEntries (Spec.C06.specMatrix alg n (← J.op (← J.field j "a"))))
  | "c06.spec_matvec" => some do
    let alg ← parseAlg (← J.field j "alg")
    let n ← J.nat (← J.field j "n")
    let x ← J.listOf J.gq (← J.field j "x")
    .ok (ofVec (Spec.C06.specMatvec alg n (← J.op (← J.field j "a")) x))
  | _ => none

end C06
end Handlers
end OFV
