/- Line-protocol handlers for C02 (equality tests and structural predicates):
each op answers the Model value (tie) and, where the property has a direct
statement, the Spec value (oracle), computed by independent definitions. -/
import OFV.Core.Json
import OFV.Model.Program
import OFV.Model.C02
import OFV.Spec.C02

namespace OFV
namespace Handlers
namespace C02
open Lean Model

def tolOf (j : Json) (k : String) : Except String Rat :=
  match j.getObjVal? k with
  | .ok v => J.rat v
  | .error _ => .ok Generated.eqTolerance

def optTerms (j : Json) (k : String) : Except String (Option (List Term)) :=
  match j.getObjVal? k with
  | .ok v => do .ok (some (← J.listOf J.term v))
  | .error _ => .ok none

def isclose (j : Json) : Except String Json := do
  let a ← J.op (← J.field j "a")
  let b ← J.op (← J.field j "b")
  let tol ← tolOf j "tol"
  let shared := (← optTerms j "shared").getD (Model.C02.interKeys a b)
  let sym := (← optTerms j "sym").getD (Model.C02.symKeys a b)
  .ok (J.obj [("model", Json.bool (Model.C02.iscloseWith shared sym tol a b)),
              ("spec", Json.bool (Spec.C02.iscloseB tol a b))])

def majeq (j : Json) : Except String Json := do
  let a := toM (← J.op (← J.field j "a"))
  let b := toM (← J.op (← J.field j "b"))
  let atol ← J.rat (← J.field j "atol")
  let rtol ← J.rat (← J.field j "rtol")
  let order := match (← optTerms j "order") with
    | some o => o.map (fun t => t.map (·.1))
    | none => Model.C02.unionKeys a b
  .ok (J.obj [("model", Json.bool (Model.C02.majEqWith order atol rtol a b)),
              ("spec", Json.bool (Spec.C02.majEqB atol rtol a b))])

def commutes (j : Json) : Except String Json := do
  let a := toM (← J.op (← J.field j "a"))
  let b := toM (← J.op (← J.field j "b"))
  let atol ← J.rat (← J.field j "atol")
  let rtol ← J.rat (← J.field j "rtol")
  .ok (J.obj [("model", Json.bool (Model.C02.commutesWith atol rtol a b)),
              ("exact_regime", Json.bool (Model.C02.majExactB atol rtol (mmul a b) (mmul b a)))])

def pred (j : Json) : Except String Json := do
  let a ← J.op (← J.field j "a")
  let cls ← J.str (← J.field j "cls")
  let common := [("is_identity", Json.bool (Model.C02.isIdentity a))]
  match cls with
  | "fermion" =>
    .ok (J.obj (common ++ [
      ("is_normal_ordered", Json.bool (Model.C02.fermionIsNormalOrdered a)),
      ("spec_is_normal_ordered", Json.bool (a.all fun e => Spec.C02.normalOrderedFB e.1)),
      ("two_body", Json.bool (Model.C02.isTwoBodyNumberConserving false a)),
      ("two_body_spin", Json.bool (Model.C02.isTwoBodyNumberConserving true a)),
      ("spec_two_body", Json.bool (Spec.C02.twoBodyNumberConservingB false a)),
      ("spec_two_body_spin", Json.bool (Spec.C02.twoBodyNumberConservingB true a))]))
  | "boson" =>
    .ok (J.obj (common ++ [
      ("is_normal_ordered", Json.bool (Model.C02.bosonIsNormalOrdered a)),
      ("spec_is_normal_ordered", Json.bool (a.all fun e => Spec.C02.normalOrderedBB e.1)),
      ("boson_preserving", Json.bool (Model.C02.isBosonPreserving a)),
      ("spec_boson_preserving", Json.bool (Spec.C02.bosonPreservingB a))]))
  | _ => .ok (J.obj common)

def parseTensors (j : Json) : Except String Model.C02.Tensors :=
  J.listOf (fun e => do
    match (← J.arr e) with
    | [k, v] => do .ok (← J.natList k, ← J.listOf J.gq v)
    | _ => .error s!"bad tensor entry {e.compress}") j

def tensoreq (j : Json) : Except String Json := do
  let na ← J.nat (← J.field j "na")
  let nb ← J.nat (← J.field j "nb")
  let a ← parseTensors (← J.field j "a")
  let b ← parseTensors (← J.field j "b")
  let tol ← tolOf j "tol"
  let order ← match j.getObjVal? "order" with
    | .ok v => J.listOf J.natList v
    | .error _ => .ok (Model.C02.tensorUnionKeys a b)
  .ok (J.obj [("model", Json.bool (Model.C02.tensorEqWith order tol na a nb b)),
              ("spec", Json.bool (Spec.C02.tensorEqB tol na a nb b))])

def hermitian (j : Json) : Except String Json := do
  let a ← J.op (← J.field j "a")
  let cls ← J.str (← J.field j "cls")
  let tol ← tolOf j "tol"
  match cls with
  | "qubit" => .ok (J.obj [("model", Json.bool (Model.C02.isHermitianQubit tol a)),
                           ("hc", J.ofOp (Model.C02.hcQubit a))])
  | "quad" => .ok (J.obj [("model", Json.bool (Model.C02.isHermitianQuad tol a)),
                          ("hc", J.ofOp (Model.C02.hcQuad a))])
  | "fermion" => .ok (J.obj [("model", Json.bool (Model.C02.isHermitianFermion tol a)),
                             ("hc", J.ofOp (Model.C02.hcFermion a))])
  | "boson" => .ok (J.obj [("model", Json.bool (Model.C02.isHermitianBoson tol a)),
                           ("hc", J.ofOp (Model.C02.hcBoson a))])
  | s => .error s!"c02.hermitian: class {s} not modelled"

def hermitianIO (j : Json) : Except String Json := do
  let n ← J.nat (← J.field j "n")
  let c ← J.gq (← J.field j "constant")
  let one ← J.listOf J.gq (← J.field j "one_body")
  let two ← J.listOf J.gq (← J.field j "two_body")
  let tol ← tolOf j "tol"
  .ok (J.obj [("model", Json.bool (Model.C02.isHermitianIO tol n c one two)),
              ("exact_regime", Json.bool (Model.C02.ioExactB tol n c one two)),
              ("hc_one", J.ofList J.ofGQ (Model.C02.hcOneBody n one)),
              ("hc_two", J.ofList J.ofGQ (Model.C02.hcTwoBody n two))])

def hermitianMatrix (j : Json) : Except String Json := do
  let n ← J.nat (← J.field j "n")
  let m ← J.listOf J.gq (← J.field j "m")
  let tol ← tolOf j "tol"
  .ok (J.obj [("model", Json.bool (Model.C02.isHermitianMatrix tol n m)),
              ("hc", J.ofList J.ofGQ (Model.C02.hcMatrix n m))])

def handle (op : String) (j : Json) : Option (Except String Json) :=
  match op with
  | "c02.isclose" => some (isclose j)
  | "c02.majeq" => some (majeq j)
  | "c02.commutes" => some (commutes j)
  | "c02.pred" => some (pred j)
  | "c02.tensoreq" => some (tensoreq j)
  | "c02.hermitian" => some (hermitian j)
  | "c02.hermitian_io" => some (hermitianIO j)
  | "c02.hermitian_matrix" => some (hermitianMatrix j)
  | _ => none

end C02
end Handlers
end OFV
