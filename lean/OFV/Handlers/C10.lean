/- Line-protocol handlers for C10 (symmetry sectors and basis-state helpers; Spec oracles of
OFV.Spec.C10).  Trusted glue, no theorems. -/
import OFV.Core.Json
import OFV.Model.C10
import OFV.Spec.C10
import OFV.Handlers.Common

namespace OFV
namespace Handlers
namespace C10
open Lean Model.C10

def errJ (e : Err) : Json := J.obj [("error", Json.str e.name)]

def parseDet (j : Json) : Except String Det := J.listOf J.bool j
def ofDet (d : Det) : Json := J.ofList (fun b => J.ofNat (if b then 1 else 0)) d

def optNat (j : Json) (k : String) : Except String (Option Nat) :=
  match j.getObjVal? k with
  | .ok .null => .ok none
  | .ok v => do .ok (some (← J.nat v))
  | .error _ => .ok none

def mapOf (l : List Nat) : Nat → Nat := fun i => l.getD i 0

def gqMatrix (j : Json) : Except String (List (List GQ)) := J.listOf (J.listOf J.gq) j
def ofGqMatrix (m : List (List GQ)) : Json := J.ofList (J.ofList J.ofGQ) m

def numberIndices (j : Json) : Except String Json := do
  .ok (J.ofNatList (jwNumberIndices (← J.nat (← J.field j "ne")) (← J.nat (← J.field j "n"))))

def szIndices (j : Json) : Except String Json := do
  let sz ← J.rat (← J.field j "sz")
  let n ← J.nat (← J.field j "n")
  let nel ← optNat j "ne"
  let up ← J.natList (← J.field j "up")
  let down ← J.natList (← J.field j "down")
  match jwSzIndices sz n nel (mapOf up) (mapOf down) with
  | .ok l => .ok (J.ofNatList l)
  | .error e => .ok (errJ e)

def configIdx (j : Json) : Except String Json := do
  .ok (J.ofNat (configIndex (← J.natList (← J.field j "occ")) (← J.nat (← J.field j "n"))))

def hfIdx (j : Json) : Except String Json := do
  .ok (J.ofNat (hartreeFockIndex (← J.nat (← J.field j "ne")) (← J.nat (← J.field j "n"))))

def restrictH (j : Json) : Except String Json := do
  let m ← gqMatrix (← J.field j "m")
  let idx ← J.natList (← J.field j "idx")
  .ok (ofGqMatrix (restrictOp m idx))

def restrictStateH (j : Json) : Except String Json := do
  let v ← J.listOf J.gq (← J.field j "v")
  let idx ← J.natList (← J.field j "idx")
  .ok (J.ofList J.ofGQ (restrictState v idx))

def expectH (j : Json) : Except String Json := do
  let op ← J.op (← J.field j "f")
  match j.getObjVal? "occ" with
  | .ok o => do .ok (J.ofGQ (expectCBS op (← parseDet o)))
  | .error _ => do
    .ok (J.ofGQ (expectCBSVector op (← J.nat (← J.field j "len")) (← J.nat (← J.field j "idx"))))

def basisH (j : Json) : Except String Json := do
  let ref ← parseDet (← J.field j "ref")
  let level ← J.nat (← J.field j "level")
  let spin ← J.bool (← J.field j "spin")
  .ok (J.ofList ofDet (iterateBasis ref level spin))

def ofSparse (m : SparseM) : Json :=
  J.ofList (fun (e : (Nat × Nat) × GQ) => Json.arr #[J.ofNat e.1.1, J.ofNat e.1.2, J.ofGQ e.2]) m

def numPresH (j : Json) : Except String Json := do
  let op ← J.op (← J.field j "f_no")
  let n ← J.nat (← J.field j "n")
  let ne ← J.nat (← J.field j "ne")
  let spin ← J.bool (← J.field j "spin")
  let ref ← match j.getObjVal? "ref" with
    | .ok .null => pure none
    | .ok r => do pure (some (← parseDet r))
    | .error _ => pure none
  let level ← optNat j "level"
  match numberPreservingSparse op n ne spin ref level with
  | .ok (states, m) => .ok (J.obj [("states", J.ofList ofDet states), ("m", ofSparse m)])
  | .error e => .ok (errJ e)

def specialH (j : Json) : Except String Json := do
  let name ← J.str (← J.field j "name")
  let n ← J.nat (← J.field j "n")
  let tol := Generated.eqTolerance
  match name with
  | "number" => do
    let mode ← optNat j "mode"
    let c ← J.gq (← J.field j "c")
    .ok (J.ofOp (numberOperator tol n mode c))
  | "s_plus" => .ok (J.ofOp (sPlus tol n))
  | "s_minus" => .ok (J.ofOp (sMinus tol n))
  | "sx" => .ok (J.ofOp (sx tol n))
  | "sy" => .ok (J.ofOp (sy tol n))
  | "sz" => .ok (J.ofOp (sz tol n))
  | "s_squared" => .ok (J.ofOp (sSquared tol n))
  | s => .error s!"unknown special operator {s}"

/-! ### Spec oracles -/

def specNumberSet (j : Json) : Except String Json := do
  let n ← J.nat (← J.field j "n")
  let k ← J.nat (← J.field j "ne")
  let l ← J.natList (← J.field j "list")
  .ok (Json.bool (Spec.C10.sameSet l (Spec.C10.numberSector n k)))

def specSzSet (j : Json) : Except String Json := do
  let n ← J.nat (← J.field j "n")
  let sz2 ← J.int (← J.field j "sz2")
  let nel ← optNat j "ne"
  let up ← J.natList (← J.field j "up")
  let down ← J.natList (← J.field j "down")
  let l ← J.natList (← J.field j "list")
  .ok (Json.bool (Spec.C10.sameSet l (Spec.C10.szSector n sz2 nel up down)))

/-- masks are given directly (`"masks"`) or as big-endian indices (`"indices"` with `"n"`) or
as determinants (`"dets"`) -/
def masksOf (j : Json) : Except String (List Nat) := do
  match j.getObjVal? "masks" with
  | .ok m => J.natList m
  | .error _ =>
    match j.getObjVal? "indices" with
    | .ok i => do
      let n ← J.nat (← J.field j "n")
      .ok ((← J.natList i).map (Spec.C10.maskOfIndex n))
    | .error _ => do
      .ok ((← J.listOf parseDet (← J.field j "dets")).map Spec.C10.maskOfDet)

def specMatrix (j : Json) : Except String Json := do
  let f ← J.op (← J.field j "f")
  let masks ← masksOf j
  let m ← gqMatrix (← J.field j "m")
  if m.length != masks.length || m.any (·.length != masks.length) then
    .ok (J.obj [("ok", Json.bool false), ("shape", Json.bool false)])
  else
  match Spec.C10.firstBadEntry f masks m with
  | none => .ok (J.obj [("ok", Json.bool true)])
  | some (a, b, got, want) => .ok (J.obj [("ok", Json.bool false), ("row", J.ofNat a), ("col", J.ofNat b),
      ("got", J.ofGQ got), ("want", J.ofGQ want)])

def specBasis (j : Json) : Except String Json := do
  let ref ← parseDet (← J.field j "ref")
  let level ← J.nat (← J.field j "level")
  let spin ← J.bool (← J.field j "spin")
  let dets ← J.listOf parseDet (← J.field j "dets")
  let masks := dets.map Spec.C10.maskOfDet
  let okLen := dets.all (·.length == ref.length)
  let first := masks.head? == some (Spec.C10.maskOfDet ref)
  .ok (J.obj [("ok", Json.bool (okLen && first && Spec.C10.sameSet masks (Spec.C10.expectedBasis ref level spin))),
    ("reference_first", Json.bool first), ("expected", J.ofNatList (Spec.C10.expectedBasis ref level spin))])

def specExpect (j : Json) : Except String Json := do
  let f ← J.op (← J.field j "f")
  let masks ← masksOf j
  .ok (J.ofList (fun m => J.ofGQ (Spec.melF f m m)) masks)

def handle (op : String) (j : Json) : Option (Except String Json) :=
  match op with
  | "c10.number_indices" => some (numberIndices j)
  | "c10.sz_indices" => some (szIndices j)
  | "c10.config_index" => some (configIdx j)
  | "c10.hf_index" => some (hfIdx j)
  | "c10.restrict" => some (restrictH j)
  | "c10.restrict_state" => some (restrictStateH j)
  | "c10.expect" => some (expectH j)
  | "c10.basis" => some (basisH j)
  | "c10.numpres" => some (numPresH j)
  | "c10.special" => some (specialH j)
  | "c10.spec_number_set" => some (specNumberSet j)
  | "c10.spec_sz_set" => some (specSzSet j)
  | "c10.spec_matrix" => some (specMatrix j)
  | "c10.spec_basis" => some (specBasis j)
  | "c10.spec_expect" => some (specExpect j)
  | _ => none

end C10
end Handlers
end OFV
