/- Line-protocol handlers for C18 (measurement schedules): Model functions and Spec oracles. -/
import OFV.Core.Json
import OFV.Model.C18
import OFV.Model.C18Qubit
import OFV.Spec.C18
import OFV.Generated.Tables

namespace OFV
namespace Handlers
namespace C18
open Lean Model.C18

abbrev L := Option Nat

def lab (j : Json) : Except String L :=
  match j with
  | .null => .ok none
  | _ => do .ok (some (← J.nat j))

def ofLab : L → Json
  | none => Json.null
  | some n => J.ofNat n

def item (j : Json) : Except String (Item L) :=
  match j with
  | .str "bad" => .ok .bad
  | .arr a =>
    if a.size == 2 then do .ok (.pr (← lab a[0]!) (← lab a[1]!))
    else .error s!"bad item {j.compress}"
  | _ => do .ok (.sg (← lab j))

def ofItem : Item L → Json
  | .pr a b => Json.arr #[ofLab a, ofLab b]
  | .sg a => ofLab a
  | .bad => Json.str "bad"

def labs := J.listOf lab
def pairing := J.listOf item
def pairings := J.listOf pairing
def ofPairing (p : Pairing L) : Json := J.ofList ofItem p
def ofPairings (ps : List (Pairing L)) : Json := J.ofList ofPairing ps

def optNat (j : Json) : Except String (Option Nat) :=
  match j with
  | .null => .ok none
  | _ => do .ok (some (← J.nat j))

def ofNatLists (l : List (List Nat)) : Json := J.ofList J.ofNatList l

def ofOpt {α} (f : α → Json) : Option α → Json
  | none => Json.null
  | some x => f x

def ofGroups (g : Model.C18.Groups) : Json :=
  J.ofList (fun (kv : Model.Term × Model.Op) => Json.arr #[J.ofTerm kv.1, J.ofOp kv.2]) g

def groups (j : Json) : Except String (List (Model.Term × Model.Op)) := do
  let a ← J.arr j
  a.mapM fun e => do
    match (← J.arr e) with
    | [k, v] => do .ok (← J.term k, ← J.op v)
    | _ => .error "bad group"

def handle (op : String) (j : Json) : Option (Except String Json) :=
  match op with
  | "c18.pair_between" => some do
      let f1 ← labs (← J.field j "f1"); let f2 ← labs (← J.field j "f2")
      let off ← J.nat (← J.field j "off")
      .ok (ofPairings (pairBetween f1 f2 off))
  | "c18.pair_within" => some do
      .ok (ofPairings (pairWithin (← labs (← J.field j "labels"))))
  | "c18.gen_partitions" => some do
      let l ← J.natList (← J.field j "labels")
      let ms ← J.nat (J.fieldD j "min_size" (J.ofNat 4))
      .ok (J.ofList ofNatLists (genPartitions l ms))
  | "c18.gen_pairings_between" => some do
      let a ← labs (← J.field j "a"); let b ← labs (← J.field j "b")
      .ok (ofPairings (genPairingsBetween a b))
  | "c18.pws" => some do
      .ok (ofPairings (pairWithinSimultaneously (← labs (← J.field j "labels"))))
  | "c18.get_padding" => some do
      .ok (J.ofNat (getPadding (← J.nat (← J.field j "bins")) (← J.nat (← J.field j "size"))))
  | "c18.parallel_iter" => some do
      let ls ← J.listOf pairings (← J.field j "lists")
      .ok (ofPairings (parallelIter ls))
  | "c18.async_iter" => some do
      let ls ← J.listOf pairings (← J.field j "lists")
      .ok (ofOpt ofPairings (asyncIter ls))
  | "c18.pws_binned" => some do
      let bins ← J.listOf labs (← J.field j "bins")
      let r := pwsBinned bins
      .ok (J.obj [("ys", ofPairings r.1), ("ok", Json.bool r.2)])
  | "c18.pws_symmetric" => some do
      let r := pwsSymmetric (← J.nat (← J.field j "nf")) (← J.nat (← J.field j "ns"))
      .ok (J.obj [("ys", ofPairings r.1), ("ok", Json.bool r.2)])
  | "c18.binary_partition" => some do
      let l ← J.natList (← J.field j "list")
      let it ← optNat (J.fieldD j "iters" Json.null)
      .ok (ofOpt (J.ofList fun (p : List Nat × List Nat) => Json.arr #[J.ofNatList p.1, J.ofNatList p.2])
        (binaryPartition l it))
  | "c18.partition_iter" => some do
      let l ← J.natList (← J.field j "list")
      let k ← J.nat (← J.field j "k")
      let it ← optNat (J.fieldD j "iters" Json.null)
      .ok (J.obj [("ys", J.ofList ofNatLists (partitionIter l k it)),
                  ("raises", Json.bool (partitionIterRaises l k it))])
  | "c18.pauli_strings" => some do
      .ok (ofOpt ofNatLists (pauliStrings (← J.nat (← J.field j "n")) (← J.nat (← J.field j "k"))))
  | "c18.find_compatible" => some do
      let t ← J.term (← J.field j "term")
      let bs ← J.listOf J.term (← J.field j "bases")
      .ok (ofOpt J.ofTerm (findCompatibleBasis t bs))
  | "c18.tpb" => some do
      let o ← J.op (← J.field j "operator")
      let perms ← J.listOf J.natList (← J.field j "perms")
      .ok (ofGroups (groupTPB Generated.eqTolerance o perms))
  -- Spec oracles, evaluated on the implementation's yields
  | "c18.spec.pair_within" => some do
      let l ← labs (← J.field j "labels"); let ys ← pairings (← J.field j "ys")
      .ok (Json.bool (Spec.C18.pairWithinOk l ys))
  | "c18.spec.pair_between" => some do
      let f1 ← labs (← J.field j "f1"); let f2 ← labs (← J.field j "f2")
      let ys ← pairings (← J.field j "ys")
      .ok (Json.bool (Spec.C18.pairBetweenOk f1 f2 ys))
  | "c18.spec.quads" => some do
      let bins ← J.listOf labs (← J.field j "bins"); let ys ← pairings (← J.field j "ys")
      if Spec.C18.quadsCovered bins ys then .ok (J.obj [("ok", Json.bool true)])
      else .ok (J.obj [("ok", Json.bool false),
        ("uncovered", ofOpt (J.ofList fun (x : L × Nat) => Json.arr #[ofLab x.1, J.ofNat x.2])
          (Spec.C18.firstUncovered bins ys))])
  | "c18.spec.padding" => some do
      .ok (Json.bool (Spec.C18.isPadding (← J.nat (← J.field j "bins")) (← J.nat (← J.field j "size"))
        (← J.nat (← J.field j "r"))))
  | "c18.spec.async" => some do
      let ls ← J.listOf pairings (← J.field j "lists"); let ys ← pairings (← J.field j "ys")
      .ok (Json.bool (Spec.C18.asyncCovers ls ys))
  | "c18.spec.partitions" => some do
      let l ← J.natList (← J.field j "labels"); let k ← J.nat (← J.field j "k")
      let ys ← J.listOf (J.listOf J.natList) (← J.field j "ys")
      .ok (Json.bool (Spec.C18.splitsAll l k ys))
  | "c18.spec.words" => some do
      let ss ← J.listOf J.natList (← J.field j "strings")
      .ok (Json.bool (Spec.C18.wordsCovered (← J.nat (← J.field j "n")) (← J.nat (← J.field j "k")) ss))
  | "c18.spec.tpb" => some do
      let o ← J.op (← J.field j "operator"); let g ← groups (← J.field j "groups")
      .ok (Json.bool (Spec.C18.tpbOk o g))
  | _ => none

end C18
end Handlers
end OFV
