/- Line-protocol handlers for C13 (model Hamiltonian generators). -/
import OFV.Core.Json
import OFV.Model.C13Lattice
import OFV.Model.C13Hubbard
import OFV.Model.C13Grid
import OFV.Model.C13RG
import OFV.Spec.C13

namespace OFV
namespace Handlers
namespace C13
open Lean Model Model.C13

def tol : Rat := Generated.eqTolerance

def ofPairs (l : List (Nat × Nat)) : Json := J.ofList (fun (a, b) => Json.arr #[J.ofNat a, J.ofNat b]) l

def hubbardArgs (j : Json) : Except String HubbardArgs := do
  .ok { x := ← J.nat (← J.field j "x"), y := ← J.nat (← J.field j "y"),
        t := ← J.gq (← J.field j "t"), u := ← J.gq (← J.field j "u"),
        mu := ← J.gq (← J.field j "mu"), h := ← J.gq (← J.field j "h"),
        periodic := ← J.bool (← J.field j "periodic"),
        phs := ← J.bool (J.fieldD j "phs" (Json.bool false)) }

def lattice (j : Json) : Except String Lattice := do
  .ok { x := ← J.nat (← J.field j "x"), y := ← J.nat (← J.field j "y"),
        nDofs := ← J.nat (J.fieldD j "n_dofs" (J.ofNat 1)),
        spinless := ← J.bool (J.fieldD j "spinless" (Json.bool false)),
        periodic := ← J.bool (← J.field j "periodic") }

def tunnelingParam (j : Json) : Except String TunnelingParam := do
  match (← J.arr j) with
  | [e, a, aa, c] => .ok ⟨← J.nat e, ← J.nat a, ← J.nat aa, ← J.gq c⟩
  | _ => .error "bad tunneling parameter"

def interactionParam (j : Json) : Except String InteractionParam := do
  match (← J.arr j) with
  | [e, a, aa, c, sp] => .ok ⟨← J.nat e, ← J.nat a, ← J.nat aa, ← J.gq c, ← J.nat sp⟩
  | _ => .error "bad interaction parameter"

def potentialParam (j : Json) : Except String PotentialParam := do
  match (← J.arr j) with
  | [d, c] => .ok ⟨← J.nat d, ← J.gq c⟩
  | _ => .error "bad potential parameter"

def fhm (j : Json) : Except String Json := do
  let m : FHM := {
    lattice := ← lattice j,
    tunneling := ← J.listOf tunnelingParam (← J.field j "tunneling"),
    interaction := ← J.listOf interactionParam (← J.field j "interaction"),
    potential := ← J.listOf potentialParam (← J.field j "potential"),
    magneticField := ← J.gq (← J.field j "h"),
    phs := ← J.bool (← J.field j "phs") }
  match (← J.str (← J.field j "part")) with
  | "hamiltonian" => .ok (J.ofOp (m.hamiltonian tol))
  | "tunneling" => .ok (J.ofOp (m.tunnelingTerms tol))
  | "interaction" => .ok (J.ofOp (m.interactionTerms tol))
  | "potential" => .ok (J.ofOp (m.potentialTerms tol))
  | "field" => .ok (J.ofOp (m.fieldTerms tol))
  | s => .error s!"bad part {s}"

def specAdj : Nat → Except String (Nat → Nat → Bool → Nat → Nat → Bool)
  | 0 => .ok Spec.C13.adjNN
  | 1 => .ok Spec.C13.adjD
  | 2 => .ok Spec.C13.adjH
  | 3 => .ok Spec.C13.adjV
  | k => .error s!"bad adjacency kind {k}"

def spinOpt (j : Json) : Except String (Option Nat) :=
  match j with
  | .null => .ok none
  | _ => do .ok (some (← J.nat j))

def ofStructure (l : List (Term × Nat × List Nat)) : Json :=
  J.ofList (fun (t, k, d) => Json.arr #[J.ofTerm t, J.ofNat k, J.ofNatList d]) l

def handle (op : String) (j : Json) : Option (Except String Json) :=
  match op with
  | "c13.bonds" => some do
      .ok (ofPairs (bonds (← J.nat (← J.field j "x")) (← J.nat (← J.field j "y"))
        (← J.bool (← J.field j "periodic"))))
  | "c13.raw_neighbors" => some do
      let x ← J.nat (← J.field j "x")
      let y ← J.nat (← J.field j "y")
      let p ← J.bool (← J.field j "periodic")
      let o (v : Option Nat) : Json := match v with | some n => J.ofNat n | none => Json.null
      .ok (J.ofList (fun s => Json.arr #[o (rightNeighbor s x y p), o (bottomNeighbor s x y p)]) (List.range (x * y)))
  | "c13.dwave_bonds" => some do
      .ok (ofPairs (dwaveBonds (← J.nat (← J.field j "x")) (← J.nat (← J.field j "y"))
        (← J.bool (← J.field j "periodic"))))
  | "c13.lattice_pairs" => some do
      let l ← lattice j
      .ok (ofPairs (l.sitePairs (← J.nat (← J.field j "edge")) (← J.bool (← J.field j "ordered"))))
  | "c13.spin_pairs" => some do
      let l ← lattice j
      .ok (ofPairs (l.spinPairs (← J.nat (← J.field j "sp")) (← J.bool (← J.field j "ordered"))))
  | "c13.spec_edges" => some do
      let adj ← specAdj (← J.nat (← J.field j "kind"))
      .ok (ofPairs (Spec.C13.edges adj (← J.nat (← J.field j "x")) (← J.nat (← J.field j "y"))
        (← J.bool (← J.field j "periodic"))))
  | "c13.fermi_hubbard" => some do
      let a ← hubbardArgs j
      .ok (J.ofOp (fermiHubbard tol a (← J.bool (← J.field j "spinless"))))
  | "c13.bose_hubbard" => some do .ok (J.ofOp (boseHubbard tol (← hubbardArgs j)))
  | "c13.mean_field_dwave" => some do .ok (J.ofOp (meanFieldDwave tol (← hubbardArgs j)))
  | "c13.fhm" => some (fhm j)
  | "c13.spin_op" => some do
      let n ← J.nat (← J.field j "n")
      match (← J.str (← J.field j "which")) with
      | "s_plus" => .ok (J.ofOp (sPlus tol n))
      | "s_minus" => .ok (J.ofOp (sMinus tol n))
      | "sx" => .ok (J.ofOp (sX tol n))
      | "sy" => .ok (J.ofOp (sY tol n))
      | "sz" => .ok (J.ofOp (sZ tol n))
      | "s_squared" => .ok (J.ofOp (sSquared tol n))
      | s => .error s!"bad spin operator {s}"
  | "c13.richardson_gaudin" => some do
      let m : RG := ⟨← J.gq (← J.field j "g"), ← J.nat (← J.field j "n")⟩
      let hc := J.ofList J.ofGQ ((List.range m.n).map m.hc)
      let hr1 := J.ofList (fun p => J.ofList J.ofGQ ((List.range m.n).map fun q => m.hr1 p q)) (List.range m.n)
      let q := match m.qubitOperator tol with
        | some o => J.ofOp o
        | none => Json.null
      .ok (J.obj [("hc", hc), ("hr1", hr1), ("qubit_operator", q)])
  | "c13.orbital_id" => some do
      let length ← J.natList (← J.field j "length")
      let coords ← J.natList (← J.field j "coords")
      let sp ← spinOpt (J.fieldD j "spin" Json.null)
      if validCoords length coords then .ok (J.ofNat (orbitalId length coords sp))
      else .ok (J.obj [("error", Json.str "OrbitalSpecificationError")])
  | "c13.grid_indices" => some do
      .ok (J.ofNatList (gridIndices (← J.natList (← J.field j "length")) (← J.nat (← J.field j "qubit"))
        (← J.bool (← J.field j "spinless"))))
  | "c13.pw_kinetic" => some do
      .ok (J.ofOp (planeWaveKinetic (← J.natList (← J.field j "length")) (← J.bool (← J.field j "spinless"))))
  | "c13.pw_potential" => some do
      .ok (J.ofOp (planeWavePotential (← J.natList (← J.field j "length")) (← J.bool (← J.field j "spinless"))))
  | "c13.pw_kinetic_struct" => some do
      .ok (J.ofList (fun (t, n) => Json.arr #[J.ofTerm t, J.ofIntList n])
        (planeWaveKineticStruct (← J.natList (← J.field j "length")) (← J.bool (← J.field j "spinless"))))
  | "c13.pw_potential_struct" => some do
      .ok (J.ofList (fun (t, n) => Json.arr #[J.ofTerm t, J.ofIntList n])
        (planeWavePotentialStruct (← J.natList (← J.field j "length")) (← J.bool (← J.field j "spinless"))))
  | "c13.dual_structure" => some do
      .ok (ofStructure (dualBasisStructure (← J.natList (← J.field j "length"))
        (← J.bool (← J.field j "spinless")) (← J.bool (← J.field j "kinetic"))
        (← J.bool (← J.field j "potential"))))
  | _ => none

end C13
end Handlers
end OFV
