/- Line-protocol handlers for C01 (operator arithmetic programs). -/
import OFV.Core.Json
import OFV.Model.Program

namespace OFV
namespace Handlers
namespace C01
open Lean Model

def parseFam (j : Json) : Except String Fam := do
  match (← J.str j) with
  | "fermion" => .ok (.sym .fermion)
  | "qubit" => .ok (.sym .qubit)
  | "boson" => .ok (.sym .boson)
  | "quad" => .ok (.sym .quad)
  | "ising" => .ok (.sym .ising)
  | "majorana" => .ok .maj
  | s => .error s!"bad class {s}"

def parseBin (j : Json) : Except String BinOp := do
  match (← J.str j) with
  | "add" => .ok .add | "sub" => .ok .sub | "mul" => .ok .mul
  | s => .error s!"bad binop {s}"

def parseSOp (j : Json) : Except String SOp := do
  match (← J.str j) with
  | "mul" => .ok .mul | "rmul" => .ok .rmul | "div" => .ok .div | "add" => .ok .add
  | "radd" => .ok .radd | "sub" => .ok .sub | "rsub" => .ok .rsub
  | s => .error s!"bad sop {s}"

def parseISOp (j : Json) : Except String ISOp := do
  match (← J.str j) with
  | "mul" => .ok .mul | "div" => .ok .div | "add" => .ok .add | "sub" => .ok .sub
  | s => .error s!"bad isop {s}"

def parseStmt (j : Json) : Except String Stmt := do
  let a ← J.arr j
  match a with
  | [.str "new", x, t, c] => do .ok (.new (← J.nat x) (← J.term t) (← J.gq c))
  | [.str "zero", x] => do .ok (.zero (← J.nat x))
  | [.str "alias", x, y] => do .ok (.alias (← J.nat x) (← J.nat y))
  | [.str "bin", x, o, y, z] => do .ok (.bin (← J.nat x) (← parseBin o) (← J.nat y) (← J.nat z))
  | [.str "sbin", x, o, y, c] => do .ok (.sbin (← J.nat x) (← parseSOp o) (← J.nat y) (← J.gq c))
  | [.str "neg", x, y] => do .ok (.neg (← J.nat x) (← J.nat y))
  | [.str "pow", x, y, k] => do .ok (.pow (← J.nat x) (← J.nat y) (← J.nat k))
  | [.str "iop", x, o, y] => do .ok (.iop (← J.nat x) (← parseBin o) (← J.nat y))
  | [.str "isop", x, o, c] => do .ok (.isop (← J.nat x) (← parseISOp o) (← J.gq c))
  | _ => .error s!"bad stmt {j.compress}"

def snapshot (s : Store) : Json :=
  J.ofList (fun x => match s.val? x with
    | some o => J.ofOp o
    | none => Json.null) (List.range s.vars.length)

def errName : Err → String
  | .typeError => "TypeError" | .unbound => "unbound" | .zeroDiv => "ZeroDivisionError"

/-- run a program; answer one snapshot of all variables per statement; a
statement that raises answers `{"error": kind}` and leaves the store unchanged -/
def prog (j : Json) : Except String Json := do
  let f ← parseFam (← J.field j "cls")
  let nvars ← J.nat (← J.field j "nvars")
  let stmts ← J.listOf parseStmt (← J.field j "prog")
  let tol := Generated.eqTolerance
  let (_, outs) := stmts.foldl (fun (acc : Store × List Json) st =>
    match exec tol f acc.1 st with
    | .ok s' => (s', snapshot s' :: acc.2)
    | .error e => (acc.1, J.obj [("error", Json.str (errName e))] :: acc.2)) (Store.init nvars, [])
  .ok (Json.arr outs.reverse.toArray)

def simp (j : Json) : Except String Json := do
  let f ← parseFam (← J.field j "cls")
  let t ← J.term (← J.field j "term")
  .ok (J.ofOp (fMk f t 1))

def handle (op : String) (j : Json) : Option (Except String Json) :=
  match op with
  | "c01.prog" => some (prog j)
  | "c01.simplify" => some (simp j)
  | _ => none

end C01
end Handlers
end OFV
