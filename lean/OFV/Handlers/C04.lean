/- Line-protocol handlers for C04 (Jordan-Wigner). -/
import OFV.Core.Json
import OFV.Model.C04
import OFV.Model.C04Jellium
import OFV.Spec.C04
import OFV.Handlers.Common

namespace OFV
namespace Handlers
namespace C04
open Lean Model

def tol : Rat := Generated.eqTolerance

def gqList (j : Json) : Except String (List GQ) := J.listOf J.gq j

def parseAlg (j : Json) : Except String Spec.Alg := do
  match (← J.str j) with
  | "fermion" => .ok .fermion
  | "majorana" => .ok .majorana
  | "qubit" => .ok .qubit
  | s => .error s!"bad alg {s}"

/-- `lengths`, `spinless`, tables of `kin` / `pot` indexed by the tensor factor of the displacement, and the
optional constant (`null` = not included) -/
def jelliumArgs (j : Json) : Except String (List Nat × Bool × List GQ × List GQ × Option GQ) := do
  let l ← J.natList (← J.field j "lengths")
  let sl ← J.bool (← J.field j "spinless")
  let k ← gqList (← J.field j "kin")
  let p ← gqList (← J.field j "pot")
  let c ← match J.fieldD j "constant" Json.null with
    | Json.null => pure none
    | cj => do pure (some (← J.gq cj))
  .ok (l, sl, k, p, c)

/-- external potential: number of nuclei, `skip` (one Boolean per momentum index, by tensor factor) and the table
`ext[k][x][j]` -/
def extArgs (l : List Nat) (j : Json) :
    Except String (Nat × (List Nat → Bool) × (List Nat → List Nat → Nat → GQ)) := do
  let nn ← J.nat (← J.field j "nuclei")
  let sk ← J.listOf J.bool (← J.field j "skip")
  let ex ← J.listOf (J.listOf (J.listOf J.gq)) (← J.field j "ext")
  .ok (nn, (fun k => sk.getD (C04J.tensorFactor l k) false),
    fun k x jj => ((ex.getD (C04J.tensorFactor l k) []).getD (C04J.tensorFactor l x) []).getD jj 0)

/-- the reference operator of a check: given explicitly or by name -/
def specOp (j : Json) : Except String Spec.C04.Op := do
  let a ← J.arr j
  match a with
  | [.str "op", o] => J.op o
  | [.str "one_body", p, q, c] => do .ok (Spec.C04.oneBodyOp (← J.nat p) (← J.nat q) (← J.gq c))
  | [.str "two_body", p, q, r, s, c] => do
    .ok (Spec.C04.twoBodyOp (← J.nat p) (← J.nat q) (← J.nat r) (← J.nat s) (← J.gq c))
  | [.str "iop", n, c, one, two] => do
    .ok (Spec.C04.interactionOp (← J.nat n) (← J.gq c) (← gqList one) (← gqList two))
  | [.str "dch", n, c, one, two] => do
    .ok (Spec.C04.dchOp (← J.nat n) (← J.gq c) (← gqList one) (← gqList two))
  | _ => .error s!"bad spec op {j.compress}"

/-- `c04.jw_check`: does the qubit operator `Q` act on every basis state `< 2^n` like
the fermionic / Majorana operator `A`?  (`dir` = "rev": `A` is the qubit side's image
under reverse JW, same comparison.) -/
def jwCheck (j : Json) : Except String Json := do
  let alg ← parseAlg (← J.field j "alg")
  let n ← J.nat (← J.field j "n")
  let A ← specOp (← J.field j "A")
  let Q ← J.op (← J.field j "Q")
  match Spec.C04.jwCheck alg n A Q with
  | none => .ok (J.obj [("eq", Json.bool true)])
  | some (s, a, b) => .ok (J.obj [("eq", Json.bool false), ("state", J.ofNat s),
      ("spec", Handlers.ofGV a), ("implementation", Handlers.ofGV b)])

def handle (op : String) (j : Json) : Option (Except String Json) :=
  match op with
  | "c04.ladder" => some do
      .ok (J.ofOp (C04.jwLadder tol (← J.nat (← J.field j "j")) (← J.nat (← J.field j "a"))))
  | "c04.fermion" => some do .ok (J.ofOp (C04.jwFermion tol (← J.op (← J.field j "A"))))
  | "c04.majorana" => some do
      let A ← J.op (← J.field j "A")
      .ok (J.ofOp (C04.jwMajorana tol (A.map fun (t, c) => (t.map (·.1), c))))
  | "c04.fermion_ok" => some do .ok (Json.bool (C04.jwFermionOk tol (← J.op (← J.field j "A"))))
  | "c04.majorana_ok" => some do
      let A ← J.op (← J.field j "A")
      .ok (Json.bool (C04.jwMajoranaOk tol (A.map fun (t, c) => (t.map (·.1), c))))
  | "c04.one_body" => some do
      .ok (J.ofOp (C04.jwOneBody tol (← J.nat (← J.field j "p")) (← J.nat (← J.field j "q"))
        (← J.gq (← J.field j "c"))))
  | "c04.one_body_ok" => some do
      .ok (Json.bool (C04.jwOneBodyOk tol (← J.nat (← J.field j "p")) (← J.nat (← J.field j "q"))
        (← J.gq (← J.field j "c"))))
  | "c04.two_body" => some do
      .ok (J.ofOp (C04.jwTwoBody tol (← J.nat (← J.field j "p")) (← J.nat (← J.field j "q"))
        (← J.nat (← J.field j "r")) (← J.nat (← J.field j "s")) (← J.gq (← J.field j "c"))))
  | "c04.two_body_ok" => some do
      .ok (Json.bool (C04.jwTwoBodyOk tol (← J.nat (← J.field j "p")) (← J.nat (← J.field j "q"))
        (← J.nat (← J.field j "r")) (← J.nat (← J.field j "s")) (← J.gq (← J.field j "c"))))
  | "c04.iop" => some do
      .ok (J.ofOp (C04.jwInteractionOp tol (← J.nat (← J.field j "n")) (← J.gq (← J.field j "constant"))
        (← gqList (← J.field j "one")) (← gqList (← J.field j "two"))))
  | "c04.iop_ok" => some do
      .ok (Json.bool (C04.jwInteractionOpOk tol (← J.nat (← J.field j "n")) (← J.gq (← J.field j "constant"))
        (← gqList (← J.field j "one")) (← gqList (← J.field j "two"))))
  | "c04.dch" => some do
      .ok (J.ofOp (C04.jwDCH tol (← J.nat (← J.field j "n")) (← J.gq (← J.field j "constant"))
        (← gqList (← J.field j "one")) (← gqList (← J.field j "two"))))
  | "c04.dch_ok" => some do
      .ok (Json.bool (C04.jwDCHOk tol (← J.nat (← J.field j "n")) (← J.gq (← J.field j "constant"))
        (← gqList (← J.field j "one")) (← gqList (← J.field j "two"))))
  | "c04.jellium_model" => some do
      let (l, sl, k, p, c) ← jelliumArgs j
      .ok (J.ofOp (C04J.dualBasisModel tol l sl (C04J.tableFn l k) (C04J.tableFn l p) c))
  | "c04.jellium_model_ok" => some do
      let (l, sl, k, p, c) ← jelliumArgs j
      .ok (Json.bool (C04J.dualBasisModelOk tol l sl (C04J.tableFn l k) (C04J.tableFn l p) c))
  | "c04.jellium_direct" => some do
      let (l, sl, k, p, c) ← jelliumArgs j
      .ok (J.ofOp (C04J.jwJelliumDirect tol l sl (C04J.tableFn l k) (C04J.tableFn l p) c))
  | "c04.jellium_direct_ok" => some do
      let (l, sl, k, p, c) ← jelliumArgs j
      .ok (Json.bool (C04J.jwJelliumDirectOk tol l sl (C04J.tableFn l k) (C04J.tableFn l p) c))
  | "c04.dbh_direct" => some do
      let (l, sl, k, p, _) ← jelliumArgs j
      let (nn, sk, ex) ← extArgs l j
      .ok (J.ofOp (C04J.jwDualBasisHam tol l sl (C04J.tableFn l k) (C04J.tableFn l p) nn sk ex))
  | "c04.dbh_direct_ok" => some do
      let (l, sl, k, p, _) ← jelliumArgs j
      let (nn, sk, ex) ← extArgs l j
      .ok (Json.bool (C04J.jwDualBasisHamOk tol l sl (C04J.tableFn l k) (C04J.tableFn l p) nn sk ex))
  | "c04.dbh_model" => some do
      let (l, sl, k, p, _) ← jelliumArgs j
      let (nn, sk, ex) ← extArgs l j
      .ok (J.ofOp (C04J.dualBasisHamModel tol l sl (C04J.tableFn l k) (C04J.tableFn l p) nn sk ex))
  | "c04.dbh_model_ok" => some do
      let (l, sl, k, p, _) ← jelliumArgs j
      let (nn, sk, ex) ← extArgs l j
      .ok (Json.bool (C04J.dualBasisHamModelOk tol l sl (C04J.tableFn l k) (C04J.tableFn l p) nn sk ex))
  | "c04.jellium_hyp" => some do
      let (l, _, k, p, _) ← jelliumArgs j
      .ok (Json.bool (C04J.jelliumHypOk l (C04J.tableFn l k) (C04J.tableFn l p)))
  | "c04.jellium_points" => some do
      let l ← J.natList (← J.field j "lengths")
      .ok (J.ofList J.ofNatList (C04J.allPoints l))
  | "c04.reverse" => some do .ok (J.ofOp (C04.reverseJW tol (← J.op (← J.field j "Q"))))
  | "c04.reverse_ok" => some do .ok (Json.bool (C04.reverseJWOk tol (← J.op (← J.field j "Q"))))
  | "c04.jw_check" => some (jwCheck j)
  | _ => none

end C04
end Handlers
end OFV
