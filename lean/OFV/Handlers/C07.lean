/- Line-protocol handlers for C07 (conjugation, commutators, shortcuts, BCH). -/
import OFV.Core.Json
import OFV.Model.C07DC
import OFV.Model.C07BCH
import OFV.Spec.C07
import OFV.Spec.C07BCH
import OFV.Handlers.Common

namespace OFV
namespace Handlers
namespace C07
open Lean Model Model.C07

def parseCls (j : Json) : Except String Cls := do
  match (← J.str j) with
  | "fermion" => .ok .fermion
  | "qubit" => .ok .qubit
  | "boson" => .ok .boson
  | "quad" => .ok .quad
  | "ising" => .ok .ising
  | s => .error s!"bad class {s}"

def tol : Rat := Generated.eqTolerance

def ofRatJ (r : Rat) : Json := J.ofRat r
def ofBits (b : List Bool) : Json := Json.arr (b.map fun x => Json.bool x).toArray

def parseBits (j : Json) : Except String (List Bool) := J.listOf J.bool j

def parseTermCoeffs (j : Json) : Except String (List (List Bool × Rat)) := do
  let a ← J.arr j
  a.mapM fun e => do
    match (← J.arr e) with
    | [b, r] => do .ok (← parseBits b, ← J.rat r)
    | _ => .error "bad bch entry"

partial def ofTree : BTree → Json
  | .leaf i => J.ofNat i
  | .node l r => Json.arr #[ofTree l, ofTree r]

def handle (op : String) (j : Json) : Option (Except String Json) :=
  match op with
  | "c07.hc" => some do
    let cls ← parseCls (← J.field j "cls")
    .ok (J.ofOp (hermitianConjugated cls (← J.op (← J.field j "a"))))
  | "c07.hc_interaction" => some do
    let parseT := fun (j : Json) => J.listOf (fun e => do
      match (← J.arr e) with
      | [i, c] => do .ok ((← J.natList i), (← J.gq c))
      | _ => .error "bad tensor entry") j
    let c ← J.gq (← J.field j "constant")
    let one ← parseT (← J.field j "one")
    let two ← parseT (← J.field j "two")
    let r := hcInteraction c one two
    let ofT := fun (t : List (List Nat × GQ)) => J.ofList (fun (e : List Nat × GQ) => Json.arr #[J.ofNatList e.1, J.ofGQ e.2]) t
    .ok (J.obj [("constant", J.ofGQ r.1), ("one", ofT r.2.1), ("two", ofT r.2.2)])
  | "c07.comm" => some do
    let cls ← parseCls (← J.field j "cls")
    let a ← J.op (← J.field j "a")
    let b ← J.op (← J.field j "b")
    let anti ← J.bool (J.fieldD j "anti" (Json.bool false))
    .ok (J.ofOp (if anti then anticommutator tol cls a b else commutator tol cls a b))
  | "c07.pauli_tc" => some do
    .ok (Json.bool (triviallyCommutes (← J.term (← J.field j "a")) (← J.term (← J.field j "b"))))
  | "c07.pauli_tdc" => some do
    .ok (Json.bool (triviallyDoubleCommutes (← J.term (← J.field j "a")) (← J.term (← J.field j "b"))
      (← J.term (← J.field j "c"))))
  | "c07.error_operator" => some do
    let ts ← J.listOf J.op (← J.field j "terms")
    .ok (J.ofOp (errorOperatorRaw tol ts))
  | "c07.dual_tc" => some do
    .ok (Json.bool (triviallyCommutesDualBasis (← J.term (← J.field j "a")) (← J.term (← J.field j "b"))))
  | "c07.dual_tdc" => some do
    .ok (Json.bool (triviallyDoubleCommutesDualBasis (← J.term (← J.field j "a"))
      (← J.term (← J.field j "b")) (← J.term (← J.field j "c"))))
  | "c07.term_info" => some do
    .ok (Json.bool (triviallyDoubleCommutesTermInfo (← J.natList (← J.field j "ia"))
      (← J.natList (← J.field j "ib")) (← J.natList (← J.field j "iap"))
      (← J.bool (← J.field j "ha")) (← J.bool (← J.field j "hb")) (← J.bool (← J.field j "hap"))
      (← J.bool (← J.field j "jellium"))))
  | "c07.normal_ordered" => some do
    .ok (J.ofOp (normalOrdered tol (← J.op (← J.field j "a"))))
  | "c07.double_comm" => some do
    let a ← J.op (← J.field j "a")
    let b ← J.op (← J.field j "b")
    let c ← J.op (← J.field j "c")
    let hop ← J.bool (J.fieldD j "hopping" (Json.bool false))
    if hop then
      .ok (J.ofOp (doubleCommutatorHopping tol a b c (← J.natList (← J.field j "i2"))
        (← J.natList (← J.field j "i3"))))
    else .ok (J.ofOp (doubleCommutator tol a b c))
  | "c07.dc_comm" => some do
    let a ← J.op (← J.field j "a")
    let b ← J.op (← J.field j "b")
    let p ← J.op (J.fieldD j "prior" (Json.arr #[]))
    .ok (J.ofOp (dcCommutator tol a b p))
  | "c07.bch_coeffs" => some do
    let k ← J.nat (← J.field j "order")
    .ok (J.ofList (fun (tc : List Bool × Rat) => Json.arr #[ofBits tc.1, ofRatJ tc.2]) (generateNestedCommutator k))
  | "c07.bch_check" => some do
    -- Spec: exp(Σ coeff · nested) = exp X exp Y in the free nilpotent algebra of class `order`
    let k ← J.nat (← J.field j "order")
    let ts ← parseTermCoeffs (← J.field j "terms")
    .ok (Json.bool (Spec.BCH.check k ts))
  | "c07.bch_tree" => some do
    let n ← J.nat (← J.field j "n")
    .ok (ofTree (splitTree n 0 n))
  | "c07.adjoint" => some do
    -- Spec: ⟨t|B|s⟩ = conj ⟨s|A|t⟩ for all basis states of n modes / qubits
    let alg ← parseAlg (← J.field j "alg")
    let n ← J.nat (← J.field j "n")
    let a ← J.op (← J.field j "a")
    let b ← J.op (← J.field j "b")
    match Spec.C07.adjointDiff alg n a b with
    | none => .ok (J.obj [("eq", Json.bool true)])
    | some (s, t, x, y) => .ok (J.obj [("eq", Json.bool false), ("s", J.ofNat s), ("t", J.ofNat t),
        ("got", J.ofGQ x), ("want", J.ofGQ y)])
  | _ => none

end C07
end Handlers
end OFV
