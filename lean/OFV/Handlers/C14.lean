/- Line-protocol handlers for C14 (circuit primitives and gates). -/
import OFV.Core.Json
import OFV.Model.C14Swap
import OFV.Model.C14Gates
import OFV.Model.C14Prim
import OFV.Spec.C14

namespace OFV
namespace Handlers
namespace C14
open Lean Model.C14

def ofCall (e : Nat × Nat × Nat × Nat) : Json := J.ofNatList [e.1, e.2.1, e.2.2.1, e.2.2.2]

def parseCall (j : Json) : Except String (Nat × Nat × Nat × Nat) := do
  match (← J.natList j) with
  | [p, q, a, b] => .ok (p, q, a, b)
  | _ => .error s!"bad call {j.compress}"

def swap (j : Json) : Except String Json := do
  let n ← J.nat (← J.field j "n")
  let off ← J.bool (← J.field j "offset")
  let r := swapNetwork n off
  .ok (J.obj [("order", J.ofNatList r.1), ("log", J.ofList ofCall r.2)])

def swapSpec (j : Json) : Except String Json := do
  let n ← J.nat (← J.field j "n")
  let order ← J.natList (← J.field j "order")
  let log ← J.listOf parseCall (← J.field j "log")
  .ok (J.obj [("ok", Json.bool (Spec.C14.swapOk n order log)),
              ("diag", J.ofNat (Spec.C14.swapDiag n order log))])

def ladder (j : Json) : Except String Json := do
  let n ← J.nat (← J.field j "n")
  let p ← J.nat (← J.field j "p")
  let a ← J.nat (← J.field j "a")
  .ok (J.ofList (fun (e : Nat × Nat × Int) => Json.arr #[J.ofNat e.1, J.ofNat e.2.1, J.ofInt e.2.2])
    (Spec.C14.ladderSparse n p a))

def ofMat (m : Mat) : Json := J.ofList (fun r => J.ofList J.ofGQ r) m

def gate (j : Json) : Except String Json := do
  let name ← J.str (← J.field j "name")
  let r ← J.listOf J.rat (J.fieldD j "r" (Json.arr #[]))
  let g ← J.listOf J.gq (J.fieldD j "g" (Json.arr #[]))
  let k ← J.nat (J.fieldD j "k" (J.ofNat 0))
  let rr (i : Nat) : Rat := r.getD i 0
  let gg (i : Nat) : GQ := g.getD i 1
  match name with
  | "fswap" => .ok (ofMat fswap)
  | "fswapPow" => .ok (ofMat (fswapPow (rr 0) (rr 1)))
  | "rxxyy" => .ok (ofMat (rxxyy (rr 0) (rr 1)))
  | "ryxxy" => .ok (ofMat (ryxxy (rr 0) (rr 1)))
  | "rzz" => .ok (ofMat (rzz (rr 0) (rr 1)))
  | "rot11" => .ok (ofMat (rot11 (rr 0) (rr 1)))
  | "rot111" => .ok (ofMat (rot111 (rr 0) (rr 1)))
  | "crxxyy" => .ok (ofMat (crxxyy (rr 0) (rr 1)))
  | "cryxxy" => .ok (ofMat (cryxxy (rr 0) (rr 1)))
  | "doubleExcitation" => .ok (ofMat (doubleExcitation (rr 0) (rr 1)))
  | "quadratic" => .ok (ofMat (quadratic (rr 0) (rr 1) (gg 0) (rr 2) (rr 3)))
  | "quadraticDecomposed" => .ok (ofMat (quadraticDecomposed (rr 0) (rr 1) (gg 0) (rr 2) (rr 3)))
  | "quartic" => .ok (ofMat (quartic (rr 0, rr 1, gg 0) (rr 2, rr 3, gg 1) (rr 4, rr 5, gg 2)))
  | "cubicSingle" => .ok (ofMat (cubicSingle k (rr 0, rr 1, gg 0)))
  | "cubicGenerator" => .ok (ofMat (cubicGenerator (gg 0) (gg 1) (gg 2)))
  | "quarticGenerator" => .ok (ofMat (quarticGenerator (gg 0) (gg 1) (gg 2)))
  | "doubleExcitationGenerator" => .ok (ofMat doubleExcitationGenerator)
  | s => .error s!"unknown gate {s}"

def occ (j : Json) : Except String Json := do
  .ok (J.ofNatList (occupiedOrbitals (← J.nat (← J.field j "state")) (← J.nat (← J.field j "n"))))

def flips (j : Json) : Except String Json := do
  let kind ← J.str (← J.field j "kind")
  let n ← J.nat (← J.field j "n")
  let oc ← J.natList (← J.field j "occ")
  match kind with
  | "slater" => .ok (J.ofNatList (slaterFlips n (← J.nat (← J.field j "nocc")) oc))
  | "gaussian" => .ok (J.ofNatList (gaussianFlips n oc (← J.natList (← J.field j "start"))))
  | "spin" => .ok (J.ofNatList (spinFlips n (← J.nat (← J.field j "sector")) oc
      (← J.natList (← J.field j "start"))))
  | s => .error s!"unknown flips kind {s}"

def split (j : Json) : Except String Json := do
  let r := splitOrbitals (← J.nat (← J.field j "n")) (← J.natList (← J.field j "occ"))
  .ok (Json.arr #[J.ofNatList r.1, J.ofNatList r.2])

def spinBlock (j : Json) : Except String Json := do
  .ok (Json.bool (spinBlockApplies (← J.nat (← J.field j "rows")) (← J.nat (← J.field j "cols"))
    (← J.bool (← J.field j "offzero"))))

def parseGivensOp (j : Json) : Except String (Option (Nat × Nat × Nat)) := do
  match j with
  | .str _ => .ok none
  | _ => match (← J.natList j) with
    | [i, k, l] => .ok (some (i, k, l))
    | _ => .error s!"bad givens op {j.compress}"

def ofPrimOp : PrimOp → Json
  | .x q => Json.arr #[Json.str "X", J.ofNat q]
  | .ryxxy i j k => Json.arr #[Json.str "Ryxxy", J.ofNat i, J.ofNat j, J.ofNat k]
  | .zpow j k => Json.arr #[Json.str "Z", J.ofNat j, J.ofNat k]

def givens (j : Json) : Except String Json := do
  let n ← J.nat (← J.field j "n")
  let desc ← J.listOf (J.listOf parseGivensOp) (← J.field j "desc")
  .ok (J.ofList ofPrimOp (givensOps n desc))

def ofFfftOp : FfftOp → Json
  | .perm s p inv => Json.arr #[Json.str "perm", J.ofNat s, J.ofNatList p, Json.bool inv]
  | .f0 q => Json.arr #[Json.str "f0", J.ofNat q]
  | .twiddle k n q => Json.arr #[Json.str "tw", J.ofNat k, J.ofNat n, J.ofNat q]
  | .prime s p => Json.arr #[Json.str "prime", J.ofNat s, J.ofNat p]

def ffft (j : Json) : Except String Json := do
  .ok (J.ofList ofFfftOp (ffftOps (← J.nat (← J.field j "n"))))

def ffftExp (j : Json) : Except String Json := do
  .ok (J.ofList J.ofNatList (ffftExpTable (← J.nat (← J.field j "n"))))

def slaterSchedule (j : Json) : Except String Json := do
  .ok (J.ofList (J.ofList fun (ab : Nat × Nat) => J.ofNatList [ab.1, ab.2])
    (slaterSchedulePairs (← J.nat (← J.field j "n"))))

def ffftSimH (j : Json) : Except String Json := do
  .ok (J.ofList (J.ofList J.ofIntList) (ffftSim (← J.nat (← J.field j "n"))))

def handle (op : String) (j : Json) : Option (Except String Json) :=
  match op with
  | "c14.swap" => some (swap j)
  | "c14.swapspec" => some (swapSpec j)
  | "c14.ladder" => some (ladder j)
  | "c14.gate" => some (gate j)
  | "c14.occ" => some (occ j)
  | "c14.flips" => some (flips j)
  | "c14.split" => some (split j)
  | "c14.spinblock" => some (spinBlock j)
  | "c14.givens" => some (givens j)
  | "c14.ffft" => some (ffft j)
  | "c14.ffftexp" => some (ffftExp j)
  | "c14.ffftsim" => some (ffftSimH j)
  | "c14.ffftsimcyc" => some (do .ok (J.ofList (J.ofList J.ofIntList) (ffftSimCyc (← J.nat (← J.field j "n")))))
  | "c14.slaterschedule" => some (slaterSchedule j)
  | _ => none

end C14
end Handlers
end OFV
