/- Line-protocol handlers for C17 (chemistry reductions). -/
import OFV.Core.Json
import OFV.Model.C17
import OFV.Spec.C17

namespace OFV
namespace Handlers
namespace C17
open Lean Model.C17

def parseT2 (j : Json) : Except String T2 := J.listOf (J.listOf J.rat) j
def parseT4 (j : Json) : Except String T4 := J.listOf (J.listOf (J.listOf (J.listOf J.rat))) j
def ofT2 (t : T2) : Json := J.ofList (J.ofList J.ofRat) t
def ofT4 (t : T4) : Json := J.ofList (J.ofList (J.ofList (J.ofList J.ofRat))) t

abbrev G2 := List (List GQ)
abbrev G4 := List (List (List (List GQ)))
def parseG2 (j : Json) : Except String G2 := J.listOf (J.listOf J.gq) j
def parseG4 (j : Json) : Except String G4 := J.listOf (J.listOf (J.listOf (J.listOf J.gq))) j
def g2get (t : G2) : C2 := fun p q => (t.getD p []).getD q 0
def g4get (t : G4) : C4 := fun p q r s => (((t.getD p []).getD q []).getD r []).getD s 0
def ofC2 (n : Nat) (f : C2) : Json :=
  J.ofList (fun p => J.ofList (fun q => J.ofGQ (f p q)) (List.range n)) (List.range n)
def ofC4 (n : Nat) (f : C4) : Json :=
  J.ofList (fun p => J.ofList (fun q => J.ofList (fun r => J.ofList (fun s => J.ofGQ (f p q r s))
    (List.range n)) (List.range n)) (List.range n)) (List.range n)

def chemistH (j : Json) : Except String Json := do
  let h ← parseT4 (← J.field j "two")
  let spin ← J.bool (← J.field j "spin_basis")
  let (c, g) := chemist h h.length spin
  .ok (J.obj [("correction", ofT2 c), ("chemist", ofT4 g)])

def truncate (j : Json) : Except String Json := do
  let ws ← J.listOf J.rat (← J.field j "weights")
  let thr ← J.rat (← J.field j "threshold")
  let fr ← match j.getObjVal? "final_rank" with
    | .ok Json.null => pure none
    | .ok v => do pure (some (← J.nat v))
    | .error _ => pure none
  let L := maxRank ws thr fr
  .ok (J.obj [("max_rank", J.ofNat L),
              ("value", match truncationValue ws L with | some v => J.ofRat v | none => Json.str "IndexError"),
              ("discarded", J.ofRat (Spec.C17.discarded ws L)),
              ("minimal", Json.bool (Spec.C17.minimalRank ws thr L))])

def spinorbH (j : Json) : Except String Json := do
  let one ← parseT2 (← J.field j "one")
  let two ← parseT4 (← J.field j "two")
  let tol ← J.rat (← J.field j "tol")
  let scale ← J.rat (← J.field j "scale")
  let (a, b) := spinorb tol scale one two
  .ok (J.obj [("one", ofT2 a), ("two", ofT4 b)])

def active (j : Json) : Except String Json := do
  let one ← parseT2 (← J.field j "one")
  let two ← parseT4 (← J.field j "two")
  let occ ← J.natList (← J.field j "occupied")
  let act ← J.natList (← J.field j "active")
  if act.isEmpty then .ok (J.obj [("error", Json.str "ValueError")]) else
  let (c, a, b) := activeSpace one two occ act
  .ok (J.obj [("core", J.ofRat c), ("one", ofT2 a), ("two", ofT4 b)])

def rdm (j : Json) : Except String Json := do
  let fn ← J.str (← J.field j "fn")
  let n ← J.nat (← J.field j "n")
  let t4 ← parseG4 (J.fieldD j "t4" (Json.arr #[]))
  let t2 ← parseG2 (J.fieldD j "t2" (Json.arr #[]))
  let d ← J.rat (J.fieldD j "d" (J.ofNat 1))
  match fn with
  | "two_pdm_to_one_pdm" | "two_hole_to_one_hole" | "ph_to_one_pdm" =>
    if d == 0 then .ok (J.obj [("error", Json.str "ZeroDivision")]) else
    .ok (ofC2 n (contract n (g4get t4) d))
  | "two_pdm_to_two_hole" => .ok (ofC4 n (twoPdmToTwoHole (g4get t4) (g2get t2)))
  | "two_hole_to_two_pdm" => .ok (ofC4 n (twoHoleToTwoPdm (g4get t4) (g2get t2)))
  | "one_pdm_to_one_hole" | "one_hole_to_one_pdm" => .ok (ofC2 n (oneMinus (g2get t2)))
  | "two_pdm_to_ph" => .ok (ofC4 n (twoPdmToPh (g4get t4) (g2get t2)))
  | "ph_to_two_pdm" => .ok (ofC4 n (phToTwoPdm (g4get t4) (g2get t2)))
  | s => .error s!"bad fn {s}"

def expect (j : Json) : Except String Json := do
  let n ← J.nat (← J.field j "n")
  let c ← J.gq (← J.field j "const")
  let o1 ← parseG2 (← J.field j "o1")
  let o2 ← parseG4 (← J.field j "o2")
  let r1 ← parseG2 (← J.field j "r1")
  let r2 ← parseG4 (← J.field j "r2")
  .ok (J.ofGQ (expectation n c (g2get o1) (g2get r1) (g4get o2) (g4get r2)))

def handle (op : String) (j : Json) : Option (Except String Json) :=
  match op with
  | "c17.chemist" => some (chemistH j)
  | "c17.truncate" => some (truncate j)
  | "c17.spinorb" => some (spinorbH j)
  | "c17.active" => some (active j)
  | "c17.rdm" => some (rdm j)
  | "c17.expectation" => some (expect j)
  | _ => none

end C17
end Handlers
end OFV
