/- Line-protocol handlers for C03 (normal ordering, chemist ordering, reorder). -/
import OFV.Core.Json
import OFV.Model.C03
import OFV.Model.C02
import OFV.Spec.C03

namespace OFV
namespace Handlers
namespace C03
open Lean Model Model.C03

def parseKind (j : Json) : Except String Kind := do
  match j with
  | .str "fermion" => .ok .fermion
  | .str "boson" => .ok .boson
  | .arr a =>
    if a.size == 2 then do .ok (.quad (← J.gq a[1]!)) else .error "bad kind"
  | _ => .error s!"bad kind {j.compress}"

def parseCls (j : Json) : Except String Cls := do
  match (← J.str j) with
  | "fermion" => .ok .fermion
  | "qubit" => .ok .qubit
  | "boson" => .ok .boson
  | "quad" => .ok .quad
  | "ising" => .ok .ising
  | s => .error s!"bad class {s}"

def tol : Rat := Generated.eqTolerance

def normalOrderedH (j : Json) : Except String Json := do
  let k ← parseKind (← J.field j "kind")
  let a ← J.op (← J.field j "a")
  -- `r`: as coded (EQ_TOLERANCE); `r0`: tolerance 0 (no deletion), the version the soundness
  -- theorems are about — the harness checks that both agree up to exact zeros (exact regime)
  -- `lattice`: the decidable hypothesis of `normal_ordered_exact_regime_of_latB` (D = 2^26, tol·D ≤ 1)
  .ok (J.obj [("r", J.ofOp (normalOrdered tol k a)), ("r0", J.ofOp (normalOrdered 0 k a)),
              ("lattice", Json.bool (latB (2 ^ 26) a && decide (0 ≤ tol) && decide (tol * ((2 ^ 26 : Nat) : Rat) ≤ 1)))])

def noTermH (j : Json) : Except String Json := do
  let k ← parseKind (← J.field j "kind")
  let t ← J.term (← J.field j "term")
  let c ← J.gq (← J.field j "c")
  .ok (J.ofOp (noTerm tol k t c))

def interactionH (j : Json) : Except String Json := do
  let n ← J.nat (← J.field j "n")
  let T ← J.listOf J.gq (← J.field j "two_body")
  .ok (J.ofList J.ofGQ (normalOrderedTwoBody n T))

def chemistH (j : Json) : Except String Json := do
  let a ← J.op (← J.field j "a")
  if Model.C02.isTwoBodyNumberConserving false a then
    .ok (J.obj [("r", J.ofOp (chemistOrdered tol a))])
  else .ok (J.obj [("error", Json.str "TypeError")])

def reorderH (j : Json) : Except String Json := do
  let cls ← parseCls (← J.field j "cls")
  let m ← J.natList (← J.field j "map")
  let a ← J.op (← J.field j "a")
  .ok (J.obj [("r", J.ofOp (reorder tol cls m a)), ("num_modes", J.ofNat (defaultNumModes a))])

def specNormalH (j : Json) : Except String Json := do
  let a ← J.op (← J.field j "a")
  let k ← J.str (← J.field j "alg")
  let f := match k with
    | "fermion" => Spec.C03.normalF
    | "boson" => Spec.C03.normalB
    | _ => Spec.C03.normalQ
  .ok (Json.bool (a.all fun e => f e.1))

def handle (op : String) (j : Json) : Option (Except String Json) :=
  match op with
  | "c03.normal_ordered" => some (normalOrderedH j)
  | "c03.no_term" => some (noTermH j)
  | "c03.interaction" => some (interactionH j)
  | "c03.chemist" => some (chemistH j)
  | "c03.reorder" => some (reorderH j)
  | "c03.spec_normal" => some (specNormalH j)
  | _ => none

end C03
end Handlers
end OFV
