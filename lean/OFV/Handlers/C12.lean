/- Line-protocol handlers for C12 (quadratic Hamiltonians / Gaussian states). -/
import OFV.Core.Json
import OFV.Model.C12
import OFV.Spec.C12

namespace OFV
namespace Handlers
namespace C12
open Lean Model.C12

def parseCMat (j : Json) : Except String CMat := J.listOf (J.listOf J.gq) j
def parseRMat (j : Json) : Except String RMat := J.listOf (J.listOf J.rat) j
def ofRMat (M : RMat) : Json := J.ofList (J.ofList J.ofRat) M

def majorana (j : Json) : Except String Json := do
  let H ← parseCMat (← J.field j "H")
  let D ← parseCMat (← J.field j "D")
  let c ← J.gq (← J.field j "const")
  let n := H.length
  .ok (J.obj [("A", ofRMat (majoranaMatrix n H D)), ("const", J.ofGQ (majoranaConstant n H c))])

def energies (j : Json) : Except String Json := do
  let es ← J.listOf J.rat (← J.field j "es")
  let c ← J.rat (← J.field j "const")
  let tol ← J.rat (← J.field j "tol")
  let cons ← J.bool (← J.field j "conserving")
  let occs ← J.listOf J.natList (J.fieldD j "occs" (Json.arr #[]))
  .ok (J.obj [("ground", J.ofRat (groundEnergy es c)),
              ("default_occ", J.ofNatList (if cons then defaultOccupation tol es else [])),
              ("default_energy", J.ofRat (defaultEnergy tol cons es c)),
              ("energies", J.ofList (fun o => J.ofRat (energyOf es o c)) occs)])

def canonical (j : Json) : Except String Json := do
  let T ← parseRMat (← J.field j "T")
  let Z ← parseRMat (← J.field j "Z")
  let atol ← J.rat (← J.field j "atol")
  let n ← J.nat (← J.field j "n")
  let (C, R) := canonicalPasses atol n T Z
  .ok (J.obj [("canonical", ofRMat C), ("orthogonal", ofRMat R)])

/-- Spec: sorted subset-sum spectrum and its minimum -/
def specSpectrum (j : Json) : Except String Json := do
  let es ← J.listOf J.rat (← J.field j "es")
  let c ← J.rat (← J.field j "const")
  .ok (J.obj [("spectrum", J.ofList J.ofRat (Spec.C12.sort (Spec.C12.spectrum es c))),
              ("lowest", J.ofRat (Spec.C12.lowest es c))])

def handle (op : String) (j : Json) : Option (Except String Json) :=
  match op with
  | "c12.majorana" => some (majorana j)
  | "c12.energies" => some (energies j)
  | "c12.canonical" => some (canonical j)
  | "c12.spec.spectrum" => some (specSpectrum j)
  | _ => none

end C12
end Handlers
end OFV
