/- Line-protocol handlers for C09 (BinaryPolynomial programs, binary codes,
binary_code_transform; Spec oracles of OFV.Spec.C09).  Trusted glue, no theorems.
A term travels as a list of ints, `-1` = the symbolic constant `'one'`. -/
import OFV.Core.Json
import OFV.Model.C09
import OFV.Spec.C09
import OFV.Handlers.Common

namespace OFV
namespace Handlers
namespace C09
open Lean Model.C09

def parseFac (j : Json) : Except String Fac := do
  let i ← J.int j
  if i < 0 then .ok none else .ok (some i.toNat)

def parseMono (j : Json) : Except String Mono := J.listOf parseFac j
def parsePoly (j : Json) : Except String Poly := J.listOf parseMono j

def ofFac : Fac → Json
  | none => J.ofInt (-1)
  | some i => J.ofNat i

def ofMono (t : Mono) : Json := J.ofList ofFac t
def ofPoly (p : Poly) : Json := J.ofList ofMono p

def parseTok (j : Json) : Except String Tok := do
  match (← J.arr j) with
  | [k, v] => do
    match (← J.nat k) with
    | 0 => .ok (.const (← J.nat v))
    | 1 => .ok (.var (← J.nat v))
    | _ => .ok .bad
  | _ => .error s!"bad token {j.compress}"

/-! ### polynomial programs -/

def parsePStmt (j : Json) : Except String PStmt := do
  match (← J.arr j) with
  | [.str "str", x, sm] => do .ok (.str (← J.nat x) (← J.listOf (J.listOf parseTok) sm))
  | [.str "seq", x, neg, ts] => do .ok (.seq (← J.nat x) (← J.bool neg) (← parsePoly ts))
  | [.str "int", x, k] => do .ok (.int (← J.nat x) (← J.int k))
  | [.str "add", x, y, z] => do .ok (.add (← J.nat x) (← J.nat y) (← J.nat z))
  | [.str "mul", x, y, z] => do .ok (.mul (← J.nat x) (← J.nat y) (← J.nat z))
  | [.str "addi", x, y, k] => do .ok (.addi (← J.nat x) (← J.nat y) (← J.int k))
  | [.str "muli", x, y, k] => do .ok (.muli (← J.nat x) (← J.nat y) (← J.int k))
  | [.str "pow", x, y, k] => do .ok (.pow (← J.nat x) (← J.nat y) (← J.nat k))
  | [.str "iadd", x, y] => do .ok (.iadd (← J.nat x) (← J.nat y))
  | [.str "imul", x, y] => do .ok (.imul (← J.nat x) (← J.nat y))
  | [.str "iaddi", x, k] => do .ok (.iaddi (← J.nat x) (← J.int k))
  | [.str "imuli", x, k] => do .ok (.imuli (← J.nat x) (← J.int k))
  | [.str "shift", x, c] => do .ok (.shift (← J.nat x) (← J.nat c))
  | [.str "eval", x, bits] => do .ok (.eval (← J.nat x) (← J.natList bits))
  | _ => .error s!"bad statement {j.compress}"

def snapshot (s : PStore) : Json :=
  J.ofList (fun x => match s.val? x with
    | some p => ofPoly p
    | none => Json.null) (List.range s.vars.length)

def polyProg (j : Json) : Except String Json := do
  let nvars ← J.nat (← J.field j "nvars")
  let stmts ← J.listOf parsePStmt (← J.field j "prog")
  let (_, outs) ← stmts.foldlM (fun (acc : PStore × List Json) st => do
    match acc.1.exec st with
    | .store s' => pure (s', J.obj [("vars", snapshot s')] :: acc.2)
    | .err e => pure (acc.1, J.obj [("error", Json.str e.name)] :: acc.2)
    | .value n => pure (acc.1, J.obj [("value", J.ofNat n)] :: acc.2)
    | .unbound => pure (acc.1, J.obj [("error", Json.str "unbound")] :: acc.2)) (PStore.init nvars, [])
  .ok (Json.arr outs.reverse.toArray)

/-! ### codes -/

partial def parseCExpr (j : Json) : Except String CExpr := do
  match (← J.arr j) with
  | [.str "jw", n] => do .ok (.jw (← J.nat n))
  | [.str "bk", n] => do .ok (.bk (← J.nat n))
  | [.str "parity", n] => do .ok (.parity (← J.nat n))
  | [.str "checksum", n, odd] => do .ok (.checksum (← J.nat n) (← J.bool odd))
  | [.str "w1ba", e] => do .ok (.w1ba (← J.nat e))
  | [.str "w1seg"] => .ok .w1seg
  | [.str "w2seg"] => .ok .w2seg
  | [.str "interleaved", n] => do .ok (.interleaved (← J.nat n))
  | [.str "add", a, b] => do .ok (.add (← parseCExpr a) (← parseCExpr b))
  | [.str "mulint", a, k] => do .ok (.mulInt (← parseCExpr a) (← J.int k))
  | [.str "concat", a, b] => do .ok (.concat (← parseCExpr a) (← parseCExpr b))
  | _ => .error s!"bad code expression {j.compress}"

def ofDEntry : DEntry → Json
  | .poly p => ofPoly p
  | .int0 => Json.str "int0"

def ofCode (c : Code) : Json :=
  J.obj [("enc", J.ofList J.ofNatList c.enc), ("dec", J.ofList ofDEntry c.dec),
         ("nq", J.ofNat c.nq), ("nm", J.ofNat c.nm)]

def codeH (j : Json) : Except String Json := do
  let e ← parseCExpr (← J.field j "expr")
  match e.build with
  | .ok c => .ok (ofCode c)
  | .error err => .ok (J.obj [("error", Json.str err.name)])

def bctH (j : Json) : Except String Json := do
  let e ← parseCExpr (← J.field j "expr")
  let h ← J.op (← J.field j "f")
  match e.build with
  | .error err => .ok (J.obj [("error", Json.str err.name), ("stage", Json.str "code")])
  | .ok c =>
    match binaryCodeTransform Generated.eqTolerance h c with
    | .ok q => .ok (J.obj [("q", J.ofOp q)])
    | .error err => .ok (J.obj [("error", Json.str err.name), ("stage", Json.str "transform")])

/-! ### Spec oracles -/

partial def parsePExpr (j : Json) : Except String Spec.C09.PExpr := do
  match (← J.arr j) with
  | [.str "leaf", p] => do .ok (.leaf (← parsePoly p))
  | [.str "const", k] => do .ok (.const (← J.int k))
  | [.str "add", a, b] => do .ok (.add (← parsePExpr a) (← parsePExpr b))
  | [.str "mul", a, b] => do .ok (.mul (← parsePExpr a) (← parsePExpr b))
  | [.str "pow", a, k] => do .ok (.pow (← parsePExpr a) (← J.nat k))
  | [.str "shift", a, c] => do .ok (.shift (← parsePExpr a) (← J.nat c))
  | _ => .error s!"bad polynomial expression {j.compress}"

def specPoly (j : Json) : Except String Json := do
  let vars ← J.natList (← J.field j "vars")
  let base ← J.natList (J.fieldD j "base" (Json.arr #[]))
  let l ← parsePExpr (← J.field j "lhs")
  let r ← parsePExpr (← J.field j "rhs")
  match Spec.C09.firstDiffPoly base vars l r with
  | none => .ok (J.obj [("eq", Json.bool true)])
  | some ones => .ok (J.obj [("eq", Json.bool false), ("ones", J.ofNatList ones),
      ("lhs", Json.bool (l.eval (Spec.C09.assignOf ones))), ("rhs", Json.bool (r.eval (Spec.C09.assignOf ones)))])

def specEval (j : Json) : Except String Json := do
  let p ← parsePoly (← J.field j "poly")
  let ones ← J.natList (← J.field j "ones")
  .ok (Json.bool (Spec.C09.evalPoly (Spec.C09.assignOf ones) p))

def specValid (j : Json) : Except String Json := do
  let enc ← J.listOf J.natList (← J.field j "enc")
  let dec ← J.listOf parsePoly (← J.field j "dec")
  let dom ← J.natList (← J.field j "dom")
  match Spec.C09.firstInvalid enc dec dom with
  | none => .ok (J.obj [("ok", Json.bool true)])
  | some (v, w, d) => .ok (J.obj [("ok", Json.bool false), ("v", J.ofNat v), ("w", J.ofNat w), ("d", J.ofNat d)])

def specBct (j : Json) : Except String Json := do
  let enc ← J.listOf J.natList (← J.field j "enc")
  let dom ← J.natList (← J.field j "dom")
  let f ← J.op (← J.field j "f")
  let q ← J.op (← J.field j "q")
  match Spec.C09.bctCheck enc dom f q with
  | .ok => .ok (J.obj [("verdict", Json.str "ok")])
  | .leavesDomain v img => .ok (J.obj [("verdict", Json.str "leaves"), ("v", J.ofNat v), ("img", J.ofNat img)])
  | .differs v l r => .ok (J.obj [("verdict", Json.str "differs"), ("v", J.ofNat v),
      ("lhs", Handlers.ofGV l), ("rhs", Handlers.ofGV r)])

def handle (op : String) (j : Json) : Option (Except String Json) :=
  match op with
  | "c09.poly_prog" => some (polyProg j)
  | "c09.code" => some (codeH j)
  | "c09.bct" => some (bctH j)
  | "c09.spec_poly" => some (specPoly j)
  | "c09.spec_eval" => some (specEval j)
  | "c09.spec_valid" => some (specValid j)
  | "c09.spec_bct" => some (specBct j)
  | _ => none

end C09
end Handlers
end OFV
