/- Line-protocol handlers for C05 (Bravyi-Kitaev family). -/
import OFV.Core.Json
import OFV.Model.C05
import OFV.Model.C05Bksf
import OFV.Model.C05BksfOk
import OFV.Spec.C04
import OFV.Spec.C05
import OFV.Handlers.Common

namespace OFV
namespace Handlers
namespace C05
open Lean Model

def tol : Rat := Generated.eqTolerance

def gqList (j : Json) : Except String (List GQ) := J.listOf J.gq j

def parseAlg (j : Json) : Except String Spec.Alg := do
  match (← J.str j) with
  | "fermion" => .ok .fermion
  | "majorana" => .ok .majorana
  | s => .error s!"bad alg {s}"

def parseVariant (j : Json) : Except String Spec.C05.Variant := do
  match (← J.str j) with
  | "bk" => .ok .bk
  | "tree" => .ok .tree
  | s => .error s!"bad variant {s}"

def specOp (j : Json) : Except String Spec.C05.Op := do
  let a ← J.arr j
  match a with
  | [.str "op", o] => J.op o
  | [.str "one_body_term", p, q, c] => do .ok [([((← J.nat p), 1), ((← J.nat q), 0)], ← J.gq c)]
  | [.str "iop", n, c, one, two] => do
    .ok (Spec.C04.interactionOp (← J.nat n) (← J.gq c) (← gqList one) (← gqList two))
  | _ => .error s!"bad spec op {j.compress}"

def bkCheck (j : Json) : Except String Json := do
  let v ← parseVariant (← J.field j "variant")
  let alg ← parseAlg (← J.field j "alg")
  let n ← J.nat (← J.field j "n")
  let A ← specOp (← J.field j "A")
  let Q ← J.op (← J.field j "Q")
  match Spec.C05.bkCheck v alg n A Q with
  | none => .ok (J.obj [("eq", Json.bool true)])
  | some (s, e, a, b) => .ok (J.obj [("eq", Json.bool false), ("state", J.ofNat s), ("encoded", J.ofNat e),
      ("spec", Handlers.ofGV a), ("implementation", Handlers.ofGV b)])

def nat (j : Json) (k : String) : Except String Nat := do J.nat (← J.field j k)

def handle (op : String) (j : Json) : Option (Except String Json) :=
  match op with
  | "c05.sets" => some do
      let i ← nat j "index"; let n ← nat j "n"
      .ok (J.obj [("update", J.ofNatList (C05.updateSet i n)), ("occupation", J.ofNatList (C05.occupationSet i)),
                  ("parity", J.ofNatList (C05.paritySet i))])
  | "c05.ladder" => some do
      .ok (J.ofOp (C05.bkLadder tol (← nat j "n") (← nat j "index") (← nat j "action")))
  | "c05.majorana_factor" => some do .ok (J.ofOp (C05.bkMajFactor (← nat j "n") (← nat j "m")))
  | "c05.fermion" => some do .ok (J.ofOp (C05.bkFermion tol (← nat j "n") (← J.op (← J.field j "A"))))
  | "c05.fermion_ok" => some do .ok (Json.bool (C05.bkFermionOk tol (← nat j "n") (← J.op (← J.field j "A"))))
  | "c05.majorana" => some do
      let A ← J.op (← J.field j "A")
      .ok (J.ofOp (C05.bkMajorana tol (← nat j "n") (A.map fun (t, c) => (t.map (·.1), c))))
  | "c05.majorana_ok" => some do
      let A ← J.op (← J.field j "A")
      .ok (Json.bool (C05.bkMajoranaOk tol (← nat j "n") (A.map fun (t, c) => (t.map (·.1), c))))
  | "c05.tree" => some do .ok (J.ofOp (C05.bkTreeFermion tol (← nat j "n") (← J.op (← J.field j "A"))))
  | "c05.tree_ok" => some do .ok (Json.bool (C05.bkTreeFermionOk tol (← nat j "n") (← J.op (← J.field j "A"))))
  | "c05.tree_sets" => some do
      let n ← nat j "n"; let i ← nat j "index"
      let t := C05.mkTree n
      .ok (J.obj [("update", J.ofNatList (C05.treeUpdate t n i)), ("children", J.ofNatList (C05.treeChildren t i)),
                  ("remainder", J.ofNatList (C05.treeRemainder t n i)), ("parity", J.ofNatList (C05.treeParity t n i))])
  | "c05.srl" => some do
      let r := C05.srl (← nat j "i") (← nat j "j") (← J.gq (← J.field j "coef")) (← nat j "n")
      .ok (J.obj [("case", J.ofNat r.1), ("n_ops", J.ofNat r.2.1.length),
                  ("op", J.ofOp (C05.qubitOperatorCreation tol r.2.1 r.2.2))])
  | "c05.srl_ok" => some do
      .ok (Json.bool (C05.srlOk tol (← nat j "i") (← nat j "j") (← J.gq (← J.field j "coef")) (← nat j "n")))
  | "c05.iop" => some do
      .ok (J.ofOp (C05.bkInteractionOp tol (← nat j "N") (← nat j "n") (← J.gq (← J.field j "constant"))
        (← gqList (← J.field j "one")) (← gqList (← J.field j "two"))))
  | "c05.iop_ok" => some do
      .ok (Json.bool (C05.bkInteractionOpOk tol (← nat j "N") (← nat j "n") (← J.gq (← J.field j "constant"))
        (← gqList (← J.field j "one")) (← gqList (← J.field j "two"))))
  | "c05.bksf_edges" => some do
      let N ← nat j "N"
      let T1 := C05.get1 N (← gqList (← J.field j "one"))
      let T2 := C05.get2 N (← gqList (← J.field j "two"))
      .ok (J.ofList (fun (e : Nat × Nat) => J.ofNatList [e.1, e.2]) (Bksf.edgeIndices N T1 T2))
  | "c05.bksf" => some do
      let N ← nat j "N"
      let T1 := C05.get1 N (← gqList (← J.field j "one"))
      let T2 := C05.get2 N (← gqList (← J.field j "two"))
      match Bksf.bksfOp tol N (← J.gq (← J.field j "constant")) T1 T2 with
      | none => .ok Json.null
      | some a => .ok (J.ofOp a)
  | "c05.bksf_number" => some do
      let N ← nat j "N"
      let T1 := C05.get1 N (← gqList (← J.field j "one"))
      let T2 := C05.get2 N (← gqList (← J.field j "two"))
      let mode ← match J.fieldD j "mode" Json.null with
        | Json.null => pure none
        | mj => do pure (some (← J.nat mj))
      .ok (J.ofOp (Bksf.numberOp tol N T1 T2 mode))
  | "c05.bksf_number_ok" => some do
      let N ← nat j "N"
      let T1 := C05.get1 N (← gqList (← J.field j "one"))
      let T2 := C05.get2 N (← gqList (← J.field j "two"))
      let mode ← match J.fieldD j "mode" Json.null with
        | Json.null => pure none
        | mj => do pure (some (← J.nat mj))
      .ok (Json.bool (Bksf.numberOk tol N T1 T2 mode))
  | "c05.bksf_one_body" => some do
      let E ← J.listOf (fun e => do let l ← J.natList e; .ok (l.getD 0 0, l.getD 1 0)) (← J.field j "edges")
      match Bksf.oneBody tol E (← nat j "p") (← nat j "q") with
      | none => .ok Json.null
      | some a => .ok (J.obj [("op", J.ofOp a), ("ok", Json.bool (Bksf.oneBodyOk tol E (← nat j "p") (← nat j "q")))])
  | "c05.bksf_two_body" => some do
      let E ← J.listOf (fun e => do let l ← J.natList e; .ok (l.getD 0 0, l.getD 1 0)) (← J.field j "edges")
      match Bksf.twoBody tol E (← nat j "p") (← nat j "q") (← nat j "r") (← nat j "s") with
      | none => .ok Json.null
      | some a => .ok (J.obj [("op", J.ofOp a),
          ("ok4", Json.bool (Bksf.twoBody4Ok tol E (← nat j "p") (← nat j "q") (← nat j "r") (← nat j "s")))])
  | "c05.bksf_b" => some do
      let E ← J.listOf (fun e => do let l ← J.natList e; .ok (l.getD 0 0, l.getD 1 0)) (← J.field j "edges")
      .ok (J.ofOp (Bksf.edgeB tol E (← nat j "i")))
  | "c05.bksf_a" => some do
      let E ← J.listOf (fun e => do let l ← J.natList e; .ok (l.getD 0 0, l.getD 1 0)) (← J.field j "edges")
      match Bksf.edgeA tol E (← nat j "i") (← nat j "j") with
      | none => .ok Json.null
      | some a => .ok (J.ofOp a)
  | "c05.enc" => some do
      .ok (J.ofNat (Spec.C05.enc (← parseVariant (← J.field j "variant")) (← nat j "n") (← nat j "s")))
  | "c05.sets_check" => some do
      .ok (Json.bool (Spec.C05.setsCheck (← parseVariant (← J.field j "variant")) (← nat j "n") (← nat j "index")
        (← J.natList (← J.field j "parity")) (← J.natList (← J.field j "occupation"))
        (← J.natList (← J.field j "update"))))
  | "c05.bk_check" => some (bkCheck j)
  | _ => none

end C05
end Handlers
end OFV
