/- Line-protocol handlers for C15 (Trotter simulation circuits). -/
import OFV.Core.Json
import OFV.Model.C15

namespace OFV
namespace Handlers
namespace C15
open Lean Model.C15

def parseRatios (j : Json) : Except String (Nat → Rat) := do
  let l ← J.listOf (fun e => do
    let a ← J.arr e
    match a with
    | [k, v] => do .ok ((← J.nat k), (← J.rat v))
    | _ => .error "bad ratio entry") j
  .ok fun k => match l.find? (fun e => e.1 == k) with
    | some e => e.2
    | none => 0

def simulateH (j : Json) : Except String Json := do
  let permName ← J.str (← J.field j "perm")
  let perm : List Nat → List Nat := if permName == "reversal" then reversal else id
  let r ← parseRatios (← J.field j "r")
  let order ← J.nat (← J.field j "order")
  let nSteps ← J.nat (← J.field j "nsteps")
  let n ← J.nat (← J.field j "n")
  let time ← J.rat (← J.field j "time")
  let omitSwaps ← J.bool (J.fieldD j "omit" (Json.bool false))
  let res := simulate perm r order nSteps (List.range n) time
  .ok (J.obj [("leaves", J.ofList (fun (l : Leaf) => Json.arr #[J.ofRat l.time, J.ofNatList l.qubits]) res.1),
              ("final", J.ofNatList res.2),
              ("finish_swaps", Json.bool (finishSwaps nSteps omitSwaps))])

def parseMat (j : Json) : Except String (Nat → Nat → Rat) := do
  let m ← J.listOf (J.listOf J.rat) j
  .ok fun p q => (m.getD p []).getD q 0

def lsn (j : Json) : Except String Json := do
  let sym ← J.bool (← J.field j "sym")
  let n ← J.nat (← J.field j "n")
  let tre ← parseMat (← J.field j "Tre")
  let tim ← parseMat (← J.field j "Tim")
  let v ← parseMat (← J.field j "V")
  let l := if sym then lsnSymStep n tre tim v else lsnAsymStep n tre tim v
  .ok (J.ofList (fun (e : GenEntry) =>
    Json.arr #[J.ofNat e.1, J.ofNat e.2.1, J.ofNat e.2.2.1, J.ofNat e.2.2.2.1, J.ofRat e.2.2.2.2]) l)

def handle (op : String) (j : Json) : Option (Except String Json) :=
  match op with
  | "c15.simulate" => some (simulateH j)
  | "c15.lsn" => some (lsn j)
  | _ => none

end C15
end Handlers
end OFV
