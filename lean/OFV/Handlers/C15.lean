/- Line-protocol handlers for C15 (Trotter simulation circuits). -/
import OFV.Core.Json
import OFV.Model.C15

namespace OFV
namespace Handlers
namespace C15
open Lean Model.C15

def parseRatios (j : Json) : Except String (Nat → Rat) := do
  let l ← J.listOf (fun e => do
    let a ← J.arr e
    match a with
    | [k, v] => do .ok ((← J.nat k), (← J.rat v))
    | _ => .error "bad ratio entry") j
  .ok fun k => match l.find? (fun e => e.1 == k) with
    | some e => e.2
    | none => 0

def simulateH (j : Json) : Except String Json := do
  let permName ← J.str (← J.field j "perm")
  let perm : List Nat → List Nat := if permName == "reversal" then reversal else id
  let r ← parseRatios (← J.field j "r")
  let order ← J.nat (← J.field j "order")
  let nSteps ← J.nat (← J.field j "nsteps")
  let n ← J.nat (← J.field j "n")
  let time ← J.rat (← J.field j "time")
  let omitSwaps ← J.bool (J.fieldD j "omit" (Json.bool false))
  let res := simulate perm r order nSteps (List.range n) time
  .ok (J.obj [("leaves", J.ofList (fun (l : Leaf) => Json.arr #[J.ofRat l.time, J.ofNatList l.qubits]) res.1),
              ("final", J.ofNatList res.2),
              ("finish_swaps", Json.bool (finishSwaps nSteps omitSwaps))])

def parseMat (j : Json) : Except String (Nat → Nat → Rat) := do
  let m ← J.listOf (J.listOf J.rat) j
  .ok fun p q => (m.getD p []).getD q 0

def lsn (j : Json) : Except String Json := do
  let sym ← J.bool (← J.field j "sym")
  let n ← J.nat (← J.field j "n")
  let tre ← parseMat (← J.field j "Tre")
  let tim ← parseMat (← J.field j "Tim")
  let v ← parseMat (← J.field j "V")
  let l := if sym then lsnSymStep n tre tim v else lsnAsymStep n tre tim v
  .ok (J.ofList (fun (e : GenEntry) =>
    Json.arr #[J.ofNat e.1, J.ofNat e.2.1, J.ofNat e.2.2.1, J.ofNat e.2.2.2.1, J.ofRat e.2.2.2.2]) l)

def ofEntries (l : List GenEntry) : Json :=
  J.ofList (fun (e : GenEntry) =>
    Json.arr #[J.ofNat e.1, J.ofNat e.2.1, J.ofNat e.2.2.1, J.ofNat e.2.2.2.1, J.ofRat e.2.2.2.2]) l

def parseVec (j : Json) : Except String (Nat → Rat) := do
  let v ← J.listOf J.rat j
  .ok fun i => v.getD i 0

/-- `c15.step`: generator list of one step of a step class -/
def stepH (j : Json) : Except String Json := do
  let kind ← J.str (← J.field j "kind")
  let n ← J.nat (← J.field j "n")
  let zeroM : Json := Json.arr #[]
  let tre ← parseMat (J.fieldD j "Tre" zeroM)
  let tim ← parseMat (J.fieldD j "Tim" zeroM)
  let v ← parseMat (J.fieldD j "V" zeroM)
  let e ← parseVec (J.fieldD j "E" zeroM)
  let const ← J.rat (J.fieldD j "const" (J.ofNat 0))
  match kind with
  | "lsn-asym" => .ok (ofEntries (lsnAsymStep n tre tim v))
  | "lsn-sym" => .ok (ofEntries (lsnSymStep n tre tim v))
  | "lsn-asym-controlled" => .ok (ofEntries (lsnAsymStepControlled n tre tim v const))
  | "lsn-sym-controlled" => .ok (ofEntries (lsnSymStepControlled n tre tim v const))
  | "so-asym" => .ok (ofEntries (soAsymStep n v e))
  | "so-sym" => .ok (ofEntries (soSymStep n v e))
  | "lr" => do
    let cs ← J.listOf parseMat (← J.field j "cs")
    .ok (J.obj [("entries", ofEntries (lrStep n e cs)), ("reverses", Json.bool (lrReverses cs))])
  | s => .error s!"unknown step kind {s}"

def handle (op : String) (j : Json) : Option (Except String Json) :=
  match op with
  | "c15.simulate" => some (simulateH j)
  | "c15.lsn" => some (lsn j)
  | "c15.step" => some (stepH j)
  | _ => none

end C15
end Handlers
end OFV
