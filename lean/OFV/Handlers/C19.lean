/- Line-protocol handlers for C19 (LCU tables and cost arithmetic): Model functions and Spec oracles. -/
import OFV.Core.Json
import OFV.Model.C19
import OFV.Model.C19Cost
import OFV.Model.C19Phys
import OFV.Spec.C19
import OFV.Model.C04
import OFV.Generated.Tables

namespace OFV
namespace Handlers
namespace C19
open Lean Model.C19

def rats := J.listOf J.rat
def ratMat := J.listOf rats
def ratT4 := J.listOf (J.listOf ratMat)

def ofOpt {α} (f : α → Json) : Option α → Json
  | none => Json.null
  | some x => f x

def ofCosts (c : Costs) : Json := J.ofIntList [c.step, c.total, c.ancilla]

def handle (op : String) (j : Json) : Option (Except String Json) :=
  match op with
  | "c19.discretize" => some do
      let p ← rats (← J.field j "probs"); let e ← J.rat (← J.field j "eps")
      .ok (ofOpt (fun (r : List Int × Nat × Nat) =>
        J.obj [("numers", J.ofIntList r.1), ("denom", J.ofNat r.2.1), ("mu", J.ofNat r.2.2)]) (discretize p e))
  | "c19.roulette" => some do
      let ws ← J.intList (← J.field j "ws")
      match roulette ws with
      | .ok (a, k) => .ok (J.obj [("alt", J.ofNatList a), ("keep", J.ofIntList k)])
      | .error e => .ok (J.obj [("error", Json.str e)])
  | "c19.preprocess" => some do
      let p ← rats (← J.field j "coeffs"); let e ← J.rat (← J.field j "eps")
      match preprocessLCU p e with
      | .ok (a, k, mu) => .ok (J.obj [("alt", J.ofNatList a), ("keep", J.ofIntList k), ("mu", J.ofNat mu)])
      | .error e => .ok (J.obj [("error", Json.str e)])
  | "c19.lambda_norm" => some do
      .ok (J.ofRat (lambdaNorm (← ratMat (← J.field j "one")) (← ratMat (← J.field j "two"))))
  | "c19.spec.dch_pauli_norm" => some do
      -- the Model of jordan_wigner(DiagonalCoulombHamiltonian) on the same real matrices: was the run exact
      -- (hypothesis of lambda_norm_spec), are the non-identity coefficients real, and their 1-norm
      let T ← ratMat (← J.field j "one"); let V ← ratMat (← J.field j "two")
      let c ← J.gq (← J.field j "const")
      let n := T.length
      let one := Spec.C19.flatReal n T
      let two := Spec.C19.flatReal n V
      let img := Model.C04.jwDCH Generated.eqTolerance n c one two
      .ok (J.obj [("ok", Json.bool (Model.C04.jwDCHOk Generated.eqTolerance n c one two)),
                  ("real", Json.bool (img.all fun tc => tc.1 == [] || tc.2.im == 0)),
                  ("norm", J.ofRat (Spec.C19.pauliListNorm img false))])
  | "c19.spec.mol_op" => some do
      -- the Spec operator of get_one_norm_int (compared by the harness with its own construction)
      let h ← ratMat (← J.field j "h"); let g ← ratT4 (← J.field j "g")
      .ok (J.ofOp (Spec.C19.molOp h.length (← J.rat (← J.field j "const")) h g))
  | "c19.spec.identity_coef" => some do
      -- Tr(H) over all Fock states of the molecular Hamiltonian (one_norm_identity_coefficient)
      let h ← ratMat (← J.field j "h"); let g ← ratT4 (← J.field j "g")
      let n := h.length
      let cols := (List.range (2 ^ (2 * n))).map (Spec.applyF (Spec.C19.molOp n (← J.rat (← J.field j "const")) h g))
      .ok (J.ofGQ (Spec.C19.pauliTrace (2 * n) cols 0 0))
  | "c19.spec.mol_coulomb" => some do
      -- one_norm_spec_partial: exact-run flag of the Model Jordan-Wigner transform on the spin-orbital matrices and
      -- the 1-norm of its non-identity strings
      let h ← ratMat (← J.field j "h"); let g ← ratT4 (← J.field j "g")
      let n := h.length
      let c : GQ := ⟨← J.rat (← J.field j "const"), 0⟩
      let one := Spec.C19.flatReal (2 * n) (Spec.C19.spinOne n h)
      let two := Spec.C19.flatReal (2 * n) (Spec.C19.spinCoulomb n g)
      let img := Model.C04.jwDCH Generated.eqTolerance (2 * n) c one two
      .ok (J.obj [("ok", Json.bool (Model.C04.jwDCHOk Generated.eqTolerance (2 * n) c one two)),
                  ("norm", J.ofRat (Spec.C19.pauliListNorm img false))])
  | "c19.phys.dims" => some do
      let d := autocczDims (← J.nat (← J.field j "l1")) (← J.nat (← J.field j "l2"))
      .ok (Json.arr #[J.ofNat d.1, J.ofNat d.2.1, J.ofRat d.2.2])
  | "c19.phys.factories" => some do
      .ok (J.ofList (fun (f : Factory) => Json.arr #[J.ofNat f.1, J.ofRat f.2]) knownFactories)
  | "c19.phys.select" => some do
      let nq ← J.nat (← J.field j "nq"); let nt ← J.nat (← J.field j "nt")
      let feas ← J.listOf J.bool (← J.field j "feasible")
      let withT ← match J.fieldD j "with_t" (Json.bool true) with
        | Json.bool bb => .ok bb
        | _ => .error "with_t: expected a Boolean"
      let cands := candidatesFor withT nq nt
      .ok (J.obj [("cands", J.ofList (fun (c : Nat × Nat) => J.ofNatList [c.1, c.2]) cands),
                  ("best", ofOpt (fun (b : Nat × Nat × Nat) => J.ofNatList [b.1, b.2.1, b.2.2]) (selectBest cands feas))])
  | "c19.phys.estimate" => some do
      -- one direct AlgorithmParameters(...).estimate_cost call: factory given by (l1, l2) or the T factory (l1 = 0)
      let l1 ← J.nat (← J.field j "l1"); let l2 ← J.nat (← J.field j "l2")
      let f : Factory := if l1 = 0 then tFactory else autocczFactory l1 l2
      let r := estimateCostG (← J.nat (← J.field j "nq")) (← J.nat (← J.field j "nt")) (← J.nat (← J.field j "dist")) f
        (← J.rat (← J.field j "routing")) (← J.nat (← J.field j "fcount"))
      .ok (J.ofNatList [r.1, r.2])
  | "c19.spec.select" => some do
      let cands ← J.listOf (fun c => do let l ← J.natList c; .ok (l.getD 0 0, l.getD 1 0)) (← J.field j "cands")
      let feas ← J.listOf J.bool (← J.field j "feasible")
      let res : Option (Nat × Nat × Nat) ← match (← J.field j "res") with
        | Json.null => .ok none
        | r => do let l ← J.natList r; .ok (some (l.getD 0 0, l.getD 1 0, l.getD 2 0))
      .ok (Json.bool (Spec.C19.selectOk cands feas res))
  | "c19.one_norm" => some do
      let h ← ratMat (← J.field j "h"); let g ← ratT4 (← J.field j "g")
      if (← J.bool (← J.field j "woconst")) then .ok (J.ofRat (oneNormWoConst h g))
      else .ok (J.ofRat (oneNorm (← J.rat (← J.field j "const")) h g))
  | "c19.qr" => some do
      .ok (ofOpt (fun (r : Nat × Nat) => J.ofNatList [r.1, r.2]) (qr (← J.nat (← J.field j "L")) (← J.nat (← J.field j "M"))))
  | "c19.qi" => some do
      .ok (ofOpt (fun (r : Nat × Nat) => J.ofNatList [r.1, r.2]) (qi (← J.nat (← J.field j "L"))))
  | "c19.qr2" => some do
      let r := qr2 (← J.nat (← J.field j "L1")) (← J.nat (← J.field j "L2")) (← J.nat (← J.field j "M"))
      .ok (J.ofNatList [r.1, r.2.1, r.2.2])
  | "c19.qi2" => some do
      let r := qi2 (← J.nat (← J.field j "L1")) (← J.nat (← J.field j "L2"))
      .ok (J.ofNatList [r.1, r.2.1, r.2.2])
  | "c19.power_two" => some do .ok (J.ofNat (powerTwo (← J.nat (← J.field j "m"))))
  | "c19.iters" => some do
      .ok (ofOpt J.ofNat (iters (← J.rat (← J.field j "lam")) (← J.rat (← J.field j "dE"))))
  | "c19.thc" => some do
      .ok (ofOpt ofCosts (thcCost (← J.nat (← J.field j "n")) (← J.rat (← J.field j "lam")) (← J.rat (← J.field j "dE"))
        (← J.nat (← J.field j "chi")) (← J.nat (← J.field j "beta")) (← J.nat (← J.field j "M")) (← J.nat (← J.field j "br"))))
  | "c19.sparse" => some do
      .ok (ofOpt ofCosts (sparseCost (← J.nat (← J.field j "n")) (← J.rat (← J.field j "lam")) (← J.nat (← J.field j "d"))
        (← J.rat (← J.field j "dE")) (← J.nat (← J.field j "chi")) (← J.nat (← J.field j "br"))))
  -- Spec oracles
  | "c19.spec.alias" => some do
      .ok (Json.bool (Spec.C19.aliasOk (← J.intList (← J.field j "ws")) (← J.natList (← J.field j "alt"))
        (← J.intList (← J.field j "keep"))))
  | "c19.spec.discretize" => some do
      .ok (Json.bool (Spec.C19.discretizeOk (← rats (← J.field j "probs")) (← J.rat (← J.field j "eps"))
        (← J.intList (← J.field j "numers")) (← J.nat (← J.field j "denom")) (← J.nat (← J.field j "mu"))))
  | "c19.spec.lcu" => some do
      .ok (Json.bool (Spec.C19.lcuOk (← rats (← J.field j "coeffs")) (← J.rat (← J.field j "eps"))
        (← J.natList (← J.field j "alt")) (← J.intList (← J.field j "keep")) (← J.nat (← J.field j "mu"))))
  | "c19.spec.jw_norm" => some do
      let o ← J.op (← J.field j "operator")
      .ok (ofOpt J.ofRat (Spec.C19.jwOneNorm (← J.nat (← J.field j "n")) o (← J.bool (← J.field j "with_id"))))
  | "c19.spec.qr" => some do
      .ok (Json.bool (Spec.C19.qrOk (← J.nat (← J.field j "L")) (← J.nat (← J.field j "M")) (← J.nat (← J.field j "k"))
        (← J.nat (← J.field j "val")) (← J.nat (← J.field j "bound"))))
  | "c19.spec.qi" => some do
      .ok (Json.bool (Spec.C19.qiOk (← J.nat (← J.field j "L")) (← J.nat (← J.field j "k"))
        (← J.nat (← J.field j "val")) (← J.nat (← J.field j "bound"))))
  | "c19.spec.grid2" => some do
      let l1 ← J.nat (← J.field j "L1"); let l2 ← J.nat (← J.field j "L2")
      let p1 ← J.nat (← J.field j "p1"); let p2 ← J.nat (← J.field j "p2"); let v ← J.nat (← J.field j "val")
      match (← J.str (← J.field j "kind")) with
      | "qr2" => do
        let m ← J.nat (← J.field j "M")
        .ok (Json.bool (Spec.C19.grid2Ok (Spec.C19.qr2Value l1 l2 m) p1 p2 v))
      | _ => .ok (Json.bool (Spec.C19.grid2Ok (Spec.C19.qi2Value l1 l2) p1 p2 v))
  | "c19.spec.power_two" => some do
      .ok (Json.bool (Spec.C19.powerTwoOk (← J.nat (← J.field j "m")) (← J.nat (← J.field j "c"))))
  | _ => none

end C19
end Handlers
end OFV
