/- Line-protocol handlers shared by all properties (Spec oracle access). -/
import OFV.Core.Json
import OFV.Spec.Expr

namespace OFV
namespace Handlers
open Lean Spec

def parseAlg (j : Json) : Except String Alg := do
  match j with
  | .str "qubit" => .ok .qubit
  | .str "ising" => .ok .qubit
  | .str "fermion" => .ok .fermion
  | .str "majorana" => .ok .majorana
  | .str "boson" => .ok .boson
  | .arr a =>
    if a.size == 2 then do
      let h ← J.gq a[1]!
      .ok (.quad h)
    else .error "bad alg"
  | _ => .error s!"bad alg {j.compress}"

partial def parseExpr (j : Json) : Except String Expr := do
  let a ← J.arr j
  match a with
  | [.str "leaf", o] => do .ok (.leaf (← J.op o))
  | [.str "add", x, y] => do .ok (.add (← parseExpr x) (← parseExpr y))
  | [.str "sub", x, y] => do .ok (.sub (← parseExpr x) (← parseExpr y))
  | [.str "mul", x, y] => do .ok (.mul (← parseExpr x) (← parseExpr y))
  | [.str "smul", c, x] => do .ok (.smul (← J.gq c) (← parseExpr x))
  | [.str "pow", x, k] => do .ok (.pow (← parseExpr x) (← J.nat k))
  | _ => .error s!"bad expr {j.compress}"

def ofGV (v : GV) : Json := J.ofList (fun (e, c) => Json.arr #[J.ofNatList e, J.ofGQ c]) v

/-- `spec.eq`: do two expressions denote the same linear map?  -/
def specEq (j : Json) : Except String Json := do
  let alg ← parseAlg (← J.field j "alg")
  let n ← J.nat (← J.field j "n")
  let d ← J.nat (J.fieldD j "d" (J.ofNat 0))
  let l ← parseExpr (← J.field j "lhs")
  let r ← parseExpr (← J.field j "rhs")
  match firstDiffExpr alg n d l r with
  | none => .ok (J.obj [("eq", Json.bool true)])
  | some (s, a, b) => .ok (J.obj [("eq", Json.bool false), ("state", J.ofNatList s),
      ("lhs", ofGV a), ("rhs", ofGV b)])

/-- `spec.apply`: image of one basis state -/
def specApply (j : Json) : Except String Json := do
  let alg ← parseAlg (← J.field j "alg")
  let e ← parseExpr (← J.field j "expr")
  let s ← J.natList (← J.field j "state")
  .ok (ofGV (GV.nonzero (e.apply alg [(s, 1)])))

def handle (op : String) (j : Json) : Option (Except String Json) :=
  match op with
  | "spec.eq" => some (specEq j)
  | "spec.apply" => some (specApply j)
  | "ping" => some (.ok (Json.str "pong"))
  | _ => none

end Handlers
end OFV
