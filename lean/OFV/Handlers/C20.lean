/- Line-protocol handlers for C20 (text and file round trips). -/
import OFV.Core.Json
import OFV.Model.C20
import OFV.Model.C20Files
import OFV.Model.C20Mol

namespace OFV
namespace Handlers
namespace C20
open Lean Model Model.C20

def tol : Rat := Generated.eqTolerance

def parseCls (j : Json) : Except String Cls := do
  match (← J.str j) with
  | "fermion" => .ok .fermion
  | "qubit" => .ok .qubit
  | "boson" => .ok .boson
  | "quad" => .ok .quad
  | s => .error s!"bad class {s}"

def clsName : Cls → String
  | .fermion => "fermion" | .qubit => "qubit" | .boson => "boson" | .quad => "quad" | .ising => "ising"

def strOf (j : Json) : Except String Str := do .ok (← J.str j).toList
def ofStr (s : Str) : Json := Json.str (String.ofList s)

/-- `[[term, gq, text], …]` -/
def entries (j : Json) : Except String (List Entry) := do
  (← J.arr j).mapM fun e => do
    match (← J.arr e) with
    | [t, c, s] => .ok (← J.term t, ← J.gq c, ← strOf s)
    | _ => .error "bad entry"

def table (j : Json) : Except String (List (Str × GQ)) := do
  (← J.arr j).mapM fun e => do
    match (← J.arr e) with
    | [s, c] => .ok (← strOf s, ← J.gq c)
    | _ => .error "bad table entry"

def numTables (j : Json) : Except String NumTables := do
  .ok ⟨← table (J.fieldD j "floats" (Json.arr #[])), ← table (J.fieldD j "complexes" (Json.arr #[]))⟩

def errName : Err → String
  | .noFileName => "OperatorUtilsError:no-name"
  | .fileExists => "OperatorUtilsError:exists"
  | .fileNotFound => "FileNotFoundError"
  | .badFormat => "bad-format"
  | .typeError => "TypeError"
  | .valueError => "ValueError"

def ofResult (r : Option Op) : Json :=
  match r with
  | some o => J.obj [("ok", J.ofOp o)]
  | none => J.obj [("error", Json.str "ValueError")]

/-- one step of a file history -/
def step (nt : NumTables) (fs : FS) (j : Json) : Except String (FS × Json) := do
  let a ← J.arr j
  match a with
  | [.str "save", cls, ents, name, dir, ow, plain] => do
    match save tol fs (← parseCls cls) (← entries ents) (← strOf name) (← strOf dir) (← J.bool ow) (← J.bool plain) with
    | .ok fs' => .ok (fs', J.obj [("ok", Json.null)])
    | .error e => .ok (fs, J.obj [("error", Json.str (errName e))])
  | [.str "load", name, dir, plain] => do
    match load tol nt fs (← strOf name) (← strOf dir) (← J.bool plain) with
    | .ok (cls, o) => .ok (fs, J.obj [("ok", J.ofOp o), ("cls", Json.str (clsName cls))])
    | .error e => .ok (fs, J.obj [("error", Json.str (errName e))])
  | _ => .error s!"bad history step {j.compress}"

def attrOf (j : Json) : Except String AttrVal :=
  match j with
  | .null => .ok .none
  | _ =>
    match j.getObjVal? "bool", j.getObjVal? "int", j.getObjVal? "real" with
    | .ok b, _, _ => do .ok (.bool (← J.bool b))
    | _, .ok z, _ => do .ok (.int (← J.int z))
    | _, _, .ok q => do .ok (.real (← J.rat q))
    | _, _, _ => .error "bad attribute value"

def ofAttr : AttrVal → Json
  | .none => Json.null
  | .bool b => J.obj [("bool", Json.bool b)]
  | .int z => J.obj [("int", J.ofInt z)]
  | .real q => J.obj [("real", J.ofRat q)]
  | .arr l => J.obj [("arr", J.ofList J.ofRat l)]

def handle (op : String) (j : Json) : Option (Except String Json) :=
  match op with
  | "c20.print" => some do
      .ok (ofStr (printOp (← parseCls (← J.field j "cls")) tol (← entries (← J.field j "entries"))))
  | "c20.print_term" => some do
      .ok (ofStr (printTerm (← parseCls (← J.field j "cls")) (← J.term (← J.field j "term"))))
  | "c20.num_requests" => some do
      let s ← strOf (← J.field j "s")
      .ok (J.ofList (fun (c, t) => Json.arr #[Json.bool c, ofStr t]) (numRequests s))
  | "c20.parse" => some do
      .ok (ofResult (initFromString (← parseCls (← J.field j "cls")) (← numTables j) (← strOf (← J.field j "s"))))
  | "c20.attr" => some do
      .ok (ofAttr (decodeAttr (← J.nat (← J.field j "kind")) (encodeAttr (← attrOf (← J.field j "value")))))
  | "c20.float_int_model" => some do
      match floatIntModel (← strOf (← J.field j "s")) with
      | some v => .ok (J.ofGQ v)
      | none => .ok Json.null
  | "c20.find_terms" => some do
      .ok (J.ofList (fun (a, b) => Json.arr #[ofStr a, ofStr b]) (findTerms (← strOf (← J.field j "s"))))
  | "c20.file_path" => some do
      match getFilePath (← strOf (← J.field j "name")) (← strOf (← J.field j "dir")) with
      | .ok p => .ok (ofStr p)
      | .error e => .ok (J.obj [("error", Json.str (errName e))])
  | "c20.history" => some do
      let nt ← numTables j
      let steps ← J.arr (← J.field j "steps")
      let (_, outs) ← steps.foldlM (fun (acc : FS × List Json) st => do
        let (fs', r) ← step nt acc.1 st
        let listing := J.ofList ofStr (fs'.map (·.1))
        .ok (fs', Json.arr #[r, listing] :: acc.2)) (([] : FS), [])
      .ok (Json.arr outs.reverse.toArray)
  | _ => none

end C20
end Handlers
end OFV
