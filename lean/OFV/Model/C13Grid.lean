/-
C13 — Model of `utils/grid.py` index arithmetic and of the *index structure* of the jellium
generators (`hamiltonians/jellium.py`).  Coefficients that involve π / cos are not computed
here: the plane-wave generators return exact rational multiples of a unit the harness
multiplies in (`(π/s)²` for the kinetic term, `s²/(πV)` for the potential term, cubic cell of
side `s`, volume `V`), the dual-basis generator returns, for every key, the grid displacement
`δ` whose kinetic / potential coefficient `K(δ)`, `P(δ)` the harness evaluates independently.
Executable, import-free.
-/
import OFV.Model.Symbolic

namespace OFV
namespace Model
namespace C13

/-- `int(numpy.prod(self.length[:d]))` -/
def prodTake (length : List Nat) (d : Nat) : Nat := (length.take d).foldl (· * ·) 1

/-- the loop of `Grid.orbital_id`: `tensor_factor += coordinate * prod(length[:dimension])` -/
def tensorFactor (length coords : List Nat) : Nat :=
  (coords.zipIdx).foldl (fun acc (c, d) => acc + c * prodTake length d) 0

/-- `Grid.orbital_id(grid_coordinates, spin)` (`spin = none`: spinless) -/
def orbitalId (length coords : List Nat) (spin : Option Nat) : Nat :=
  match spin with
  | none => tensorFactor length coords
  | some s => 2 * tensorFactor length coords + s

/-- the check `grid_coordinate < self.length[dimension]` of every coordinate -/
def validCoords (length coords : List Nat) : Bool :=
  (coords.zipIdx).all fun (c, d) => decide (c < length.getD d 0)

/-- `Grid.grid_indices(qubit_id, spinless)` -/
def gridIndices (length : List Nat) (qubit : Nat) (spinless : Bool) : List Nat :=
  let o := if spinless then qubit else qubit / 2
  (List.range length.length).map fun d => (o % prodTake length (d + 1)) / prodTake length d

/-- `Grid.all_points_indices()` = `itertools.product(range(length[0]), …)` (last index fastest) -/
def allPoints : List Nat → List (List Nat)
  | [] => [[]]
  | l :: ls => (List.range l).flatMap fun i => (allPoints ls).map fun r => i :: r

/-- `index_to_momentum_ints`: `index[i] - length[i] // 2` -/
def momentumInts (length idx : List Nat) : List Int :=
  (idx.zip length).map fun (i, l) => (i : Int) - ((l / 2 : Nat) : Int)

def normSqInts (n : List Int) : Int := n.foldl (fun a k => a + k * k) 0

def spins (spinless : Bool) : List (Option Nat) := if spinless then [none] else [some 0, some 1]

def ratOp (q : Rat) : GQ := ⟨q, 0⟩

/-- `plane_wave_kinetic(grid, spinless, e_cutoff=None)` in units of `(π/s)²`:
coefficient `k²/2 = (2π/s)² |n|² / 2 = 2 |n|² (π/s)²`; zero coefficients are deleted by `+=` -/
def planeWaveKinetic (length : List Nat) (spinless : Bool) : Op :=
  (allPoints length).foldl (fun op idx =>
    let q : Int := 2 * normSqInts (momentumInts length idx)
    (spins spinless).foldl (fun op sp =>
      let o := orbitalId length idx sp
      if q = 0 then op else accum op [(o, 1), (o, 0)] (ratOp q)) op) []

/-- `(b[i] ± shifted_omega[i]) % length[i]` -/
def shiftIdx (length idx : List Nat) (sh : List Int) (plus : Bool) : List Nat :=
  ((idx.zip sh).zip length).map fun ((i, s), l) =>
    (((i : Int) + (if plus then s else -s)) % (l : Int)).toNat

/-- `plane_wave_potential(grid, spinless)` (periodic, no cutoffs) in units of `s²/(π V)`:
coefficient `(2π/V) / k² = 1/(2|n|²) · s²/(πV)`.  The result starts as
`FermionOperator((), 0.0)`. -/
def planeWavePotential (length : List Nat) (spinless : Bool) : Op :=
  let pts := allPoints length
  pts.foldl (fun op om =>
    let sh := momentumInts length om
    let n2 := normSqInts sh
    if n2 = 0 then op else
    let q : Rat := mkRat 1 (2 * n2.toNat)
    pts.foldl (fun op ga =>
      let gd := shiftIdx length ga sh false
      pts.foldl (fun op gb =>
        let gc := shiftIdx length gb sh true
        (spins spinless).foldl (fun op sa =>
          let oa := orbitalId length ga sa
          let od := orbitalId length gd sa
          (spins spinless).foldl (fun op sb =>
            let ob := orbitalId length gb sb
            let oc := orbitalId length gc sb
            if oa ≠ ob ∧ oc ≠ od then accum op [(oa, 1), (ob, 1), (oc, 0), (od, 0)] (ratOp q)
            else op) op) op) op) op) [([], 0)]

/-- index structure of `plane_wave_kinetic` for an arbitrary cell: every
`operator += FermionOperator(key, k²/2)` as `(key, n)` with `n` the integer momentum
(`k = Σ n_i b_i`, `b_i` the reciprocal basis) -/
def planeWaveKineticStruct (length : List Nat) (spinless : Bool) : List (Term × List Int) :=
  (allPoints length).flatMap fun idx =>
    (spins spinless).map fun sp =>
      let o := orbitalId length idx sp
      ([(o, 1), (o, 0)], momentumInts length idx)

/-- index structure of `plane_wave_potential` for an arbitrary cell: `(key, n(ω))` for every
`operator += FermionOperator(key, (2π/V)/k_ω²)` (the zero momentum is skipped by the code) -/
def planeWavePotentialStruct (length : List Nat) (spinless : Bool) : List (Term × List Int) :=
  let pts := allPoints length
  pts.flatMap fun om =>
    let sh := momentumInts length om
    if normSqInts sh = 0 then [] else
    pts.flatMap fun ga =>
      let gd := shiftIdx length ga sh false
      pts.flatMap fun gb =>
        let gc := shiftIdx length gb sh true
        (spins spinless).flatMap fun sa =>
          let oa := orbitalId length ga sa
          let od := orbitalId length gd sa
          (spins spinless).filterMap fun sb =>
            let ob := orbitalId length gb sb
            let oc := orbitalId length gc sb
            if oa ≠ ob ∧ oc ≠ od then some ([(oa, 1), (ob, 1), (oc, 0), (od, 0)], sh) else none

/-- index structure of `dual_basis_jellium_model`: every `operator += FermionOperator(key, coeff)`
as `(key, kind, δ)` with `kind = 0`: kinetic coefficient `K(δ)`, `kind = 1`: potential
coefficient `P(δ)`, `δ` = grid indices of the site `b` the outer loop is at -/
def dualBasisStructure (length : List Nat) (spinless kinetic potential : Bool) :
    List (Term × Nat × List Nat) :=
  let pts := allPoints length
  let origin := length.map fun _ => (0 : Nat)
  pts.flatMap fun gb =>
    pts.flatMap fun shift =>
      let i1 := ((origin.zip shift).zip length).map fun ((o, s), l) => (o + s) % l
      let i2 := ((gb.zip shift).zip length).map fun ((o, s), l) => (o + s) % l
      let kin := if kinetic then
          (spins spinless).map fun sp =>
            ([(orbitalId length i1 sp, 1), (orbitalId length i2 sp, 0)], 0, gb)
        else []
      let pot := if potential then
          (spins spinless).flatMap fun sa => (spins spinless).filterMap fun sb =>
            let oa := orbitalId length i1 sa
            let ob := orbitalId length i2 sb
            if oa = ob then none else some ([(oa, 1), (oa, 0), (ob, 1), (ob, 0)], 1, gb)
        else []
      kin ++ pot

end C13
end Model
end OFV
