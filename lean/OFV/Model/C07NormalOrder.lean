/-
C07 — Model of `normal_ordered` for FermionOperators
(transforms/opconversions/term_reordering.py: `normal_ordered`,
`normal_ordered_ladder_term` with parity = -1) and of
`double_commutator` (utils/commutators.py) including the hopping shortcut.
Import-free.
-/
import OFV.Model.C07

namespace OFV
namespace Model
namespace C07

/-- loop state of `normal_ordered_ladder_term`: the mutable `term` list, the running
`coefficient`, the accumulated `ordered_term`, and whether the early `return` fired -/
structure NOState where
  term : Term
  coeff : GQ
  acc : Op
  done : Bool

/-- body of the inner loop for one `j` (`rec` = the recursive call on a shorter term) -/
def noStep (tol : Rat) (rec : Term → GQ → Op) (st : NOState) (j : Nat) : NOState :=
  if st.done then st else
  let r := st.term.getD j (0, 0)
  let l := st.term.getD (j - 1) (0, 0)
  if r.2 != 0 && l.2 == 0 then
    -- raising on the right, lowering on the left: swap, `coefficient *= parity`
    let term' := (st.term.set (j - 1) r).set j l
    let coeff' := st.coeff * (-1)
    if r.1 == l.1 then
      let newTerm := term'.take (j - 1) ++ term'.drop (j + 1)
      { term := term', coeff := coeff', acc := iadd tol st.acc (rec newTerm ((-1) * coeff')), done := false }
    else
      { term := term', coeff := coeff', acc := st.acc, done := false }
  else if r.2 == l.2 then
    if r.1 == l.1 then { st with done := true }
    else if r.1 > l.1 then
      { term := (st.term.set (j - 1) r).set j l, coeff := st.coeff * (-1), acc := st.acc, done := false }
    else st
  else st

/-- `[(i, j) for i in range(1, n) for j in range(i, 0, -1)]`, only the `j`s matter -/
def noSchedule (n : Nat) : List Nat :=
  (List.range n).flatMap fun i => if i = 0 then [] else (List.range i).reverse.map (· + 1)

/-- `normal_ordered_ladder_term(term, coefficient, parity=-1)`; the recursion is on a
term shorter by two, so `fuel = len(term)` suffices -/
def noTerm (tol : Rat) : Nat → Term → GQ → Op
  | 0, t, c => mk .fermion t c
  | fuel + 1, t, c =>
    let st := (noSchedule t.length).foldl (noStep tol (noTerm tol fuel)) ⟨t, c, [], false⟩
    if st.done then st.acc else iadd tol st.acc (mk .fermion st.term st.coeff)

/-- `normal_ordered(FermionOperator)` -/
def normalOrdered (tol : Rat) (a : Op) : Op :=
  a.foldl (fun acc (t, c) => iadd tol acc (noTerm tol (t.length + 1) t c)) []

/-- `double_commutator(op1, op2, op3)` without term info -/
def doubleCommutator (tol : Rat) (a b c : Op) : Op :=
  let c23 := normalOrdered tol (commutator tol .fermion b c)
  normalOrdered tol (commutator tol .fermion a c23)

/-- `double_commutator(op1, op2, op3, indices2, indices3, True, True)`: the hopping
shortcut.  `i2`, `i3` are the index sets (lists without repetition of length 2). -/
def doubleCommutatorHopping (tol : Rat) (a b c : Op) (i2 i3 : List Nat) : Op :=
  match i2.filter i3.contains with
  | [x] =>
    let index2 := (i2.filter (· != x)).headD 0
    let index3 := (i3.filter (· != x)).headD 0
    let coeff2 := (b.headD ([], 0)).2
    let coeff3 := (c.headD ([], 0)).2
    let c23 := iadd tol (mk .fermion [(index2, 1), (index3, 0)] (coeff2 * coeff3))
                        (mk .fermion [(index3, 1), (index2, 0)] (-(coeff2 * coeff3)))
    normalOrdered tol (commutator tol .fermion a c23)
  | _ => []

end C07
end Model
end OFV
