/-
C07 — Model of `normal_ordered` for FermionOperators
(transforms/opconversions/term_reordering.py: `normal_ordered`,
`normal_ordered_ladder_term` with parity = -1) and of
`double_commutator` (utils/commutators.py) including the hopping shortcut.
Import-free.
-/
import OFV.Model.C07
import OFV.Model.C03

namespace OFV
namespace Model
namespace C07

/-- `normal_ordered(FermionOperator)`: the Model of transforms/opconversions/term_reordering.py
(`normal_ordered`, `normal_ordered_ladder_term` with parity = -1) is the one of property C03
(`OFV.Model.C03`, proved sound there); it is reused here so that the C03 theorems apply to
`double_commutator` and to the fallback of the diagonal-Coulomb commutator. -/
def normalOrdered (tol : Rat) (a : Op) : Op := OFV.Model.C03.normalOrdered tol .fermion a

/-- `double_commutator(op1, op2, op3)` without term info -/
def doubleCommutator (tol : Rat) (a b c : Op) : Op :=
  let c23 := normalOrdered tol (commutator tol .fermion b c)
  normalOrdered tol (commutator tol .fermion a c23)

/-- `double_commutator(op1, op2, op3, indices2, indices3, True, True)`: the hopping
shortcut.  `i2`, `i3` are the index sets (lists without repetition of length 2). -/
def doubleCommutatorHopping (tol : Rat) (a b c : Op) (i2 i3 : List Nat) : Op :=
  match i2.filter i3.contains with
  | [x] =>
    let index2 := (i2.filter (· != x)).headD 0
    let index3 := (i3.filter (· != x)).headD 0
    let coeff2 := (b.headD ([], 0)).2
    let coeff3 := (c.headD ([], 0)).2
    let c23 := iadd tol (mk .fermion [(index2, 1), (index3, 0)] (coeff2 * coeff3))
                        (mk .fermion [(index3, 1), (index2, 0)] (-(coeff2 * coeff3)))
    normalOrdered tol (commutator tol .fermion a c23)
  | _ => []

end C07
end Model
end OFV
