/-
C11 — executable Model of `openfermion/linalg/givens_rotations.py`.

Two layers:

* the *schedules* (pure index arithmetic): which matrix positions each parallel layer of
  `givens_decomposition_square`, `givens_decomposition` and
  `fermionic_gaussian_decomposition` visits (`squareLayer`, `givensLayer`, `gaussLayer`) and the
  positions of the two "left unitary" stages (`givensLeft`, `gaussLeft`);
* the *numeric* algorithms over Gaussian rationals with a partial square root
  (`qsqrt : Rat → Option Rat`; an irrational root makes the Model undefined on that input —
  the harness only keeps inputs on which it is defined).  Rotation parameters `(θ, φ)` are modelled
  as the triple `(sin θ, cos θ, e^{iφ})` through the contracts `sin (arcsin x) = x`,
  `cos (arcsin x) = √(1-x²)`, `e^{i·angle z} = z/|z|`, `angle(+0.0) = 0`, `angle(-0.0) = π`.

The numeric functions call the schedule functions, so the schedule theorems of
`OFV/Properties/C11.lean` are about the code path the driver executes.
Import-free (Lean core + OFV.Core + OFV.Generated).
-/
import OFV.Core.GQ
import OFV.Generated.Tables

namespace OFV
namespace Model
namespace C11

/-! ## Schedules -/

/-- Python `zip(range(sr, sr + len), range(sc, sc + 2*len, 2))` -/
def zipUp (sr sc len : Nat) : List (Nat × Nat) :=
  (List.range len).map fun t => (sr + t, sc + 2 * t)

/-- Python `zip(range(er, er - len, -1), range(ec, ec + 2*len, 2))` -/
def zipDown (er ec len : Nat) : List (Nat × Nat) :=
  (List.range len).map fun t => (er - t, ec + 2 * t)

/-- `len(range(a, b, 2))` -/
def rangeLen2 (a b : Nat) : Nat := (b - a + 1) / 2

/-- `range(2 * (n - 1) - 1)` of `givens_decomposition_square` -/
def squareDepth (n : Nat) : Nat := 2 * (n - 1) - 1

/-- positions `(i, j)` zeroed in parallel in iteration `k` of `givens_decomposition_square`
(each by a rotation of columns `j-1, j`) -/
def squareLayer (n k : Nat) : List (Nat × Nat) :=
  if k + 1 < n then
    -- start_row = 0, start_column = n - 1 - k
    zipUp 0 (n - 1 - k) (rangeLen2 (n - 1 - k) n)
  else
    -- start_row = k - (n - 2), start_column = k - (n - 3)
    zipUp (k + 2 - n) (k + 3 - n) (rangeLen2 (k + 3 - n) n)

/-- `range(n - 1)` of the second stage of `givens_decomposition` -/
def givensDepth (n : Nat) : Nat := n - 1

/-- positions zeroed in parallel in iteration `k` of the second stage of
`givens_decomposition` (`m < n`) -/
def givensLayer (m n k : Nat) : List (Nat × Nat) :=
  let ms := min m (n - m)
  if k + 1 < ms then
    zipUp 0 (n - m - k) (k + 1)
  else if k + ms > n - 1 then
    zipUp (m - (n - 1 - k)) (m - (n - 1 - k) + 1) (n - 1 - k)
  else if ms = m then
    zipUp 0 (n - m - k) m
  else
    zipUp (k + 1 - ms) (k + 1 - ms + 1) ms

/-- positions `(l, k)` visited by the left-unitary stage of `givens_decomposition`, in order
(`for k in reversed(range(n - m + 1, n)): for l in range(m - n + k)`) -/
def givensLeft (m n : Nat) : List (Nat × Nat) :=
  -- `reversed(range(n - m + 1, n))` = `n - 1 - t` for `t = 0, …, m - 2`
  (List.range (m - 1)).flatMap fun t => (List.range (m + (n - 1 - t) - n)).map fun l => (l, n - 1 - t)

/-- `range(2 * n - 1)` of `fermionic_gaussian_decomposition` -/
def gaussDepth (n : Nat) : Nat := 2 * n - 1

/-- positions `(i, j)` of the left block zeroed in iteration `k` of
`fermionic_gaussian_decomposition` (each by a double rotation of columns `j, j+1`) -/
def gaussLayer (n k : Nat) : List (Nat × Nat) :=
  if k < n then
    zipDown k (n - 1 - k) (rangeLen2 (n - 1 - k) (n - 1))
  else
    zipDown (n - 1) (k - (n - 1)) (rangeLen2 (k - (n - 1)) (n - 1))

/-- positions of the left-unitary stage of `fermionic_gaussian_decomposition`
(`for k in range(n - 1): for l in range(n - 1 - k)`) -/
def gaussLeft (n : Nat) : List (Nat × Nat) :=
  (List.range (n - 1)).flatMap fun k => (List.range (n - 1 - k)).map fun l => (l, k)

/-! ## Numbers: partial square roots -/

def isqrtAux (n : Nat) : Nat → Nat → Nat → Nat
  | 0, lo, _ => lo
  | f + 1, lo, hi =>
    if hi ≤ lo + 1 then lo
    else
      let mid := (lo + hi) / 2
      if mid * mid ≤ n then isqrtAux n f mid hi else isqrtAux n f lo mid

def isqrt (n : Nat) : Nat := isqrtAux n (n.log2 + 2) 0 (n + 1)

/-- exact rational square root of a non-negative rational, `none` when irrational or negative -/
def qsqrt (q : Rat) : Option Rat :=
  if q < 0 then none
  else
    let a := isqrt q.num.toNat
    let b := isqrt q.den
    if a * a = q.num.toNat ∧ b * b = q.den then some (mkRat a b) else none

def gabs (z : GQ) : Option Rat := qsqrt z.normSq

/-- the live `EQ_TOLERANCE` (the numeric functions take the tolerance as a parameter so that the
harness can re-run the Model with a scaled tolerance and keep only inputs whose branch tests are
decided with a margin) -/
def defaultTol : Rat := Generated.eqTolerance

/-- `abs(x) < EQ_TOLERANCE` -/
def small (tol : Rat) (x : GQ) : Bool := x.normSq < tol * tol
/-- `abs(x) > EQ_TOLERANCE` -/
def big (tol : Rat) (x : GQ) : Bool := x.normSq > tol * tol
/-- `abs(numpy.imag(phase)) < EQ_TOLERANCE`: the relative phase of the two entries is real (repair 7be94873; the
earlier code looked at the imaginary parts of `a` and `b` themselves) -/
def realPhase (tol : Rat) (ph : GQ) : Bool := ph.im * ph.im < tol * tol

def irr {α} : Except String α := .error "irrational"

def orIrr {α} (o : Option α) : Except String α :=
  match o with
  | some a => .ok a
  | none => irr

/-! ## `givens_matrix_elements` -/

/-- a 2×2 matrix; `negZero11` records that entry `[1,1]` is the float `-0.0` of a real array -/
structure G2 where
  g00 : GQ
  g01 : GQ
  g10 : GQ
  g11 : GQ
  negZero11 : Bool := false
deriving Repr

def G2.conj (G : G2) : G2 := ⟨G.g00.conj, G.g01.conj, G.g10.conj, G.g11.conj, false⟩

/-- the three branches computing `(cosine, sine, phase)` -/
def cosSinPhase (tol : Rat) (a b : GQ) : Except String (Rat × Rat × GQ) :=
  if small tol a then .ok (1, 0, 1)
  else if small tol b then .ok (0, 1, 1)
  else do
    let aa ← orIrr (gabs a)
    let ab ← orIrr (gabs b)
    let den ← orIrr (qsqrt (aa * aa + ab * ab))
    .ok (ab / den, aa / den, GQ.smul (1 / aa) a * (GQ.smul (1 / ab) b).conj)

/-- assemble the matrix from `(cosine, sine, phase)` (the four `which` / real-or-complex forms) -/
def assemble (right real : Bool) (c s : Rat) (ph : GQ) : G2 :=
  let c' := GQ.ofRat c
  let s' := GQ.ofRat s
  if !right then
    if real then ⟨c', -(ph * s'), ph * s', c', false⟩
    else ⟨c', -(ph * s'), s', ph * c', false⟩
  else
    if real then ⟨s', ph * c', -(ph * c'), s', false⟩
    else ⟨s', ph * c', c', -(ph * s'), s == 0⟩

/-- `givens_matrix_elements(a, b, which)`; `right = true` is `which='right'` -/
def givensElems (tol : Rat) (a b : GQ) (right : Bool) : Except String G2 := do
  let (c, s, ph) ← cosSinPhase tol a b
  -- `if abs(numpy.imag(phase)) < EQ_TOLERANCE: phase = numpy.real(phase)` and the standard rotation matrix
  .ok (assemble right (realPhase tol ph) c s (if realPhase tol ph then GQ.ofRat ph.re else ph))

/-- exact regime of the real / complex decision: an imaginary part of the relative phase that is below the
tolerance is exactly zero -/
def RealExact (tol : Rat) (a b : GQ) : Prop :=
  ∀ c s ph, cosSinPhase tol a b = .ok (c, s, ph) → realPhase tol ph = true → ph.im = 0

/-- executable form of `RealExact` -/
def realExactB (tol : Rat) (a b : GQ) : Bool :=
  match cosSinPhase tol a b with
  | .ok (_, _, ph) => !realPhase tol ph || decide (ph.im = 0)
  | .error _ => true

/-- `(sin θ, cos θ, e^{iφ})` for `θ = arcsin(Re G[1,0])`, `φ = angle(G[1,1])` -/
def params (G : G2) : Except String (Rat × Rat × GQ) := do
  let s := G.g10.re
  let c ← orIrr (qsqrt (1 - s * s))
  let e ← if G.g11 = 0 then .ok (if G.negZero11 then (-1 : GQ) else 1)
          else do
            let r ← orIrr (gabs G.g11)
            .ok (GQ.smul (1 / r) G.g11)
  .ok (s, c, e)

/-- the matrix `[[cos θ, -e^{iφ} sin θ], [sin θ, e^{iφ} cos θ]]` of the docstrings -/
def rotationOf (s c : Rat) (e : GQ) : G2 :=
  ⟨GQ.ofRat c, -(e * GQ.ofRat s), GQ.ofRat s, e * GQ.ofRat c, false⟩

/-! ## Matrices and the elementary updates -/

abbrev Mat := List (List GQ)

def Mat.get (M : Mat) (i j : Nat) : GQ := (M.getD i []).getD j 0

def Mat.identity (n : Nat) : Mat :=
  (List.range n).map fun i => (List.range n).map fun j => if i = j then (1 : GQ) else 0

def Mat.transpose (M : Mat) (ncols : Nat) : Mat :=
  (List.range ncols).map fun j => M.map fun row => row.getD j 0

/-- `givens_rotate(operator, G, i, j, which='row')` -/
def rotateRows (M : Mat) (G : G2) (i j : Nat) : Mat :=
  let ri := M.getD i []
  let rj := M.getD j []
  (M.set i (List.zipWith (fun x y => G.g00 * x + G.g01 * y) ri rj)).set j
    (List.zipWith (fun x y => G.g10 * x + G.g11 * y) ri rj)

/-- `givens_rotate(operator, G, i, j, which='col')` -/
def rotateCols (M : Mat) (G : G2) (i j : Nat) : Mat :=
  M.map fun row =>
    let ci := row.getD i 0
    let cj := row.getD j 0
    (row.set i (G.g00 * ci + G.g01.conj * cj)).set j (G.g10 * ci + G.g11.conj * cj)

/-- `double_givens_rotate(operator, G, i, j, which='col')` for an operator with `2n` columns -/
def doubleRotateCols (M : Mat) (G : G2) (n i j : Nat) : Mat :=
  rotateCols (rotateCols M G i j) G.conj (n + i) (n + j)

/-- `swap_columns(M, i, j)` -/
def swapCols (M : Mat) (i j : Nat) : Mat :=
  M.map fun row => (row.set i (row.getD j 0)).set j (row.getD i 0)

/-! ## The decompositions -/

/-- one Givens rotation `(i, j, θ, φ)` as `(i, j, sin θ, cos θ, e^{iφ})` -/
structure Rot where
  i : Nat
  j : Nat
  sin : Rat
  cos : Rat
  eiphi : GQ
deriving Repr

/-- inner loop of the column sweeps of `givens_decomposition(_square)`:
`for i, j in indices_to_zero_out` -/
def colLayer (tol : Rat) (ai : Bool) : List (Nat × Nat) → Mat → Except String (List Rot × Mat)
  | [], M => .ok ([], M)
  | (i, j) :: ps, M =>
    let right := (M.get i j).conj
    if ai || big tol right then do
      let left := (M.get i (j - 1)).conj
      let G ← givensElems tol left right true
      let (s, c, e) ← params G
      let (rs, M') ← colLayer tol ai ps (rotateCols M G (j - 1) j)
      .ok (⟨j - 1, j, s, c, e⟩ :: rs, M')
    else colLayer tol ai ps M

/-- outer loop `for k in range(depth)`; empty layers are not appended -/
def colSweep (tol : Rat) (layerOf : Nat → List (Nat × Nat)) (ai : Bool) :
    List Nat → Mat → Except String (List (List Rot) × Mat)
  | [], M => .ok ([], M)
  | k :: ks, M => do
    let (ops, M') ← colLayer tol ai (layerOf k) M
    let (ls, M'') ← colSweep tol layerOf ai ks M'
    .ok (if ops.isEmpty then ls else ops :: ls, M'')

def diagOf (M : Mat) (cnt off : Nat) : List GQ := (List.range cnt).map fun i => M.get i (off + i)

/-- `givens_decomposition_square(unitary_matrix, always_insert)` -/
def decompSquare (tol : Rat) (Q : Mat) (ai : Bool) : Except String (List (List Rot) × List GQ) := do
  let n := Q.length
  let (ls, M) ← colSweep tol (squareLayer n) ai (List.range (squareDepth n)) Q
  .ok (ls, diagOf M n 0)

/-- the left-unitary stages: zero `(l, k)` by rotating rows `l, l+1` of the matrix and of `V` -/
def leftStage (tol : Rat) : List (Nat × Nat) → Mat → Mat → Except String (Mat × Mat)
  | [], M, V => .ok (M, V)
  | (l, k) :: ps, M, V =>
    if big tol (M.get l k) then do
      let G ← givensElems tol (M.get l k) (M.get (l + 1) k) false
      leftStage tol ps (rotateRows M G l (l + 1)) (rotateRows V G l (l + 1))
    else leftStage tol ps M V

structure GivensOut where
  layers : List (List Rot)
  left : Mat
  diag : List GQ

/-- `givens_decomposition(unitary_rows, always_insert)`; `.error "ValueError"` when `m > n` -/
def decompGivens (tol : Rat) (Q : Mat) (n : Nat) (ai : Bool) : Except String GivensOut := do
  let m := Q.length
  if m > n then .error "ValueError" else
  let (M, V) ← leftStage tol (givensLeft m n) Q (Mat.identity m)
  if m = n then .ok ⟨[], V, diagOf M m 0⟩
  else do
    let (ls, M') ← colSweep tol (givensLayer m n) ai (List.range (givensDepth n)) M
    .ok ⟨ls, V, diagOf M' m 0⟩

/-- an elementary operation of the Gaussian decomposition -/
inductive GOp where
  | pht
  | rot (r : Rot)
deriving Repr

/-- inner loop of `fermionic_gaussian_decomposition` -/
def gaussLayerLoop (tol : Rat) (n : Nat) : List (Nat × Nat) → Mat → Except String (List GOp × Mat)
  | [], M => .ok ([], M)
  | (i, j) :: ps, M =>
    let left := (M.get i j).conj
    if big tol left then do
      let right := (M.get i (j + 1)).conj
      let G ← givensElems tol left right false
      let (s, c, e) ← params G
      let (rs, M') ← gaussLayerLoop tol n ps (doubleRotateCols M G n j (j + 1))
      .ok (GOp.rot ⟨j, j + 1, s, c, e⟩ :: rs, M')
    else gaussLayerLoop tol n ps M

def gaussSweep (tol : Rat) (n : Nat) : List Nat → Mat → Except String (List (List GOp) × Mat)
  | [], M => .ok ([], M)
  | k :: ks, M => do
    let doPht := k % 2 = 0 && big tol (M.get (k / 2) (n - 1))
    let M1 := if doPht then swapCols M (n - 1) (2 * n - 1) else M
    let (ops, M2) ← gaussLayerLoop tol n (gaussLayer n k) M1
    let ops' := if doPht then GOp.pht :: ops else ops
    let (ls, M3) ← gaussSweep tol n ks M2
    .ok (if ops'.isEmpty then ls else ops' :: ls, M3)

def matMulT (A B : Mat) (conjB : Bool) : Mat :=
  -- A · Bᵀ (or A · B† when conjB)
  A.map fun ra => B.map fun rb =>
    (List.zipWith (fun x y => x * (if conjB then y.conj else y)) ra rb).foldl (· + ·) 0

/-- the admissibility test of `fermionic_gaussian_decomposition` -/
def gaussAdmissible (tol : Rat) (W : Mat) (n : Nat) : Bool :=
  let L := W.map fun r => r.take n
  let R := W.map fun r => r.drop n
  let c1 := List.zipWith (List.zipWith (· + ·)) (matMulT L L true) (matMulT R R true)
  let c2 := List.zipWith (List.zipWith (· + ·)) (matMulT L R false) (matMulT R L false)
  let d1 := List.zipWith (List.zipWith (· - ·)) c1 (Mat.identity n)
  !(d1.any fun r => r.any (big tol)) && !(c2.any fun r => r.any (big tol))

structure GaussOut where
  layers : List (List GOp)
  leftLayers : List (List Rot)
  diag : List GQ
  leftDiag : List GQ

/-- `fermionic_gaussian_decomposition(unitary_rows)` for an `n × p` matrix -/
def decompGauss (tol : Rat) (W : Mat) (p : Nat) : Except String GaussOut := do
  let n := W.length
  if p ≠ 2 * n then .error "ValueError" else
  if !gaussAdmissible tol W n then .error "ValueError" else
  let (M, V) ← leftStage tol (gaussLeft n) W (Mat.identity n)
  let (ls, M') ← gaussSweep tol n (List.range (gaussDepth n)) M
  let diag := diagOf M' n n
  -- current_matrix = left_unitary.T ; current_matrix[:, k] *= diagonal[k].conj()
  let VT := (Mat.transpose V n).map fun row => List.zipWith (fun x d => x * d.conj) row diag
  let (ll, ld) ← decompSquare tol VT false
  .ok ⟨ls, ll, diag, ld⟩

/-! ## The pivot hypothesis of the Gaussian decomposition -/

def GOp.isPht : GOp → Bool
  | .pht => true
  | .rot _ => false

/-- "a particle-hole transformation was needed for every row": all `N` pivots `current_matrix[k // 2, N - 1]` tested in the
even iterations were non-zero, i.e. the returned decomposition contains `N` times `'pht'`.  This is the hypothesis under
which every row's weight is moved from the left into the right block by its own particle-hole transformation; the known
finding F11 is an input on which it fails (no pivot at all). -/
def gaussAllPivots (out : GaussOut) (n : Nat) : Bool :=
  (out.layers.map fun l => (l.filter GOp.isPht).length).sum == n

/-! ## Inner products of rows (hypothesis "orthonormal rows" of the property) -/

/-- `Σ_{x < n} f x` over the rationals -/
def rsum : Nat → (Nat → Rat) → Rat
  | 0, _ => 0
  | n + 1, f => rsum n f + f n

/-- inner product of rows `i`, `i'` (first `n` columns), as its real and imaginary parts -/
def rowDotRe (M : Mat) (n i i' : Nat) : Rat := rsum n fun x => (M.get i x * (M.get i' x).conj).re
def rowDotIm (M : Mat) (n i i' : Nat) : Rat := rsum n fun x => (M.get i x * (M.get i' x).conj).im

/-- do the first `m` rows have exactly orthonormal inner products? -/
def orthonormalB (M : Mat) (m n : Nat) : Bool :=
  (List.range m).all fun i => (List.range m).all fun i' =>
    decide (rowDotRe M n i i' = if i = i' then 1 else 0) && decide (rowDotIm M n i i' = 0)

/-! ## Executable exact-regime probes (hypotheses of the reconstruction theorems)

`sweepExactB` / `leftExactB` follow the run of `colSweep` / `leftStage` and report whether every quantity that
is compared with the tolerance is exactly zero or not below it; `OFV/Proofs/C11Exact.lean` proves that `true`
implies the propositions `SweepExact` / `LeftExact` assumed by the theorems. -/

def stepExactB (tol : Rat) (M : Mat) (i j : Nat) : Bool :=
  let l := (M.get i (j - 1)).conj
  let r := (M.get i j).conj
  (!small tol l || decide (l = 0)) && (!small tol r || decide (r = 0)) &&
  realExactB tol l r && (big tol r || decide (M.get i j = 0))

def layerExactB (tol : Rat) (ai : Bool) : List (Nat × Nat) → Mat → Bool
  | [], _ => true
  | (i, j) :: ps, M =>
    stepExactB tol M i j &&
    (if ai || big tol (M.get i j).conj then
      match givensElems tol (M.get i (j - 1)).conj (M.get i j).conj true with
      | .ok G => layerExactB tol ai ps (rotateCols M G (j - 1) j)
      | .error _ => true
    else layerExactB tol ai ps M)

def sweepExactB (tol : Rat) (ai : Bool) (layerOf : Nat → List (Nat × Nat)) : List Nat → Mat → Bool
  | [], _ => true
  | k :: ks, M =>
    layerExactB tol ai (layerOf k) M &&
    (match colLayer tol ai (layerOf k) M with
     | .ok (_, M') => sweepExactB tol ai layerOf ks M'
     | .error _ => true)

def stepExactLB (tol : Rat) (M : Mat) (l k : Nat) : Bool :=
  let a := M.get l k
  let b := M.get (l + 1) k
  (!small tol a || decide (a = 0)) && (!small tol b || decide (b = 0)) &&
  realExactB tol a b && (big tol a || decide (a = 0))

def leftExactB (tol : Rat) : List (Nat × Nat) → Mat → Bool
  | [], _ => true
  | (l, k) :: ps, M =>
    stepExactLB tol M l k &&
    (if big tol (M.get l k) then
      match givensElems tol (M.get l k) (M.get (l + 1) k) false with
      | .ok G => leftExactB tol ps (rotateRows M G l (l + 1))
      | .error _ => true
    else leftExactB tol ps M)

/-- are all hypotheses of `square_decomposition_diagonalises` except orthonormality met by `Q`? -/
def squareHypothesesB (tol : Rat) (Q : Mat) (ai : Bool) : Bool :=
  let n := Q.length
  Q.all (fun row => row.length == n) && sweepExactB tol ai (squareLayer n) (List.range (squareDepth n)) Q

/-- the same for `givens_decomposition_diagonalises` (`m < n`) -/
def givensHypothesesB (tol : Rat) (Q : Mat) (n : Nat) (ai : Bool) : Bool :=
  let m := Q.length
  decide (m < n) && Q.all (fun row => row.length == n) && leftExactB tol (givensLeft m n) Q &&
  (match leftStage tol (givensLeft m n) Q (Mat.identity m) with
   | .ok (M, _) => sweepExactB tol ai (givensLayer m n) (List.range (givensDepth n)) M
   | .error _ => false)

end C11
end Model
end OFV
