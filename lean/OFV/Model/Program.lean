/-
Model of Python programs over operator objects: variables reference objects
(aliasing is possible), in-place operators mutate the object, out-of-place
operators allocate a fresh one (`copy.deepcopy` + in-place).  Mirrors
symbolic_operator.py / majorana_operator.py dunder methods.  Import-free.
-/
import OFV.Model.Symbolic

namespace OFV
namespace Model

/-- operator family: the five SymbolicOperator classes or MajoranaOperator
(Majorana terms `(i, j, …)` are encoded as factors `(i, 0)`). -/
inductive Fam | sym (c : Cls) | maj
deriving DecidableEq, Repr, Inhabited

def toM (o : Op) : MOp := o.map fun (t, c) => (t.map (·.1), c)
def ofM (o : MOp) : Op := o.map fun (t, c) => (t.map (fun i => (i, 0)), c)

inductive BinOp | add | sub | mul deriving DecidableEq, Repr
inductive SOp | mul | rmul | div | add | radd | sub | rsub deriving DecidableEq, Repr
inductive ISOp | mul | div | add | sub deriving DecidableEq, Repr

inductive Stmt
  | new (x : Nat) (t : Term) (c : GQ)        -- x = Cls(t, c)
  | zero (x : Nat)                           -- x = Cls()   (the zero operator, empty terms)
  | alias (x y : Nat)                        -- x = y
  | bin (x : Nat) (o : BinOp) (y z : Nat)    -- x = y o z
  | sbin (x : Nat) (o : SOp) (y : Nat) (c : GQ)  -- x = y o c  /  x = c o y
  | neg (x y : Nat)                          -- x = -y
  | pow (x y k : Nat)                        -- x = y ** k
  | iop (x : Nat) (o : BinOp) (y : Nat)      -- x o= y
  | isop (x : Nat) (o : ISOp) (c : GQ)       -- x o= c
deriving Repr

inductive Err | typeError | unbound | zeroDiv deriving DecidableEq, Repr

structure Store where
  vars : List (Option Nat)      -- variable ↦ object id
  objs : List Op                -- object id ↦ value
deriving Repr

def Store.init (nvars : Nat) : Store := ⟨List.replicate nvars none, []⟩

def Store.obj? (s : Store) (x : Nat) : Option (Nat × Op) :=
  match s.vars[x]? with
  | some (some id) => (s.objs[id]?).map fun o => (id, o)
  | _ => none

/-- value of variable `x` -/
def Store.val? (s : Store) (x : Nat) : Option Op := (s.obj? x).map (·.2)

/-- bind `x` to a freshly allocated object -/
def Store.bindNew (s : Store) (x : Nat) (v : Op) : Store :=
  ⟨s.vars.set x (some s.objs.length), s.objs ++ [v]⟩

/-- mutate the object `id` -/
def Store.setObj (s : Store) (id : Nat) (v : Op) : Store := ⟨s.vars, s.objs.set id v⟩

def GQ.inv (c : GQ) : GQ :=
  let n := c.normSq
  ⟨c.re / n, -c.im / n⟩

section ops
variable (tol : Rat)

def fMk : Fam → Term → GQ → Op
  | .sym c, t, k => mk c t k
  | .maj, t, k => ofM (mmk (t.map (·.1)) k)

def fAdd : Fam → Op → Op → Op
  | .sym _, a, b => iadd tol a b
  | .maj, a, b => ofM (miadd (toM a) (toM b))

def fSub : Fam → Op → Op → Op
  | .sym _, a, b => isub tol a b
  | .maj, a, b => ofM (misub (toM a) (toM b))

def fMul : Fam → Op → Op → Op
  | .sym c, a, b => mulOp c a b
  | .maj, a, b => ofM (mmul (toM a) (toM b))

def fPow : Fam → Op → Nat → Op
  | .sym c, a, k => powOp c a k
  | .maj, a, k => ofM (mpow (toM a) k)

def fBin (f : Fam) : BinOp → Op → Op → Op
  | .add => fAdd tol f
  | .sub => fSub tol f
  | .mul => fMul f

/-- one statement; `Except` mirrors the Python exception kind -/
def exec (f : Fam) (s : Store) : Stmt → Except Err Store
  | .new x t c => .ok (s.bindNew x (fMk f t c))
  | .zero x => .ok (s.bindNew x [])
  | .alias x y =>
    match s.vars[y]? with
    | some (some id) => .ok ⟨s.vars.set x (some id), s.objs⟩
    | _ => .error .unbound
  | .bin x o y z =>
    match s.val? y, s.val? z with
    | some a, some b => .ok (s.bindNew x (fBin tol f o a b))
    | _, _ => .error .unbound
  | .sbin x o y c =>
    match s.val? y with
    | none => .error .unbound
    | some a =>
      match o with
      | .mul => .ok (s.bindNew x (smul c a))
      | .rmul => .ok (s.bindNew x (smul c a))
      | .div => if c = 0 then .error .zeroDiv else .ok (s.bindNew x (smul (GQ.inv c) a))
      | .add => .ok (s.bindNew x (addConst a c))
      | .sub => .ok (s.bindNew x (addConst a (-c)))
      | .radd => if f = .maj then .error .typeError else .ok (s.bindNew x (addConst a c))
      | .rsub => if f = .maj then .error .typeError
                 else .ok (s.bindNew x (addConst (smul (-1) a) c))
  | .neg x y =>
    match s.val? y with
    | some a => .ok (s.bindNew x (smul (-1) a))
    | none => .error .unbound
  | .pow x y k =>
    match s.val? y with
    | some a => .ok (s.bindNew x (fPow f a k))
    | none => .error .unbound
  | .iop x o y =>
    match s.obj? x, s.val? y with
    | some (id, a), some b =>
      let v := fBin tol f o a b
      -- `MajoranaOperator.__imul__` with an operator returns a *new* object
      if f = .maj ∧ o = .mul then .ok (s.bindNew x v) else .ok (s.setObj id v)
    | _, _ => .error .unbound
  | .isop x o c =>
    match s.obj? x with
    | none => .error .unbound
    | some (id, a) =>
      match o with
      | .mul => .ok (s.setObj id (smul c a))
      | .div => if c = 0 then .error .zeroDiv else .ok (s.setObj id (smul (GQ.inv c) a))
      | .add => .ok (s.setObj id (addConst a c))
      | .sub => .ok (s.setObj id (addConst a (-c)))

end ops

end Model
end OFV
