/-
Model of `transforms/opconversions/bravyi_kitaev.py`, `bravyi_kitaev_tree.py` and
`fenwick_tree.py`, function by function, on top of the Model of `SymbolicOperator`
arithmetic.  Python `set`s of qubit indices are modelled as strictly increasing lists
(the iteration order of a set never reaches the result: every `QubitOperator(term)` sorts
its factors by index with a stable sort, and factors with equal index only ever come from
different pads, whose relative order is fixed by the code).  Import-free.
-/
import OFV.Model.Symbolic
import OFV.Model.C04

namespace OFV
namespace Model
namespace C05

/-! ### index sets (sorted, duplicate-free lists) -/

abbrev ISet := List Nat

def insertS (x : Nat) : ISet → ISet
  | [] => [x]
  | y :: r => if x < y then x :: y :: r else if x = y then y :: r else y :: insertS x r

def ofList (l : List Nat) : ISet := l.foldr insertS []
def union (a b : ISet) : ISet := a.foldr insertS b
def diff (a b : ISet) : ISet := a.filter fun x => !b.contains x
def inter (a b : ISet) : ISet := a.filter fun x => b.contains x
def symDiff (a b : ISet) : ISet := union (diff a b) (diff b a)

def pad (p : Nat) (s : ISet) : Term := s.map fun i => (i, p)

/-! ### `_update_set`, `_occupation_set`, `_parity_set` (1-based Fenwick bit tricks) -/

/-- Python `index & (index - 1)`: remove the least significant one -/
def clearLow (i : Nat) : Nat := i &&& (i - 1)

/-- Python `index & -index` (for `index > 0`): the least significant one -/
def lowbit (i : Nat) : Nat := i - clearLow i

/-- the loop `while index <= n_qubits: add(index - 1); index += index & -index` -/
def updateLoop (n : Nat) : Nat → Nat → List Nat
  | 0, _ => []
  | fuel + 1, idx => if idx ≤ n ∧ 0 < idx then (idx - 1) :: updateLoop n fuel (idx + lowbit idx) else []

def updateSet (index n : Nat) : ISet :=
  let idx := index + 1
  ofList (updateLoop n (n + 1) (idx + lowbit idx))

/-- the loop `while index != stop: add(index - 1); index &= index - 1`
(`stop = 0` for the parity set, `stop = parent` for the occupation set) -/
def downLoop (stop : Nat) : Nat → Nat → List Nat
  | 0, _ => []
  | fuel + 1, idx => if idx ≠ stop ∧ 0 < idx then (idx - 1) :: downLoop stop fuel (clearLow idx) else []

def paritySet (index : Nat) : ISet := ofList (downLoop 0 (index + 1) index)

def occupationSet (index : Nat) : ISet :=
  let idx := index + 1
  ofList (index :: downLoop (clearLow idx) (index + 1) index)

def remainderSet (i : Nat) : ISet := diff (paritySet i) (occupationSet i)
def fSet (i j : Nat) : ISet := symDiff (occupationSet i) (occupationSet j)
def p0Set (i j : Nat) : ISet := symDiff (paritySet i) (paritySet j)
def p1Set (i j : Nat) : ISet := symDiff (paritySet i) (remainderSet j)
def p2Set (i j : Nat) : ISet := symDiff (remainderSet i) (paritySet j)
def p3Set (i j : Nat) : ISet := symDiff (remainderSet i) (remainderSet j)
def uSet (i j n : Nat) : ISet := symDiff (updateSet i n) (updateSet j n)
def alphaSet (i j n : Nat) : ISet := inter (updateSet i n) (paritySet j)
def uDiffA (i j n : Nat) : ISet := diff (uSet i j n) (alphaSet i j n)
def p0DiffA (i j n : Nat) : ISet := diff (p0Set i j) (alphaSet i j n)

section
variable (tol : Rat)

def half : GQ := ⟨mkRat 1 2, 0⟩
def mHalfI : GQ := ⟨0, -(mkRat 1 2)⟩

/-! ### `_transform_ladder_operator`, `_transform_majorana_operator` -/

def bkLadder (n index action : Nat) : Op :=
  let us := insertS index (updateSet index n)
  let os := occupationSet index
  let ps := paritySet index
  let t1 := mk .qubit (pad 1 us ++ pad 3 ps) half
  let t2 := mk .qubit ([(index, 2)] ++ pad 1 (diff us [index]) ++ pad 3 (diff (symDiff ps os) [index])) mHalfI
  if action == 1 then iadd tol t1 t2 else isub tol t1 t2

def bkMajFactor (n m : Nat) : Op :=
  let q := m / 2
  let us := insertS q (updateSet q n)
  let os := occupationSet q
  let ps := paritySet q
  if m % 2 != 0 then
    mk .qubit ([(q, 2)] ++ pad 1 (diff us [q]) ++ pad 3 (diff (symDiff ps os) [q])) 1
  else
    mk .qubit (pad 1 us ++ pad 3 ps) 1

/-- `inline_product(factors, seed=QubitOperator((), coefficient))` -/
def bkTerm (n : Nat) (t : Term) (c : GQ) : Op :=
  t.foldl (fun w f => mulOp .qubit w (bkLadder tol n f.1 f.2)) (mk .qubit [] c)

/-- `inline_sum(summands, seed=QubitOperator())` -/
def bkFermion (n : Nat) (A : Op) : Op :=
  A.foldl (fun acc (t, c) => iadd tol acc (bkTerm tol n t c)) []

def bkMajTerm (n : Nat) (t : MTerm) (c : GQ) : Op :=
  t.foldl (fun w m => mulOp .qubit w (bkMajFactor n m)) (mk .qubit [] c)

def bkMajorana (n : Nat) (A : MOp) : Op :=
  A.foldl (fun acc (t, c) => iadd tol acc (bkMajTerm n t c)) []

/-- the exact regime of `bravyi_kitaev(FermionOperator)` (see `Model.C04.sumOk`): every `+=` of
`inline_sum` deleted only exact zeros; evaluated by the driver on every generated input -/
def bkFermionOk (n : Nat) (A : Op) : Bool := C04.sumOk tol (A.map fun tc => bkTerm tol n tc.1 tc.2)

def bkMajoranaOk (n : Nat) (A : MOp) : Bool := C04.sumOk tol (A.map fun tc => bkMajTerm n tc.1 tc.2)

/-! ### `fenwick_tree.py`: parent pointers and children lists built by the recursion -/

/-- the node objects of `FenwickTree`, indexed by their position in `self.nodes`: `parent k` is
`nodes[k].parent` (as an index), `children k` is `[c.index for c in nodes[k].children]`; attribute
assignments are modelled as function updates -/
structure Tree where
  parent : Nat → Option Nat
  children : Nat → List Nat

def Tree.init : Tree := ⟨fun _ => none, fun _ => []⟩

/-- `fenwick(left, right, parent)`; `right` is carried as `right + 1` so that `-1` is representable;
fuel bounds the recursion (`2 n + 2` suffices: every call with `left < right` consumes a node) -/
def fenwickRec : Nat → Nat → Nat → Nat → Tree → Tree
  | 0, _, _, _, t => t
  | fuel + 1, left, right1, par, t =>
    if right1 = 0 ∨ left ≥ right1 - 1 then t else
    let right := right1 - 1
    let pivot := (left + right) / 2
    -- child.parent = parent; parent.children.append(child)
    let t1 : Tree := ⟨fun k => if k = pivot then some par else t.parent k,
                      fun k => if k = par then t.children k ++ [pivot] else t.children k⟩
    let t2 := fenwickRec fuel left (pivot + 1) pivot t1
    fenwickRec fuel (pivot + 1) right1 par t2

def mkTree (n : Nat) : Tree := fenwickRec (2 * n + 2) 0 n (n - 1) Tree.init

/-- `get_ancestors`: parents from the nearest up to the root -/
def ancestors (t : Tree) : Nat → Nat → List Nat
  | 0, _ => []
  | fuel + 1, j => match t.parent j with
    | none => []
    | some p => p :: ancestors t fuel p

def treeUpdate (t : Tree) (n j : Nat) : List Nat := ancestors t n j
def treeChildren (t : Tree) (j : Nat) : List Nat := t.children j
def treeRemainder (t : Tree) (n j : Nat) : List Nat :=
  (treeUpdate t n j).flatMap fun a => (treeChildren t a).filter fun c => c < j
def treeParity (t : Tree) (n j : Nat) : List Nat := treeRemainder t n j ++ treeChildren t j

/-- `bravyi_kitaev_tree._transform_ladder_operator` -/
def bkTreeLadder (t : Tree) (n index action : Nat) : Op :=
  let ps := treeParity t n index
  let anc := treeUpdate t n index
  let rem := treeRemainder t n index
  let dco : GQ := if action != 0 then ⟨0, -(mkRat 1 2)⟩ else ⟨0, mkRat 1 2⟩
  let d := mk .qubit ([(index, 2)] ++ rem.map (fun i => (i, 3)) ++ anc.map (fun i => (i, 1))) dco
  let c := mk .qubit ([(index, 1)] ++ ps.map (fun i => (i, 3)) ++ anc.map (fun i => (i, 1))) half
  iadd tol c d

def bkTreeTerm (tr : Tree) (n : Nat) (t : Term) (c : GQ) : Op :=
  t.foldl (fun w f => mulOp .qubit w (bkTreeLadder tol tr n f.1 f.2)) (mk .qubit [] c)

def bkTreeFermion (n : Nat) (A : Op) : Op :=
  let tr := mkTree n
  A.foldl (fun acc (t, c) => iadd tol acc (bkTreeTerm tol tr n t c)) []

def bkTreeFermionOk (n : Nat) (A : Op) : Bool :=
  C04.sumOk tol (A.map fun tc => bkTreeTerm tol (mkTree n) n tc.1 tc.2)

/-! ### `_seeley_richard_love` -/

/-- `complex(0, x)` = `0 + x * 1j` -/
def cplx0 (x : GQ) : GQ := GQ.I * x

/-- which branch of the `if / elif` chain of `_seeley_richard_love` fires (cases 0-10 of the source;
11 = none: the function then returns two empty lists) -/
def srlTag (i j n : Nat) : Nat :=
  let ie := i % 2 == 0
  let je := j % 2 == 0
  let iInPj := (paritySet j).contains i
  let jInUi := (updateSet i n).contains j
  if i == j then 0
  else if ie && je then 1
  else if !ie && je && !iInPj then 2
  else if !ie && je && iInPj then 3
  else if ie && !je && !iInPj && !jInUi then 4
  else if ie && !je && !iInPj && jInUi then 5
  else if ie && !je && iInPj && jInUi then 6
  else if !ie && !je && !iInPj && !jInUi then 7
  else if !ie && !je && iInPj && !jInUi then 8
  else if !ie && !je && !iInPj && jInUi then 9
  else if !ie && !je && iInPj && jInUi then 10
  else 11

/-- the body of each branch: operator strings and coefficients -/
def srlBody (tag i j : Nat) (coef0 : GQ) (n : Nat) : List Term × List GQ :=
  let coef := coef0 * ⟨mkRat 1 4, 0⟩
  let two : GQ := ⟨2, 0⟩
  let al := alphaSet i j n
  match tag with
  | 0 => ([pad 3 (occupationSet i), []], [-coef * two, coef * two])
  | 1 =>
    let left := pad 1 (uDiffA i j n) ++ pad 2 al ++ pad 3 (p0DiffA i j n)
    ([left ++ [(j, 2), (i, 1)], left ++ [(j, 1), (i, 2)], left ++ [(j, 1), (i, 1)], left ++ [(j, 2), (i, 2)]],
     if i < j then [coef, -coef, cplx0 (-coef), cplx0 (-coef)] else [cplx0 (-coef), cplx0 coef, -coef, -coef])
  | 2 =>
    let left := pad 1 (uDiffA i j n) ++ pad 2 al
    let r1 := pad 3 (diff (p0Set i j) al)
    let r2 := pad 3 (diff (p2Set i j) al)
    ([left ++ [(j, 2), (i, 1)] ++ r1, left ++ [(j, 1), (i, 1)] ++ r1,
      left ++ [(j, 1), (i, 2)] ++ r2, left ++ [(j, 2), (i, 2)] ++ r2],
     if i < j then [coef, cplx0 (-coef), -coef, cplx0 (-coef)] else [cplx0 (-coef), -coef, cplx0 coef, -coef])
  | 3 =>
    let left := pad 1 (uSet i j n)
    let r1 := pad 3 (diff (p0Set i j) [i])
    let r2 := pad 3 (diff (p2Set i j) [i])
    ([left ++ [(j, 2), (i, 2)] ++ r1, left ++ [(j, 1), (i, 2)] ++ r1,
      left ++ [(j, 1), (i, 1)] ++ r2, left ++ [(j, 2), (i, 1)] ++ r2],
     [coef, cplx0 (-coef), coef, cplx0 coef])
  | 4 =>
    let left := pad 1 (uDiffA i j n) ++ pad 2 al
    let r1 := pad 3 (diff (p0Set i j) al)
    let r2 := pad 3 (diff (p1Set i j) al)
    ([left ++ [(j, 1), (i, 2)] ++ r1, left ++ [(j, 1), (i, 1)] ++ r1,
      left ++ [(j, 2), (i, 1)] ++ r2, left ++ [(j, 2), (i, 2)] ++ r2],
     if i < j then [-coef, cplx0 (-coef), coef, cplx0 (-coef)] else [cplx0 coef, -coef, cplx0 (-coef), -coef])
  | 5 =>
    let x1 := diff (uSet i j n) [j]
    let x2 := diff x1 al
    let rp1 := pad 2 al ++ pad 3 (diff (p0Set i j) al)
    let rp2 := pad 3 (union (p1Set i j) [j])
    ([pad 1 x2 ++ [(i, 2)] ++ rp1, pad 1 x2 ++ [(i, 1)] ++ rp1,
      pad 1 x1 ++ [(i, 2)] ++ rp2, pad 1 x1 ++ [(i, 1)] ++ rp2],
     [-coef, cplx0 (-coef), cplx0 coef, -coef])
  | 6 =>
    let left := pad 1 (diff (uSet i j n) [j])
    let right := pad 3 (union (p1Set i j) [j])
    ([left ++ [(i, 1)], left ++ [(i, 2)], left ++ [(i, 2)] ++ right, left ++ [(i, 1)] ++ right],
     [coef, cplx0 (-coef), cplx0 coef, -coef])
  | 7 =>
    let left := pad 1 (uDiffA i j n) ++ pad 2 al
    let r1 := pad 3 (diff (p0Set i j) al)
    let r2 := pad 3 (diff (p1Set i j) al)
    let r3 := pad 3 (diff (p2Set i j) al)
    let r4 := pad 3 (diff (p3Set i j) al)
    ([left ++ [(j, 1), (i, 1)] ++ r1, left ++ [(j, 2), (i, 1)] ++ r2,
      left ++ [(j, 1), (i, 2)] ++ r3, left ++ [(j, 2), (i, 2)] ++ r4],
     if i < j then [cplx0 (-coef), coef, -coef, cplx0 (-coef)] else [-coef, cplx0 (-coef), cplx0 coef, -coef])
  | 8 =>
    let left := pad 1 (uSet i j n)
    let r1 := pad 3 (diff (p0Set i j) [i])
    let r2 := pad 3 (diff (p1Set i j) [i])
    let r3 := pad 3 (diff (p2Set i j) [i])
    let r4 := pad 3 (diff (p3Set i j) [i])
    ([left ++ [(j, 1), (i, 2)] ++ r1, left ++ [(j, 2), (i, 2)] ++ r2,
      left ++ [(j, 1), (i, 1)] ++ r3, left ++ [(j, 2), (i, 1)] ++ r4],
     [cplx0 (-coef), coef, coef, cplx0 coef])
  | 9 =>
    let x1 := diff (uSet i j n) [j]
    let x2 := diff x1 al
    let x3 := diff (union x1 [i]) al
    let rp1 := pad 3 (diff (p2Set i j) al) ++ pad 2 al
    let rp2 := pad 3 (diff (p0Set i j) al) ++ pad 2 al
    let rp3 := pad 3 (union (p1Set i j) [j])
    let rp4 := pad 3 (union (p3Set i j) [j])
    ([pad 1 x2 ++ [(i, 2)] ++ rp1, pad 1 x3 ++ rp2, pad 1 x1 ++ [(i, 1)] ++ rp3, pad 1 x1 ++ [(i, 2)] ++ rp4],
     [-coef, cplx0 (-coef), -coef, cplx0 coef])
  | 10 =>
    let left := pad 1 (diff (uSet i j n) [j])
    let r1 := pad 3 (diff (p0Set i j) [i])
    let r2 := pad 3 (diff (p2Set i j) [i])
    let r3 := pad 3 (p1Set i j)
    let r4 := pad 3 (p3Set i j)
    ([left ++ [(i, 2)] ++ r1, left ++ [(i, 1)] ++ r2, left ++ [(j, 3), (i, 1)] ++ r3, left ++ [(j, 3), (i, 2)] ++ r4],
     [cplx0 (-coef), coef, -coef, cplx0 coef])
  | _ =>
    -- no branch of the `elif` chain fires: the function returns two empty lists
    ([], [])

/-- returns the case number (branch tag), the operator strings and the coefficients -/
def srl (i j : Nat) (coef0 : GQ) (n : Nat) : Nat × List Term × List GQ :=
  (srlTag i j n, srlBody (srlTag i j n) i j coef0 n)

/-- `_qubit_operator_creation(operators, coefficents)` -/
def qubitOperatorCreation (ops : List Term) (coefs : List GQ) : Op :=
  (ops.zip coefs).foldl (fun acc (t, c) => iadd tol acc (mk .qubit t c)) []

def srlOp (i j : Nat) (coef : GQ) (n : Nat) : Op :=
  let r := srl i j coef n
  qubitOperatorCreation tol r.2.1 r.2.2

/-- the exact regime of `_qubit_operator_creation` (see `Model.C04.sumOk`): every `+=` deleted only exact
zeros; evaluated by the driver on every generated input -/
def qocOk (ops : List Term) (coefs : List GQ) : Bool :=
  C04.sumOk tol ((ops.zip coefs).map fun tc => mk .qubit tc.1 tc.2)

def srlOk (i j : Nat) (coef : GQ) (n : Nat) : Bool :=
  let r := srl i j coef n
  qocOk tol r.2.1 r.2.2

/-! ### `_bravyi_kitaev_interaction_operator` -/

def get1 (n : Nat) (t : List GQ) (p q : Nat) : GQ := t.getD (p * n + q) 0
def get2 (n : Nat) (t : List GQ) (p q r s : Nat) : GQ := t.getD (((p * n + q) * n + r) * n + s) 0

def twoBodyCoef (T : Nat → Nat → Nat → Nat → GQ) (a b c d : Nat) : GQ :=
  T a b c d - T a b d c + T b a d c - T b a c d

def hermitianOneBodyProduct (a b c d : Nat) (coef : GQ) (n : Nat) : Op :=
  let ac := mulOp .qubit (srlOp tol a c coef n) (srlOp tol b d 1 n)
  let ca := mulOp .qubit (srlOp tol c a coef.conj n) (srlOp tol d b 1 n)
  iadd tol ac ca

/-- accumulated state of the first loop: Hamiltonian, pending operator strings, pending coefficients,
constant term -/
structure St where
  ham : Op
  ops : List Term
  coefs : List GQ
  const : GQ

/-- body of the loop `for j in range(i)` of the first pass (cases A/B: pending strings and constant) -/
def iopInner (nq : Nat) (T1 : Nat → Nat → GQ) (T2 : Nat → Nat → Nat → Nat → GQ) (i : Nat) (s : St) (j : Nat) : St :=
  let s := if T1 i j != 0 then
      let r1 := srl i j (T1 i j) nq
      let r2 := srl j i (T1 i j).conj nq
      { s with ops := s.ops ++ r1.2.1 ++ r2.2.1, coefs := s.coefs ++ r1.2.2 ++ r2.2.2 }
    else s
  let coef := twoBodyCoef T2 i j j i * ⟨mkRat 1 4, 0⟩
  if coef != 0 then
    { s with ops := s.ops ++ [pad 3 (occupationSet i), pad 3 (occupationSet j), pad 3 (fSet i j)],
             coefs := s.coefs ++ [-coef, -coef, coef],
             const := s.const + coef }
  else s

/-- body of the loop `for i in range(N)` of the first pass -/
def iopOuter (nq : Nat) (T1 : Nat → Nat → GQ) (T2 : Nat → Nat → Nat → Nat → GQ) (s : St) (i : Nat) : St :=
  let s := if T1 i i != 0 then { s with ham := iadd tol s.ham (srlOp tol i i (T1 i i) nq) } else s
  (List.range i).foldl (iopInner nq T1 T2 i) s

/-- body of the innermost loop of case C -/
def iopStepC (nq : Nat) (T2 : Nat → Nat → Nat → Nat → GQ) (i j : Nat) (ham : Op) (k : Nat) : Op :=
  if i != j && i != k then
    let coef := twoBodyCoef T2 i j k i
    if coef != 0 then
      let number := srlOp tol i i 1 nq
      let r1 := srl j k coef nq
      let r2 := srl k j coef.conj nq
      let excitation := qubitOperatorCreation tol (r1.2.1 ++ r2.2.1) (r1.2.2 ++ r2.2.2)
      iadd tol ham (mulOp .qubit number excitation)
    else ham
  else ham

/-- body of the innermost loop of case D -/
def iopStepD (nq : Nat) (T2 : Nat → Nat → Nat → Nat → GQ) (i j k : Nat) (ham : Op) (l : Nat) : Op :=
  let c1 := -(twoBodyCoef T2 i j k l)
  let ham := if c1 != 0 then iadd tol ham (hermitianOneBodyProduct tol i j k l c1 nq) else ham
  let c2 := -(twoBodyCoef T2 i k j l)
  let ham := if c2 != 0 then iadd tol ham (hermitianOneBodyProduct tol i k j l c2 nq) else ham
  let c3 := -(twoBodyCoef T2 i l j k)
  if c3 != 0 then iadd tol ham (hermitianOneBodyProduct tol i l j k c3 nq) else ham

/-- `N` = tensor size, `nq` = number of qubits (`nq ≥ N`) -/
def bkInteractionOp (N nq : Nat) (const : GQ) (one two : List GQ) : Op :=
  let T1 := get1 N one
  let T2 := get2 N two
  let s0 : St := ⟨[], [], [], const⟩
  -- cases A and B
  let s1 := (List.range N).foldl (iopOuter tol nq T1 T2) s0
  -- case C
  let hamC := (List.range N).foldl (fun ham i =>
    (List.range N).foldl (fun ham j =>
      (List.range j).foldl (iopStepC tol nq T2 i j) ham) ham) s1.ham
  -- case D
  let hamD := (List.range N).foldl (fun ham i =>
    (List.range i).foldl (fun ham j =>
      (List.range j).foldl (fun ham k =>
        (List.range k).foldl (iopStepD tol nq T2 i j k) ham) ham) ham) hamC
  iadd tol hamD (qubitOperatorCreation tol (s1.ops ++ [[]]) (s1.coefs ++ [s1.const]))

/-! ### the same computation as lists of `+=` operands (used to state the exact regime) -/

/-- `excitation` of case C -/
def excitationOp (j k : Nat) (coef : GQ) (nq : Nat) : Op :=
  let r1 := srl j k coef nq
  let r2 := srl k j coef.conj nq
  qubitOperatorCreation tol (r1.2.1 ++ r2.2.1) (r1.2.2 ++ r2.2.2)

/-- operands of `qubit_hamiltonian +=` in case A, in program order -/
def iopA (N nq : Nat) (T1 : Nat → Nat → GQ) : List Op :=
  (List.range N).flatMap fun i => if T1 i i != 0 then [srlOp tol i i (T1 i i) nq] else []

/-- operands of case C -/
def iopC (N nq : Nat) (T2 : Nat → Nat → Nat → Nat → GQ) : List Op :=
  (List.range N).flatMap fun i => (List.range N).flatMap fun j => (List.range j).flatMap fun k =>
    if i != j && i != k then
      (if twoBodyCoef T2 i j k i != 0 then
        [mulOp .qubit (srlOp tol i i 1 nq) (excitationOp tol j k (twoBodyCoef T2 i j k i) nq)] else [])
    else []

/-- operands of case D -/
def iopD (N nq : Nat) (T2 : Nat → Nat → Nat → Nat → GQ) : List Op :=
  (List.range N).flatMap fun i => (List.range i).flatMap fun j => (List.range j).flatMap fun k =>
    (List.range k).flatMap fun l =>
      (if -(twoBodyCoef T2 i j k l) != 0 then [hermitianOneBodyProduct tol i j k l (-(twoBodyCoef T2 i j k l)) nq] else [])
      ++ (if -(twoBodyCoef T2 i k j l) != 0 then [hermitianOneBodyProduct tol i k j l (-(twoBodyCoef T2 i k j l)) nq] else [])
      ++ (if -(twoBodyCoef T2 i l j k) != 0 then [hermitianOneBodyProduct tol i l j k (-(twoBodyCoef T2 i l j k)) nq] else [])

/-- the pending (string, coefficient) pairs appended by the pair `(i, j)` of the first loop -/
def pendIJ (nq : Nat) (T1 : Nat → Nat → GQ) (T2 : Nat → Nat → Nat → Nat → GQ) (i j : Nat) : List (Term × GQ) :=
  (if T1 i j != 0 then
      (srl i j (T1 i j) nq).2.1.zip (srl i j (T1 i j) nq).2.2
        ++ (srl j i (T1 i j).conj nq).2.1.zip (srl j i (T1 i j).conj nq).2.2
    else [])
  ++ (let coef := twoBodyCoef T2 i j j i * ⟨mkRat 1 4, 0⟩
      if coef != 0 then
        [(pad 3 (occupationSet i), -coef), (pad 3 (occupationSet j), -coef), (pad 3 (fSet i j), coef)]
      else [])

def iopPend (N nq : Nat) (T1 : Nat → Nat → GQ) (T2 : Nat → Nat → Nat → Nat → GQ) : List (Term × GQ) :=
  (List.range N).flatMap fun i => (List.range i).flatMap fun j => pendIJ nq T1 T2 i j

/-- the constant after the first loop -/
def iopConst (N : Nat) (const : GQ) (T2 : Nat → Nat → Nat → Nat → GQ) : GQ :=
  (List.range N).foldl (fun c i => (List.range i).foldl (fun c j =>
    let coef := twoBodyCoef T2 i j j i * ⟨mkRat 1 4, 0⟩
    if coef != 0 then c + coef else c) c) const

def hobOk (a b c d : Nat) (coef : GQ) (n : Nat) : Bool :=
  srlOk tol a c coef n && srlOk tol c a coef.conj n && srlOk tol b d 1 n && srlOk tol d b 1 n
  && C04.iaddOk tol (mulOp .qubit (srlOp tol a c coef n) (srlOp tol b d 1 n))
      (mulOp .qubit (srlOp tol c a coef.conj n) (srlOp tol d b 1 n))

/-- the exact regime of `_bravyi_kitaev_interaction_operator`: every `qubit_hamiltonian +=`, every
`_qubit_operator_creation` and the `+=` inside `_hermitian_one_body_product` deleted only exact zeros;
evaluated by the driver on every generated input -/
def bkInteractionOpOk (N nq : Nat) (const : GQ) (one two : List GQ) : Bool :=
  let T1 := get1 N one
  let T2 := get2 N two
  let pend := iopPend N nq T1 T2
  let last := qubitOperatorCreation tol (pend.map (·.1) ++ [[]]) (pend.map (·.2) ++ [iopConst N const T2])
  C04.sumOk tol (iopA tol N nq T1 ++ iopC tol N nq T2 ++ iopD tol N nq T2 ++ [last])
  && qocOk tol (pend.map (·.1) ++ [[]]) (pend.map (·.2) ++ [iopConst N const T2])
  && (List.range N).all (fun i => T1 i i == 0 || srlOk tol i i (T1 i i) nq)
  && (List.range N).all (fun i => (List.range N).all fun j => (List.range j).all fun k =>
      !(i != j && i != k) || twoBodyCoef T2 i j k i == 0 ||
        qocOk tol ((srl j k (twoBodyCoef T2 i j k i) nq).2.1 ++ (srl k j (twoBodyCoef T2 i j k i).conj nq).2.1)
          ((srl j k (twoBodyCoef T2 i j k i) nq).2.2 ++ (srl k j (twoBodyCoef T2 i j k i).conj nq).2.2))
  && (List.range N).all (fun i => (List.range i).all fun j => (List.range j).all fun k => (List.range k).all fun l =>
      (-(twoBodyCoef T2 i j k l) == 0 || hobOk tol i j k l (-(twoBodyCoef T2 i j k l)) nq)
      && (-(twoBodyCoef T2 i k j l) == 0 || hobOk tol i k j l (-(twoBodyCoef T2 i k j l)) nq)
      && (-(twoBodyCoef T2 i l j k) == 0 || hobOk tol i l j k (-(twoBodyCoef T2 i l j k)) nq))

end

end C05
end Model
end OFV
