/-
C12 — executable Model of the *logic* of quadratic Hamiltonians / Gaussian states
(`ops/representations/quadratic_hamiltonian.py`, `circuits/slater_determinants.py`):

* `majorana_form`: the four block formulas (exact on dyadic inputs);
* `ground_energy`, the default occupation of `jw_get_gaussian_state` and the energy of an occupation
  (list arithmetic on the orbital energies, which come from `eigh` / `schur` = trusted kernels);
* `antisymmetric_canonical_form`: the four permutation passes applied to the real Schur form (pure data
  movement and comparisons: exact on the floats returned by `scipy.linalg.schur`, which the harness
  passes in as exact rationals).

LAPACK (`eigh`, `schur`) is a parameter of the Model (trusted, behind the contracts stated in
harness/c12.py).  Import-free.
-/
import OFV.Core.GQ

namespace OFV
namespace Model
namespace C12

abbrev CMat := List (List GQ)
abbrev RMat := List (List Rat)

def CMat.get (M : CMat) (i j : Nat) : GQ := (M.getD i []).getD j 0
def RMat.get (M : RMat) (i j : Nat) : Rat := (M.getD i []).getD j 0

/-! ## `majorana_form` -/

/-- `numpy.real(-0.5j * (h - h* + d - d*))` : upper left block entry -/
def ulE (h d : GQ) : Rat := ((⟨0, -1/2⟩ : GQ) * (h - h.conj + d - d.conj)).re
/-- `numpy.real(0.5 * (h + h* - d - d*))` : upper right -/
def urE (h d : GQ) : Rat := ((⟨1/2, 0⟩ : GQ) * (h + h.conj - d - d.conj)).re
/-- `numpy.real(-0.5 * (h + h* + d + d*))` : lower left -/
def llE (h d : GQ) : Rat := ((⟨-1/2, 0⟩ : GQ) * (h + h.conj + d + d.conj)).re
/-- `numpy.real(-0.5j * (h - h* - d + d*))` : lower right -/
def lrE (h d : GQ) : Rat := ((⟨0, -1/2⟩ : GQ) * (h - h.conj - d + d.conj)).re

/-- entry `(r, c)` of the `2n × 2n` Majorana matrix of `hermitian_part = H`, `antisymmetric_part = D` -/
def majEntry (n : Nat) (H D : CMat) (r c : Nat) : Rat :=
  if r < n then
    if c < n then ulE (H.get r c) (D.get r c) else urE (H.get r (c - n)) (D.get r (c - n))
  else
    if c < n then llE (H.get (r - n) c) (D.get (r - n) c) else lrE (H.get (r - n) (c - n)) (D.get (r - n) (c - n))

def majoranaMatrix (n : Nat) (H D : CMat) : RMat :=
  (List.range (2 * n)).map fun r => (List.range (2 * n)).map fun c => majEntry n H D r c

/-- `0.5 * numpy.real(numpy.trace(hermitian_part)) + constant` -/
def majoranaConstant (n : Nat) (H : CMat) (const : GQ) : GQ :=
  GQ.ofRat ((1 / 2) * ((List.range n).map fun j => (H.get j j).re).sum) + const

/-! ## energies -/

/-- `numpy.sum(orbital_energies[numpy.where(orbital_energies < 0.0)[0]]) + constant` -/
def groundEnergy (es : List Rat) (c : Rat) : Rat := (es.filter (· < 0)).sum + c

/-- indices `j` with `es[j] < bound`, in increasing order, starting the count at `off` -/
def whereLt (bound : Rat) : List Rat → Nat → List Nat
  | [], _ => []
  | e :: es, off => if e < bound then off :: whereLt bound es (off + 1) else whereLt bound es (off + 1)

/-- `numpy.where(orbital_energies < -EQ_TOLERANCE)[0]` (default occupation of `jw_get_gaussian_state`,
particle-conserving case) -/
def defaultOccupation (tol : Rat) (es : List Rat) : List Nat := whereLt (-tol) es 0

/-- `numpy.sum(orbital_energies[occupied_orbitals]) + constant` -/
def energyOf (es : List Rat) (occ : List Nat) (c : Rat) : Rat := (occ.map fun j => es.getD j 0).sum + c

/-- energy returned by `jw_get_gaussian_state(H)` with the default occupation -/
def defaultEnergy (tol : Rat) (conserving : Bool) (es : List Rat) (c : Rat) : Rat :=
  energyOf es (if conserving then defaultOccupation tol es else []) c

/-! ## `antisymmetric_canonical_form`: the permutation passes -/

def swapRows (M : RMat) (i j : Nat) : RMat := (M.set i (M.getD j [])).set j (M.getD i [])

def swapCols (M : RMat) (i j : Nat) : RMat :=
  M.map fun row => (row.set i (row.getD j 0)).set j (row.getD i 0)

structure CO where
  canonical : RMat
  orthogonal : RMat

/-- `swap_rows(canonical, a, b); swap_columns(canonical, a, b); swap_columns(orthogonal, a, b)` -/
def conjSwap (s : CO) (a b : Nat) : CO :=
  ⟨swapCols (swapRows s.canonical a b) a b, swapCols s.orthogonal a b⟩

/-- `numpy.isclose(x, 0.0)` : `|x| <= atol` with `atol = 1e-8` -/
def isClose0 (atol x : Rat) : Bool := -atol ≤ x && x ≤ atol

/-- pass 1: `for i in range(1, p - 1, 2): if not isclose(canonical[i + 1, i], 0): swap(i - 1, i + 1)` -/
def pass1 (atol : Rat) (s : CO) : List Nat → CO
  | [] => s
  | i :: is => pass1 atol (if !isClose0 atol (s.canonical.get (i + 1) i) then conjSwap s (i - 1) (i + 1) else s) is

/-- pass 2: `for i in range(1, n, 2): swap(i, n + i - 1); if n % 2 != 0: swap(n - 1, n + i)` -/
def pass2 (n : Nat) (s : CO) : List Nat → CO
  | [] => s
  | i :: is =>
    let s1 := conjSwap s i (n + i - 1)
    pass2 n (if n % 2 ≠ 0 then conjSwap s1 (n - 1) (n + i) else s1) is

/-- pass 3: `for i in range(n): if canonical[i, n + i] < 0.0: swap(i, n + i)` -/
def pass3 (n : Nat) (s : CO) : List Nat → CO
  | [] => s
  | i :: is => pass3 n (if s.canonical.get i (n + i) < 0 then conjSwap s i (n + i) else s) is

/-- `numpy.argmin` of a non-empty list: first index of the minimum -/
def argminAux : List Rat → Nat → Rat → Nat → Nat
  | [], _, _, best => best
  | x :: xs, idx, cur, best => if x < cur then argminAux xs (idx + 1) x idx else argminAux xs (idx + 1) cur best

def argmin (l : List Rat) : Nat :=
  match l with
  | [] => 0
  | x :: xs => argminAux xs 1 x 0

def swapList (l : List Rat) (i j : Nat) : List Rat := (l.set i (l.getD j 0)).set j (l.getD i 0)

/-- pass 4: insertion sort of the upper-right diagonal (a copy, kept in step by `swap_rows(diagonal, ..)`) -/
def pass4 (n : Nat) : CO → List Rat → List Nat → CO
  | s, _, [] => s
  | s, diag, i :: is =>
    let am := argmin (diag.drop i) + i
    if am ≠ i then
      let c1 := swapRows s.canonical i am
      let c2 := swapCols c1 (n + i) (n + am)
      let o1 := swapCols s.orthogonal (n + i) (n + am)
      let c3 := swapRows c2 (n + i) (n + am)
      let c4 := swapCols c3 i am
      let o2 := swapCols o1 i am
      pass4 n ⟨c4, o2⟩ (swapList diag i am) is
    else pass4 n s diag is

/-- Python `range(1, b, 2)` -/
def oddRange (b : Nat) : List Nat := (List.range ((b - 1 + 1) / 2)).map fun t => 1 + 2 * t

def transpose (M : RMat) (ncols : Nat) : RMat :=
  (List.range ncols).map fun j => M.map fun row => row.getD j 0

/-- the four passes applied to the Schur form `(T, Z)` of a `2n × 2n` matrix; returns
`(canonical, orthogonal.T)` -/
def canonicalPasses (atol : Rat) (n : Nat) (T Z : RMat) : RMat × RMat :=
  let p := 2 * n
  let s1 := pass1 atol ⟨T, Z⟩ (oddRange (p - 1))
  let s2 := pass2 n s1 (oddRange n)
  let s3 := pass3 n s2 (List.range n)
  let diag := (List.range n).map fun i => s3.canonical.get i (n + i)
  let s4 := pass4 n s3 diag (List.range n)
  (s4.canonical, transpose s4.orthogonal p)

end C12
end Model
end OFV
