/-
C19 — Model of the deterministic arithmetic of
`resource_estimates/surface_code_compilation/physical_costing.py`: qubits per logical qubit, the AutoCCZ factory
dimensions (rational arithmetic; the float evaluation agrees on all 125 distance pairs of the loop, checked
exhaustively by the harness), the factory table (footprint, rounds), the layout arithmetic of `estimate_cost`
(physical qubit count, number of rounds) and the selection loop of `cost_estimator`.
The failure probabilities involve irrational powers (`0.1 ** 1.5`): whether a candidate passes the
`algorithm_failure_probability <= 0.1` filter is a *parameter* of the Model (observed from the implementation).
Import-free.
-/
import OFV.Model.C19

namespace OFV
namespace Model
namespace C19

/-- `_physical_qubits_per_logical_qubit` -/
def physPerLogical (d : Nat) : Nat := (d + 1) ^ 2 * 2

def ceilNat (x : Rat) : Nat := x.ceil.toNat

/-- `_autoccz_factory_dimensions(l1, l2)` → `(width, height, depth)` -/
def autocczDims (l1 l2 : Nat) : Nat × Nat × Rat :=
  let r : Rat := (l1 : Rat) / (l2 : Rat)
  let t1Height := 4 * r
  let t1Width := 8 * r
  let t1Depth := (23 / 4 : Rat) * r
  let cczDepth : Rat := 5
  let cczHeight : Rat := 6
  let cczWidth : Rat := 3
  let storageWidth := 2 * r
  let cczRate := 1 / cczDepth
  let t1Rate := 1 / t1Depth
  let t1Factories := ceilNat ((cczRate * 8) / t1Rate)
  let colHeight := t1Height * (ceilNat ((t1Factories : Rat) / 2) : Rat)
  let width := ceilNat (t1Width * 2 + cczWidth + storageWidth)
  let height := ceilNat (if cczHeight ≥ colHeight then cczHeight else colHeight)
  let depth := if cczDepth ≥ t1Depth then cczDepth else t1Depth
  (width, height, depth)

/-- a magic state factory: `(physical_qubit_footprint, rounds)` -/
abbrev Factory := Nat × Rat

/-- `_two_level_t_state_factory_1p1000` -/
def tFactory : Factory := ((12 * 8) * 4 * physPerLogical 31, 6 * 31)

def autocczFactory (l1 l2 : Nat) : Factory :=
  let d := autocczDims l1 l2
  (d.1 * d.2.1 * physPerLogical l2, d.2.2 * (l2 : Rat))

/-- `range(lo, hi, 2)` -/
def oddRange (lo hi : Nat) : List Nat := (List.range ((hi - lo + 1) / 2)).map fun k => lo + 2 * k

/-- `iter_auto_ccz_factories` in order -/
def autocczFactories : List Factory :=
  (oddRange 5 25).flatMap fun l1 => (oddRange (l1 + 2) 41).map fun l2 => autocczFactory l1 l2

/-- `iter_known_factories(physical_error_rate)` in order: the two-level T factory is offered only for the rate
`0.001` (`withT`) -/
def knownFactoriesFor (withT : Bool) : List Factory :=
  if withT then tFactory :: autocczFactories else autocczFactories

/-- `iter_known_factories(0.001)` in order -/
def knownFactories : List Factory := knownFactoriesFor true

/-- `AlgorithmParameters.estimate_cost`: `(physical_qubit_count, rounds)` for a routing overhead proportion and a
factory count -/
def estimateCostG (nq nt dist : Nat) (f : Factory) (routing : Rat) (fcount : Nat) : Nat × Nat :=
  let logicalStorage := ceilNat ((nq : Rat) * (1 + routing))
  let storageArea := logicalStorage * physPerLogical dist
  let distillationArea := fcount * f.1
  let rounds := ((nt : Rat) / (fcount : Rat) * f.2).floor.toNat
  (storageArea + distillationArea, rounds)

/-- with the parameters `cost_estimator` uses: `factory_count = 4`, `routing_overhead_proportion = 0.5` -/
def estimateCost (nq nt dist : Nat) (f : Factory) : Nat × Nat := estimateCostG nq nt dist f (1 / 2) 4

/-- the candidates of `cost_estimator` in loop order: every factory × `range(7, 35, 2)` -/
def candidatesFor (withT : Bool) (nq nt : Nat) : List (Nat × Nat) :=
  (knownFactoriesFor withT).flatMap fun f => (oddRange 7 35).map fun dist => estimateCost nq nt dist f

def candidates (nq nt : Nat) : List (Nat × Nat) := candidatesFor true nq nt

/-- one iteration of the selection loop on candidate `j` -/
def selectStep (cands : List (Nat × Nat)) (feasible : List Bool) (best : Option (Nat × Nat × Nat)) (j : Nat) :
    Option (Nat × Nat × Nat) :=
  if feasible.getD j false = false then best else
  let c := cands.getD j (0, 0)
  match best with
  | none => some (j, c.1, c.2)
  | some b => if c.1 * c.2 < b.2.1 * b.2.2 then some (j, c.1, c.2) else some b

/-- the selection loop: first strict minimum of `qubits × rounds` among the feasible candidates
(index, qubits, rounds) -/
def selectBest (cands : List (Nat × Nat)) (feasible : List Bool) : Option (Nat × Nat × Nat) :=
  (List.range (min cands.length feasible.length)).foldl (selectStep cands feasible) none

end C19
end Model
end OFV
