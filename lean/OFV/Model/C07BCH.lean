/-
C07 — Model of utils/bch_expansion.py: `_generate_nested_commutator`,
`_split_by_descending_edge`, `_compute_coeff`, `_coeff_monomial`,
`_coeff_monomial_with_partition`, `_coeff_for_non_descending_block`,
`_coeff_for_consectutive_op`, and the operator-list splitting of
`_bch_expand_multiple_terms`.  Binary strings are `List Bool` (`false` = '0' = X,
`true` = '1' = Y).  Exact rationals (the library uses floats).  All recursion is
structural so that the kernel can evaluate the functions.  Import-free.
-/
namespace OFV
namespace Model
namespace C07

def fact : Nat → Nat
  | 0 => 1
  | n + 1 => (n + 1) * fact n

/-- `scipy.special.comb(n, k)` on naturals -/
def choose : Nat → Nat → Nat
  | _, 0 => 1
  | 0, _ + 1 => 0
  | n + 1, k + 1 => choose n k + choose n (k + 1)

def sumRange (lo hi : Nat) (f : Nat → Rat) : Rat :=
  (List.range (hi - lo)).foldl (fun acc i => acc + f (lo + i)) 0

def negOnePow (n : Nat) : Rat := if n % 2 = 0 then 1 else -1

/-- `_coeff_for_consectutive_op(cnt_x, num_partition)` -/
def coeffConsecutive (cnt np : Nat) : Rat :=
  sumRange 0 np (fun z => negOnePow z * (((np - z) ^ cnt * choose np z : Nat) : Rat)) / (fact cnt : Rat)

/-- `_coeff_for_non_descending_block(cnt_x, cnt_y, eta)` -/
def coeffBlock (cx cy eta : Nat) : Rat :=
  if cx = 0 then coeffConsecutive cy eta
  else if cy = 0 then coeffConsecutive cx eta
  else
    sumRange 1 eta (fun ex => coeffConsecutive cx ex * coeffConsecutive cy (eta - ex)) +
    sumRange 1 (eta + 1) (fun ex => coeffConsecutive cx ex * coeffConsecutive cy (eta + 1 - ex))

/-- `_split_by_descending_edge`, each block given as `(cnt_x, cnt_y)`; `cur` is the block
being read (a block is non-descending: 0s then 1s), `prev` the previous character -/
def splitBlocks : List Bool → Bool → Nat × Nat → List (Nat × Nat)
  | [], _, cur => [cur]
  | b :: r, prev, cur =>
    if prev && !b then cur :: splitBlocks r b (1, 0)
    else splitBlocks r b (if b then (cur.1, cur.2 + 1) else (cur.1 + 1, cur.2))

def splitByDescendingEdge (s : List Bool) : List (Nat × Nat) := splitBlocks s false (0, 0)

/-- `_coeff_monomial(split, n, l)`: the depth-first search over the numbers of partitions
`j` of each block (`1 ≤ j ≤ min(len(block), n_avail - #later blocks)`, total `n`), summing
the products `_coeff_monomial_with_partition` -/
def coeffMonomial : List (Nat × Nat) → Nat → Rat
  | [], n => if n = 0 then 1 else 0
  | (cx, cy) :: rest, n =>
    sumRange 1 (min (cx + cy) (n - rest.length) + 1) fun j =>
      coeffBlock cx cy j * coeffMonomial rest (n - j)

/-- `_compute_coeff(split_bin_str)` -/
def computeCoeff (blocks : List (Nat × Nat)) : Rat :=
  let order := (blocks.map fun b => b.1 + b.2).sum
  let numBlock := blocks.length - 1
  sumRange (numBlock + 1) (order + 1) (fun n => negOnePow (n + 1) / (n : Rat) * coeffMonomial blocks n)
    / (order : Rat)

/-- `itertools.product(['0', '1'], repeat=i)` in its (lexicographic) order -/
def binStrings : Nat → List (List Bool)
  | 0 => [[]]
  | i + 1 => (binStrings i).flatMap fun s => [s ++ [false], s ++ [true]]

def lastTwoDiffer (s : List Bool) : Bool :=
  match s.reverse with
  | a :: b :: _ => a != b
  | _ => true

/-- `_generate_nested_commutator(order)`: `(term_list, coeff_list)` zipped -/
def generateNestedCommutator (order : Nat) : List (List Bool × Rat) :=
  ((List.range order).flatMap fun i0 =>
    let i := i0 + 1
    let ts := binStrings i
    if i > 1 then ts.filter lastTwoDiffer else ts).map fun t => (t, computeCoeff (splitByDescendingEdge t))

/-- the bracketing of `_bch_expand_multiple_terms` (`ops[: n // 2]`, `ops[n // 2 :]`) -/
inductive BTree
  | leaf (i : Nat)
  | node (l r : BTree)
deriving Repr

def splitTree : Nat → Nat → Nat → BTree
  | 0, lo, _ => .leaf lo
  | fuel + 1, lo, n =>
    if n ≤ 1 then .leaf lo
    else .node (splitTree fuel lo (n / 2)) (splitTree fuel (lo + n / 2) (n - n / 2))

end C07
end Model
end OFV
