/-
C14 — Model of the combinatorial glue of the circuit primitives
(`bogoliubov_transform.py`, `state_preparation.py`, `ffft.py`).

The numerical kernels (`givens_decomposition_square`, `fermionic_gaussian_decomposition`,
`slater_determinant_preparation_circuit`, `gaussian_state_preparation_circuit`: property C11/C12)
are *inputs* of this Model: a circuit description is a list of layers of `'pht'` /
`(i, j, θ, φ)` entries whose angles are referred to by their position `k` in the description.
What is mirrored here: initial-state decoding, bit flips, spin-block bookkeeping, the order and
qubit placement of the emitted operations, and the Cooley–Tukey recursion of `ffft`.
Import-free.
-/
import OFV.Model.C11

namespace OFV
namespace Model
namespace C14

/-- `_occupied_orbitals(state, n)`: indices of ones of `format(state, 'b').zfill(n)`
(big endian); for `state < 2^n` these are the `j < n` with bit `n-1-j` set -/
def occupiedOrbitals (state n : Nat) : List Nat :=
  (List.range n).filter fun j => state.testBit (n - 1 - j)

/-- `prepare_slater_determinant` / `_slater_basis_change`:
`X(qubits[j]) for j in range(n) if (j < n_occupied) != (j in occupied)` -/
def slaterFlips (n nOcc : Nat) (occ : List Nat) : List Nat :=
  (List.range n).filter fun j => (decide (j < nOcc)) != (occ.contains j)

/-- `_generic_gaussian_circuit`: `if (j in initially_occupied) != (j in start_orbitals)` -/
def gaussianFlips (n : Nat) (occ start : List Nat) : List Nat :=
  (List.range n).filter fun j => (occ.contains j) != (start.contains j)

/-- `_is_spin_block_diagonal(matrix)`: the shortcut applies to *square* matrices with an even number of
rows only (`if n % 2 or matrix.shape[1] != n: return False`); `offDiagZero` is the numerical test
`isclose(max |upper right block|, 0) and isclose(max |lower left block|, 0)`, an input of the Model -/
def spinBlockApplies (rows cols : Nat) (offDiagZero : Bool) : Bool :=
  if rows % 2 != 0 || cols != rows then false else offDiagZero

/-- spin-block split of the initially occupied orbitals in `bogoliubov_transform`:
`[i for i in occ if i < n//2]`, `[i - n//2 for i in occ if i >= n//2]` -/
def splitOrbitals (n : Nat) (occ : List Nat) : List Nat × List Nat :=
  (occ.filter (· < n / 2), (occ.filter (fun i => n / 2 ≤ i)).map (· - n / 2))

/-- `_spin_symmetric_gaussian_circuit`, sector `σ`: flips on `spin_qubits[j]`, as register
positions `j + σ·(n//2)` -/
def spinFlips (n sector : Nat) (occ start : List Nat) : List Nat :=
  ((List.range (n / 2)).filter fun j =>
    (occ.contains (j + sector * (n / 2))) != (start.contains j)).map (· + sector * (n / 2))

/-- an emitted operation: `X(q)`, `Ryxxy(θ_k)(i, j)`, `Z(j)**(φ_k/π)` -/
inductive PrimOp where
  | x (q : Nat)
  | ryxxy (i j k : Nat)
  | zpow (j k : Nat)
deriving DecidableEq, Repr

/-- `_ops_from_givens_rotations_circuit_description`; `none` is `'pht'` -/
def givensOps (n : Nat) (desc : List (List (Option (Nat × Nat × Nat)))) : List PrimOp :=
  desc.flatMap fun layer => layer.flatMap fun op =>
    match op with
    | none => [PrimOp.x (n - 1)]
    | some (i, j, k) => [PrimOp.ryxxy i j k, PrimOp.zpow j k]

/-- the qubit pairs `(j-1, j)` the Givens rotations of iteration `k` of `givens_decomposition_square`
may act on (C11 schedule `squareLayer`: position `(i, j)` is zeroed by a rotation of columns `j-1, j`;
rotations of already-zero entries are skipped by the code, so a real layer is a sub-list) -/
def slaterLayerPairs (n k : Nat) : List (Nat × Nat) :=
  (C11.squareLayer n k).map fun ij => (ij.2 - 1, ij.2)

def slaterSchedulePairs (n : Nat) : List (List (Nat × Nat)) :=
  (List.range (C11.squareDepth n)).map (slaterLayerPairs n)

/-- a circuit description (as handed to `_ops_from_givens_rotations_circuit_description` by
`_slater_basis_change`) whose every layer is drawn from one iteration of the C11 schedule -/
def FromSquareSchedule (n : Nat) (desc : List (List (Option (Nat × Nat × Nat)))) : Prop :=
  ∀ layer ∈ desc, ∃ k, ∀ op ∈ layer, ∃ a b p, op = some (a, b, p) ∧ (a, b) ∈ slaterLayerPairs n k

/-! ### ffft -/

/-- smallest factor `≥ d` of `n` (trial division, `fuel` steps) -/
def smallestFactor (n d fuel : Nat) : Nat :=
  match fuel with
  | 0 => n
  | fuel + 1 => if d * d > n then n else if n % d == 0 then d else smallestFactor n (d + 1) fuel

/-- `[f for f, count in factorint(n).items() for _ in range(count)]` (ascending primes) -/
def primeFactors (n fuel : Nat) : List Nat :=
  match fuel with
  | 0 => []
  | fuel + 1 =>
    if n < 2 then [] else
      let p := smallestFactor n 2 n
      p :: primeFactors (n / p) fuel

inductive FfftOp where
  /-- `_permute(qubits[start : start+len], permutation)` (`inv = true`: `cirq.inverse`) -/
  | perm (start : Nat) (permutation : List Nat) (inv : Bool)
  /-- `F0(qubits[q], qubits[q+1])` -/
  | f0 (q : Nat)
  /-- `_TwiddleGate(k, n).on(qubits[q])` -/
  | twiddle (k n q : Nat)
  /-- `bogoliubov_transform(qubits[start : start+p], fft_matrix(p))` -/
  | prime (start p : Nat)
deriving DecidableEq, Repr

/-- `_ffft(qubits[start : start + n], factors)`; `n` is the product of `factors` -/
def ffftRec (start n : Nat) (factors : List Nat) : List FfftOp :=
  match factors with
  | [] => []
  | [p] => if p == 2 then [FfftOp.f0 start] else [FfftOp.prime start p]
  | ny :: fx =>
    let nx := n / ny
    let permutation := (List.range n).map fun i => (i % ny) * nx + (i / ny)
    [FfftOp.perm start permutation false]
    ++ (List.range ny).flatMap (fun y => ffftRec (start + nx * y) nx fx)
    ++ [FfftOp.perm start permutation true]
    ++ (List.range nx).flatMap (fun x =>
          ((List.range (ny - 1)).map fun y' => FfftOp.twiddle (x * (y' + 1)) n (start + ny * x + y' + 1))
          ++ (if ny == 2 then [FfftOp.f0 (start + ny * x)] else [FfftOp.prime (start + ny * x) ny]))
    ++ [FfftOp.perm start permutation false]

/-- product of the factor list -/
def listProd (l : List Nat) : Nat := l.foldr (· * ·) 1

/-- Cooley–Tukey index recursion of `_ffft`, read off the emitted operations: the transformed
`a†_k` has the coefficient `n^{-1/2} e^{-2πi·ctExp factors k j / n}` on `a†_j`, `n = ∏ factors`.
For `n = ny·nx` (`ny` the first factor): `_permute` sends position `i` to `(i % ny)·nx + i / ny`
(input index `j = x'·ny + y` lands in block `y`, slot `x'`), the `ny` sub-transforms of size `nx` act on
the blocks (exponent unit `1/nx = ny/n`), the inverse permutation puts `(y, kx)` at `ny·kx + y`,
`_TwiddleGate(kx·y, n)` multiplies by `e^{-2πi kx y / n}`, the `nx` transforms of size `ny` act on
`ny·kx … ny·kx + ny − 1` (unit `1/ny = nx/n`), and the final `_permute` sends `ny·kx + ky` to
`k = ky·nx + kx`. -/
def ctExp : List Nat → Nat → Nat → Nat
  | [], _, _ => 0
  | [_], k, j => k * j
  | ny :: f :: fx, k, j =>
    let nx := listProd (f :: fx)
    ny * ctExp (f :: fx) (k % nx) (j / ny) + (k % nx) * (j % ny) + nx * ((k / nx) * (j % ny))

/-- exponent table of `ffft` on `n` modes -/
def ffftExpTable (n : Nat) : List (List Nat) :=
  (List.range n).map fun k => (List.range n).map fun j => ctExp (primeFactors n n) k j % n

/-- `ffft(qubits)` for `n ≥ 1` (`n = 1`: no operations) -/
def ffftOps (n : Nat) : List FfftOp :=
  if n ≤ 1 then [] else ffftRec 0 n (primeFactors n n)

/-! ### action of the ffft operations on one-particle coefficient vectors

`U a†_k U⁻¹ = Σ_j M_kj a†_j` with `M = g₁ g₂ ⋯ g_m` for the gates in circuit order, where `g` is the
single-particle matrix of a gate (`G a†_p G⁻¹ = Σ_q g_pq a†_q`): the row `e_k M` is obtained by letting the
operations act, in order, on a coefficient vector `v` (`v ↦ v·g`):
* `_permute` (FSWAP network, `G a†_i G⁻¹ = a†_{π(i)}`): `v'[π(i)] = v[i]`; its `cirq.inverse`: `v'[i] = v[π(i)]`;
* `F0` on `(q, q+1)` (`a†_q ↦ (a†_q + a†_{q+1})/√2`, `a†_{q+1} ↦ (a†_q − a†_{q+1})/√2`):
  `v'[q] = v[q] + v[q+1]`, `v'[q+1] = v[q] − v[q+1]` (the factor `2^{-1/2}` per layer is kept out);
* `_TwiddleGate(k, n)` on `q`: `v'[q] = ω_n^k v[q]`, `ω_n = e^{-2πi/n} = ω_N^{N/n}`.
The coefficient type is abstract (operations passed explicitly) so that the same function runs in the driver
on integer vectors modulo `X^{N/2} + 1` and is reasoned about over any commutative ring. -/

structure CoefOps (α : Type) where
  zero : α
  add : α → α → α
  sub : α → α → α
  /-- multiplication by `ω_N^e` -/
  rot : Nat → α → α

def applyFfftOp {α : Type} (O : CoefOps α) (N : Nat) (v : Nat → α) (op : FfftOp) : Nat → α :=
  match op with
  | .perm start p false => fun i =>
      if start ≤ i ∧ i < start + p.length then v (start + p.idxOf (i - start)) else v i
  | .perm start p true => fun i =>
      if start ≤ i ∧ i < start + p.length then v (start + p.getD (i - start) 0) else v i
  | .f0 q => fun i =>
      if i = q then O.add (v q) (v (q + 1)) else if i = q + 1 then O.sub (v q) (v (q + 1)) else v i
  | .twiddle k n q => fun i => if i = q then O.rot (k * (N / n)) (v q) else v i
  | .prime start p => fun i =>
      -- `bogoliubov_transform(qubits[start : start+p], fft_matrix(p))`: `a†_k ↦ p^{-1/2} Σ_j ω_p^{kj} a†_j`, so on
      -- coefficient vectors `v'[k] = Σ_j ω_p^{jk} v[j]` (the factor `p^{-1/2}` kept out, like `2^{-1/2}` of `F0`)
      if start ≤ i ∧ i < start + p then
        (List.range p).foldl (fun acc j => O.add acc (O.rot ((i - start) * j * (N / p)) (v (start + j)))) O.zero
      else v i

def runFfft {α : Type} (O : CoefOps α) (N : Nat) (ops : List FfftOp) (v : Nat → α) : Nat → α :=
  ops.foldl (applyFfftOp O N) v

/-- integer polynomials modulo `X^h + 1` (`h = N/2`), `ω_N = X`: coefficient lists of length `h` -/
def negaRot (h e : Nat) (x : List Int) : List Int :=
  let s := e % h
  let flip := (e / h) % 2 == 1
  (List.range h).map fun i =>
    let c := if s ≤ i then x.getD (i - s) 0 else -(x.getD (i + h - s) 0)
    if flip then -c else c

def negaOps (h : Nat) : CoefOps (List Int) where
  zero := List.replicate h 0
  add a b := List.zipWith (· + ·) a b
  sub a b := List.zipWith (· - ·) a b
  rot e x := negaRot h e x

/-- integer polynomials modulo `X^N − 1`, `ω_N = X` (any `N`; the identification `X^{N/2} = −1` for even `N`
holds only after evaluation at a primitive root, which is what the harness does) -/
def cycOps (N : Nat) : CoefOps (List Int) where
  zero := List.replicate N 0
  add a b := List.zipWith (· + ·) a b
  sub a b := List.zipWith (· - ·) a b
  rot e x := (List.range N).map fun i => x.getD ((i + N - e % N) % N) 0

/-- the single-particle matrix of `ffft` on any `n ≥ 1` modes (without the factor `n^{-1/2}`), entries as integer
polynomials in `ω_n` modulo `ω_n^n = 1` -/
def ffftSimCyc (n : Nat) : List (List (List Int)) :=
  let zero : List Int := List.replicate n 0
  let one : List Int := (List.range n).map fun i => if i = 0 then 1 else 0
  (List.range n).map fun k =>
    let v := runFfft (cycOps n) n (ffftOps n) (fun i => if i = k then one else zero)
    (List.range n).map v

/-- the single-particle matrix of `ffft` on `n = 2^m ≥ 2` modes (without the factor `n^{-1/2}`), entries as
integer polynomials in `ω_n` modulo `ω_n^{n/2} = −1`: row `k` = the operations applied to the unit vector `e_k` -/
def ffftSim (n : Nat) : List (List (List Int)) :=
  let h := n / 2
  let zero : List Int := List.replicate h 0
  let one : List Int := (List.range h).map fun i => if i = 0 then 1 else 0
  (List.range n).map fun k =>
    let v := runFfft (negaOps h) n (ffftOps n) (fun i => if i = k then one else zero)
    (List.range n).map v

end C14
end Model
end OFV
