/-
C16 — Model of the qubit / orbital reductions:
qubit_tapering_from_stabilizer.py (fix_single_term, _lookup_term, _reduce_terms,
_reduce_terms_keep_length, reduce_number_of_terms, taper_off_qubits),
qubit_operator_transforms.py (project_onto_sector, projection_error, rotate_qubit_by_pauli),
operator_tapering.py (freeze_orbitals, prune_unused_indices),
remove_symmetry_qubits.py (edit_hamiltonian_for_spin, remove_indices).
Executable, import-free.  Pauli codes 1 = X, 2 = Y, 3 = Z; ladder codes 1 = creation, 0 = annihilation.
-/
import OFV.Core.GQ
import OFV.Core.Dict
import OFV.Model.Symbolic

namespace OFV
namespace Model
namespace C16

inductive Err
  | stabilizerError | typeError | valueError | indexError | unboundLocalError
deriving DecidableEq, Repr

def GQ.inv (c : GQ) : GQ :=
  let n := c.normSq
  ⟨c.re / n, -c.im / n⟩

/-- `list(op.terms)[0]` / `list(op.terms.values())[0]` -/
def firstEntry (o : Op) : Except Err (Term × GQ) :=
  match o with
  | e :: _ => .ok e
  | [] => .error .indexError

/-- `check_stabilizer_linearity` -/
def checkLinearity (l : List Op) : Except Err Unit :=
  l.forM fun s => do
    let e ← firstEntry s
    if e.1 = [] then .error .stabilizerError else .ok ()

/-- `check_commuting_stabilizers`: `abs(imag(coefficient)) >= thres` -/
def checkCommuting (tol : Rat) (l : List Op) : Except Err Unit :=
  l.forM fun s => do
    let e ← firstEntry s
    if e.2.im * e.2.im ≥ tol * tol then .error .stabilizerError else .ok ()

/-- `fix_single_term` -/
def fixSingleTerm (term : Op) (pos fixedOp otherOp : Nat) (stab : Op) : Except Err Op := do
  let e ← firstEntry term
  if e.1.contains (pos, fixedOp) || e.1.contains (pos, otherOp) then .ok (mulOp .qubit term stab)
  else .ok term

/-- state of the loop over stabilizers shared by `_reduce_terms` and `_reduce_terms_keep_length`:
the term list (single-term operators), the remaining stabilizers, `fixed_positions`, the Python
local `fixed_op` (unbound at first; keeps its previous value when no Pauli is found = `stale`) -/
structure LoopState where
  terms : List Op
  stabs : List Op
  fixed : List Nat
  fixedOp : Option Nat
  stale : Bool

def otherOpOf (fixedOp : Nat) : Nat := if fixedOp = 1 ∨ fixedOp = 3 then 2 else 1

/-- the body of one iteration once the fixed qubit is known: every term and every remaining
stabilizer goes through `fix_single_term`, then the two checks on the updated stabilizers -/
def applyFix (tol : Rat) (pos fop other : Nat) (stab0 : Op) (terms rest : List Op) :
    Except Err (List Op × List Op) := do
  let newTerms ← terms.mapM fun t => fixSingleTerm t pos fop other stab0
  let updated ← rest.mapM fun s => fixSingleTerm s pos fop other stab0
  checkLinearity updated
  checkCommuting tol updated
  .ok (newTerms, updated)

/-- one iteration `i` of the loop -/
def loopStep (tol : Rat) (manual : Bool) (i : Nat) (st : LoopState) : Except Err LoopState := do
  let stab0 ← match st.stabs with
    | s :: _ => .ok s
    | [] => .error Err.indexError
  let selected := (← firstEntry stab0).1
  let (fixed, fixedOp, stale) ←
    if manual then
      match st.fixed[i]? with
      | none => .error Err.indexError
      | some p =>
        match selected.find? (fun qp => qp.1 == p) with
        | some qp => .ok (st.fixed, some qp.2, st.stale)
        | none => .ok (st.fixed, st.fixedOp, true)
    else
      match selected.find? (fun qp => !st.fixed.contains qp.1) with
      | some qp => .ok (st.fixed ++ [qp.1], some qp.2, st.stale)
      | none => .ok (st.fixed, st.fixedOp, true)
  let fop ← match fixedOp with
    | some f => .ok f
    | none => .error Err.unboundLocalError
  let other := otherOpOf fop
  let rest := st.stabs.tail
  if st.terms.isEmpty && rest.isEmpty then
    .ok ⟨[], [], fixed, fixedOp, stale⟩
  else
    let pos ← match fixed[i]? with
      | some p => .ok p
      | none => .error Err.indexError
    let (newTerms, updated) ← applyFix tol pos fop other stab0 st.terms rest
    .ok ⟨newTerms, updated, fixed, fixedOp, stale⟩

def runLoop (tol : Rat) (manual : Bool) (k : Nat) (st : LoopState) : Except Err LoopState :=
  (List.range k).foldlM (fun st i => loopStep tol manual i st) st

/-- executable form of the exact-regime predicate of one `+=` (`ExactAdd` of OFV/Proofs/C01Hom.lean):
no partial sum is non-zero but below the tolerance (then `+=` prunes nothing it should keep) -/
def exactAddB (tol : Rat) : Op → Op → Bool
  | _, [] => true
  | a, (t, c) :: b =>
    (!(GQ.isSmall tol (Dict.getD a t 0 + c)) || decide (Dict.getD a t 0 + c = 0)) &&
    exactAddB tol (if GQ.isSmall tol (Dict.getD a t 0 + c) then Dict.erase a t
                   else Dict.set a t (Dict.getD a t 0 + c)) b

/-- the exact regime of `for p in pieces: acc += p` -/
def exactSumB (tol : Rat) : Op → List Op → Bool
  | _, [] => true
  | acc, p :: ps => exactAddB tol acc p && exactSumB tol (Model.iadd tol acc p) ps

/-- the body of the `for i, _ in enumerate(stabilizer_list)` loop of `_reduce_terms` -/
def redBody (tol : Rat) (manual : Bool) (acc : Op × LoopState) (i : Nat) : Except Err (Op × LoopState) := do
  let st := { acc.2 with terms := acc.1.map fun e => [e] }
  let st' ← loopStep tol manual i st
  let newOp := st'.terms.foldl (fun o t => Model.iadd tol o t) []
  .ok (newOp, st')

/-- the loop body together with the running exactness flag -/
def redBodyX (tol : Rat) (manual : Bool) (acc : (Op × LoopState) × Bool) (i : Nat) :
    Except Err ((Op × LoopState) × Bool) := do
  let r ← redBody tol manual acc.1 i
  .ok (r, acc.2 && exactSumB tol [] r.2.terms)

/-- `_reduce_terms`: the operator is rebuilt with `+=` after every stabilizer.  Returns
`(terms, fixed_positions, stale, exact)`; `exact` tells whether every `new_terms +=` of this run was
in the exact regime (the hypothesis of `reduce_terms_agrees_on_codespace`, evaluated per input). -/
def reduceTerms (tol : Rat) (terms : Op) (stabs : List Op) (manual : Bool) (fixed : List Nat) :
    Except Err (Op × List Nat × Bool × Bool) := do
  let init : LoopState := ⟨[], stabs, if manual then fixed else [], none, false⟩
  let r ← (List.range stabs.length).foldlM (redBodyX tol manual) ((terms, init), true)
  .ok (r.1.1, r.1.2.fixed, r.1.2.stale, r.2)

/-- `_lookup_term` -/
def lookupTerm (pauli : Term) (terms1 : List Op) (terms2 : List Term) : Op :=
  let r := (terms1.zip terms2).foldl (fun (acc : Op × Nat) (x : Op × Term) =>
    let len1 := match x.1 with
      | e :: _ => e.1.length
      | [] => 0
    if pauli = x.2 ∧ acc.2 > len1 then (x.1, len1) else acc) (mk .qubit pauli 1, pauli.length)
  r.1

/-- `_reduce_terms_keep_length` -/
def reduceTermsKeepLength (tol : Rat) (terms : Op) (stabs : List Op) (manual : Bool) (fixed : List Nat) :
    Except Err (Op × List Nat × Bool × Bool) := do
  let dup : List Term := terms.map (·.1)
  let init : LoopState := ⟨dup.map fun x => mk .qubit x 1, stabs, if manual then fixed else [], none, false⟩
  let st ← runLoop tol manual stabs.length init
  -- when the operator has no term and one stabilizer is left the loop body stores [] (no term anyway)
  let termList := if st.terms.length = dup.length then st.terms else dup.map fun x => mk .qubit x 1
  let newTerms := (termList.zip terms).foldl (fun o (ent, e) => Model.iadd tol o (smul e.2 ent)) []
  let dupOps ← (termList.zip dup).mapM fun (ent, x) => do
    let e ← firstEntry ent
    .ok (smul (GQ.inv e.2) (mk .qubit x 1))
  let keys ← termList.mapM fun ent => do .ok (← firstEntry ent).1
  let out := newTerms.foldl (fun o (ps, c) => Model.iadd tol o (smul c (lookupTerm ps dupOps keys))) []
  .ok (out, st.fixed, st.stale, true)

def hasDup : List Nat → Bool
  | [] => false
  | x :: r => r.contains x || hasDup r

/-- `reduce_number_of_terms` (returns also `fixed_positions` and whether a stale `fixed_op` was used) -/
def reduceNumberOfTerms (tol : Rat) (operator : Op) (stabs : List Op) (maintainLength manual : Bool)
    (fixed : Option (List Nat)) : Except Err (Op × List Nat × Bool × Bool) := do
  checkLinearity stabs
  checkCommuting tol stabs
  let fixedL ← if manual then
      match fixed with
      | none => .error Err.typeError
      | some f =>
        if f.length ≠ stabs.length then .error Err.stabilizerError
        else if hasDup f then .error Err.stabilizerError
        else .ok f
    else .ok (fixed.getD [])
  if maintainLength then reduceTermsKeepLength tol operator stabs manual fixedL
  else reduceTerms tol operator stabs manual fixedL

/-- `count_qubits(QubitOperator)` -/
def countQubits (o : Op) : Nat :=
  o.foldl (fun m (t, _) => match t.getLast? with
    | some f => max m (f.1 + 1)
    | none => m) 0

def insertAt {α} (l : List α) (i : Nat) (x : α) : List α := l.take i ++ x :: l.drop i

def insertSorted (x : Nat) : List Nat → List Nat
  | [] => [x]
  | y :: r => if x ≤ y then x :: y :: r else y :: insertSorted x r

/-- `qbit_order`: `list(arange(n - k))` with `'remove'` (`none`) inserted at every sorted removed position -/
def qbitOrder (n : Nat) (rmSorted : List Nat) : List (Option Nat) :=
  rmSorted.foldl (fun o x => insertAt o x none) ((List.range (n - rmSorted.length)).map some)

/-- one Pauli of a term: dropped on a removed qubit, renumbered by `qbit_order` otherwise -/
def taperTermStep (order : List (Option Nat)) (l : Term) (p : Factor) : Except Err Term :=
  match order[p.1]? with
  | none => Except.error Err.indexError
  | some none => .ok l
  | some (some q) => .ok (l ++ [(q, p.2)])

/-- the Paulis of a term on the kept qubits, renumbered by `qbit_order` -/
def taperTerm (order : List (Option Nat)) (t : Term) : Except Err Term :=
  t.foldlM (taperTermStep order) []

/-- one `skimmed_operator +=` of `taper_off_qubits`, with the running exactness flag -/
def taperStep (tol : Rat) (order : List (Option Nat)) (acc : Op × Bool) (e : Term × GQ) : Except Err (Op × Bool) :=
  if e.1 = [] then
    .ok (Model.iadd tol acc.1 (mk .qubit [] e.2), acc.2 && exactAddB tol acc.1 (mk .qubit [] e.2))
  else do
    let tpls ← taperTerm order e.1
    .ok (Model.iadd tol acc.1 (mk .qubit tpls e.2), acc.2 && exactAddB tol acc.1 (mk .qubit tpls e.2))

/-- the last loop of `taper_off_qubits`: the Paulis on the removed qubits are dropped -/
def taperStrip (tol : Rat) (n : Nat) (ham : Op) (rmSorted : List Nat) : Except Err (Op × Bool) :=
  ham.foldlM (taperStep tol (qbitOrder n rmSorted)) ([], true)

/-- `taper_off_qubits`; the flag is the exact regime of the reduction and of the last loop -/
def taperOffQubits (tol : Rat) (operator : Op) (stabs : List Op) (manual : Bool) (fixed : Option (List Nat)) :
    Except Err (Op × List Nat × Bool × Bool) := do
  let nStabs := stabs.foldl (fun m s => max m (countQubits s)) 0
  let n := max (countQubits operator) nStabs
  let (ham, rm, stale, exact) ← reduceNumberOfTerms tol operator stabs false manual fixed
  let rmSorted := rm.foldr insertSorted []
  let out ← taperStrip tol n ham rmSorted
  .ok (out.1, rmSorted, stale, exact && out.2)

/-- hypothesis of `taper_off_qubits_invariant_subspace`, evaluated per input: on every removed qubit
the reduced operator carries only `I`/`X` or only `I`/`Z` -/
def taperHypX (tol : Rat) (operator : Op) (stabs : List Op) (manual : Bool) (fixed : Option (List Nat)) : Bool :=
  match reduceNumberOfTerms tol operator stabs false manual fixed with
  | .ok r => r.2.1.all fun q =>
      (r.1.all fun e => e.1.all fun f => f.1 != q || f.2 == 1) ||
      (r.1.all fun e => e.1.all fun f => f.1 != q || f.2 == 3)
  | .error _ => true

/-! ### qubit_operator_transforms.py -/

def indexOf (l : List Nat) (x : Nat) : Nat :=
  match l with
  | [] => 0
  | y :: r => if y = x then 0 else indexOf r x + 1

/-- new index of a kept qubit: `j - len([q for q in qubits if q < j])` -/
def shiftDown (R : List Nat) (j : Nat) : Nat := j - (R.filter fun q => q < j).length

/-- what one term contributes to `project_onto_sector`: nothing when it has `X` / `Y` on a removed
qubit, otherwise the re-indexed term with the sector sign -/
def projPiece (qubits sectors : List Nat) (x : Term × GQ) : Option Op :=
  if x.1.any (fun t => qubits.contains t.1 && (t.2 == 1 || t.2 == 2)) then none
  else
    let newTerm := (x.1.filter fun t => !qubits.contains t.1).map fun t => (shiftDown qubits t.1, t.2)
    let e := ((x.1.filter fun t => qubits.contains t.1).map fun t =>
      sectors[indexOf qubits t.1]?.getD 0).foldl (· + ·) 0
    some (mk .qubit newTerm (x.2 * GQ.sgn e))

/-- one `projected_operator += …` together with the running exactness flag -/
def projStep (tol : Rat) (qubits sectors : List Nat) (acc : Op × Bool) (x : Term × GQ) : Op × Bool :=
  match projPiece qubits sectors x with
  | none => acc
  | some p => (Model.iadd tol acc.1 p, acc.2 && exactAddB tol acc.1 p)

/-- `project_onto_sector`; the second component tells whether every `projected_operator +=` of this
run was in the exact regime -/
def projectOntoSector (tol : Rat) (operator : Op) (qubits sectors : List Nat) : Except Err (Op × Bool) :=
  if qubits.length ≠ sectors.length then .error .valueError
  else if sectors.any (fun i => i ≠ 0 ∧ i ≠ 1) then .error .valueError
  else .ok (operator.foldl (projStep tol qubits sectors) ([], true))

/-- `projection_error ** 2` (the square root is taken by numpy) -/
def projectionErrorSq (operator : Op) (qubits sectors : List Nat) : Except Err Rat :=
  if qubits.length ≠ sectors.length then .error .valueError
  else if sectors.any (fun i => i ≠ 0 ∧ i ≠ 1) then .error .valueError
  else .ok (operator.foldl (fun acc (term, factor) =>
    if term.any (fun t => qubits.contains t.1 && (t.2 == 1 || t.2 == 2)) then acc + factor.normSq
    else acc) 0)

/-- `rotate_qubit_by_pauli` with `c2 = cos(2 angle)`, `s2 = sin(2 angle)` supplied -/
def rotateQubitByPauli (tol : Rat) (qop pauli : Op) (c2 s2 : GQ) : Except Err Op :=
  match pauli with
  | [(_, c)] =>
    if c ≠ 1 then .error .typeError else
    let half : GQ := ⟨1/2, 0⟩
    let pqp := mulOp .qubit (mulOp .qubit pauli qop) pauli
    let even := smul half (Model.iadd tol qop pqp)
    let odd := smul half (Model.isub tol qop pqp)
    let a := Model.iadd tol even (smul c2 odd)
    .ok (Model.iadd tol a (mulOp .qubit (smul (GQ.I * s2) odd) pauli))
  | _ => .error .typeError

/-! ### operator_tapering.py -/

/-- the scan of one term for one frozen `(index, occupancy)`:
returns `(new_term, n_swaps, annihilated, final occupancy)` -/
def freezeStep (item : Nat × Nat) (st : Term × Int × Bool × Nat × Int) (op : Factor × Nat) :
    Term × Int × Bool × Nat × Int :=
  if op.1.1 = item.1 then
    (st.1, st.2.1 + ((op.2 : Int) - (st.2.2.2.2 + 1)), st.2.2.1 || (st.2.2.2.1 == op.1.2),
      (st.2.2.2.1 + 1) % 2, st.2.2.2.2 + 1)
  else (op.1 :: st.1, st.2.1, st.2.2.1, st.2.2.2.1, st.2.2.2.2)

def freezeScan (item : Nat × Nat) (term : Term) : Term × Int × Bool × Nat :=
  let r := term.reverse.zipIdx.foldl (freezeStep item) (([] : Term), (0 : Int), false, item.2, (0 : Int))
  (r.1, r.2.1, r.2.2.1, r.2.2.2.1)

/-- one term of one pass of the outer loop of `freeze_orbitals`; the flag records that the
accumulation into `tmp_operator` never dropped a non-zero sum below the tolerance -/
def freezeStepX (tol : Rat) (item : Nat × Nat) (acc : Op × Bool) (e : Term × GQ) : Op × Bool :=
  let sc := freezeScan item e.1
  let c0 : GQ := if sc.2.2.1 then 0 else e.2
  let c1 : GQ := if sc.2.1 % 2 ≠ 0 then c0 * (-1) else c0
  if c1 ≠ 0 ∧ sc.2.2.2 = item.2 then
    (Model.iadd tol acc.1 (mk .fermion sc.1 c1), acc.2 && exactAddB tol acc.1 (mk .fermion sc.1 c1))
  else acc

/-- one pass of the outer loop of `freeze_orbitals`, with the exact-regime flag -/
def freezeOneX (tol : Rat) (item : Nat × Nat) (A : Op) : Op × Bool :=
  A.foldl (freezeStepX tol item) ([], true)

/-- one pass of the outer loop of `freeze_orbitals` -/
def freezeOne (tol : Rat) (item : Nat × Nat) (A : Op) : Op := (freezeOneX tol item A).1

/-- `prune_unused_indices` -/
def pruneUnusedIndices (A : Op) : Op :=
  let indices := A.foldl (fun l (t, _) => t.foldl (fun l f => if l.contains f.1 then l else l ++ [f.1]) l) []
  let sorted := indices.foldr C16.insertSorted []
  A.foldl (fun acc (t, c) => Dict.set acc (t.map fun f => (indexOf sorted f.1, f.2)) c) []

/-- the outer loop of `freeze_orbitals` over the frozen `(index, occupancy)` pairs -/
def freezeAll (tol : Rat) (frozen : List (Nat × Nat)) (acc : Op × Bool) : Op × Bool :=
  frozen.foldl (fun (acc : Op × Bool) item =>
    ((freezeOneX tol item acc.1).1, acc.2 && (freezeOneX tol item acc.1).2)) acc

/-- `freeze_orbitals`, with the exact-regime flag of the run -/
def freezeOrbitalsX (tol : Rat) (A : Op) (occupied unoccupied : List Nat) (prune : Bool) : Op × Bool :=
  let frozen := occupied.map (fun i => (i, 1)) ++ unoccupied.map (fun i => (i, 0))
  let B := freezeAll tol frozen (A, true)
  let C := B.1.map fun (e : Term × GQ) =>
    (e.1, if ((occupied.map fun idx => (e.1.filter fun f => f.1 > idx).length).foldl (· + ·) 0) % 2 = 0
      then e.2 else e.2 * (-1))
  (if prune then pruneUnusedIndices C else C, B.2)

def freezeOrbitals (tol : Rat) (A : Op) (occupied unoccupied : List Nat) (prune : Bool) : Op :=
  (freezeOrbitalsX tol A occupied unoccupied prune).1

/-! ### remove_symmetry_qubits.py -/

/-- `SymbolicOperator.compress(abs_tol = EQ_TOLERANCE)` -/
def compress (tol : Rat) (A : Op) : Op :=
  A.filterMap fun (t, c) =>
    let c1 : GQ := if c.im * c.im ≤ tol * tol then ⟨c.re, 0⟩ else c
    let c2 : GQ := if c1.re * c1.re ≤ tol * tol then ⟨0, c1.im⟩ else c1
    if c2.normSq > tol * tol then some (t, c2) else none

/-- exact regime of `compress`: every real and imaginary part is zero or above the tolerance
(nothing is truncated, only exact zeros are dropped) -/
def compressExactB (tol : Rat) (A : Op) : Bool :=
  A.all fun e => (e.2.im == 0 || decide (e.2.im * e.2.im > tol * tol)) &&
    (e.2.re == 0 || decide (e.2.re * e.2.re > tol * tol))

/-- the dictionary `edit_hamiltonian_for_spin` builds before it calls `compress` -/
def editRaw (A : Op) (spinOrbital : Nat) (parity : GQ) : Op :=
  A.foldl (fun (acc : Op) (e : Term × GQ) =>
    if spinOrbital ≥ 1 ∧ e.1.contains (spinOrbital - 1, 3) then
      accum acc (e.1.filter fun f => f ≠ (spinOrbital - 1, 3)) (e.2 * parity)
    else accum acc e.1 e.2) []

/-- `edit_hamiltonian_for_spin(qubit_hamiltonian, spin_orbital, orbital_parity)` -/
def editHamiltonianForSpin (tol : Rat) (A : Op) (spinOrbital : Nat) (parity : GQ) : Op :=
  compress tol (editRaw A spinOrbital parity)

/-- `new_index` of `remove_indices`: `index - len([i for i in indices if (i - 1) < index])` -/
def newIndex (indices : List Nat) (j : Nat) : Nat := j - (indices.filter fun i => i < j + 1).length

/-- `remove_indices(symbolic_operator, indices)` -/
def removeIndices (A : Op) (indices : List Nat) : Op :=
  A.foldl (fun acc (t, c) =>
    Dict.set acc (t.map fun f => (newIndex indices f.1, f.2)) c) []

/-- the reduction part of `symmetry_conserving_bravyi_kitaev` applied to the (compressed)
Bravyi-Kitaev-tree Hamiltonian on `n = active_orbitals` qubits -/
def scbkReduce (tol : Rat) (A : Op) (n fermions : Nat) : Op :=
  let r := fermions % 4
  let pFinal : GQ := if r = 0 ∨ r = 2 then 1 else -1
  let pMiddle : GQ := if r = 0 ∨ r = 3 then 1 else -1
  let A1 := editHamiltonianForSpin tol A n pFinal
  let A2 := editHamiltonianForSpin tol A1 (n / 2) pMiddle
  removeIndices A2 [n / 2, n]

/-- exact regime of `symmetry_conserving_bravyi_kitaev`'s reduction: both `compress` calls exact -/
def scbkExact (tol : Rat) (A : Op) (n fermions : Nat) : Bool :=
  let r := fermions % 4
  let pFinal : GQ := if r = 0 ∨ r = 2 then 1 else -1
  let pMiddle : GQ := if r = 0 ∨ r = 3 then 1 else -1
  compressExactB tol (editRaw A n pFinal) &&
    compressExactB tol (editRaw (editHamiltonianForSpin tol A n pFinal) (n / 2) pMiddle)

end C16
end Model
end OFV
