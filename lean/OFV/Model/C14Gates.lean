/-
C14 — Model of the gate unitaries of `openfermion.circuits.gates` as exact matrices over the
Gaussian rationals, parametrised by *rational points of the unit circle* `(c, s)`,
`c² + s² = 1` standing for `(cos θ, sin θ)` (the harness generates Pythagorean angles and
feeds the real gates the float angle `atan2(s, c)`).

Conventions (cirq): the first qubit of a gate is the most significant bit of the matrix
index; `Z**t = diag(1, e^{iπt})`; `ISWAP**t`, `PhasedISwapPowGate`, `ZZPowGate`, `CZ**t`.

  common_gates.py      FSwapPowGate (docstring matrix), Rxxyy, Ryxxy, Rzz, rot11
  three_qubit_gates.py rot111, CRxxyy, CRyxxy
  four_qubit_gates.py  DoubleExcitationGate
  fermionic_simulation.py  QuadraticFermionicSimulationGate (+ `_decompose_`),
                           QuarticFermionicSimulationGate, CubicFermionicSimulationGate
                           (one non-zero weight: a single two-level rotation)
Import-free.
-/
import OFV.Core.GQ

namespace OFV
namespace Model
namespace C14

/-- dense row-major matrix -/
abbrev Mat := List (List GQ)

namespace Mat

def dot (r c : List GQ) : GQ := (List.zipWith (· * ·) r c).foldl (· + ·) 0

def transpose : Mat → Mat
  | [] => []
  | [r] => r.map (fun x => [x])
  | r :: rs => List.zipWith (· :: ·) r (transpose rs)

def mul (A B : Mat) : Mat :=
  let Bt := transpose B
  A.map fun r => Bt.map fun c => dot r c

def add (A B : Mat) : Mat := List.zipWith (List.zipWith (· + ·)) A B

def smul (k : GQ) (A : Mat) : Mat := A.map (·.map (k * ·))

def dagger (A : Mat) : Mat := (transpose A).map (·.map GQ.conj)

def ofInt (A : List (List Int)) : Mat := A.map (·.map GQ.ofInt)

/-- Kronecker product (first factor = most significant) -/
def kron (A B : Mat) : Mat :=
  A.flatMap fun ra => B.map fun rb => ra.flatMap fun a => rb.map fun b => a * b

def identity (n : Nat) : Mat :=
  (List.range n).map fun i => (List.range n).map fun j => if i = j then 1 else 0

/-- identity with the 2×2 block `[[a, b], [c, d]]` placed on the index pair `i < j` -/
def twoLevel (n i j : Nat) (a b c d : GQ) : Mat :=
  (List.range n).map fun r => (List.range n).map fun k =>
    if r = i ∧ k = i then a else if r = i ∧ k = j then b
    else if r = j ∧ k = i then c else if r = j ∧ k = j then d
    else if r = k then 1 else 0

end Mat

/-- `e^{iθ}` for the rational point `(c, s)` -/
def cis (c s : Rat) : GQ := ⟨c, s⟩

/-! ### common_gates.py -/

/-- `FSWAP` (exponent 1) -/
def fswap : Mat := [[1, 0, 0, 0], [0, 0, 1, 0], [0, 1, 0, 0], [0, 0, 0, -1]]

/-- `FSWAP ** t` with `(c, s) = (cos(πt/2), sin(πt/2))`: the docstring matrix
`[[1,0,0,0],[0,g·c,-i·g·s,0],[0,-i·g·s,g·c,0],[0,0,0,p]]`, `g = e^{iπt/2}`, `p = e^{iπt} = g²` -/
def fswapPow (c s : Rat) : Mat :=
  let g := cis c s
  [[1, 0, 0, 0],
   [0, g * GQ.ofRat c, -(GQ.I * g * GQ.ofRat s), 0],
   [0, -(GQ.I * g * GQ.ofRat s), g * GQ.ofRat c, 0],
   [0, 0, 0, g * g]]

/-- `Rxxyy(θ) = exp(-iθ(XX+YY)/2) = ISWAP ** (-2θ/π)` -/
def rxxyy (c s : Rat) : Mat :=
  [[1, 0, 0, 0], [0, GQ.ofRat c, ⟨0, -s⟩, 0], [0, ⟨0, -s⟩, GQ.ofRat c, 0], [0, 0, 0, 1]]

/-- `Ryxxy(θ) = exp(-iθ(YX-XY)/2) = PhasedISwapPowGate ** (2θ/π)` -/
def ryxxy (c s : Rat) : Mat :=
  [[1, 0, 0, 0], [0, GQ.ofRat c, GQ.ofRat (-s), 0], [0, GQ.ofRat s, GQ.ofRat c, 0], [0, 0, 0, 1]]

/-- `Rzz(θ) = exp(-iθ ZZ)` -/
def rzz (c s : Rat) : Mat :=
  [[cis c (-s), 0, 0, 0], [0, cis c s, 0, 0], [0, 0, cis c s, 0], [0, 0, 0, cis c (-s)]]

/-- `rot11(θ) = CZ ** (θ/π)`: phases `|11⟩` by `e^{iθ}` -/
def rot11 (c s : Rat) : Mat :=
  [[1, 0, 0, 0], [0, 1, 0, 0], [0, 0, 1, 0], [0, 0, 0, cis c s]]

/-! ### three_qubit_gates.py -/

def rot111 (c s : Rat) : Mat := Mat.twoLevel 8 7 7 (cis c s) 0 0 (cis c s)

/-- controlled gate: `diag(I, U)` -/
def controlled (U : Mat) : Mat :=
  let n := U.length
  (List.range (2 * n)).map fun r => (List.range (2 * n)).map fun k =>
    if r < n ∧ k < n then (if r = k then 1 else 0)
    else if n ≤ r ∧ n ≤ k then (U.getD (r - n) []).getD (k - n) 0
    else 0

def crxxyy (c s : Rat) : Mat := controlled (rxxyy c s)
def cryxxy (c s : Rat) : Mat := controlled (ryxxy c s)

/-! ### two-level rotations `exp(-i t [[0, w̄], [w, 0]])`, `w = r·u`, `(c, s) = (cos rt, sin rt)`,
`u = e^{i arg w}` -/

def rotA (c : Rat) : GQ := GQ.ofRat c
/-- upper right entry `-i s ū` -/
def rotB (s : Rat) (u : GQ) : GQ := ⟨0, -s⟩ * GQ.conj u
/-- lower left entry `-i s u` -/
def rotC (s : Rat) (u : GQ) : GQ := ⟨0, -s⟩ * u

/-! ### four_qubit_gates.py -/

/-- `DoubleExcitationGate(exponent=t)`, `(c, s) = (cos πt, sin πt)`:
`exp(+iπt (|0011⟩⟨1100| + h.c.))` -/
def doubleExcitation (c s : Rat) : Mat :=
  Mat.twoLevel 16 3 12 (GQ.ofRat c) ⟨0, s⟩ ⟨0, s⟩ (GQ.ofRat c)

/-! ### fermionic_simulation.py -/

/-- `QuadraticFermionicSimulationGate((w0, w1), exponent=t)`:
`(c0, s0) = (cos |w0|t, sin |w0|t)`, `u = w0/|w0|`, `(c1, s1) = (cos w1 t, sin w1 t)` -/
def quadratic (c0 s0 : Rat) (u : GQ) (c1 s1 : Rat) : Mat :=
  [[1, 0, 0, 0], [0, rotA c0, rotB s0 u, 0], [0, rotC s0 u, rotA c0, 0], [0, 0, 0, cis c1 (-s1)]]

/-- `Z ** θ` on the first of two qubits, `u = e^{iπθ}` -/
def zFirst (u : GQ) : Mat := [[1, 0, 0, 0], [0, 1, 0, 0], [0, 0, u, 0], [0, 0, 0, u]]

/-- `QuadraticFermionicSimulationGate._decompose_`:
`Z(q0)**-θ ; ISWAP**(-r·t)(q0,q1) ; Z(q0)**θ ; CZ**(-w1·t/π)` (matrix product in reverse) -/
def quadraticDecomposed (c0 s0 : Rat) (u : GQ) (c1 s1 : Rat) : Mat :=
  Mat.mul (rot11 c1 (-s1)) (Mat.mul (zFirst u) (Mat.mul (rxxyy c0 s0) (zFirst (GQ.conj u))))

/-- generator `qubit_generator_matrix` of the quadratic gate -/
def quadraticGenerator (w0 w1 : GQ) : Mat :=
  [[0, 0, 0, 0], [0, 0, GQ.conj w0, 0], [0, w0, 0, 0], [0, 0, 0, w1]]

/-- place a two-level rotation into a matrix (composition of commuting blocks is done by
successive `setBlock`s on the identity) -/
def setBlock (M : Mat) (i j : Nat) (a b c d : GQ) : Mat :=
  (List.range M.length).map fun r => (List.range M.length).map fun k =>
    if r = i ∧ k = i then a else if r = i ∧ k = j then b
    else if r = j ∧ k = i then c else if r = j ∧ k = j then d
    else (M.getD r []).getD k 0

/-- `QuarticFermionicSimulationGate((w0, w1, w2), exponent=t)`: independent rotations of
`(|0110⟩,|1001⟩)`, `(|0101⟩,|1010⟩)`, `(|0011⟩,|1100⟩)`; parameters per weight as above -/
def quartic (p0 p1 p2 : Rat × Rat × GQ) : Mat :=
  let blk (M : Mat) (i j : Nat) (p : Rat × Rat × GQ) : Mat :=
    setBlock M i j (rotA p.1) (rotB p.2.1 p.2.2) (rotC p.2.1 p.2.2) (rotA p.1)
  blk (blk (blk (Mat.identity 16) 6 9 p0) 5 10 p1) 3 12 p2

/-- `CubicFermionicSimulationGate` with exactly one non-zero weight `w_k` (`k = 0, 1, 2`):
a rotation of `(|101⟩,|110⟩)`, `(|011⟩,|110⟩)`, `(|011⟩,|101⟩)` respectively -/
def cubicSingle (k : Nat) (p : Rat × Rat × GQ) : Mat :=
  let ij := match k with | 0 => (5, 6) | 1 => (3, 6) | _ => (3, 5)
  setBlock (Mat.identity 8) ij.1 ij.2 (rotA p.1) (rotB p.2.1 p.2.2) (rotC p.2.1 p.2.2) (rotA p.1)

/-- the Hermitian 3×3 block `nontrivial_part` of `CubicFermionicSimulationGate._eigen_components`
(basis `|011⟩, |101⟩, |110⟩` = indices 3, 5, 6), general weights -/
def cubicBlock (w0 w1 w2 : GQ) : Mat :=
  [[0, GQ.conj w2, GQ.conj w1], [w2, 0, GQ.conj w0], [w1, w0, 0]]

/-- `CubicFermionicSimulationGate.qubit_generator_matrix`: the block placed on indices 3, 5, 6 -/
def cubicGenerator (w0 w1 w2 : GQ) : Mat :=
  let idx : Nat → Option Nat := fun r => if r = 3 then some 0 else if r = 5 then some 1 else if r = 6 then some 2 else none
  (List.range 8).map fun r => (List.range 8).map fun k =>
    match idx r, idx k with
    | some a, some b => ((cubicBlock w0 w1 w2).getD a []).getD b 0
    | _, _ => 0

/-- `QuarticFermionicSimulationGate.qubit_generator_matrix`: `w0|1001⟩⟨0110| + w1|1010⟩⟨0101| + w2|1100⟩⟨0011| + h.c.` -/
def quarticGenerator (w0 w1 w2 : GQ) : Mat :=
  (List.range 16).map fun r => (List.range 16).map fun k =>
    if r = 9 ∧ k = 6 then w0 else if r = 6 ∧ k = 9 then GQ.conj w0
    else if r = 10 ∧ k = 5 then w1 else if r = 5 ∧ k = 10 then GQ.conj w1
    else if r = 12 ∧ k = 3 then w2 else if r = 3 ∧ k = 12 then GQ.conj w2
    else 0

/-- generator of `DoubleExcitationGate`: `−|0011⟩⟨1100| − |1100⟩⟨0011|` (the gate with exponent `t` is
`exp(−iπt·G)`) -/
def doubleExcitationGenerator : Mat :=
  (List.range 16).map fun r => (List.range 16).map fun k =>
    if (r = 3 ∧ k = 12) ∨ (r = 12 ∧ k = 3) then -1 else 0

end C14
end Model
end OFV
