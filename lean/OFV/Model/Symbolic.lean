/-
Model of `SymbolicOperator` arithmetic (symbolic_operator.py) and of the
`_simplify` methods of FermionOperator / BosonOperator / QuadOperator /
QubitOperator / IsingOperator, and of `MajoranaOperator` (majorana_operator.py).
Executable, import-free apart from the extracted Pauli table.

Action codes: Qubit/Ising 1 = X, 2 = Y, 3 = Z (0 = I only transiently);
Fermion/Boson 1 = creation, 0 = annihilation; Quad 0 = q, 1 = p.
-/
import OFV.Core.GQ
import OFV.Core.Dict
import OFV.Generated.Tables

namespace OFV
namespace Model

abbrev Factor := Nat × Nat
abbrev Term := List Factor
abbrev Op := List (Term × GQ)

inductive Cls | fermion | qubit | boson | quad | ising
deriving DecidableEq, Repr, Inhabited

/-- stable insertion (Python `sorted(term, key=index)` is stable): `f` came
before everything in the already sorted tail, so it goes before equal keys. -/
def insertF (f : Factor) : Term → Term
  | [] => [f]
  | g :: r => if f.1 ≤ g.1 then f :: g :: r else g :: insertF f r

def sortF : Term → Term
  | [] => []
  | f :: r => insertF f (sortF r)

/-- The merge loop of `QubitOperator._simplify` over an index-sorted term:
`l` is the pending `left_factor`.  Returns the accumulated coefficient factor
and the output term. -/
def mergeQ : Factor → Term → GQ × Term
  | l, [] => (1, if l.2 = 0 then [] else [l])
  | l, r :: rest =>
    if l.1 = r.1 then
      let pr := Generated.pauliProd l.2 r.2
      let res := mergeQ (l.1, pr.2) rest
      (pr.1 * res.1, res.2)
    else
      let res := mergeQ r rest
      (res.1, if l.2 = 0 then res.2 else l :: res.2)

def simplifyQubit (t : Term) : GQ × Term :=
  match sortF t with
  | [] => (1, [])
  | l :: rest => mergeQ l rest

/-- `IsingOperator._simplify`: indices occurring an odd number of times, sorted. -/
def oddInsert (i : Nat) : List Nat → List Nat
  | [] => [i]
  | j :: r => if i < j then i :: j :: r else if i = j then r else j :: oddInsert i r

def simplifyIsing (t : Term) : GQ × Term :=
  (1, (t.foldr (fun f acc => oddInsert f.1 acc) []).map fun i => (i, 3))

/-- `_simplify` of each class: `(coefficient factor, new term)`. -/
def simplify : Cls → Term → GQ × Term
  | .fermion, t => (1, t)
  | .boson, t => (1, sortF t)
  | .quad, t => (1, sortF t)
  | .qubit, t => simplifyQubit t
  | .ising, t => simplifyIsing t

/-- `result[k] += c` / `result[k] = c` (no deletion) -/
def accum (d : Op) (k : Term) (c : GQ) : Op :=
  match Dict.get? d k with
  | some v => Dict.set d k (v + c)
  | none => Dict.set d k c

/-- `SymbolicOperator.__init__(term, coefficient)` for a sequence term -/
def mk (cls : Cls) (t : Term) (c : GQ) : Op :=
  let s := simplify cls t
  [(s.2, c * s.1)]

/-- `__imul__` with an operator -/
def mulOp (cls : Cls) (a b : Op) : Op :=
  a.foldl (fun acc (lt, lc) =>
    b.foldl (fun acc2 (rt, rc) =>
      let s := simplify cls (lt ++ rt)
      accum acc2 s.2 (lc * rc * s.1)) acc) []

/-- `__imul__` with a scalar -/
def smul (c : GQ) (a : Op) : Op := a.map fun (t, v) => (t, v * c)

/-- `__iadd__` with an operator: `self[t] = self.get(t, 0) + b[t]`, deleted
when small.  A new key is appended; an existing key keeps its position. -/
def iadd (tol : Rat) (a b : Op) : Op :=
  b.foldl (fun acc (t, c) =>
    let v := Dict.getD acc t 0 + c
    if GQ.isSmall tol v then Dict.erase acc t else Dict.set acc t v) a

def isub (tol : Rat) (a b : Op) : Op :=
  b.foldl (fun acc (t, c) =>
    let v := Dict.getD acc t 0 - c
    if GQ.isSmall tol v then Dict.erase acc t else Dict.set acc t v) a

/-- `self.constant += c` (no deletion, key `()` created if absent) -/
def addConst (a : Op) (c : GQ) : Op := Dict.set a [] (Dict.getD a [] 0 + c)

def powOp (cls : Cls) (a : Op) : Nat → Op
  | 0 => mk cls [] 1
  | k + 1 => mulOp cls (powOp cls a k) a

/-! ### MajoranaOperator -/

abbrev MTerm := List Nat
abbrev MOp := List (MTerm × GQ)

/-- `_merge_majorana_terms`: merged term and parity (as a Nat, reduced mod 2 by the caller). -/
def mergeM : MTerm → MTerm → MTerm × Nat
  | [], r => (r, 0)
  | l, [] => (l, 0)
  | a :: l, b :: r =>
    if a < b then
      let res := mergeM l (b :: r); (a :: res.1, res.2)
    else if b < a then
      let res := mergeM (a :: l) r; (b :: res.1, res.2 + (l.length + 1))
    else
      let res := mergeM l r; (res.1, res.2 + l.length)
termination_by l r => l.length + r.length

/-- `_sort_majorana_term` (merge sort, split at `len // 2`) with fuel = length. -/
def sortMFuel : Nat → MTerm → MTerm × Nat
  | 0, t => (t, 0)
  | fuel + 1, t =>
    if t.length < 2 then (t, 0) else
    let c := t.length / 2
    let l := sortMFuel fuel (t.take c)
    let r := sortMFuel fuel (t.drop c)
    let m := mergeM l.1 r.1
    (m.1, (l.2 + r.2 + m.2) % 2)

def sortM (t : MTerm) : MTerm × Nat := sortMFuel t.length t

def maccum (d : MOp) (k : MTerm) (c : GQ) : MOp :=
  match Dict.get? d k with
  | some v => Dict.set d k (v + c)
  | none => Dict.set d k c

def mmk (t : MTerm) (c : GQ) : MOp :=
  let s := sortM t
  [(s.1, c * GQ.sgn s.2)]

def mmul (a b : MOp) : MOp :=
  a.foldl (fun acc (lt, lc) =>
    b.foldl (fun acc2 (rt, rc) =>
      let m := mergeM lt rt
      maccum acc2 m.1 (lc * rc * GQ.sgn m.2)) acc) []

def msmul (c : GQ) (a : MOp) : MOp := a.map fun (t, v) => (t, v * c)

def miadd (a b : MOp) : MOp := b.foldl (fun acc (t, c) => maccum acc t c) a
def misub (a b : MOp) : MOp := b.foldl (fun acc (t, c) => maccum acc t (-c)) a
def maddConst (a : MOp) (c : GQ) : MOp := Dict.set a [] (Dict.getD a [] 0 + c)

def mpow (a : MOp) : Nat → MOp
  | 0 => mmk [] 1
  | k + 1 => mmul (mpow a k) a

/-- `_majorana_terms_commute` -/
def interM : MTerm → MTerm → Nat
  | [], _ => 0
  | _, [] => 0
  | a :: l, b :: r =>
    if a < b then interM l (b :: r)
    else if b < a then interM (a :: l) r
    else interM l r + 1
termination_by l r => l.length + r.length

def majoranaTermsCommute (a b : MTerm) : Bool :=
  (a.length * b.length - interM a b) % 2 == 0

end Model
end OFV
