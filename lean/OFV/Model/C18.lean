/-
C18 — Model of `openfermion/measurements/fermion_partitioning.py`.

Generators become lists of yields.  A yielded "pairing" is a Python tuple whose
elements are 2-tuples (`Item.pr`) or bare labels (`Item.sg`); `Item.bad` stands
for a place where the Python code would raise (IndexError / TypeError /
ValueError of an unpacking) or build a nested structure that is not a pairing —
the theorems show it never appears on admissible inputs.  Labels are
`Option α` because `pair_within` pads a fragment with `None`.

Import-free (Lean core only).
-/
namespace OFV
namespace Model
namespace C18

inductive Item (β : Type) where
  | pr (a b : β)
  | sg (a : β)
  | bad
deriving DecidableEq, Repr, Inhabited

abbrev Pairing (β : Type) := List (Item β)

section
variable {α : Type}

/-- `lst[i]` for a list of optional labels (out of range never happens on the paths used) -/
def at' (l : List (Option α)) (i : Nat) : Option α := l.getD i none

/-! ### pair_between -/

/-- one yield of `pair_between(frag1, frag2)` for the given `index_offset` -/
def pairBetweenAt (f1 f2 : List (Option α)) (io : Nat) : Pairing (Option α) :=
  let n1 := f1.length
  let n2 := f2.length
  let numPairs := min n1 n2
  let pairing :=
    if n1 > n2 then
      (List.range numPairs).map (fun i => Item.pr (at' f1 ((i + io) % n1)) (at' f2 i))
        ++ (List.range' (n2 + io) (n1 - n2)).map (fun i => Item.sg (at' f1 (i % n1)))
    else
      (List.range numPairs).map (fun i => Item.pr (at' f1 i) (at' f2 ((i + io) % n2)))
  pairing ++
    (if n2 > n1 then (List.range' (n1 + io) (n2 - n1)).map (fun i => Item.sg (at' f2 (i % n2)))
     else [])

/-- `pair_between(frag1, frag2, start_offset)`: `index_offset in range(start_offset, num_iter)` -/
def pairBetween (f1 f2 : List (Option α)) (off : Nat) : List (Pairing (Option α)) :=
  let numIter := max f1.length f2.length
  (List.range' off (numIter - off)).map (pairBetweenAt f1 f2)

/-! ### pair_within -/

/-- `pairing[-1]` when it is a bare label -/
def lastLab {β : Type} (p : Pairing β) : Option β :=
  match p.getLast? with
  | some (.sg a) => some a
  | _ => none

/-- `[pair[0] for pair in pairing1[:-1] if pair[1] is None]`; `none` when Python would raise -/
def zeroIndices : Pairing (Option α) → Option (List (Option α))
  | [] => some []
  | .pr a none :: r => (zeroIndices r).map (a :: ·)
  | .pr _ (some _) :: r => zeroIndices r
  | _ :: _ => none

/-- `tuple(pair for pair in pairing1[:-1] if pair[1] is not None)` -/
def dropNonePairs : Pairing (Option α) → Pairing (Option α)
  | [] => []
  | .pr _ none :: r => dropNonePairs r
  | x :: r => x :: dropNonePairs r

/-- the body of the `zip` loop of `pair_within`; `r = len(labels) % 4` -/
def combine (r : Nat) (p1 p2 : Pairing (Option α)) : Pairing (Option α) :=
  if r = 1 then
    match lastLab p1 with
    | some none => p1.dropLast ++ p2
    | some (some x) =>
      match lastLab p2, zeroIndices p1.dropLast with
      | some y, some [z] =>
        dropNonePairs p1.dropLast ++ p2.dropLast ++ [Item.pr (some x) y] ++ [Item.sg z]
      | _, _ => [Item.bad]
    | none => [Item.bad]
  else if r = 2 then
    match lastLab p1, lastLab p2 with
    | some x, some y => p1.dropLast ++ p2.dropLast ++ [Item.pr x y]
    | _, _ => [Item.bad]
  else if r = 3 then
    match p1.getLast? with
    | some l => p1.dropLast ++ p2 ++ [l]
    | none => [Item.bad]
  else p1 ++ p2

/-- `pair_within(labels)`; the fuel bounds the recursion depth (the list length suffices) -/
def pairWithinAux : Nat → List (Option α) → List (Pairing (Option α))
  | 0, _ => []
  | fuel + 1, labels =>
    match labels with
    | [] => []
    | [a] => [[Item.sg a]]
    | _ =>
      let n := labels.length
      let fs := n / 2
      let frag1 := labels.take fs
      let frag2 := labels.drop fs
      let frag1' := if n % 4 = 1 then frag1 ++ [none] else frag1
      pairBetween frag1 frag2 (frag2.length % 2)
        ++ List.zipWith (combine (n % 4)) (pairWithinAux fuel frag1') (pairWithinAux fuel frag2)

def pairWithin (labels : List (Option α)) : List (Pairing (Option α)) :=
  pairWithinAux labels.length labels

/-! ### _loop_iterator, _gen_partitions, _gen_pairings_between_partitions -/

/-- `i`-th `next()` of `_loop_iterator(func, *params)` where `func(*params)` yields `l`:
the value and the `looped` flag; `none` when the generator is empty (Python
spins `MAX_LOOPS` times and raises). -/
def loopNth {β : Type} (l : List β) (i : Nat) : Option (β × Bool) :=
  match l[i % l.length]? with
  | some x => some (x, decide (l.length ≤ i))
  | none => none

def halves {β : Type} (p : List β) : List (List β) := [p.take (p.length / 2), p.drop (p.length / 2)]

def genPartitionsAux {β : Type} (minSize : Nat) : Nat → List (List β) → List (List (List β))
  | 0, parts => [parts]
  | fuel + 1, parts =>
    parts ::
      (if (match parts.getLast? with | some p => p.length | none => 0) < minSize then []
       else genPartitionsAux minSize fuel (parts.flatMap halves))

/-- `_gen_partitions(labels, min_size)` -/
def genPartitions {β : Type} (labels : List β) (minSize : Nat := 4) : List (List (List β)) :=
  if labels.length = 1 then [[labels]]
  else genPartitionsAux minSize labels.length (halves labels)

/-- `len(x) - 1 + len(x) % 2` -/
def rounds (n : Nat) : Nat := n - 1 + n % 2

/-- `tuple(part)` used as an element of a pairing: representable when it is a 2-tuple -/
def tupItem (p : List (Option α)) : Item (Option α) :=
  match p with
  | [a, b] => .pr a b
  | _ => .bad

/-- `_gen_pairings_between_partitions(parta, partb)` -/
def genPairingsBetween (parta partb : List (Option α)) : List (Pairing (Option α)) :=
  let first := if parta.length + partb.length < 5 then [[tupItem parta, tupItem partb]] else []
  let sa := halves parta
  let sb := halves partb
  first ++ [(0, 0), (0, 1), (1, 0), (1, 1)].flatMap (fun (ab : Nat × Nat) =>
    let xa := sa.getD ab.1 []
    let xb := sb.getD ab.2 []
    let ya := sa.getD (1 - ab.1) []
    let yb := sb.getD (1 - ab.2) []
    if max xa.length xb.length < 2 then []
    else if min ya.length yb.length < 1 then []
    else
      let ga := pairWithin xa
      let gb := pairWithin xb
      (List.range (max (rounds xb.length) (rounds xa.length))).flatMap (fun it =>
        match loopNth ga it, loopNth gb it with
        | some (pa, _), some (pb, _) => (pairBetween ya yb 0).map (fun pab => pa ++ pb ++ pab)
        | _, _ => [[Item.bad]]))

/-! ### pair_within_simultaneously -/

def evens {β : Type} : List β → List β
  | [] => []
  | [a] => [a]
  | a :: _ :: r => a :: evens r

def odds {β : Type} : List β → List β
  | [] => []
  | [_] => []
  | _ :: b :: r => b :: odds r

/-- concatenate the `i`-th `next()` of each looped generator; `[bad]` when one is empty -/
def nextAll {β : Type} (gens : List (List (Pairing β))) (i : Nat) : Pairing β :=
  gens.flatMap (fun g => match loopNth g i with | some (p, _) => p | none => [Item.bad])

/-- first stage of `pair_within_simultaneously` for one partition -/
def pwsStage1 (partition : List (List (Option α))) : List (Pairing (Option α)) :=
  let gens := partition.map pairWithin
  let n := partition.length
  let r1 := rounds ((partition.getD (n - 2) []).length)
  let r2 := rounds ((partition.getD (n - 1) []).length)
  (List.range r1).flatMap (fun d1 =>
    (List.range r2).map (fun d2 => nextAll (evens gens) d1 ++ nextAll (odds gens) (d1 * r2 + d2)))

/-- the `for part_a, part_b in partition_pairing` unpacking: every element must be a pair of parts -/
def partPairs (pp : Pairing (Option (List (Option α)))) :
    Option (List (List (Option α) × List (Option α))) :=
  pp.mapM (fun it => match it with
    | .pr (some a) (some b) => some (a, b)
    | _ => none)

/-- second stage of `pair_within_simultaneously` for one partition -/
def pwsStage2 (partition : List (List (Option α))) : List (Pairing (Option α)) :=
  (pairWithin (partition.map some)).flatMap (fun pp =>
    match partPairs pp with
    | none => [[Item.bad]]
    | some prs =>
      let gens := prs.map (fun ab => genPairingsBetween ab.1 ab.2)
      if gens.any (fun g => g.isEmpty) then [[Item.bad]]
      else
        -- the `while True` loop stops at the first round in which every generator has looped
        let m := gens.foldl (fun acc g => max acc g.length) 0
        (List.range m).map (fun i => nextAll gens i))

/-- `pair_within_simultaneously(labels)` -/
def pairWithinSimultaneously (labels : List (Option α)) : List (Pairing (Option α)) :=
  if labels.length ≤ 3 then []
  else
    (genPartitions labels).flatMap (fun partition =>
      pwsStage1 partition ++
        (if (match partition.getLast? with | some p => p.length | none => 0) < 3 then []
         else pwsStage2 partition))

end

/-! ### _get_padding, _parallel_iter, _asynchronous_iter -/

/-- `any(trial % d == 0 for d in range(2, num_bins - 1))` -/
def hasSmallDivisor (numBins trial : Nat) : Bool :=
  (List.range' 2 (numBins - 1 - 2)).any (fun d => trial % d = 0)

def getPaddingAux (numBins : Nat) : Nat → Nat → Nat
  | 0, trial => trial
  | fuel + 1, trial => if hasSmallDivisor numBins trial then getPaddingAux numBins fuel (trial + 1) else trial

/-- `_get_padding(num_bins, bin_size)`; the `while True` search is bounded by Bertrand's
postulate (a prime in `(m, 2m]`, `m = max num_bins bin_size`, has no small divisor) -/
def getPadding (numBins binSize : Nat) : Nat :=
  getPaddingAux numBins (2 * max numBins binSize + 2) binSize

section
variable {β : Type}

/-- `[x for result in next_res if result for x in result]` -/
def flattenRes (rs : List (Option (List β))) : List β :=
  rs.flatMap (fun r => match r with | some x => x | none => [])

/-- `_parallel_iter(iterators, flatten=True)` on lists without `None` entries -/
def parallelIter (its : List (List (List β))) : List (List β) :=
  let m := its.foldl (fun acc l => max acc l.length) 0
  ((List.range m).map (fun k => its.flatMap (fun l => l.getD k []))).filter (fun r => !r.isEmpty)

/-- smallest `m` with `n ≤ 2^m` for `n ≥ 2` (`int(numpy.ceil(numpy.log2(n)))`) -/
def clog2 (n : Nat) : Nat := if n ≤ 1 then 0 else Nat.log2 (n - 1) + 1

/-- riffle: `list(chain(*zip_longest(a, b)))` with the trailing `None` removed (|a| = |b| or |b|+1) -/
def interleave {γ : Type} : List γ → List γ → List γ
  | a :: as, b :: bs => a :: b :: interleave as bs
  | as, [] => as
  | [], bs => bs

/-- the `for _ in range(num_iterations)` loop of `binary_partition_iterator` -/
def binaryLoop {γ : Type} (half : Nat) : Nat → List γ → List (List γ × List γ)
  | 0, _ => []
  | k + 1, l =>
    let p := (l.take half, l.drop half)
    p :: binaryLoop half k (interleave p.1 p.2)

/-- `binary_partition_iterator(qubit_list, num_iterations)`; `none` = ValueError -/
def binaryPartition {γ : Type} (l : List γ) (numIter : Option Nat) : Option (List (List γ × List γ)) :=
  if numIter = some 0 then some []
  else if l.length < 2 then none
  else match l with
    | [a, b] => some [([a], [b])]
    | _ =>
      let k := match numIter with | some k => k | none => clog2 l.length
      some (binaryLoop ((l.length + 1) / 2) k l)

/-- the padded (general) branch of `_asynchronous_iter` -/
def asyncPadded (lists : List (List (List β))) : List (List β) :=
  let k := lists.length
  let size := lists.foldl (fun acc l => max acc l.length) 0
  let new := getPadding k size
  let padded : List (List (Option (List β))) :=
    lists.map (fun l => l.map some ++ List.replicate (new - l.length) none)
  (List.range new).flatMap (fun j =>
    (List.range new).map (fun l =>
      flattenRes (((List.range (k - 1)).map (fun kk => ((padded.getD kk []).getD ((j * kk + l) % new) none)))
        ++ [((padded.getD (k - 1) []).getD j none)])))

/-- `_asynchronous_iter(iterators, flatten=True)` (with `_asynchronous_iter_small_lists`);
`none` where Python raises (no iterator at all, ValueError of the inner partition, RecursionError) -/
def asyncIterAux : Nat → List (List (List β)) → Option (List (List β))
  | 0, _ => none
  | fuel + 1, lists =>
    let k := lists.length
    if k = 0 then none else
    let size := lists.foldl (fun acc l => max acc l.length) 0
    if size = 1 then some [flattenRes (lists.map (fun l => l.head?))]
    else if (k + 1) ^ (size * size) < 2 ^ (k * k) then
      -- numpy.log2(k + 1) * size**2 < k**2
      match binaryPartition lists none with
      | none => none
      | some parts =>
        parts.foldl (fun acc p =>
          match acc, asyncIterAux fuel [parallelIter p.1, parallelIter p.2] with
          | some a, some r => some (a ++ r)
          | _, _ => none) (some [])
    else some (asyncPadded lists)

def asyncIter (lists : List (List (List β))) : Option (List (List β)) := asyncIterAux 3 lists

end

/-! ### binned / symmetric variants -/

section
variable {α : Type}

/-- `pair_within_simultaneously_binned(binned_majoranas)`; the Boolean is `false` when Python raises
(after the yields listed) -/
def pwsBinned (bins : List (List (Option α))) : List (Pairing (Option α)) × Bool :=
  let s1 := parallelIter (bins.map pairWithinSimultaneously)
  let nb := bins.length
  if nb = 0 then (s1, false) else
  let mx := bins.foldl (fun acc b => max acc b.length) 0
  let s2 : Option (List (Pairing (Option α))) :=
    if mx > 1 ∧ nb > 1 then asyncIter (bins.map pairWithin) else some []
  match s2 with
  | none => (s1, false)
  | some s2 =>
    let s3 := (List.range' 1 (nb / 2 - 1)).foldl (fun (acc : List (Pairing (Option α)) × Bool) gap =>
      if !acc.2 then acc else
      let idxs := (List.range nb).filter (fun i => i < i ^^^ gap)
      if idxs.any (fun i => nb ≤ i ^^^ gap) then (acc.1, false) else
      match asyncIter (idxs.map (fun i => pairBetween (bins.getD i []) (bins.getD (i ^^^ gap) []) 0)) with
      | some r => (acc.1 ++ r, true)
      | none => (acc.1, false)) ([], true)
    (s1 ++ s2 ++ s3.1, s3.2)

/-- `pair_within_simultaneously_symmetric(num_fermions, num_symmetries)` -/
def pwsSymmetric (numFermions numSymmetries : Nat) : List (Pairing (Option Nat)) × Bool :=
  let m := 2 ^ numSymmetries
  pwsBinned ((List.range m).map (fun b =>
    ((List.range (2 * numFermions)).filter (fun i => i % m = b)).map some))

end

end C18
end Model
end OFV
