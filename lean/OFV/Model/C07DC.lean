/-
C07 — Model of `commutator_ordered_diagonal_coulomb_with_two_body_operator` and its helpers
(transforms/opconversions/commutator_diagonal_coulomb_operator.py).
`prior_terms.terms[k] = prior_terms.terms.get(k, 0.0) ± coefficient` is a plain dictionary
assignment: nothing is deleted, explicit zeros stay stored.  Import-free.
-/
import OFV.Model.C07NormalOrder

namespace OFV
namespace Model
namespace C07

/-- `d[k] = d.get(k, 0.0) + c` -/
def bump (d : Op) (k : Term) (c : GQ) : Op := Dict.set d k (Dict.getD d k 0 + c)

/-- `_commutator_one_body_with_one_body` -/
def dcOneOne (a b : Term) (coef : GQ) (prior : Op) : Op :=
  if fIdx a 0 == fIdx b 1 && fIdx b 0 == fIdx a 1 then
    let na : Term := [(fIdx a 0, 1), (fIdx a 0, 0)]
    let nb : Term := [(fIdx b 0, 1), (fIdx b 0, 0)]
    bump (bump prior na coef) nb (-coef)
  else if fIdx a 1 == fIdx b 0 then
    bump prior [(fIdx a 0, 1), (fIdx b 1, 0)] coef
  else if fIdx a 0 == fIdx b 1 then
    bump prior [(fIdx b 0, 1), (fIdx a 1, 0)] (-coef)
  else prior

/-- `_commutator_one_body_with_two_body` -/
def dcOneTwo (a b : Term) (coef0 : GQ) (prior : Op) : Op :=
  let aIsTwo := a.length == 4 && b.length == 2
  let one := if aIsTwo then b else a
  let two := if aIsTwo then a else b
  let coef := if aIsTwo then coef0 * (-1) else coef0
  let oc := fIdx one 0
  let oa := fIdx one 1
  let tc := (fIdx two 0, fIdx two 1)
  let ta := (fIdx two 2, fIdx two 3)
  if oc == oa && tc == ta then prior
  else
    -- first block works on a *copy* `new_inner_action`
    let prior1 :=
      if oa == tc.1 || oa == tc.2 then
        let inner := if oa == tc.1 then two.set 0 (oc, 1) else two.set 1 (oc, 1)
        let swap := fIdx inner 0 < fIdx inner 1
        let inner' := if swap then (inner.set 0 (inner.getD 1 (0, 0))).set 1 (inner.getD 0 (0, 0)) else inner
        let nc := if swap then coef * (-1) else coef
        if fIdx inner' 0 > fIdx inner' 1 then bump prior inner' nc else prior
      else prior
    -- second block mutates `new_action` (a list copy of the two-body action)
    if oc == ta.1 || oc == ta.2 then
      let act := if oc == ta.1 then two.set 2 (oa, 0) else two.set 3 (oa, 0)
      let swap := fIdx act 2 < fIdx act 3
      let act' := if swap then (act.set 2 (act.getD 3 (0, 0))).set 3 (act.getD 2 (0, 0)) else act
      let nc := if swap then (-coef) * (-1) else -coef
      if fIdx act' 2 > fIdx act' 3 then bump prior1 act' nc else prior1
    else prior1

/-- `_add_three_body_term` -/
def addThreeBody (two : Term) (coef : GQ) (mode : Nat) (prior : Op) : Op :=
  -- new_action.insert(0, (mode, 1)); new_action.insert(3, (mode, 0))
  let n0 : Term := (mode, 1) :: two
  let n1 : Term := n0.take 3 ++ [(mode, 0)] ++ n0.drop 3
  let sw := fun (t : Term) (i j : Nat) => (t.set i (t.getD j (0, 0))).set j (t.getD i (0, 0))
  let (n2, c2) :=
    if fIdx n1 0 < fIdx n1 1 then
      let t := sw n1 0 1
      if fIdx t 1 < fIdx t 2 then (sw t 1 2, coef * (-1) * (-1)) else (t, coef * (-1))
    else (n1, coef)
  let (n3, c3) :=
    if fIdx n2 3 < fIdx n2 4 then
      let t := sw n2 3 4
      if fIdx t 4 < fIdx t 5 then (sw t 4 5, c2 * (-1) * (-1)) else (t, c2 * (-1))
    else (n2, c2)
  bump prior n3 c3

/-- `_commutator_two_body_diagonal_with_two_body` -/
def dcTwoTwo (d arb : Term) (coef : GQ) (prior : Op) : Op :=
  let ac := [fIdx arb 0, fIdx arb 1]
  let aa := [fIdx arb 2, fIdx arb 3]
  if fIdx d 2 == fIdx arb 0 && fIdx d 3 == fIdx arb 1 then bump prior arb (-coef)
  else if fIdx d 0 == fIdx arb 2 && fIdx d 1 == fIdx arb 3 then bump prior arb coef
  else if aa.contains (fIdx d 0) then
    if ac.contains (fIdx d 1) || ac.contains (fIdx d 0) then prior
    else addThreeBody arb coef (fIdx d 1) prior
  else if aa.contains (fIdx d 1) then
    if ac.contains (fIdx d 0) || ac.contains (fIdx d 1) then prior
    else addThreeBody arb coef (fIdx d 0) prior
  else if ac.contains (fIdx d 0) then addThreeBody arb (-coef) (fIdx d 1) prior
  else if ac.contains (fIdx d 1) then addThreeBody arb (-coef) (fIdx d 0) prior
  else prior

/-- the main double loop; `prior` is mutated in place and returned -/
def dcCommutator (tol : Rat) (a b : Op) (prior : Op) : Op :=
  a.foldl (fun acc (ta, ca) =>
    b.foldl (fun acc (tb, cb) =>
      let coef := ca * cb
      if ta == tb || ta.isEmpty || tb.isEmpty then acc
      else if ta.length == 4 && tb.length == 4 && fIdx ta 0 == fIdx ta 2 && fIdx ta 1 == fIdx ta 3 then
        dcTwoTwo ta tb coef acc
      else if (tb.length == 4 && ta.length == 2) || (ta.length == 4 && tb.length == 2) then
        dcOneTwo ta tb coef acc
      else if ta.length == 2 && tb.length == 2 then
        dcOneOne ta tb coef acc
      else
        -- out-of-spec fallback: additional.terms[ta+tb] = c; additional.terms[tb+ta] = -c
        let additional : Op := Dict.set (Dict.set [] (ta ++ tb) coef) (tb ++ ta) (-coef)
        iadd tol acc (normalOrdered tol additional)) acc) prior

end C07
end Model
end OFV
