/-
C19 — Model of the integer cost arithmetic of `resource_estimates/thc/compute_cost_thc.py`
(`compute_cost`) and `resource_estimates/sparse/costing_sparse.py` (`cost_sparse`).

The number of rotation bits `br` is the arg-min of a transcendental expression (`arccos`, `sin`):
it is a *parameter* of the Model (observed from the implementation).  The iteration count
`ceil(pi * lam / (2 dE))` is decided with a rational enclosure of `pi` that is much wider than the
float rounding error: when the enclosure does not decide the ceiling the case is undetermined (`none`).
Import-free.
-/
import OFV.Model.C19

namespace OFV
namespace Model
namespace C19

/-- `ceil(log2 x)` for a positive rational `x` (`np.ceil(np.log2(x))`) -/
def clog2Rat (x : Rat) : Int :=
  if x ≥ 1 then (clog2 x.ceil.toNat : Int) else -((Nat.log2 (1 / x).floor.toNat : Nat) : Int)

def piLo : Rat := mkRat 314159265358 100000000000
def piHi : Rat := mkRat 314159265360 100000000000

/-- `np.ceil(np.pi * lam / (dE * 2))` for `lam, dE > 0` -/
def iters (lam dE : Rat) : Option Nat :=
  if lam ≤ 0 ∨ dE ≤ 0 then none else
  let lo := (piLo * lam / (dE * 2)).ceil
  let hi := (piHi * lam / (dE * 2)).ceil
  if lo = hi then some lo.toNat else none

structure Costs where
  step : Int
  total : Int
  ancilla : Int
deriving Repr

def qrK (L M : Nat) : Nat := match qr L M with | some r => r.1 | none => 0
def qrV (L M : Nat) : Nat := match qr L M with | some r => r.2 | none => 0
def qiK (L : Nat) : Nat := match qi L with | some r => r.1 | none => 0
def qiV (L : Nat) : Nat := match qi L with | some r => r.2 | none => 0

/-- `int(x)` of a float: truncation towards zero -/
def truncInt (x : Rat) : Int := if x ≥ 0 then x.floor else x.ceil

/-- per-step Toffoli cost of `compute_cost` (a rational: `n / 2` is a float division) -/
def thcStepCost (n chi beta M br : Nat) : Rat :=
  let nM : Int := clog2 (M + 1)
  let d := M * (M + 1) / 2 + n / 2
  let m : Int := 2 * nM + 2 + chi
  let cp1 : Int := 2 * (10 * nM + 2 * br - 9)
  let cp2 : Int := 2 * (nM * nM + nM - 1)
  let cp3 : Int := qrV d m.toNat + qiV d
  let cp4 : Int := 2 * chi
  let cp5 : Int := 4 * nM
  let cp6 : Int := 2 * nM + 2
  let cpcp := cp1 + cp2 + cp3 + cp4 + cp5 + cp6
  let cs1 : Int := 2 * n
  let cs2a : Rat := (M : Rat) + (n : Rat) / 2 - 2
  let cs2b : Int := (M : Int) - 2
  let cs3 : Int := 4 * n * ((beta : Int) - 2)
  let k1 : Nat := 2 ^ qiK (M + n / 2)
  let cs6a : Int := (((M : Rat) / k1).ceil + ((n : Rat) / 2 / k1).ceil + k1)
  let cs6b : Int := qiV M
  let costref : Int := 2 * nM + chi + 4
  ((cpcp + cs1 + cs2b + cs3 + 2 + cs6a + cs6b + costref : Int) : Rat) + cs2a

/-- `compute_cost(n, lam, dE, chi, beta, M, stps)` given the rotation bits `br` -/
def thcCost (n : Nat) (lam dE : Rat) (chi beta M br : Nat) : Option Costs :=
  match iters lam dE with
  | none => none
  | some it =>
    let nM : Int := clog2 (M + 1)
    let d := M * (M + 1) / 2 + n / 2
    let nc : Int := clog2 d
    let m : Int := 2 * nM + 2 + chi
    let cost := thcStepCost n chi beta M br
    let ac1 : Int := 2 * clog2 (it + 1) - 1
    let kt : Nat := 2 ^ qrK d m.toNat
    let ac12 : Rat := ((m * kt + clog2Rat ((d : Rat) / kt) : Int) : Rat)
    let acc : Rat := (beta : Rat) * n / 2 + ((beta : Int) - 2 + m : Int)
    let aca : Int := ac1 + n + 2 * nM + chi + 7 + beta + nc
    let a1 := (aca : Rat) + ac12
    let a2 := (aca : Rat) + acc
    some ⟨truncInt cost, truncInt (cost * it), truncInt (if a1 ≥ a2 then a1 else a2)⟩

/-- per-step Toffoli cost of `cost_sparse` (Eq. A17) -/
def sparseStepCost (n d chi br : Nat) : Int :=
  let eta : Int := powerTwo d
  let nN : Int := clog2 (n / 2)
  let m : Int := chi + 8 * nN + 4
  (cdiv d 32 : Int) + m * 31 + qiV d + 4 * n + 8 * nN + 2 * chi + 7 * clog2 d - 6 * eta + 4 * br - 19

/-- `cost_sparse(n, lam, d, dE, chi, stps)` given the rotation bits `br` -/
def sparseCost (n : Nat) (lam : Rat) (d : Nat) (dE : Rat) (chi br : Nat) : Option Costs :=
  match iters lam dE with
  | none => none
  | some it =>
    let nN : Int := clog2 (n / 2)
    let m : Int := chi + 8 * nN + 4
    let cost := sparseStepCost n d chi br
    let ac1 : Int := 2 * clog2 it - 1
    let ac8 : Int := clog2Rat ((d : Rat) / 32) + m * 32
    some ⟨cost, cost * it, ac1 + n + clog2 d + 2 + br + chi + ac8⟩

end C19
end Model
end OFV
