/-
C19 — Model of the LCU alias-table preprocessing (`circuits/lcu_util.py`), the 1-norm helpers
(`lambda_norm`, `functionals/get_one_norm.py`) and the QROM cost helpers
(`resource_estimates/utils.py`: QR, QI, QR2, QI2, power_two), in exact integer / rational arithmetic.
Floats of the implementation are dyadic rationals on the generated inputs.  Import-free.
-/
namespace OFV
namespace Model
namespace C19

/-! ### `_partial_sums`, `_differences`, `_discretize_probability_distribution` -/

/-- `_partial_sums(vals)` started with running total `t` -/
def partialSumsFrom (t : Rat) : List Rat → List Rat
  | [] => [t]
  | v :: r => t :: partialSumsFrom (t + v) r

def partialSums (vals : List Rat) : List Rat := partialSumsFrom 0 vals

/-- `_differences(weights)` -/
def differences : List Int → List Int
  | a :: b :: r => (b - a) :: differences (b :: r)
  | _ => []

/-- smallest `m` with `q ≤ 2^m` -/
def clog2 (q : Nat) : Nat := if q ≤ 1 then 0 else Nat.log2 (q - 1) + 1

/-- `max(0, int(math.ceil(-math.log(epsilon * n, 2))))` for `epsilon * n > 0`:
the smallest `mu ≥ 0` with `epsilon * n * 2^mu ≥ 1` -/
def subBitPrecision (eps : Rat) (n : Nat) : Nat :=
  let x := eps * (n : Rat)
  if x ≥ 1 then 0 else clog2 ((1 / x).ceil.toNat)

/-- `int(math.floor(x + 0.5))` -/
def roundHalfUp (x : Rat) : Int := (x + 1 / 2).floor

/-- `_discretize_probability_distribution(unnormalized_probabilities, epsilon)` →
`(numerators, bin_count, sub_bit_precision)`; `none` where Python raises (no item, zero total) -/
def discretize (probs : List Rat) (eps : Rat) : Option (List Int × Nat × Nat) :=
  let n := probs.length
  if n = 0 ∨ eps ≤ 0 then none else
  let mu := subBitPrecision eps n
  let binCount := 2 ^ mu * n
  let cumulative := partialSums probs
  let total := cumulative.getLastD 0
  if total = 0 then none else
  let dc := cumulative.map (fun c => roundHalfUp (c / total * (binCount : Rat)))
  some (differences dc, binCount, mu)

/-! ### `_preprocess_for_efficient_roulette_selection` -/

structure RState where
  weights : List Int
  alternates : List Nat
  keep : List Int
  donor : Nat
deriving Repr

/-- `while weights[donor_position] <= target_weight: donor_position += 1`; `none` = IndexError
(the fuel is the number of positions left) -/
def findDonorAux (w : List Int) (target : Int) : Nat → Nat → Option Nat
  | 0, _ => none
  | fuel + 1, pos => if target < w.getD pos target then some pos else findDonorAux w target fuel (pos + 1)

def findDonor (w : List Int) (target : Int) (pos : Nat) : Option Nat :=
  findDonorAux w target (w.length - pos) pos

/-- body of the inner `for i in range(n)` loop -/
def rouletteStep (target : Int) (st : RState) (i : Nat) : Option RState :=
  let wi := st.weights.getD i 0
  if wi ≥ target then some st else
  match findDonor st.weights target st.donor with
  | none => none
  | some d =>
    let donated := target - wi
    let w1 := st.weights.set d (st.weights.getD d 0 - donated)
    some { weights := w1.set i target, alternates := st.alternates.set i d,
           keep := st.keep.set i wi, donor := d }

def roulettePass (target : Int) (n : Nat) (st : RState) : Option RState :=
  (List.range n).foldlM (rouletteStep target) st

/-- `_preprocess_for_efficient_roulette_selection(discretized_probabilities)` →
`(alternates, keep_weights)`; `Except` carries the Python exception kind -/
def roulette (ws : List Int) : Except String (List Nat × List Int) :=
  let n := ws.length
  if n = 0 then .error "ValueError" else
  let total := ws.foldl (· + ·) 0
  let target := total / (n : Int)     -- floor division (Python `//`), Int.div rounds like `//` for n > 0
  if total ≠ (n : Int) * target then .error "ValueError" else
  let st0 : RState := ⟨ws, List.range n, List.replicate n 0, 0⟩
  match (roulettePass target n st0).bind (roulettePass target n) with
  | none => .error "IndexError"
  | some st => .ok (st.alternates, st.keep)

/-- `preprocess_lcu_coefficients_for_reversible_sampling(lcu_coefficients, epsilon)` →
`(alternates, keep_numers, sub_bit_precision)` -/
def preprocessLCU (coeffs : List Rat) (eps : Rat) : Except String (List Nat × List Int × Nat) :=
  match discretize coeffs eps with
  | none => .error "ValueError"
  | some (numers, _, mu) =>
    match roulette numers with
    | .error e => .error e
    | .ok (alt, keep) => .ok (alt, keep, mu)

/-! ### `lambda_norm`, `get_one_norm_int`, `get_one_norm_int_woconst` -/

def rabs (x : Rat) : Rat := if x < 0 then -x else x

def mat (m : List (List Rat)) (p q : Nat) : Rat := (m.getD p []).getD q 0

/-- `lambda_norm(diagonal_operator)` from `one_body`, `two_body` (the double loop, literally) -/
def lambdaNorm (oneBody twoBody : List (List Rat)) : Rat :=
  let n := oneBody.length
  let st := (List.range n).foldl (fun (st : Rat × List Rat) p =>
    (List.range n).foldl (fun (st : Rat × List Rat) q =>
      if p = q then
        (st.1, st.2.set p (st.2.getD p 0 - mat oneBody p p / 2 - mat twoBody p p / 2))
      else
        let lam := st.1 + rabs (mat oneBody p q) / 2 + rabs (mat twoBody p q) / 4
        let z1 := st.2.set p (st.2.getD p 0 - mat twoBody p q / 4)
        let z2 := z1.set q (z1.getD q 0 - mat twoBody p q / 4)
        (lam, z2)) st) ((0 : Rat), List.replicate n (0 : Rat))
  st.1 + (st.2.map rabs).foldl (· + ·) 0

abbrev T4 := List (List (List (List Rat)))

def t4 (g : T4) (p q r s : Nat) : Rat := (((g.getD p []).getD q []).getD r []).getD s 0

def sumRange (n : Nat) (f : Nat → Rat) : Rat := (List.range n).foldl (fun acc i => acc + f i) 0

/-- `htildepq[p, q]` -/
def htildepq (h : List (List Rat)) (g : T4) (n p q : Nat) : Rat :=
  mat h p q + sumRange n (fun r => t4 g p r r q - (1 / 2) * t4 g p r q r)

/-- `get_one_norm_int_woconst(one_body_integrals, two_body_integrals)` -/
def oneNormWoConst (h : List (List Rat)) (g : T4) : Rat :=
  let n := h.length
  sumRange n (fun p => sumRange n (fun q => rabs (htildepq h g n p q)))
  + (1 / 8) * sumRange n (fun p => sumRange n (fun q => sumRange n (fun r => sumRange n (fun s =>
      rabs (t4 g p q r s - t4 g p q s r)))))
  + (1 / 4) * sumRange n (fun p => sumRange n (fun q => sumRange n (fun r => sumRange n (fun s =>
      rabs (t4 g p q r s)))))

/-- `get_one_norm_int(constant, one_body_integrals, two_body_integrals)` -/
def oneNorm (const : Rat) (h : List (List Rat)) (g : T4) : Rat :=
  let n := h.length
  let htilde := const + sumRange n (fun p => mat h p p
    + sumRange n (fun q => (1 / 2) * t4 g p q q p - (1 / 4) * t4 g p q p q))
  rabs htilde + oneNormWoConst h g

/-! ### QROM helpers -/

/-- largest `k` with `4^k * M ≤ L` (`np.floor(0.5 * np.log2(L / M))`), for `0 < M ≤ L` -/
def kFloorAux (L M : Nat) : Nat → Nat → Nat
  | 0, k => k
  | fuel + 1, k => if 4 ^ (k + 1) * M ≤ L then kFloorAux L M fuel (k + 1) else k

def kFloor (L M : Nat) : Nat := kFloorAux L M L 0

/-- `np.ceil(0.5 * np.log2(L / M))` -/
def kCeil (L M : Nat) : Nat := if 4 ^ kFloor L M * M = L then kFloor L M else kFloor L M + 1

/-- `L / 2^k + M * (2^k - 1)` -/
def qrValue (L M k : Nat) : Rat := (L : Rat) / (2 ^ k : Nat) + (M : Rat) * ((2 ^ k : Nat) - 1)

/-- `QR(L, M1)` → `(k_opt, val_opt)`; `none` when `L < M1` (the code calls `sys.exit`) or `M1 = 0` -/
def qr (L M : Nat) : Option (Nat × Nat) :=
  if M = 0 ∨ L < M then none else
  let kf := kFloor L M
  let kc := kCeil L M
  let k := if qrValue L M kc < qrValue L M kf then kc else kf
  some (k, (qrValue L M k).ceil.toNat)

/-- `L / 2^k + 2^k` -/
def qiValue (L k : Nat) : Rat := (L : Rat) / (2 ^ k : Nat) + (2 ^ k : Nat)

/-- `QI(L)` → `(k_opt, val_opt)`; `none` when `L = 0` -/
def qi (L : Nat) : Option (Nat × Nat) :=
  if L = 0 then none else
  let kf := kFloor L 1
  let kc := kCeil L 1
  let k := if qiValue L kc < qiValue L kf then kc else kf
  some (k, (qiValue L k).ceil.toNat)

def cdiv (a b : Nat) : Nat := (a + b - 1) / b

/-- the double scan `for k1 in range(1, 17): for k2 in range(1, 17)` keeping the first strict minimum -/
def scan2 (value : Nat → Nat → Nat) : Nat × Nat × Option Nat :=
  (List.range' 1 16).foldl (fun acc k1 =>
    (List.range' 1 16).foldl (fun (acc : Nat × Nat × Option Nat) k2 =>
      let v := value k1 k2
      match acc.2.2 with
      | some best => if v < best then (k1, k2, some v) else acc
      | none => (k1, k2, some v)) acc) (0, 0, none)

/-- `QR2(L1, L2, M1)` → `(2^k1, 2^k2, val)` (values below the `1e50` sentinel) -/
def qr2 (L1 L2 M : Nat) : Nat × Nat × Nat :=
  let r := scan2 (fun k1 k2 => cdiv L1 (2 ^ k1) * cdiv L2 (2 ^ k2) + M * (2 ^ (k1 + k2) - 1))
  (2 ^ r.1, 2 ^ r.2.1, r.2.2.getD 0)

/-- `QI2(L1, L2)` -/
def qi2 (L1 L2 : Nat) : Nat × Nat × Nat :=
  let r := scan2 (fun k1 k2 => cdiv L1 (2 ^ k1) * cdiv L2 (2 ^ k2) + 2 ^ (k1 + k2))
  (2 ^ r.1, 2 ^ r.2.1, r.2.2.getD 0)

/-- `power_two(m)`: the loop `while m > 0 and m % 2 == 0` -/
def powerTwoAux : Nat → Nat → Nat → Nat
  | 0, _, c => c
  | fuel + 1, m, c => if m > 0 ∧ m % 2 = 0 then powerTwoAux fuel (m / 2) (c + 1) else c

def powerTwo (m : Nat) : Nat := if m % 2 = 0 then powerTwoAux m m 0 else 0

end C19
end Model
end OFV
