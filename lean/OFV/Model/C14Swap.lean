/-
C14 — Model of `openfermion.circuits.primitives.swap_network.swap_network`.

Python (swap_network.py:121-137):

    order = list(range(n_qubits))
    for layer_num in range(n_qubits):
        lowest_active_qubit = (layer_num + offset) % 2
        active_pairs = ((i, i + 1) for i in range(lowest_active_qubit, n_qubits - 1, 2))
        for i, j in active_pairs:
            p, q = order[i], order[j]
            extra_ops = operation(p, q, qubits[i], qubits[j])
            result.extend(flatten(extra_ops)); result.append(swap_gate(qubits[i], qubits[j]))
            order[i], order[j] = q, p

The Model records every callback invocation `(p, q, i, j)` (modes `p q`, positions of the two
qubits handed to the callback) in call order, and the final `order` list.  Import-free.
-/
namespace OFV
namespace Model
namespace C14

/-- one callback invocation `operation(p, q, qubits[a], qubits[b])`, recorded as `(p, q, a, b)` -/
abbrev SwapCall := Nat × Nat × Nat × Nat

/-- the values of `range(low, n - 1, 2)` (empty when `n - 1 ≤ low`, also for `n = 0`) -/
def activeStarts (n low : Nat) : List Nat :=
  (List.range ((n - low) / 2)).map (fun k => low + 2 * k)

/-- body of the inner loop for the pair `(i, i + 1)` -/
def swapStep (st : List Nat × List SwapCall) (i : Nat) : List Nat × List SwapCall :=
  let p := st.1.getD i 0
  let q := st.1.getD (i + 1) 0
  ((st.1.set i q).set (i + 1) p, st.2 ++ [(p, q, i, i + 1)])

/-- one layer (`offset` as 0 / 1) -/
def swapLayer (n offset : Nat) (st : List Nat × List SwapCall) (layer : Nat) :
    List Nat × List SwapCall :=
  (activeStarts n ((layer + offset) % 2)).foldl swapStep st

/-- the whole network: `(final order, callback log)` -/
def swapNetwork (n : Nat) (offset : Bool) : List Nat × List SwapCall :=
  (List.range n).foldl (swapLayer n offset.toNat) (List.range n, [])

end C14
end Model
end OFV
