/-
C02 — Model of the equality tests and structural predicates.

Mirrors, function by function (numeric coefficients only; sympy coefficients are
out of scope):

* `SymbolicOperator._issmall`, `SymbolicOperator.isclose`, `__eq__`, `__ne__`
  (symbolic_operator.py) — as coded after commit e8ec695d (per-term tolerance),
  parameterised by the iteration order of the two Python `set`s;
* `MajoranaOperator.__eq__` (shared terms: `numpy.isclose(a, b) or numpy.isclose(b, a)`, i.e.
  relative to the larger magnitude, as coded after commit 282d5e66),
  `MajoranaOperator.commutes_with`, `_majorana_terms_commute` (majorana_operator.py);
* `FermionOperator.is_normal_ordered`, `is_two_body_number_conserving`,
  `BosonOperator.is_normal_ordered`, `is_boson_preserving`;
* `PolynomialTensor.__eq__` (polynomial_tensor.py);
* `is_identity`, `hermitian_conjugated` / `is_hermitian` for QubitOperator, QuadOperator,
  FermionOperator, BosonOperator and InteractionOperator (operator_utils.py; the last three
  normal order first: Model.C03).

Absolute values of complex numbers are irrational; every comparison
`abs(x) < t` is modelled *exactly* through squares (`|x|² < t²` with the sign of
`t` taken into account), so the Model is the real-number semantics of the code
(floating-point rounding of `abs`, `*` is outside the Model; the harness only
compares on inputs whose decisions have a relative margin ≥ 1e-9).
Import-free.
-/
import OFV.Model.Symbolic
import OFV.Model.C03

namespace OFV
namespace Model
namespace C02

def rmax (a b : Rat) : Rat := if a ≤ b then b else a

/-! ### `_issmall` and `isclose` -/

/-- Python `abs(v) < t` for a complex `v` and a real `t`. -/
def absLt (v : GQ) (t : Rat) : Bool := decide (0 < t) && decide (v.normSq < t * t)

/-- `max(1, abs(a), abs(b))²` -/
def maxSq (a b : GQ) : Rat := rmax 1 (rmax a.normSq b.normSq)

/-- `_issmall(a - b, tol * max(1, abs(a), abs(b)))`: the shared-term test of `isclose`.
`tol * max(..)` is positive iff `tol` is. -/
def closeRel (tol : Rat) (a b : GQ) : Bool :=
  decide (0 < tol) && decide ((a - b).normSq < tol * tol * maxSq a b)

/-- `set(self.terms).intersection(set(other.terms))` in the insertion order of `a`
(the real iteration order is a permutation of this list) -/
def interKeys (a b : Op) : List Term := (Dict.keys a).filter fun t => Dict.contains b t

/-- `set(self.terms).symmetric_difference(set(other.terms))` -/
def symKeys (a b : Op) : List Term :=
  ((Dict.keys a).filter fun t => !Dict.contains b t) ++
  ((Dict.keys b).filter fun t => !Dict.contains a t)

/-- the body of `isclose` run over explicitly given iteration orders `shared`, `sym`
of the two sets (early `return False` = conjunction). -/
def iscloseWith (shared sym : List Term) (tol : Rat) (a b : Op) : Bool :=
  (shared.all fun t => closeRel tol (Dict.getD a t 0) (Dict.getD b t 0)) &&
  (sym.all fun t =>
    if Dict.contains a t then absLt (Dict.getD a t 0) tol else absLt (Dict.getD b t 0) tol)

/-- `a.isclose(b, tol)` with the canonical iteration order -/
def isclose (tol : Rat) (a b : Op) : Bool := iscloseWith (interKeys a b) (symKeys a b) tol a b

/-! ### `MajoranaOperator.__eq__` -/

/-- `sqrt n1 ≤ α + ρ · sqrt n2` for rationals `n1, n2, α, ρ ≥ 0`, decided exactly. -/
def sqrtLeAffine (n1 α ρ n2 : Rat) : Bool :=
  let l := n1 - α * α - ρ * ρ * n2
  decide (l ≤ 0) || decide (l * l ≤ 4 * α * α * ρ * ρ * n2)

/-- `numpy.isclose(a, b, rtol, atol)` for finite numbers: `|a - b| <= atol + rtol * |b|`. -/
def npIsclose (atol rtol : Rat) (a b : GQ) : Bool :=
  sqrtLeAffine (a - b).normSq atol rtol b.normSq

def unionKeys (a b : MOp) : List MTerm :=
  Dict.keys a ++ (Dict.keys b).filter fun t => !Dict.contains a t

/-- one step of the loop of `MajoranaOperator.__eq__` -/
def majTermClose (atol rtol : Rat) (a b : MOp) (t : MTerm) : Bool :=
  match Dict.get? a t, Dict.get? b t with
  | some x, some y => npIsclose atol rtol x y || npIsclose atol rtol y x
  | some x, none => npIsclose atol rtol x 0
  | none, some y => npIsclose atol rtol y 0
  | none, none => true

def majEqWith (order : List MTerm) (atol rtol : Rat) (a b : MOp) : Bool :=
  order.all (majTermClose atol rtol a b)

def majEq (atol rtol : Rat) (a b : MOp) : Bool := majEqWith (unionKeys a b) atol rtol a b

/-- `MajoranaOperator.commutes_with(other)` for an operator argument -/
def commutesWith (atol rtol : Rat) (a b : MOp) : Bool :=
  match a, b with
  | [(ta, _)], [(tb, _)] => majoranaTermsCommute ta tb
  | _, _ => majEq atol rtol (mmul a b) (mmul b a)

/-- exact-regime test for two Majorana dictionaries (evaluated by the driver per input): whenever
numpy.isclose (either way; `|x| ≤ atol` for one-sided terms) calls the two coefficients of a term
close, they are equal -/
def majExactB (atol rtol : Rat) (X Y : MOp) : Bool :=
  (Dict.keys X ++ Dict.keys Y).all fun t =>
    !(majTermClose atol rtol X Y t) || decide (Dict.getD X t 0 = Dict.getD Y t 0)

/-! ### structural predicates (nested loops as coded) -/

/-- the two tests of `FermionOperator.is_normal_ordered` on the adjacent pair
`left = term[j-1]`, `right = term[j]`; `true` = "return False" -/
def fermionBadPair (left right : Factor) : Bool :=
  (right.2 != 0 && left.2 == 0) || (right.2 == left.2 && decide (right.1 ≥ left.1))

def bosonBadPair (left right : Factor) : Bool :=
  right.1 == left.1 && decide (right.2 > left.2)

/-- `for i in range(1, len(term)): for j in range(i, 0, -1): …` — does some visited
pair `(term[j-1], term[j])` make the predicate return False? -/
def loopBad (bad : Factor → Factor → Bool) (term : Term) : Bool :=
  (List.range' 1 (term.length - 1)).any fun i =>
    ((List.range' 1 i).reverse).any fun j =>
      bad (term.getD (j - 1) (0, 0)) (term.getD j (0, 0))

def fermionIsNormalOrdered (a : Op) : Bool := a.all fun (t, _) => !loopBad fermionBadPair t
def bosonIsNormalOrdered (a : Op) : Bool := a.all fun (t, _) => !loopBad bosonBadPair t

/-- `(-1) ** k` as an integer -/
def negOnePow (k : Nat) : Int := if k % 2 = 0 then 1 else -1

/-- `particles`, `spin` accumulated over a term -/
def particles (t : Term) : Int := t.foldl (fun acc f => acc + negOnePow f.2) 0
def spin (t : Term) : Int := t.foldl (fun acc f => acc + negOnePow (f.1 + f.2)) 0

def isTwoBodyNumberConserving (checkSpin : Bool) (a : Op) : Bool :=
  a.all fun (t, _) =>
    if !(t.length == 0 || t.length == 2 || t.length == 4) then false
    else if particles t != 0 then false
    else if spin t != 0 && checkSpin then false
    else true

def isBosonPreserving (a : Op) : Bool := a.all fun (t, _) => particles t == 0

/-- `list(operator.terms) == [()]` -/
def isIdentity (a : Op) : Bool := Dict.keys a == [[]]

/-! ### `PolynomialTensor.__eq__`

A tensor object is `(n_qubits, [(key, flattened entries)])`. -/

abbrev Tensors := List (List Nat × List GQ)

/-- `numpy.amax(numpy.absolute(x))²` (entries non-empty) -/
def amaxSq (l : List GQ) : Rat := l.foldl (fun m c => rmax m c.normSq) 0

def diffEntries (x y : List GQ) : List GQ := List.zipWith (fun a b => a - b) x y

def tensorUnionKeys (a b : Tensors) : List (List Nat) :=
  Dict.keys a ++ (Dict.keys b).filter fun k => !Dict.contains a k

/-- `discrepancy²` for one key -/
def discrepancySq (a b : Tensors) (k : List Nat) : Rat :=
  match Dict.get? a k, Dict.get? b k with
  | some x, some y => amaxSq (diffEntries x y)
  | some x, none => amaxSq x
  | none, some y => amaxSq y
  | none, none => 0

/-- `diff² = max(diff, discrepancy)²` over the keys in the given order -/
def tensorDiffSq (order : List (List Nat)) (a b : Tensors) : Rat :=
  order.foldl (fun d k => rmax d (discrepancySq a b k)) 0

def tensorEqWith (order : List (List Nat)) (tol : Rat) (na : Nat) (a : Tensors) (nb : Nat) (b : Tensors) : Bool :=
  if na != nb then false
  else decide (0 < tol) && decide (tensorDiffSq order a b < tol * tol)

def tensorEq (tol : Rat) (na : Nat) (a : Tensors) (nb : Nat) (b : Tensors) : Bool :=
  tensorEqWith (tensorUnionKeys a b) tol na a nb b

/-! ### `hermitian_conjugated` / `is_hermitian` for QubitOperator and QuadOperator -/

/-- `conjugate_operator.terms[term] = coefficient.conjugate()` -/
def hcQubit (a : Op) : Op := a.foldl (fun acc (t, c) => Dict.set acc t c.conj) []

/-- `tuple(sorted(reversed(term), key=index))`, coefficient conjugated -/
def hcQuad (a : Op) : Op := a.foldl (fun acc (t, c) => Dict.set acc (sortF t.reverse) c.conj) []

/-- `[(index, 1 - action) for (index, action) in reversed(term)]` -/
def conjTermF (t : Term) : Term := t.reverse.map fun f => (f.1, 1 - f.2)

/-- `hermitian_conjugated(FermionOperator)` -/
def hcFermion (a : Op) : Op := a.foldl (fun acc (t, c) => Dict.set acc (conjTermF t) c.conj) []

/-- `hermitian_conjugated(BosonOperator)`: conjugate term sorted by index (stable) -/
def hcBoson (a : Op) : Op := a.foldl (fun acc (t, c) => Dict.set acc (sortF (conjTermF t)) c.conj) []

/-- `is_hermitian(FermionOperator)`: `normal_ordered(op) == normal_ordered(hermitian_conjugated(op))` -/
def isHermitianFermion (tol : Rat) (a : Op) : Bool :=
  isclose tol (C03.normalOrdered tol .fermion a) (C03.normalOrdered tol .fermion (hcFermion a))

def isHermitianBoson (tol : Rat) (a : Op) : Bool :=
  isclose tol (C03.normalOrdered tol .boson a) (C03.normalOrdered tol .boson (hcBoson a))

/-! #### InteractionOperator: `hermitian_conjugated` is `tensor.T.conj()` on the one- and two-body
tensors (all axes reversed), `is_hermitian` compares the NORMAL-ORDERED operators with
`PolynomialTensor.__eq__` (the two-body tensor is not a unique representation:
`a†_p a†_q = -a†_q a†_p`) -/

/-- `one_body.T.conj()` on the flattened `n × n` tensor -/
def hcOneBody (n : Nat) (T : List GQ) : List GQ :=
  (List.range n).flatMap fun p => (List.range n).map fun q => (T.getD (q * n + p) 0).conj

/-- `two_body.T.conj()`: `T†[p,q,r,s] = conj T[s,r,q,p]` -/
def hcTwoBody (n : Nat) (T : List GQ) : List GQ :=
  (List.range n).flatMap fun p => (List.range n).flatMap fun q =>
    (List.range n).flatMap fun r => (List.range n).map fun s => (C03.t4 n T s r q p).conj

/-- the tensors of `normal_ordered(InteractionOperator(constant, one_body, two_body))` -/
def ioNormalTensors (n : Nat) (c : GQ) (one two : List GQ) : Tensors :=
  [([], [c]), ([1, 0], one), ([1, 1, 0, 0], C03.normalOrderedTwoBody n two)]

/-- `is_hermitian(InteractionOperator)` -/
def isHermitianIO (tol : Rat) (n : Nat) (c : GQ) (one two : List GQ) : Bool :=
  tensorEq tol n (ioNormalTensors n c one two) n
    (ioNormalTensors n c.conj (hcOneBody n one) (hcTwoBody n two))

/-- exact-regime test for the InteractionOperator branch (evaluated by the driver per input):
entries of the two normal-ordered tensor families closer than the tolerance are equal -/
def ioExactB (tol : Rat) (n : Nat) (c : GQ) (one two : List GQ) : Bool :=
  let X := ioNormalTensors n c one two
  let Y := ioNormalTensors n c.conj (hcOneBody n one) (hcTwoBody n two)
  [([] : List Nat), [1, 0], [1, 1, 0, 0]].all fun k =>
    (List.range (n * n * n * n + 1)).all fun i =>
      let x := ((Dict.get? X k).getD []).getD i 0
      let y := ((Dict.get? Y k).getD []).getD i 0
      !(decide ((x - y).normSq < tol * tol)) || decide (x = y)

/-! #### dense / sparse matrices: `hermitian_conjugated(M) = conj(M).T`, `is_hermitian(M)` is
`max |M - M†| < EQ_TOLERANCE` (for sparse matrices the maximum over the stored non-zeros of the
difference, 0 if there are none: the same number) -/

/-- `numpy.conjugate(M.T)` / `M.getH()` on the flattened `n × n` matrix -/
def hcMatrix (n : Nat) (M : List GQ) : List GQ := hcOneBody n M

def isHermitianMatrix (tol : Rat) (n : Nat) (M : List GQ) : Bool :=
  decide (0 < tol) && decide (amaxSq (diffEntries M (hcMatrix n M)) < tol * tol)

def isHermitianQubit (tol : Rat) (a : Op) : Bool := isclose tol a (hcQubit a)
def isHermitianQuad (tol : Rat) (a : Op) : Bool := isclose tol a (hcQuad a)

end C02
end Model
end OFV
