/-
C18 — Model of `openfermion/measurements/qubit_partitioning.py`:
`binary_partition_iterator` (in Model/C18.lean, shared with `_asynchronous_iter_small_lists`),
`partition_iterator`, `pauli_string_iterator`, `_find_compatible_basis`,
`group_into_tensor_product_basis_sets` (the numpy shuffle is a parameter: one index list per term).
Import-free.
-/
import OFV.Model.C18
import OFV.Model.Symbolic

namespace OFV
namespace Model
namespace C18

section
variable {γ : Type}

/-- `partition_iterator(qubit_list, partition_size, num_iterations)` as the list of its yields.
Where Python raises `ValueError` the list is empty and `partitionIterRaises` is true.
The recursion is on `partition_size` (fuel ≥ partition_size). -/
def partitionIterAux : Nat → List γ → Nat → Option Nat → List (List (List γ))
  | 0, _, _, _ => []
  | fuel + 1, l, k, numIter =>
    if numIter = some 0 then []
    else if k = 1 then [[l]]
    else if k = 2 then ((binaryPartition l numIter).getD []).map (fun p => [p.1, p.2])
    else if k = l.length then [l.map (fun q => [q])]
    else if k > l.length then []
    else
      let m := match numIter with | some m => m | none => clog2 l.length
      let outer := (binaryPartition l (some m)).getD []
      outer.zipIdx.flatMap (fun (pj : (List γ × List γ) × Nat) =>
        let it := some (m - 1 - pj.2)
        (List.range' 1 (k - 1)).flatMap (fun inner =>
          if inner > pj.1.1.length ∨ k - inner > pj.1.2.length then []
          else
            (partitionIterAux fuel pj.1.1 inner it).flatMap (fun p1 =>
              (partitionIterAux fuel pj.1.2 (k - inner) it).map (fun p2 => p1 ++ p2))))

def partitionIter (l : List γ) (k : Nat) (numIter : Option Nat) : List (List (List γ)) :=
  partitionIterAux (max k 1) l k numIter

/-- does the top-level call raise `ValueError`?  (inner calls never do: they are guarded) -/
def partitionIterRaises (l : List γ) (k : Nat) (numIter : Option Nat) : Bool :=
  numIter != some 0 &&
    ((k == 2 && l.length < 2) ||
     (k != 1 && k != 2 && k != l.length && (k > l.length || l.length < 2)))

end

/-- the inner `for p in partition` loop of `pauli_string_iterator` for one `lettering` -/
def assignLetters (s : List Nat) (partition : List (List Nat)) (lettering : Nat) : List Nat :=
  (partition.foldl (fun (acc : List Nat × Nat) p =>
    (p.foldl (fun s q => s.set q (acc.2 % 3 + 1)) acc.1, acc.2 / 3)) (s, lettering)).1

/-- `pauli_string_iterator(num_qubits, max_word_size)`; letters 0 = I, 1 = X, 2 = Y, 3 = Z;
`none` = ValueError.  The string persists between yields as in the Python code. -/
def pauliStrings (n k : Nat) : Option (List (List Nat)) :=
  if k > n ∨ k = 0 then none
  else
    let parts := partitionIter (List.range n) k none
    some ((parts.foldl (fun (acc : List Nat × List (List Nat)) partition =>
      (List.range (3 ^ k)).foldl (fun acc lettering =>
        let s := assignLetters acc.1 partition lettering
        (s, s :: acc.2)) acc) (List.replicate n 0, [])).2.reverse)

/-! ### group_into_tensor_product_basis_sets -/

/-- `any((i, P) for (i, P) in term if i in basis_qubits and (i, P) not in basis)` -/
def conflicts (term basis : Term) : Bool :=
  term.any (fun f => basis.any (fun g => g.1 = f.1) && !basis.contains f)

/-- `_find_compatible_basis(term, bases)` -/
def findCompatibleBasis (term : Term) (bases : List Term) : Option Term :=
  bases.find? (fun b => !conflicts term b)

abbrev Groups := List (Term × Op)

/-- `r.shuffle(bases)`: the permutation actually drawn is a parameter -/
def shuffled (bases : List Term) (perm : List Nat) : List Term := perm.filterMap (fun i => bases[i]?)

/-- one iteration of the loop over `operator.terms.items()` -/
def tpbStep (tol : Rat) (sub : Groups) (perm : List Nat) (term : Term) (c : GQ) : Groups :=
  match findCompatibleBasis term (shuffled (Dict.keys sub) perm) with
  | none => Dict.set sub term (mk .qubit term c)
  | some basis =>
    let subOp := iadd tol (Dict.getD sub basis []) (mk .qubit term c)
    let additions := term.filter (fun f => !basis.contains f)
    Dict.set (Dict.erase sub basis) (sortF (basis ++ additions)) subOp

/-- the loop of `group_into_tensor_product_basis_sets`; `perms.head` is the shuffle of this step -/
def groupTPBAux (tol : Rat) : Groups → Op → List (List Nat) → Groups
  | sub, [], _ => sub
  | sub, (t, c) :: r, perms => groupTPBAux tol (tpbStep tol sub (perms.headD []) t c) r perms.tail

/-- `group_into_tensor_product_basis_sets(operator, seed)`; `perms[i]` is the shuffle of step `i` -/
def groupTPB (tol : Rat) (op : Op) (perms : List (List Nat)) : Groups := groupTPBAux tol [] op perms

end C18
end Model
end OFV
