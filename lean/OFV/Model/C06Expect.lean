/-
C06 — Model of the scipy glue in linalg/sparse_tools.py: `expectation`, `variance` for a sparse
matrix with a state vector (1-d or column) or a density matrix.  Matrices are entry lists
(`Model.C06.Mat`, duplicates summed), vectors are lists.  Import-free apart from the C06 Model.
-/
import OFV.Model.C06

namespace OFV
namespace Model
namespace C06

/-- `operator * state` for a sparse matrix and a vector -/
def sparseMatvec (M : Mat) (x : Vec) : Vec :=
  (List.range M.rows).map fun r =>
    M.entries.foldl (fun acc e => if e.1 = r then acc + e.2.2 * x.getD e.2.1 0 else acc) 0

/-- `numpy.dot(numpy.conjugate(a), b)` -/
def vdotc (a b : Vec) : GQ :=
  (List.range a.length).foldl (fun acc i => acc + GQ.conj (a.getD i 0) * b.getD i 0) 0

/-- `expectation(operator, state)` for a state vector: `numpy.dot(numpy.conjugate(state), operator * state)`
(the column-vector branch computes the same number and takes `[0, 0]`) -/
def expectationVec (M : Mat) (psi : Vec) : GQ := vdotc psi (sparseMatvec M psi)

/-- `numpy.sum(product.diagonal())` -/
def traceMat (M : Mat) : GQ := (List.range M.rows).foldl (fun acc i => acc + M.get i i) 0

/-- `expectation(operator, state)` for a density matrix: `product = state * operator`, summed diagonal -/
def expectationDensity (M rho : Mat) : GQ := traceMat (matMul rho M)

/-- `variance(operator, state) = expectation(operator**2, state) - expectation(operator, state)**2` -/
def varianceVec (M : Mat) (psi : Vec) : GQ :=
  expectationVec (matMul M M) psi - expectationVec M psi * expectationVec M psi

def varianceDensity (M rho : Mat) : GQ :=
  expectationDensity (matMul M M) rho - expectationDensity M rho * expectationDensity M rho

/-- `is_hermitian(sparse matrix)`: `difference = operator - operator.getH()`,
`discrepancy = max(abs(difference.data))` (0.0 when nothing is stored), `discrepancy < EQ_TOLERANCE`.
The stored positions of the difference are among the positions of the matrix and their transposes;
`abs(d) < tol` is decided exactly as `|d|² < tol²`. -/
def isHermitianMat (tol : Rat) (M : Mat) : Bool :=
  (M.entries.flatMap fun e => [(e.1, e.2.1), (e.2.1, e.1)]).all fun p =>
    GQ.isSmall tol (M.get p.1 p.2 - GQ.conj (M.get p.2 p.1))

/-- the routine `sparse_eigenspectrum` hands the dense matrix to: `true` = `numpy.linalg.eigvalsh`
(Hermitian), `false` = `numpy.linalg.eigvals` -/
def eigenspectrumUsesEigvalsh (tol : Rat) (M : Mat) : Bool := isHermitianMat tol M

end C06
end Model
end OFV
