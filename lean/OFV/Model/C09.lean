/-
Model for C09: executable mirror of
  ops/operators/binary_polynomial.py      (BinaryPolynomial, binary_sum_rule, _canonical_term)
  ops/operators/binary_code.py            (BinaryCode, shift_decoder, double_decoding)
  transforms/opconversions/binary_codes.py          (the code constructors)
  transforms/opconversions/binary_code_transform.py (extractor, dissolve, make_parity_list,
                                                     binary_code_transform)
Import-free (Lean core + OFV.Core / OFV.Model.Symbolic / OFV.Generated).

Representation.  A Python term tuple is a `List (Option Nat)`: `some i` is the integer
factor `i`, `none` is `_SYMBOLIC_ONE`.  `self.terms` is the list of tuples in list order.
-/
import OFV.Model.Symbolic
import OFV.Generated.C09

namespace OFV
namespace Model
namespace C09

abbrev Fac := Option Nat
abbrev Mono := List Fac
abbrev Poly := List Mono

inductive Err
  | valueError | typeError | polyError | codeError | attributeError | indexError
deriving DecidableEq, Repr, Inhabited

def Err.name : Err → String
  | .valueError => "ValueError" | .typeError => "TypeError"
  | .polyError => "BinaryPolynomialError" | .codeError => "BinaryCodeError"
  | .attributeError => "AttributeError" | .indexError => "IndexError"

/-! ## BinaryPolynomial -/

/-- the integer factors of a term, in order -/
def idx (t : Mono) : List Nat := t.filterMap id

/-- insertion into a strictly increasing list, dropping duplicates -/
def insU (i : Nat) : List Nat → List Nat
  | [] => [i]
  | j :: r => if i < j then i :: j :: r else if i = j then j :: r else j :: insU i r

/-- `sorted(set(l))` -/
def sortU (l : List Nat) : List Nat := l.foldr insU []

/-- `_canonical_term`: distinct factors, integers increasing, `'one'` last -/
def canonTerm (t : Mono) : Mono :=
  (sortU (idx t)).map some ++ (if none ∈ t then [none] else [])

/-- `binary_sum_rule(terms, summand)`: toggle membership (remove the first occurrence /
append at the end) -/
def sumRule (terms : Poly) (s : Mono) : Poly :=
  if s ∈ terms then terms.erase s else terms ++ [s]

/-- `_check_terms` -/
def checkTerms (terms : Poly) : Poly :=
  terms.foldl (fun acc item => if item.isEmpty then acc else sumRule acc (canonTerm item)) []

/-- `_add_one` -/
def addOne (p : Poly) : Poly := sumRule p [none]

/-- `BinaryPolynomial(k)` for a (numpy) integer -/
def ofInt (k : Int) : Poly := checkTerms (if k % 2 != 0 then addOne [] else [])

/-- `_check_factor(term, factor)`; negative integers are rejected before (see `parseSummand`) -/
def checkFactor (term : Mono) (f : Fac) : Except Err Mono :=
  match f with
  | none =>
    if term.length > 1 then
      -- `term.remove('one')` raises ValueError when it is absent
      if none ∈ term then .ok (canonTerm (term.erase none)) else .error .valueError
    else .ok (canonTerm term)
  | some _ => .ok (canonTerm term)

/-- the inner loop of `_parse_sequence`: iterates over the *original* summand while
rebinding `summand` -/
def parseSummand (s : Mono) : Except Err Mono := s.foldlM checkFactor s

/-- `BinaryPolynomial(list of tuples)`; `neg` = some factor of some summand is a negative
integer (ValueError raised by `_check_factor`) -/
def ofSeq (neg : Bool) (terms : List Mono) : Except Err Poly :=
  if neg then .error .valueError else do
  let ts ← terms.foldlM (fun acc s => do
    let s' ← parseSummand s
    pure (sumRule acc s')) ([] : Poly)
  pure (checkTerms ts)

/-- whitespace-separated pieces of a summand string, classified as Python does:
`factor.isdigit()`, `factor[1:].isdigit()`, anything else -/
inductive Tok
  | const (k : Nat)
  | var (i : Nat)
  | bad
deriving Repr, Inhabited

/-- `_parse_string` on the tokens of one summand -/
def parseStrGo : List Tok → Mono → Bool → Except Err Mono
  | [], tl, _ => .ok (canonTerm tl)
  | tok :: rest, tl, addOne =>
    let tl := if addOne then tl.erase none else tl
    match tok with
    | .const k =>
      if k % 2 = 1 then
        if tl.length > 0 then parseStrGo rest tl false
        else parseStrGo rest (tl ++ [none]) true
      else .ok []
    | .var i => parseStrGo rest (tl ++ [some i]) false
    | .bad => .error .valueError

def parseString (toks : List Tok) : Except Err Mono := parseStrGo toks [] false

/-- `BinaryPolynomial(str)`: the summands are `term.split(' + ')` when `'+' in term`,
else the single string; both paths collect the parsed summands and run `_check_terms` -/
def ofString (summands : List (List Tok)) : Except Err Poly := do
  let ts ← summands.mapM parseString
  pure (checkTerms ts)

/-- `enumerate_qubits` (as a list; Python returns `list(set(...))`) -/
def qubits (p : Poly) : List Nat := p.flatMap idx

def maxL (l : List Nat) : Nat := l.foldl max 0

/-- `shift(const)` for a non-negative constant -/
def shift (p : Poly) (c : Nat) : Poly :=
  p.map fun s => canonTerm (s.map fun f => f.map (· + c))

/-- `evaluate(binary_list)` for a list of 0/1 -/
def evaluate (p : Poly) (bl : List Nat) : Except Err Nat :=
  let qs := qubits p
  if !qs.isEmpty then
    if maxL qs ≥ bl.length then .error .polyError
    else .ok ((p.map fun s => (idx s).foldl (fun acc i => acc * bl.getD i 0) 1).sum % 2)
  else if !p.isEmpty then .ok 1 else .ok 0

/-- `__imul__` with a (numpy) integer -/
def imulInt (p : Poly) (k : Int) : Poly := if k % 2 != 0 then p else []

/-- the product term of `__imul__` -/
def mulTerm (l r : Mono) : Mono :=
  if (idx l).isEmpty && (idx r).isEmpty then [none]
  else (sortU (idx l ++ idx r)).map some

/-- `__imul__` with a BinaryPolynomial -/
def imul (p q : Poly) : Poly :=
  p.foldl (fun acc l => q.foldl (fun acc2 r => sumRule acc2 (mulTerm l r)) acc) []

/-- `__iadd__` with a BinaryPolynomial: iterates over a snapshot `list(addend.terms)`, so the
addend may be the target itself -/
def iadd (p q : Poly) : Poly := q.foldl sumRule p

/-- `__iadd__` with an integer -/
def iaddInt (p : Poly) (k : Int) : Poly := if k % 2 != 0 then addOne p else p

/-- `__pow__` for a non-negative exponent: `identity()` = `BinaryPolynomial([('one',)])` -/
def pow (p : Poly) (k : Nat) : Poly := if k = 0 then [[none]] else p

/-! ### programs over BinaryPolynomial objects (variables reference objects)

`p *= even` returns a fresh zero object (rebinding the variable), every out-of-place operator
(including `p ** k`) works on a `copy.deepcopy`; in-place operators mutate the object. -/

structure PStore where
  vars : List (Option Nat)
  objs : List Poly
deriving Repr

def PStore.init (n : Nat) : PStore := ⟨List.replicate n none, []⟩

def PStore.id? (s : PStore) (x : Nat) : Option Nat := (s.vars[x]?).join

def PStore.val? (s : PStore) (x : Nat) : Option Poly := (s.id? x).bind fun i => s.objs[i]?

def PStore.bindNew (s : PStore) (x : Nat) (v : Poly) : PStore :=
  ⟨s.vars.set x (some s.objs.length), s.objs ++ [v]⟩

def PStore.setObj (s : PStore) (i : Nat) (v : Poly) : PStore := ⟨s.vars, s.objs.set i v⟩

inductive PStmt
  | str (x : Nat) (summands : List (List Tok))      -- x = BinaryPolynomial(str)
  | seq (x : Nat) (neg : Bool) (ts : List Mono)     -- x = BinaryPolynomial(list of tuples)
  | int (x : Nat) (k : Int)                         -- x = BinaryPolynomial(k)
  | add (x y z : Nat) | mul (x y z : Nat)           -- x = y + z, x = y * z
  | addi (x y : Nat) (k : Int) | muli (x y : Nat) (k : Int)   -- x = y + k (k + y), x = y * k (k * y)
  | pow (x y k : Nat)                               -- x = y ** k
  | iadd (x y : Nat) | imul (x y : Nat)             -- x += y, x *= y
  | iaddi (x : Nat) (k : Int) | imuli (x : Nat) (k : Int)
  | shift (x c : Nat)                               -- x.shift(c)
  | eval (x : Nat) (bits : List Nat)                -- x.evaluate(bits)

inductive POut
  | store (s : PStore)
  | err (e : Err)
  | value (n : Nat)
  | unbound

def PStore.exec (s : PStore) : PStmt → POut
  | .str x sm => match ofString sm with
    | .ok p => .store (s.bindNew x p)
    | .error e => .err e
  | .seq x neg ts => match ofSeq neg ts with
    | .ok p => .store (s.bindNew x p)
    | .error e => .err e
  | .int x k => .store (s.bindNew x (ofInt k))
  | .add x y z => match s.val? y, s.val? z with
    | some a, some b => .store (s.bindNew x (iadd a b))
    | _, _ => .unbound
  | .mul x y z => match s.val? y, s.val? z with
    | some a, some b => .store (s.bindNew x (imul a b))
    | _, _ => .unbound
  | .addi x y k => match s.val? y with
    | some a => .store (s.bindNew x (iaddInt a k))
    | none => .unbound
  | .muli x y k => match s.val? y with
    | some a => .store (s.bindNew x (imulInt a k))
    | none => .unbound
  | .pow x y k => match s.val? y with
    | some a => .store (s.bindNew x (pow a k))
    | none => .unbound
  | .iadd x y => match s.id? x, s.id? y, s.val? x, s.val? y with
    | some i, some j, some a, some b =>
      if i = j then .store (s.setObj i (iadd a a)) else .store (s.setObj i (iadd a b))
    | _, _, _, _ => .unbound
  | .imul x y => match s.id? x, s.val? x, s.val? y with
    | some i, some a, some b => .store (s.setObj i (imul a b))
    | _, _, _ => .unbound
  | .iaddi x k => match s.id? x, s.val? x with
    | some i, some a => .store (s.setObj i (iaddInt a k))
    | _, _ => .unbound
  | .imuli x k => match s.val? x with
    | some a => if k % 2 != 0 then .store s else .store (s.bindNew x (imulInt a k))
    | none => .unbound
  | .shift x c => match s.id? x, s.val? x with
    | some i, some a => .store (s.setObj i (shift a c))
    | _, _ => .unbound
  | .eval x bits => match s.val? x with
    | some a => match evaluate a bits with
      | .ok n => .value n
      | .error e => .err e
    | none => .unbound

/-! ## BinaryCode -/

abbrev Mat := List (List Nat)

/-- a decoder component: a BinaryPolynomial (`int0`, the Python `int` 0 that `double_decoding`
used to leave for a component without terms, is no longer produced since the fix a441cb87; it
stands for a non-polynomial entry and every operation on it raises) -/
inductive DEntry
  | poly (p : Poly)
  | int0
deriving Repr, Inhabited

def DEntry.toPoly : DEntry → Poly
  | .poly p => p
  | .int0 => []

structure Code where
  enc : Mat
  dec : List DEntry
  nq : Nat
  nm : Nat
deriving Repr, Inhabited

def dot (r v : List Nat) : Nat := (List.zipWith (· * ·) r v).sum

def matVec (A : Mat) (v : List Nat) : List Nat := A.map fun row => dot row v

/-- `numpy.mod(code.encoder.dot(v), 2)` -/
def encode (c : Code) (v : List Nat) : List Nat := (matVec c.enc v).map (· % 2)

def zeros (n : Nat) : List Nat := List.replicate n 0

/-- `BinaryCode.__init__(encoding, decoding)` with BinaryPolynomial components -/
def Code.mk' (enc : Mat) (nq nm : Nat) (dec : List Poly) : Except Err Code :=
  if nm != dec.length then .error .codeError else
  let dq := (dec.flatMap qubits).eraseDups
  if dq.length != nq then .error .codeError else
  if dq.isEmpty then .error .valueError else        -- `max()` of an empty set
  if maxL dq + 1 > nq then .error .codeError else
  .ok ⟨enc, dec.map .poly, nq, nm⟩

/-- `shift_decoder` (an `int` component has no `.shift`) -/
def shiftDecoder (d : List DEntry) (c : Nat) : Except Err (List DEntry) :=
  d.mapM fun e => match e with
    | .poly p => .ok (.poly (shift p c))
    | .int0 => .error .attributeError

/-- one summand of `double_decoding`: `tmp_term = BinaryPolynomial('1')`, then
`tmp_term *= decoder_2[factor]` for every integer factor -/
def ddTerm (d2 : List DEntry) (summand : Mono) : Except Err Poly :=
  (idx summand).foldlM (fun (tmp : Poly) f =>
    match (d2[f]? : Option DEntry) with
    | none => Except.error Err.indexError
    | some (DEntry.poly q) => Except.ok (imul tmp q)
    | some DEntry.int0 => Except.ok (imulInt tmp 0)) ([[none]] : Poly)

/-- `double_decoding(decoder_1, decoder_2)`; `tmp_sum` starts as `BinaryPolynomial()` -/
def doubleDecoding (d1 d2 : List DEntry) : Except Err (List DEntry) :=
  d1.mapM fun e => match e with
    | .int0 => .error .attributeError                 -- `entry.terms` of an int
    | .poly p =>
      p.foldlM (fun (acc : DEntry) summand => do
        let t ← ddTerm d2 summand
        -- tmp_sum = tmp_term + tmp_sum
        pure (DEntry.poly (iadd t acc.toPoly))) (DEntry.poly [])

/-- `scipy.sparse.bmat([[A, None], [None, B]])` -/
def blockDiag (A : Mat) (an : Nat) (B : Mat) (bn : Nat) : Mat :=
  A.map (fun r => r ++ zeros bn) ++ B.map (fun r => zeros an ++ r)

/-- `__iadd__` -/
def Code.iadd (a b : Code) : Except Err Code := do
  let sd ← shiftDecoder b.dec a.nq
  pure ⟨blockDiag a.enc a.nm b.enc b.nm, a.dec ++ sd, a.nq + b.nq, a.nm + b.nm⟩

/-- row vector times matrix: `Σ_k r_k · A_k` (width `w`) -/
def vecMat (w : Nat) (r : List Nat) (A : Mat) : List Nat :=
  (List.zipWith (fun c row => row.map (c * ·)) r A).foldl (fun acc x => List.zipWith (· + ·) acc x) (zeros w)

/-- `B.dot(A)` -/
def matMul (B A : Mat) (w : Nat) : Mat := B.map fun brow => vecMat w brow A

/-- `__imul__` with a BinaryCode (concatenation): the encoder product is not reduced mod 2 -/
def Code.imulCode (a f : Code) : Except Err Code :=
  if a.nq != f.nm then .error .codeError else do
  let dd ← doubleDecoding a.dec f.dec
  pure ⟨matMul f.enc a.enc a.nm, dd, f.nq, a.nm⟩

/-- `scipy.sparse.kron(scipy.sparse.identity(n), A)` for a matrix `A` with `an` columns: `n`
diagonal blocks (and the number of columns) -/
def kronEye (n : Nat) (A : Mat) (an : Nat) : Mat × Nat :=
  (List.range n).foldl (fun (acc : Mat × Nat) _ => (blockDiag acc.1 acc.2 A an, acc.2 + an)) (([] : Mat), 0)

/-- the loop `for index in numpy.arange(1, factor): self.decoder = numpy.append(self.decoder,
shift_decoder(tmp_decoder, index * self.n_qubits))` with `m = factor - 1` iterations -/
def repeatDecoder (d : List DEntry) (nq m : Nat) : Except Err (List DEntry) :=
  (List.range m).foldlM (fun acc i => do
    let sd ← shiftDecoder d ((i + 1) * nq)
    pure (acc ++ sd)) d

/-- `__imul__` with an integer (appending the code to itself) -/
def Code.imulInt (a : Code) (k : Int) : Except Err Code :=
  if k < 1 then .error .valueError else do
  let n := k.toNat
  let dec ← repeatDecoder a.dec a.nq (n - 1)
  pure ⟨(kronEye n a.enc a.nm).1, dec, a.nq * n, a.nm * n⟩

/-! ## binary_codes.py -/

def identity (n : Nat) : Mat :=
  (List.range n).map fun i => (List.range n).map fun j => if i = j then 1 else 0

/-- `linearize_decoder(matrix)`: row `r` becomes `BinaryPolynomial('W{c1} + W{c2} + …')`
over the columns with entry 1 -/
def linearizeRow (row : List Nat) : Except Err Poly :=
  let cols := (List.range row.length).filter fun c => row.getD c 0 == 1
  if cols.isEmpty then ofString [[]] else ofString (cols.map fun c => [Tok.var c])

def linearizeDecoder (M : Mat) : Except Err (List Poly) := M.mapM linearizeRow

/-- `numpy.kron(numpy.eye(2), M)` for a square `M` -/
def kronEye2 (M : Mat) : Mat :=
  let k := M.length
  M.map (fun r => r ++ zeros k) ++ M.map (fun r => zeros k ++ r)

def setEntry (M : Mat) (i j v : Nat) : Mat := M.modify i fun r => r.set j v

/-- `int(numpy.ceil(numpy.log2(n)))` for `n ≥ 1`: least `r` with `n ≤ 2^r` -/
def ceilLog2Go : Nat → Nat → Nat → Nat
  | 0, _, r => r
  | fuel + 1, n, r => if n ≤ 2 ^ r then r else ceilLog2Go fuel n (r + 1)

def ceilLog2 (n : Nat) : Nat := ceilLog2Go n n 0

def bkSeed : Mat := [[1, 0], [1, 1]]

/-- the loop body of `_encoder_bk` for `repetition = rep` -/
def encBkStep (M : Mat) (rep : Nat) : Mat :=
  (List.range (2 ^ rep)).foldl (fun M c => setEntry M (2 ^ (rep + 1) - 1) c 1) (kronEye2 M)

def decBkStep (M : Mat) (rep : Nat) : Mat :=
  setEntry (kronEye2 M) (2 ^ (rep + 1) - 1) (2 ^ rep - 1) 1

def slice (M : Mat) (n : Nat) : Mat := (M.take n).map (·.take n)

def encoderBk (n : Nat) : Mat :=
  slice ((List.range (ceilLog2 n)).foldl (fun M r => encBkStep M (r + 1)) bkSeed) n

def decoderBk (n : Nat) : Mat :=
  slice ((List.range (ceilLog2 n)).foldl (fun M r => decBkStep M (r + 1)) bkSeed) n

def jordanWignerCode (n : Nat) : Except Err Code := do
  Code.mk' (identity n) n n (← linearizeDecoder (identity n))

def bravyiKitaevCode (n : Nat) : Except Err Code := do
  Code.mk' (encoderBk n) n n (← linearizeDecoder (decoderBk n))

/-- `numpy.eye(n, dtype=int) + numpy.eye(n, k=-1, dtype=int)`: the decoder matrix of `parity_code` -/
def parityDec (n : Nat) : Mat :=
  (List.range n).map fun i => (List.range n).map fun j => if i = j ∨ i = j + 1 then 1 else 0

def tril (n : Nat) : Mat :=
  (List.range n).map fun i => (List.range n).map fun j => if j ≤ i then 1 else 0

def parityCode (n : Nat) : Except Err Code := do
  Code.mk' (tril n) n n (← linearizeDecoder (parityDec n))

/-- `_encoder_checksum(modes)` -/
def encoderChecksum (modes : Nat) : Mat :=
  (List.range (modes - 1)).map fun i => (List.range modes).map fun j => if i = j then 1 else 0

/-- `_decoder_checksum(modes, odd)` -/
def checksumStart (odd : Bool) : Except Err Poly :=
  if odd then ofString [[Tok.const 1]] else pure []

/-- `all_in += BinaryPolynomial('w' + str(mode))` -/
def allInStep (acc : Poly) (m : Nat) : Except Err Poly := do
  let w ← ofString [[Tok.var m]]
  pure (iadd acc w)

def decoderChecksum (modes : Nat) (odd : Bool) : Except Err (List Poly) := do
  let start ← checksumStart odd
  let allIn ← (List.range (modes - 1)).foldlM allInStep start
  let djw ← linearizeDecoder (identity (modes - 1))
  pure (djw ++ [allIn])

def checksumCode (modes : Nat) (odd : Bool) : Except Err Code := do
  -- `linearize_decoder` of a 0 x 0 matrix cannot unpack the shape
  if modes ≤ 1 then .error .valueError else
  Code.mk' (encoderChecksum modes) (modes - 1) modes (← decoderChecksum modes odd)

/-- big-endian bits of `address`, padded to `digits` -/
def addressBits (digits address : Nat) : List Nat :=
  (List.range digits).map fun i => if address.testBit (digits - 1 - i) then 1 else 0

/-- one factor of `_binary_address`: `BinaryPolynomial('w{index} + 1 + {address[index]}')` -/
def addressFactor (digits address index : Nat) : Except Err Poly :=
  ofString [[Tok.var index], [Tok.const 1], [Tok.const (if address.testBit (digits - 1 - index) then 1 else 0)]]

/-- `_binary_address(digits, address)`: the decoder component (the loop over `index`) -/
def binaryAddress (digits address : Nat) : Except Err Poly := do
  let one ← ofString [[Tok.const 1]]
  (List.range digits).foldlM (fun acc i => do
    let f ← addressFactor digits address i
    pure (imul acc f)) one

def transpose (w : Nat) (M : Mat) : Mat :=
  (List.range w).map fun j => M.map fun r => r.getD j 0

def weightOneBinaryAddressingCode (e : Nat) : Except Err Code := do
  let cols := (List.range (2 ^ e)).map (addressBits e)
  let dec ← (List.range (2 ^ e)).mapM (binaryAddress e)
  Code.mk' (transpose e cols) e (2 ^ e) dec

/-- the two literal codes; their tables are re-extracted from the live source on every run -/
def tokOf (t : Nat × Nat) : Tok :=
  match t.1 with
  | 0 => .const t.2
  | 1 => .var t.2
  | _ => .bad

/-- `BinaryCode(encoder literal, list of decoder strings)` -/
def literalCode (enc : Mat) (decToks : List (List (List (Nat × Nat)))) : Except Err Code := do
  let dec ← decToks.mapM fun comp => ofString (comp.map (·.map tokOf))
  Code.mk' enc enc.length (enc.headD []).length dec

def weightOneSegmentCode : Except Err Code :=
  literalCode Generated.C09.w1SegEnc Generated.C09.w1SegDecToks

def weightTwoSegmentCode : Except Err Code :=
  literalCode Generated.C09.w2SegEnc Generated.C09.w2SegDecToks

/-- the matrix of `interleaved_code(modes)` -/
def interleavedMat (modes : Nat) : Mat :=
  (List.range (modes / 2)).foldl (fun M i =>
    setEntry (setEntry M i (2 * i) 1) (modes / 2 + i) (2 * i + 1) 1)
    (List.replicate modes (zeros modes))

def interleavedCode (modes : Nat) : Except Err Code :=
  if modes % 2 = 1 then .error .valueError else
  -- `numpy.shape` of a 0 x 0 matrix in `linearize_decoder`
  if modes = 0 then .error .valueError else do
  let M := interleavedMat modes
  Code.mk' M modes modes (← linearizeDecoder (transpose modes M))

/-! ## binary_code_transform.py -/

/-- a Python value that is either a number or a QubitOperator -/
inductive QV
  | num (c : GQ)
  | op (o : Op)
deriving Inhabited

/-- `a *= b` / `a = a * b` for numbers and QubitOperators -/
def QV.mul : QV → QV → QV
  | .num a, .num b => .num (a * b)
  | .num a, .op o => .op (smul a o)
  | .op o, .num b => .op (smul b o)
  | .op a, .op b => .op (mulOp .qubit a b)

def half : GQ := ⟨mkRat 1 2, 0⟩

def zOp (v : Nat) (c : GQ) : Op := [([(v, 3)], c)]

section bct
variable (tol : Rat)

/-- one iteration of the loop of `dissolve`: `prod *= QubitOperator((), 0.5) - QubitOperator('Z{var}', 0.5)` -/
def dissolveStep (acc : QV) (f : Fac) : Except Err QV :=
  match f with
  | none => .error Err.valueError
  | some v => .ok (acc.mul (.op (isub tol [([], half)] (zOp v half))))

/-- the last line of `dissolve`: `QubitOperator((), 1.0) - prod` -/
def dissolveFinish (prod : QV) : Op :=
  match prod with
  | .num c => addConst [([], 1)] (-c)
  | .op o => isub tol [([], 1)] o

/-- `dissolve(term)` -/
def dissolve (term : Mono) : Except Err Op := do
  let prod ← term.foldlM (dissolveStep tol) (QV.num ⟨2, 0⟩)
  pure (dissolveFinish tol prod)

/-- the multiplier `extractor` computes for one term of the polynomial -/
def extractorTerm (term : Mono) : Except Err QV :=
  match term with
  | [some v] => pure (QV.op (zOp v 1))
  | [none] => pure (QV.num (-1))
  | [] => pure (QV.num 1)
  | _ => do pure (QV.op (← dissolve tol term))

/-- one iteration of the loop of `extractor`: `return_fn *= multiplier` -/
def extractorStep (acc : QV) (term : Mono) : Except Err QV := do
  let m ← extractorTerm tol term
  pure (acc.mul m)

/-- `extractor(binary_op)` -/
def extractor (p : Poly) : Except Err QV := p.foldlM (extractorStep tol) (QV.num 1)

/-- `make_parity_list(code)` -/
def makeParityList (c : Code) : List Poly :=
  ((List.range (c.nm - 1)).foldl (fun (acc : List Poly × Poly) i =>
    let nxt := iadd acc.2 ((c.dec.getD i .int0).toPoly)
    (acc.1 ++ [nxt], nxt)) ([[]], [])).1

structure TermState where
  seen : List Nat            -- fermionic_indices
  parity : Nat               -- updated_parity
  parityTerm : Poly
  changed : List Nat         -- changed_occupation_vector
  transformed : Op

def addAt (l : List Nat) (i : Nat) : List Nat := l.modify i (· + 1)

/-- `code.decoder[j]` as used by `extractor(code.decoder[j])` -/
def decoderEntry (c : Code) (j : Nat) : Except Err Poly :=
  match c.dec[j]? with
  | none => Except.error Err.indexError
  | some .int0 => Except.error Err.attributeError
  | some (.poly p) => pure p

/-- `parity_list[j]` -/
def parityEntry (plist : List Poly) (j : Nat) : Except Err Poly :=
  match plist[j]? with
  | none => Except.error Err.indexError
  | some p => pure p

/-- `QubitOperator((), 0.5) - extracted` -/
def factorOp (ex : QV) : Op :=
  match ex with
  | .num x => addConst [([], half)] (-x)
  | .op o => isub tol [([], half)] o

/-- the loop body over `reversed(term)` -/
def bctFactor (c : Code) (plist : List Poly) (st : TermState) (f : Nat × Nat) : Except Err TermState := do
  let count := (st.seen.filter (· == f.1)).length
  let parity := st.parity + (st.seen.filter (· < f.1)).length
  let entry ← decoderEntry c f.1
  let ex ← extractor tol entry
  let factor := factorOp tol (ex.mul (.num (GQ.sgn count * GQ.sgn f.2 * half)))
  let transformed := mulOp .qubit st.transformed factor
  -- `changed_occupation_vector[j] += 1` (IndexError already raised above when out of range)
  let pl ← parityEntry plist f.1
  pure ⟨st.seen ++ [f.1], parity, iadd st.parityTerm pl, addAt st.changed f.1, transformed⟩

/-- `transformed_term *= extractor(parity_term)` -/
def parityFinish (t1 : Op) (q : QV) : Op :=
  match q with
  | .num x => smul x t1
  | .op o => mulOp .qubit t1 o

/-- the update operator: `X_index` for every odd entry of `numpy.mod(code.encoder.dot(changed), 2)` -/
def updateOp (cq : List Nat) : Op :=
  (cq.zipIdx).foldl (fun (u : Op) (qi : Nat × Nat) =>
    if qi.1 != 0 then mulOp .qubit u [([(qi.2, 1)], 1)] else u) [([], 1)]

/-- one term of the Hamiltonian: `term_coefficient * update_operator * transformed_term` -/
def bctTerm (c : Code) (plist : List Poly) (term : Term) (coef : GQ) : Except Err Op := do
  let st ← term.reverse.foldlM (bctFactor tol c plist)
    ⟨[], 0, [], zeros c.nm, [([], 1)]⟩
  let t1 := mulOp .qubit st.transformed [([], GQ.sgn st.parity)]
  let q ← extractor tol st.parityTerm
  -- `term_coefficient * update_operator * transformed_term`
  pure (mulOp .qubit (smul coef (updateOp (encode c st.changed))) (parityFinish t1 q))

/-- `SymbolicOperator.compress()` -/
def compress (o : Op) : Op :=
  o.filterMap fun (t, c) =>
    let c := if (if c.im < 0 then -c.im else c.im) ≤ tol then (⟨c.re, 0⟩ : GQ) else c
    let c := if (if c.re < 0 then -c.re else c.re) ≤ tol then (⟨0, c.im⟩ : GQ) else c
    if tol * tol < c.normSq then some (t, c) else none

/-- `binary_code_transform(hamiltonian, code)` -/
def binaryCodeTransform (h : Op) (c : Code) : Except Err Op := do
  let plist := makeParityList c
  let r ← h.foldlM (fun (acc : Op) (tc : Term × GQ) => do
    let t ← bctTerm tol c plist tc.1 tc.2
    pure (Model.iadd tol acc t)) []
  pure (compress tol r)

end bct

/-! ## code expressions (used by the driver) -/

inductive CExpr
  | jw (n : Nat) | bk (n : Nat) | parity (n : Nat) | checksum (n : Nat) (odd : Bool)
  | w1ba (e : Nat) | w1seg | w2seg | interleaved (n : Nat)
  | add (a b : CExpr) | mulInt (a : CExpr) (k : Int) | concat (a b : CExpr)
deriving Repr, Inhabited

def CExpr.build : CExpr → Except Err Code
  | .jw n => jordanWignerCode n
  | .bk n => bravyiKitaevCode n
  | .parity n => parityCode n
  | .checksum n odd => checksumCode n odd
  | .w1ba e => weightOneBinaryAddressingCode e
  | .w1seg => weightOneSegmentCode
  | .w2seg => weightTwoSegmentCode
  | .interleaved n => interleavedCode n
  | .add a b => do (← a.build).iadd (← b.build)
  | .mulInt a k => do (← a.build).imulInt k
  | .concat a b => do (← a.build).imulCode (← b.build)

end C09
end Model
end OFV
