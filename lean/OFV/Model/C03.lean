/-
C03 — Model of term_reordering.py: `normal_ordered`, `normal_ordered_ladder_term`,
`normal_ordered_quad_term`, the InteractionOperator branch, `chemist_ordered`, `reorder`.

The two loops of `normal_ordered_*_term`

    for i in range(1, len(term)):
        for j in range(i, 0, -1):          # looks at (term[j-1], term[j])

are an insertion sort that keeps scanning after the moving factor has stopped.  They are
mirrored with a list zipper instead of index mutation: while the inner loop runs,

    term = revP.reverse ++ [x] ++ passed ++ S

where `x = term[j]` is the right operand of the next comparison, `revP` (reversed) the
factors left of it, `passed` the factors of `term[j+1 .. i]` and `S = term[i+1 ..]` the
part the outer loop has not reached.  A swap keeps `x` as the moving factor, no swap makes
`left` the next right operand.  The recursive call (contraction of `a_i a_i^†`, `p_i q_i`)
is on `term[:j-1] + term[j+1:] = revP'.reverse ++ passed ++ S`; recursion depth is bounded
by an explicit fuel (`len(term)`: each nested call is two factors shorter).
Accumulation `ordered_term += …` is `Model.iadd` (deletes sums with `|c| < EQ_TOLERANCE`);
`Op(tuple(term), coefficient)` is `Model.mk` (Boson / Quad constructors sort by index).
Action codes: fermion/boson 1 = creation, 0 = annihilation; quad 0 = q, 1 = p.
Import-free.
-/
import OFV.Model.Symbolic

namespace OFV
namespace Model
namespace C03

inductive Kind
  | fermion
  | boson
  | quad (hbar : GQ)
deriving Repr, Inhabited

def Kind.cls : Kind → Cls
  | .fermion => .fermion
  | .boson => .boson
  | .quad _ => .quad

/-- the kind of factor that has to stand on the left: creation (ladder), `q` (quadrature) -/
def Kind.high : Kind → Nat → Bool
  | .quad _, a => a == 0
  | _, a => a != 0

/-- `coefficient *= parity` on a swap (nothing for quadratures) -/
def Kind.swapCoeff : Kind → GQ → GQ
  | .fermion, c => c * (-1)
  | .boson, c => c * 1
  | .quad _, c => c

/-- coefficient handed to the recursive call; `c` is the coefficient AFTER the swap update:
`parity * coefficient` (ladder), `-coefficient * 1j * hbar` (quadrature) -/
def Kind.contractCoeff : Kind → GQ → GQ
  | .fermion, c => (-1) * c
  | .boson, c => 1 * c
  | .quad hbar, c => (-c) * GQ.I * hbar

def Kind.isFermion : Kind → Bool
  | .fermion => true
  | _ => false

inductive Step
  | ret (acc : Op)                          -- `return ordered_term`
  | cont (pre : Term) (c : GQ) (acc : Op)   -- inner loop finished: new `term[0..i]`

section loops
variable (tol : Rat) (k : Kind) (rec : Term → GQ → Op)

/-- the inner loop `for j in range(i, 0, -1)` (see the header for the zipper) -/
def inner : Term → Factor → Term → Term → GQ → Op → Step
  | [], x, passed, _, c, acc => .cont (x :: passed) c acc
  | l :: revP, x, passed, S, c, acc =>
    if k.high x.2 && !k.high l.2 then
      -- swap; contraction when the indices agree
      let c' := k.swapCoeff c
      let acc' := if x.1 = l.1 then
          iadd tol acc (rec (revP.reverse ++ passed ++ S) (k.contractCoeff c'))
        else acc
      inner revP x (l :: passed) S c' acc'
    else if x.2 = l.2 then
      if k.isFermion && x.1 == l.1 then .ret acc
      else if x.1 > l.1 then inner revP x (l :: passed) S (k.swapCoeff c) acc
      else inner revP l (x :: passed) S c acc
    else inner revP l (x :: passed) S c acc

/-- the outer loop `for i in range(1, len(term))` followed by
`ordered_term += Op(tuple(term), coefficient)`; `done = term[0..i-1]`, `rest = term[i..]` -/
def outer : Term → Term → GQ → Op → Op
  | done, [], c, acc => iadd tol acc (mk k.cls done c)
  | done, x :: S, c, acc =>
    match inner tol k rec done.reverse x [] S c acc with
    | .ret acc' => acc'
    | .cont pre c' acc' => outer pre S c' acc'

end loops

/-- `normal_ordered_ladder_term` / `normal_ordered_quad_term` with recursion fuel -/
def noTermFuel (tol : Rat) (k : Kind) : Nat → Term → GQ → Op
  | 0, _, _ => []
  | fuel + 1, t, c => outer tol k (noTermFuel tol k fuel) [] t c []

def noTerm (tol : Rat) (k : Kind) (t : Term) (c : GQ) : Op := noTermFuel tol k (t.length + 1) t c

/-- `normal_ordered(operator, hbar)` for Fermion / Boson / QuadOperator -/
def normalOrdered (tol : Rat) (k : Kind) (a : Op) : Op :=
  a.foldl (fun acc (t, c) => iadd tol acc (noTerm tol k t c)) []

/-- exact-regime test evaluated by the driver per input: every coefficient lies on the lattice
`(1/D)·ℤ[i]` (then, for `tol·D ≤ 1`, `+=` only ever deletes exact zeros: OFV.C03.normal_ordered_exact_regime) -/
def latB (D : Nat) (a : Op) : Bool :=
  a.all fun e => (e.2.re * D).den == 1 && (e.2.im * D).den == 1

/-! ### InteractionOperator branch -/

/-- `itertools.combinations(l, k)` -/
def combinations {α : Type} : Nat → List α → List (List α)
  | 0, _ => [[]]
  | _ + 1, [] => []
  | k + 1, x :: r => (combinations k r).map (x :: ·) ++ combinations (k + 1) r

abbrev Pair := Nat × Nat

/-- the three generators of index pairs, in the order of `itertools.chain` -/
def indexPairs (n : Nat) : List (Pair × Pair) :=
  let rev := (List.range n).reverse
  let quadratic := (combinations 2 rev).filterMap fun
    | [p, q] => some ((p, q), (p, q))
    | _ => none
  let cubic := (combinations 3 rev).flatMap fun
    | [p, q, r] => [((p, q), (p, r)), ((p, r), (p, q)), ((p, q), (q, r)), ((q, r), (p, q)),
                    ((p, r), (q, r)), ((q, r), (p, r))]
    | _ => []
  let quartic := (combinations 4 rev).flatMap fun
    | [p, q, r, s] => [((p, q), (r, s)), ((r, s), (p, q)), ((p, r), (q, s)), ((q, s), (p, r)),
                       ((p, s), (q, r)), ((q, r), (p, s))]
    | _ => []
  quadratic ++ cubic ++ quartic

/-- flattened two-body tensor access `T[p, q, r, s]` (C order) -/
def t4 (n : Nat) (T : List GQ) (p q r s : Nat) : GQ := T.getD (((p * n + q) * n + r) * n + s) 0

/-- `pq[::s]` -/
def flip (s : Bool) (pq : Pair) : Pair := if s then (pq.2, pq.1) else pq

/-- `sum(s * ss * T[pq[::s] + rs[::ss]] for s, ss in product([-1, 1], repeat=2))` -/
def antisym (n : Nat) (T : List GQ) (pq rs : Pair) : GQ :=
  [(true, true), (true, false), (false, true), (false, false)].foldl (fun acc (s, ss) =>
    let a := flip s pq
    let b := flip ss rs
    let sign : GQ := if s == ss then 1 else -1
    acc + sign * t4 n T a.1 a.2 b.1 b.2) 0

/-- the new two-body tensor: zeros, then one assignment per index pair -/
def normalOrderedTwoBody (n : Nat) (T : List GQ) : List GQ :=
  (indexPairs n).foldl (fun acc (pq, rs) =>
    acc.set (((pq.1 * n + pq.2) * n + rs.1) * n + rs.2) (antisym n T pq rs))
    (List.replicate (n * n * n * n) 0)

/-! ### `chemist_ordered` (on a two-body number conserving FermionOperator) -/

/-- the body of the loop over the normal-ordered terms -/
def chemistStep (tol : Rat) (acc : Op) (t : Term) (c : GQ) : Op :=
  match t with
  | [t0, t1, t2, t3] =>
    let acc1 := if t1.1 = t2.1 then iadd tol acc (mk .fermion [t0, t3] c) else acc
    iadd tol acc1 (mk .fermion [t0, t2, t1, t3] (-c))
  | _ => iadd tol acc (mk .fermion t c)

def chemistOrdered (tol : Rat) (a : Op) : Op :=
  (normalOrdered tol .fermion a).foldl (fun acc x => chemistStep tol acc x.1 x.2) []

/-! ### `reorder` with an explicit mode map (a list: old index ↦ new index) -/

/-- `num_modes = max([factor[0] for term in operator.terms for factor in term], default=-1) + 1`
(the default makes constant / zero operators admissible: commit 88567902) -/
def defaultNumModes (a : Op) : Nat :=
  a.foldl (fun m e => e.1.foldl (fun m' f => max m' (f.1 + 1)) m) 0

def reorder (tol : Rat) (cls : Cls) (modeMap : List Nat) (a : Op) : Op :=
  a.foldl (fun acc (t, c) =>
    iadd tol acc (mk cls (t.map fun f => (modeMap.getD f.1 0, f.2)) c)) []

end C03
end Model
end OFV
