/-
C07 — Model (executable mirror) of

* `hermitian_conjugated` (utils/operator_utils.py) for Fermion / Boson / Qubit / Quad operators,
* `commutator`, `anticommutator` (utils/commutators.py),
* `trivially_commutes`, `trivially_double_commutes`, `error_operator`
  (circuits/trotter/trotter_error.py),
* `trivially_commutes_dual_basis`, `trivially_double_commutes_dual_basis`,
  `trivially_double_commutes_dual_basis_using_term_info` (utils/commutators.py).

Action codes as everywhere: fermion/boson 1 = creation, 0 = annihilation;
qubit 1 = X, 2 = Y, 3 = Z; quad 0 = q, 1 = p.  Import-free.
-/
import OFV.Model.Symbolic

namespace OFV
namespace Model
namespace C07

/-! ### hermitian_conjugated -/

/-- `tuple((i, 1 - action) for (i, action) in reversed(term))` -/
def hcTermF (t : Term) : Term := t.reverse.map fun f => (f.1, 1 - f.2)

/-- FermionOperator branch: `conjugate_operator.terms[conjugate_term] = coefficient.conjugate()`
(plain assignment: a later term with the same key would overwrite) -/
def hcFermion (a : Op) : Op :=
  a.foldl (fun acc (t, c) => Dict.set acc (hcTermF t) c.conj) []

/-- BosonOperator branch: reverse + flip, then stable sort by index -/
def hcBoson (a : Op) : Op :=
  a.foldl (fun acc (t, c) => Dict.set acc (sortF (hcTermF t)) c.conj) []

/-- QubitOperator branch: the Pauli string is kept -/
def hcQubit (a : Op) : Op :=
  a.foldl (fun acc (t, c) => Dict.set acc t c.conj) []

/-- QuadOperator branch: reverse, then stable sort by index -/
def hcQuad (a : Op) : Op :=
  a.foldl (fun acc (t, c) => Dict.set acc (sortF t.reverse) c.conj) []

/-- InteractionOperator branch: `constant.conjugate()`, and `tensor.T.conj()` for the one- and
two-body tensors (`.T` reverses *all* axes).  A tensor is its list of `(index tuple, value)`. -/
def hcTensor (t : List (List Nat × GQ)) : List (List Nat × GQ) := t.map fun e => (e.1.reverse, e.2.conj)

def hcInteraction (constant : GQ) (one two : List (List Nat × GQ)) : GQ × List (List Nat × GQ) × List (List Nat × GQ) :=
  (constant.conj, hcTensor one, hcTensor two)

def hermitianConjugated : Cls → Op → Op
  | .fermion, a => hcFermion a
  | .boson, a => hcBoson a
  | .qubit, a => hcQubit a
  | .ising, a => hcQubit a
  | .quad, a => hcQuad a

/-! ### commutator / anticommutator: `result = a * b; result -= b * a` -/

def commutator (tol : Rat) (cls : Cls) (a b : Op) : Op :=
  isub tol (mulOp cls a b) (mulOp cls b a)

def anticommutator (tol : Rat) (cls : Cls) (a b : Op) : Op :=
  iadd tol (mulOp cls a b) (mulOp cls b a)

/-! ### trotter_error.trivially_commutes (single Pauli strings, index-sorted) -/

/-- the `while` loop; `commutes` is the running flag -/
def trivCommLoop : Bool → Term → Term → Bool
  | commutes, [], _ => commutes
  | commutes, _ :: _, [] => commutes
  | commutes, (qa, aa) :: ra, (qb, ab) :: rb =>
    if qa > qb then trivCommLoop commutes ((qa, aa) :: ra) rb
    else if qa < qb then trivCommLoop commutes ra ((qb, ab) :: rb)
    else if aa ≠ ab then trivCommLoop (!commutes) ra rb
    else trivCommLoop commutes ra rb
termination_by _ a b => a.length + b.length

def triviallyCommutes (a b : Term) : Bool := trivCommLoop true a b

/-- `set(index for index, _ in term)` as a list; only membership is used -/
def qubitsOf (t : Term) : List Nat := t.map (·.1)

/-- `trivially_commutes(b, c) or not qubits_a.intersection(qubits_b.union(qubits_c))` -/
def triviallyDoubleCommutes (a b c : Term) : Bool :=
  triviallyCommutes b c ||
    !((qubitsOf a).any fun q => (qubitsOf b).contains q || (qubitsOf c).contains q)

/-! ### trotter_error.error_operator (second order) -/

/-- `op1 * op2 - op2 * op1` (out of place: deepcopy, then `-=`) -/
def qcomm (tol : Rat) (a b : Op) : Op := isub tol (mulOp .qubit a b) (mulOp .qubit b a)

/-- single-term operator → its term (`(term_op,) = term.terms.keys()`) -/
def soleTerm (a : Op) : Term := (a.headD ([], 0)).1

/-- the triple loop; returns the operator *before* the final `/ 12.0` -/
def errorOperatorRaw (tol : Rat) (terms : List Op) : Op :=
  let n := terms.length
  let get := fun i => terms.getD i []
  (List.range n).foldl (fun acc beta =>
    (List.range (beta + 1)).foldl (fun acc alpha =>
      (List.range beta).foldl (fun acc alphaP =>
        if triviallyDoubleCommutes (soleTerm (get alpha)) (soleTerm (get beta)) (soleTerm (get alphaP))
        then acc
        else
          let dc := qcomm tol (get alpha) (qcomm tol (get beta) (get alphaP))
          let acc := iadd tol acc dc
          if alpha = beta then isub tol acc (smul ⟨1/2, 0⟩ dc) else acc) acc) acc) []

/-! ### dual-basis predicates (single FermionOperator terms `p^ p`, `p^ q`, `p^ q^ p q`) -/

def fIdx (t : Term) (k : Nat) : Nat := (t.getD k (0, 0)).1
def fAct (t : Term) (k : Nat) : Nat := (t.getD k (0, 0)).2

/-- `term[0][0] == term[1][0] or term[1][1]` -/
def isNumberOp (t : Term) : Bool := fIdx t 0 == fIdx t 1 || fAct t 1 != 0

def triviallyCommutesDualBasis (a b : Term) : Bool :=
  let ma := [fIdx a 0, fIdx a 1]
  let mb := [fIdx b 0, fIdx b 1]
  if !(mb.contains (fIdx a 0) || mb.contains (fIdx a 1)) then true
  else
    let na := isNumberOp a
    let nb := isNumberOp b
    if na && nb then true
    else if !(na || nb) && (fIdx a 0 == fIdx b 0 || fIdx a 1 == fIdx b 1) then true
    else if (na || nb) && (ma.all mb.contains && mb.all ma.contains) then true
    else false

/-- `counts[operator[0]] = counts.get(operator[0], 0) + 2 * operator[1] - 1` -/
def countChanges (all : Term) : List (Nat × Int) :=
  all.foldl (fun d f => Dict.set d f.1 (Dict.getD d f.1 0 + 2 * (f.2 : Int) - 1)) []

def triviallyDoubleCommutesDualBasis (a b c : Term) : Bool :=
  let mc := [fIdx c 0, fIdx c 1]
  if !(mc.contains (fIdx b 0) || mc.contains (fIdx b 1)) then true
  else
    let nb := isNumberOp b
    let nc := isNumberOp c
    if nb && nc then true
    else if !(nb || nc) && (fIdx b 0 == fIdx c 0 || fIdx b 1 == fIdx c 1) then true
    else
      let mb := [fIdx b 0, fIdx b 1]
      let mbc := [fIdx b 0, fIdx b 1, fIdx c 0, fIdx c 1]
      if !(mbc.contains (fIdx a 0) || mbc.contains (fIdx a 1)) then true
      else if decide ((mb.filter mc.contains).length > 1) && (nb || nc) then true
      else
        let counts := countChanges (a ++ b ++ c)
        counts.any (fun e => e.2 > 1) || counts.any (fun e => e.2 < -1)

/-- input class of known finding F07: `b` is a one-mode number operator `p^ p` and `c` a
hopping term `r^ s` (`r ≠ s`) acting on `p` (the same classifier as `f07_class` in harness/c07.py) -/
def f07Class (b c : Term) : Bool :=
  b.length == 2 && fIdx b 0 == fIdx b 1 && c.length == 2 && fIdx c 0 != fIdx c 1 &&
    (fIdx b 0 == fIdx c 0 || fIdx b 0 == fIdx c 1)

/-- the index *sets* are lists without repetition; only set operations are used -/
def triviallyDoubleCommutesTermInfo (ia ib iap : List Nat) (_ha hb hap : Bool) (jellium : Bool) : Bool :=
  if !(hb || hap) then true
  else if jellium && (!hap || !hb) && (ib.filter iap.contains).length != 1 then true
  else if !(ia.any fun i => ib.contains i || iap.contains i) then true
  else false

end C07
end Model
end OFV
