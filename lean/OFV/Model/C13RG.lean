/-
C13 — Model of `RichardsonGaudin` (hamiltonians/richardson_gaudin.py) and of the
`DOCIHamiltonian.qubit_operator` parts it inherits (ops/representations/doci_hamiltonian.py):
`hc[p] = 2 (p + 1)`, `hr1[p, q] = g` for `p ≠ q`, `hr2 = 0`, constant `0`.
Python's `sum([...])` starts from the int `0`: a sum of operators is `none` (the int 0) for an
empty list, and `0 + op` / `op + 0` add `0` to the constant term.  Executable, import-free.
-/
import OFV.Model.Symbolic
import OFV.Model.C13Hubbard

namespace OFV
namespace Model
namespace C13

/-- Python value that is either the int `0` (`none`) or an operator -/
abbrev IntOrOp := Option Op

section
variable (tol : Rat)

/-- `a + b` where each side is the int 0 or a QubitOperator -/
def pyAdd : IntOrOp → IntOrOp → IntOrOp
  | none, none => none
  | some a, none => some (addConst a 0)
  | none, some b => some (addConst b 0)        -- `0 + b` = `b.__radd__(0)` = `b + 0`
  | some a, some b => some (iadd tol a b)

/-- `sum(list_of_operators)` -/
def pySum (l : List Op) : IntOrOp := l.foldl (fun acc o => pyAdd tol acc (some o)) none

def natGQ (n : Nat) : GQ := ⟨(n : Rat), 0⟩

structure RG where
  g : GQ
  n : Nat

def RG.hc (_ : RG) (p : Nat) : GQ := natGQ (2 * (p + 1))
def RG.hr1 (m : RG) (p q : Nat) : GQ := if p ≠ q then m.g else 0
def RG.hr2 (_ : RG) (_ _ : Nat) : GQ := 0

def pairsLt (n : Nat) : List (Nat × Nat) :=
  (List.range n).flatMap fun p => ((List.range n).filter fun q => p < q).map fun q => (p, q)

def gsum (l : List GQ) : GQ := l.foldl (· + ·) 0

/-- `identity_part`: `constant + sum(hc)/2 + sum(hr2)/4 + sum(diag(hr2))/4` -/
def RG.identityPart (m : RG) : Op :=
  Model.mk .qubit [] (0 + gsum ((List.range m.n).map m.hc) * half
    + gsum ((List.range m.n).flatMap fun p => (List.range m.n).map fun q => m.hr2 p q) * (half * half)
    + gsum ((List.range m.n).map fun p => m.hr2 p p) * (half * half))

def RG.xxTerm (m : RG) (p q : Nat) : Op := Model.mk .qubit [(p, 1), (q, 1)] (m.hr1 p q * half)
def RG.yyTerm (m : RG) (p q : Nat) : Op := Model.mk .qubit [(p, 2), (q, 2)] (m.hr1 p q * half)
def RG.zzTerm (m : RG) (p q : Nat) : Op := Model.mk .qubit [(p, 3), (q, 3)] (m.hr2 p q * half)
def RG.zTerm (m : RG) (p : Nat) : Op :=
  Model.mk .qubit [(p, 3)] (-(m.hc p) * half - gsum ((List.range m.n).map fun q => m.hr2 q p) * half)

def RG.xyPart (m : RG) : IntOrOp :=
  pyAdd tol (pySum tol ((pairsLt m.n).map fun (p, q) => m.xxTerm p q))
    (pySum tol ((pairsLt m.n).map fun (p, q) => m.yyTerm p q))

def RG.zPart (m : RG) : IntOrOp :=
  pyAdd tol (pySum tol ((pairsLt m.n).map fun (p, q) => m.zzTerm p q))
    (pySum tol ((List.range m.n).map m.zTerm))

/-- `qubit_operator` = `identity_part + z_part + xy_part` -/
def RG.qubitOperator (m : RG) : IntOrOp :=
  pyAdd tol (pyAdd tol (some m.identityPart) (m.zPart tol)) (m.xyPart tol)

end

end C13
end Model
end OFV
