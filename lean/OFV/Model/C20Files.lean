/-
C20 — Model of `save_operator` / `load_operator` / `get_file_path` (utils/operator_utils.py)
over an abstract file system: a finite map `path ↦ content`.  A plain-text file holds the
characters written; a binary file holds the value handed to `marshal.dump`
(`marshal.load(marshal.dump(x)) = x` on `(str, dict[tuple → complex])` is the contract).
Executable, import-free.
-/
import OFV.Model.C20

namespace OFV
namespace Model
namespace C20

inductive FileContent
  | text (s : Str)
  | binary (typeName : Str) (terms : Op)
deriving Repr

/-- the directory: insertion-ordered map `path ↦ content` -/
abbrev FS := List (Str × FileContent)

inductive Err
  | noFileName          -- OperatorUtilsError('File name is not provided.')
  | fileExists          -- OperatorUtilsError('Not saved, file already exists.')
  | fileNotFound        -- FileNotFoundError
  | badFormat           -- the file is not in the requested format (decode / marshal / unpack error)
  | typeError           -- 'Operator of invalid type.'
  | valueError          -- the string constructor rejects the stored text
deriving DecidableEq, Repr

def typeName : Cls → Str
  | .fermion => "FermionOperator".toList
  | .boson => "BosonOperator".toList
  | .qubit => "QubitOperator".toList
  | .quad => "QuadOperator".toList
  | .ising => "IsingOperator".toList

def clsOfTypeName (s : Str) : Option Cls :=
  if s = typeName .fermion then some .fermion
  else if s = typeName .boson then some .boson
  else if s = typeName .qubit then some .qubit
  else if s = typeName .quad then some .quad
  else none

/-- `get_file_path(file_name, data_directory)` -/
def getFilePath (fileName dir : Str) : Except Err Str :=
  if fileName = [] then .error .noFileName else
  let fn := if fileName.drop (fileName.length - 5) = ".data".toList then fileName else fileName ++ ".data".toList
  .ok (dir ++ '/' :: fn)

def fsGet (fs : FS) (p : Str) : Option FileContent := Dict.get? fs p
def fsSet (fs : FS) (p : Str) (c : FileContent) : FS := Dict.set fs p c

/-- `save_operator(operator, file_name, data_directory, allow_overwrite, plain_text)` for an operator
of one of the four savable classes with numeric coefficients -/
def save (tol : Rat) (fs : FS) (cls : Cls) (A : List Entry) (fileName dir : Str)
    (allowOverwrite plainText : Bool) : Except Err FS := do
  let path ← getFilePath fileName dir
  if (fsGet fs path).isSome && !allowOverwrite then .error .fileExists else
  if plainText then
    .ok (fsSet fs path (.text (typeName cls ++ [':', '\n'] ++ printOp cls tol A)))
  else
    .ok (fsSet fs path (.binary (typeName cls) (A.map fun e => (e.1, e.2.1))))

/-- first occurrence of `":\n"`: text before and after it -/
def splitColonNl : Str → Str → Option (Str × Str)
  | [], _ => none
  | ':' :: '\n' :: r, acc => some (acc.reverse, r)
  | c :: r, acc => splitColonNl r (c :: acc)

/-- `operator_type, operator_terms = data.split(":\n")` (exactly two parts) -/
def splitHeader (data : Str) : Option (Str × Str) :=
  match splitColonNl data [] with
  | none => none
  | some (a, b) => if (splitColonNl b []).isSome then none else some (a, b)

/-- what `load_operator` makes of the content of a file, read in the requested format -/
def loadContent (tol : Rat) (nt : NumTables) (content : FileContent) (plainText : Bool) :
    Except Err (Cls × Op) :=
  match content with
  | .text data =>
    if !plainText then .error .badFormat else
    match splitHeader data with
    | none => .error .badFormat
    | some (tn, terms) =>
      match clsOfTypeName tn with
      | none =>
        -- the constructor call comes after the type dispatch: an unknown type is a TypeError
        .error .typeError
      | some cls =>
        if terms = ['0'] ∨ terms = [] then .ok (cls, [])
        else match initFromString cls nt terms with
          | none => .error .valueError
          | some op => .ok (cls, op)
  | .binary tn terms =>
    if plainText then .error .badFormat else
    match clsOfTypeName tn with
    | none => .error .typeError
    | some cls =>
      .ok (cls, terms.foldl (fun acc (e : Term × GQ) => iadd tol acc (mk cls e.1 e.2)) [])

/-- `load_operator(file_name, data_directory, plain_text)`: class and terms of the result -/
def load (tol : Rat) (nt : NumTables) (fs : FS) (fileName dir : Str) (plainText : Bool) :
    Except Err (Cls × Op) := do
  let path ← getFilePath fileName dir
  match fsGet fs path with
  | none => .error .fileNotFound
  | some content => loadContent tol nt content plainText

end C20
end Model
end OFV
