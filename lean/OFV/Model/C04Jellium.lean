/-
Model of the dual-basis jellium Hamiltonian of `hamiltonians/jellium.py` over the exact index structure of
`utils/grid.py` (`all_points_indices`, `orbital_id`, `grid_indices`, index shifts modulo the grid lengths, spin
bookkeeping, which strings are emitted and which are skipped), with the momentum sums abstracted:

* `kin δ` stands for `Σ_{k ≠ 0} cos(k · r_δ) k² / (2 n)` (`kinetic_coefficient` of `dual_basis_jellium_model`),
* `pot δ` stands for `Σ_{k ≠ 0} (2π/Ω) cos(k · r_δ) / k²` (`potential_coefficient`),

both functions of a grid displacement `δ` (a tuple of indices; `cos(k · r)` is periodic over the grid, so the
displacement of two grid points enters only modulo the grid lengths).  In these terms the four momentum sums of
`jordan_wigner_dual_basis_jellium` are `identity = n K(0) − n P(0)/2` (halved if spinless),
`z = P(0)/2 − K(0)/2`, `zz(p, q) = P(δ_pq)/2`, `xzx(p, q) = yzy(p, q) = K(δ_pq)/2`.  Import-free apart from the
Models of `SymbolicOperator` arithmetic and of `jordan_wigner`.
-/
import OFV.Model.Symbolic
import OFV.Model.C04

namespace OFV
namespace Model
namespace C04J

/-- `int(numpy.prod(lengths))` -/
def prodL (l : List Nat) : Nat := l.foldl (· * ·) 1

/-- `itertools.product(*[range(length[i]) for i in range(dimensions)])` (first index slowest) -/
def allPoints : List Nat → List (List Nat)
  | [] => [[]]
  | L :: Ls => (List.range L).flatMap fun i => (allPoints Ls).map fun xs => i :: xs

/-- the loop of `Grid.orbital_id`: `tensor_factor += coordinate * prod(length[:dimension])`;
`stride` carries `prod(length[:dimension])` -/
def tensorFactorAux : Nat → List Nat → List Nat → Nat
  | stride, L :: Ls, i :: is => i * stride + tensorFactorAux (stride * L) Ls is
  | _, _, _ => 0

def tensorFactor (lengths idx : List Nat) : Nat := tensorFactorAux 1 lengths idx

/-- `Grid.orbital_id(indices, spin)`; `spin = none` is the spinless model -/
def orbitalId (lengths idx : List Nat) (spin : Option Nat) : Nat :=
  match spin with
  | none => tensorFactor lengths idx
  | some σ => tensorFactor lengths idx * 2 + σ

/-- `Grid.grid_indices(qubit_id, spinless)` -/
def gridIndices (lengths : List Nat) (qubit : Nat) (spinless : Bool) : List Nat :=
  let oid := if spinless then qubit else qubit / 2
  (List.range lengths.length).map fun d => (oid % prodL (lengths.take (d + 1))) / prodL (lengths.take d)

/-- `tuple((a[i] + b[i]) % length[i] for i in range(dimensions))` -/
def shiftIdx : List Nat → List Nat → List Nat → List Nat
  | L :: Ls, a :: as, b :: bs => (a + b) % L :: shiftIdx Ls as bs
  | _, _, _ => []

/-- displacement `a − b` on the grid, componentwise modulo the lengths -/
def subIdx : List Nat → List Nat → List Nat → List Nat
  | L :: Ls, a :: as, b :: bs => (a + L - b % L) % L :: subIdx Ls as bs
  | _, _, _ => []

def origin (lengths : List Nat) : List Nat := lengths.map fun _ => 0

def spins (spinless : Bool) : List (Option Nat) := if spinless then [none] else [some 0, some 1]

section
variable (tol : Rat)

/-- the operands `operator += FermionOperator(...)` of one `(b, shift)` iteration of `dual_basis_jellium_model`
(`kinetic = potential = True`), in program order -/
def modelImgs (lengths : List Nat) (spinless : Bool) (kin pot : List Nat → GQ) (b shift : List Nat) : List Op :=
  let i1 := shiftIdx lengths (origin lengths) shift
  let i2 := shiftIdx lengths b shift
  let oa := fun s => orbitalId lengths i1 s
  let ob := fun s => orbitalId lengths i2 s
  ((spins spinless).map fun s => mk .fermion [(oa s, 1), (ob s, 0)] (kin b))
  ++ ((spins spinless).flatMap fun sa => (spins spinless).flatMap fun sb =>
      if oa sa == ob sb then [] else [mk .fermion [(oa sa, 1), (oa sa, 0), (ob sb, 1), (ob sb, 0)] (pot b)])

/-- `dual_basis_jellium_model(grid, spinless, True, True, include_constant)`; `const = some c` adds
`FermionOperator.identity() * c` (the Madelung term) -/
def dualBasisModel (lengths : List Nat) (spinless : Bool) (kin pot : List Nat → GQ) (const : Option GQ) : Op :=
  let pts := allPoints lengths
  let op := pts.foldl (fun op b => pts.foldl (fun op shift =>
    (modelImgs lengths spinless kin pot b shift).foldl (fun op img => iadd tol op img) op) op) []
  match const with
  | none => op
  | some c => iadd tol op (mk .fermion [] c)

def dualBasisModelOk (lengths : List Nat) (spinless : Bool) (kin pot : List Nat → GQ) (const : Option GQ) : Bool :=
  let pts := allPoints lengths
  C04.sumOk tol ((pts.flatMap fun b => pts.flatMap fun shift => modelImgs lengths spinless kin pot b shift)
    ++ (match const with | none => [] | some c => [mk .fermion [] c]))

/-- the operands of one pair `p < q` of `jordan_wigner_dual_basis_jellium` -/
def directPair (lengths : List Nat) (spinless : Bool) (kin pot : List Nat → GQ) (p q : Nat) : List Op :=
  let δ := subIdx lengths (gridIndices lengths p spinless) (gridIndices lengths q spinless)
  let skip := !spinless && (p + q) % 2 != 0
  [mk .qubit [(p, 3), (q, 3)] (pot δ * C04.half)]
  ++ (if skip then [] else
      [mk .qubit ([(p, 1)] ++ C04.zs (p + 1) q ++ [(q, 1)]) (kin δ * C04.half),
       mk .qubit ([(p, 2)] ++ C04.zs (p + 1) q ++ [(q, 2)]) (kin δ * C04.half)])

/-- all `hamiltonian +=` operands of `jordan_wigner_dual_basis_jellium`, in program order -/
def directImgs (lengths : List Nat) (spinless : Bool) (kin pot : List Nat → GQ) (const : Option GQ) : List Op :=
  let n := prodL lengths
  let nq := if spinless then n else 2 * n
  let k0 := kin (origin lengths)
  let p0 := pot (origin lengths)
  let idc0 : GQ := ⟨n, 0⟩ * k0 - ⟨n, 0⟩ * p0 * C04.half
  let idc := if spinless then idc0 * C04.half else idc0
  let zc := p0 * C04.half - k0 * C04.half
  [mk .qubit [] idc]
  ++ ((List.range nq).map fun q => mk .qubit [(q, 3)] zc)
  ++ ((List.range nq).flatMap fun p => (List.range' (p + 1) (nq - (p + 1))).flatMap fun q =>
      directPair lengths spinless kin pot p q)
  ++ (match const with | none => [] | some c => [mk .qubit [] c])

/-- `jordan_wigner_dual_basis_jellium(grid, spinless, include_constant)` -/
def jwJelliumDirect (lengths : List Nat) (spinless : Bool) (kin pot : List Nat → GQ) (const : Option GQ) : Op :=
  (directImgs lengths spinless kin pot const).foldl (fun acc img => iadd tol acc img) []

def jwJelliumDirectOk (lengths : List Nat) (spinless : Bool) (kin pot : List Nat → GQ) (const : Option GQ) : Bool :=
  C04.sumOk tol (directImgs lengths spinless kin pot const)

end

/-! ### external potential of nuclei: `jordan_wigner_dual_basis_hamiltonian` and
`plane_wave_hamiltonian(plane_wave=False)`

`ext k x j` stands for `(-2π/Ω) / k² · Z_j · cos(k · (R_j − r_x))` (momentum index `k`, grid point `x`, nucleus
number `j`), the coefficient computed by the direct form; the FermionOperator form computes the same expression
with prefactor `-4π/Ω`, i.e. exactly twice it.  `skipK k` stands for `momenta_squared == 0`. -/

section
variable (tol : Rat)

/-- `QubitOperator((), c) - QubitOperator(((p, 'Z'),), c)` -/
def extPair (p : Nat) (c : GQ) : Op := isub tol (mk .qubit [] c) (mk .qubit [(p, 3)] c)

/-- the operands of `external_potential +=`, in program order -/
def extDirectImgs (lengths : List Nat) (spinless : Bool) (nNuc : Nat) (skipK : List Nat → Bool)
    (ext : List Nat → List Nat → Nat → GQ) : List Op :=
  let nq := if spinless then prodL lengths else 2 * prodL lengths
  (allPoints lengths).flatMap fun k => if skipK k then [] else
    (List.range nq).flatMap fun p => (List.range nNuc).map fun j =>
      extPair tol p (ext k (gridIndices lengths p spinless) j)

/-- `jordan_wigner_dual_basis_hamiltonian(grid, geometry, spinless, False)` with a geometry of `nNuc` nuclei -/
def jwDualBasisHam (lengths : List Nat) (spinless : Bool) (kin pot : List Nat → GQ) (nNuc : Nat)
    (skipK : List Nat → Bool) (ext : List Nat → List Nat → Nat → GQ) : Op :=
  let jellium := jwJelliumDirect tol lengths spinless kin pot none
  let external := (extDirectImgs tol lengths spinless nNuc skipK ext).foldl (fun acc img => iadd tol acc img) []
  iadd tol jellium external

def jwDualBasisHamOk (lengths : List Nat) (spinless : Bool) (kin pot : List Nat → GQ) (nNuc : Nat)
    (skipK : List Nat → Bool) (ext : List Nat → List Nat → Nat → GQ) : Bool :=
  let nq := if spinless then prodL lengths else 2 * prodL lengths
  jwJelliumDirectOk tol lengths spinless kin pot none
  && C04.sumOk tol (extDirectImgs tol lengths spinless nNuc skipK ext)
  && ((allPoints lengths).all fun k => skipK k || (List.range nq).all fun p => (List.range nNuc).all fun j =>
      C04.iaddOk tol (mk .qubit [] (ext k (gridIndices lengths p spinless) j))
        ((mk .qubit [(p, 3)] (ext k (gridIndices lengths p spinless) j)).map fun tc => (tc.1, -tc.2)))
  && C04.iaddOk tol (jwJelliumDirect tol lengths spinless kin pot none)
      ((extDirectImgs tol lengths spinless nNuc skipK ext).foldl (fun acc img => iadd tol acc img) [])

/-- the operands of `dual_basis_external_potential` (`operator = …` for the first, `operator += …` afterwards) -/
def extModelImgs (lengths : List Nat) (spinless : Bool) (nNuc : Nat) (skipK : List Nat → Bool)
    (ext : List Nat → List Nat → Nat → GQ) : List Op :=
  (allPoints lengths).flatMap fun x => (List.range nNuc).flatMap fun j => (allPoints lengths).flatMap fun k =>
    if skipK k then [] else
      (spins spinless).map fun σ =>
        mk .fermion [(orbitalId lengths x σ, 1), (orbitalId lengths x σ, 0)] (⟨2, 0⟩ * ext k x j)

/-- `dual_basis_external_potential(grid, geometry, spinless)`: `none` if no term was generated -/
def extModel (lengths : List Nat) (spinless : Bool) (nNuc : Nat) (skipK : List Nat → Bool)
    (ext : List Nat → List Nat → Nat → GQ) : Option Op :=
  match extModelImgs lengths spinless nNuc skipK ext with
  | [] => none
  | first :: rest => some (rest.foldl (fun acc img => iadd tol acc img) first)

/-- `plane_wave_hamiltonian(grid, geometry, spinless, plane_wave=False, include_constant=False)`; the library
raises `TypeError` when the external potential is `None` — modelled as the jellium part alone -/
def dualBasisHamModel (lengths : List Nat) (spinless : Bool) (kin pot : List Nat → GQ) (nNuc : Nat)
    (skipK : List Nat → Bool) (ext : List Nat → List Nat → Nat → GQ) : Op :=
  let jellium := dualBasisModel tol lengths spinless kin pot none
  match extModel tol lengths spinless nNuc skipK ext with
  | none => jellium
  | some e => iadd tol jellium e

def dualBasisHamModelOk (lengths : List Nat) (spinless : Bool) (kin pot : List Nat → GQ) (nNuc : Nat)
    (skipK : List Nat → Bool) (ext : List Nat → List Nat → Nat → GQ) : Bool :=
  dualBasisModelOk tol lengths spinless kin pot none
  && (match extModelImgs lengths spinless nNuc skipK ext with
      | [] => true
      | first :: rest =>
        C04.sumOkFrom tol first rest
        && C04.iaddOk tol (dualBasisModel tol lengths spinless kin pot none)
            (rest.foldl (fun acc img => iadd tol acc img) first))

end

/-- the hypotheses on the coefficient functions of `jw_jellium_direct_sound`, as a decidable check: `K`, `P` even
functions of the displacement and `Σ_δ P(δ) = 0`; evaluated by the driver -/
def jelliumHypOk (lengths : List Nat) (kin pot : List Nat → GQ) : Bool :=
  let pts := allPoints lengths
  (pts.all fun u => pts.all fun v =>
    kin (subIdx lengths u v) == kin (subIdx lengths v u) && pot (subIdx lengths u v) == pot (subIdx lengths v u))
  && (pts.map pot).sum == 0

/-- coefficient function from a table indexed by `tensorFactor` of the displacement -/
def tableFn (lengths : List Nat) (table : List GQ) (δ : List Nat) : GQ := table.getD (tensorFactor lengths δ) 0

end C04J
end Model
end OFV
