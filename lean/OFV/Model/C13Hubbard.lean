/-
C13 — Model of the Hamiltonian generators built on `SymbolicOperator` arithmetic
(`OFV.Model.Symbolic`):
* `hubbard.py`: `fermi_hubbard` (spinful / spinless, particle-hole flag), `bose_hubbard`,
  `_hopping_term`, `_coulomb_interaction_term`;
* `mean_field_dwave.py`;
* `general_hubbard.py`: `FermiHubbardModel.{tunneling,interaction,potential,field}_terms`,
  `hamiltonian`;
* `special_operators.py`: `number_operator`, `s_plus/s_minus/sx/sy/sz/s_squared_operator`.
Every `+=` is the Model's `iadd` (deletes coefficients below `EQ_TOLERANCE`), every product
the Model's `mulOp`.  Executable, import-free.
-/
import OFV.Model.Symbolic
import OFV.Model.C13Lattice

namespace OFV
namespace Model
namespace C13

def half : GQ := ⟨mkRat 1 2, 0⟩

section
variable (tol : Rat)

/-- `number_operator(n_modes, mode, coefficient, parity)` with a mode given -/
def numberOp (cls : Cls) (mode : Nat) (c : GQ) : Op := mk cls [(mode, 1), (mode, 0)] c

/-- `_hopping_term(i, j, coefficient, bosonic)` -/
def hoppingTerm (cls : Cls) (i j : Nat) (c : GQ) : Op :=
  iadd tol (mk cls [(i, 1), (j, 0)] c) (mk cls [(j, 1), (i, 0)] c.conj)

/-- `_coulomb_interaction_term(n_sites, i, j, coefficient, particle_hole_symmetry, bosonic)` -/
def coulombTerm (cls : Cls) (i j : Nat) (c : GQ) (phs : Bool) : Op :=
  let ni := numberOp cls i 1
  let nj := numberOp cls j 1
  let ni := if phs then isub tol ni (mk cls [] half) else ni
  let nj := if phs then isub tol nj (mk cls [] half) else nj
  mulOp cls (smul c ni) nj

structure HubbardArgs where
  x : Nat
  y : Nat
  t : GQ
  u : GQ
  mu : GQ
  h : GQ
  periodic : Bool
  phs : Bool

/-- `_spinful_fermi_hubbard_model` -/
def spinfulFermiHubbard (a : HubbardArgs) : Op :=
  (List.range (a.x * a.y)).foldl (fun H site =>
    let nb := siteNeighbors site a.x a.y a.periodic
    let H := match nb.1 with
      | some r =>
        iadd tol (iadd tol H (hoppingTerm tol .fermion (2 * site) (2 * r) (-a.t)))
          (hoppingTerm tol .fermion (2 * site + 1) (2 * r + 1) (-a.t))
      | none => H
    let H := match nb.2 with
      | some b =>
        iadd tol (iadd tol H (hoppingTerm tol .fermion (2 * site) (2 * b) (-a.t)))
          (hoppingTerm tol .fermion (2 * site + 1) (2 * b + 1) (-a.t))
      | none => H
    let H := iadd tol H (coulombTerm tol .fermion (2 * site) (2 * site + 1) a.u a.phs)
    let H := iadd tol H (numberOp .fermion (2 * site) (-a.mu - a.h))
    iadd tol H (numberOp .fermion (2 * site + 1) (-a.mu + a.h))) []

/-- `_spinless_fermi_hubbard_model` -/
def spinlessFermiHubbard (a : HubbardArgs) : Op :=
  (List.range (a.x * a.y)).foldl (fun H site =>
    let nb := siteNeighbors site a.x a.y a.periodic
    let H := match nb.1 with
      | some r =>
        iadd tol (iadd tol H (hoppingTerm tol .fermion site r (-a.t)))
          (coulombTerm tol .fermion site r a.u a.phs)
      | none => H
    let H := match nb.2 with
      | some b =>
        iadd tol (iadd tol H (hoppingTerm tol .fermion site b (-a.t)))
          (coulombTerm tol .fermion site b a.u a.phs)
      | none => H
    iadd tol H (numberOp .fermion site (-a.mu))) []

def fermiHubbard (a : HubbardArgs) (spinless : Bool) : Op :=
  if spinless then spinlessFermiHubbard tol a else spinfulFermiHubbard tol a

/-- `bose_hubbard(x, y, tunneling, interaction, chemical_potential, dipole, periodic)`;
`a.u` = interaction `U`, `a.h` = dipole `V` -/
def boseHubbard (a : HubbardArgs) : Op :=
  (List.range (a.x * a.y)).foldl (fun H site =>
    let nb := siteNeighbors site a.x a.y a.periodic
    let H := match nb.1 with
      | some r =>
        iadd tol (iadd tol H (hoppingTerm tol .boson site r (-a.t)))
          (coulombTerm tol .boson site r a.h false)
      | none => H
    let H := match nb.2 with
      | some b =>
        iadd tol (iadd tol H (hoppingTerm tol .boson site b (-a.t)))
          (coulombTerm tol .boson site b a.h false)
      | none => H
    let onsite := mulOp .boson (numberOp .boson site (half * a.u))
      (isub tol (numberOp .boson site 1) (mk .boson [] 1))
    let H := iadd tol H onsite
    iadd tol H (numberOp .boson site (-a.mu))) []

/-- `hermitian_conjugated` of a FermionOperator (utils/operator_utils.py): the terms are
assigned, not accumulated -/
def hcFermion (a : Op) : Op :=
  a.foldl (fun acc (t, c) => Dict.set acc (t.reverse.map fun f => (f.1, 1 - f.2)) c.conj) []

/-- `mean_field_dwave(x, y, tunneling, sc_gap, chemical_potential, periodic)`;
`a.u` = `sc_gap` -/
def meanFieldDwave (a : HubbardArgs) : Op :=
  (List.range (a.x * a.y)).foldl (fun H site =>
    let H := iadd tol H (numberOp .fermion (2 * site) (-a.mu))
    let H := iadd tol H (numberOp .fermion (2 * site + 1) (-a.mu))
    let nb := dwaveNeighbors site a.x a.y a.periodic
    let edge (H : Op) (n : Nat) (sgn : GQ) : Op :=
      let hop := mk .fermion [(2 * site, 1), (2 * n, 0)] (-a.t)
      let H := iadd tol (iadd tol H hop) (hcFermion hop)
      let hop := mk .fermion [(2 * site + 1, 1), (2 * n + 1, 0)] (-a.t)
      let H := iadd tol (iadd tol H hop) (hcFermion hop)
      let pair := iadd tol (mk .fermion [(2 * site, 1), (2 * n + 1, 1)] (sgn * (a.u * half)))
        (mk .fermion [(2 * site + 1, 1), (2 * n, 1)] (-(sgn * (a.u * half))))
      isub tol (isub tol H pair) (hcFermion pair)
    let H := match nb.1 with
      | some r => edge H r 1
      | none => H
    match nb.2 with
      | some b => edge H b (-1)
      | none => H) []

/-! ### `FermiHubbardModel` -/

/-- `general_hubbard.number_operator(i, coefficient, particle_hole_symmetry)` -/
def gNumberOp (i : Nat) (c : GQ) (phs : Bool) : Op :=
  let op := mk .fermion [(i, 1), (i, 0)] c
  if phs then isub tol op (mk .fermion [] (half * c)) else op

/-- `interaction_operator(i, j, coefficient, particle_hole_symmetry)` -/
def gInteractionOp (i j : Nat) (c : GQ) (phs : Bool) : Op :=
  mulOp .fermion (gNumberOp tol i c phs) (gNumberOp tol j 1 phs)

/-- `tunneling_operator(i, j, coefficient)` -/
def gTunnelingOp (i j : Nat) (c : GQ) : Op :=
  iadd tol (mk .fermion [(i, 1), (j, 0)] c) (mk .fermion [(j, 1), (i, 0)] c.conj)

/-- `number_difference_operator(i, j, coefficient)` -/
def gNumberDifferenceOp (i j : Nat) (c : GQ) : Op :=
  isub tol (gNumberOp tol i c false) (gNumberOp tol j c false)

structure TunnelingParam where
  edgeType : Nat
  a : Nat
  aa : Nat
  coefficient : GQ

structure InteractionParam where
  edgeType : Nat
  a : Nat
  aa : Nat
  coefficient : GQ
  spinPairs : Nat

structure PotentialParam where
  dof : Nat
  coefficient : GQ

structure FHM where
  lattice : Lattice
  tunneling : List TunnelingParam
  interaction : List InteractionParam
  potential : List PotentialParam
  magneticField : GQ
  phs : Bool

def FHM.tunnelingTerms (m : FHM) : Op :=
  m.tunneling.foldl (fun terms p =>
    (m.lattice.sitePairs p.edgeType (p.a != p.aa)).foldl (fun terms (r, rr) =>
      (List.range m.lattice.nSpinValues).foldl (fun terms s =>
        let i := m.lattice.toSpinOrbitalIndex r p.a s
        let j := m.lattice.toSpinOrbitalIndex rr p.aa s
        iadd tol terms (gTunnelingOp tol i j (-p.coefficient))) terms) terms) []

def FHM.interactionTerms (m : FHM) : Op :=
  m.interaction.foldl (fun terms p =>
    (m.lattice.sitePairs p.edgeType (p.a != p.aa)).foldl (fun terms (r, rr) =>
      let same := p.a == p.aa && r == rr
      -- `parse_interaction_parameters`: spin_pairs is `SpinPairs.ALL` on spinless lattices
      let sp := if m.lattice.spinless then 0 else p.spinPairs
      (m.lattice.spinPairs (if same then 2 else sp) (!same)).foldl (fun terms (s, ss) =>
        let i := m.lattice.toSpinOrbitalIndex r p.a s
        let j := m.lattice.toSpinOrbitalIndex rr p.aa ss
        iadd tol terms (gInteractionOp tol i j p.coefficient m.phs)) terms) terms) []

def FHM.potentialTerms (m : FHM) : Op :=
  m.potential.foldl (fun terms p =>
    (List.range m.lattice.nSites).foldl (fun terms site =>
      (List.range m.lattice.nSpinValues).foldl (fun terms s =>
        let i := m.lattice.toSpinOrbitalIndex site p.dof s
        iadd tol terms (gNumberOp tol i (-p.coefficient) m.phs)) terms) terms) []

def FHM.fieldTerms (m : FHM) : Op :=
  if m.lattice.spinless || m.magneticField == 0 then [] else
  (List.range m.lattice.nSites).foldl (fun terms site =>
    (List.range m.lattice.nDofs).foldl (fun terms dof =>
      let i := m.lattice.toSpinOrbitalIndex site dof 0
      let j := m.lattice.toSpinOrbitalIndex site dof 1
      iadd tol terms (gNumberDifferenceOp tol i j (-m.magneticField))) terms) []

/-- `hamiltonian()` = tunneling + interaction + potential + field -/
def FHM.hamiltonian (m : FHM) : Op :=
  iadd tol (iadd tol (iadd tol (m.tunnelingTerms tol) (m.interactionTerms tol)) (m.potentialTerms tol))
    (m.fieldTerms tol)

/-! ### spin operators (special_operators.py) -/

def sPlus (n : Nat) : Op :=
  (List.range n).foldl (fun o i => iadd tol o (mk .fermion [(2 * i, 1), (2 * i + 1, 0)] 1)) []

def sMinus (n : Nat) : Op :=
  (List.range n).foldl (fun o i => iadd tol o (mk .fermion [(2 * i + 1, 1), (2 * i, 0)] 1)) []

def sX (n : Nat) : Op :=
  (List.range n).foldl (fun o i =>
    iadd tol (iadd tol o (mk .fermion [(2 * i, 1), (2 * i + 1, 0)] half))
      (mk .fermion [(2 * i + 1, 1), (2 * i, 0)] half)) []

def sY (n : Nat) : Op :=
  (List.range n).foldl (fun o i =>
    iadd tol (iadd tol o (mk .fermion [(2 * i, 1), (2 * i + 1, 0)] (-(half * GQ.I))))
      (mk .fermion [(2 * i + 1, 1), (2 * i, 0)] (half * GQ.I))) []

def sZ (n : Nat) : Op :=
  (List.range n).foldl (fun o i =>
    iadd tol o (iadd tol (numberOp .fermion (2 * i) half) (numberOp .fermion (2 * i + 1) (-half)))) []

def sSquared (n : Nat) : Op :=
  let o := mulOp .fermion (sMinus tol n) (sPlus tol n)
  iadd tol o (mulOp .fermion (sZ tol n) (iadd tol (sZ tol n) (mk .fermion [] 1)))

end

end C13
end Model
end OFV
