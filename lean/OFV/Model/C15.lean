/-
C15 — Model of `openfermion.circuits.trotter.simulate_trotter`.

* `performStep` mirrors `_perform_trotter_step` (Suzuki recursion: `split = t / (4 - 4^(1/(2k-1)))`,
  five sub-steps of order `k-1` with times `s, s, t-4s, s, s`, a `step_qubit_permutation` after each
  sub-step, applied to the *local* qubit list only).  The irrational ratio `1/(4 - 4^(1/(2k-1)))`
  is a parameter `r k` of the Model (the harness passes the exact rational value of the float the
  Python code computes), so all statements hold for every value of the ratios.
* `simulate` mirrors the loop of `simulate_trotter`: `n_steps` outer steps of time `time / n_steps`,
  one `step_qubit_permutation` per outer step, then `finish(qubits, n_steps, …)`.
* `lsnAsymStep` / `lsnSymStep` mirror the generator lists emitted by the linear swap network steps
  (which term, on which pair of modes, at which qubit position, with which coefficient).
Import-free (uses the C14 swap network Model).
-/
import OFV.Model.C14Swap

namespace OFV
namespace Model
namespace C15

/-- one call `trotter_step.trotter_step(qubits, time, control_qubit)` -/
structure Leaf where
  time : Rat
  qubits : List Nat
deriving DecidableEq, Repr

/-- `_perform_trotter_step(qubits, time, order, trotter_step, control)`, `perm` being the step's
`step_qubit_permutation` -/
def performStep (perm : List Nat → List Nat) (r : Nat → Rat) : Nat → List Nat → Rat → List Leaf
  | 0, q, t => [⟨t, q⟩]
  | 1, q, t => [⟨t, q⟩]
  | k + 2, q, t =>
    let s := t * r (k + 2)
    let q1 := perm q
    let q2 := perm q1
    let q3 := perm q2
    let q4 := perm q3
    performStep perm r (k + 1) q s ++ performStep perm r (k + 1) q1 s
      ++ performStep perm r (k + 1) q2 (t - 4 * s)
      ++ performStep perm r (k + 1) q3 s ++ performStep perm r (k + 1) q4 s

/-- the loop of `simulate_trotter`: all leaf calls and the qubit list handed to `finish` -/
def simulateLoop (perm : List Nat → List Nat) (r : Nat → Rat) (order : Nat) (stepTime : Rat) :
    Nat → List Nat → List Leaf × List Nat
  | 0, q => ([], q)
  | m + 1, q =>
    let rest := simulateLoop perm r order stepTime m (perm q)
    (performStep perm r order q stepTime ++ rest.1, rest.2)

def simulate (perm : List Nat → List Nat) (r : Nat → Rat) (order nSteps : Nat) (qubits : List Nat)
    (time : Rat) : List Leaf × List Nat :=
  simulateLoop perm r order (time / nSteps) nSteps qubits

/-- `finish`: `if n_steps & 1 and not omit_final_swaps: yield swap_network(qubits, …)` -/
def finishSwaps (nSteps : Nat) (omitSwaps : Bool) : Bool := nSteps % 2 == 1 && !omitSwaps

/-- number of leaf calls of one step -/
def leafCount : Nat → Nat
  | 0 => 1
  | 1 => 1
  | k + 2 => 5 * leafCount (k + 1)

/-- the reversal `qubits[::-1]` -/
def reversal (q : List Nat) : List Nat := q.reverse

/-! ### linear swap network steps as generator lists -/

/-- kind of generator: `0` = `(a†_p a_q + h.c.)` (Rxxyy), `1` = `i(a†_p a_q − h.c.)`-type (Ryxxy),
`2` = `n_p n_q` (rot11), `3` = `n_p` (rz); entry = `(kind, p, q, position a, coefficient)`; the
evolution time multiplies every coefficient -/
abbrev GenEntry := Nat × Nat × Nat × Nat × Rat

/-- `AsymmetricLinearSwapNetworkTrotterStep.trotter_step`: swap network with
`Rxxyy(T_pq.re t)`, `Ryxxy(T_pq.im t)`, `rot11(-2 V_pq t)`, then `rz(-T_ii.re t)` on `qubits[::-1][i]` -/
def lsnAsymStep (n : Nat) (Tre Tim V : Nat → Nat → Rat) : List GenEntry :=
  ((C14.swapNetwork n false).2.flatMap fun e =>
      [(0, e.1, e.2.1, e.2.2.1, Tre e.1 e.2.1), (1, e.1, e.2.1, e.2.2.1, Tim e.1 e.2.1),
       (2, e.1, e.2.1, e.2.2.1, 2 * V e.1 e.2.1)])
  ++ (List.range n).map fun i => (3, i, i, n - 1 - i, Tre i i)

/-- `SymmetricLinearSwapNetworkTrotterStep.trotter_step`: half-time network, full-time `rz`,
half-time network with `offset=True` on the reversed qubits and the three gates in reverse order -/
def lsnSymStep (n : Nat) (Tre Tim V : Nat → Nat → Rat) : List GenEntry :=
  ((C14.swapNetwork n false).2.flatMap fun e =>
      [(0, e.1, e.2.1, e.2.2.1, Tre e.1 e.2.1 / 2), (1, e.1, e.2.1, e.2.2.1, Tim e.1 e.2.1 / 2),
       (2, e.1, e.2.1, e.2.2.1, V e.1 e.2.1)])
  ++ ((List.range n).map fun i => (3, i, i, n - 1 - i, Tre i i))
  ++ ((C14.swapNetwork n true).2.flatMap fun e =>
      [(2, e.1, e.2.1, n - 1 - e.2.2.1, V e.1 e.2.1), (1, e.1, e.2.1, n - 1 - e.2.2.1, Tim e.1 e.2.1 / 2),
       (0, e.1, e.2.1, n - 1 - e.2.2.1, Tre e.1 e.2.1 / 2)])

/-! ### controlled linear swap network steps

`Controlled…LinearSwapNetworkTrotterStep.trotter_step` emits the same sequence with every gate replaced by
its version controlled on `control_qubit` (`CRxxyy`, `CRyxxy`, `rot111`, `rot11(control, q)`), i.e. every
generator `G` becomes `|1⟩⟨1|_c ⊗ G`, followed by `rz(-constant·time)` on the control: generator kind `4`,
`|1⟩⟨1|_c · constant` (up to the global phase of `rz`). -/

def lsnAsymStepControlled (n : Nat) (Tre Tim V : Nat → Nat → Rat) (const : Rat) : List GenEntry :=
  lsnAsymStep n Tre Tim V ++ [(4, 0, 0, 0, const)]

def lsnSymStepControlled (n : Nat) (Tre Tim V : Nat → Nat → Rat) (const : Rat) : List GenEntry :=
  lsnSymStep n Tre Tim V ++ [(4, 0, 0, 0, const)]

/-! ### split-operator and low-rank steps

Additional kinds: `5` = number operator `ñ_i` of the `i`-th orbital of the diagonalising basis (entry
`(5, i, i, position, ε_i)`), `6` / `7` = basis change `bogoliubov_transform(qubits, W)` / its inverse
(no coefficient; `p` = which matrix).  The swap networks here are plain (qubit) swap networks. -/

/-- `AsymmetricSplitOperatorTrotterStep.trotter_step`: network `rot11(-2 V_pq t)`; on the reversed qubits:
inverse basis change, `rz(-ε_i t)` on `qubits[i]`, basis change -/
def soAsymStep (n : Nat) (V : Nat → Nat → Rat) (E : Nat → Rat) : List GenEntry :=
  ((C14.swapNetwork n false).2.map fun e => (2, e.1, e.2.1, e.2.2.1, 2 * V e.1 e.2.1))
  ++ [(7, 0, 0, 0, 0)]
  ++ ((List.range n).map fun i => (5, i, i, n - 1 - i, E i))
  ++ [(6, 0, 0, 0, 0)]

/-- `SymmetricSplitOperatorTrotterStep.trotter_step`: `rz(-ε_i t/2)`, basis change, network
`rot11(-2 V_pq t)`, on the reversed qubits: inverse basis change, `rz(-ε_i t/2)` -/
def soSymStep (n : Nat) (V : Nat → Nat → Rat) (E : Nat → Rat) : List GenEntry :=
  ((List.range n).map fun i => (5, i, i, i, E i / 2))
  ++ [(6, 0, 0, 0, 0)]
  ++ ((C14.swapNetwork n false).2.map fun e => (2, e.1, e.2.1, e.2.2.1, 2 * V e.1 e.2.1))
  ++ [(7, 0, 0, 0, 0)]
  ++ ((List.range n).map fun i => (5, i, i, n - 1 - i, E i / 2))

/-- positions after `m` reversals of the register -/
def posAfter (n m i : Nat) : Nat := if m % 2 = 0 then i else n - 1 - i

/-- the loop body of `AsymmetricLowRankTrotterStep.trotter_step` for the singular components
`j = start, start+1, …`: basis change to the component's basis (`p` = `j + 1`), network
`rot11(-2 c_j[p,q] t)`, then on the reversed qubits `rz(-c_j[p,p] t)` -/
def lrComponents (n : Nat) : Nat → List (Nat → Nat → Rat) → List GenEntry
  | _, [] => []
  | j, c :: cs =>
    [(6, j + 1, 0, 0, 0)]
    ++ ((C14.swapNetwork n false).2.map fun e =>
          (2, e.1, e.2.1, posAfter n j e.2.2.1, 2 * c e.1 e.2.1))
    ++ ((List.range n).map fun p => (3, p, p, posAfter n (j + 1) p, c p p))
    ++ lrComponents n (j + 1) cs

/-- `AsymmetricLowRankTrotterStep.trotter_step`: one-body part in its eigenbasis (`rz(-ε_p t)`), then the
components, then the change back to the computational basis -/
def lrStep (n : Nat) (E : Nat → Rat) (cs : List (Nat → Nat → Rat)) : List GenEntry :=
  [(6, 0, 0, 0, 0)] ++ ((List.range n).map fun p => (5, p, p, p, E p))
  ++ lrComponents n 0 cs ++ [(6, cs.length + 1, 0, 0, 0)]

/-- `step_qubit_permutation` of the low-rank step: reversal iff the number of components is odd -/
def lrReverses (cs : List (Nat → Nat → Rat)) : Bool := cs.length % 2 == 1

end C15
end Model
end OFV
