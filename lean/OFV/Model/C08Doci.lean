/-
C08 — Model of doci_hamiltonian.py: the tensors of a DOCIHamiltonian (`get_projected_integrals_from_doci`,
`get_tensors_from_integrals` of interaction_operator.py, `get_tensors_from_doci`), `__getitem__`,
`qubit_operator` and its parts, `get_doci_from_integrals`, and the in-place arithmetic.
`hc` is an array of order 1, `hr1`, `hr2` of order 2 over `n` spatial orbitals (= qubits); the
fermionic tensors live on `2n` spin orbitals.  Real input arrays (the source writes into float arrays).
Executable, import-free.
-/
import OFV.Model.C08

namespace OFV
namespace Model
namespace C08
namespace Doci

/-- `numpy` array of shape `(n,)*k` with entries `f index` -/
def tab (n : Nat) : Nat → (List Nat → GQ) → Tensor
  | 0, f => .s (f [])
  | k + 1, f => .v ((List.range n).map fun i => tab n k (fun idx => f (i :: idx)))

def at1 (t : Tensor) (p : Nat) : GQ := (tget [p] t).getD 0
def at2 (t : Tensor) (p q : Nat) : GQ := (tget [p, q] t).getD 0
def at4 (t : Tensor) (p q r s : Nat) : GQ := (tget [p, q, r, s] t).getD 0

def half : GQ := ⟨1/2, 0⟩
def quarter : GQ := ⟨1/4, 0⟩

structure DOCI where
  n : Nat
  constant : GQ
  hc : Tensor
  hr1 : Tensor
  hr2 : Tensor
deriving Repr, Inhabited

/-- `get_projected_integrals_from_doci`: the loops over `p` and `q < p` (assignments and `+=` on
cells that start at zero) -/
def projectedIntegrals (n : Nat) (hc hr1 hr2 : Tensor) : Tensor × Tensor :=
  let one0 := tzeros n 2
  let two0 := tzeros n 4
  (List.range n).foldl (fun (st : Tensor × Tensor) p =>
    let one := tset [p, p] (at1 hc p * half) st.1
    let two := tset [p, p, p, p] (at2 hr2 p p) st.2
    let two := (List.range n).foldl (fun (two : Tensor) q =>
      if p ≤ q then two else
      let two := tset [p, q, q, p] (at2 hr2 p q * half + at2 hr1 p q * half) two
      let two := tset [q, p, p, q] (at2 hr2 q p * half + at2 hr1 p q * half) two
      let two := tset [p, p, q, q] (at4 two p p q q + at2 hr1 p q) two
      let two := tset [p, q, p, q] (at4 two p q p q + at2 hr1 p q) two
      let two := tset [q, q, p, p] (at4 two q q p p + at2 hr1 p q) two
      tset [q, p, q, p] (at4 two q p q p + at2 hr1 p q) two) two
    (one, two)) (one0, two0)

/-- `get_tensors_from_integrals` (interaction_operator.py): spin-orbital coefficients, entries below
`EQ_TOLERANCE` truncated to 0 -/
def tensorsFromIntegrals (tol : Rat) (n : Nat) (one two : Tensor) : Tensor × Tensor :=
  let trunc (x : GQ) : GQ := if GQ.isSmall tol x then 0 else x
  (tab (2 * n) 2 (fun idx => match idx with
      | [i, j] => if i % 2 = j % 2 then trunc (at2 one (i / 2) (j / 2)) else 0
      | _ => 0),
   tab (2 * n) 4 (fun idx => match idx with
      | [i, j, k, l] =>
        if i % 2 = l % 2 ∧ j % 2 = k % 2 then trunc (at4 two (i / 2) (j / 2) (k / 2) (l / 2) * half) else 0
      | _ => 0))

/-- `get_tensors_from_doci`: `two - einsum('ijlk', two)` -/
def tensorsFromDoci (tol : Rat) (n : Nat) (hc hr1 hr2 : Tensor) : Tensor × Tensor :=
  let pi := projectedIntegrals n hc hr1 hr2
  let t := tensorsFromIntegrals tol n pi.1 pi.2
  (t.1, tab (2 * n) 4 (fun idx => match idx with
      | [i, j, k, l] => at4 t.2 i j k l - at4 t.2 i j l k
      | _ => 0))

/-- `DOCIHamiltonian.n_body_tensors` -/
def nBodyTensors (tol : Rat) (d : DOCI) : List (Key × Tensor) :=
  let t := tensorsFromDoci tol d.n d.hc d.hr1 d.hr2
  [([], .s d.constant), ([1, 0], t.1), ([1, 1, 0, 0], t.2)]

/-- `DOCIHamiltonian.__getitem__` (`_get_onebody_term`, `_get_twobody_term`) -/
def getitem (d : DOCI) (args : List (Nat × Nat)) : Except Err GQ :=
  match args with
  | [] => .ok d.constant
  | [(i, a), (j, b)] =>
    if a ≠ 1 ∨ b ≠ 0 then .error .indexError
    else if i ≠ j then .error .indexError
    else match tget [i / 2] d.hc with
      | some c => .ok (c * half)
      | none => .error .indexError
  | [(i, a), (j, b), (k, c), (l, e)] =>
    if a ≠ 1 ∨ b ≠ 1 ∨ c ≠ 0 ∨ e ≠ 0 then .error .indexError
    else if i = l ∧ j = k then
      match tget [i / 2, j / 2] d.hr2 with
      | some v => .ok (v * half)
      | none => .error .indexError
    else if i / 2 = j / 2 ∧ k / 2 = l / 2 then
      match tget [i / 2, k / 2] d.hr1 with
      | some v => .ok (v * half)
      | none => .error .indexError
    else .error .indexError
  | _ => .error .indexError

def sum1 (n : Nat) (f : Nat → GQ) : GQ := (List.range n).foldl (fun acc i => acc + f i) 0

/-- `qubit_operator = identity_part + z_part + xy_part` as a dictionary of Pauli terms
(zero coefficients produced by Python's `sum([...])` start value are not kept) -/
def qubitOperator (tol : Rat) (d : DOCI) : Op :=
  let n := d.n
  let ident : GQ := d.constant + sum1 n (at1 d.hc) * half
    + sum1 n (fun p => sum1 n (fun q => at2 d.hr2 p q)) * quarter + sum1 n (fun p => at2 d.hr2 p p) * quarter
  let pairs : List (Nat × Nat) := (List.range n).flatMap fun p =>
    ((List.range n).filter (fun q => p < q)).map fun q => (p, q)
  let zz := pairs.foldl (fun acc (pq : Nat × Nat) =>
    Model.iadd tol acc (mk .qubit [(pq.1, 3), (pq.2, 3)] (at2 d.hr2 pq.1 pq.2 * half))) []
  let z := (List.range n).foldl (fun acc p =>
    Model.iadd tol acc (mk .qubit [(p, 3)] (-(at1 d.hc p * half) - sum1 n (fun q => at2 d.hr2 q p) * half))) zz
  let xx := pairs.foldl (fun acc (pq : Nat × Nat) =>
    Model.iadd tol acc (mk .qubit [(pq.1, 1), (pq.2, 1)] (at2 d.hr1 pq.1 pq.2 * half))) []
  let yy := pairs.foldl (fun acc (pq : Nat × Nat) =>
    Model.iadd tol acc (mk .qubit [(pq.1, 2), (pq.2, 2)] (at2 d.hr1 pq.1 pq.2 * half))) []
  Model.iadd tol (Model.iadd tol (Model.iadd tol [] (mk .qubit [] ident)) z) (Model.iadd tol xx yy)

/-- `get_doci_from_integrals` -/
def dociFromIntegrals (n : Nat) (one two : Tensor) : Tensor × Tensor × Tensor :=
  (tab n 1 (fun idx => match idx with
      | [p] => ⟨2, 0⟩ * at2 one p p
      | _ => 0),
   tab n 2 (fun idx => match idx with
      | [p, q] => if p = q then 0 else at4 two p p q q
      | _ => 0),
   tab n 2 (fun idx => match idx with
      | [p, q] => ⟨2, 0⟩ * at4 two p q q p - at4 two p q p q
      | _ => 0))

/-- `+=`, `-=` with a DOCIHamiltonian; `*=`, `/=` with a scalar -/
def iadd (a b : DOCI) : Except Err DOCI :=
  if a.n ≠ b.n then .error .typeError else
  .ok ⟨a.n, a.constant + b.constant, tadd 1 a.hc b.hc, tadd 2 a.hr1 b.hr1, tadd 2 a.hr2 b.hr2⟩

def isub (a b : DOCI) : Except Err DOCI :=
  if a.n ≠ b.n then .error .typeError else
  .ok ⟨a.n, a.constant - b.constant, tsub 1 a.hc b.hc, tsub 2 a.hr1 b.hr1, tsub 2 a.hr2 b.hr2⟩

def imulS (a : DOCI) (c : GQ) : DOCI :=
  ⟨a.n, a.constant * c, tscale c 1 a.hc, tscale c 2 a.hr1, tscale c 2 a.hr2⟩

end Doci
end C08
end Model
end OFV
