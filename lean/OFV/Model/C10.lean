/-
Model for C10: executable mirror of
  linalg/sparse_tools.py   jw_configuration_state, jw_hartree_fock_state, jw_number_indices,
                           jw_sz_indices, jw_*_restrict_*, expectation_computational_basis_state,
                           get_number_preserving_sparse_operator, _iterate_basis_*, _build_term_op_
  utils/indexing.py        up_index, down_index
  hamiltonians/special_operators.py   number_operator, s_plus/s_minus, sx, sy, sz, s_squared
Import-free (Lean core + OFV.Core / OFV.Model.Symbolic).
-/
import OFV.Model.Symbolic

namespace OFV
namespace Model
namespace C10

inductive Err
  | valueError | typeError | indexError
deriving DecidableEq, Repr, Inhabited

def Err.name : Err → String
  | .valueError => "ValueError" | .typeError => "TypeError" | .indexError => "IndexError"

/-- `itertools.combinations(l, k)` (lexicographic in the positions) -/
def combinations {α : Type} : List α → Nat → List (List α)
  | _, 0 => [[]]
  | [], _ + 1 => []
  | x :: xs, k + 1 => (combinations xs k).map (x :: ·) ++ combinations xs (k + 1)

/-! ### indexing.py -/

def upIndex (i : Nat) : Nat := 2 * i
def downIndex (i : Nat) : Nat := 2 * i + 1

/-! ### basis states and index lists -/

/-- `sum(2 ** (n_qubits - 1 - i) for i in occupied_orbitals)`: the index of the 1 entry of
`jw_configuration_state` (mode 0 = most significant bit) -/
def configIndex (occ : List Nat) (n : Nat) : Nat := (occ.map fun i => 2 ^ (n - 1 - i)).sum

/-- `jw_hartree_fock_state(n_electrons, n_orbitals)` -/
def hartreeFockIndex (ne n : Nat) : Nat := configIndex (List.range ne) n

/-- `jw_number_indices(n_electrons, n_qubits)`: `sum(2**n for n in occupation)` -/
def jwNumberIndices (ne n : Nat) : List Nat :=
  (combinations (List.range n) ne).map fun occ => (occ.map (2 ^ ·)).sum

/-- the inner double loop of `jw_sz_indices` -/
def szPairs (n : Nat) (firstMap secondMap : Nat → Nat) (firstOcc secondOcc : List (List Nat)) : List Nat :=
  firstOcc.flatMap fun a =>
    secondOcc.map fun b => configIndex (a.map firstMap ++ b.map secondMap) n

/-- `jw_sz_indices(sz_value, n_qubits, n_electrons, up_index, down_index)`; `sz` is the exact
value of `sz_value` -/
def jwSzIndices (sz : Rat) (n : Nat) (nel : Option Nat) (up down : Nat → Nat) : Except Err (List Nat) :=
  if n % 2 != 0 then .error .valueError else
  if (2 * sz).den != 1 then .error .valueError else
  let sites := n / 2
  let szi : Int := (2 * sz).num
  match nel with
  | some ne =>
    if ((ne : Int) + szi) % 2 != 0 || (ne : Int) < szi.natAbs then .error .valueError else
    let numUp := (((ne : Int) + szi) / 2).toNat
    let numDown := ne - numUp
    .ok (szPairs n up down (combinations (List.range sites) numUp) (combinations (List.range sites) numDown))
  | none =>
    let (moreMap, lessMap) := if szi < 0 then (down, up) else (up, down)
    let a := szi.natAbs
    .ok ((List.range (sites + 1 - a)).flatMap fun d =>
      let m := a + d
      szPairs n moreMap lessMap (combinations (List.range sites) m) (combinations (List.range sites) (m - a)))

/-- `operator[numpy.ix_(idx, idx)]` on a dense matrix -/
def restrictOp (M : List (List GQ)) (idx : List Nat) : List (List GQ) :=
  idx.map fun a => idx.map fun b => (M.getD a []).getD b 0

/-- `state[idx]` -/
def restrictState (v : List GQ) (idx : List Nat) : List GQ := idx.map fun a => v.getD a 0

/-! ### expectation_computational_basis_state -/

/-- `format(index, '0{n}b')` as booleans (mode 0 = most significant bit) -/
def bitsOfIndex (n idx : Nat) : List Bool := (List.range n).map fun i => idx.testBit (n - 1 - i)

/-- the double loop over occupied orbitals (for an occupation list) -/
def expectCBS (op : Op) (occ : List Bool) : GQ :=
  let n := occ.length
  (List.range n).foldl (fun acc i =>
    if occ.getD i false then
      let acc := acc + Dict.getD op [(i, 1), (i, 0)] 0
      (List.range (n - (i + 1))).foldl (fun acc d =>
        let j := i + 1 + d
        if occ.getD j false then acc - Dict.getD op [(j, 1), (i, 1), (j, 0), (i, 0)] 0 else acc) acc
    else acc) (Dict.getD op [] 0)

/-- vector input: `index = state.nonzero()[0][0]`, `n_qubits = len(state).bit_length() - 1` -/
def expectCBSVector (op : Op) (len idx : Nat) : GQ :=
  expectCBS op (bitsOfIndex (Nat.log2 len) idx)

/-! ### get_number_preserving_sparse_operator -/

abbrev Det := List Bool

def whereTrue (d : Det) : List Nat := (List.range d.length).filter fun i => d.getD i false
def whereFalse (d : Det) : List Nat := (List.range d.length).filter fun i => !(d.getD i false)

/-- `basis_state[ind] = v` for a list of indices -/
def setAll (d : Det) (ind : List Nat) (v : Bool) : Det := ind.foldl (fun d i => d.set i v) d

/-- `_iterate_basis_order_` -/
def iterateBasisOrder (ref : Det) (order : Nat) : List Det :=
  (combinations (whereTrue ref) order).flatMap fun occ =>
    (combinations (whereFalse ref) order).map fun unocc =>
      setAll (setAll ref occ false) unocc true

/-- `reference_determinant[::2]` / `[1::2]` -/
def evens (d : Det) : Det := (List.range ((d.length + 1) / 2)).map fun i => d.getD (2 * i) false
def odds (d : Det) : Det := (List.range (d.length / 2)).map fun i => d.getD (2 * i + 1) false

/-- `_iterate_basis_spin_order_` -/
def iterateBasisSpinOrder (ref : Det) (alphaOrder betaOrder : Nat) : List Det :=
  let occA := (whereTrue (evens ref)).map (· * 2)
  let unoccA := (whereFalse (evens ref)).map (· * 2)
  let occB := (whereTrue (odds ref)).map (· * 2 + 1)
  let unoccB := (whereFalse (odds ref)).map (· * 2 + 1)
  (combinations occA alphaOrder).flatMap fun ao =>
    (combinations unoccA alphaOrder).flatMap fun au =>
      (combinations occB betaOrder).flatMap fun bo =>
        (combinations unoccB betaOrder).map fun bu =>
          setAll (setAll (setAll (setAll ref ao false) au true) bo false) bu true

def countTrue (d : Det) : Nat := (d.filter id).length

/-- `_iterate_basis_` -/
def iterateBasis (ref : Det) (level : Nat) (spin : Bool) : List Det :=
  if !spin then
    (List.range (level + 1)).flatMap fun order => iterateBasisOrder ref order
  else
    let aLevel := min (countTrue (evens ref)) level
    let bLevel := min (countTrue (odds ref)) level
    (List.range (level + 1)).flatMap fun order =>
      (List.range (aLevel + 1)).flatMap fun alphaOrder =>
        -- beta_order = order - alpha_order; skipped when negative or above beta_excitation_level
        if alphaOrder > order || order - alphaOrder > bLevel then []
        else iterateBasisSpinOrder ref alphaOrder (order - alphaOrder)

/-- `determinant.dot(1 << arange(n)[::-1])` -/
def encodeDet (d : Det) : Nat :=
  ((List.range d.length).map fun i => if d.getD i false then 2 ^ (d.length - 1 - i) else 0).sum

/-- stable insertion of an index by key -/
def insertByKey (keys : List Nat) (i : Nat) : List Nat → List Nat
  | [] => [i]
  | j :: r => if keys.getD i 0 < keys.getD j 0 then i :: j :: r else j :: insertByKey keys i r

/-- `numpy.argsort(keys)` (the keys are distinct) -/
def argsort (keys : List Nat) : List Nat := (List.range keys.length).foldr (insertByKey keys) []

/-- `numpy.searchsorted(a, v, sorter=sorter)` (side='left') -/
def searchsorted (a : List Nat) (v : Nat) (sorter : List Nat) : Nat :=
  (sorter.filter fun i => a.getD i 0 < v).length

structure TermPlan where
  occ : List Nat
  unocc : List Nat
  delta : Int

/-- the first loop of `_build_term_op_` over `reversed(term)` -/
def termPlan (term : Term) : TermPlan :=
  term.reverse.foldl (fun (p : TermPlan) f =>
    if f.2 = 0 then ⟨p.occ ++ [f.1], p.unocc, p.delta - 1⟩
    else ⟨p.occ, if p.occ.contains f.1 then p.unocc else p.unocc ++ [f.1], p.delta + 1⟩) ⟨[], [], 0⟩

/-- the parity / target loop over `reversed(term)`: `(sign exponent, target determinant)` -/
def applyTermDet (term : Term) (d : Det) : Nat × Det :=
  term.reverse.foldl (fun (acc : Nat × Det) f =>
    (acc.1 + countTrue (acc.2.take f.1), acc.2.set f.1 (!(acc.2.getD f.1 false)))) (0, d)

/-- `_build_term_op_`: the entries `(row, col, sign exponent)` -/
def buildTermOp (term : Term) (states : List Det) (ints sorting : List Nat) :
    Except Err (List (Nat × Nat × Nat)) :=
  let plan := termPlan term
  if plan.delta != 0 then .error .valueError else
  let size := states.length
  .ok (((List.range size).filter fun s =>
      let d := states.getD s []
      plan.occ.all (fun i => d.getD i false) && !(plan.unocc.any fun i => d.getD i false)).filterMap fun s =>
    let d := states.getD s []
    let r := applyTermDet term d
    let enc := encodeDet r.2
    let pos := searchsorted ints enc sorting
    if pos ≥ size then none else
    let target := sorting.getD pos 0
    if ints.getD target 0 == enc then some (target, s, r.1) else none)

abbrev SparseM := List ((Nat × Nat) × GQ)

def addEntry (m : SparseM) (k : Nat × Nat) (c : GQ) : SparseM :=
  Dict.set m k (Dict.getD m k 0 + c)

/-- `get_number_preserving_sparse_operator` after `normal_ordered` (the normal-ordered operator
is an input: normal ordering belongs to another property) -/
def numberPreservingSparse (opNO : Op) (n ne : Nat) (spin : Bool) (ref : Option Det) (level : Option Nat) :
    Except Err (List Det × SparseM) := do
  let ref := ref.getD ((List.range n).map fun i => decide (i < ne))
  let level := level.getD ne
  let states := iterateBasis ref level spin
  let ints := states.map encodeDet
  let sorting := argsort ints
  let size := states.length
  let m ← opNO.foldlM (fun (acc : SparseM) (tc : Term × GQ) =>
    if tc.1.isEmpty then
      pure ((List.range size).foldl (fun acc i => addEntry acc (i, i) tc.2) acc)
    else do
      let es ← buildTermOp tc.1 states ints sorting
      pure (es.foldl (fun acc e => addEntry acc (e.1, e.2.1) (tc.2 * GQ.sgn e.2.2)) acc)) []
  pure (states, m)

/-! ### special_operators.py -/

section special
variable (tol : Rat)

def half : GQ := ⟨mkRat 1 2, 0⟩

/-- `number_operator(n_modes, mode, coefficient)` for fermions -/
def numberOperator (n : Nat) (mode : Option Nat) (c : GQ) : Op :=
  match mode with
  | some m => mk .fermion [(m, 1), (m, 0)] c
  | none => (List.range n).foldl (fun acc m => iadd tol acc (mk .fermion [(m, 1), (m, 0)] c)) []

def sPlus (sites : Nat) : Op :=
  (List.range sites).foldl (fun acc i => iadd tol acc (mk .fermion [(upIndex i, 1), (downIndex i, 0)] 1)) []

def sMinus (sites : Nat) : Op :=
  (List.range sites).foldl (fun acc i => iadd tol acc (mk .fermion [(downIndex i, 1), (upIndex i, 0)] 1)) []

def sx (sites : Nat) : Op :=
  (List.range sites).foldl (fun acc i =>
    iadd tol (iadd tol acc (mk .fermion [(upIndex i, 1), (downIndex i, 0)] half))
      (mk .fermion [(downIndex i, 1), (upIndex i, 0)] half)) []

def sy (sites : Nat) : Op :=
  (List.range sites).foldl (fun acc i =>
    iadd tol (iadd tol acc (mk .fermion [(upIndex i, 1), (downIndex i, 0)] (-(half * GQ.I))))
      (mk .fermion [(downIndex i, 1), (upIndex i, 0)] (half * GQ.I))) []

def sz (sites : Nat) : Op :=
  (List.range sites).foldl (fun acc i =>
    iadd tol acc (iadd tol (numberOperator tol (2 * sites) (some (upIndex i)) half)
      (numberOperator tol (2 * sites) (some (downIndex i)) (-half)))) []

/-- `s_minus * s_plus + sz * (sz + identity)` -/
def sSquared (sites : Nat) : Op :=
  let a := mulOp .fermion (sMinus tol sites) (sPlus tol sites)
  iadd tol a (mulOp .fermion (sz tol sites) (iadd tol (sz tol sites) (mk .fermion [] 1)))

end special

end C10
end Model
end OFV
