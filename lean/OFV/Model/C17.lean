/-
C17 — executable Model of the index / list logic of the chemistry reductions:

* `get_chemist_two_body_coefficients` (axis permutation, spin chop, one-body correction);
* the truncation logic of `low_rank_two_body_decomposition` (`cumsum`, `argmax(errors <= thr)`,
  `final_rank`), applied to the term weights in the order the implementation sorted them
  (`eigh` and `argsort` are trusted kernels);
* `spinorb_from_spatial` / `get_tensors_from_integrals` (which spin blocks are filled, factor 1/2,
  truncation below EQ_TOLERANCE);
* `get_active_space_integrals` (core constant, one-body update, restriction);
* the RDM mapping functions and `InteractionRDM.expectation` (bilinear pairing).

All over `Rat` (real integrals; the harness generates dyadic values so float arithmetic is exact).
Import-free.
-/
import OFV.Core.GQ

namespace OFV
namespace Model
namespace C17

abbrev T2 := List (List Rat)
abbrev T4 := List (List (List (List Rat)))

def T2.get (t : T2) (p q : Nat) : Rat := (t.getD p []).getD q 0
def T4.get (t : T4) (p q r s : Nat) : Rat := (((t.getD p []).getD q []).getD r []).getD s 0

def mk2 (n : Nat) (f : Nat → Nat → Rat) : T2 :=
  (List.range n).map fun p => (List.range n).map fun q => f p q

def mk4 (n : Nat) (f : Nat → Nat → Nat → Nat → Rat) : T4 :=
  (List.range n).map fun p => (List.range n).map fun q => (List.range n).map fun r =>
    (List.range n).map fun s => f p q r s

def sumRange (n : Nat) (f : Nat → Rat) : Rat := ((List.range n).map f).sum

/-! ## `get_chemist_two_body_coefficients` -/

/-- `numpy.transpose(h, [0, 3, 1, 2])[a, b, c, d] = h[a, c, d, b]` -/
def transposed (h : Nat → Nat → Nat → Nat → Rat) (a b c d : Nat) : Rat := h a c d b

/-- entry of `chemist_two_body_coefficients`; with `spin_basis` the block
`[alpha, alpha, beta, beta]` of the transposed tensor -/
def chemEntry (h : Nat → Nat → Nat → Nat → Rat) (spin : Bool) (p q r s : Nat) : Rat :=
  if spin then transposed h (2 * p) (2 * q) (2 * r + 1) (2 * s + 1) else transposed h p q r s

/-- entry `[P, S]` of `one_body_correction` (size `2 n_orbitals`):
`corr[2p+σ, 2s+τ] -= chem[p,q,r,s]` for `q = r`, `σ = τ` -/
def corrEntry (h : Nat → Nat → Nat → Nat → Rat) (spin : Bool) (n : Nat) (P S : Nat) : Rat :=
  if P % 2 = S % 2 then -(sumRange n fun q => chemEntry h spin (P / 2) q q (S / 2)) else 0

/-- `(one_body_correction, chemist_two_body_coefficients)` for an `N⁴` input -/
def chemist (h : T4) (N : Nat) (spin : Bool) : T2 × T4 :=
  let n := if spin then N / 2 else N
  (mk2 (2 * n) (corrEntry h.get spin n), mk4 n (chemEntry h.get spin))

/-! ## truncation logic of `low_rank_two_body_decomposition` -/

/-- `numpy.cumsum` -/
def cumsumFrom (acc : Rat) : List Rat → List Rat
  | [] => []
  | w :: ws => (acc + w) :: cumsumFrom (acc + w) ws

def cumsum (ws : List Rat) : List Rat := cumsumFrom 0 ws

/-- `truncation_errors = cumulative_error_sum[-1] - cumulative_error_sum` -/
def truncationErrors (ws : List Rat) : List Rat :=
  let cs := cumsum ws
  cs.map fun c => cs.getLastD 0 - c

/-- `numpy.argmax` of a boolean array: first index holding `True`, `0` when there is none -/
def argmaxTrue (bs : List Bool) : Nat :=
  match bs with
  | [] => 0
  | b :: rest => if b then 0 else if rest.any id then 1 + argmaxTrue rest else 0

/-- `max_rank` : `1 + argmax(truncation_errors <= threshold)` or `final_rank` -/
def maxRank (ws : List Rat) (thr : Rat) (finalRank : Option Nat) : Nat :=
  match finalRank with
  | none => 1 + argmaxTrue ((truncationErrors ws).map fun e => decide (e ≤ thr))
  | some r => r

/-- `truncation_errors[max_rank - 1] if max_rank > 0 else cumulative_error_sum[-1]` (with `max_rank = 0` nothing
is kept and the whole weight is reported); `none` = IndexError -/
def truncationValue (ws : List Rat) (L : Nat) : Option Rat :=
  if L = 0 then (cumsum ws).getLast? else (truncationErrors ws)[L - 1]?

/-! ## `spinorb_from_spatial` / `get_tensors_from_integrals` -/

/-- `x[abs(x) < EQ_TOLERANCE] = 0.0` -/
def chop (tol x : Rat) : Rat := if -tol < x ∧ x < tol then 0 else x

/-- one-body coefficient `[P, Q]` : same spin only -/
def spinOne (tol : Rat) (one : Nat → Nat → Rat) (P Q : Nat) : Rat :=
  chop tol (if P % 2 = Q % 2 then one (P / 2) (Q / 2) else 0)

/-- two-body coefficient `[P, Q, R, S]`: filled exactly when the spins of `P, S` agree and those of
`Q, R` agree (the four assignments mixed-spin ×2, same-spin ×2), times `scale` (`1` for
`spinorb_from_spatial`, `1/2` for `get_tensors_from_integrals`) -/
def spinTwo (tol scale : Rat) (two : Nat → Nat → Nat → Nat → Rat) (P Q R S : Nat) : Rat :=
  chop tol (if P % 2 = S % 2 ∧ Q % 2 = R % 2 then two (P / 2) (Q / 2) (R / 2) (S / 2) * scale else 0)

def spinorb (tol scale : Rat) (one : T2) (two : T4) : T2 × T4 :=
  let n := one.length
  (mk2 (2 * n) (spinOne tol one.get), mk4 (2 * n) (spinTwo tol scale two.get))

/-! ## `get_active_space_integrals` -/

/-- `core_constant` : loops over `occupied_indices` (as given, repetitions included) -/
def coreConstant (one : Nat → Nat → Rat) (two : Nat → Nat → Nat → Nat → Rat) (occ : List Nat) : Rat :=
  (occ.map fun i => 2 * one i i + (occ.map fun j => 2 * two i j j i - two i j i j).sum).sum

/-- how often the triple loop `for u in active: for v in active: for i in occupied` visits `(u, v)` -/
def visits (act : List Nat) (u v : Nat) : Nat := act.count u * act.count v

/-- `one_body_integrals_new[u, v]` -/
def oneNew (one : Nat → Nat → Rat) (two : Nat → Nat → Nat → Nat → Rat) (occ act : List Nat) (u v : Nat) : Rat :=
  one u v + (visits act u v : Rat) * (occ.map fun i => 2 * two i u v i - two i u i v).sum

def activeSpace (one : T2) (two : T4) (occ act : List Nat) : Rat × T2 × T4 :=
  (coreConstant one.get two.get occ,
   act.map (fun u => act.map fun v => oneNew one.get two.get occ act u v),
   act.map (fun p => act.map fun q => act.map fun r => act.map fun s => two.get p q r s))

/-! ## RDM mapping functions (`utils/rdm_mapping_functions.py`), as entry functions over `GQ`
(RDMs of complex states are complex) -/

abbrev C2 := Nat → Nat → GQ
abbrev C4 := Nat → Nat → Nat → Nat → GQ

def delta (i j : Nat) : GQ := if i = j then 1 else 0

def gsum (l : List GQ) : GQ := l.foldr (· + ·) 0

def gsumRange (n : Nat) (f : Nat → GQ) : GQ := gsum ((List.range n).map f)

/-- `numpy.einsum('prrq', t) / d` -/
def contract (n : Nat) (t : C4) (d : Rat) (p q : Nat) : GQ :=
  GQ.smul (1 / d) (gsumRange n fun r => t p r r q)

def term123 (opdm : C2) (p q r s : Nat) : GQ :=
  (opdm p s * delta q r + opdm q r * delta p s)
  + (-1 : GQ) * (opdm q s * delta p r + opdm p r * delta q s)
  + (delta q s * delta p r - delta p s * delta q r)

/-- `map_two_pdm_to_two_hole_dm`: `tqdm[s, r, q, p] = tpdm[p, q, r, s] - term1 - term2 - term3`,
read at `[a, b, c, d]` (so `(p, q, r, s) = (d, c, b, a)`) -/
def twoPdmToTwoHole (tpdm : C4) (opdm : C2) (a b c d : Nat) : GQ :=
  tpdm d c b a - term123 opdm d c b a

/-- `map_two_hole_dm_to_two_pdm`: `tpdm[p, q, r, s] = tqdm[r, s, p, q] + term1 + term2 + term3` -/
def twoHoleToTwoPdm (tqdm : C4) (opdm : C2) (p q r s : Nat) : GQ :=
  tqdm r s p q + term123 opdm p q r s

/-- `map_one_pdm_to_one_hole_dm` / `map_one_hole_dm_to_one_pdm` : `eye - m.T`
(`⟨a_p a†_q⟩ = δ_pq − ⟨a†_q a_p⟩`) -/
def oneMinus (m : C2) (p q : Nat) : GQ := delta p q - m q p

/-- `map_two_pdm_to_particle_hole_dm`: `phdm[p, r, q, s] = opdm[p, s] δ(q, r) - tpdm[p, q, r, s]`,
read at `[a, b, c, d]` (so `(p, q, r, s) = (a, c, b, d)`) -/
def twoPdmToPh (tpdm : C4) (opdm : C2) (a b c d : Nat) : GQ :=
  opdm a d * delta c b - tpdm a c b d

/-- `map_particle_hole_dm_to_two_pdm`: `tpdm[p, q, r, s] = opdm[p, s] δ(q, r) - phdm[p, r, q, s]` -/
def phToTwoPdm (phdm : C4) (opdm : C2) (p q r s : Nat) : GQ :=
  opdm p s * delta q r - phdm p r q s

/-- `InteractionRDM.expectation(InteractionOperator)` -/
def expectation (n : Nat) (const : GQ) (o1 r1 : C2) (o2 r2 : C4) : GQ :=
  const + (gsumRange n fun p => gsumRange n fun q => r1 p q * o1 p q)
    + (gsumRange n fun p => gsumRange n fun q => gsumRange n fun r => gsumRange n fun s => r2 p q r s * o2 p q r s)

end C17
end Model
end OFV
