/-
C08 — Model of the tensor representations (polynomial_tensor.py, interaction_operator.py,
quadratic_hamiltonian.py, diagonal_coulomb_hamiltonian.py) and of the conversions between
FermionOperator / MajoranaOperator / BosonOperator / QuadOperator and the tensor classes
(repconversions/conversions.py, opconversions/conversions.py, term_reordering.py:
normal_ordered for fermions).  Executable, import-free.

A numpy array of order `k` over `n` modes is a nested list (`Tensor`), all functions are
directed by the order (`key.length`).  A `PolynomialTensor` is an insertion-ordered dictionary
`key ↦ tensor` (`PT.d`) plus `n_qubits`.
-/
import OFV.Core.GQ
import OFV.Core.Dict
import OFV.Model.Symbolic
import OFV.Model.C03
import OFV.Spec.C08

namespace OFV
namespace Model
namespace C08

export Spec.C08 (Tensor)
open Spec.C08 (Tensor)

abbrev Key := List Nat
abbrev Mat := List (List GQ)

inductive Err
  | typeError | valueError | keyError | indexError
  | interactionOperatorError | quadraticHamiltonianError
deriving DecidableEq, Repr

/-! ### numpy arrays -/

/-- elementwise unary function on an array of order `k` -/
def tmap (f : GQ → GQ) : Nat → Tensor → Tensor
  | 0, .s c => .s (f c)
  | k + 1, .v l => .v (l.map (tmap f k))
  | _, t => t

/-- elementwise binary function on two arrays of order `k` and equal shape -/
def tzip (f : GQ → GQ → GQ) : Nat → Tensor → Tensor → Tensor
  | 0, .s a, .s b => .s (f a b)
  | k + 1, .v l, .v m => .v (List.zipWith (tzip f k) l m)
  | _, t, _ => t

/-- `tensor[index]` -/
def tget : List Nat → Tensor → Option GQ
  | [], .s c => some c
  | i :: r, .v l =>
    match l[i]? with
    | some t => tget r t
    | none => none
  | _, _ => none

/-- `tensor[index] = c` -/
def tset : List Nat → GQ → Tensor → Tensor
  | [], c, .s _ => .s c
  | i :: r, c, .v l => .v (l.modify i (tset r c))
  | _, _, t => t

/-- `numpy.zeros((n,)*k)` -/
def tzeros (n : Nat) : Nat → Tensor
  | 0 => .s 0
  | k + 1 => .v (List.replicate n (tzeros n k))

/-- `itertools.product(range(n), repeat=k)` (row-major order) -/
def indices (n : Nat) : Nat → List (List Nat)
  | 0 => [[]]
  | k + 1 => (List.range n).flatMap fun i => (indices n k).map (i :: ·)

def tadd := tzip (· + ·)
def tsub := tzip (· - ·)
def tmul := tzip (· * ·)
def tneg := tmap (fun c => -c)
def tscale (c : GQ) := tmap (fun x => x * c)

/-- `tensor.shape[0]` -/
def dim0 : Tensor → Nat
  | .v l => l.length
  | .s _ => 0

/-! ### PolynomialTensor -/

structure PT where
  n : Nat
  d : List (Key × Tensor)
deriving Repr, Inhabited

/-- `PolynomialTensor.__init__`: `n_qubits` is the first dimension of the first non-constant key
(the first key, or the second when the first is `()`).  -/
def nOf (d : List (Key × Tensor)) : Nat :=
  match d with
  | ([], _) :: (_, t) :: _ => dim0 t
  | (_ :: _, t) :: _ => dim0 t
  | _ => 0

def mkPT (d : List (Key × Tensor)) : PT := ⟨nOf d, d⟩

/-- `self.constant` (getter: `.get((), 0.0)`) -/
def constantOf (a : PT) : GQ :=
  match Dict.get? a.d [] with
  | some (.s c) => c
  | _ => 0

/-- `self.constant = c` -/
def setConstant (a : PT) (c : GQ) : PT := ⟨a.n, Dict.set a.d [] (.s c)⟩

/-- `__iadd__` with a PolynomialTensor: common keys are added, keys only in the addend are
copied (deep copy since the fix 3dba0378; values, not references) -/
def iadd (a b : PT) : Except Err PT :=
  if a.n ≠ b.n then .error .typeError else
  .ok ⟨a.n, b.d.foldl (fun acc (k, t) =>
    match Dict.get? acc k with
    | some u => Dict.set acc k (tadd k.length u t)
    | none => Dict.set acc k t) a.d⟩

/-- `__isub__` with a PolynomialTensor: common keys are subtracted; a key only in the
subtrahend is stored **un-negated** (finding F08a, pinned by `test_different_keys_sub`). -/
def isub (a b : PT) : Except Err PT :=
  if a.n ≠ b.n then .error .typeError else
  .ok ⟨a.n, b.d.foldl (fun acc (k, t) =>
    match Dict.get? acc k with
    | some u => Dict.set acc k (tsub k.length u t)
    | none => Dict.set acc k t) a.d⟩

/-- `__iadd__` / `__isub__` with a scalar -/
def iaddS (a : PT) (c : GQ) : PT := setConstant a (constantOf a + c)
def isubS (a : PT) (c : GQ) : PT := setConstant a (constantOf a - c)

/-- `__imul__` with a scalar -/
def imulS (a : PT) (c : GQ) : PT := ⟨a.n, a.d.map fun (k, t) => (k, tscale c k.length t)⟩

/-- `__imul__` with a PolynomialTensor (elementwise; keys missing in the multiplier are zeroed) -/
def imulT (a b : PT) : Except Err PT :=
  if a.n ≠ b.n then .error .typeError else
  .ok ⟨a.n, a.d.map fun (k, t) =>
    match Dict.get? b.d k with
    | some u => (k, tmul k.length t u)
    | none => (k, tmap (fun _ => 0) k.length t)⟩

def GQ.inv (c : GQ) : GQ :=
  let n := c.normSq
  ⟨c.re / n, -c.im / n⟩

/-- `__itruediv__` with a scalar (numpy division; the harness never divides by 0) -/
def idivS (a : PT) (c : GQ) : PT := ⟨a.n, a.d.map fun (k, t) => (k, tmap (fun x => x * GQ.inv c) k.length t)⟩

/-- `__neg__` (`with_function_applied_elementwise(operator.neg)`) -/
def neg (a : PT) : PT := ⟨a.n, a.d.map fun (k, t) => (k, tneg k.length t)⟩

/-- `__getitem__` -/
def getitem (a : PT) (args : List (Nat × Nat)) : Except Err GQ :=
  match args with
  | [] =>
    match Dict.get? a.d [] with
    | some (.s c) => .ok c
    | _ => .error .keyError
  | _ =>
    match Dict.get? a.d (args.map (·.2)) with
    | none => .error .keyError
    | some t =>
      match tget (args.map (·.1)) t with
      | some c => .ok c
      | none => .error .indexError

/-- `sort_key` of `__iter__`: `(len(key), int(''.join(map(str, key))))` (actions are digits) -/
def keyInt (k : Key) : Nat := k.foldl (fun acc x => acc * 10 + x) 0

def keyLe (a b : Key) : Bool :=
  a.length < b.length || (a.length == b.length && keyInt a ≤ keyInt b)

/-- stable insertion sort (Python `sorted` is stable) -/
def insertKey (k : Key) : List Key → List Key
  | [] => [k]
  | x :: r => if keyLe x k then x :: insertKey k r else k :: x :: r

def sortKeys (l : List Key) : List Key := l.foldl (fun acc k => insertKey k acc) []

/-- `__iter__`: the terms yielded, in order: `()` when the key `()` is present, and
`zip(index, key)` for every non-zero entry. -/
def iter (a : PT) : List Term :=
  (sortKeys (Dict.keys a.d)).flatMap fun k =>
    match k with
    | [] => [[]]
    | _ =>
      match Dict.get? a.d k with
      | none => []
      | some t =>
        (indices a.n k.length).filterMap fun idx =>
          match tget idx t with
          | some c => if c != 0 then some (idx.zip k) else none
          | none => none

/-- `_polynomial_tensor_to_fermion_operator`:
`for term in operator: fermion_operator += FermionOperator(term, operator[term])` -/
def toFermion (tol : Rat) (a : PT) : Op :=
  (iter a).foldl (fun acc t =>
    match getitem a t with
    | .ok c => Model.iadd tol acc (mk .fermion t c)
    | .error _ => acc) []

/-! ### general_basis_change / rotate_basis -/

def conjMat (R : Mat) : Mat := R.map (·.map GQ.conj)

def matGet (R : Mat) (a p : Nat) : GQ :=
  match R[a]? with
  | some row => row[p]?.getD 0
  | none => 0

/-- `numpy.kron(R, numpy.eye(2))` -/
def kronEye2 (R : Mat) : Mat :=
  R.flatMap fun row =>
    [row.flatMap (fun x => [x, 0]), row.flatMap (fun x => [0, x])]

/-- `Σ_a coef a · sub[a]` for arrays of order `k` and dimension `n` -/
def lincomb (n k : Nat) (coef : Nat → GQ) (sub : List Tensor) : Tensor :=
  sub.zipIdx.foldl (fun acc (t, a) => tadd k acc (tmap (fun x => coef a * x) k t)) (tzeros n k)

/-- the einsum of `general_basis_change`, contracted axis by axis:
`M'[P1..Pk] = Σ_a M[a1..ak] Π_i R_i[a_i, P_i]`, `R_i = conj R` when `key_i` is truthy. -/
def basisChange (n : Nat) (R : Mat) : Key → Tensor → Tensor
  | [], t => t
  | x :: ks, .v l =>
    let sub := l.map (basisChange n R ks)
    let Rx := if x ≠ 0 then conjMat R else R
    .v ((List.range n).map fun P => lincomb n ks.length (fun a => matGet Rx a P) sub)
  | _, t => t

/-- `general_basis_change`: enlarges `R` by `kron(R, eye(2))` when the tensor acts on spin orbitals -/
def generalBasisChange (t : Tensor) (R : Mat) (key : Key) : Tensor :=
  let R' := if dim0 t = 2 * R.length then kronEye2 R else R
  basisChange R'.length R' key t

/-- `rotate_basis` -/
def rotateBasis (a : PT) (R : Mat) : PT :=
  ⟨a.n, a.d.map fun (k, t) => match k with
    | [] => (k, t)
    | _ => (k, generalBasisChange t R k)⟩

/-! ### normal_ordered (fermions) — term_reordering.py: the Model of property C03 -/

/-- `normal_ordered(FermionOperator)` -/
def normalOrdered (tol : Rat) (A : Op) : Op := Model.C03.normalOrdered tol .fermion A

/-- `count_qubits(FermionOperator)` -/
def countQubits (A : Op) : Nat :=
  A.foldl (fun m (t, _) => t.foldl (fun m f => max m (f.1 + 1)) m) 0

/-! ### repconversions/conversions.py -/

/-- `n_qubits` argument handling common to the three conversions -/
def resolveN (A : Op) (n? : Option Nat) : Except Err Nat :=
  match n? with
  | none => .ok (countQubits A)
  | some n => if n < countQubits A then .error .valueError else .ok n

/-- `InteractionOperator(constant, one_body, two_body)` -/
def mkIO (c : GQ) (one two : Tensor) : PT := mkPT [([], .s c), ([1, 0], one), ([1, 1, 0, 0], two)]

/-- the body of the loop of `get_interaction_operator` over the normal-ordered terms -/
def ioStep (tol : Rat) (st : GQ × Tensor × Tensor) (tc : Term × GQ) : Except Err (GQ × Tensor × Tensor) :=
  if GQ.isSmall tol tc.2 then .ok st
  else match tc.1 with
  | [] => .ok (tc.2, st.2.1, st.2.2)
  | [(p, 1), (q, 0)] => .ok (st.1, tset [p, q] tc.2 st.2.1, st.2.2)
  | [(p, 1), (q, 1), (r, 0), (s, 0)] => .ok (st.1, st.2.1, tset [p, q, r, s] tc.2 st.2.2)
  | _ => Except.error Err.interactionOperatorError

/-- the scatter loop: `constant`, `one_body[p, q]`, `two_body[p, q, r, s]` are ASSIGNED (`=`) -/
def scatterIO (tol : Rat) (n : Nat) (no : Op) : Except Err (GQ × Tensor × Tensor) :=
  no.foldlM (ioStep tol) (0, tzeros n 2, tzeros n 4)

/-- `get_interaction_operator` -/
def getInteractionOperator (tol : Rat) (A : Op) (n? : Option Nat) : Except Err PT := do
  let n ← resolveN A n?
  let r ← scatterIO tol n (normalOrdered tol A)
  .ok (mkIO r.1 r.2.1 r.2.2)

def mget (t : Tensor) (p q : Nat) : GQ := (tget [p, q] t).getD 0
def madd (t : Tensor) (p q : Nat) (c : GQ) : Tensor := tset [p, q] (mget t p q + c) t

/-- `numpy.eye(n) * mu` added to a matrix -/
def addDiag (n : Nat) (mu : GQ) (t : Tensor) : Tensor :=
  (List.range n).foldl (fun acc i => madd acc i i mu) t

/-- `max |M - M†| < EQ_TOLERANCE` (`is_hermitian` on an ndarray) -/
def isHermitianMat (tol : Rat) (n : Nat) (t : Tensor) : Bool :=
  (indices n 2).all fun idx =>
    match idx with
    | [p, q] => GQ.isSmall tol (mget t p q - GQ.conj (mget t q p))
    | _ => true

def maxSmall (tol : Rat) (n k : Nat) (t : Tensor) : Bool :=
  (indices n k).all fun idx => GQ.isSmall tol ((tget idx t).getD 0)

/-- `QuadraticHamiltonian(hermitian_part, antisymmetric_part, constant, chemical_potential)` -/
def mkQH (n : Nat) (herm : Tensor) (anti : Option Tensor) (c mu : GQ) : PT :=
  let comb := if mu = 0 then herm else addDiag n (-mu) herm
  match anti with
  | none => mkPT [([], .s c), ([1, 0], comb)]
  | some a => mkPT [([], .s c), ([1, 0], comb),
      ([1, 1], tmap (fun x => ⟨1/2, 0⟩ * x) 2 a),
      ([0, 0], tmap (fun x => ⟨-1/2, 0⟩ * GQ.conj x) 2 a)]

def half : GQ := ⟨1/2, 0⟩

/-- the body of the loop of `get_quadratic_hamiltonian` over the normal-ordered terms (`no` is the
normal-ordered operator itself, consulted for the conjugate term) -/
def qhStep (tol : Rat) (ignore : Bool) (no : Op) (st : GQ × Tensor × Tensor) (tc : Term × GQ) :
    Except Err (GQ × Tensor × Tensor) :=
  if GQ.isSmall tol tc.2 then .ok st
  else match tc.1 with
  | [] => .ok (tc.2, st.2.1, st.2.2)
  | [(p, a), (q, b)] =>
    if a = 1 ∧ b = 0 then .ok (st.1, tset [p, q] tc.2 st.2.1, st.2.2)
    else if a = 1 ∧ b = 1 then
      match Dict.get? no [(p, 0), (q, 0)] with
      | none => Except.error Err.quadraticHamiltonianError
      | some m =>
        -- discrepancy = |c - (-conj m)| > tol
        if (tc.2 - (-(GQ.conj m))).normSq > tol * tol then Except.error Err.quadraticHamiltonianError
        else .ok (st.1, st.2.1, madd (madd st.2.2 p q (half * tc.2)) q p (-(half * tc.2)))
    else
      -- "ladder_type == [0, 0]" (the else branch of the source)
      match Dict.get? no [(p, 1), (q, 1)] with
      | none => Except.error Err.quadraticHamiltonianError
      | some m =>
        if (tc.2 - (-(GQ.conj m))).normSq > tol * tol then Except.error Err.quadraticHamiltonianError
        else .ok (st.1, st.2.1, madd (madd st.2.2 p q (-(half * GQ.conj tc.2))) q p (half * GQ.conj tc.2))
  | _ => if ignore then .ok st else Except.error Err.quadraticHamiltonianError

/-- the scatter loop: `(constant, combined hermitian part, antisymmetric part)` -/
def qhScatter (tol : Rat) (ignore : Bool) (n : Nat) (no : Op) : Except Err (GQ × Tensor × Tensor) :=
  no.foldlM (qhStep tol ignore no) (0, tzeros n 2, tzeros n 2)

/-- exact regime of `get_quadratic_hamiltonian`: every pairing term of the normal-ordered operator has
exactly the conjugate partner (the source accepts a discrepancy below the tolerance) -/
def qhExact (tol : Rat) (A : Op) : Bool :=
  (normalOrdered tol A).all fun e =>
    match e.1 with
    | [(p, 1), (q, 1)] => Dict.getD (normalOrdered tol A) [(p, 0), (q, 0)] 0 == -(GQ.conj e.2)
    | [(p, 0), (q, 0)] => Dict.getD (normalOrdered tol A) [(p, 1), (q, 1)] 0 == -(GQ.conj e.2)
    | _ => true

/-- `get_quadratic_hamiltonian` -/
def getQuadraticHamiltonian (tol : Rat) (A : Op) (mu : GQ) (n? : Option Nat) (ignore : Bool) :
    Except Err PT := do
  let n ← resolveN A n?
  let r ← qhScatter tol ignore n (normalOrdered tol A)
  let herm := addDiag n mu r.2.1
  if !isHermitianMat tol n herm then .error .quadraticHamiltonianError
  else if maxSmall tol n 2 r.2.2 then .ok (mkQH n herm none r.1 mu)
  else .ok (mkQH n herm (some r.2.2) r.1 mu)

/-- `DiagonalCoulombHamiltonian`: `(one_body, two_body, constant)` -/
structure DCH where
  n : Nat
  one : Tensor
  two : Tensor
  c : GQ
deriving Repr, Inhabited

/-- exact version of the `numpy.allclose` checks (the harness generates matrices that are
either exactly symmetric / Hermitian or off by a wide margin) -/
def isSymmetricExact (n : Nat) (t : Tensor) : Bool :=
  (indices n 2).all fun idx => match idx with
    | [p, q] => mget t p q == mget t q p
    | _ => true

def isHermitianExact (n : Nat) (t : Tensor) : Bool :=
  (indices n 2).all fun idx => match idx with
    | [p, q] => mget t p q == GQ.conj (mget t q p)
    | _ => true

/-- `DiagonalCoulombHamiltonian.__init__`: checks, then moves the diagonal of `two_body` to `one_body` -/
def mkDCH (n : Nat) (one two : Tensor) (c : GQ) : Except Err DCH :=
  if !isSymmetricExact n two then .error .valueError
  else if !isHermitianExact n one then .error .valueError
  else
    let one' := (List.range n).foldl (fun acc i => madd acc i i (mget two i i)) one
    let two' := (List.range n).foldl (fun acc i => tset [i, i] 0 acc) two
    .ok ⟨n, one', two', c⟩

/-- the body of the loop of `get_diagonal_coulomb_hamiltonian` over the normal-ordered terms -/
def dchStep (tol : Rat) (ignore : Bool) (st : GQ × Tensor × Tensor) (tc : Term × GQ) :
    Except Err (GQ × Tensor × Tensor) :=
  if GQ.isSmall tol tc.2 then .ok st
  else match tc.1 with
  | [] => .ok (tc.2, st.2.1, st.2.2)
  | [(p, 1), (q, 0)] => .ok (st.1, tset [p, q] tc.2 st.2.1, st.2.2)
  | [(p, 1), (q, 1), (r, 0), (s, 0)] =>
    if p = r ∧ q = s then
      -- abs(imag(c)) > tol
      if tc.2.im * tc.2.im > tol * tol then Except.error Err.valueError
      else
        .ok (st.1, st.2.1, tset [q, p] ⟨-(1/2) * tc.2.re, 0⟩ (tset [p, q] ⟨-(1/2) * tc.2.re, 0⟩ st.2.2))
    else if ignore then .ok st else Except.error Err.valueError
  | _ => if ignore then .ok st else Except.error Err.valueError

/-- the scatter loop: `(constant, one_body, two_body)` -/
def dchScatter (tol : Rat) (ignore : Bool) (n : Nat) (no : Op) : Except Err (GQ × Tensor × Tensor) :=
  no.foldlM (dchStep tol ignore) (0, tzeros n 2, tzeros n 2)

/-- exact regime of `get_diagonal_coulomb_hamiltonian`: the two-body coefficients of the normal-ordered
operator are real (the source drops an imaginary part below the tolerance) -/
def dchExact (tol : Rat) (A : Op) : Bool :=
  (normalOrdered tol A).all fun e =>
    match e.1 with
    | [(_, 1), (_, 1), (_, 0), (_, 0)] => e.2.im == 0
    | _ => true

/-- `get_diagonal_coulomb_hamiltonian` -/
def getDiagonalCoulomb (tol : Rat) (A : Op) (n? : Option Nat) (ignore : Bool) : Except Err DCH := do
  let n ← resolveN A n?
  let r ← dchScatter tol ignore n (normalOrdered tol A)
  if !isHermitianMat tol n r.2.1 then .error .valueError
  else mkDCH n r.2.1 r.2.2 r.1

/-! ### opconversions/conversions.py -/

/-- `_diagonal_coulomb_hamiltonian_to_fermion_operator` -/
def dchToFermion (tol : Rat) (h : DCH) : Op :=
  let start := Model.iadd tol [] (mk .fermion [] h.c)
  (indices h.n 2).foldl (fun acc idx =>
    match idx with
    | [p, q] =>
      let acc1 := Model.iadd tol acc (mk .fermion [(p, 1), (q, 0)] (mget h.one p q))
      Model.iadd tol acc1 (mk .fermion [(p, 1), (p, 0), (q, 1), (q, 0)] (mget h.two p q))
    | _ => acc) start

def dchMulS (h : DCH) (c : GQ) : DCH := ⟨h.n, tscale c 2 h.one, tscale c 2 h.two, h.c * c⟩
def dchDivS (h : DCH) (c : GQ) : DCH :=
  ⟨h.n, tmap (fun x => x * GQ.inv c) 2 h.one, tmap (fun x => x * GQ.inv c) 2 h.two, h.c * GQ.inv c⟩

/-- `_majorana_term_to_fermion_operator` -/
def majoranaTermToFermion (tol : Rat) (t : MTerm) : Op :=
  t.foldl (fun acc index =>
    let j := index / 2
    let b := index % 2
    let cop : Op :=
      if b ≠ 0 then Model.iadd tol (mk .fermion [(j, 0)] (-GQ.I)) (mk .fermion [(j, 1)] GQ.I)
      else Model.iadd tol (mk .fermion [(j, 0)] 1) (mk .fermion [(j, 1)] 1)
    mulOp .fermion acc cop) (mk .fermion [] 1)

/-- `_majorana_operator_to_fermion_operator` -/
def majoranaToFermion (tol : Rat) (M : MOp) : Op :=
  M.foldl (fun acc (t, c) => Model.iadd tol acc (smul c (majoranaTermToFermion tol t))) []

/-- `_fermion_term_to_majorana_operator` -/
def fermionTermToMajorana (t : Term) : MOp :=
  t.foldl (fun acc (f : Factor) =>
    let first := mmk [2 * f.1] half
    let cop := if f.2 ≠ 0 then miadd first (mmk [2 * f.1 + 1] (-(half * GQ.I)))
               else miadd first (mmk [2 * f.1 + 1] (half * GQ.I))
    mmul acc cop) (mmk [] 1)

/-- `_fermion_operator_to_majorana_operator` -/
def fermionToMajorana (A : Op) : MOp :=
  A.foldl (fun acc (t, c) => miadd acc (msmul c (fermionTermToMajorana t))) []

/-- `get_quad_operator(BosonOperator, hbar)` with `r = 1/sqrt(2 hbar)` supplied exactly -/
def getQuad (tol : Rat) (r : GQ) (B : Op) : Op :=
  B.foldl (fun acc (t, c) =>
    let tmp := t.foldl (fun (tmp : Op) (f : Factor) =>
      let sgn : GQ := if f.2 % 2 = 0 then 1 else -1
      let inner := Model.iadd tol (mk .quad [(f.1, 0)] 1) (mk .quad [(f.1, 1)] (GQ.I * sgn))
      mulOp .quad tmp (smul r inner)) (mk .quad [] c)
    Model.iadd tol acc tmp) []

/-- `get_boson_operator(QuadOperator, hbar)` with `r' = sqrt(hbar / 2)` supplied exactly -/
def getBoson (tol : Rat) (r' : GQ) (Q : Op) : Op :=
  Q.foldl (fun acc (t, c) =>
    let tmp := t.foldl (fun (tmp : Op) (f : Factor) =>
      let coeff : GQ := if f.2 = 0 then r' else (-GQ.I) * r'
      let sign : GQ := if f.2 = 0 then 1 else -1
      let inner := Model.iadd tol (mk .boson [(f.1, 0)] 1) (mk .boson [(f.1, 1)] sign)
      mulOp .boson tmp (smul coeff inner)) (mk .boson [] c)
    Model.iadd tol acc tmp) []

end C08
end Model
end OFV
