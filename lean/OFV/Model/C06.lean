/-
C06 — Model (executable mirror) of linalg/sparse_tools.py (`jordan_wigner_ladder_sparse`,
`jordan_wigner_sparse`, `qubit_operator_sparse`, `get_linear_qubit_operator_diagonal`,
`boson_ladder_sparse` / `boson_operator_sparse` with amplitudes kept as `√R`),
linalg/linear_qubit_operator.py (`LinearQubitOperator._matvec`, `ParallelLinearQubitOperator`),
`SymbolicOperator.get_operator_groups` and `count_qubits` (utils/operator_utils.py).

Sparse matrices are entry lists `(row, col, value)` with explicit dimensions; `scipy.sparse.kron`
is index arithmetic `(r1 * R2 + r2, c1 * C2 + c2) ↦ v1 * v2`; vectors are `List GQ`.
Import-free.
-/
import OFV.Model.Symbolic
import OFV.Generated.C06

namespace OFV
namespace Model
namespace C06

/-! ### count_qubits -/

/-- FermionOperator branch: scans every ladder operator -/
def countQubitsFermion (a : Op) : Nat :=
  a.foldl (fun n (t, _) => t.foldl (fun n f => if f.1 + 1 > n then f.1 + 1 else n) n) 0

/-- QubitOperator branch: only `term[-1][0]` is read (terms are index-sorted) -/
def countQubitsQubit (a : Op) : Nat :=
  a.foldl (fun n (t, _) =>
    match t.getLast? with
    | some f => if f.1 + 1 > n then f.1 + 1 else n
    | none => n) 0

/-! ### sparse matrices as entry lists -/

structure Mat where
  rows : Nat
  cols : Nat
  entries : List (Nat × Nat × GQ)
deriving Repr, Inhabited

/-- `scipy.sparse.identity(m)` -/
def identity (m : Nat) : Mat := ⟨m, m, (List.range m).map fun i => (i, i, 1)⟩

/-- `pauli_matrix_map` (1 = X, 2 = Y, 3 = Z, anything else = I): the entries are re-extracted
from the live source on every run (`OFV.Generated.C06`) -/
def pauliMat (p : Nat) : Mat := ⟨2, 2, Generated.C06.pauliEntries p⟩

/-- `q_raise_csc = (X - iY)/2`, `q_lower_csc = (X + iY)/2` (extracted) -/
def qRaise : Mat := ⟨2, 2, Generated.C06.qRaiseEntries⟩
def qLower : Mat := ⟨2, 2, Generated.C06.qLowerEntries⟩

/-- a Python scalar as the first Kronecker factor -/
def scalarMat (c : GQ) : Mat := ⟨1, 1, if c = 0 then [] else [(0, 0, c)]⟩

/-- `scipy.sparse.kron(A, B)` -/
def kron (A B : Mat) : Mat :=
  ⟨A.rows * B.rows, A.cols * B.cols,
   A.entries.flatMap fun a => B.entries.map fun b =>
     (a.1 * B.rows + b.1, a.2.1 * B.cols + b.2.1, a.2.2 * b.2.2)⟩

/-- `kronecker_operators(list) = reduce(wrapped_kronecker, list)` (non-empty list) -/
def kronList : List Mat → Mat
  | [] => identity 1
  | m :: r => r.foldl kron m

/-- sum of the entries at `(r, c)` (duplicates are summed, as `coo_matrix -> csc` does) -/
def Mat.get (M : Mat) (r c : Nat) : GQ :=
  M.entries.foldl (fun acc e => if e.1 = r ∧ e.2.1 = c then acc + e.2.2 else acc) 0

/-- sparse matrix product `A * B` -/
def matMul (A B : Mat) : Mat :=
  ⟨A.rows, B.cols,
   A.entries.flatMap fun a => (B.entries.filter fun b => b.1 = a.2.1).map fun b =>
     (a.1, b.2.1, a.2.2 * b.2.2)⟩

def scaleMat (c : GQ) (A : Mat) : Mat := ⟨A.rows, A.cols, A.entries.map fun e => (e.1, e.2.1, c * e.2.2)⟩

/-- insertion sort of entries by a key (stable) -/
def insertBy (key : Nat × Nat × GQ → Nat × Nat) (e : Nat × Nat × GQ) :
    List (Nat × Nat × GQ) → List (Nat × Nat × GQ)
  | [] => [e]
  | x :: r =>
    let ke := key e; let kx := key x
    if ke.1 < kx.1 ∨ (ke.1 = kx.1 ∧ ke.2 ≤ kx.2) then e :: x :: r else x :: insertBy key e r

def sortBy (key : Nat × Nat × GQ → Nat × Nat) (l : List (Nat × Nat × GQ)) : List (Nat × Nat × GQ) :=
  l.foldr (insertBy key) []

/-- canonical dictionary `(row, col) ↦ value`, duplicates summed, zeros eliminated, row-major -/
def canonEntries (es : List (Nat × Nat × GQ)) : List (Nat × Nat × GQ) :=
  let sorted := sortBy (fun e => (e.1, e.2.1)) es
  let merged := sorted.foldr (fun e acc =>
    match acc with
    | x :: r => if x.1 = e.1 ∧ x.2.1 = e.2.1 then (e.1, e.2.1, e.2.2 + x.2.2) :: r else e :: acc
    | [] => [e]) []
  merged.filter fun e => e.2.2 != 0

/-! ### qubit_operator_sparse -/

/-- the list `sparse_operators` built for one term: coefficient, identities for the gaps,
the Pauli matrices, and the trailing identity (`if tensor_factor < n_qubits or not qubit_term`) -/
def qubitTermFactors (n : Nat) (t : Term) (c : GQ) : List Mat :=
  let (ops, tf) := t.foldl (fun (acc : List Mat × Nat) f =>
    let ops := if f.1 > acc.2 then acc.1 ++ [identity (2 ^ (f.1 - acc.2))] else acc.1
    (ops ++ [pauliMat f.2], f.1 + 1)) ([scalarMat c], 0)
  if tf < n ∨ t.isEmpty then ops ++ [identity (2 ^ (n - tf))] else ops

/-- triplets of one term as the code extracts them: `values = M.tocoo().data` (CSC order:
by column, then row) and `(column, row) = M.nonzero()` (explicit zeros removed, *row-major*
order) — the names are swapped in the source, which is only right for a symmetric pattern.
`none` models the `ValueError` of `coo_matrix` on arrays of different lengths. -/
def qubitTermTriplets (M : Mat) : Option (List (Nat × Nat × GQ)) :=
  let csc := sortBy (fun e => (e.2.1, e.1)) M.entries
  let nz := sortBy (fun e => (e.1, e.2.1)) (M.entries.filter fun e => e.2.2 != 0)
  if csc.length ≠ nz.length then none
  else some ((csc.zip nz).map fun (d, ix) =>
    -- `column_list` gets nonzero()[0] (the actual rows), `row_list` gets nonzero()[1]
    (ix.2.1, ix.1, d.2.2))

/-- `qubit_operator_sparse(op, n_qubits)`: `none` = ValueError -/
def qubitOperatorSparse (n? : Option Nat) (a : Op) : Option (Nat × List (Nat × Nat × GQ)) :=
  let cnt := countQubitsQubit a
  let n := n?.getD cnt
  if n < cnt then none else
  let trip := a.foldl (fun (acc : Option (List (Nat × Nat × GQ))) (t, c) =>
    match acc, qubitTermTriplets (kronList (qubitTermFactors n t c)) with
    | some l, some tr => some (l ++ tr)
    | _, _ => none) (some [])
  trip.map fun l => (2 ^ n, canonEntries l)

/-! ### jordan_wigner_sparse -/

/-- `jordan_wigner_ladder_sparse(n_qubits, tensor_factor, ladder_type)` -/
def jwLadder (n j ty : Nat) : Mat :=
  kronList (List.replicate j (pauliMat 3) ++ [if ty != 0 then qRaise else qLower] ++
    [identity (2 ^ (n - j - 1))])

/-- `jordan_wigner_sparse(op, n_qubits)`; terms with a zero coefficient are skipped -/
def jordanWignerSparse (n? : Option Nat) (a : Op) : Nat × List (Nat × Nat × GQ) :=
  let n := n?.getD (countQubitsFermion a)
  let es := a.foldl (fun acc (t, c) =>
    let M := t.foldl (fun M f => matMul M (jwLadder n f.1 f.2)) (scaleMat c (identity (2 ^ n)))
    if c = 0 then acc else acc ++ M.entries) []
  (2 ^ n, canonEntries es)

/-! ### LinearQubitOperator._matvec -/

abbrev Vec := List GQ

/-- `numpy.split(v, k)` into `k` equal parts -/
def splitN (k : Nat) (v : Vec) : List Vec :=
  let m := v.length / k
  (List.range k).map fun i => (v.drop (i * m)).take m

def vneg (v : Vec) : Vec := v.map fun x => -x
def vscale (c : GQ) (v : Vec) : Vec := v.map fun x => c * x
def vadd : Vec → Vec → Vec
  | a :: r, b :: s => (a + b) :: vadd r s
  | _, _ => []

/-- the `xyz` lambdas on one pair `[vp0, vp1]` -/
def xyz (p : Nat) (vp0 vp1 : Vec) : List Vec :=
  match p with
  | 1 => [vp1, vp0]
  | 2 => [vscale (-GQ.I) vp1, vscale GQ.I vp0]
  | 3 => [vp0, vneg vp1]
  | _ => [vp0, vp1]

/-- one term of `_matvec`: returns `numpy.concatenate(vecs)` -/
def matvecTerm (t : Term) (x : Vec) : Vec :=
  let st := t.foldl (fun (acc : List Vec × Nat) f =>
    let vecs := if f.1 > acc.2 then acc.1.flatMap (splitN (2 ^ (f.1 - acc.2))) else acc.1
    let vecs' := vecs.flatMap fun v =>
      match splitN 2 v with
      | [vp0, vp1] => xyz f.2 vp0 vp1
      | _ => [v]
    (vecs', f.1 + 1)) ([x], 0)
  st.1.flatten

/-- `LinearQubitOperator._matvec` -/
def matvec (a : Op) (x : Vec) : Vec :=
  a.foldl (fun ret (t, c) => vadd ret (vscale c (matvecTerm t x))) (x.map fun _ => 0)

/-! ### get_linear_qubit_operator_diagonal -/

/-- one term: `none` when the term contains X or Y (`is_zero`) -/
def diagTerm (n : Nat) (t : Term) : Option Vec :=
  let ones : Vec := List.replicate (2 ^ n) 1
  let st := t.foldl (fun (acc : Option (List Vec × Nat)) f =>
    match acc with
    | none => none
    | some (vs, tf) =>
      if f.2 = 1 ∨ f.2 = 2 then none
      else
        let vecs := if f.1 > tf then vs.flatMap (splitN (2 ^ (f.1 - tf))) else vs
        let vecs' := vecs.flatMap fun v =>
          match splitN 2 v with
          | [vp0, vp1] => [vp0, vneg vp1]
          | _ => [v]
        some (vecs', f.1 + 1)) (some ([ones], 0))
  st.map fun s => s.1.flatten

/-- `get_linear_qubit_operator_diagonal(op, n_qubits)`; `none` = ValueError (too few qubits) -/
def linearDiagonal (n? : Option Nat) (a : Op) : Option Vec :=
  let cnt := countQubitsQubit a
  let n := n?.getD cnt
  if n < cnt then none else
  some (a.foldl (fun d (t, c) =>
    match diagTerm n t with
    | none => d
    | some v => vadd d (vscale c v)) (List.replicate (2 ^ n) 0))

/-! ### get_operator_groups / ParallelLinearQubitOperator -/

/-- `get_operator_groups(num_groups)`: consecutive chunks of sizes
`len(range(i, L, k))`, `i = 0 … k-1`, `k = min(max(num_groups, 1), L)` -/
def groupSizes (L k : Nat) : List Nat :=
  (List.range k).map fun i => (L - i + k - 1) / k

def chunks : List Nat → List α → List (List α)
  | [], _ => []
  | s :: r, l => l.take s :: chunks r (l.drop s)

def operatorGroups (numGroups : Nat) (a : Op) : List Op :=
  let k := min (max numGroups 1) a.length
  chunks (groupSizes a.length k) a

/-- `functools.reduce(numpy.add, vecs)`; `zero` = `numpy.zeros(x.shape)` when there is no group -/
def reduceAdd (zero : Vec) : List Vec → Vec
  | [] => zero
  | r :: rest => rest.foldl vadd r

/-- `ParallelLinearQubitOperator._matvec` with the group results delivered in the order `perm` -/
def parallelMatvec (numGroups : Nat) (a : Op) (x : Vec) (perm : List Nat) : Vec :=
  reduceAdd (x.map fun _ => 0)
    (perm.map fun i => ((operatorGroups numGroups a).map fun g => matvec g x).getD i [])

/-! ### boson_operator_sparse: amplitudes are `√R` with `R : Nat` -/

/-- one ladder operator of `boson_ladder_sparse` acting to the right on the column index
(digits big-endian, base `trunc`): `b†|k⟩ = √(k+1)|k+1⟩` (cut at `trunc`), `b|k⟩ = √k |k-1⟩` -/
def digitsOf (trunc nModes idx : Nat) : List Nat :=
  (List.range nModes).map fun m => idx / trunc ^ (nModes - 1 - m) % trunc

def indexOf (trunc : Nat) (ds : List Nat) : Nat := ds.foldl (fun acc d => acc * trunc + d) 0

/-- the column `col` of the product of ladder matrices of a term: `some (row, R)` with entry `√R` -/
def bosonTermColumn (trunc nModes : Nat) (t : Term) (col : Nat) : Option (Nat × Nat) :=
  let st := t.foldr (fun f (acc : Option (List Nat × Nat)) =>
    match acc with
    | none => none
    | some (ds, R) =>
      let k := ds.getD f.1 0
      if f.2 != 0 then
        if k + 1 < trunc then some (ds.set f.1 (k + 1), R * (k + 1)) else none
      else
        if k = 0 then none else some (ds.set f.1 (k - 1), R * k)) (some (digitsOf trunc nModes col, 1))
  st.map fun s => (indexOf trunc s.1, s.2)

def bosonModes (a : Op) : Nat := countQubitsFermion a

/-- all `(row, col, term index, R)`: the matrix is `Σ_terms coeff · √R` at `(row, col)` -/
def bosonOperatorEntries (trunc : Nat) (a : Op) : Nat × List (Nat × Nat × Nat × Nat) :=
  let nModes := bosonModes a
  let dim := trunc ^ nModes
  (dim, (List.range a.length).flatMap fun ti =>
    let t := (a.getD ti ([], 0)).1
    (List.range dim).filterMap fun col =>
      (bosonTermColumn trunc nModes t col).map fun (row, R) => (row, col, ti, R))

end C06
end Model
end OFV
