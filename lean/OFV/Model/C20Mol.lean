/-
C20 — Model of the attribute encode / decode conventions of `MolecularData.save` / `load`
(chem/molecular_data.py): an optional attribute is written as `data=(x if x is not None else False)`, i.e. `None`
becomes the boolean dataset `False`; `load` tests `data.dtype.num != 0` (dtype number 0 = bool) and maps a boolean
dataset back to `None`, applies `int(...)` to `n_orbitals` / `n_qubits`, `float(...)` to `nuclear_repulsion` and keeps
the stored array otherwise; strings are written as bytes and decoded as UTF-8 (`description` additionally loses
trailing NUL characters).  HDF5 itself (h5py) is a contract: a dataset reads back as it was written.
Executable, import-free.
-/
import OFV.Core.GQ

namespace OFV
namespace Model
namespace C20

/-- value of an optional attribute -/
inductive AttrVal
  | none
  | bool (b : Bool)
  | int (z : Int)
  | real (q : Rat)
  | arr (l : List Rat)
deriving DecidableEq, Repr

/-- what h5py stores: the dtype class and the data -/
inductive Dataset
  | boolean (b : Bool)          -- dtype.num == 0
  | integer (z : Int)
  | floating (q : Rat)
  | array (l : List Rat)
deriving DecidableEq, Repr

/-- `create_dataset(name, data=(x if x is not None else False))` -/
def encodeAttr : AttrVal → Dataset
  | .none => .boolean false
  | .bool b => .boolean b
  | .int z => .integer z
  | .real q => .floating q
  | .arr l => .array l

/-- how `load` post-processes the dataset of an attribute: 0 = keep the data (energies, arrays), 1 = `int(data)`
(`n_orbitals`, `n_qubits`), 2 = `float(data)` (`nuclear_repulsion`) -/
def decodeAttr (kind : Nat) : Dataset → AttrVal
  | .boolean _ => .none                      -- `data.dtype.num != 0` fails: `None`
  | .integer z => if kind = 2 then .real z else .int z
  | .floating q => if kind = 1 then .int (Rat.floor q) else .real q      -- `int(x)` truncates; equal for integral values
  | .array l => .arr l

end C20
end Model
end OFV
