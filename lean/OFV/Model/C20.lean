/-
C20 — Model of the text round trip of `SymbolicOperator` (symbolic_operator.py):
`__str__` (printer), `_long_string_init` (regex `(.*?)\[(.*?)\]`, coefficient parsing),
`_parse_string`, on character lists; and of `save_operator` / `load_operator` /
`get_file_path` (utils/operator_utils.py) over an abstract file system.

Parameters (contracts, supplied by the harness from the real Python functions):
* the text `'{}'.format(coeff)` of every coefficient that is printed,
* `float(s)` / `complex(s)` for every string the parser hands to them.
Executable, import-free.
-/
import OFV.Model.Symbolic

namespace OFV
namespace Model
namespace C20

abbrev Str := List Char

/-! ### class tables (`actions`, `action_strings`, `action_before_index`) -/

/-- `action_strings[actions.index(action)]` -/
def actionStr : Cls → Nat → Str
  | .fermion, 1 => ['^']
  | .fermion, _ => []
  | .boson, 1 => ['^']
  | .boson, _ => []
  | .qubit, 1 => ['X']
  | .qubit, 2 => ['Y']
  | .qubit, _ => ['Z']
  | .ising, _ => ['Z']
  | .quad, 0 => ['q']
  | .quad, _ => ['p']

/-- `actions[action_strings.index(s)]` when `s in action_strings` -/
def actionOfStr : Cls → Str → Option Nat
  | .fermion, ['^'] => some 1
  | .fermion, [] => some 0
  | .boson, ['^'] => some 1
  | .boson, [] => some 0
  | .qubit, ['X'] => some 1
  | .qubit, ['Y'] => some 2
  | .qubit, ['Z'] => some 3
  | .ising, ['Z'] => some 3
  | .quad, ['q'] => some 0
  | .quad, ['p'] => some 1
  | _, _ => none

def actionBeforeIndex : Cls → Bool
  | .qubit | .quad | .ising => true
  | _ => false

/-- the actions of the class (`_validate_factor`) -/
def validAction : Cls → Nat → Bool
  | .fermion, a | .boson, a | .quad, a => a ≤ 1
  | .qubit, a => 1 ≤ a && a ≤ 3
  | .ising, a => a == 3

/-! ### decimal numerals (`str(int)` / `int(str)` for non-negative integers) -/

def digitChar : Nat → Char
  | 0 => '0' | 1 => '1' | 2 => '2' | 3 => '3' | 4 => '4'
  | 5 => '5' | 6 => '6' | 7 => '7' | 8 => '8' | _ => '9'
def isDigit (c : Char) : Bool := 48 ≤ c.toNat && c.toNat ≤ 57
def digitVal (c : Char) : Nat := c.toNat - 48

/-- least significant digit first -/
def toDigitsRev (n : Nat) : List Nat :=
  if n < 10 then [n] else (n % 10) :: toDigitsRev (n / 10)
decreasing_by omega

/-- `str(n)` -/
def natStr (n : Nat) : Str := (toDigitsRev n).reverse.map digitChar

/-- `int(s)` for a string of decimal digits -/
def parseNat (s : Str) : Nat := s.foldl (fun acc c => 10 * acc + digitVal c) 0

/-! ### printer: `__str__` -/

/-- one factor: `'{}{} '.format(action_string, index)` or `'{}{} '.format(index, action_string)`
(without the trailing blank) -/
def printFactor (cls : Cls) (f : Factor) : Str :=
  if actionBeforeIndex cls then actionStr cls f.2 ++ natStr f.1 else natStr f.1 ++ actionStr cls f.2

/-- the factors separated by single blanks (`tmp_string.strip()` removes the last one) -/
def printTerm (cls : Cls) : Term → Str
  | [] => []
  | [f] => printFactor cls f
  | f :: r => printFactor cls f ++ ' ' :: printTerm cls r

/-- Python's order on actions: ints for ladder operators, `'X' < 'Y' < 'Z'`, `'p' < 'q'` -/
def actionKey : Cls → Nat → Nat
  | .quad, a => if a = 0 then 1 else 0
  | _, a => a

/-- Python tuple comparison `s < t` of terms -/
def termLt (cls : Cls) : Term → Term → Bool
  | [], [] => false
  | [], _ :: _ => true
  | _ :: _, [] => false
  | f :: s, g :: t =>
    if f.1 < g.1 then true else if g.1 < f.1 then false
    else if actionKey cls f.2 < actionKey cls g.2 then true
    else if actionKey cls g.2 < actionKey cls f.2 then false
    else termLt cls s t

/-- entry of the dictionary together with the text `format` produced for its coefficient -/
abbrev Entry := Term × GQ × Str

def insertEntry (cls : Cls) (e : Entry) : List Entry → List Entry
  | [] => [e]
  | x :: r => if termLt cls x.1 e.1 then x :: insertEntry cls e r else e :: x :: r

/-- `sorted(self.terms.items())` (keys are distinct, coefficients are never compared) -/
def sortEntries (cls : Cls) (l : List Entry) : List Entry := l.foldr (insertEntry cls) []

/-- `'{} [{}] +\n'` block of one term -/
def printBlock (cls : Cls) (e : Entry) : Str :=
  e.2.2 ++ [' ', '['] ++ printTerm cls e.1 ++ [']', ' ', '+', '\n']

/-- `SymbolicOperator.__str__` -/
def printOp (cls : Cls) (tol : Rat) (A : List Entry) : Str :=
  if A = [] then ['0'] else
  let body := ((sortEntries cls A).filter fun e => !GQ.isSmall tol e.2.1).flatMap (printBlock cls)
  body.take (body.length - 3)

/-! ### parser: `_long_string_init` and `_parse_string` -/

/-- ASCII characters for which `str.isspace()` holds (`\s` of `re`, `str.split()`) -/
def isSpace (c : Char) : Bool :=
  c = ' ' || (9 ≤ c.toNat && c.toNat ≤ 13) || (28 ≤ c.toNat && c.toNat ≤ 31)

/-- `s.split()`: `cur` is the token being read, reversed -/
def splitWsAux : Str → Str → List Str
  | [], cur => if cur = [] then [] else [cur.reverse]
  | c :: r, cur =>
    if isSpace c then (if cur = [] then splitWsAux r [] else cur.reverse :: splitWsAux r [])
    else splitWsAux r (c :: cur)

def splitWs (s : Str) : List Str := splitWsAux s []

/-- `re.findall(r'(.*?)\[(.*?)\]', s, flags=re.DOTALL)`: successive leftmost matches, each group
as short as possible: text up to the first `[`, then text up to the first `]` after it.
`inBody`: a `[` has been seen; `pre`, `body`: the groups read so far, reversed. -/
def findTermsAux : Str → Bool → Str → Str → List (Str × Str)
  | [], _, _, _ => []
  | c :: r, false, pre, body =>
    if c = '[' then findTermsAux r true pre [] else findTermsAux r false (c :: pre) body
  | c :: r, true, pre, body =>
    if c = ']' then (pre.reverse, body.reverse) :: findTermsAux r false [] []
    else findTermsAux r true pre (c :: body)

def findTerms (s : Str) : List (Str × Str) := findTermsAux s false [] []

/-- one factor of `_parse_string`; `none` = `ValueError` -/
def parseFactor (cls : Cls) (factor : Str) : Option Factor :=
  if actionBeforeIndex cls then
    -- the index is the maximal digit suffix
    let suf := (factor.reverse.takeWhile isDigit).reverse
    if suf = [] then none else
    let pre := factor.take (factor.length - suf.length)
    if pre.getLast? = some '-' then none else
    (actionOfStr cls pre).map fun a => (parseNat suf, a)
  else
    match factor with
    | [] => none      -- cannot happen: `split()` yields non-empty factors
    | c :: _ =>
      if c = '-' then none else if !isDigit c then none else
      let idx := factor.takeWhile isDigit
      let act := factor.dropWhile isDigit
      (actionOfStr cls act).map fun a => (parseNat idx, a)

/-- `_parse_string(term)` -/
def parseString (cls : Cls) (term : Str) : Option Term := (splitWs term).mapM (parseFactor cls)

/-- the two Python conversions the coefficient parser calls, as finite tables -/
structure NumTables where
  pyFloat : List (Str × GQ)
  pyComplex : List (Str × GQ)

def lookup (t : List (Str × GQ)) (s : Str) : Option GQ := (t.find? fun e => e.1 = s).map (·.2)

def intGQ (z : Int) : GQ := ⟨(z : Rat), 0⟩

/-- Model of Python's `float(s)` restricted to decimal integer literals (`-`? digits): the exact integer value
(Python's `float` is exact on them below 2^53; the harness compares the table it sends with this model) -/
def floatIntModel (s : Str) : Option GQ :=
  match s with
  | '-' :: r => if r ≠ [] ∧ r.all isDigit = true then some (intGQ (-(parseNat r : Int))) else none
  | r => if r ≠ [] ∧ r.all isDigit = true then some (intGQ (parseNat r)) else none

/-- `if coef_string and coef_string[0] == '+': coef_string = coef_string[1:]` -/
def stripPlus : Str → Str
  | '+' :: r => r
  | s => s

/-- `re.sub(r"\s+", "", match[0])` followed by the removal of one leading `+` -/
def cleanCoef (m0 : Str) : Str := stripPlus (m0.filter fun c => !isSpace c)

/-- which Python conversion the cleaned coefficient text is handed to:
`(isComplex, negate, text)`; `none`: the text is empty (`1.0`) or `-` (`-1.0`) -/
def coefRequestClean (cs : Str) : Option (Bool × Bool × Str) :=
  if cs = [] then none
  else if cs = ['-'] then none
  else if cs.contains 'j' then
    match cs with
    | '-' :: r => some (true, true, r)
    | _ => some (true, false, cs)
  else some (false, false, cs)

/-- coefficient of a cleaned text; `none` = `ValueError('Invalid coefficient')` -/
def parseClean (nt : NumTables) (cs : Str) : Option GQ :=
  match coefRequestClean cs with
  | none => if cs = [] then some 1 else some (-1)
  | some (true, neg, txt) => (lookup nt.pyComplex txt).map fun v => if neg then -v else v
  | some (false, _, txt) => lookup nt.pyFloat txt

/-- coefficient of one match -/
def parseCoef (nt : NumTables) (m0 : Str) : Option GQ := parseClean nt (cleanCoef m0)

/-- `if term not in self.terms: self.terms[term] = coef else: self.terms[term] += coef` -/
def addTerm (d : Op) (t : Term) (c : GQ) : Op :=
  match Dict.get? d t with
  | none => Dict.set d t c
  | some v => Dict.set d t (v + c)

/-- one iteration of the loop of `_long_string_init` over the regex matches -/
def lsStep (cls : Cls) (nt : NumTables) (coefficient : GQ) (d : Op) (m : Str × Str) : Option Op := do
  let coef ← parseCoef nt m.1
  let coef := coef * coefficient
  let term ← parseString cls m.2
  let sim := simplify cls term
  pure (addTerm d sim.2 (coef * sim.1))

/-- `_long_string_init(long_string, coefficient)`; `none` = `ValueError` -/
def longStringInit (cls : Cls) (nt : NumTables) (s : Str) (coefficient : GQ) : Option Op :=
  (findTerms s).foldlM (lsStep cls nt coefficient) []

/-- all strings `_long_string_init` hands to `float` (false) / `complex` (true) -/
def numRequests (s : Str) : List (Bool × Str) :=
  (findTerms s).filterMap fun m => (coefRequestClean (cleanCoef m.1)).map fun (isC, _, txt) => (isC, txt)

/-- `SymbolicOperator.__init__(term: str)`: a string containing `[` is a sum of terms, any other
string one term with coefficient `1.0` -/
def initFromString (cls : Cls) (nt : NumTables) (s : Str) : Option Op :=
  if s.contains '[' then longStringInit cls nt s 1
  else (parseString cls s).map fun t => let sim := simplify cls t; [(sim.2, (1 : GQ) * sim.1)]

end C20
end Model
end OFV
