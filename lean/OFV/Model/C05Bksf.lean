/-
Model of the edge operators of `transforms/opconversions/bksf.py` (Bravyi-Kitaev superfast): `edge_operator_b`,
`edge_operator_aij`, for an arbitrary `edge_matrix_indices` array, given as the list of its columns
`(edge_matrix_indices[0][e], edge_matrix_indices[1][e])` (qubit `e` sits on edge `e`).  Import-free apart from the
Model of `SymbolicOperator` arithmetic.
-/
import OFV.Model.Symbolic

namespace OFV
namespace Model
namespace Bksf

abbrev Edges := List (Nat × Nat)

/-- `numpy.where(edge_matrix_indices == i)`: the (row, column) pairs, row 0 first, columns ascending -/
def whereEq (E : Edges) (i : Nat) : List (Nat × Nat) :=
  ((List.range E.length).filter fun e => (E.getD e (0, 0)).1 == i).map (fun e => (0, e))
  ++ ((List.range E.length).filter fun e => (E.getD e (0, 0)).2 == i).map (fun e => (1, e))

/-- insertion sort of qubit positions (`numpy.sort`) -/
def insertN (x : Nat) : List Nat → List Nat
  | [] => [x]
  | y :: r => if x ≤ y then x :: y :: r else y :: insertN x r

def sortN (l : List Nat) : List Nat := l.foldr insertN []

section
variable (tol : Rat)

/-- `edge_operator_b(edge_matrix_indices, i)` -/
def edgeB (E : Edges) (i : Nat) : Op :=
  let pos := sortN ((whereEq E i).map (·.2))
  iadd tol [] (mk .qubit (pos.map fun d => (d, 3)) 1)

/-- the other endpoint `edge_matrix_indices[int(not row)][column]` -/
def otherEnd (E : Edges) (rc : Nat × Nat) : Nat :=
  let e := E.getD rc.2 (0, 0)
  if rc.1 == 0 then e.2 else e.1

/-- `position_ij`: the last column whose set of endpoints is `{i, j}`; `none` for Python's `-1` -/
def positionIJ (E : Edges) (i j : Nat) : Option Nat :=
  (List.range E.length).foldl (fun acc e =>
    let ed := E.getD e (0, 0)
    if (ed.1 == i && ed.2 == j) || (ed.1 == j && ed.2 == i) then some e else acc) none

/-- the Pauli factors of `edge_operator_aij` in the order the code appends them -/
def aijFactors (E : Edges) (i j pos : Nat) : Term :=
  [(pos, 1)]
  ++ ((whereEq E i).filter fun rc => otherEnd E rc < j).map (fun rc => (rc.2, 3))
  ++ ((whereEq E j).filter fun rc => otherEnd E rc < i).map (fun rc => (rc.2, 3))

/-- `edge_operator_aij(edge_matrix_indices, i, j)`; `none` when there is no edge `{i, j}` (the library then
builds a factor on qubit `-1` and `QubitOperator` raises) -/
def edgeA (E : Edges) (i j : Nat) : Option Op :=
  match positionIJ E i j with
  | none => none
  | some pos =>
    let a := iadd tol [] (mk .qubit (aijFactors E i j pos) 1)
    some (if j < i then smul (-1) a else a)

end

end Bksf
end Model
end OFV

/-! ### the assembled transform: `bravyi_kitaev_fast_edge_matrix`, `_one_body`, `_two_body`,
`bravyi_kitaev_fast_interaction_op`, `number_operator` -/

namespace OFV
namespace Model
namespace Bksf

/-- `len(set([p, q, r, s]))` -/
def nDistinct4 (p q r s : Nat) : Nat := ([p, q, r, s].eraseDups).length

/-- the selection `continue`s shared by the edge-matrix loop and the main loop:
`if [p,q,r,s] != [s,r,q,p]: if len(set) == 4: if min(r,s) < min(p,q): continue`.  Returns `true` when skipped. -/
def skip4 (p q r s : Nat) : Bool :=
  !(p == s && q == r) && nDistinct4 p q r s == 4 && decide (min r s < min p q)

/-- entries `edge_matrix[row, col] = True` written by `bravyi_kitaev_fast_edge_matrix` (before the transpose), in
program order; `T1 p q = one_body[p, q]`, `T2 p q r s = two_body[p, q, r, s]` -/
def edgeMatrixWrites (N : Nat) (T1 : Nat → Nat → GQ) (T2 : Nat → Nat → Nat → Nat → GQ) : List (Nat × Nat) :=
  (List.range N).flatMap fun p => (List.range N).flatMap fun q =>
    (if T1 p q != 0 && decide (q ≤ p) then [(p, q)] else [])
    ++ ((List.range N).flatMap fun r => (List.range N).flatMap fun s =>
      let c := T2 p q r s
      if c == 0 || p == q || r == s then [] else
      let nd := nDistinct4 p q r s
      if !(p == s && q == r) && ((nd == 4 && decide (min r s < min p q)) || (nd != 4 && p != r && decide (q < p))) then []
      else if nd == 4 then
        (if decide (q ≤ p) then [(p, q), (max r s, min r s)] else [])
      else if nd == 3 then
        (if p == r then [(max q s, min q s)]
         else if p == s then [(max q r, min q r)]
         else if q == r then [(max p s, min p s)]
         else if q == s then [(max p r, min p r)]
         else [])
      else [])

/-- `numpy.array(numpy.nonzero(numpy.triu(edge_matrix) - numpy.diag(numpy.diag(edge_matrix))))` of the transposed
matrix: the columns `(a, b)`, `a < b`, in row-major order -/
def edgeIndices (N : Nat) (T1 : Nat → Nat → GQ) (T2 : Nat → Nat → Nat → Nat → GQ) : Edges :=
  let W := edgeMatrixWrites N T1 T2
  (List.range N).flatMap fun a => ((List.range N).filter fun b => decide (a < b) && W.contains (b, a)).map fun b => (a, b)

section
variable (tol : Rat)

def one : Op := mk .qubit [] 1
def halfQ : GQ := ⟨mkRat 1 2, 0⟩
def quarterQ : GQ := ⟨mkRat 1 4, 0⟩
def eighthQ : GQ := ⟨mkRat 1 8, 0⟩

/-- `x + y` (`__add__`: copy, then `+=`) -/
def addOp (x y : Op) : Op := iadd tol x y
/-- `x - y` -/
def subOp (x y : Op) : Op := isub tol x y

/-- `_one_body(edge_matrix_indices, p, q)`; `none` when a needed edge operator does not exist -/
def oneBody (E : Edges) (p q : Nat) : Option Op :=
  if p != q then
    let a := min p q
    let b := max p q
    match edgeA tol E a b with
    | none => none
    | some A =>
      let Ba := edgeB tol E a
      let Bb := edgeB tol E b
      let inner := addOp tol (mulOp .qubit A Bb) (mulOp .qubit Ba A)
      some (iadd tol [] (smul (⟨0, -(mkRat 1 2)⟩ : GQ) inner))
  else
    some (iadd tol [] (smul halfQ (subOp tol one (edgeB tol E p))))

/-- `(A_xy * B_y + B_x * A_xy)` -/
def hopPart (E : Edges) (x y : Nat) : Option Op :=
  match edgeA tol E x y with
  | none => none
  | some A => some (addOp tol (mulOp .qubit A (edgeB tol E y)) (mulOp .qubit (edgeB tol E x) A))

/-- `_two_body(edge_matrix_indices, p, q, r, s)` -/
def twoBody (E : Edges) (p q r s : Nat) : Option Op :=
  let nd := nDistinct4 p q r s
  let B := edgeB tol E
  if nd == 4 then
    match edgeA tol E p q, edgeA tol E r s with
    | some Apq, some Ars =>
      let poly0 := smul (-1) one
      let poly1 := subOp tol poly0 (mulOp .qubit (B p) (B q))
      let poly2 := addOp tol poly1 (mulOp .qubit (B p) (B r))
      let poly3 := addOp tol poly2 (mulOp .qubit (B p) (B s))
      let poly4 := addOp tol poly3 (mulOp .qubit (B q) (B r))
      let poly5 := addOp tol poly4 (mulOp .qubit (B q) (B s))
      let poly6 := subOp tol poly5 (mulOp .qubit (B r) (B s))
      let poly7 := subOp tol poly6 (mulOp .qubit (mulOp .qubit (mulOp .qubit (B p) (B q)) (B r)) (B s))
      some (iadd tol [] (mulOp .qubit (mulOp .qubit (smul eighthQ Apq) Ars) poly7))
    | _, _ => none
  else if nd == 3 then
    let build (x y z : Nat) (ph : GQ) : Option Op :=
      match hopPart tol E x y with
      | none => none
      | some h => some (iadd tol [] (smul quarterQ (mulOp .qubit (smul ph h) (subOp tol one (B z)))))
    if p == r then build q s p GQ.I
    else if p == s then build q r p (-GQ.I)
    else if q == r then build p s q (-GQ.I)
    else if q == s then build p r q GQ.I
    else some []
  else if nd == 2 then
    let prod := fun (x : Op) => smul quarterQ (mulOp .qubit x (subOp tol one (B q)))
    if p == s then some (iadd tol [] (prod (subOp tol one (B p))))
    else some (iadd tol [] (prod (smul (-1) (subOp tol one (B p)))))
  else some []

/-- `bravyi_kitaev_fast_interaction_op(iop)` for an `N`-orbital operator -/
def bksfOp (N : Nat) (const : GQ) (T1 : Nat → Nat → GQ) (T2 : Nat → Nat → Nat → Nat → GQ) : Option Op :=
  let E := edgeIndices N T1 T2
  (List.range N).foldl (fun acc p => (List.range N).foldl (fun acc q =>
    let acc : Option Op := match acc with
      | none => none
      | some op =>
        if T1 p q != 0 && decide (q ≤ p) then
          match oneBody tol E p q with
          | none => none
          | some t => some (iadd tol op (smul (T1 p q) t))
        else some op
    (List.range N).foldl (fun acc r => (List.range N).foldl (fun acc s =>
      match acc with
      | none => none
      | some op =>
        let c := T2 p q r s
        if c == 0 || p == q || r == s then some op else
        let nd := nDistinct4 p q r s
        let same := p == s && q == r
        if !same && nd == 4 && decide (min r s < min p q) then some op
        else if !same && nd != 4 && nd == 3 then
          match twoBody tol E p q r s with
          | none => none
          | some t => some (iadd tol op (smul (halfQ * c) t))
        else if !same && nd != 4 && nd != 3 && p != r && decide (q < p) then some op
        else
          match twoBody tol E p q r s with
          | none => none
          | some t => some (iadd tol op (smul c t))) acc) acc) acc) (some (mk .qubit [] const))

/-- `number_operator(iop, mode_number)`; `mode = none` sums over all modes -/
def numberOp (N : Nat) (T1 : Nat → Nat → GQ) (T2 : Nat → Nat → Nat → Nat → GQ) (mode : Option Nat) : Op :=
  let E := edgeIndices N T1 T2
  let term := fun i => smul halfQ (subOp tol one (edgeB tol E i))
  match mode with
  | none => (List.range N).foldl (fun acc i => iadd tol acc (term i)) []
  | some i => iadd tol [] (term i)

end

end Bksf
end Model
end OFV
