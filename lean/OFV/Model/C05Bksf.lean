/-
Model of the edge operators of `transforms/opconversions/bksf.py` (Bravyi-Kitaev superfast): `edge_operator_b`,
`edge_operator_aij`, for an arbitrary `edge_matrix_indices` array, given as the list of its columns
`(edge_matrix_indices[0][e], edge_matrix_indices[1][e])` (qubit `e` sits on edge `e`).  Import-free apart from the
Model of `SymbolicOperator` arithmetic.
-/
import OFV.Model.Symbolic

namespace OFV
namespace Model
namespace Bksf

abbrev Edges := List (Nat × Nat)

/-- `numpy.where(edge_matrix_indices == i)`: the (row, column) pairs, row 0 first, columns ascending -/
def whereEq (E : Edges) (i : Nat) : List (Nat × Nat) :=
  ((List.range E.length).filter fun e => (E.getD e (0, 0)).1 == i).map (fun e => (0, e))
  ++ ((List.range E.length).filter fun e => (E.getD e (0, 0)).2 == i).map (fun e => (1, e))

/-- insertion sort of qubit positions (`numpy.sort`) -/
def insertN (x : Nat) : List Nat → List Nat
  | [] => [x]
  | y :: r => if x ≤ y then x :: y :: r else y :: insertN x r

def sortN (l : List Nat) : List Nat := l.foldr insertN []

section
variable (tol : Rat)

/-- `edge_operator_b(edge_matrix_indices, i)` -/
def edgeB (E : Edges) (i : Nat) : Op :=
  let pos := sortN ((whereEq E i).map (·.2))
  iadd tol [] (mk .qubit (pos.map fun d => (d, 3)) 1)

/-- the other endpoint `edge_matrix_indices[int(not row)][column]` -/
def otherEnd (E : Edges) (rc : Nat × Nat) : Nat :=
  let e := E.getD rc.2 (0, 0)
  if rc.1 == 0 then e.2 else e.1

/-- `position_ij`: the last column whose set of endpoints is `{i, j}`; `none` for Python's `-1` -/
def positionIJ (E : Edges) (i j : Nat) : Option Nat :=
  (List.range E.length).foldl (fun acc e =>
    let ed := E.getD e (0, 0)
    if (ed.1 == i && ed.2 == j) || (ed.1 == j && ed.2 == i) then some e else acc) none

/-- the Pauli factors of `edge_operator_aij` in the order the code appends them -/
def aijFactors (E : Edges) (i j pos : Nat) : Term :=
  [(pos, 1)]
  ++ ((whereEq E i).filter fun rc => otherEnd E rc < j).map (fun rc => (rc.2, 3))
  ++ ((whereEq E j).filter fun rc => otherEnd E rc < i).map (fun rc => (rc.2, 3))

/-- `edge_operator_aij(edge_matrix_indices, i, j)`; `none` when there is no edge `{i, j}` (the library then
builds a factor on qubit `-1` and `QubitOperator` raises) -/
def edgeA (E : Edges) (i j : Nat) : Option Op :=
  match positionIJ E i j with
  | none => none
  | some pos =>
    let a := iadd tol [] (mk .qubit (aijFactors E i j pos) 1)
    some (if j < i then smul (-1) a else a)

end

end Bksf
end Model
end OFV
