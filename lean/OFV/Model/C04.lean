/-
Model of `transforms/opconversions/jordan_wigner.py` and
`transforms/opconversions/reverse_jordan_wigner.py`, function by function, on top
of the Model of `SymbolicOperator` arithmetic (`OFV.Model.Symbolic`): every
`QubitOperator(...)`, `*=`, `+=`, `-=` of the Python code is the corresponding
`mk`, `mulOp`, `iadd`, `isub` here (same order of operations, same dictionary
insertion order, same tolerance test).  Import-free.

Action codes: qubit 1 = X, 2 = Y, 3 = Z; fermion 1 = creation, 0 = annihilation.
-/
import OFV.Model.Symbolic

namespace OFV
namespace Model
namespace C04

def half : GQ := ⟨mkRat 1 2, 0⟩

/-- `tuple((z, 'Z') for z in range(lo, hi))` -/
def zs (lo hi : Nat) : Term := (List.range' lo (hi - lo)).map fun i => (i, 3)

/-- Python `0.5 * x` etc. for a real `x` -/
def rl (r : Rat) : GQ := ⟨r, 0⟩

section
variable (tol : Rat)

/-! ### `_jordan_wigner_fermion_operator` -/

/-- the value stored in `lookup_ladder_terms[(j, a)]`:
`pauli_x_component + pauli_y_component` (`__add__` = deepcopy, then `+=`). -/
def jwLadder (j a : Nat) : Op :=
  let z := zs 0 j
  let x := mk .qubit (z ++ [(j, 1)]) half
  let y := mk .qubit (z ++ [(j, 2)]) (if a != 0 then ⟨0, -(mkRat 1 2)⟩ else ⟨0, mkRat 1 2⟩)
  iadd tol x y

/-- the inner loop: `transformed_term = QubitOperator((), c)`, then `*=` the image of
every ladder operator from left to right.  (The lookup table is pure memoisation.) -/
def jwTerm (t : Term) (c : GQ) : Op :=
  t.foldl (fun w f => mulOp .qubit w (jwLadder tol f.1 f.2)) (mk .qubit [] c)

def jwFermion (A : Op) : Op :=
  A.foldl (fun acc (t, c) => iadd tol acc (jwTerm tol t c)) []

/-! ### `_jordan_wigner_majorana_operator` -/

def jwMajFactor (m : Nat) : Op :=
  let q := m / 2
  mk .qubit (zs 0 q ++ [(q, if m % 2 != 0 then 2 else 1)]) 1

def jwMajTerm (t : MTerm) (c : GQ) : Op :=
  t.foldl (fun w m => mulOp .qubit w (jwMajFactor m)) (mk .qubit [] c)

def jwMajorana (A : MOp) : Op :=
  A.foldl (fun acc (t, c) => iadd tol acc (jwMajTerm t c)) []

/-! ### `jordan_wigner_one_body` -/

/-- the loop `for c, (op_a, op_b) in [(re,'XX'), (re,'YY'), (im,'YX'), (-im,'XY')]` -/
def hopList (c : GQ) : List (Rat × Nat × Nat) :=
  [(c.re, 1, 1), (c.re, 2, 2), (c.im, 2, 1), (-c.im, 1, 2)]

def jwOneBody (p q : Nat) (c : GQ) : Op :=
  if p != q then
    let p' := if p > q then q else p
    let q' := if p > q then p else q
    let c' := if p > q then c.conj else c
    let ps := zs (p' + 1) q'
    (hopList c').foldl (fun acc (x, a, b) =>
      iadd tol acc (mk .qubit ([(p', a)] ++ ps ++ [(q', b)]) (rl (mkRat 1 2 * x)))) []
  else
    let r1 := iadd tol [] (mk .qubit [] (half * c))
    iadd tol r1 (mk .qubit [(p, 3)] (rl (-(mkRat 1 2)) * c))

/-! ### `jordan_wigner_two_body` -/

/-- `len(set([p, q, r, s]))` -/
def nDistinct (l : List Nat) : Nat := l.eraseDups.length

/-- `itertools.product('XY', repeat=4)` with X = 1, Y = 2 (last position fastest) -/
def xy4 : List (List Nat) :=
  [1, 2].flatMap fun a => [1, 2].flatMap fun b => [1, 2].flatMap fun c => [1, 2].map fun d => [a, b, c, d]

def countX (ops : List Nat) : Nat := (ops.filter (· == 1)).length

/-- `['XYXX', 'YXXX', 'YYXY', 'YYYX']` -/
def oddNeg : List (List Nat) := [[1, 2, 1, 1], [2, 1, 1, 1], [2, 2, 1, 2], [2, 2, 2, 1]]
/-- `['XXYY', 'YYXX']` -/
def evenPos : List (List Nat) := [[1, 1, 2, 2], [2, 2, 1, 1]]

/-- insertion sort of `(index, op)` pairs by index (indices are distinct here) -/
def sortPairs (l : List (Nat × Nat)) : List (Nat × Nat) := sortF l

/-- coefficient of the string `ops` in the four-distinct-indices branch -/
def coeff4 (c : GQ) (ops : List Nat) : Rat :=
  if countX ops % 2 != 0 then
    let x := mkRat 1 8 * c.im
    if oddNeg.contains ops then x * (-1) else x
  else
    let x := mkRat 1 8 * c.re
    if !(evenPos.contains ops) then x * (-1) else x

/-- "Sort operators" + "Compute operator strings" of the four-distinct-indices branch -/
def term4 (p q r s : Nat) (ops : List Nat) : Option Term :=
  match sortPairs ([p, q, r, s].zip ops) with
  | [(a, oa), (b, ob), (c', oc), (d, od)] =>
    some ([(a, oa)] ++ zs (a + 1) b ++ [(b, ob)] ++ [(c', oc)] ++ zs (c' + 1) d ++ [(d, od)])
  | _ => none

/-- "Identify equal tensor factors" of the three-distinct-indices branch: `(a, b, coefficient, c)` -/
def case3 (p q r s : Nat) (c : GQ) : Nat × Nat × GQ × Nat :=
  if p == r then
    (if q > s then (s, q, -(c.conj), p) else (q, s, -c, p))
  else if p == s then
    (if q > r then (r, q, c.conj, p) else (q, r, c, p))
  else if q == r then
    (if p > s then (s, p, c.conj, q) else (p, s, c, q))
  else
    (if p > r then (r, p, -(c.conj), q) else (p, r, -c, q))

/-- the sequence of operands that `jordan_wigner_two_body` adds (`true`: `+=`) or subtracts (`false`: `-=`)
to the initially empty `qubit_operator`, in program order -/
def twoBodyOps (p q r s : Nat) (c : GQ) : List (Bool × Op) :=
  if p == q || r == s then []
  else
    let k := nDistinct [p, q, r, s]
    if k == 4 then
      let c := if (decide (p > q)) != (decide (r > s)) then c * (rl (-1)) else c
      xy4.filterMap fun ops =>
        let coeff := coeff4 c ops
        if coeff == 0 then none else
        match term4 p q r s ops with
        | some operators => some (true, mk .qubit operators (rl coeff))
        | none => none
    else if k == 3 then
      let abcz := case3 p q r s c
      let a := abcz.1
      let b := abcz.2.1
      let c := abcz.2.2.1
      let z := abcz.2.2.2
      let ps := zs (a + 1) b
      let pauliZ := mk .qubit [(z, 3)] 1
      (hopList c).flatMap fun (x, oa, ob) =>
        if x == 0 then [] else
        let hop := mk .qubit ([(a, oa)] ++ ps ++ [(b, ob)]) (rl (x / 4))
        [(false, mulOp .qubit pauliZ hop), (true, hop)]
    else
      let coeff := if p == s then rl (-(mkRat 1 4)) * c else rl (mkRat 1 4) * c
      [(false, mk .qubit [] coeff), (true, mk .qubit [(p, 3)] coeff), (true, mk .qubit [(q, 3)] coeff),
       (false, mk .qubit [(min q p, 3), (max q p, 3)] coeff)]

/-- run a sequence of `+=` / `-=` on an initially empty operator -/
def foldSigned (ops : List (Bool × Op)) : Op :=
  ops.foldl (fun acc so => if so.1 then iadd tol acc so.2 else isub tol acc so.2) []

def jwTwoBody (p q r s : Nat) (c : GQ) : Op := foldSigned tol (twoBodyOps p q r s c)

/-! ### `_jordan_wigner_interaction_op` -/

/-- `itertools.combinations(l, 2)` -/
def combs2 {α} : List α → List (α × α)
  | [] => []
  | x :: r => r.map (fun y => (x, y)) ++ combs2 r

/-- `itertools.combinations(range(n), 2)` -/
def pairs (n : Nat) : List (Nat × Nat) := combs2 (List.range n)

/-- tensors are passed row-major; an out-of-range lookup cannot happen because the
loops run over the tensor size -/
def get1 (n : Nat) (t : List GQ) (p q : Nat) : GQ := t.getD (p * n + q) 0
def get2 (n : Nat) (t : List GQ) (p q r s : Nat) : GQ := t.getD (((p * n + q) * n + r) * n + s) 0

def jwInteractionOp (n : Nat) (const : GQ) (one two : List GQ) : Op :=
  let T1 := get1 n one
  let T2 := get2 n two
  let r0 := mk .qubit [] const
  let r1 := (List.range n).foldl (fun acc p => iadd tol acc (jwOneBody tol p p (T1 p p))) r0
  let r2 := (pairs n).foldl (fun acc (p, q) =>
    let c1 := half * (T1 p q + (T1 q p).conj)
    let acc := iadd tol acc (jwOneBody tol p q c1)
    let c2 := T2 p q p q - T2 p q q p - T2 q p p q + T2 q p q p
    iadd tol acc (jwTwoBody tol p q p q c2)) r1
  (combs2 (pairs n)).foldl (fun acc ((p, q), (r, s)) =>
    let c := half * (T2 p q r s + (T2 s r q p).conj - T2 p q s r - (T2 r s q p).conj
                     - T2 q p r s - (T2 s r p q).conj + T2 q p s r + (T2 r s p q).conj)
    iadd tol acc (jwTwoBody tol p q r s c)) r2

/-! ### `_jordan_wigner_diagonal_coulomb_hamiltonian`
`one`, `two` are the arrays stored in the object (after the constructor moved the
diagonal of `two_body` into `one_body`). -/

def jwDCH (n : Nat) (const : GQ) (one two : List GQ) : Op :=
  let T := get1 n one
  let V := get1 n two
  let r0 := mk .qubit [] const
  let r1 := (List.range n).foldl (fun acc p =>
    let c := T p p + V p p
    let acc := iadd tol acc (mk .qubit [(p, 3)] (rl (-(mkRat 1 2)) * c))
    iadd tol acc (mk .qubit [] (half * c))) r0
  (pairs n).foldl (fun acc (p, q) =>
    let re := (T p q).re
    let im := (T p q).im
    let ps := zs (p + 1) q
    let acc := iadd tol acc (mk .qubit ([(p, 1)] ++ ps ++ [(q, 1)]) (rl (mkRat 1 2 * re)))
    let acc := iadd tol acc (mk .qubit ([(p, 2)] ++ ps ++ [(q, 2)]) (rl (mkRat 1 2 * re)))
    let acc := iadd tol acc (mk .qubit ([(p, 2)] ++ ps ++ [(q, 1)]) (rl (mkRat 1 2 * im)))
    let acc := iadd tol acc (mk .qubit ([(p, 1)] ++ ps ++ [(q, 2)]) (rl (-(mkRat 1 2) * im)))
    let c := V p q
    let acc := iadd tol acc (mk .qubit [(p, 3), (q, 3)] (half * c))
    let acc := iadd tol acc (mk .qubit [(p, 3)] (rl (-(mkRat 1 2)) * c))
    let acc := iadd tol acc (mk .qubit [(q, 3)] (rl (-(mkRat 1 2)) * c))
    iadd tol acc (mk .qubit [] (half * c))) r1

/-! ### `reverse_jordan_wigner` -/

/-- "Get next non-identity operator acting below `working_qubit`":
`for w in reversed(key): if w[0] <= wq: pauli = w; break; else: pauli = None`.
`wq1 = working_qubit + 1` (so that `-1` is representable). -/
def nextPauli (key : Term) (wq1 : Nat) : Option Factor :=
  key.reverse.find? fun w => w.1 < wq1

/-- the `while pauli_operator is not None` loop; fuel = index of the first Pauli + 1
(the index strictly decreases). State: working term (single entry), accumulated
`transformed_term`. -/
def revLoop (tol : Rat) : Nat → Factor → Op → Op → Op
  | 0, _, _, acc => acc
  | fuel + 1, pauli, working, acc =>
    let j := pauli.1
    let (tp, working) : Op × Op :=
      if pauli.2 == 3 then
        -- FermionOperator(()) + number_operator(n_qubits, j, -2.0)
        (iadd tol (mk .fermion [] 1) (mk .fermion [(j, 1), (j, 0)] (rl (-2))), working)
      else
        let raising := mk .fermion [(j, 1)] 1
        let lowering := mk .fermion [(j, 0)] 1
        let raising := if pauli.2 == 2 then smul GQ.I raising else raising
        let lowering := if pauli.2 == 2 then smul (-GQ.I) lowering else lowering
        let tp := iadd tol raising lowering
        -- for j' in reversed(range(j)): working_term = z_term * working_term
        let working := (List.range j).reverse.foldl
          (fun w j' => mulOp .qubit (mk .qubit [(j', 3)] 1) w) working
        match working with
        | (key, coeff) :: rest => (smul coeff tp, (key, 1) :: rest)
        | [] => (tp, working)
    let key : Term := match working with | (k, _) :: _ => k | [] => []
    let acc := mulOp .fermion acc tp
    match nextPauli key j with
    | some p => revLoop tol fuel p working acc
    | none => acc

/-- the `transformed_term` of one Pauli string (before the overall coefficient is applied) -/
def revTerm (term : Term) : Op :=
  match term.getLast? with
  | none => mk .fermion [] 1
  | some last => revLoop tol (last.1 + 1) last (mk .qubit term 1) (mk .fermion [] 1)

def reverseJW (Q : Op) : Op :=
  Q.foldl (fun res (term, coeff) => iadd tol res (smul coeff (revTerm tol term))) []

end

/-! ### the exact regime, as a decidable run-time check
`+=` deletes an entry whose new value has `|v| < tol`.  A run is *exact* when every value deleted
this way is exactly 0 (then `+=` denotes the sum).  These functions replay the same run and report
whether it was exact; the driver evaluates them on every generated input (`c04.*_ok`), and the
operator-level theorems carry them as their only hypothesis. -/

def iaddStep (tol : Rat) (st : Op × Bool) (tc : Term × GQ) : Op × Bool :=
  let v := Dict.getD st.1 tc.1 0 + tc.2
  if GQ.isSmall tol v then (Dict.erase st.1 tc.1, st.2 && (v == 0)) else (Dict.set st.1 tc.1 v, st.2)

/-- was `a += b` exact? -/
def iaddOk (tol : Rat) (a b : Op) : Bool := (b.foldl (iaddStep tol) (a, true)).2

/-- `acc = 0; for img in imgs: acc += img` — were all the `+=` exact? -/
def sumOk (tol : Rat) (imgs : List Op) : Bool :=
  (imgs.foldl (fun (st : Op × Bool) img => (iadd tol st.1 img, st.2 && iaddOk tol st.1 img)) ([], true)).2

def jwFermionOk (tol : Rat) (A : Op) : Bool := sumOk tol (A.map fun tc => jwTerm tol tc.1 tc.2)
def jwMajoranaOk (tol : Rat) (A : MOp) : Bool := sumOk tol (A.map fun tc => jwMajTerm tc.1 tc.2)

/-- the single-string operators `jordan_wigner_one_body` adds up, in order -/
def oneBodyImgs (p q : Nat) (c : GQ) : List Op :=
  if p != q then
    let p' := if p > q then q else p
    let q' := if p > q then p else q
    let c' := if p > q then c.conj else c
    (hopList c').map fun (x, a, b) => mk .qubit ([(p', a)] ++ zs (p' + 1) q' ++ [(q', b)]) (rl (mkRat 1 2 * x))
  else
    [mk .qubit [] (half * c), mk .qubit [(p, 3)] (rl (-(mkRat 1 2)) * c)]

def jwOneBodyOk (tol : Rat) (p q : Nat) (c : GQ) : Bool := sumOk tol (oneBodyImgs p q c)

/-- `a -= b` is `a += (-b)` for the purpose of the exact-regime check -/
def plain (so : Bool × Op) : Op := if so.1 then so.2 else so.2.map fun tc => (tc.1, -tc.2)

def jwTwoBodyOk (tol : Rat) (p q r s : Nat) (c : GQ) : Bool := sumOk tol ((twoBodyOps p q r s c).map plain)

def reverseJWOk (tol : Rat) (Q : Op) : Bool := sumOk tol (Q.map fun tc => smul tc.2 (revTerm tol tc.1))

/-- `acc = acc0; for img in imgs: acc += img` — were all the `+=` exact? -/
def sumOkFrom (tol : Rat) (acc0 : Op) (imgs : List Op) : Bool :=
  (imgs.foldl (fun (st : Op × Bool) img => (iadd tol st.1 img, st.2 && iaddOk tol st.1 img)) (acc0, true)).2

/-- coefficients computed by `_jordan_wigner_interaction_op` -/
def iopC1 (n : Nat) (one : List GQ) (p q : Nat) : GQ := half * (get1 n one p q + (get1 n one q p).conj)
def iopC2 (n : Nat) (two : List GQ) (p q : Nat) : GQ :=
  get2 n two p q p q - get2 n two p q q p - get2 n two q p p q + get2 n two q p q p
def iopC4 (n : Nat) (two : List GQ) (p q r s : Nat) : GQ :=
  half * (get2 n two p q r s + (get2 n two s r q p).conj - get2 n two p q s r - (get2 n two r s q p).conj
          - get2 n two q p r s - (get2 n two s r p q).conj + get2 n two q p s r + (get2 n two r s p q).conj)

/-- the operands `_jordan_wigner_interaction_op` adds to `QubitOperator((), constant)`, in program order -/
def iopImgs (tol : Rat) (n : Nat) (one two : List GQ) : List Op :=
  (List.range n).map (fun p => jwOneBody tol p p (get1 n one p p))
  ++ (pairs n).flatMap (fun pq => [jwOneBody tol pq.1 pq.2 (iopC1 n one pq.1 pq.2),
                                   jwTwoBody tol pq.1 pq.2 pq.1 pq.2 (iopC2 n two pq.1 pq.2)])
  ++ (combs2 (pairs n)).map (fun x => jwTwoBody tol x.1.1 x.1.2 x.2.1 x.2.2 (iopC4 n two x.1.1 x.1.2 x.2.1 x.2.2))

/-- the operands `_jordan_wigner_diagonal_coulomb_hamiltonian` adds to `QubitOperator((), constant)` -/
def dchImgs (n : Nat) (one two : List GQ) : List Op :=
  (List.range n).flatMap (fun p =>
    [mk .qubit [(p, 3)] (rl (-(mkRat 1 2)) * (get1 n one p p + get1 n two p p)),
     mk .qubit [] (half * (get1 n one p p + get1 n two p p))])
  ++ (pairs n).flatMap (fun pq =>
    [mk .qubit ([(pq.1, 1)] ++ zs (pq.1 + 1) pq.2 ++ [(pq.2, 1)]) (rl (mkRat 1 2 * (get1 n one pq.1 pq.2).re)),
     mk .qubit ([(pq.1, 2)] ++ zs (pq.1 + 1) pq.2 ++ [(pq.2, 2)]) (rl (mkRat 1 2 * (get1 n one pq.1 pq.2).re)),
     mk .qubit ([(pq.1, 2)] ++ zs (pq.1 + 1) pq.2 ++ [(pq.2, 1)]) (rl (mkRat 1 2 * (get1 n one pq.1 pq.2).im)),
     mk .qubit ([(pq.1, 1)] ++ zs (pq.1 + 1) pq.2 ++ [(pq.2, 2)]) (rl (-(mkRat 1 2) * (get1 n one pq.1 pq.2).im)),
     mk .qubit [(pq.1, 3), (pq.2, 3)] (half * get1 n two pq.1 pq.2),
     mk .qubit [(pq.1, 3)] (rl (-(mkRat 1 2)) * get1 n two pq.1 pq.2),
     mk .qubit [(pq.2, 3)] (rl (-(mkRat 1 2)) * get1 n two pq.1 pq.2),
     mk .qubit [] (half * get1 n two pq.1 pq.2)])

def jwDCHOk (tol : Rat) (n : Nat) (const : GQ) (one two : List GQ) : Bool :=
  sumOkFrom tol (mk .qubit [] const) (dchImgs n one two)

/-- exact regime of `jordan_wigner(InteractionOperator)`: all inner helper calls and all outer `+=` exact -/
def jwInteractionOpOk (tol : Rat) (n : Nat) (const : GQ) (one two : List GQ) : Bool :=
  (List.range n).all (fun p => jwOneBodyOk tol p p (get1 n one p p))
  && (pairs n).all (fun pq => jwOneBodyOk tol pq.1 pq.2 (iopC1 n one pq.1 pq.2)
        && jwTwoBodyOk tol pq.1 pq.2 pq.1 pq.2 (iopC2 n two pq.1 pq.2))
  && (combs2 (pairs n)).all (fun x => jwTwoBodyOk tol x.1.1 x.1.2 x.2.1 x.2.2 (iopC4 n two x.1.1 x.1.2 x.2.1 x.2.2))
  && sumOkFrom tol (mk .qubit [] const) (iopImgs tol n one two)

end C04
end Model
end OFV
