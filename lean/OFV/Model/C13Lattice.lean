/-
C13 — Model of the lattice bond enumerations:
* `hubbard.py`: `_right_neighbor`, `_bottom_neighbor` and the site loop of
  `fermi_hubbard` / `bose_hubbard` (with the length-2 periodic de-duplication),
* `mean_field_dwave.py`: its own neighbour rule,
* `utils/lattice.py`: `HubbardSquareLattice.{horizontal,vertical,diagonal}_neighbors_iter`,
  `site_pairs_iter`, `spin_pairs_iter`, `to_spin_orbital_index`.
Executable, import-free.
-/
namespace OFV
namespace Model
namespace C13

/-- `_right_neighbor(site, x_dimension, y_dimension, periodic)` -/
def rightNeighbor (site x _y : Nat) (periodic : Bool) : Option Nat :=
  if x = 1 then none
  else if (site + 1) % x = 0 then
    if periodic then some (site + 1 - x) else none
  else some (site + 1)

/-- `_bottom_neighbor(site, x_dimension, y_dimension, periodic)` -/
def bottomNeighbor (site x y : Nat) (periodic : Bool) : Option Nat :=
  if y = 1 then none
  else if site + x + 1 > x * y then
    if periodic then some (site + x - x * y) else none
  else some (site + x)

/-- right and bottom neighbour of a site as used by the site loops of `hubbard.py`
("avoid double-counting edges when one of the dimensions is 2 and the system is periodic") -/
def siteNeighbors (site x y : Nat) (periodic : Bool) : Option Nat × Option Nat :=
  let r := rightNeighbor site x y periodic
  let b := bottomNeighbor site x y periodic
  let r := if x = 2 ∧ periodic = true ∧ site % 2 = 1 then none else r
  let b := if y = 2 ∧ periodic = true ∧ site ≥ x then none else b
  (r, b)

def siteBonds (x y : Nat) (periodic : Bool) (site : Nat) : List (Nat × Nat) :=
  let nb := siteNeighbors site x y periodic
  nb.1.toList.map (fun n => (site, n)) ++ nb.2.toList.map (fun n => (site, n))

/-- all bonds `(site, neighbour)` visited by the site loop, in loop order -/
def bonds (x y : Nat) (periodic : Bool) : List (Nat × Nat) :=
  (List.range (x * y)).flatMap (siteBonds x y periodic)

/-- neighbours used by `mean_field_dwave` (right, bottom); the model has its own rule -/
def dwaveNeighbors (site x y : Nat) (periodic : Bool) : Option Nat × Option Nat :=
  let n := x * y
  let right := site + 1
  let bottom := site + x
  let right := if periodic ∧ x > 2 ∧ (site + 1) % x = 0 then right - x else right
  let bottom := if periodic ∧ y > 2 ∧ site + x + 1 > n then bottom - x * y else bottom
  (if (site + 1) % x ≠ 0 ∨ (periodic ∧ x > 2) then some right else none,
   if site + x + 1 ≤ n ∨ (periodic ∧ y > 2) then some bottom else none)

def dwaveSiteBonds (x y : Nat) (periodic : Bool) (site : Nat) : List (Nat × Nat) :=
  let nb := dwaveNeighbors site x y periodic
  nb.1.toList.map (fun n => (site, n)) ++ nb.2.toList.map (fun n => (site, n))

def dwaveBonds (x y : Nat) (periodic : Bool) : List (Nat × Nat) :=
  (List.range (x * y)).flatMap (dwaveSiteBonds x y periodic)

/-! ### `HubbardSquareLattice` -/

structure Lattice where
  x : Nat
  y : Nat
  nDofs : Nat
  spinless : Bool
  periodic : Bool
deriving Repr

namespace Lattice

def nSites (l : Lattice) : Nat := l.x * l.y
def nSpinValues (l : Lattice) : Nat := if l.spinless then 1 else 2
def nSpinOrbitalsPerSite (l : Lattice) : Nat := l.nDofs * l.nSpinValues

/-- `to_spin_orbital_index(site_index, dof_index, spin_index)` -/
def toSpinOrbitalIndex (l : Lattice) (site dof spin : Nat) : Nat :=
  site * l.nSpinOrbitalsPerSite + dof * l.nSpinValues + spin

/-- `to_site_index((x, y))` -/
def toSiteIndex (l : Lattice) (cx cy : Nat) : Nat := cx + cy * l.x

/-- `dim - (dim <= 2 or not periodic)` -/
def edgesPer (dim : Nat) (periodic : Bool) : Nat :=
  dim - (if dim ≤ 2 ∨ periodic = false then 1 else 0)

def emit (ordered : Bool) (i j : Nat) : List (Nat × Nat) :=
  if ordered then [(i, j), (j, i)] else [(i, j)]

/-- `horizontal_neighbors_iter(ordered)` -/
def horizontalNeighbors (l : Lattice) (ordered : Bool) : List (Nat × Nat) :=
  (List.range (edgesPer l.x l.periodic)).flatMap fun cx =>
    (List.range l.y).flatMap fun cy =>
      emit ordered (l.toSiteIndex cx cy) (l.toSiteIndex ((cx + 1) % l.x) cy)

/-- `vertical_neighbors_iter(ordered)` -/
def verticalNeighbors (l : Lattice) (ordered : Bool) : List (Nat × Nat) :=
  (List.range (edgesPer l.y l.periodic)).flatMap fun cy =>
    (List.range l.x).flatMap fun cx =>
      emit ordered (l.toSiteIndex cx cy) (l.toSiteIndex cx ((cy + 1) % l.y))

/-- `neighbors_iter(ordered)` = chain(horizontal, vertical) -/
def neighbors (l : Lattice) (ordered : Bool) : List (Nat × Nat) :=
  l.horizontalNeighbors ordered ++ l.verticalNeighbors ordered

/-- `diagonal_neighbors_iter(ordered)`: the two diagonals of the plaquette with corners
`(x, y)` and `(x + 1, y + 1)`, indices taken mod the dimensions -/
def diagonalNeighbors (l : Lattice) (ordered : Bool) : List (Nat × Nat) :=
  (List.range (edgesPer l.x l.periodic)).flatMap fun cx =>
    (List.range (edgesPer l.y l.periodic)).flatMap fun cy =>
      [(cy, cy + 1), (cy + 1, cy)].flatMap fun (yl, yr) =>
        emit ordered (l.toSiteIndex cx (yl % l.y)) (l.toSiteIndex ((cx + 1) % l.x) (yr % l.y))

/-- edge type codes: 0 onsite, 1 neighbor, 2 diagonal_neighbor, 3 horizontal_neighbor,
4 vertical_neighbor -/
def sitePairs (l : Lattice) (edgeType : Nat) (ordered : Bool) : List (Nat × Nat) :=
  match edgeType with
  | 0 => (List.range l.nSites).map fun i => (i, i)
  | 1 => l.neighbors ordered
  | 2 => l.diagonalNeighbors ordered
  | 3 => l.horizontalNeighbors ordered
  | _ => l.verticalNeighbors ordered

/-- `spin_pairs_iter(spin_pairs, ordered)`; codes: 0 ALL, 1 SAME, 2 DIFF
(`itertools.product` / `combinations_with_replacement` / `permutations` / `combinations`
over `range(n_spin_values)`) -/
def spinPairs (l : Lattice) (sp : Nat) (ordered : Bool) : List (Nat × Nat) :=
  let r := List.range l.nSpinValues
  match sp with
  | 0 => r.flatMap fun s => (r.filter fun t => ordered || s ≤ t).map fun t => (s, t)
  | 1 => r.map fun s => (s, s)
  | _ => r.flatMap fun s => (r.filter fun t => if ordered then s != t else s < t).map fun t => (s, t)

end Lattice

end C13
end Model
end OFV
