/-
Exact-regime flags for the Model of `bksf.number_operator`: every `+=` / `-=` of the run either stored a coefficient
above the tolerance or cancelled to exactly zero.
-/
import OFV.Model.C05Bksf
import OFV.Model.C04

namespace OFV
namespace Model
namespace Bksf

/-- `1 - B_i` was exact -/
def numberTermOk (tol : Rat) (E : Edges) (i : Nat) : Bool :=
  C04.iaddOk tol one ((edgeB tol E i).map fun tc => (tc.1, -tc.2))

/-- were all the `+=` / `-=` of `number_operator(iop, mode)` exact? -/
def numberOk (tol : Rat) (N : Nat) (T1 : Nat → Nat → GQ) (T2 : Nat → Nat → Nat → Nat → GQ) (mode : Option Nat) : Bool :=
  let E := edgeIndices N T1 T2
  let term := fun i => smul halfQ (subOp tol one (edgeB tol E i))
  match mode with
  | none => (List.range N).all (numberTermOk tol E) && C04.sumOk tol ((List.range N).map term)
  | some i => numberTermOk tol E i && C04.iaddOk tol [] (term i)

/-- were the `+` and the final accumulation of `_one_body(edge_matrix_indices, p, q)` exact? -/
def oneBodyOk (tol : Rat) (E : Edges) (p q : Nat) : Bool :=
  if p != q then
    match edgeA tol E (min p q) (max p q) with
    | none => true
    | some A =>
      let l := mulOp .qubit A (edgeB tol E (max p q))
      let r := mulOp .qubit (edgeB tol E (min p q)) A
      C04.iaddOk tol l r && C04.iaddOk tol [] (smul (⟨0, -(mkRat 1 2)⟩ : GQ) (addOp tol l r))
  else
    numberTermOk tol E p && C04.iaddOk tol [] (smul halfQ (subOp tol one (edgeB tol E p)))

end Bksf
end Model
end OFV
