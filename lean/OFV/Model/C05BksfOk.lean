/-
Exact-regime flags for the Model of `bksf.number_operator`: every `+=` / `-=` of the run either stored a coefficient
above the tolerance or cancelled to exactly zero.
-/
import OFV.Model.C05Bksf
import OFV.Model.C04

namespace OFV
namespace Model
namespace Bksf

/-- `1 - B_i` was exact -/
def numberTermOk (tol : Rat) (E : Edges) (i : Nat) : Bool :=
  C04.iaddOk tol one ((edgeB tol E i).map fun tc => (tc.1, -tc.2))

/-- were all the `+=` / `-=` of `number_operator(iop, mode)` exact? -/
def numberOk (tol : Rat) (N : Nat) (T1 : Nat → Nat → GQ) (T2 : Nat → Nat → Nat → Nat → GQ) (mode : Option Nat) : Bool :=
  let E := edgeIndices N T1 T2
  let term := fun i => smul halfQ (subOp tol one (edgeB tol E i))
  match mode with
  | none => (List.range N).all (numberTermOk tol E) && C04.sumOk tol ((List.range N).map term)
  | some i => numberTermOk tol E i && C04.iaddOk tol [] (term i)

/-- were the `+` and the final accumulation of `_one_body(edge_matrix_indices, p, q)` exact? -/
def oneBodyOk (tol : Rat) (E : Edges) (p q : Nat) : Bool :=
  if p != q then
    match edgeA tol E (min p q) (max p q) with
    | none => true
    | some A =>
      let l := mulOp .qubit A (edgeB tol E (max p q))
      let r := mulOp .qubit (edgeB tol E (min p q)) A
      C04.iaddOk tol l r && C04.iaddOk tol [] (smul (⟨0, -(mkRat 1 2)⟩ : GQ) (addOp tol l r))
  else
    numberTermOk tol E p && C04.iaddOk tol [] (smul halfQ (subOp tol one (edgeB tol E p)))

/-- `-b` as stored by `a -= b` -/
def negOp (b : Op) : Op := b.map fun tc => (tc.1, -tc.2)

/-- the seven products `B_x B_y`, ..., `B_p B_q B_r B_s` of the four-index formula, in the order of the code -/
def fourMonomials (tol : Rat) (E : Edges) (p q r s : Nat) : List Op :=
  let B := edgeB tol E
  [mulOp .qubit (B p) (B q), mulOp .qubit (B p) (B r), mulOp .qubit (B p) (B s), mulOp .qubit (B q) (B r),
   mulOp .qubit (B q) (B s), mulOp .qubit (B r) (B s),
   mulOp .qubit (mulOp .qubit (mulOp .qubit (B p) (B q)) (B r)) (B s)]

/-- were all the `+` / `-` and the final accumulation of `_two_body` (four distinct indices) exact? -/
def twoBody4Ok (tol : Rat) (E : Edges) (p q r s : Nat) : Bool :=
  let B := edgeB tol E
  match edgeA tol E p q, edgeA tol E r s with
  | some Apq, some Ars =>
    let poly0 := smul (-1) one
    let poly1 := subOp tol poly0 (mulOp .qubit (B p) (B q))
    let poly2 := addOp tol poly1 (mulOp .qubit (B p) (B r))
    let poly3 := addOp tol poly2 (mulOp .qubit (B p) (B s))
    let poly4 := addOp tol poly3 (mulOp .qubit (B q) (B r))
    let poly5 := addOp tol poly4 (mulOp .qubit (B q) (B s))
    let poly6 := subOp tol poly5 (mulOp .qubit (B r) (B s))
    let poly7 := subOp tol poly6 (mulOp .qubit (mulOp .qubit (mulOp .qubit (B p) (B q)) (B r)) (B s))
    C04.iaddOk tol poly0 (negOp (mulOp .qubit (B p) (B q)))
    && C04.iaddOk tol poly1 (mulOp .qubit (B p) (B r))
    && C04.iaddOk tol poly2 (mulOp .qubit (B p) (B s))
    && C04.iaddOk tol poly3 (mulOp .qubit (B q) (B r))
    && C04.iaddOk tol poly4 (mulOp .qubit (B q) (B s))
    && C04.iaddOk tol poly5 (negOp (mulOp .qubit (B r) (B s)))
    && C04.iaddOk tol poly6 (negOp (mulOp .qubit (mulOp .qubit (mulOp .qubit (B p) (B q)) (B r)) (B s)))
    && C04.iaddOk tol [] (mulOp .qubit (mulOp .qubit (smul eighthQ Apq) Ars) poly7)
  | _, _ => true

/-- the selection of `_two_body` for three distinct indices: hopping between `x` and `y`, spectator `z`, phase -/
def threeIdx (p q r s : Nat) : Nat × Nat × Nat × GQ :=
  if p == r then (q, s, p, GQ.I)
  else if p == s then (q, r, p, -GQ.I)
  else if q == r then (p, s, q, -GQ.I)
  else (p, r, q, GQ.I)

/-- were all the `+` / `-` and the final accumulation of `_two_body` (three distinct indices) exact? -/
def twoBody3Ok (tol : Rat) (E : Edges) (p q r s : Nat) : Bool :=
  let x := (threeIdx p q r s).1
  let y := (threeIdx p q r s).2.1
  let z := (threeIdx p q r s).2.2.1
  let ph := (threeIdx p q r s).2.2.2
  match edgeA tol E x y with
  | none => true
  | some A =>
    let h := addOp tol (mulOp .qubit A (edgeB tol E y)) (mulOp .qubit (edgeB tol E x) A)
    C04.iaddOk tol (mulOp .qubit A (edgeB tol E y)) (mulOp .qubit (edgeB tol E x) A)
    && numberTermOk tol E z
    && C04.iaddOk tol [] (smul quarterQ (mulOp .qubit (smul ph h) (subOp tol one (edgeB tol E z))))

/-- the operator `_two_body` accumulates for two distinct indices -/
def twoBody2Pre (tol : Rat) (E : Edges) (p q s : Nat) : Op :=
  let x := if p == s then subOp tol one (edgeB tol E p) else smul (-1) (subOp tol one (edgeB tol E p))
  smul quarterQ (mulOp .qubit x (subOp tol one (edgeB tol E q)))

/-- were all the `-` and the final accumulation of `_two_body` (two distinct indices) exact? -/
def twoBody2Ok (tol : Rat) (E : Edges) (p q s : Nat) : Bool :=
  numberTermOk tol E p && numberTermOk tol E q && C04.iaddOk tol [] (twoBody2Pre tol E p q s)

end Bksf
end Model
end OFV
