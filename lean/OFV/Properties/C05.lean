import OFV.Model.C05
import OFV.Spec.C05

namespace OFV.C05

end OFV.C05
