/-
C05 — Bravyi-Kitaev: property theorems.  `enc = Spec.C05.enc .bk n` is the parity-of-block encoding of
an occupation mask (defined in the Spec with an arithmetic `lowbit`, no bit tricks);
`⟨x| Q |e⟩ = GV.coeff (applyOp .qubit Q [e]) [x]` is the Spec's own evaluation (what the oracle
`c05.bk_check` runs on the implementation's outputs).  Model functions are the ones `ofv-driver`
executes (`OFV.Model.C05`, mirroring bravyi_kitaev.py).  All statements hold for every number of
qubits `n` (not only powers of two) and every index.
-/
import OFV.Model.C05
import OFV.Spec.C05
import OFV.Proofs.C05Term
import OFV.Proofs.C05Maj
import OFV.Proofs.C05Srl
import OFV.Proofs.C05TreeLadder
import OFV.Proofs.C05Car
import OFV.Proofs.C05SrlAll
import OFV.Proofs.C05Iop8
import OFV.Proofs.C05Bksf
import OFV.Proofs.C05BksfNum
import OFV.Proofs.C05BksfTwo
import OFV.Proofs.C05BksfTwo2
import OFV.Properties.C04
import OFV.Proofs.C05Mul

namespace OFV.C05
open OFV OFV.Spec OFV.Model OFV.Model.C05 OFV.Sem OFV.BK OFV.BKT

/-- the bit tricks: `index & -index` is the largest power of two dividing `index` (the Spec's
arithmetic `lowbit`), and `(k + 1) & k` is the start of the block stored on qubit `k`. -/
theorem bk_bit_tricks (i k : Nat) (hi : 0 < i) :
    Model.C05.lowbit i = Spec.C05.lowbit i ∧ clearLow i = i - Spec.C05.lowbit i
      ∧ clearLow (k + 1) = Spec.C05.loBK k := by
  refine ⟨?_, ?_, clearLow_succ_eq_loBK k⟩
  · rw [lowbit_eq i hi, spec_lowbit i hi]
  · rw [clearLow_eq, spec_lowbit i hi]

/-- **`_update_set` is correct for every `n`**: it is exactly the set of qubits `k`, `j < k < n`, whose
block `[lo k, k]` contains `j` (the qubits to flip besides `j` when mode `j` is flipped). -/
theorem bk_update_set_correct (j n k : Nat) :
    k ∈ updateSet j n ↔ (j < k ∧ k < n ∧ Spec.C05.loBK k ≤ j) := by
  rw [updateSet_mem, ← clearLow_succ_eq_loBK]; rfl

/-- **`_parity_set` is correct**: the encoded bits over `_parity_set(j)` have the parity of the number of
occupied modes below `j` (every `n`, `j < n`, every occupation mask). -/
theorem bk_parity_set_correct (n s j : Nat) (hj : j < n) :
    ((paritySet j).countP fun k => (Spec.C05.enc .bk n s).testBit k) % 2 = countBelow s j % 2 :=
  paritySet_parity n s j hj

/-- **`_occupation_set` is correct**: the encoded bits over `_occupation_set(j)` have the parity of the
occupation of mode `j` itself. -/
theorem bk_occupation_set_correct (n s j : Nat) (hj : j < n) :
    ((occupationSet j).countP fun k => (Spec.C05.enc .bk n s).testBit k) % 2 = if s.testBit j then 1 else 0 :=
  occupationSet_parity n s j hj

/-- flipping the qubits of `_update_set(j) ∪ {j}` turns `enc s` into `enc (s with mode j flipped)` -/
theorem bk_update_flips (n s j : Nat) (hj : j < n) :
    (insertS j (updateSet j n)).foldr (fun k acc => acc ^^^ (1 <<< k)) (Spec.C05.enc .bk n s)
      = Spec.C05.enc .bk n (s ^^^ (1 <<< j)) :=
  enc_flip n s j hj _ (nodup_of_sorted (updateSet'_sorted j n)) (fun k => updateSet'_mem j n k hj)

/-- the encoding is injective on all occupation masks (so it is a relabelling of basis states; the
all-zero mask is encoded as the all-zero register) -/
theorem bk_enc_injective (n s s' : Nat) (h : Spec.C05.enc .bk n s = Spec.C05.enc .bk n s') : s = s' :=
  enc_injective n s s' h

/-- **BK of a term is exact** (`_transform_operator_term`): for every `n`, every product `t` of ladder
operators on modes `< n` (any length, repetitions), coefficient `c` and occupation masks `s, s'`:
`⟨enc s'| bk(c·t) |enc s⟩ = ⟨s'| c·t |s⟩` — JW conjugated by the relabelling `enc`, phases included. -/
theorem bk_term_exact (tol : Rat) (htol : tol * tol ≤ 1 / 4) (n : Nat) (t : List (Nat × Nat))
    (ht : ∀ f ∈ t, f.1 < n ∧ f.2 ≤ 1) (c : GQ) (s s' : Nat) :
    GV.coeff (applyOp .qubit (bkTerm tol n t c) [Spec.C05.enc .bk n s]) [Spec.C05.enc .bk n s']
      = GV.coeff (applyOp .fermion [(t, c)] [s]) [s'] := by
  change den .qubit _ _ _ = den .fermion _ _ _
  rw [bkTerm_den tol htol n t ht, den_cons, den_nil, add_zero, termCoef_fermion]
  cases actFTerm t s with
  | none => simp
  | some km =>
    obtain ⟨k, s''⟩ := km
    simp only
    by_cases h : s'' = s'
    · subst h; simp
    · have : ¬ Spec.C05.enc .bk n s'' = Spec.C05.enc .bk n s' := fun he => h (enc_injective n _ _ he)
      simp [h, this]

/-- … and the transformed term maps encoded states to encoded states only: a target `x` that is not an
encoded mask gets coefficient 0. -/
theorem bk_term_support (tol : Rat) (htol : tol * tol ≤ 1 / 4) (n : Nat) (t : List (Nat × Nat))
    (ht : ∀ f ∈ t, f.1 < n ∧ f.2 ≤ 1) (c : GQ) (s x : Nat) (hx : ∀ s', Spec.C05.enc .bk n s' ≠ x) :
    GV.coeff (applyOp .qubit (bkTerm tol n t c) [Spec.C05.enc .bk n s]) [x] = 0 := by
  change den .qubit _ _ _ = 0
  rw [bkTerm_den tol htol n t ht]
  cases actFTerm t s with
  | none => rfl
  | some km => obtain ⟨k, s''⟩ := km; simp [hx s'']

/-- **`bravyi_kitaev(FermionOperator, n)` is exact** for every `n ≥` the operator's size: on every run in
the exact regime (`bkFermionOk`: no non-zero value deleted by the tolerance test of `+=`; evaluated by the
driver on every generated input) `⟨enc s'| bk(A) |enc s⟩ = ⟨s'| A |s⟩` for all occupation masks. -/
theorem bk_exact (tol : Rat) (htol : tol * tol ≤ 1 / 4) (n : Nat) (A : Model.Op)
    (hA : ∀ tc ∈ A, ∀ f ∈ tc.1, f.1 < n ∧ f.2 ≤ 1) (hok : bkFermionOk tol n A = true) (s s' : Nat) :
    GV.coeff (applyOp .qubit (bkFermion tol n A) [Spec.C05.enc .bk n s]) [Spec.C05.enc .bk n s']
      = GV.coeff (applyOp .fermion A [s]) [s'] := by
  change den .qubit _ _ _ = den .fermion _ _ _
  have e : bkFermion tol n A = (A.map fun tc => bkTerm tol n tc.1 tc.2).foldl (fun acc img => iadd tol acc img) [] := by
    unfold bkFermion; rw [List.foldl_map]
  rw [e, den_sum_ok .qubit tol _ _ _ hok, den_eq_sum, List.map_map]
  congr 1
  apply List.map_congr_left
  intro tc htc
  have := bk_term_exact tol htol n tc.1 (hA tc htc) tc.2 s s'
  change den .qubit _ _ _ = den .fermion _ _ _ at this
  simp only [Function.comp]
  rw [this, den_cons, den_nil, add_zero]

/-- **BK of a Majorana term is exact** (`_transform_majorana_term`): for every `n` and every list of Majorana
indices `m` with `m / 2 < n`: `⟨enc s'| bk(c·γ_{m1}…γ_{mk}) |enc s⟩ = ⟨s'| c·γ_{m1}…γ_{mk} |s⟩`. -/
theorem bk_majorana_term_exact (n : Nat) (t : List Nat) (ht : ∀ m ∈ t, m / 2 < n) (c : GQ) (s s' : Nat) :
    GV.coeff (applyOp .qubit (bkMajTerm n t c) [Spec.C05.enc .bk n s]) [Spec.C05.enc .bk n s']
      = GV.coeff (applyOp .majorana [(t.map fun i => (i, 0), c)] [s]) [s'] := by
  change den .qubit _ _ _ = den .majorana _ _ _
  rw [bkMajTerm_den n t ht, den_cons, den_nil, add_zero, termCoef_majorana]
  by_cases h : (actMTerm t s).2 = s'
  · simp [h]
  · have : ¬ Spec.C05.enc .bk n (actMTerm t s).2 = Spec.C05.enc .bk n s' := fun he => h (enc_injective n _ _ he)
    simp [h, this]

/-- **`bravyi_kitaev(MajoranaOperator, n)` is exact** on every exact run -/
theorem bk_majorana_exact (tol : Rat) (n : Nat) (A : Model.MOp) (hA : ∀ tc ∈ A, ∀ m ∈ tc.1, m / 2 < n)
    (hok : bkMajoranaOk tol n A = true) (s s' : Nat) :
    GV.coeff (applyOp .qubit (bkMajorana tol n A) [Spec.C05.enc .bk n s]) [Spec.C05.enc .bk n s']
      = GV.coeff (applyOp .majorana (A.map fun tc => (tc.1.map fun i => (i, 0), tc.2)) [s]) [s'] := by
  change den .qubit _ _ _ = den .majorana _ _ _
  have e : bkMajorana tol n A = (A.map fun tc => bkMajTerm n tc.1 tc.2).foldl (fun acc img => iadd tol acc img) [] := by
    unfold bkMajorana; rw [List.foldl_map]
  rw [e, den_sum_ok .qubit tol _ _ _ hok, den_eq_sum, List.map_map, List.map_map]
  congr 1
  apply List.map_congr_left
  intro tc htc
  have := bk_majorana_term_exact n tc.1 (hA tc htc) tc.2 s s'
  change den .qubit _ _ _ = den .majorana _ _ _ at this
  simp only [Function.comp]
  rw [this, den_cons, den_nil, add_zero]

/-- **the guards of `_seeley_richard_love` are exhaustive**: for every `i` and every `j < n` one of the
cases 0-10 fires (the combination "`i` even, `j` odd, `i ∈ P(j)`, `j ∉ U(i)`" missing from the `elif`
chain is impossible: an even `i` in `P(j)` forces `j = i + 1 ∈ U(i)`), so the function never returns
the two empty lists it would return if no branch fired. -/
theorem srl_cases_exhaustive (i j n : Nat) (coef : GQ) (hj : j < n) : (srl i j coef n).1 ≤ 10 :=
  srlTag_le i j n hj


/-! ### `_seeley_richard_love`: every branch is the Bravyi-Kitaev image of `c a†_i a_j` -/

/-- bridge: an operator that agrees with `bravyi_kitaev(c a†_i a_j)` on encoded states has the fermionic
matrix elements -/
theorem srl_of_den (tol : Rat) (htol : tol * tol ≤ 1 / 4) (n i j : Nat) (hi : i < n) (hj : j < n) (c : GQ)
    (Q : Model.Op) (s s' : Nat)
    (h : den .qubit Q [Spec.C05.enc .bk n s] [Spec.C05.enc .bk n s']
      = den .qubit (bkTerm tol n [(i, 1), (j, 0)] c) [Spec.C05.enc .bk n s] [Spec.C05.enc .bk n s']) :
    GV.coeff (applyOp .qubit Q [Spec.C05.enc .bk n s]) [Spec.C05.enc .bk n s']
      = GV.coeff (applyOp .fermion [([(i, 1), (j, 0)], c)] [s]) [s'] := by
  have := bk_term_exact tol htol n [(i, 1), (j, 0)]
    (by intro f hf; simp at hf; rcases hf with rfl | rfl <;> simp <;> omega) c s s'
  rw [← this]
  exact h

/-- **case 0 of `_seeley_richard_love`** (i = j: the number operator `c a†_i a_i = (c/2)(1 − Z_{O(i)})`): whenever this branch fires, the emitted strings with their
coefficients act on every encoded state like `c a†_i a_j` — all `n`, all `i, j < n`, every complex `c`, on every
exact run of `_qubit_operator_creation` (`srlOk`, evaluated by the driver on every generated input). -/
theorem srl_sound_case_0 (tol : Rat) (htol : tol * tol ≤ 1 / 4) (n i j : Nat) (hi : i < n) (hj : j < n) (c : GQ)
    (htag : (srl i j c n).1 = 0) (hok : srlOk tol i j c n = true) (s s' : Nat) :
    GV.coeff (applyOp .qubit (srlOp tol i j c n) [Spec.C05.enc .bk n s]) [Spec.C05.enc .bk n s']
      = GV.coeff (applyOp .fermion [([(i, 1), (j, 0)], c)] [s]) [s'] :=
  srl_of_den tol htol n i j hi hj c _ s s' (srl_all tol htol n i j hi hj c hok s _)

/-- **case 1 of `_seeley_richard_love`** (i, j even: `left = X_{U∖α} Y_α Z_{P0∖α}` times `Y_j X_i, X_j Y_i, X_j X_i, Y_j Y_i`, coefficient lists for `i < j` and `i > j`): whenever this branch fires, the emitted strings with their
coefficients act on every encoded state like `c a†_i a_j` — all `n`, all `i, j < n`, every complex `c`, on every
exact run of `_qubit_operator_creation` (`srlOk`, evaluated by the driver on every generated input). -/
theorem srl_sound_case_1 (tol : Rat) (htol : tol * tol ≤ 1 / 4) (n i j : Nat) (hi : i < n) (hj : j < n) (c : GQ)
    (htag : (srl i j c n).1 = 1) (hok : srlOk tol i j c n = true) (s s' : Nat) :
    GV.coeff (applyOp .qubit (srlOp tol i j c n) [Spec.C05.enc .bk n s]) [Spec.C05.enc .bk n s']
      = GV.coeff (applyOp .fermion [([(i, 1), (j, 0)], c)] [s]) [s'] :=
  srl_of_den tol htol n i j hi hj c _ s s' (srl_all tol htol n i j hi hj c hok s _)

/-- **case 2 of `_seeley_richard_love`** (i odd, j even, i ∉ P(j): two strings over `P0∖α`, two over `P2∖α`, both orders): whenever this branch fires, the emitted strings with their
coefficients act on every encoded state like `c a†_i a_j` — all `n`, all `i, j < n`, every complex `c`, on every
exact run of `_qubit_operator_creation` (`srlOk`, evaluated by the driver on every generated input). -/
theorem srl_sound_case_2 (tol : Rat) (htol : tol * tol ≤ 1 / 4) (n i j : Nat) (hi : i < n) (hj : j < n) (c : GQ)
    (htag : (srl i j c n).1 = 2) (hok : srlOk tol i j c n = true) (s s' : Nat) :
    GV.coeff (applyOp .qubit (srlOp tol i j c n) [Spec.C05.enc .bk n s]) [Spec.C05.enc .bk n s']
      = GV.coeff (applyOp .fermion [([(i, 1), (j, 0)], c)] [s]) [s'] :=
  srl_of_den tol htol n i j hi hj c _ s s' (srl_all tol htol n i j hi hj c hok s _)

/-- **case 3 of `_seeley_richard_love`** (i odd, j even, i ∈ P(j): strings over `P0∖{i}` and `P2∖{i}`): whenever this branch fires, the emitted strings with their
coefficients act on every encoded state like `c a†_i a_j` — all `n`, all `i, j < n`, every complex `c`, on every
exact run of `_qubit_operator_creation` (`srlOk`, evaluated by the driver on every generated input). -/
theorem srl_sound_case_3 (tol : Rat) (htol : tol * tol ≤ 1 / 4) (n i j : Nat) (hi : i < n) (hj : j < n) (c : GQ)
    (htag : (srl i j c n).1 = 3) (hok : srlOk tol i j c n = true) (s s' : Nat) :
    GV.coeff (applyOp .qubit (srlOp tol i j c n) [Spec.C05.enc .bk n s]) [Spec.C05.enc .bk n s']
      = GV.coeff (applyOp .fermion [([(i, 1), (j, 0)], c)] [s]) [s'] :=
  srl_of_den tol htol n i j hi hj c _ s s' (srl_all tol htol n i j hi hj c hok s _)

/-- **case 4 of `_seeley_richard_love`** (i even, j odd, i ∉ P(j), j ∉ U(i): strings over `P0∖α` and `P1∖α`, both orders): whenever this branch fires, the emitted strings with their
coefficients act on every encoded state like `c a†_i a_j` — all `n`, all `i, j < n`, every complex `c`, on every
exact run of `_qubit_operator_creation` (`srlOk`, evaluated by the driver on every generated input). -/
theorem srl_sound_case_4 (tol : Rat) (htol : tol * tol ≤ 1 / 4) (n i j : Nat) (hi : i < n) (hj : j < n) (c : GQ)
    (htag : (srl i j c n).1 = 4) (hok : srlOk tol i j c n = true) (s s' : Nat) :
    GV.coeff (applyOp .qubit (srlOp tol i j c n) [Spec.C05.enc .bk n s]) [Spec.C05.enc .bk n s']
      = GV.coeff (applyOp .fermion [([(i, 1), (j, 0)], c)] [s]) [s'] :=
  srl_of_den tol htol n i j hi hj c _ s s' (srl_all tol htol n i j hi hj c hok s _)

/-- **case 5 of `_seeley_richard_love`** (i even, j odd, i ∉ P(j), j ∈ U(i): `X_{U∖{j}}`-strings with `Y_α`, `Z_{P1 ∪ {j}}`): whenever this branch fires, the emitted strings with their
coefficients act on every encoded state like `c a†_i a_j` — all `n`, all `i, j < n`, every complex `c`, on every
exact run of `_qubit_operator_creation` (`srlOk`, evaluated by the driver on every generated input). -/
theorem srl_sound_case_5 (tol : Rat) (htol : tol * tol ≤ 1 / 4) (n i j : Nat) (hi : i < n) (hj : j < n) (c : GQ)
    (htag : (srl i j c n).1 = 5) (hok : srlOk tol i j c n = true) (s s' : Nat) :
    GV.coeff (applyOp .qubit (srlOp tol i j c n) [Spec.C05.enc .bk n s]) [Spec.C05.enc .bk n s']
      = GV.coeff (applyOp .fermion [([(i, 1), (j, 0)], c)] [s]) [s'] :=
  srl_of_den tol htol n i j hi hj c _ s s' (srl_all tol htol n i j hi hj c hok s _)

/-- **case 6 of `_seeley_richard_love`** (i even, j odd, i ∈ P(j), j ∈ U(i): two strings without Z-part, two over `P1 ∪ {j}`): whenever this branch fires, the emitted strings with their
coefficients act on every encoded state like `c a†_i a_j` — all `n`, all `i, j < n`, every complex `c`, on every
exact run of `_qubit_operator_creation` (`srlOk`, evaluated by the driver on every generated input). -/
theorem srl_sound_case_6 (tol : Rat) (htol : tol * tol ≤ 1 / 4) (n i j : Nat) (hi : i < n) (hj : j < n) (c : GQ)
    (htag : (srl i j c n).1 = 6) (hok : srlOk tol i j c n = true) (s s' : Nat) :
    GV.coeff (applyOp .qubit (srlOp tol i j c n) [Spec.C05.enc .bk n s]) [Spec.C05.enc .bk n s']
      = GV.coeff (applyOp .fermion [([(i, 1), (j, 0)], c)] [s]) [s'] :=
  srl_of_den tol htol n i j hi hj c _ s s' (srl_all tol htol n i j hi hj c hok s _)

/-- **case 7 of `_seeley_richard_love`** (i, j odd, i ∉ P(j), j ∉ U(i): the four strings over `P0..P3 ∖ α`, both orders): whenever this branch fires, the emitted strings with their
coefficients act on every encoded state like `c a†_i a_j` — all `n`, all `i, j < n`, every complex `c`, on every
exact run of `_qubit_operator_creation` (`srlOk`, evaluated by the driver on every generated input). -/
theorem srl_sound_case_7 (tol : Rat) (htol : tol * tol ≤ 1 / 4) (n i j : Nat) (hi : i < n) (hj : j < n) (c : GQ)
    (htag : (srl i j c n).1 = 7) (hok : srlOk tol i j c n = true) (s s' : Nat) :
    GV.coeff (applyOp .qubit (srlOp tol i j c n) [Spec.C05.enc .bk n s]) [Spec.C05.enc .bk n s']
      = GV.coeff (applyOp .fermion [([(i, 1), (j, 0)], c)] [s]) [s'] :=
  srl_of_den tol htol n i j hi hj c _ s s' (srl_all tol htol n i j hi hj c hok s _)

/-- **case 8 of `_seeley_richard_love`** (i, j odd, i ∈ P(j), j ∉ U(i): the four strings over `P0..P3 ∖ {i}`): whenever this branch fires, the emitted strings with their
coefficients act on every encoded state like `c a†_i a_j` — all `n`, all `i, j < n`, every complex `c`, on every
exact run of `_qubit_operator_creation` (`srlOk`, evaluated by the driver on every generated input). -/
theorem srl_sound_case_8 (tol : Rat) (htol : tol * tol ≤ 1 / 4) (n i j : Nat) (hi : i < n) (hj : j < n) (c : GQ)
    (htag : (srl i j c n).1 = 8) (hok : srlOk tol i j c n = true) (s s' : Nat) :
    GV.coeff (applyOp .qubit (srlOp tol i j c n) [Spec.C05.enc .bk n s]) [Spec.C05.enc .bk n s']
      = GV.coeff (applyOp .fermion [([(i, 1), (j, 0)], c)] [s]) [s'] :=
  srl_of_den tol htol n i j hi hj c _ s s' (srl_all tol htol n i j hi hj c hok s _)

/-- **case 9 of `_seeley_richard_love`** (i, j odd, i ∉ P(j), j ∈ U(i): the strings with `x_range_2/3`, `Z_{P1 ∪ {j}}`, `Z_{P3 ∪ {j}}`): whenever this branch fires, the emitted strings with their
coefficients act on every encoded state like `c a†_i a_j` — all `n`, all `i, j < n`, every complex `c`, on every
exact run of `_qubit_operator_creation` (`srlOk`, evaluated by the driver on every generated input). -/
theorem srl_sound_case_9 (tol : Rat) (htol : tol * tol ≤ 1 / 4) (n i j : Nat) (hi : i < n) (hj : j < n) (c : GQ)
    (htag : (srl i j c n).1 = 9) (hok : srlOk tol i j c n = true) (s s' : Nat) :
    GV.coeff (applyOp .qubit (srlOp tol i j c n) [Spec.C05.enc .bk n s]) [Spec.C05.enc .bk n s']
      = GV.coeff (applyOp .fermion [([(i, 1), (j, 0)], c)] [s]) [s'] :=
  srl_of_den tol htol n i j hi hj c _ s s' (srl_all tol htol n i j hi hj c hok s _)

/-- **case 10 of `_seeley_richard_love`** (i, j odd, i ∈ P(j), j ∈ U(i): the strings with `Z_j`): whenever this branch fires, the emitted strings with their
coefficients act on every encoded state like `c a†_i a_j` — all `n`, all `i, j < n`, every complex `c`, on every
exact run of `_qubit_operator_creation` (`srlOk`, evaluated by the driver on every generated input). -/
theorem srl_sound_case_10 (tol : Rat) (htol : tol * tol ≤ 1 / 4) (n i j : Nat) (hi : i < n) (hj : j < n) (c : GQ)
    (htag : (srl i j c n).1 = 10) (hok : srlOk tol i j c n = true) (s s' : Nat) :
    GV.coeff (applyOp .qubit (srlOp tol i j c n) [Spec.C05.enc .bk n s]) [Spec.C05.enc .bk n s']
      = GV.coeff (applyOp .fermion [([(i, 1), (j, 0)], c)] [s]) [s'] :=
  srl_of_den tol htol n i j hi hj c _ s s' (srl_all tol htol n i j hi hj c hok s _)

/-- **`_seeley_richard_love` is sound** (all eleven branches together, no hypothesis on which one fires):
`⟨enc s'| srl(i, j, c, n) |enc s⟩ = ⟨s'| c a†_i a_j |s⟩` for every `n`, all `i, j < n`, every `c`. -/
theorem srl_sound (tol : Rat) (htol : tol * tol ≤ 1 / 4) (n i j : Nat) (hi : i < n) (hj : j < n) (c : GQ)
    (hok : srlOk tol i j c n = true) (s s' : Nat) :
    GV.coeff (applyOp .qubit (srlOp tol i j c n) [Spec.C05.enc .bk n s]) [Spec.C05.enc .bk n s']
      = GV.coeff (applyOp .fermion [([(i, 1), (j, 0)], c)] [s]) [s'] :=
  srl_of_den tol htol n i j hi hj c _ s s' (srl_all tol htol n i j hi hj c hok s _)

/-- **the lists returned by `_seeley_richard_love` are exact, unconditionally**: the raw operator
`Σ_m coefs[m] · ops[m]` (strings as emitted, before `QubitOperator` merges factors; no `+=`, hence no tolerance
and no regime hypothesis) has the matrix elements of `c a†_i a_j` between encoded states — every `n`, all
`i, j < n`, every complex `c`, whichever branch fires. -/
theorem srl_lists_exact (n i j : Nat) (hi : i < n) (hj : j < n) (c : GQ) (s s' : Nat) :
    GV.coeff (applyOp .qubit ((srl i j c n).2.1.zip (srl i j c n).2.2) [Spec.C05.enc .bk n s]) [Spec.C05.enc .bk n s']
      = GV.coeff (applyOp .fermion [([(i, 1), (j, 0)], c)] [s]) [s'] := by
  have htol : (0 : Rat) * 0 ≤ 1 / 4 := by norm_num
  have h1 := srl_sum 0 htol n i j hi hj c s (δ (Spec.C05.enc .bk n s'))
  have h2 := bkTerm_hop' 0 htol n i j hi hj c s (Spec.C05.enc .bk n s')
  have h3 := bk_term_exact 0 htol n [(i, 1), (j, 0)]
    (by intro f hf; simp at hf; rcases hf with rfl | rfl <;> simp <;> omega) c s s'
  rw [← h3]
  change den .qubit _ _ _ = den .qubit _ _ _
  rw [h2, ← h1, den_eq_sum]
  congr 1
  apply List.map_congr_left
  intro tc _
  rw [termCoef_φW]

/-- … and it maps encoded states to encoded states only -/
theorem srl_support (tol : Rat) (htol : tol * tol ≤ 1 / 4) (n i j : Nat) (hi : i < n) (hj : j < n) (c : GQ)
    (hok : srlOk tol i j c n = true) (s x : Nat) (hx : ∀ s', Spec.C05.enc .bk n s' ≠ x) :
    GV.coeff (applyOp .qubit (srlOp tol i j c n) [Spec.C05.enc .bk n s]) [x] = 0 := by
  have h := srl_all tol htol n i j hi hj c hok s x
  have := bk_term_support tol htol n [(i, 1), (j, 0)]
    (by intro f hf; simp at hf; rcases hf with rfl | rfl <;> simp <;> omega) c s x hx
  change den .qubit _ _ _ = 0
  rw [h]
  exact this

/-! ### `bravyi_kitaev(InteractionOperator, n_qubits)` -/

/-- **the loops of `_bravyi_kitaev_interaction_operator` as one sum**: the returned Hamiltonian is the `+=`-fold
over the operands of case A (`n_i`), case C (`n_i · excitation`) and case D (`_hermitian_one_body_product`),
in program order, plus `_qubit_operator_creation` of all pending strings (one-body pairs, Coulomb/exchange
`Z`-strings) with the accumulated constant — an identity of Model terms, no hypothesis. -/
theorem bk_interaction_unfold (tol : Rat) (N nq : Nat) (const : GQ) (one two : List GQ) :
    bkInteractionOp tol N nq const one two
      = iadd tol ((iopA tol N nq (Model.C05.get1 N one) ++ iopC tol N nq (Model.C05.get2 N two)
            ++ iopD tol N nq (Model.C05.get2 N two)).foldl (fun acc img => iadd tol acc img) [])
          (qubitOperatorCreation tol ((iopPend N nq (Model.C05.get1 N one) (Model.C05.get2 N two)).map (·.1) ++ [[]])
            ((iopPend N nq (Model.C05.get1 N one) (Model.C05.get2 N two)).map (·.2)
              ++ [iopConst N const (Model.C05.get2 N two)])) := by
  rw [iopConst_eq]; exact bkInteractionOp_unfold tol N nq const one two

/-- **`bravyi_kitaev(InteractionOperator, n_qubits)` is sound**: for every tensor size `N`, every `n_qubits ≥ N`
(also strictly larger than the tensor), every constant and every pair of tensors denoting a Hermitian operator
(`one[q,p] = conj one[p,q]`; the antisymmetrised two-body tensor `K[pq,rs] = T[pqrs] − T[pqsr] + T[qpsr] − T[qprs]`
— exactly what `_two_body_coef` reads — satisfies `K[rs,pq] = conj K[pq,rs]`; real or complex; the storage need
not be Hermitian element by element), the Hamiltonian assembled from the algebraic Seeley-Richard-Love expressions
(cases A-D) has the matrix elements of `const + Σ one[p,q] a†_p a_q + Σ two[p,q,r,s] a†_p a†_q a_r a_s` between
encoded states — on every exact run (`bkInteractionOpOk`: every `+=` and every `_qubit_operator_creation`
deleted only exact zeros; evaluated by the driver on every generated tensor). -/
theorem bk_interaction_sound (tol : Rat) (htol : tol * tol ≤ 1 / 4) (N nq : Nat) (hN : N ≤ nq) (const : GQ)
    (one two : List GQ)
    (h1 : ∀ p q, p < N → q < N → Model.C05.get1 N one q p = (Model.C05.get1 N one p q).conj)
    (h2 : ∀ p q r s, p < N → q < N → r < N → s < N →
      Model.C05.get2 N two r s p q - Model.C05.get2 N two r s q p + Model.C05.get2 N two s r q p
          - Model.C05.get2 N two s r p q
        = (Model.C05.get2 N two p q r s - Model.C05.get2 N two p q s r + Model.C05.get2 N two q p s r
          - Model.C05.get2 N two q p r s).conj)
    (hok : bkInteractionOpOk tol N nq const one two = true) (s s' : Nat) :
    GV.coeff (applyOp .qubit (bkInteractionOp tol N nq const one two) [Spec.C05.enc .bk nq s]) [Spec.C05.enc .bk nq s']
      = GV.coeff (applyOp .fermion (Spec.C04.interactionOp N const one two) [s]) [s'] :=
  bkIop_sound tol htol N nq hN const one two h1 h2 hok s s'

/-- … and it maps encoded states to encoded states only (no Hermiticity needed) -/
theorem bk_interaction_support (tol : Rat) (htol : tol * tol ≤ 1 / 4) (N nq : Nat) (hN : N ≤ nq) (const : GQ)
    (one two : List GQ) (hok : bkInteractionOpOk tol N nq const one two = true) (s x : Nat)
    (hx : ∀ s', Spec.C05.enc .bk nq s' ≠ x) :
    GV.coeff (applyOp .qubit (bkInteractionOp tol N nq const one two) [Spec.C05.enc .bk nq s]) [x] = 0 :=
  bkIop_support tol htol N nq hN const one two hok s x hx

/-- **the InteractionOperator path agrees with the FermionOperator path**: `bravyi_kitaev(iop, n)` and
`bravyi_kitaev(get_fermion_operator(iop), n)` have the same matrix elements between encoded states (both runs in
their exact regimes) -/
theorem bk_interaction_matches_fermion_path (tol : Rat) (htol : tol * tol ≤ 1 / 4) (N nq : Nat) (hN : N ≤ nq)
    (const : GQ) (one two : List GQ)
    (h1 : ∀ p q, p < N → q < N → Model.C05.get1 N one q p = (Model.C05.get1 N one p q).conj)
    (h2 : ∀ p q r s, p < N → q < N → r < N → s < N →
      Model.C05.get2 N two r s p q - Model.C05.get2 N two r s q p + Model.C05.get2 N two s r q p
          - Model.C05.get2 N two s r p q
        = (Model.C05.get2 N two p q r s - Model.C05.get2 N two p q s r + Model.C05.get2 N two q p s r
          - Model.C05.get2 N two q p r s).conj)
    (hok : bkInteractionOpOk tol N nq const one two = true)
    (hok' : bkFermionOk tol nq (Spec.C04.interactionOp N const one two) = true) (s s' : Nat) :
    GV.coeff (applyOp .qubit (bkInteractionOp tol N nq const one two) [Spec.C05.enc .bk nq s]) [Spec.C05.enc .bk nq s']
      = GV.coeff (applyOp .qubit (bkFermion tol nq (Spec.C04.interactionOp N const one two)) [Spec.C05.enc .bk nq s])
          [Spec.C05.enc .bk nq s'] := by
  rw [bk_interaction_sound tol htol N nq hN const one two h1 h2 hok s s']
  refine (bk_exact tol htol nq _ ?_ hok' s s').symm
  intro tc htc f hf
  unfold Spec.C04.interactionOp at htc
  simp only [List.mem_append, List.mem_cons, List.not_mem_nil, or_false, List.mem_flatMap, List.mem_map,
    List.mem_range] at htc
  rcases htc with (rfl | ⟨p, hp, q, hq, rfl⟩) | ⟨p, hp, q, hq, r, hr, s, hs, rfl⟩
  · simp at hf
  · simp only [List.mem_cons, List.not_mem_nil, or_false] at hf
    rcases hf with rfl | rfl <;> simp <;> omega
  · simp only [List.mem_cons, List.not_mem_nil, or_false] at hf
    rcases hf with rfl | rfl | rfl | rfl <;> simp <;> omega

/-! ### `bravyi_kitaev_tree` (FenwickTree built by recursive bisection), every `n` -/

/-- **`FenwickTree.get_update_set` is correct for every `n`**: the ancestors of `j` in the tree built by the
recursion `fenwick(left, right, parent)` are exactly the qubits `k`, `j < k < n`, whose block
`[loTree n k, k]` (the Spec's bisection) contains `j`. -/
theorem tree_update_set_correct (n j k : Nat) (hj : j < n) :
    k ∈ treeUpdate (mkTree n) n j ↔ (j < k ∧ k < n ∧ Spec.C05.loTree n k ≤ j) :=
  (ancestors_mem n j (by omega) n j hj (by omega) (loTree_le n j hj) (Nat.le_refl _)).1 k

/-- **`FenwickTree.get_parity_set` / `get_remainder_set` / children are correct**: on every encoded state the
bits over the parity set have the parity of the modes below `j`, and the bits over the remainder set
together with bit `j` have the parity of the modes up to and including `j`. -/
theorem tree_parity_sets_correct (n s j : Nat) (hj : j < n) :
    ((treeParity (mkTree n) n j).countP fun k => (Spec.C05.enc .tree n s).testBit k) % 2 = countBelow s j % 2 ∧
    (((treeRemainder (mkTree n) n j).countP fun k => (Spec.C05.enc .tree n s).testBit k)
      + (if (Spec.C05.enc .tree n s).testBit j then 1 else 0)) % 2
      = (countBelow s j + (if s.testBit j then 1 else 0)) % 2 :=
  tree_parities n s j hj

theorem tree_enc_injective (n s s' : Nat) (h : Spec.C05.enc .tree n s = Spec.C05.enc .tree n s') : s = s' :=
  enc_injective_tree n s s' h

/-- **`bravyi_kitaev_tree` of a term is exact**, for every `n` (not only powers of two):
`⟨enc s'| bk_tree(c·t) |enc s⟩ = ⟨s'| c·t |s⟩` with `enc` the bisection encoding. -/
theorem tree_term_exact (tol : Rat) (htol : tol * tol ≤ 1 / 4) (n : Nat) (t : List (Nat × Nat))
    (ht : ∀ f ∈ t, f.1 < n ∧ f.2 ≤ 1) (c : GQ) (s s' : Nat) :
    GV.coeff (applyOp .qubit (bkTreeTerm tol (mkTree n) n t c) [Spec.C05.enc .tree n s]) [Spec.C05.enc .tree n s']
      = GV.coeff (applyOp .fermion [(t, c)] [s]) [s'] := by
  change den .qubit _ _ _ = den .fermion _ _ _
  rw [bkTreeTerm_den tol htol n t ht, den_cons, den_nil, add_zero, termCoef_fermion]
  cases actFTerm t s with
  | none => simp
  | some km =>
    obtain ⟨k, s''⟩ := km
    simp only
    by_cases h : s'' = s'
    · subst h; simp
    · have : ¬ Spec.C05.enc .tree n s'' = Spec.C05.enc .tree n s' := fun he => h (enc_injective_tree n _ _ he)
      simp [h, this]

/-- **`bravyi_kitaev_tree(FermionOperator, n)` is exact** on every exact run, every `n` -/
theorem tree_exact (tol : Rat) (htol : tol * tol ≤ 1 / 4) (n : Nat) (A : Model.Op)
    (hA : ∀ tc ∈ A, ∀ f ∈ tc.1, f.1 < n ∧ f.2 ≤ 1) (hok : bkTreeFermionOk tol n A = true) (s s' : Nat) :
    GV.coeff (applyOp .qubit (bkTreeFermion tol n A) [Spec.C05.enc .tree n s]) [Spec.C05.enc .tree n s']
      = GV.coeff (applyOp .fermion A [s]) [s'] := by
  change den .qubit _ _ _ = den .fermion _ _ _
  have e : bkTreeFermion tol n A
      = (A.map fun tc => bkTreeTerm tol (mkTree n) n tc.1 tc.2).foldl (fun acc img => iadd tol acc img) [] := by
    unfold bkTreeFermion; simp only []; rw [List.foldl_map]
  rw [e, den_sum_ok .qubit tol _ _ _ hok, den_eq_sum, List.map_map]
  congr 1
  apply List.map_congr_left
  intro tc htc
  have := tree_term_exact tol htol n tc.1 (hA tc htc) tc.2 s s'
  change den .qubit _ _ _ = den .fermion _ _ _ at this
  simp only [Function.comp]
  rw [this, den_cons, den_nil, add_zero]

/-! ### the relations the property names: CAR, number operators, vacuum -/

/-- **canonical anticommutation relations of the Bravyi-Kitaev images** (every `n`, `i, j < n`): the products
computed by `_transform_operator_term` for `a_i a†_j` and `a†_j a_i` add up to `δ_ij` on encoded states -/
theorem bk_car (tol : Rat) (htol : tol * tol ≤ 1 / 4) (n i j : Nat) (hi : i < n) (hj : j < n) (s s' : Nat) :
    GV.coeff (applyOp .qubit (bkTerm tol n [(i, 0), (j, 1)] 1) [Spec.C05.enc .bk n s]) [Spec.C05.enc .bk n s']
    + GV.coeff (applyOp .qubit (bkTerm tol n [(j, 1), (i, 0)] 1) [Spec.C05.enc .bk n s]) [Spec.C05.enc .bk n s']
      = if i = j then (if s = s' then 1 else 0) else 0 := by
  rw [bk_term_exact tol htol n _ (by intro f hf; simp at hf; rcases hf with rfl | rfl <;> simp <;> omega) 1 s s',
    bk_term_exact tol htol n _ (by intro f hf; simp at hf; rcases hf with rfl | rfl <;> simp <;> omega) 1 s s']
  change den .fermion _ _ _ + den .fermion _ _ _ = _
  rw [den_cons, den_nil, den_cons, den_nil, add_zero, add_zero, one_mul, one_mul]
  exact spec_car i j s s'

/-- `{b_i, b_j} = 0` for the images of two annihilation operators -/
theorem bk_car_ann (tol : Rat) (htol : tol * tol ≤ 1 / 4) (n i j : Nat) (hi : i < n) (hj : j < n) (s s' : Nat) :
    GV.coeff (applyOp .qubit (bkTerm tol n [(i, 0), (j, 0)] 1) [Spec.C05.enc .bk n s]) [Spec.C05.enc .bk n s']
    + GV.coeff (applyOp .qubit (bkTerm tol n [(j, 0), (i, 0)] 1) [Spec.C05.enc .bk n s]) [Spec.C05.enc .bk n s']
      = 0 := by
  rw [bk_term_exact tol htol n _ (by intro f hf; simp at hf; rcases hf with rfl | rfl <;> simp <;> omega) 1 s s',
    bk_term_exact tol htol n _ (by intro f hf; simp at hf; rcases hf with rfl | rfl <;> simp <;> omega) 1 s s']
  change den .fermion _ _ _ + den .fermion _ _ _ = _
  rw [den_cons, den_nil, den_cons, den_nil, add_zero, add_zero, one_mul, one_mul]
  exact spec_car_ann i j s s'

/-- **number operators are diagonal**: the image of `a†_j a_j` maps `|enc s⟩` to `s_j |enc s⟩` -/
theorem bk_number_diagonal (tol : Rat) (htol : tol * tol ≤ 1 / 4) (n j : Nat) (hj : j < n) (s s' : Nat) :
    GV.coeff (applyOp .qubit (bkTerm tol n [(j, 1), (j, 0)] 1) [Spec.C05.enc .bk n s]) [Spec.C05.enc .bk n s']
      = if s.testBit j then (if s = s' then 1 else 0) else 0 := by
  rw [bk_term_exact tol htol n _ (by intro f hf; simp at hf; rcases hf with rfl | rfl <;> simp <;> omega) 1 s s']
  change den .fermion _ _ _ = _
  rw [den_cons, den_nil, add_zero, one_mul, diag_fermion]

/-- **the all-zero register is the vacuum**: it encodes the empty occupation, and every transformed
annihilation operator sends it to 0 (both variants) -/
theorem bk_vacuum (tol : Rat) (htol : tol * tol ≤ 1 / 4) (n j : Nat) (hj : j < n) (x : Nat) :
    Spec.C05.enc .bk n 0 = 0 ∧ Spec.C05.enc .tree n 0 = 0
    ∧ GV.coeff (applyOp .qubit (bkTerm tol n [(j, 0)] 1) [0]) [x] = 0
    ∧ GV.coeff (applyOp .qubit (bkTreeTerm tol (mkTree n) n [(j, 0)] 1) [0]) [x] = 0 := by
  obtain ⟨e1, e2⟩ := enc_zero n
  refine ⟨e1, e2, ?_, ?_⟩
  · have := bkTerm_den tol htol n [(j, 0)] (by intro f hf; simp at hf; subst hf; simp; omega) 1 0 x
    rw [e1] at this
    change den .qubit _ _ _ = 0
    rw [this]
    simp [actFTerm, actF]
  · have := bkTreeTerm_den tol htol n [(j, 0)] (by intro f hf; simp at hf; subst hf; simp; omega) 1 0 x
    rw [e2] at this
    change den .qubit _ _ _ = 0
    rw [this]
    simp [actFTerm, actF]

/-- CAR for the tree variant -/
theorem tree_car (tol : Rat) (htol : tol * tol ≤ 1 / 4) (n i j : Nat) (hi : i < n) (hj : j < n) (s s' : Nat) :
    GV.coeff (applyOp .qubit (bkTreeTerm tol (mkTree n) n [(i, 0), (j, 1)] 1) [Spec.C05.enc .tree n s])
        [Spec.C05.enc .tree n s']
    + GV.coeff (applyOp .qubit (bkTreeTerm tol (mkTree n) n [(j, 1), (i, 0)] 1) [Spec.C05.enc .tree n s])
        [Spec.C05.enc .tree n s']
      = if i = j then (if s = s' then 1 else 0) else 0 := by
  rw [tree_term_exact tol htol n _ (by intro f hf; simp at hf; rcases hf with rfl | rfl <;> simp <;> omega) 1 s s',
    tree_term_exact tol htol n _ (by intro f hf; simp at hf; rcases hf with rfl | rfl <;> simp <;> omega) 1 s s']
  change den .fermion _ _ _ + den .fermion _ _ _ = _
  rw [den_cons, den_nil, den_cons, den_nil, add_zero, add_zero, one_mul, one_mul]
  exact spec_car i j s s'

/-- the tree variant maps encoded states to encoded states only -/
theorem tree_term_support (tol : Rat) (htol : tol * tol ≤ 1 / 4) (n : Nat) (t : List (Nat × Nat))
    (ht : ∀ f ∈ t, f.1 < n ∧ f.2 ≤ 1) (c : GQ) (s x : Nat) (hx : ∀ s', Spec.C05.enc .tree n s' ≠ x) :
    GV.coeff (applyOp .qubit (bkTreeTerm tol (mkTree n) n t c) [Spec.C05.enc .tree n s]) [x] = 0 := by
  change den .qubit _ _ _ = 0
  rw [bkTreeTerm_den tol htol n t ht]
  cases actFTerm t s with
  | none => rfl
  | some km => obtain ⟨k, s''⟩ := km; simp [hx s'']

/-- `{a_i, a_j} = 0` for the tree variant -/
theorem tree_car_ann (tol : Rat) (htol : tol * tol ≤ 1 / 4) (n i j : Nat) (hi : i < n) (hj : j < n) (s s' : Nat) :
    GV.coeff (applyOp .qubit (bkTreeTerm tol (mkTree n) n [(i, 0), (j, 0)] 1) [Spec.C05.enc .tree n s])
        [Spec.C05.enc .tree n s']
    + GV.coeff (applyOp .qubit (bkTreeTerm tol (mkTree n) n [(j, 0), (i, 0)] 1) [Spec.C05.enc .tree n s])
        [Spec.C05.enc .tree n s']
      = 0 := by
  rw [tree_term_exact tol htol n _ (by intro f hf; simp at hf; rcases hf with rfl | rfl <;> simp <;> omega) 1 s s',
    tree_term_exact tol htol n _ (by intro f hf; simp at hf; rcases hf with rfl | rfl <;> simp <;> omega) 1 s s']
  change den .fermion _ _ _ + den .fermion _ _ _ = _
  rw [den_cons, den_nil, den_cons, den_nil, add_zero, add_zero, one_mul, one_mul]
  exact spec_car_ann i j s s'

/-- number operators are diagonal for the tree variant -/
theorem tree_number_diagonal (tol : Rat) (htol : tol * tol ≤ 1 / 4) (n j : Nat) (hj : j < n) (s s' : Nat) :
    GV.coeff (applyOp .qubit (bkTreeTerm tol (mkTree n) n [(j, 1), (j, 0)] 1) [Spec.C05.enc .tree n s])
        [Spec.C05.enc .tree n s']
      = if s.testBit j then (if s = s' then 1 else 0) else 0 := by
  rw [tree_term_exact tol htol n _ (by intro f hf; simp at hf; rcases hf with rfl | rfl <;> simp <;> omega) 1 s s']
  change den .fermion _ _ _ = _
  rw [den_cons, den_nil, add_zero, one_mul, diag_fermion]

/-- **`bravyi_kitaev` and `bravyi_kitaev_tree` are the same operator up to the relabelling of basis states**:
`⟨enc_tree s'| bk_tree(A) |enc_tree s⟩ = ⟨enc_bk s'| bk(A) |enc_bk s⟩` for every FermionOperator, both runs exact -/
theorem tree_equiv_bk (tol : Rat) (htol : tol * tol ≤ 1 / 4) (n : Nat) (A : Model.Op)
    (hA : ∀ tc ∈ A, ∀ f ∈ tc.1, f.1 < n ∧ f.2 ≤ 1) (hok : bkFermionOk tol n A = true)
    (hok' : bkTreeFermionOk tol n A = true) (s s' : Nat) :
    GV.coeff (applyOp .qubit (bkTreeFermion tol n A) [Spec.C05.enc .tree n s]) [Spec.C05.enc .tree n s']
      = GV.coeff (applyOp .qubit (bkFermion tol n A) [Spec.C05.enc .bk n s]) [Spec.C05.enc .bk n s'] := by
  rw [tree_exact tol htol n A hA hok' s s', bk_exact tol htol n A hA hok s s']

/-! ### the Bravyi-Kitaev transforms are the Jordan-Wigner transform conjugated by the relabelling `enc` -/

/-- **`bravyi_kitaev(A)` is `jordan_wigner(A)` in relabelled basis states**: `⟨enc s'| bk(A) |enc s⟩ = ⟨s'| jw(A) |s⟩` for
every FermionOperator on modes `< n`, every `n`, all occupation masks — in particular the two are isospectral and
expectation values agree.  (Model functions of both library transforms; exact-regime flags of both runs.) -/
theorem bk_equiv_jw (tol : Rat) (htol : tol * tol ≤ 1 / 4) (n : Nat) (A : Model.Op)
    (hA : ∀ tc ∈ A, ∀ f ∈ tc.1, f.1 < n ∧ f.2 ≤ 1) (hok : bkFermionOk tol n A = true)
    (hokJ : Model.C04.jwFermionOk tol A = true) (s s' : Nat) :
    GV.coeff (applyOp .qubit (bkFermion tol n A) [Spec.C05.enc .bk n s]) [Spec.C05.enc .bk n s']
      = GV.coeff (applyOp .qubit (Model.C04.jwFermion tol A) [s]) [s'] := by
  rw [bk_exact tol htol n A hA hok s s',
    OFV.C04.jw_exact tol htol A (fun tc h f hf => (hA tc h f hf).2) hokJ s s']

/-- the same for `bravyi_kitaev_tree` -/
theorem tree_equiv_jw (tol : Rat) (htol : tol * tol ≤ 1 / 4) (n : Nat) (A : Model.Op)
    (hA : ∀ tc ∈ A, ∀ f ∈ tc.1, f.1 < n ∧ f.2 ≤ 1) (hok : bkTreeFermionOk tol n A = true)
    (hokJ : Model.C04.jwFermionOk tol A = true) (s s' : Nat) :
    GV.coeff (applyOp .qubit (bkTreeFermion tol n A) [Spec.C05.enc .tree n s]) [Spec.C05.enc .tree n s']
      = GV.coeff (applyOp .qubit (Model.C04.jwFermion tol A) [s]) [s'] := by
  rw [tree_exact tol htol n A hA hok s s',
    OFV.C04.jw_exact tol htol A (fun tc h f hf => (hA tc h f hf).2) hokJ s s']

/-- **`bravyi_kitaev` preserves Hermiticity and is faithful** (on the encoded basis states, which are all `n`-qubit
basis states): `bk(A)` is Hermitian exactly when `A` is, and `bk(A)`, `bk(B)` agree exactly when `A`, `B` do -/
theorem bk_hermitian_iff_and_faithful (tol : Rat) (htol : tol * tol ≤ 1 / 4) (n : Nat) (A B : Model.Op)
    (hA : ∀ tc ∈ A, ∀ f ∈ tc.1, f.1 < n ∧ f.2 ≤ 1) (hB : ∀ tc ∈ B, ∀ f ∈ tc.1, f.1 < n ∧ f.2 ≤ 1)
    (hokA : bkFermionOk tol n A = true) (hokB : bkFermionOk tol n B = true) :
    ((∀ s s', GV.coeff (applyOp .qubit (bkFermion tol n A) [Spec.C05.enc .bk n s]) [Spec.C05.enc .bk n s']
        = (GV.coeff (applyOp .qubit (bkFermion tol n A) [Spec.C05.enc .bk n s']) [Spec.C05.enc .bk n s]).conj)
      ↔ (∀ s s', GV.coeff (applyOp .fermion A [s]) [s'] = (GV.coeff (applyOp .fermion A [s']) [s]).conj))
    ∧ ((∀ s s', GV.coeff (applyOp .qubit (bkFermion tol n A) [Spec.C05.enc .bk n s]) [Spec.C05.enc .bk n s']
        = GV.coeff (applyOp .qubit (bkFermion tol n B) [Spec.C05.enc .bk n s]) [Spec.C05.enc .bk n s'])
      ↔ (∀ s s', GV.coeff (applyOp .fermion A [s]) [s'] = GV.coeff (applyOp .fermion B [s]) [s'])) := by
  refine ⟨⟨fun h s s' => ?_, fun h s s' => ?_⟩, ⟨fun h s s' => ?_, fun h s s' => ?_⟩⟩
  · rw [← bk_exact tol htol n A hA hokA s s', ← bk_exact tol htol n A hA hokA s' s]; exact h s s'
  · rw [bk_exact tol htol n A hA hokA s s', bk_exact tol htol n A hA hokA s' s]; exact h s s'
  · rw [← bk_exact tol htol n A hA hokA s s', ← bk_exact tol htol n B hB hokB s s']; exact h s s'
  · rw [bk_exact tol htol n A hA hokA s s', bk_exact tol htol n B hB hokB s s']; exact h s s'

/-- **linearity** of `bravyi_kitaev` on the encoded states -/
theorem bk_linear (tol : Rat) (htol : tol * tol ≤ 1 / 4) (n : Nat) (A B : Model.Op) (c : GQ)
    (hA : ∀ tc ∈ A, ∀ f ∈ tc.1, f.1 < n ∧ f.2 ≤ 1) (hB : ∀ tc ∈ B, ∀ f ∈ tc.1, f.1 < n ∧ f.2 ≤ 1)
    (hokA : bkFermionOk tol n A = true) (hokB : bkFermionOk tol n B = true)
    (hadd : Model.C04.iaddOk tol A (smul c B) = true) (hokS : bkFermionOk tol n (iadd tol A (smul c B)) = true)
    (s s' : Nat) :
    GV.coeff (applyOp .qubit (bkFermion tol n (iadd tol A (smul c B))) [Spec.C05.enc .bk n s]) [Spec.C05.enc .bk n s']
      = GV.coeff (applyOp .qubit (bkFermion tol n A) [Spec.C05.enc .bk n s]) [Spec.C05.enc .bk n s']
        + c * GV.coeff (applyOp .qubit (bkFermion tol n B) [Spec.C05.enc .bk n s]) [Spec.C05.enc .bk n s'] := by
  have hS : ∀ tc ∈ iadd tol A (smul c B), ∀ f ∈ tc.1, f.1 < n ∧ f.2 ≤ 1 :=
    Jel.iadd_keys (P := fun t => ∀ f ∈ t, f.1 < n ∧ f.2 ≤ 1) tol hA
      (Jel.smul_keys (P := fun t => ∀ f ∈ t, f.1 < n ∧ f.2 ≤ 1) c hB)
  rw [bk_exact tol htol n _ hS hokS s s', bk_exact tol htol n A hA hokA s s', bk_exact tol htol n B hB hokB s s']
  change den .fermion _ _ _ = den .fermion _ _ _ + c * den .fermion _ _ _
  rw [den_iadd .fermion tol _ _ _ _ hadd, Sem.den_smul]

/-- **multiplicativity of `bravyi_kitaev`**: on the encoded basis states `bravyi_kitaev(A) * bravyi_kitaev(B)`
(QubitOperator product) has the matrix elements of `A * B` (FermionOperator product) and hence of
`bravyi_kitaev(A * B)` — every pair of FermionOperators on modes `< n`, every `n` -/
theorem bk_multiplicative (tol : Rat) (htol : tol * tol ≤ 1 / 4) (n : Nat) (A B : Model.Op)
    (hA : ∀ tc ∈ A, ∀ f ∈ tc.1, f.1 < n ∧ f.2 ≤ 1) (hB : ∀ tc ∈ B, ∀ f ∈ tc.1, f.1 < n ∧ f.2 ≤ 1)
    (hokA : bkFermionOk tol n A = true) (hokB : bkFermionOk tol n B = true)
    (hokAB : bkFermionOk tol n (mulOp .fermion A B) = true) (s s' : Nat) :
    GV.coeff (applyOp .qubit (mulOp .qubit (bkFermion tol n A) (bkFermion tol n B)) [Spec.C05.enc .bk n s])
        [Spec.C05.enc .bk n s'] = GV.coeff (applyOp .fermion (mulOp .fermion A B) [s]) [s']
    ∧ GV.coeff (applyOp .qubit (bkFermion tol n (mulOp .fermion A B)) [Spec.C05.enc .bk n s]) [Spec.C05.enc .bk n s']
        = GV.coeff (applyOp .qubit (mulOp .qubit (bkFermion tol n A) (bkFermion tol n B)) [Spec.C05.enc .bk n s])
          [Spec.C05.enc .bk n s'] := by
  have h1 := bk_mul_den tol htol n A B hA hB hokA hokB (fun y x => bk_exact tol htol n A hA hokA y x) s s'
  refine ⟨h1, ?_⟩
  have hAB : ∀ tc ∈ mulOp .fermion A B, ∀ f ∈ tc.1, f.1 < n ∧ f.2 ≤ 1 :=
    mulOpF_keys_gen (P := ValidT n) (validT_append n) hA hB
  have h2 := bk_exact tol htol n _ hAB hokAB s s'
  exact h2.trans h1.symm

/-! ### Bravyi-Kitaev superfast (`bksf.py`): the edge operators satisfy the edge algebra, for every graph

`E` is `edge_matrix_indices` as the list of its columns (qubit `e` on edge `e`); `edgeB tol E i` and
`edgeA tol E i j` are the Models of `edge_operator_b` and `edge_operator_aij`; products are `QubitOperator.__mul__`.
The relations are stated as equalities of all matrix elements.  `NoLoops`: no column has two equal entries (true for
the array the library builds from the strict upper triangle of the edge matrix). -/

/-- `B_i B_k = B_k B_i` and `B_i² = 1` — every array `E`, all `i`, `k` -/
theorem bksf_b_commute (tol : Rat) (htol : tol * tol ≤ 1 / 4) (E : Model.Bksf.Edges) (i k m x : Nat) :
    GV.coeff (applyOp .qubit (mulOp .qubit (Model.Bksf.edgeB tol E i) (Model.Bksf.edgeB tol E k)) [m]) [x]
        = GV.coeff (applyOp .qubit (mulOp .qubit (Model.Bksf.edgeB tol E k) (Model.Bksf.edgeB tol E i)) [m]) [x]
    ∧ GV.coeff (applyOp .qubit (mulOp .qubit (Model.Bksf.edgeB tol E i) (Model.Bksf.edgeB tol E i)) [m]) [x]
        = if m = x then 1 else 0 :=
  ⟨bksf_BB tol htol E i k m x, bksf_BB_sq tol htol E i m x⟩

/-- `A_ij B_k = − B_k A_ij` for `k ∈ {i, j}` and `A_ij B_k = B_k A_ij` otherwise — every graph without loops,
every edge `{i, j}` of it (in either orientation), every vertex `k` -/
theorem bksf_a_b_relation (tol : Rat) (htol : tol * tol ≤ 1 / 4) (E : Model.Bksf.Edges) (hE : NoLoops E)
    (i j k : Nat) (A : Model.Op) (hA : Model.Bksf.edgeA tol E i j = some A) (m x : Nat) :
    GV.coeff (applyOp .qubit (mulOp .qubit A (Model.Bksf.edgeB tol E k)) [m]) [x]
      = (if k = i ∨ k = j then -1 else 1)
        * GV.coeff (applyOp .qubit (mulOp .qubit (Model.Bksf.edgeB tol E k) A) [m]) [x] :=
  bksf_AB tol htol E hE i j k A hA m x

/-- `A_ij² = 1` and `A_ji = − A_ij` -/
theorem bksf_a_square_antisymmetric (tol : Rat) (htol : tol * tol ≤ 1 / 4) (E : Model.Bksf.Edges) (hE : NoLoops E)
    (i j : Nat) (A A' : Model.Op) (hA : Model.Bksf.edgeA tol E i j = some A)
    (hA' : Model.Bksf.edgeA tol E j i = some A') (m x : Nat) :
    GV.coeff (applyOp .qubit (mulOp .qubit A A) [m]) [x] = (if m = x then 1 else 0)
    ∧ GV.coeff (applyOp .qubit A' [m]) [x] = -GV.coeff (applyOp .qubit A [m]) [x] :=
  ⟨bksf_AA_sq tol htol E hE i j A hA m x, bksf_A_antisymm tol htol E hE i j A A' hA hA' m x⟩

/-- `A_ij A_kl = − A_kl A_ij` when the edges `{i,j} ≠ {k,l}` share a vertex, `A_ij A_kl = A_kl A_ij` when they are
disjoint — the Z-strings chosen by the ordering of the neighbours make exactly this happen, on every graph -/
theorem bksf_a_a_relation (tol : Rat) (htol : tol * tol ≤ 1 / 4) (E : Model.Bksf.Edges) (hE : NoLoops E)
    (i j k l : Nat) (A A2 : Model.Op) (hA : Model.Bksf.edgeA tol E i j = some A)
    (hA2 : Model.Bksf.edgeA tol E k l = some A2) (h1 : ¬ (i = k ∧ j = l)) (h2 : ¬ (i = l ∧ j = k)) (m x : Nat) :
    GV.coeff (applyOp .qubit (mulOp .qubit A A2) [m]) [x]
      = (if i = k ∨ i = l ∨ j = k ∨ j = l then -1 else 1)
        * GV.coeff (applyOp .qubit (mulOp .qubit A2 A) [m]) [x] :=
  bksf_AA tol htol E hE i j k l A A2 hA hA2 h1 h2 m x

/-! ### Bravyi-Kitaev superfast: pieces of the assembled transform

`Model.Bksf.edgeIndices N T1 T2` is the Model of `edge_matrix_indices` computed by `bravyi_kitaev_fast_edge_matrix`
+ `numpy.nonzero(numpy.triu(..))` from the tensors `T1 p q = one_body[p, q]`, `T2 p q r s = two_body[p, q, r, s]`;
`Model.Bksf.oneBody`, `Model.Bksf.numberOp` are the Models of `_one_body` and `number_operator`. -/

/-- the edge list the library derives from ANY pair of tensors is a simple graph on `0..N-1`: every column is
`(a, b)` with `a < b < N` — so the hypothesis `NoLoops` of the edge-algebra theorems holds for it -/
theorem bksf_edge_list_simple_graph (N : Nat) (T1 : Nat → Nat → GQ) (T2 : Nat → Nat → Nat → Nat → GQ) :
    (∀ ab ∈ Model.Bksf.edgeIndices N T1 T2, ab.1 < ab.2 ∧ ab.2 < N) ∧ NoLoops (Model.Bksf.edgeIndices N T1 T2) :=
  ⟨fun ab h => ⟨(edgeIndices_mem N T1 T2 ab h).1, (edgeIndices_mem N T1 T2 ab h).2.1⟩, edgeIndices_noLoops N T1 T2⟩

/-- **`number_operator(iop, mode)`** is diagonal in the computational basis of the edge qubits; mode `i` is occupied
in the basis state `m` exactly when an odd number of the qubits sitting on the edges incident to vertex `i` is set,
and `number_operator(iop)` counts the occupied vertices — every InteractionOperator, every basis state (exact run) -/
theorem bksf_number_operator_sound (tol : Rat) (htol : tol * tol ≤ 1 / 4) (N : Nat) (T1 : Nat → Nat → GQ)
    (T2 : Nat → Nat → Nat → Nat → GQ) (mode : Option Nat)
    (hok : Model.Bksf.numberOk tol N T1 T2 mode = true) (m x : Nat) :
    GV.coeff (applyOp .qubit (Model.Bksf.numberOp tol N T1 T2 mode) [m]) [x]
      = if m = x then
          (match mode with
            | some i => if incidentSet (Model.Bksf.edgeIndices N T1 T2) i m % 2 = 1 then 1 else 0
            | none => (((List.range N).filter fun i =>
                decide (incidentSet (Model.Bksf.edgeIndices N T1 T2) i m % 2 = 1)).length : Nat))
        else 0 :=
  bksf_number_den tol htol N T1 T2 mode hok m x

/-- `_one_body(edge_matrix_indices, p, q)` fails (the library raises `ValueError: Invalid index in factor (-1, 'X')`)
exactly when `p ≠ q` and the array has no column with endpoints `{p, q}` -/
theorem bksf_one_body_fails_iff (tol : Rat) (E : Model.Bksf.Edges) (p q : Nat) :
    Model.Bksf.oneBody tol E p q = none ↔ p ≠ q ∧ Model.Bksf.positionIJ E (min p q) (max p q) = none :=
  oneBody_none_iff tol E p q

/-- **`_one_body(.., p, q)`, `p ≠ q`**, is `-i/2 (A_ab B_b + B_a A_ab)`, `a = min(p,q)`, `b = max(p,q)` — the image of
`a†_p a_q + a†_q a_p` under the edge-operator dictionary; all matrix elements, every array -/
theorem bksf_one_body_offdiagonal (tol : Rat) (E : Model.Bksf.Edges) (p q : Nat) (hpq : p ≠ q) (A t : Model.Op)
    (hA : Model.Bksf.edgeA tol E (min p q) (max p q) = some A) (ht : Model.Bksf.oneBody tol E p q = some t)
    (hok : Model.Bksf.oneBodyOk tol E p q = true) (m x : Nat) :
    GV.coeff (applyOp .qubit t [m]) [x]
      = (⟨0, -(mkRat 1 2)⟩ : GQ)
        * (GV.coeff (applyOp .qubit (mulOp .qubit A (Model.Bksf.edgeB tol E (max p q))) [m]) [x]
          + GV.coeff (applyOp .qubit (mulOp .qubit (Model.Bksf.edgeB tol E (min p q)) A) [m]) [x]) :=
  oneBody_offdiag_den tol E p q hpq A t hA ht hok m x

/-- **`_one_body(.., p, p)`** is `(1 - B_p)/2`: the occupation of vertex `p` (parity of its incident edge qubits) -/
theorem bksf_one_body_diagonal (tol : Rat) (htol : tol * tol ≤ 1 / 4) (E : Model.Bksf.Edges) (hE : NoLoops E) (p : Nat)
    (t : Model.Op) (ht : Model.Bksf.oneBody tol E p p = some t) (hok : Model.Bksf.oneBodyOk tol E p p = true)
    (m x : Nat) :
    GV.coeff (applyOp .qubit t [m]) [x] = if m = x then (if incidentSet E p m % 2 = 1 then 1 else 0) else 0 :=
  oneBody_diag_den tol htol E hE p t ht hok m x

/-- **`_two_body(.., p, q, r, s)`, four distinct indices**, is the operator
`(1/8 A_pq) A_rs (-1 - B_pB_q + B_pB_r + B_pB_s + B_qB_r + B_qB_s - B_rB_s - B_pB_qB_rB_s)` — every array, all matrix
elements (exact run; the last sign is the one repaired in the source) -/
theorem bksf_two_body_four_index_formula (tol : Rat) (htol : tol * tol ≤ 1 / 4) (E : Model.Bksf.Edges) (p q r s : Nat)
    (hnd : Model.Bksf.nDistinct4 p q r s = 4) (Apq Ars t : Model.Op)
    (hA1 : Model.Bksf.edgeA tol E p q = some Apq) (hA2 : Model.Bksf.edgeA tol E r s = some Ars)
    (ht : Model.Bksf.twoBody tol E p q r s = some t) (hok : Model.Bksf.twoBody4Ok tol E p q r s = true) (m x : Nat) :
    let P := fun (Y : Model.Op) =>
      GV.coeff (applyOp .qubit (mulOp .qubit (mulOp .qubit (smul Model.Bksf.eighthQ Apq) Ars) Y) [m]) [x]
    let B := Model.Bksf.edgeB tol E
    GV.coeff (applyOp .qubit t [m]) [x]
      = -P Model.Bksf.one - P (mulOp .qubit (B p) (B q)) + P (mulOp .qubit (B p) (B r)) + P (mulOp .qubit (B p) (B s))
        + P (mulOp .qubit (B q) (B r)) + P (mulOp .qubit (B q) (B s)) - P (mulOp .qubit (B r) (B s))
        - P (mulOp .qubit (mulOp .qubit (mulOp .qubit (B p) (B q)) (B r)) (B s)) :=
  twoBody4_den tol htol E p q r s hnd Apq Ars t hA1 hA2 ht hok m x

/-- **`_two_body` with four distinct indices is the double excitation `a†_p a†_q a_r a_s + h.c.` in edge-operator
form**: on a basis state `m` of the edge qubits it vanishes unless vertices `p, q` are occupied and `r, s` empty, or
the other way round (occupation = parity of the incident edge qubits), and there it acts as `-A_pq A_rs` — every graph
without loops, every basis state.  (With the former `+ B_pB_qB_rB_s` this statement is false.) -/
theorem bksf_two_body_four_index_sound (tol : Rat) (htol : tol * tol ≤ 1 / 4) (E : Model.Bksf.Edges) (hE : NoLoops E)
    (p q r s : Nat) (hnd : Model.Bksf.nDistinct4 p q r s = 4) (Apq Ars t : Model.Op)
    (hA1 : Model.Bksf.edgeA tol E p q = some Apq) (hA2 : Model.Bksf.edgeA tol E r s = some Ars)
    (ht : Model.Bksf.twoBody tol E p q r s = some t) (hok : Model.Bksf.twoBody4Ok tol E p q r s = true) (m x : Nat) :
    GV.coeff (applyOp .qubit t [m]) [x]
      = if (occV E p m && occV E q m && !occV E r m && !occV E s m)
            || (!occV E p m && !occV E q m && occV E r m && occV E s m)
        then -GV.coeff (applyOp .qubit (mulOp .qubit Apq Ars) [m]) [x] else 0 :=
  twoBody4_sound tol htol E hE p q r s hnd Apq Ars t hA1 hA2 ht hok m x

/-- **`_two_body` with two distinct indices is `± n_p n_q`**: diagonal in the edge-qubit basis, `+1` (when `p = s`,
i.e. `a†_p a†_q a_q a_p`) resp. `-1` (`a†_p a†_q a_p a_q`) exactly on the basis states where both vertices are occupied
(occupation = parity of the incident edge qubits) — every graph without loops, every basis state -/
theorem bksf_two_body_two_index_sound (tol : Rat) (htol : tol * tol ≤ 1 / 4) (E : Model.Bksf.Edges) (hE : NoLoops E)
    (p q r s : Nat) (hnd : Model.Bksf.nDistinct4 p q r s = 2) (t : Model.Op)
    (ht : Model.Bksf.twoBody tol E p q r s = some t) (hok : Model.Bksf.twoBody2Ok tol E p q s = true) (m x : Nat) :
    GV.coeff (applyOp .qubit t [m]) [x]
      = if m = x then (if p = s then 1 else -1) * (if occV E p m && occV E q m then 1 else 0) else 0 :=
  twoBody2_sound tol htol E hE p q r s hnd t ht hok m x

/-- **`_two_body` with three distinct indices is the number-excitation `n_z (a†_x a_y + h.c.)`** in edge-operator form:
with `(x, y, z, phase) = threeIdx p q r s` (the selection the code makes by which two indices coincide) it is
`phase/2 · (A_xy B_y + B_x A_xy)` on the basis states where the spectator vertex `z` is occupied and `0` on all others -/
theorem bksf_two_body_three_index_sound (tol : Rat) (htol : tol * tol ≤ 1 / 4) (E : Model.Bksf.Edges) (hE : NoLoops E)
    (p q r s : Nat) (hnd : Model.Bksf.nDistinct4 p q r s = 3) (hsel : p = r ∨ p = s ∨ q = r ∨ q = s) (A t : Model.Op)
    (hA : Model.Bksf.edgeA tol E (Model.Bksf.threeIdx p q r s).1 (Model.Bksf.threeIdx p q r s).2.1 = some A)
    (ht : Model.Bksf.twoBody tol E p q r s = some t) (hok : Model.Bksf.twoBody3Ok tol E p q r s = true) (m x : Nat) :
    GV.coeff (applyOp .qubit t [m]) [x]
      = (if occV E (Model.Bksf.threeIdx p q r s).2.2.1 m then Model.Bksf.halfQ else 0)
        * (Model.Bksf.threeIdx p q r s).2.2.2
        * (GV.coeff (applyOp .qubit (mulOp .qubit A (Model.Bksf.edgeB tol E (Model.Bksf.threeIdx p q r s).2.1)) [m]) [x]
          + GV.coeff (applyOp .qubit (mulOp .qubit (Model.Bksf.edgeB tol E (Model.Bksf.threeIdx p q r s).1) A) [m]) [x]) :=
  twoBody3_sound tol htol E hE p q r s hnd hsel A t hA ht hok m x

/-! ### non-vacuity -/

example : Generated.eqTolerance * Generated.eqTolerance ≤ 1 / 4 := by
  unfold Generated.eqTolerance; norm_num [Rat.mkRat_eq_div]

/-- a term on `n = 6` qubits (not a power of two) with repeated modes satisfies `ht` -/
example : ∀ f ∈ [(5, 1), (2, 0), (5, 0), (3, 1)], f.1 < 6 ∧ f.2 ≤ 1 := by decide

/-- the exact-regime hypothesis of `bk_exact` on a concrete operator with cancelling terms, `n = 5` -/
example : bkFermionOk Generated.eqTolerance 5
    [([(4, 1), (1, 0)], ⟨2, 0⟩), ([(1, 0), (4, 1)], ⟨-(mkRat 1 2), 0⟩), ([(2, 1)], ⟨0, 1⟩)] = true := by
  decide +kernel

/-- every case tag 0..10 is attained (kernel-evaluated on the Model) -/
example : (((List.range 16).flatMap (fun i => (List.range 16).map fun j => srlTag i j 16)).eraseDups).length = 11 := by
  decide +kernel

/-- the hypotheses of `srl_sound_case_k` hold on concrete inputs for every branch and both index orders
(`n = 11`, not a power of two; complex coefficient): branch tag and exact-regime flag, kernel-evaluated -/
example : (∀ t ∈ [(0, 0, 0), (1, 2, 0), (1, 0, 2), (2, 1, 0), (2, 1, 4), (3, 1, 2), (4, 2, 1), (4, 0, 5), (5, 0, 3), (6, 0, 1), (7, 3, 1), (7, 1, 5), (8, 3, 5), (9, 1, 7), (10, 1, 3)],
    (srl t.2.1 t.2.2 ⟨mkRat 3 4, -2⟩ 11).1 = t.1 ∧ srlOk Generated.eqTolerance t.2.1 t.2.2 ⟨mkRat 3 4, -2⟩ 11 = true) := by
  decide +kernel

/-- the hypotheses of `bk_interaction_sound` on a concrete complex 4-orbital InteractionOperator in NON-canonical
storage (quartic entry `T[3,2,1,0] = 1/2 + i` with its Hermitian partner stored as `T[1,0,2,3] = -(1/2 - i)`,
an imaginary number-excitation entry, a Coulomb entry, junk on a `p = q` entry), on 5 qubits (`n_qubits > N`):
all cases A-D are exercised, and the exact-regime flag is kernel-evaluated -/
example :
    let one : List GQ := [0, ⟨1, 1⟩, 0, 0, ⟨1, -1⟩, 0, 0, 0, 0, 0, ⟨mkRat 1 2, 0⟩, 0, 0, 0, 0, 0]
    let two : List GQ := [0, 0, 0, 0, 0, 0, 0, 0, 0, 0, 0, 0, 0, 0, 0, 0, 0, 0, 0, 0, 0, 0, 0, 0, 0, 0, 0, 0, 0, 0, 0, 0, 0, 0, 0, 0, 0, 0, 0, 0, 0, ⟨0, -2⟩, 0, 0, 0, 0, 0, 0, 0, 0, 0, 0, 0, 0, 0, 0, 0, 0, 0, 0, 0, 0, 0, 0, 0, 0, 0, 0, 0, 0, 0, 0, 0, 0, 0, ⟨-(mkRat 1 2), 1⟩, 0, 0, 0, 0, 0, 0, 0, 0, 0, 0, 0, 0, ⟨7, 3⟩, 0, 0, 0, 0, 0, 0, 0, 0, 0, 0, 0, 0, 0, 0, 0, 0, 0, 0, 0, 0, 0, 0, 0, 0, 0, 0, 0, 0, 0, 0, 0, 0, 0, 0, 0, 0, 0, 0, 0, 0, 0, 0, 0, 0, 0, 0, 0, 0, 0, 0, 0, 0, 0, 0, 0, 0, 0, ⟨0, 2⟩, 0, 0, 0, 0, 0, 0, 0, 0, 0, 0, 0, 0, 0, 0, 0, 0, 0, 0, 0, 0, 0, 0, 0, 0, 0, 0, 0, 0, 0, 0, 0, 0, 0, 0, 0, 0, 0, 0, 0, 0, 0, 0, 0, 0, 0, 0, 0, 0, 0, 0, 0, 0, 0, 0, 0, 0, 0, 0, 0, 0, 0, 0, 0, 0, 0, 0, 0, 0, ⟨mkRat 3 4, 0⟩, 0, 0, 0, 0, 0, 0, 0, 0, 0, 0, 0, 0, ⟨mkRat 1 2, 1⟩, 0, 0, 0, 0, 0, 0, 0, 0, 0, 0, 0, 0, 0, 0, 0, 0, 0, 0, 0, 0, 0, 0, 0, 0, 0, 0, 0]
    (∀ p q, p < 4 → q < 4 → Model.C05.get1 4 one q p = (Model.C05.get1 4 one p q).conj)
    ∧ (∀ p q r s, p < 4 → q < 4 → r < 4 → s < 4 →
        Model.C05.get2 4 two r s p q - Model.C05.get2 4 two r s q p + Model.C05.get2 4 two s r q p
            - Model.C05.get2 4 two s r p q
          = (Model.C05.get2 4 two p q r s - Model.C05.get2 4 two p q s r + Model.C05.get2 4 two q p s r
            - Model.C05.get2 4 two q p r s).conj)
    ∧ bkInteractionOpOk Generated.eqTolerance 4 5 ⟨mkRat 1 2, 0⟩ one two = true := by
  intro one two
  refine ⟨?_, ?_, by decide +kernel⟩
  · have H : ∀ p, p < 4 → ∀ q, q < 4 → Model.C05.get1 4 one q p = (Model.C05.get1 4 one p q).conj := by
      decide +kernel
    exact fun p q hp hq => H p hp q hq
  · have H : ∀ p, p < 4 → ∀ q, q < 4 → ∀ r, r < 4 → ∀ s, s < 4 →
        Model.C05.get2 4 two r s p q - Model.C05.get2 4 two r s q p + Model.C05.get2 4 two s r q p
            - Model.C05.get2 4 two s r p q
          = (Model.C05.get2 4 two p q r s - Model.C05.get2 4 two p q s r + Model.C05.get2 4 two q p s r
            - Model.C05.get2 4 two q p r s).conj := by
      decide +kernel
    exact fun p q r s hp hq hr hs => H p hp q hq r hr s hs

/-- hypotheses of the BKSF relations on a concrete graph (a 4-cycle with a chord, mixed orientations): no loops,
and the edge operators exist -/
example :
    let E : Model.Bksf.Edges := [(0, 1), (2, 1), (2, 3), (3, 0), (0, 2)]
    NoLoops E ∧ (Model.Bksf.edgeA Generated.eqTolerance E 1 2).isSome = true
      ∧ (Model.Bksf.edgeA Generated.eqTolerance E 3 0).isSome = true := by
  refine ⟨?_, by decide +kernel, by decide +kernel⟩
  intro e he
  have : e = 0 ∨ e = 1 ∨ e = 2 ∨ e = 3 ∨ e = 4 := by simp at he; omega
  rcases this with rfl | rfl | rfl | rfl | rfl <;> decide

/-- hypotheses of the assembled-BKSF theorems on a concrete InteractionOperator (`N = 4`, hopping 0-1, 1-2, 0-2 and
a number-excitation entry touching vertex 3): the exact-regime flags of `number_operator` (all modes / one mode)
and `_one_body` hold, the needed edge operator exists, the edge list is the triangle plus the induced edge -/
example :
    let T1 : Nat → Nat → GQ := fun p q => if (p, q) ∈ [(0, 1), (1, 0), (1, 2), (2, 1), (0, 2), (2, 0)] then ⟨mkRat 1 2, 0⟩ else 0
    let T2 : Nat → Nat → Nat → Nat → GQ := fun p q r s =>
      if (p, q, r, s) ∈ [(0, 1, 1, 3), (3, 1, 1, 0)] then ⟨mkRat 3 4, 0⟩ else 0
    Model.Bksf.edgeIndices 4 T1 T2 = [(0, 1), (0, 2), (0, 3), (1, 2)]
    ∧ Model.Bksf.numberOk Generated.eqTolerance 4 T1 T2 none = true
    ∧ Model.Bksf.numberOk Generated.eqTolerance 4 T1 T2 (some 2) = true
    ∧ Model.Bksf.oneBodyOk Generated.eqTolerance (Model.Bksf.edgeIndices 4 T1 T2) 2 0 = true
    ∧ (Model.Bksf.oneBody Generated.eqTolerance (Model.Bksf.edgeIndices 4 T1 T2) 2 0).isSome = true
    ∧ (Model.Bksf.bksfOp Generated.eqTolerance 4 0 T1 T2).isSome = true := by
  intro T1 T2
  refine ⟨by decide +kernel, by decide +kernel, by decide +kernel, by decide +kernel, by decide +kernel,
    by decide +kernel⟩

/-- **known finding F05-bksf-missing-edge, on the Model**: for the Hermitian InteractionOperator with
`two_body[0,1,2,3] = two_body[3,2,1,0] = 1` (`N = 4`) the edge list is empty although the main loop transforms the
entry `(0,1,2,3)`: the Model of `bravyi_kitaev_fast_interaction_op` fails (`none` = the library's `ValueError`),
because `_two_body` asks for `A_01`; the same happens for the three-index pair `two_body[3,1,1,2] = two_body[2,1,1,3]`
(the edge loop skips both entries by `p != r and q < p`, the main loop transforms them and asks for `A_32`) -/
example :
    let T2 : Nat → Nat → Nat → Nat → GQ := fun p q r s => if (p, q, r, s) ∈ [(0, 1, 2, 3), (3, 2, 1, 0)] then 1 else 0
    let T3 : Nat → Nat → Nat → Nat → GQ := fun p q r s => if (p, q, r, s) ∈ [(3, 1, 1, 2), (2, 1, 1, 3)] then 1 else 0
    Model.Bksf.edgeIndices 4 (fun _ _ => 0) T2 = []
    ∧ Model.Bksf.twoBody Generated.eqTolerance (Model.Bksf.edgeIndices 4 (fun _ _ => 0) T2) 0 1 2 3 = none
    ∧ Model.Bksf.bksfOp Generated.eqTolerance 4 0 (fun _ _ => 0) T2 = none
    ∧ Model.Bksf.edgeIndices 4 (fun _ _ => 0) T3 = []
    ∧ Model.Bksf.bksfOp Generated.eqTolerance 4 0 (fun _ _ => 0) T3 = none := by
  intro T2 T3
  refine ⟨by decide +kernel, by decide +kernel, by decide +kernel, by decide +kernel, by decide +kernel⟩

/-- hypotheses of `bksf_two_body_four_index_sound` on a concrete graph (the 4-cycle 0-1-2-3 with a pendant vertex 4),
indices `(1, 0, 3, 2)`: four distinct, both edge operators exist, the exact-regime flag holds, and both branches of the
statement occur (`m = 1`, the qubit of edge (0,1) set: vertices 0, 1 occupied, 2, 3 empty; `m = 0`: vacuum) -/
example :
    let E : Model.Bksf.Edges := [(0, 1), (0, 3), (1, 2), (2, 3), (3, 4)]
    Model.Bksf.nDistinct4 1 0 3 2 = 4
    ∧ (Model.Bksf.edgeA Generated.eqTolerance E 1 0).isSome = true
    ∧ (Model.Bksf.edgeA Generated.eqTolerance E 3 2).isSome = true
    ∧ (Model.Bksf.twoBody Generated.eqTolerance E 1 0 3 2).isSome = true
    ∧ Model.Bksf.twoBody4Ok Generated.eqTolerance E 1 0 3 2 = true
    ∧ (occV E 1 1 && occV E 0 1 && !occV E 3 1 && !occV E 2 1) = true
    ∧ (occV E 1 0 || occV E 0 0 || occV E 3 0 || occV E 2 0) = false := by
  intro E
  refine ⟨by decide +kernel, by decide +kernel, by decide +kernel, by decide +kernel, by decide +kernel,
    by decide +kernel, by decide +kernel⟩

/-- hypotheses of `bksf_two_body_two_index_sound` / `bksf_two_body_three_index_sound` on the 4-cycle with a pendant
vertex: index patterns, exact-regime flags, the needed edge operator, for all four three-index patterns -/
example :
    let E : Model.Bksf.Edges := [(0, 1), (0, 3), (1, 2), (2, 3), (3, 4)]
    Model.Bksf.nDistinct4 1 3 3 1 = 2 ∧ Model.Bksf.twoBody2Ok Generated.eqTolerance E 1 3 1 = true
    ∧ Model.Bksf.nDistinct4 1 3 1 3 = 2 ∧ Model.Bksf.twoBody2Ok Generated.eqTolerance E 1 3 3 = true
    ∧ (∀ t ∈ [(3, 0, 3, 1), (3, 0, 1, 3), (0, 3, 3, 1), (0, 3, 1, 3)],
        Model.Bksf.nDistinct4 t.1 t.2.1 t.2.2.1 t.2.2.2 = 3
        ∧ Model.Bksf.twoBody3Ok Generated.eqTolerance E t.1 t.2.1 t.2.2.1 t.2.2.2 = true
        ∧ (Model.Bksf.edgeA Generated.eqTolerance E (Model.Bksf.threeIdx t.1 t.2.1 t.2.2.1 t.2.2.2).1
            (Model.Bksf.threeIdx t.1 t.2.1 t.2.2.1 t.2.2.2).2.1).isSome = true
        ∧ (Model.Bksf.twoBody Generated.eqTolerance E t.1 t.2.1 t.2.2.1 t.2.2.2).isSome = true) := by
  intro E
  refine ⟨by decide +kernel, by decide +kernel, by decide +kernel, by decide +kernel, by decide +kernel⟩

/-- the hypotheses of `bk_equiv_jw` / `tree_equiv_jw` / `bk_linear` on concrete operators, `n = 6` -/
example :
    let A : Model.Op := [([(4, 1), (1, 0)], ⟨2, 0⟩), ([(1, 0), (4, 1)], ⟨-(mkRat 1 2), 0⟩), ([(5, 1)], ⟨0, 1⟩)]
    let B : Model.Op := [([(4, 1), (1, 0)], ⟨0, 1⟩), ([(3, 1), (3, 0)], ⟨mkRat 3 4, 0⟩)]
    bkFermionOk Generated.eqTolerance 6 A = true ∧ bkTreeFermionOk Generated.eqTolerance 6 A = true
    ∧ Model.C04.jwFermionOk Generated.eqTolerance A = true ∧ bkFermionOk Generated.eqTolerance 6 B = true
    ∧ Model.C04.iaddOk Generated.eqTolerance A (smul ⟨0, 2⟩ B) = true
    ∧ bkFermionOk Generated.eqTolerance 6 (iadd Generated.eqTolerance A (smul ⟨0, 2⟩ B)) = true
    ∧ bkFermionOk Generated.eqTolerance 6 (mulOp .fermion A B) = true := by
  intro A B
  refine ⟨by decide +kernel, by decide +kernel, by decide +kernel, by decide +kernel, by decide +kernel,
    by decide +kernel, by decide +kernel⟩

example : ∀ m ∈ [11, 0, 3, 11, 4], m / 2 < 6 := by decide

/-- the exact-regime hypothesis of `tree_exact` on a concrete operator, `n = 6` (tree ≠ Fenwick there) -/
example : bkTreeFermionOk Generated.eqTolerance 6
    [([(4, 1), (1, 0)], ⟨2, 0⟩), ([(1, 0), (4, 1)], ⟨-(mkRat 1 2), 0⟩), ([(5, 1)], ⟨0, 1⟩)] = true := by
  decide +kernel

/-! ### statements of C05 that are NOT proved here (covered by correspondence + Spec oracle only; see
`OPEN_STATEMENTS` in harness/c05.py)

* Bravyi-Kitaev superfast: the edge matrix, `_one_body`, `_two_body`, the assembled `bravyi_kitaev_fast` and
  `number_operator` are modelled (`Model/C05Bksf.lean`) and compared exactly with the library; proved: the edge
  algebra (`bksf_*_relation`), the edge list is a simple graph, `number_operator`, `_one_body`, and `_two_body` for
  four (double excitation), three (number-excitation) and two (`± n_p n_q`) distinct indices.  NOT proved: that the selection of tensor entries of the main loop
  adds up to the edge-algebra image of the whole Hamiltonian (false in general for the pinned source: known findings
  F05-bksf-complex-coefficients, F05-bksf-missing-edge), the fermionic
  identities expressing a†a-monomials by Majorana edge operators, `vacuum_operator` (networkx cycle basis; no Model),
  and the isomorphism of the stabiliser subspace with the even-parity Fock space.
* multiplicativity of `bravyi_kitaev_tree` (same proof as `bk_multiplicative`, not restated). -/

end OFV.C05
