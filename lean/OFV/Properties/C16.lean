/-
C16 — property theorems (qubit and orbital reductions).  Helper lemmas live in OFV/Proofs/C16.lean.
All theorems are about the Model functions the driver executes (OFV/Model/C16.lean:
`qbitOrder`, `shiftDown`, `newIndex`, `freezeScan`, `otherOpOf`) or about the Spec actions
(OFV/Spec/Basic.lean) that give the reductions their meaning.

Not proved here (see OPEN_STATEMENTS in harness/c16.py): the operator-level statements
(the tapered operator for stabilizers whose fixed positions carry X or Y; that bravyi_kitaev_tree
output meets the hypothesis of scbk_sector_sound): Spec oracle only.
-/
import OFV.Proofs.C16
import OFV.Proofs.C16Pauli
import OFV.Proofs.C16Loop
import OFV.Proofs.C16Proj
import OFV.Proofs.C16Embed
import OFV.Proofs.C16Freeze
import OFV.Proofs.C16Prune
import OFV.Proofs.C16Scbk
import OFV.Proofs.C16Taper
import OFV.Proofs.C16Edit

namespace OFV.C16
open OFV OFV.Spec OFV.Model OFV.Model.C16 OFV.C16P OFV.Generated

/-- **qubit re-indexing of `taper_off_qubits`** (`reindex_spec`).  For `k` distinct sorted removed
positions below `n`, the list `qbit_order` built by inserting `'remove'` at each of them
(i) has one entry per original qubit, (ii) read from left to right, its surviving entries are
`0, 1, …, n-k-1` — the kept qubits are renumbered by the unique increasing bijection —
and (iii) holds `'remove'` exactly at the removed positions. -/
theorem taper_reindex_spec (n : Nat) (rm : List Nat) (hs : rm.Pairwise (· < ·)) (hb : ∀ r ∈ rm, r < n) :
    (qbitOrder n rm).length = n ∧
    (qbitOrder n rm).filterMap id = List.range (n - rm.length) ∧
    ∀ x ∈ rm, (qbitOrder n rm)[x]? = some none := by
  have hnd : rm.Nodup := hs.imp (fun h => Nat.ne_of_lt h)
  have hk : rm.length ≤ n := by
    have h := count_lt_le rm hnd n
    have hall : rm.filter (· < n) = rm := List.filter_eq_self.mpr (by intro r hr; simpa using hb r hr)
    rw [hall] at h; exact h
  refine ⟨?_, ?_, ?_⟩
  · simp only [qbitOrder, fold_insert_length, List.length_map, List.length_range]; omega
  · simp only [qbitOrder, fold_insert_filterMap]
    simp [List.filterMap_map]
  · intro x hx
    exact fold_insert_removed rm _ hs (by
      intro r hr
      simp only [List.length_map, List.length_range]
      have := hb r hr; omega) x hx

/-- non-vacuity, and the list the Model computes for `n = 5`, removed `{1, 3}` -/
example : qbitOrder 5 [1, 3] = [some 0, none, some 1, none, some 2] := by decide

/-- **re-indexing of `project_onto_sector`**: the new index `j - #{q ∈ qubits : q < j}` of a kept
qubit is strictly increasing in `j` and lands below `n - k`: the kept qubits are renumbered
order-preservingly into `0 … n-k-1`, whatever the order in which `qubits` lists the removed ones. -/
theorem project_reindex_order_preserving (qubits : List Nat) (hq : qubits.Nodup) (n : Nat)
    (hn : ∀ q ∈ qubits, q < n) (j j' : Nat) (hj : j ∉ qubits) (hlt : j < j') (hj' : j' < n)
    (hj'q : j' ∉ qubits) :
    shiftDown qubits j < shiftDown qubits j' ∧ shiftDown qubits j' < n - qubits.length :=
  ⟨shiftDown_strictMono qubits hq hj hlt, shiftDown_lt qubits hq n hn hj'q hj'⟩

example : shiftDown [4, 1] 0 = 0 ∧ shiftDown [4, 1] 2 = 1 ∧ shiftDown [4, 1] 3 = 2 ∧ shiftDown [4, 1] 5 = 3 := by
  decide

/-- **re-indexing of `remove_indices`** (used by symmetry_conserving_bravyi_kitaev with the 1-based
positions `(n/2, n)`): `new_index` is strictly increasing on the qubits that are not removed. -/
theorem remove_indices_order_preserving (indices : List Nat) (hn : indices.Nodup)
    (h1 : ∀ i ∈ indices, 1 ≤ i) (j j' : Nat) (hj : j + 1 ∉ indices) (hlt : j < j') :
    newIndex indices j < newIndex indices j' := by
  rw [newIndex_eq_shiftDown indices h1, newIndex_eq_shiftDown indices h1]
  apply shiftDown_strictMono _ (nodup_map_pred indices h1 hn) _ hlt
  intro hmem
  obtain ⟨i, hi, hij⟩ := List.mem_map.mp hmem
  have := h1 i hi
  have : i = j + 1 := by omega
  exact hj (this ▸ hi)

example : newIndex [2, 4] 0 = 0 ∧ newIndex [2, 4] 2 = 1 := by decide

/-- **the scan of `freeze_orbitals`** over one term for one frozen orbital `(index, occupancy)`:
(i) the new term is the old one with the operators on that orbital deleted, order kept;
(ii) the swap counter equals the true number of transpositions needed to move those operators to
the right end (`trueSwaps`, defined without positions) **minus their number** — the code's
`op[0] - n_ops` is one too small for every operator moved;
(iii) the final occupancy is the initial one plus the number of those operators, mod 2. -/
theorem freeze_scan_spec (item : Nat × Nat) (term : Term) :
    (freezeScan item term).1 = term.filter (fun f => f.1 ≠ item.1) ∧
    (freezeScan item term).2.1 = (trueSwaps item.1 0 term.reverse : Int) - countIdx item.1 term ∧
    (freezeScan item term).2.2.2 % 2 = (item.2 + countIdx item.1 term) % 2 :=
  scan_spec item term

/-- … which is harmless: a term survives only if the occupancy returns to its initial value, then
the number of operators on the frozen orbital is even and the sign `(-1)^n_swaps` the code applies
is the sign of the true permutation. -/
theorem freeze_swap_parity (item : Nat × Nat) (term : Term)
    (hsurv : (freezeScan item term).2.2.2 = item.2) :
    countIdx item.1 term % 2 = 0 ∧
    (freezeScan item term).2.1 % 2 = (trueSwaps item.1 0 term.reverse : Int) % 2 := by
  obtain ⟨_, h2, h3⟩ := scan_spec item term
  rw [hsurv] at h3
  have hc : countIdx item.1 term % 2 = 0 := by omega
  refine ⟨hc, ?_⟩
  rw [h2]; omega

/-- non-vacuity: `a†_2 a_0 a†_1 a_1`-like term, orbital 1 occupied: survives, two operators moved -/
example : (freezeScan (1, 1) [(2, 1), (1, 1), (0, 0), (1, 0)]).2.2.2 = 1 ∧
    (freezeScan (1, 1) [(2, 1), (1, 1), (0, 0), (1, 0)]).1 = [(2, 1), (0, 0)] := by decide

/-- **fixed-position invariant of the stabilizer reduction**, against the Pauli table extracted
from the source on this run: if the stabilizer carries `f ∈ {X, Y, Z}` at the fixed position and a
term carries `f` or `other_op(f)` there, their product carries neither (it is `I` or the third
Pauli); and `other_op(f) ≠ f`.  Hence after `fix_single_term` every term has `I` or the third Pauli
at the fixed position. -/
theorem fixed_position_invariant :
    ∀ f ∈ [1, 2, 3], otherOpOf f ≠ f ∧ otherOpOf f ∈ [1, 2, 3] ∧
      ∀ a ∈ [f, otherOpOf f], (pauliProdK a f).2 ≠ f ∧ (pauliProdK a f).2 ≠ otherOpOf f := by
  decide

/-- **sector semantics of a single factor** (Spec): on qubit `q`, `Z` multiplies a basis state by
`(-1)^{bit q}` and keeps it; `X` and `Y` flip bit `q` (they leave the sector, so their matrix
elements inside a `Z_q` sector vanish); a Pauli on another qubit keeps bit `q`.  This is the meaning
of the three branches of `project_onto_sector` (sign `(-1)^sector`, dropped term, kept factor). -/
theorem sector_factor_spec (q s : Nat) :
    actP q 3 s = (if s.testBit q then 2 else 0, s) ∧
    (∀ p, p = 1 ∨ p = 2 → (actP q p s).2.testBit q = !s.testBit q) ∧
    (∀ q' p, q' ≠ q → (actP q' p s).2.testBit q = s.testBit q) := by
  refine ⟨by simp [actP], ?_, ?_⟩
  · intro p hp
    rcases hp with rfl | rfl <;> simp [actP, testBit_xflip]
  · intro q' p hq
    unfold actP
    split <;> simp [testBit_xflip_ne _ _ _ hq]

/-! ### operator-level statements in `Module.End GQ (ℕ →₀ GQ)`

`evOp A` is the endomorphism of the space of finite superpositions of computational basis states
denoted by the QubitOperator `A`; its matrix elements are the shared Spec's. -/

/-- `evOp` has the matrix elements of the shared Spec (`Spec.applyOp .qubit`). -/
theorem evOp_matrix_elements (A : Model.Op) (m x : Nat) :
    (evOp A (Finsupp.single m 1)) x = GV.coeff (applyOp .qubit A [m]) [x] :=
  evOp_apply A m x

/-- **`fix_single_term_equiv`**: whatever `fix_single_term` returns (the term itself or the term
times the stabilizer) acts like the term on every state `ψ` stabilized by the stabilizer
(`S ψ = ψ`), for arbitrary operators `term`, `stabilizer` with Pauli codes `< 4` (any coefficients,
any signs, any number of terms). -/
theorem fix_single_term_equiv (term stab r : Model.Op) (pos f o : Nat) (ht : Sem.ValidOp term)
    (hs : Sem.ValidOp stab) (h : fixSingleTerm term pos f o stab = .ok r) (ψ : QS)
    (hψ : evOp stab ψ = ψ) : evOp r ψ = evOp term ψ := by
  cases term with
  | nil => simp [fixSingleTerm, firstEntry] at h; cases h
  | cons e t =>
    simp only [fixSingleTerm, firstEntry] at h
    have h' : (if (e.1.contains (pos, f) || e.1.contains (pos, o)) = true then
        (Except.ok (mulOp .qubit (e :: t) stab) : Except Err Model.Op) else .ok (e :: t)) = .ok r := h
    split at h'
    · cases h'
      rw [evOp_mulOp _ _ ht hs, Module.End.mul_apply, hψ]
    · cases h'; rfl

/-- non-vacuity: `X0 X1` stabilizes `|00⟩ + |11⟩` and `Z0 Z1` (containing `Z` at the fixed position 0)
is multiplied by it -/
example : fixSingleTerm [([(0, 3), (1, 3)], 1)] 0 3 2 [([(0, 1), (1, 1)], 1)]
    = .ok (mulOp .qubit [([(0, 3), (1, 3)], 1)] [([(0, 1), (1, 1)], 1)]) := by decide +kernel

/-- **`reduce_terms_agrees_on_codespace`** at the live tolerance.  For any operator and any list
of stabilizers with Pauli codes `< 4` — any signs and coefficients, automatic or manual fixed
positions, commuting or not, independent or not — if the loop of `_reduce_terms` succeeds and its
exactness flag is `true` (every `new_terms +=` of this run was in the exact regime: no partial sum
non-zero but below the tolerance — computed by the same Model run and reported by the driver for
every generated input), then the reduced operator and the original one act identically on every
state `ψ` with `S ψ = ψ` for all stabilizers `S` (induction over the stabilizer list: the updated
stabilizers still stabilize `ψ`). -/
theorem reduce_terms_agrees_on_codespace (tol : Rat) (terms out : Model.Op) (stabs : List Model.Op)
    (manual : Bool) (fixed fx : List Nat) (stale : Bool) (hv : Sem.ValidOp terms)
    (hs : ∀ s ∈ stabs, Sem.ValidOp s)
    (h : reduceTerms tol terms stabs manual fixed = .ok (out, fx, stale, true)) (ψ : QS)
    (hψ : ∀ s ∈ stabs, evOp s ψ = ψ) : evOp out ψ = evOp terms ψ := by
  rw [reduceTerms_eq] at h
  generalize hf : List.foldlM (redBodyX tol manual) _ (List.range stabs.length) = x at h
  cases x with
  | error e => simp [bind, Except.bind] at h
  | ok r =>
    obtain ⟨⟨r1, r2⟩, rb⟩ := r
    simp only [bind, Except.bind, Except.ok.injEq, Prod.mk.injEq] at h
    have hI := (foldlM_inv tol manual ψ (evOp terms) _ _ (r1, r2) true rb hf h.2.2.2).2
      ⟨hv, fun s hsm => ⟨hs s hsm, hψ s hsm⟩, rfl⟩
    rw [← h.1]
    exact hI.2.2

/-- at tolerance 0 (no pruning) the exactness flag is always `true` -/
theorem reduce_terms_exact_of_tol_zero (L : List Model.Op) (acc : Model.Op) : exactSumB 0 acc L = true :=
  exactSumB_zero L acc

/-- non-vacuity at the live tolerance: `Z0 Z1 + 2·Y0 Y1` reduced with the stabilizer `X0 X1` is exact -/
example : (match reduceTerms eqTolerance [([(0, 3), (1, 3)], 1), ([(0, 2), (1, 2)], 2)]
      [[([(0, 1), (1, 1)], 1)]] false [] with
    | .ok r => r.2.2.2
    | .error _ => false) = true := by decide +kernel

/-! ### `project_onto_sector` as matrix elements between embedded states

`Emb n qubits sectors E` says that `E` embeds basis states of the small register (`n - k` qubits) into
the full one (`n` qubits): kept qubit `q` sits at bit `shiftDown qubits q` of the small mask, removed
qubits carry their sector value, `E` is injective on masks `< 2^(n-k)` (OFV/Proofs/C16Proj.lean).
`embed_emb` proves it for the embedding the Spec oracle uses, for every list of distinct qubits. -/

/-- **a kept term** (Pauli codes 1..3, no `X` / `Y` on a removed qubit): its matrix elements between
embedded states are those of the re-indexed term times `(-1)^(number of Z on sector-1 qubits)` —
the coefficient `project_onto_sector` stores.  Tolerance-free, any term length. -/
theorem project_term_kept (n : Nat) (qubits sectors : List Nat) (E : Nat → Nat) (hE : Emb n qubits sectors E)
    (hq : qubits.Nodup) (hqn : ∀ q ∈ qubits, q < n)
    (hsec : ∀ q, sectors[indexOf qubits q]?.getD 0 = 0 ∨ sectors[indexOf qubits q]?.getD 0 = 1)
    (τ : Model.Term) (hp : Pauli123 τ) (hz : ∀ f ∈ τ, f.1 ∈ qubits → f.2 = 3) (hn : ∀ f ∈ τ, f.1 < n)
    (s t : Nat) (hs : s < 2 ^ (n - qubits.length)) (ht : t < 2 ^ (n - qubits.length)) :
    Sem.termCoef .qubit τ [E s] [E t]
      = GQ.sgn (expo qubits sectors τ) * Sem.termCoef .qubit (newTerm qubits τ) [s] [t] :=
  termCoef_kept n qubits sectors E hE hq hqn hsec τ hp hz hn s t hs ht

/-- **a dropped term** (`X` or `Y` on a removed qubit, distinct qubit indices) has no matrix element
inside the sector. -/
theorem project_term_dropped (n : Nat) (qubits sectors : List Nat) (E : Nat → Nat) (hE : Emb n qubits sectors E)
    (τ : Model.Term) (hd : τ.Pairwise (fun a b => a.1 ≠ b.1))
    (hxy : τ.any (fun t => qubits.contains t.1 && (t.2 == 1 || t.2 == 2)) = true) (s t : Nat) :
    Sem.termCoef .qubit τ [E s] [E t] = 0 :=
  termCoef_dropped n qubits sectors E hE τ hd hxy s t

/-- **`project_onto_sector_sound`** at the live tolerance: if `project_onto_sector` succeeds on an
operator on `n` qubits whose terms are Pauli strings on distinct qubits and the exactness flag of the
run is `true` (every `projected_operator +=` in the exact regime; reported by the driver for every
generated input), then `⟨t| projected |s⟩ = ⟨E t| operator |E s⟩` for all basis states `s, t` of the
small register — the matrix elements of the shared Spec (`Spec.applyOp .qubit`). -/
theorem project_onto_sector_sound (tol : Rat) (n : Nat) (A B : Model.Op) (qubits sectors : List Nat)
    (E : Nat → Nat) (hE : Emb n qubits sectors E) (hq : qubits.Nodup) (hqn : ∀ q ∈ qubits, q < n)
    (hA : ∀ e ∈ A, Pauli123 e.1 ∧ e.1.Pairwise (fun a b => a.1 ≠ b.1) ∧ ∀ f ∈ e.1, f.1 < n)
    (h : projectOntoSector tol A qubits sectors = .ok (B, true)) (s t : Nat)
    (hs : s < 2 ^ (n - qubits.length)) (ht : t < 2 ^ (n - qubits.length)) :
    GV.coeff (applyOp .qubit B [s]) [t] = GV.coeff (applyOp .qubit A [E s]) [E t] := by
  unfold projectOntoSector at h
  split at h
  · cases h
  · split at h
    · cases h
    · rename_i hany
      have hsec : ∀ q, sectors[indexOf qubits q]?.getD 0 = 0 ∨ sectors[indexOf qubits q]?.getD 0 = 1 := by
        intro q
        cases hg : sectors[indexOf qubits q]? with
        | none => left; rfl
        | some v =>
          have hm : v ∈ sectors := List.mem_of_getElem? hg
          have : ¬ (sectors.any (fun i => decide (i ≠ 0 ∧ i ≠ 1)) = true) := hany
          rw [List.any_eq_true] at this
          have h2 : ¬ (v ≠ 0 ∧ v ≠ 1) := fun hv => this ⟨v, hm, by simpa using hv⟩
          simp only [Option.getD_some]
          omega
      simp only [Except.ok.injEq] at h
      have key := (project_fold tol n qubits sectors E hE hq hqn hsec s t hs ht A ([], true) hA (by rw [h])).2
      rw [h] at key
      simp only [Sem.den_nil, zero_add] at key
      exact key

/-- **the embedding the oracle uses is an `Emb`**, for every list of distinct removed qubits below `n`
(kept qubits in increasing order, sector-1 qubits set). -/
theorem spec_embed_is_emb (n : Nat) (qubits sectors : List Nat) (hq : qubits.Nodup)
    (hqn : ∀ q ∈ qubits, q < n) (hl : qubits.length = sectors.length) :
    Emb n qubits sectors (Spec.C16.embed (keptList n qubits) (onesList qubits sectors)) :=
  embed_emb n qubits sectors hq hqn hl

/-- **`project_onto_sector_sound` against the Spec embedding**: the statement the oracle
`Spec.C16.embedDiff` evaluates, for all `s, t < 2^(n-k)`. -/
theorem project_onto_sector_sound_spec (tol : Rat) (n : Nat) (A B : Model.Op) (qubits sectors : List Nat)
    (hq : qubits.Nodup) (hqn : ∀ q ∈ qubits, q < n)
    (hA : ∀ e ∈ A, Pauli123 e.1 ∧ e.1.Pairwise (fun a b => a.1 ≠ b.1) ∧ ∀ f ∈ e.1, f.1 < n)
    (h : projectOntoSector tol A qubits sectors = .ok (B, true)) (s t : Nat)
    (hs : s < 2 ^ (n - qubits.length)) (ht : t < 2 ^ (n - qubits.length)) :
    GV.coeff (applyOp .qubit B [s]) [t]
      = GV.coeff (applyOp .qubit A [Spec.C16.embed (keptList n qubits) (onesList qubits sectors) s])
          [Spec.C16.embed (keptList n qubits) (onesList qubits sectors) t] := by
  have hl : qubits.length = sectors.length := by
    unfold projectOntoSector at h
    split at h
    · cases h
    · rename_i hne; simpa using hne
  exact project_onto_sector_sound tol n A B qubits sectors _ (embed_emb n qubits sectors hq hqn hl) hq hqn hA h
    s t hs ht

/-- non-vacuity: `Z0 X1 + X0` on 2 qubits, qubit 0 removed in sector 1, at the live tolerance -/
example : (match projectOntoSector eqTolerance [([(0, 3), (1, 1)], 1), ([(0, 1)], 1)] [0] [1] with
    | .ok r => r.2
    | .error _ => false) = true ∧ Emb 2 [0] [1] (fun s => 2 * s + 1) :=
  ⟨by decide +kernel, emb_example 2⟩

/-- **`rotate_qubit_by_pauli_sound`**: for a Pauli string `P` on distinct qubits, `c² + s² = 1`,
called with `cos 2θ = c² - s²`, `sin 2θ = 2cs`, the Model of `rotate_qubit_by_pauli` succeeds and
its result denotes `(c - i s P) Q (c + i s P) = e^{-iθP} Q e^{iθP}` — as endomorphisms, for every
QubitOperator `Q` with Pauli codes `< 4` and complex coefficients, in the exact regime of the four
`+` / `-` it performs (`ExactAdd`: no partial sum is non-zero but below the tolerance). -/
theorem rotate_qubit_by_pauli_sound (tol : Rat) (qop : Model.Op) (p : Model.Term) (c s : GQ)
    (hq : Sem.ValidOp qop) (hp : Sem.ValidQ p) (hd : p.Pairwise (fun a b => a.1 ≠ b.1))
    (hcs : c * c + s * s = 1)
    (h1 : ExactAdd tol qop (rPQP qop [(p, 1)]))
    (h2 : ExactAdd tol qop ((rPQP qop [(p, 1)]).map fun e => (e.1, -e.2)))
    (h3 : ExactAdd tol (rEven tol qop [(p, 1)]) (Model.smul (c * c - s * s) (rOdd tol qop [(p, 1)])))
    (h4 : ExactAdd tol (rA tol qop [(p, 1)] (c * c - s * s)) (rLast tol qop [(p, 1)] (2 * c * s))) :
    ∃ r, rotateQubitByPauli tol qop [(p, 1)] (c * c - s * s) (2 * c * s) = .ok r ∧
      evOp r = (c • (1 : Module.End GQ QS) - (GQ.I * s) • evT p) * evOp qop
                 * (c • (1 : Module.End GQ QS) + (GQ.I * s) • evT p) := by
  refine ⟨_, rotate_eq tol qop p _ _, ?_⟩
  have hP : Sem.ValidOp [(p, (1 : GQ))] := by intro x hx; simp at hx; subst hx; exact hp
  have hPQ : Sem.ValidOp (mulOp .qubit [(p, 1)] qop) := Sem.mulOp_valid hP hq
  have hPQP : Sem.ValidOp (rPQP qop [(p, 1)]) := Sem.mulOp_valid hPQ hP
  have hOdd : Sem.ValidOp (rOdd tol qop [(p, 1)]) := smul_valid _ _ (isub_valid tol _ _ hq hPQP)
  have ePQP : evOp (rPQP qop [(p, 1)]) = evT p * evOp qop * evT p := by
    rw [rPQP, evOp_mulOp _ _ hPQ hP, evOp_mulOp _ _ hP hq, evOp_pauli]
  rw [evOp_iadd tol _ _ h4, rA, evOp_iadd tol _ _ h3, rLast, evOp_mulOp _ _ (smul_valid _ _ hOdd) hP,
    evOp_smul, evOp_smul, evOp_pauli, rEven, rOdd, evOp_smul, evOp_smul, evOp_iadd tol _ _ h1,
    evOp_isub tol _ _ h2, ePQP]
  exact rot_identity (evOp qop) (evT p) (evT_sq p hd) c s rHalf hcs rHalf_add

/-- non-vacuity: rotating `X0` about `Z0` with `(cos θ, sin θ) = (3/5, 4/5)` at the live tolerance -/
example : c35 * c35 + s45 * s45 = 1 ∧
    ExactAdd eqTolerance exX0 (rPQP exX0 [(exZ0, 1)]) ∧
    ExactAdd eqTolerance exX0 ((rPQP exX0 [(exZ0, 1)]).map fun e => (e.1, -e.2)) ∧
    ExactAdd eqTolerance (rEven eqTolerance exX0 [(exZ0, 1)])
      (Model.smul (c35 * c35 - s45 * s45) (rOdd eqTolerance exX0 [(exZ0, 1)])) ∧
    ExactAdd eqTolerance (rA eqTolerance exX0 [(exZ0, 1)] (c35 * c35 - s45 * s45))
      (rLast eqTolerance exX0 [(exZ0, 1)] (2 * c35 * s45)) := by
  decide +kernel

/-- **the scan of `freeze_orbitals` against the Fock-space Spec** (`Spec.actFTerm`), one product `τ`
of ladder operators and one frozen mode `f` with occupation `o`.  `Y` is a basis state in which mode
`f` is empty, `Y ⊕ o·2^f` the same state with the frozen occupation.  With
`(new_term, n_swaps, annihilated, occupancy) = freezeScan (f, o) τ`:
(i) if the code keeps the term (not annihilated, final occupancy `= o`), then `τ` acts on the frozen
state exactly as `new_term` acts on `Y`, times `(-1)^(n_swaps + o · #{operators of new_term above f})`
— the two signs the code applies — and the frozen mode keeps its occupation;
(ii) if the code drops the term, `τ` annihilates the frozen state or moves it out of the frozen
sector. -/
theorem freeze_term_sound (f o : Nat) (ho : o < 2) (τ : Model.Term) (hτ : ∀ g ∈ τ, g.2 < 2) (Y : Nat)
    (hY : Y.testBit f = false) :
    (((freezeScan (f, o) τ).2.2.1 = false ∧ (freezeScan (f, o) τ).2.2.2 = o) →
      match actFTerm (freezeScan (f, o) τ).1 Y with
      | none => actFTerm τ (Y ^^^ (if o = 1 then 1 <<< f else 0)) = none
      | some (ks, Ys) => Ys.testBit f = false ∧
          actFTerm τ (Y ^^^ (if o = 1 then 1 <<< f else 0)) = some ((ks + ((freezeScan (f, o) τ).2.1 % 2).toNat +
            o * ((freezeScan (f, o) τ).1.filter fun g => g.1 > f).length) % 2,
            Ys ^^^ (if o = 1 then 1 <<< f else 0))) ∧
    (¬ ((freezeScan (f, o) τ).2.2.1 = false ∧ (freezeScan (f, o) τ).2.2.2 = o) →
      ∀ kb Xb, actFTerm τ (Y ^^^ (if o = 1 then 1 <<< f else 0)) = some (kb, Xb) →
        Xb.testBit f = !decide (o = 1)) :=
  freeze_term f o ho τ hτ Y hY

/-- non-vacuity: `a†_2 a†_1 a_0 a_1` with mode 1 occupied on `|001⟩`: kept, one sign from the swaps -/
example : (freezeScan (1, 1) [(2, 1), (1, 1), (0, 0), (1, 0)]).2.2.1 = false ∧
    (freezeScan (1, 1) [(2, 1), (1, 1), (0, 0), (1, 0)]).2.2.2 = 1 ∧
    actFTerm (freezeScan (1, 1) [(2, 1), (1, 1), (0, 0), (1, 0)]).1 1 = some (0, 4) ∧
    actFTerm [(2, 1), (1, 1), (0, 0), (1, 0)] 3 = some (0, 6) := by decide

/-- **`freeze_orbitals_sound`** (whole operators, several frozen orbitals, `prune=False`) at the live
tolerance: for distinct frozen orbitals, an operator whose actions are 0/1, and the exactness flag of
the run `true` (every `tmp_operator +=` of every pass in the exact regime; reported by the driver
for every generated input), the result reproduces the matrix elements of the input between the
basis states that carry the frozen occupations:
`⟨T| freeze_orbitals(A) |Y⟩ = ⟨T ⊕ occ| A |Y ⊕ occ⟩` for all `Y, T` with the frozen modes empty —
the matrix elements of the shared Spec (`Spec.applyOp .fermion`). -/
theorem freeze_orbitals_sound (tol : Rat) (A : Model.Op) (occupied unoccupied : List Nat)
    (hnd : (occupied ++ unoccupied).Nodup) (hA : ∀ e ∈ A, ∀ g ∈ e.1, g.2 < 2)
    (hex : (freezeOrbitalsX tol A occupied unoccupied false).2 = true) (Y T : Nat)
    (hY : ∀ i ∈ occupied ++ unoccupied, Y.testBit i = false)
    (hT : ∀ i ∈ occupied ++ unoccupied, T.testBit i = false) :
    GV.coeff (applyOp .fermion (freezeOrbitals tol A occupied unoccupied false) [Y]) [T]
      = GV.coeff (applyOp .fermion A [Y ^^^ occupied.foldr (fun i m => m ^^^ (1 <<< i)) 0])
          [T ^^^ occupied.foldr (fun i m => m ^^^ (1 <<< i)) 0] :=
  freeze_orbitals_den tol A occupied unoccupied hnd hA hex Y T hY hT

/-- non-vacuity: `a†_2 a†_1 a_0 a_1 + 1/2 a†_0 a_0` with orbital 1 occupied and orbital 3 empty, at the
live tolerance: the flag is `true` and the result is `a†_2 a_0 + 1/2 a†_0 a_0` (the swap sign and the
occupied-orbital sign cancel) -/
example : (freezeOrbitalsX eqTolerance [([(2, 1), (1, 1), (0, 0), (1, 0)], 1), ([(0, 1), (0, 0)], ⟨1/2, 0⟩)]
      [1] [3] false).2 = true ∧
    (freezeOrbitalsX eqTolerance [([(2, 1), (1, 1), (0, 0), (1, 0)], 1), ([(0, 1), (0, 0)], ⟨1/2, 0⟩)]
      [1] [3] false).1 = [([(2, 1), (0, 0)], 1), ([(0, 1), (0, 0)], ⟨1/2, 0⟩)] := by
  decide +kernel

/-- **`prune_unused_indices_sound`**: for a FermionOperator dictionary `C` (distinct keys) and `S` the
increasing list of the modes `C` acts on, the pruned operator has between the basis states `s, x` of
the `|S|`-mode register the matrix elements of `C` between the states spread over `S`
(`Spec.C16.embed S []`: bit `j` goes to mode `S[j]`): the relabelling is the order-preserving
bijection, so the Jordan–Wigner-like signs of the Spec (occupied modes below) are unchanged. -/
theorem prune_unused_indices_sound (C : Model.Op) (hwf : Dict.WF C) (S : List Nat) (hS : S.Pairwise (· < ·))
    (hmem : ∀ x, x ∈ S ↔ ∃ e ∈ C, ∃ g ∈ e.1, g.1 = x) (s x : Nat)
    (hs : s < 2 ^ S.length) (hx : x < 2 ^ S.length) :
    GV.coeff (applyOp .fermion (pruneUnusedIndices C) [s]) [x]
      = GV.coeff (applyOp .fermion C [Spec.C16.embed S [] s]) [Spec.C16.embed S [] x] := by
  obtain ⟨u1, u2⟩ := sortedUsed_spec C
  have hSeq : S = sortedUsed C := sorted_unique _ _ hS u1 (fun y => by rw [hmem y, u2 y])
  subst hSeq
  exact prune_den C hwf s x hs hx

/-- non-vacuity: `a†_5 a_2 + 2 a†_7 a_7` is relabelled to `a†_1 a_0 + 2 a†_2 a_2` -/
example : pruneUnusedIndices [([(5, 1), (2, 0)], 1), ([(7, 1), (7, 0)], 2)]
      = [([(1, 1), (0, 0)], 1), ([(2, 1), (2, 0)], 2)] ∧
    Dict.WF ([([(5, 1), (2, 0)], 1), ([(7, 1), (7, 0)], 2)] : Model.Op) ∧
    ([2, 5, 7] : List Nat).Pairwise (· < ·) := by
  refine ⟨by decide +kernel, by unfold Dict.WF Dict.keys; decide, by decide⟩

/-- **`freeze_orbitals_sound` with `prune=True`** at the live tolerance: with `S` the increasing list of
the modes the unpruned result acts on, `⟨x| freeze_orbitals(A, prune=True) |s⟩ = ⟨embed x| A |embed s⟩`
for all `s, x < 2^|S|`, where `Spec.C16.embed S occupied` sends bit `j` to mode `S[j]` and sets the
occupied frozen modes — the statement the harness oracle (`c16.spec_embed_eq`) evaluates; hypotheses:
distinct frozen orbitals, a dictionary with distinct keys and actions 0/1, exactness flag `true`. -/
theorem freeze_orbitals_prune_sound (tol : Rat) (A : Model.Op) (occupied unoccupied : List Nat)
    (hnd : (occupied ++ unoccupied).Nodup) (hwf : Dict.WF A) (hA : ∀ e ∈ A, ∀ g ∈ e.1, g.2 < 2)
    (hex : (freezeOrbitalsX tol A occupied unoccupied true).2 = true)
    (S : List Nat) (hS : S.Pairwise (· < ·))
    (hmem : ∀ x, x ∈ S ↔ ∃ e ∈ freezeOrbitals tol A occupied unoccupied false, ∃ g ∈ e.1, g.1 = x)
    (s x : Nat) (hs : s < 2 ^ S.length) (hx : x < 2 ^ S.length) :
    GV.coeff (applyOp .fermion (freezeOrbitals tol A occupied unoccupied true) [s]) [x]
      = GV.coeff (applyOp .fermion A [Spec.C16.embed S occupied s]) [Spec.C16.embed S occupied x] :=
  freeze_prune_den tol A occupied unoccupied hnd hwf hA hex S hS hmem s x hs hx

/-- non-vacuity: the example of `freeze_orbitals_sound` pruned: modes `{0, 2}` become `{0, 1}` -/
example : (freezeOrbitalsX eqTolerance [([(2, 1), (1, 1), (0, 0), (1, 0)], 1), ([(0, 1), (0, 0)], ⟨1/2, 0⟩)]
      [1] [3] true).2 = true ∧
    (freezeOrbitalsX eqTolerance [([(2, 1), (1, 1), (0, 0), (1, 0)], 1), ([(0, 1), (0, 0)], ⟨1/2, 0⟩)]
      [1] [3] true).1 = [([(1, 1), (0, 0)], 1), ([(0, 1), (0, 0)], ⟨1/2, 0⟩)] := by
  decide +kernel

/-- **`scbk_sector_sound`** (the reduction of `symmetry_conserving_bravyi_kitaev`, Model level, all four
cases of `N mod 4`).  Let `Q` be a qubit operator on `n ≥ 2` qubits whose terms are Pauli strings on
distinct qubits that carry only `I` or `Z` on the last qubit `n-1` and on the middle qubit `n/2-1`
(what the Bravyi-Kitaev tree transform of a number- and spin-conserving Hamiltonian with up-then-down
ordering looks like), and let the exactness flag of the run be `true` (neither `compress` call
truncates a coefficient; reported by the driver).  Then the operator the code returns —
`edit_hamiltonian_for_spin(·, n, p_final)`, `edit_hamiltonian_for_spin(·, n/2, p_middle)`,
`remove_indices(·, (n/2, n))` with `(p_final, p_middle) = (+,+), (-,-), (+,-), (-,+)` for
`N mod 4 = 0, 1, 2, 3` — has, between the basis states `s, t` of the `n-2` remaining qubits, the matrix
elements of `Q` between the states with the last qubit in `|1⟩` iff `p_final = -1` and the middle qubit
in `|1⟩` iff `p_middle = -1` (`Spec.C16.embed`, the statement the harness oracle evaluates). -/
theorem scbk_sector_sound (tol : Rat) (n N : Nat) (Q : Model.Op) (hn : 2 ≤ n)
    (hQ : ∀ e ∈ Q, Good n (n - 1) (n / 2 - 1) e.1) (hex : scbkExact tol Q n N = true) (s t : Nat)
    (hs : s < 2 ^ (n - 2)) (ht : t < 2 ^ (n - 2)) :
    GV.coeff (applyOp .qubit (scbkReduce tol Q n N) [s]) [t]
      = GV.coeff (applyOp .qubit Q
          [Spec.C16.embed (keptList n [n / 2 - 1, n - 1]) (onesList [n / 2 - 1, n - 1] [sigmaM N, sigmaF N]) s])
          [Spec.C16.embed (keptList n [n / 2 - 1, n - 1]) (onesList [n / 2 - 1, n - 1] [sigmaM N, sigmaF N]) t] :=
  scbk_den tol n N Q hn hQ hex s t hs ht

/-- the sector bits: `N mod 4 = 0, 1, 2, 3` fixes (middle, last) to `(0,0), (1,1), (1,0), (0,1)` -/
example : (List.range 4).map (fun N => (sigmaM N, sigmaF N)) = [(0, 0), (1, 1), (1, 0), (0, 1)] := by decide

/-- non-vacuity: `Z_3 + 1/2 Z_1 Z_3 + X_0 X_2` on 4 qubits with `N = 1` (both parities `-1`), at the
live tolerance: the flag is `true` and the result is `-1 + 1/2 + X_0 X_1` -/
example : scbkExact eqTolerance [([(3, 3)], 1), ([(1, 3), (3, 3)], ⟨1/2, 0⟩), ([(0, 1), (2, 1)], 1)] 4 1 = true ∧
    scbkReduce eqTolerance [([(3, 3)], 1), ([(1, 3), (3, 3)], ⟨1/2, 0⟩), ([(0, 1), (2, 1)], 1)] 4 1
      = [([], ⟨-1/2, 0⟩), ([(0, 1), (1, 1)], 1)] := by
  decide +kernel

/-- **`qbit_order`** in closed form: for sorted distinct removed positions below `n`, entry `p < n` is
`'remove'` when `p` is removed and `p - #{removed < p}` otherwise. -/
theorem taper_qbit_order (n : Nat) (rm : List Nat) (hs : rm.Pairwise (· < ·)) (hb : ∀ r ∈ rm, r < n) (p : Nat)
    (hp : p < n) : (qbitOrder n rm)[p]? = some (if p ∈ rm then none else some (shiftDown rm p)) :=
  qbitOrder_get n rm hs hb p hp

/-- **`taper_off_qubits_invariant_subspace`** (the spectrum statement).  Let `ham` be the reduced operator
and `rm` the fixed positions returned by `reduce_number_of_terms` inside `taper_off_qubits`, `n` the
register size the code computes, `rmS` the sorted removed positions, and suppose `ham` consists of
Pauli strings on distinct qubits below `n` that carry on the removed qubits only `I`, `X`, or — on
removed qubits where the register `m` holds `0` — `Z` (with `m = 0`: the flag `taperHypX` the driver
reports says that every removed qubit is of one kind, `I/X` when the fixed Pauli of its stabilizer is
`Z`, `I/Z` when it is `X` or `Y`), the removed positions are distinct and below `n`, and the exactness
flag of the run is `true`.  Write `|s; m⟩` for the basis state with the kept qubits in `s` (in
increasing order) and the removed qubits in `m`
(`Spec.C16.embed kept [] s ⊕ Spec.C16.embed removed [] m`).  Then for all `s, t`:
`Σ_{m'} ⟨t; m'| ham |s; m⟩ = ⟨t| tapered |s⟩`.
When every removed qubit is of one kind this says `ham (|s⟩ ⊗ |χ⟩) = (tapered |s⟩) ⊗ |χ⟩` with `|χ⟩` the
product of `|+⟩` on the `I/X` qubits and `|0⟩` on the `I/Z` qubits: the tapered operator is the
restriction of the reduced operator to an invariant subspace, so its spectrum is contained in that of
`ham` (which agrees with the input on the code space: `reduce_terms_agrees_on_codespace`). -/
theorem taper_off_qubits_invariant_subspace (tol : Rat) (operator : Model.Op) (stabs : List Model.Op)
    (manual : Bool) (fixed : Option (List Nat)) (ham out : Model.Op) (rm rmS : List Nat) (stale stale' ex : Bool)
    (hred : reduceNumberOfTerms tol operator stabs false manual fixed = .ok (ham, rm, stale, ex))
    (h : taperOffQubits tol operator stabs manual fixed = .ok (out, rmS, stale', true))
    (hnd : rm.Nodup)
    (hb : ∀ r ∈ rm, r < max (countQubits operator) (stabs.foldl (fun m s => max m (countQubits s)) 0))
    (m : Nat)
    (hA : ∀ e ∈ ham, Pauli123 e.1 ∧
      (∀ f ∈ e.1, f.1 < max (countQubits operator) (stabs.foldl (fun m s => max m (countQubits s)) 0)) ∧
      e.1.Pairwise (fun a b => a.1 ≠ b.1) ∧
      ∀ f ∈ e.1, f.1 ∈ rmS → f.2 = 1 ∨ (f.2 = 3 ∧ m.testBit (indexOf rmS f.1) = false))
    (s t : Nat) (hm : m < 2 ^ rm.length)
    (hs : s < 2 ^ (max (countQubits operator) (stabs.foldl (fun m s => max m (countQubits s)) 0) - rm.length))
    (ht : t < 2 ^ (max (countQubits operator) (stabs.foldl (fun m s => max m (countQubits s)) 0) - rm.length)) :
    ((List.range (2 ^ rm.length)).map fun m' =>
        GV.coeff (applyOp .qubit ham
          [Spec.C16.embed (keptList (max (countQubits operator)
              (stabs.foldl (fun m s => max m (countQubits s)) 0)) rmS) [] s ^^^ Spec.C16.embed rmS [] m])
          [Spec.C16.embed (keptList (max (countQubits operator)
              (stabs.foldl (fun m s => max m (countQubits s)) 0)) rmS) [] t ^^^ Spec.C16.embed rmS [] m']).sum
      = GV.coeff (applyOp .qubit out [s]) [t] := by
  unfold taperOffQubits at h
  simp only [hred, bind, Except.bind] at h
  obtain ⟨g1, g2⟩ := insertSort_spec rm hnd
  cases hst : taperStrip tol (max (countQubits operator) (stabs.foldl (fun m s => max m (countQubits s)) 0)) ham
      (rm.foldr insertSorted []) with
  | error e => simp [hst] at h
  | ok o =>
    simp only [hst, Except.ok.injEq, Prod.mk.injEq, Bool.and_eq_true] at h
    obtain ⟨h1, h2, _, _, h5⟩ := h
    subst h2
    have hlen : (rm.foldr insertSorted []).length = rm.length := by
      have p1 : (rm.foldr insertSorted []).Perm rm :=
        (List.perm_ext_iff_of_nodup (pairwise_lt_nodup _ g1) hnd).mpr g2
      exact p1.length_eq
    have ho : o = (out, true) := Prod.ext h1 h5
    rw [ho] at hst
    have := taperStrip_den tol _ ham (rm.foldr insertSorted []) out g1 (fun r hr => hb r ((g2 r).mp hr)) m
      hA hst s t (by rw [hlen]; exact hm) (by rw [hlen]; exact hs) (by rw [hlen]; exact ht)
    rw [hlen] at this
    exact this

/-- non-vacuity: `X_0 X_1 + 1/2 Z_0 Z_1... ` tapered with the stabilizer `Z_0 Z_1`: qubit 0 is removed,
the reduced operator carries only `I`/`X` there, flag `true` -/
example : taperHypX eqTolerance [([(0, 1), (1, 1)], 1), ([(0, 3), (1, 3)], ⟨1/2, 0⟩), ([(1, 3)], 2)]
      [[([(0, 3), (1, 3)], 1)]] false none = true ∧
    (match taperOffQubits eqTolerance [([(0, 1), (1, 1)], 1), ([(0, 3), (1, 3)], ⟨1/2, 0⟩), ([(1, 3)], 2)]
        [[([(0, 3), (1, 3)], 1)]] false none with
      | .ok r => (r.2.1, r.2.2.2)
      | .error _ => ([], false)) = ([0], true) := by
  decide +kernel

/-- **`edit_hamiltonian_for_spin_sound`** (the public helper on its own).  For a qubit operator on `n`
qubits whose terms are Pauli strings on distinct qubits with only `I` or `Z` on qubit
`spin_orbital - 1`, a parity factor `±1 = (-1)^σ`, and the exactness flag of `compress` `true`,
`edit_hamiltonian_for_spin(A, spin_orbital, parity)` has the matrix elements of `A` between all basis
states in which that qubit holds `σ` (the states `Spec.C16.embed kept ones s`): replacing `Z` by the
parity factor is exact on that sector. -/
theorem edit_hamiltonian_for_spin_sound (tol : Rat) (n so σ : Nat) (par : GQ) (A : Model.Op) (hso : 1 ≤ so)
    (hson : so ≤ n) (hσ : σ = 0 ∨ σ = 1) (hpar : par = GQ.sgn σ)
    (hA : ∀ e ∈ A, Pauli123 e.1 ∧ e.1.Pairwise (fun a b => a.1 ≠ b.1) ∧ (∀ f ∈ e.1, f.1 < n) ∧
      ∀ f ∈ e.1, f.1 = so - 1 → f.2 = 3)
    (hex : compressExactB tol (editRaw A so par) = true) (s t : Nat)
    (hs : s < 2 ^ (n - 1)) (ht : t < 2 ^ (n - 1)) :
    GV.coeff (applyOp .qubit (editHamiltonianForSpin tol A so par)
        [Spec.C16.embed (keptList n [so - 1]) (onesList [so - 1] [σ]) s])
        [Spec.C16.embed (keptList n [so - 1]) (onesList [so - 1] [σ]) t]
      = GV.coeff (applyOp .qubit A
        [Spec.C16.embed (keptList n [so - 1]) (onesList [so - 1] [σ]) s])
        [Spec.C16.embed (keptList n [so - 1]) (onesList [so - 1] [σ]) t] :=
  edit_den tol n so σ par A hso hson hσ hpar hA hex s t hs ht

/-- **`remove_indices_sound`** (the public helper on its own).  For a dictionary with distinct keys
whose terms are Pauli strings below `n` that do not act on the qubits `i - 1`, `i ∈ indices` (distinct,
`1 ≤ i ≤ n`), `remove_indices(A, indices)` has between the basis states of the `n - |indices|`
remaining qubits the matrix elements of `A` between the states spread over the kept qubits in
increasing order (removed qubits in `|0⟩`). -/
theorem remove_indices_sound (n : Nat) (A : Model.Op) (idx : List Nat) (h1 : ∀ i ∈ idx, 1 ≤ i ∧ i ≤ n)
    (hnd : idx.Nodup) (hwf : Dict.WF A)
    (hA : ∀ e ∈ A, Pauli123 e.1 ∧ (∀ f ∈ e.1, f.1 < n) ∧ ∀ f ∈ e.1, f.1 ∉ idx.map (· - 1))
    (s t : Nat) (hs : s < 2 ^ (n - idx.length)) (ht : t < 2 ^ (n - idx.length)) :
    GV.coeff (applyOp .qubit (removeIndices A idx) [s]) [t]
      = GV.coeff (applyOp .qubit A [Spec.C16.embed (keptList n (idx.map (· - 1))) [] s])
          [Spec.C16.embed (keptList n (idx.map (· - 1))) [] t] :=
  removeIndices_den n A idx h1 hnd hwf hA s t hs ht

/-- non-vacuity: `Z_1 + 1/2 X_0 Z_1` edited at spin orbital 2 with parity `-1`, then qubit 1 removed -/
example : compressExactB eqTolerance (editRaw [([(1, 3)], 1), ([(0, 1), (1, 3)], ⟨1/2, 0⟩)] 2 (-1)) = true ∧
    editHamiltonianForSpin eqTolerance [([(1, 3)], 1), ([(0, 1), (1, 3)], ⟨1/2, 0⟩)] 2 (-1)
      = [([], -1), ([(0, 1)], ⟨-1/2, 0⟩)] ∧
    removeIndices [([], -1), ([(0, 1)], ⟨-1/2, 0⟩)] [2] = [([], -1), ([(0, 1)], ⟨-1/2, 0⟩)] := by
  decide +kernel

end OFV.C16
