/- C16 — property theorems. -/
import OFV.Model.C16
import OFV.Spec.C16

namespace OFV.C16
open OFV OFV.Model.C16

theorem otherOp_ne (f : Nat) : otherOpOf f ≠ f := by
  unfold otherOpOf; split <;> omega

end OFV.C16
