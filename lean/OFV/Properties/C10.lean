import OFV.Model.C10
import OFV.Spec.C10

namespace OFV.C10

end OFV.C10
