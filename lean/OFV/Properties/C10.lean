/-
C10 — property theorems (symmetry sectors and basis-state helpers).
Helper lemmas live in OFV/Proofs/C10*.lean.  Every theorem is audited with `#print axioms`.

Conventions: Fock masks have mode `j` = bit `j` (`OFV.Spec`); matrix indices of
`get_sparse_operator` / `jw_configuration_state` are big-endian (mode `j` = bit `n - 1 - j`);
`countBelow s n` is the particle number of a mask / index on `n` modes.  The Model functions
(`jwNumberIndices`, `configIndex`, `applyTermDet`, …, OFV.Model.C10) are the ones the driver
executes against the real code.
-/
import OFV.Proofs.C10Det
import OFV.Proofs.C10Sz
import OFV.Proofs.C10SzOp
import OFV.Proofs.C10Basis
import OFV.Proofs.C10Two
import OFV.Proofs.C10Spin
import OFV.Proofs.C10Lookup
import OFV.Proofs.C10Entries
import OFV.Proofs.C10Filter
import OFV.Proofs.C10Sum
import OFV.Proofs.C10Expect
import OFV.Proofs.C10Su2
import OFV.Proofs.C10Su2b
import OFV.Proofs.C10Restrict

namespace OFV.C10
open OFV.Model OFV.Model.C10 OFV.Spec OFV.Spec.C10

/-! ## itertools.combinations (the enumeration behind every index list) -/

/-- `combinations l k` yields exactly the sublists of `l` of length `k`, … -/
theorem combinations_spec {α : Type} (l s : List α) (k : Nat) :
    s ∈ combinations l k ↔ s.Sublist l ∧ s.length = k := mem_combinations l s k

/-- … each exactly once when the pool has no repeated element. -/
theorem combinations_nodup {α : Type} (l : List α) (k : Nat) (h : l.Nodup) : (combinations l k).Nodup :=
  nodup_combinations l k h

/-! ## jw_number_indices -/

/-- `jw_number_indices(k, n)` enumerates, each exactly once, the indices `i < 2^n` with
particle number `k`, for all `n` and `k`. -/
theorem number_indices_spec (n k : Nat) :
    (jwNumberIndices k n).Nodup ∧ ∀ i, i ∈ jwNumberIndices k n ↔ i < 2 ^ n ∧ countBelow i n = k :=
  ⟨nodup_numberIndices n k, mem_numberIndices n k⟩

/-- The fermionic `number_operator(n)` of the Model (`Σ_m c · m^ m`, built with `+=`) is diagonal
in the Spec action, with eigenvalue (particle number) · `c`. -/
theorem number_operator_diag (tol : Rat) (n : Nat) (c : GQ) (hc : GQ.isSmall tol c = false) (s t : Nat) :
    melF (numberOperator tol n none c) t s = if t = s then natMul (countBelow s n) c else 0 := by
  rw [numberOperator_eq tol n c hc, melF_numTerms, occCount_range]

/-- Every basis state listed by `jw_number_indices(k, n)` is an eigenstate of the number operator
with eigenvalue `k`, and every eigenvalue-`k` basis state `< 2^n` is listed. -/
theorem number_indices_eigen (tol : Rat) (n k : Nat) (htol : GQ.isSmall tol 1 = false) (i : Nat) (hi : i < 2 ^ n) :
    i ∈ jwNumberIndices k n ↔ melF (numberOperator tol n none 1) i i = natMul k 1 := by
  rw [number_operator_diag tol n 1 htol, if_pos rfl, mem_numberIndices]
  constructor
  · rintro ⟨_, h⟩; rw [h]
  · intro h
    refine ⟨hi, ?_⟩
    have := congrArg GQ.re h
    simp only [natMul, GQ.one_re, Rat.mul_one] at this
    exact_mod_cast this

/-- Matrix level (`restrict_is_projection`, index part): the matrices of `get_sparse_operator`
index basis states big-endian; the basis state with matrix index `i` is the Spec mask
`maskOfIndex n i` (bit reversal).  `jw_number_indices(k, n)` lists exactly the matrix indices
whose basis state is an eigenstate of the number operator with eigenvalue `k`, so
`M[ix_(I, I)]` is the compression of `M` to that eigenspace, in list order. -/
theorem number_indices_matrix_sector (tol : Rat) (n k : Nat) (htol : GQ.isSmall tol 1 = false) (i : Nat)
    (hi : i < 2 ^ n) :
    i ∈ jwNumberIndices k n ↔
      melF (numberOperator tol n none 1) (maskOfIndex n i) (maskOfIndex n i) = natMul k 1 := by
  rw [number_operator_diag tol n 1 htol, if_pos rfl, mem_numberIndices, popcount_maskOfIndex]
  constructor
  · rintro ⟨_, h⟩; rw [h]
  · intro h
    refine ⟨hi, ?_⟩
    have := congrArg GQ.re h
    simp only [natMul, GQ.one_re, Rat.mul_one] at this
    exact_mod_cast this

/-- **restrict_is_projection** (`jw_number_restrict_operator`): let `M` be the matrix of the fermion operator `A` in the
`get_sparse_operator` convention (`M[a][b] = ⟨a| A |b⟩` with big-endian indices, `maskOfIndex`).  Then
`M[ix_(I, I)]` with `I = jw_number_indices(k, n)` is an `|I| x |I|` matrix whose entry `(p, q)` is the Spec matrix element
of `A` between the `p`-th and `q`-th listed basis states, each of which has particle number `k`; with
`number_indices_spec` (every weight-`k` state listed exactly once) it is the compression of `A` to the `k`-particle
sector, in list order. -/
theorem number_restrict_is_compression (A : Op) (n k : Nat) (M : List (List GQ))
    (hM : ∀ a b, a < 2 ^ n → b < 2 ^ n → (M.getD a []).getD b 0 = melF A (maskOfIndex n a) (maskOfIndex n b)) :
    (restrictOp M (jwNumberIndices k n)).length = (jwNumberIndices k n).length ∧
    (∀ row ∈ restrictOp M (jwNumberIndices k n), row.length = (jwNumberIndices k n).length) ∧
    ∀ p q, p < (jwNumberIndices k n).length → q < (jwNumberIndices k n).length →
      ((restrictOp M (jwNumberIndices k n)).getD p []).getD q 0 =
        melF A (maskOfIndex n ((jwNumberIndices k n).getD p 0)) (maskOfIndex n ((jwNumberIndices k n).getD q 0)) ∧
      countBelow (maskOfIndex n ((jwNumberIndices k n).getD p 0)) n = k := by
  obtain ⟨s1, s2⟩ := restrictOp_shape M (jwNumberIndices k n)
  refine ⟨s1, s2, ?_⟩
  intro p q hp hq
  have mem : ∀ r, r < (jwNumberIndices k n).length → (jwNumberIndices k n).getD r 0 ∈ jwNumberIndices k n := by
    intro r hr
    rw [List.getD_eq_getElem?_getD, List.getElem?_eq_getElem hr]; exact List.getElem_mem hr
  have hp' := (mem_numberIndices n k _).mp (mem p hp)
  have hq' := (mem_numberIndices n k _).mp (mem q hq)
  rw [restrictOp_entry M _ p q hp hq, hM _ _ hp'.1 hq'.1, popcount_maskOfIndex]
  exact ⟨rfl, hp'.2⟩

/-- the restricted state `state[I]` has the entries of the state at the listed indices, in list order -/
theorem restrict_state_entries (v : List GQ) (idx : List Nat) (p : Nat) (hp : p < idx.length) :
    (restrictState v idx).length = idx.length ∧ (restrictState v idx).getD p 0 = v.getD (idx.getD p 0) 0 :=
  restrictState_entry v idx p hp

/-! ## jw_sz_indices

`occAt n I k` is the occupation of mode `k` read from the big-endian matrix index `I`
(bit `n - 1 - k`); `MapsOK n sites up down`: the index maps go into the register, are injective
and have disjoint ranges (true for the defaults, `sz_maps_default`). -/

/-- `jw_sz_indices(sz, n, n_electrons, up_index, down_index)`, when it returns, enumerates each
exactly once the indices `I < 2^n` that occupy only up / down modes, with `numUp` up particles
and `numDown` down particles, where `numUp + numDown = n_electrons` and
`numUp - numDown = 2 sz` — i.e. the basis states of that `S_z` and particle number. -/
theorem sz_indices_spec_fixed (sz : Rat) (n ne : Nat) (up down : Nat → Nat) (l : List Nat)
    (h : jwSzIndices sz n (some ne) up down = .ok l) (hm : MapsOK n (n / 2) up down) :
    ∃ numUp numDown : Nat, numUp + numDown = ne ∧ ((numUp : Int) - numDown = (2 * sz).num) ∧ (2 * sz).den = 1 ∧
      l.Nodup ∧ ∀ I, I ∈ l ↔
        I < 2 ^ n ∧
        (∀ k, k < n → occAt n I k = true → ∃ s, s < n / 2 ∧ (k = up s ∨ k = down s)) ∧
        ((List.range (n / 2)).filter fun s => occAt n I (up s)).length = numUp ∧
        ((List.range (n / 2)).filter fun s => occAt n I (down s)).length = numDown :=
  sz_indices_spec_fixed' sz n ne up down l h hm

/-- `jw_sz_indices(sz, n, None, up_index, down_index)` (particle number not fixed), when it
returns, enumerates each exactly once the indices `I < 2^n` occupying only up / down modes whose
number of majority-spin particles exceeds the number of minority-spin particles by `|2 sz|`
(majority = down for `sz < 0`, up otherwise) — i.e. all basis states of that `S_z`. -/
theorem sz_indices_spec_free (sz : Rat) (n : Nat) (up down : Nat → Nat) (l : List Nat)
    (h : jwSzIndices sz n none up down = .ok l) (hm : MapsOK n (n / 2) up down) :
    let more := if (2 * sz).num < 0 then down else up
    let less := if (2 * sz).num < 0 then up else down
    (2 * sz).den = 1 ∧ l.Nodup ∧ ∀ I, I ∈ l ↔
      I < 2 ^ n ∧
      (∀ k, k < n → occAt n I k = true → ∃ s, s < n / 2 ∧ (k = more s ∨ k = less s)) ∧
      ((List.range (n / 2)).filter fun s => occAt n I (more s)).length
        = ((List.range (n / 2)).filter fun s => occAt n I (less s)).length + (2 * sz).num.natAbs := by
  unfold jwSzIndices at h
  split at h
  · cases h
  · split at h
    · cases h
    · next hden =>
      simp only [Except.ok.injEq] at h
      subst h
      by_cases hneg : (2 * sz).num < 0
      · simp only [hneg, if_true]
        exact ⟨by simpa using hden, sz_free_branch hm.swap _⟩
      · simp only [hneg, if_false]
        exact ⟨by simpa using hden, sz_free_branch hm _⟩

/-- the default maps `up_index(i) = 2 i`, `down_index(i) = 2 i + 1` are admissible on `2 · sites`
qubits and cover every mode -/
theorem sz_maps_default (sites : Nat) :
    MapsOK (2 * sites) sites upIndex downIndex ∧
      ∀ k, k < 2 * sites → ∃ s, s < sites ∧ (k = upIndex s ∨ k = downIndex s) :=
  ⟨mapsOK_default sites, cover_default sites⟩

/-- The Model's `sz_operator(sites)` (built with `+=` from number operators with coefficients
`±1/2`) is diagonal in the Spec action with eigenvalue `(#up - #down)/2`. -/
theorem sz_operator_diag (tol : Rat) (sites : Nat) (h1 : GQ.isSmall tol Model.C10.half = false)
    (h2 : GQ.isSmall tol (-Model.C10.half) = false) (s t : Nat) :
    melF (Model.C10.sz tol sites) t s = if t = s then
      ⟨(((List.range sites).filter fun i => s.testBit (upIndex i)).length : Rat) * mkRat 1 2
        - (((List.range sites).filter fun i => s.testBit (downIndex i)).length : Rat) * mkRat 1 2, 0⟩ else 0 := by
  rw [melF_sz tol sites h1 h2]
  split
  · exact occSum_szList sites s
  · rfl

/-- Matrix level (`restrict_is_projection`, S_z part): every matrix index listed by
`jw_sz_indices(sz, 2·sites, n_electrons)` (default index maps) is, through the bit reversal, an
eigenstate of the `sz_operator` with eigenvalue `sz`. -/
theorem sz_indices_eigen (tol : Rat) (sz : Rat) (sites ne : Nat) (l : List Nat)
    (h : jwSzIndices sz (2 * sites) (some ne) upIndex downIndex = .ok l)
    (h1 : GQ.isSmall tol Model.C10.half = false) (h2 : GQ.isSmall tol (-Model.C10.half) = false)
    (I : Nat) (hI : I ∈ l) :
    melF (Model.C10.sz tol sites) (maskOfIndex (2 * sites) I) (maskOfIndex (2 * sites) I) = ⟨sz, 0⟩ :=
  sz_indices_eigen' tol sz sites ne l h h1 h2 I hI

/-! ## jw_configuration_state / jw_hartree_fock_state: one mode-to-bit convention -/

/-- `jw_configuration_state(occ, n)` puts its 1 at an index `< 2^n` whose bit `n - 1 - j`
(big-endian, as `get_sparse_operator`) is set exactly for the occupied modes `j`. -/
theorem configuration_state_index (occ : List Nat) (n : Nat) (h : occ.Nodup) (hlt : ∀ i ∈ occ, i < n) :
    configIndex occ n < 2 ^ n ∧
      ∀ j, j < n → (configIndex occ n).testBit (n - 1 - j) = decide (j ∈ occ) :=
  configIndex_bits occ n h hlt

/-- The Spec mask of that index (bit reversal) is `Σ_{j ∈ occ} 2^j`: mode `j` = bit `j`. -/
theorem configuration_state_mask (occ : List Nat) (n : Nat) (h : occ.Nodup) (hlt : ∀ i ∈ occ, i < n) :
    maskOfIndex n (configIndex occ n) = (occ.map (2 ^ ·)).sum := configIndex_mask occ n h hlt

/-- `jw_hartree_fock_state(k, n)`: the first `k` modes are the `k` most significant bits. -/
theorem hartree_fock_index (k n : Nat) (h : k ≤ n) : hartreeFockIndex k n + 2 ^ (n - k) = 2 ^ n :=
  hartreeFockIndex_closed k n h

/-- The vector input of `expectation_computational_basis_state` reads
`jw_configuration_state(occ, n)` as the occupation list of `occ` (what the list input is). -/
theorem expectation_vector_is_list (op : Op) (occ : List Nat) (n : Nat) (h : occ.Nodup)
    (hlt : ∀ i ∈ occ, i < n) :
    expectCBSVector op (2 ^ n) (configIndex occ n) = expectCBS op ((List.range n).map fun j => decide (j ∈ occ)) := by
  unfold expectCBSVector
  rw [Nat.log2_two_pow, bitsOfIndex_config occ n h hlt]

/-- The three kinds of terms `expectation_computational_basis_state` reads off a normal-ordered
operator have, in the Spec, exactly the diagonal elements the function adds: the constant `1`,
`i^ i ↦ n_i`, and `j^ i^ j i ↦ -n_i n_j` for `i < j` (counted only when *both* orbitals are
occupied, with a minus sign — the content of the fix 8e78ab20). -/
theorem expectation_terms_sound (i j s : Nat) (hij : i < j) :
    actFTerm [] s = some (0, s) ∧
    actFTerm [(i, 1), (i, 0)] s = (if s.testBit i then some (0, s) else none) ∧
    actFTerm [(j, 1), (i, 1), (j, 0), (i, 0)] s
      = (if s.testBit i && s.testBit j then some (1, s) else none) :=
  ⟨rfl, actFTerm_number i s, actFTerm_two_body i j s hij⟩

/-- **expectation_computational_basis_state, list input, summed over the dictionary**: for an operator whose terms
are among the constant, `i^ i` and `j^ i^ j i` (`i < j`) on the orbitals of the occupation list (`ExpectOp`: what a
normal-ordered operator with at most two-body number-conserving diagonal terms contains and all the function reads),
the double loop over occupied orbitals returns the Spec diagonal element `⟨s| op |s⟩`. -/
theorem expectation_cbs_sound (op : Op) (occ : List Bool) (s : Nat) (hag : Agree occ s)
    (hop : ExpectOp occ.length op) : expectCBS op occ = melF op s s :=
  expectCBS_sound op occ s hag hop

/-! ## the spin operators (tolerance-free Model, every number of sites) -/

/-- `sx_operator = (s_plus + s_minus) / 2` and `sy_operator = (s_plus - s_minus) / (2i)` as operators: Spec matrix
elements between all basis states, for every number of sites. -/
theorem sx_sy_ladder (sites t s : Nat) :
    melF (Model.C10.sx 0 sites) t s =
      Model.C10.half * melF (sPlus 0 sites) t s + Model.C10.half * melF (sMinus 0 sites) t s ∧
    melF (Model.C10.sy 0 sites) t s =
      (-(Model.C10.half * GQ.I)) * melF (sPlus 0 sites) t s + (Model.C10.half * GQ.I) * melF (sMinus 0 sites) t s := by
  simp only [melF_den]
  exact ⟨den_sx sites s t, den_sy sites s t⟩

/-- the docstring formulas `s_plus_operator(n) = Σ_i a†_{up i} a_{down i}`, `s_minus_operator(n) = Σ_i a†_{down i} a_{up i}`:
the Model operators built with `+=` have the Spec matrix elements of these sums, for every number of sites. -/
theorem s_plus_s_minus_formula (sites t s : Nat) :
    melF (sPlus 0 sites) t s =
      melF ((List.range sites).map fun i => ([(upIndex i, 1), (downIndex i, 0)], (1 : GQ))) t s ∧
    melF (sMinus 0 sites) t s =
      melF ((List.range sites).map fun i => ([(downIndex i, 1), (upIndex i, 0)], (1 : GQ))) t s :=
  ladder_formulas sites t s

/-- **`[S^z, S^±] = ±S^±`** for the Model operators, every number of sites: `sz_operator` is diagonal with eigenvalue
`szEig n s = (#up - #down)/2`, and `(σ(t) - σ(s)) ⟨t|S^+|s⟩ = ⟨t|S^+|s⟩`, `(σ(t) - σ(s)) ⟨t|S^-|s⟩ = -⟨t|S^-|s⟩` for all
basis states (the matrix elements of the commutators, as `S^z` is diagonal): `S^+` raises and `S^-` lowers `S^z` by one. -/
theorem sz_ladder_commutators (n t s : Nat) :
    (melF (Model.C10.sz 0 n) t s = if t = s then szEig n s else 0) ∧
    (szEig n t - szEig n s) * melF (sPlus 0 n) t s = melF (sPlus 0 n) t s ∧
    (szEig n t - szEig n s) * melF (sMinus 0 n) t s = -melF (sMinus 0 n) t s :=
  ⟨melF_sz_eig n t s, sz_splus_comm n t s, sz_sminus_comm n t s⟩

/-- `s_squared_operator = S^- S^+ + S^z (S^z + 1)` as an operator, for every number of sites: its matrix element is
the composition (right factor first; `Sem.sumF b s W` applies the terms of `b` to `|s⟩` with the Spec action and
weights the images by `W`) of the Model's `s_plus`, `s_minus`, `sz` operators. -/
theorem s_squared_composition (sites t s : Nat) :
    melF (sSquared 0 sites) t s =
      Sem.sumF (sPlus 0 sites) s (fun y => melF (sMinus 0 sites) t y) +
      Sem.sumF (Model.iadd 0 (Model.C10.sz 0 sites) (Model.mk .fermion [] 1)) s
        (fun y => melF (Model.C10.sz 0 sites) t y) := by
  simp only [melF_den]
  exact den_sSquared sites s t

/-! ## get_number_preserving_sparse_operator -/

/-- The sign / target loop of `_build_term_op_` is the Spec action: if the Spec maps the basis
state `s` (with the bits of the determinant `d`) to `(-1)^k' |s'⟩`, the loop's exponent has the
parity of `k'` and its target determinant has the bits of `s'`. -/
theorem build_term_op_sound (t : Term) (d : Det) (s : Nat) (hag : Agree d s)
    (hlen : ∀ f ∈ t, f.1 < d.length) (k' s' : Nat) (h : actFTerm t s = some (k', s')) :
    (applyTermDet t d).1 % 2 = k' % 2 ∧ Agree (applyTermDet t d).2 s' :=
  applyTermDet_sound t d s hag hlen k' s' h

/-- The determinant lookup of `_build_term_op_`: with duplicate-free integer encodings `keys`,
`pos = searchsorted(keys, v, sorter=argsort(keys))`, the guard `pos < size` (the fix f2ef2f64)
and the test `keys[sorter[pos]] == v` succeed exactly when `v` is the encoding of a basis
determinant, and then `sorter[pos]` is its position — the lookup is membership in the basis. -/
theorem lookup_sound (keys : List Nat) (hk : keys.Nodup) (v : Nat) :
    ((searchsorted keys v (argsort keys) < keys.length ∧
        keys.getD ((argsort keys).getD (searchsorted keys v (argsort keys)) 0) 0 = v) ↔ v ∈ keys) ∧
      ∀ t, t < keys.length → keys.getD t 0 = v →
        searchsorted keys v (argsort keys) < keys.length ∧
          (argsort keys).getD (searchsorted keys v (argsort keys)) 0 = t :=
  lookup_sound' keys hk v

/-- **the entries of one term of `get_number_preserving_sparse_operator`** (filter, sign / target loop and
lookup assembled): with a duplicate-free basis of determinants of one length, `_build_term_op_` produces the
entry `(target, s, k)` exactly when basis determinant number `s` passes the occupied / unoccupied pre-filter,
`k` is the sign exponent of the loop and `target` is the position in the basis of the loop's target determinant;
when that determinant is not in the basis there is no entry. -/
theorem build_term_op_entries (t : Term) (states : List Det) (n : Nat) (hnd : states.Nodup)
    (hlen : ∀ d ∈ states, d.length = n) (es : List (Nat × Nat × Nat))
    (h : buildTermOp t states (states.map encodeDet) (argsort (states.map encodeDet)) = .ok es)
    (e : Nat × Nat × Nat) :
    e ∈ es ↔ e.2.1 < states.length ∧ passes t (states.getD e.2.1 []) = true ∧
      e.2.2 = (applyTermDet t (states.getD e.2.1 [])).1 ∧ e.1 < states.length ∧
      states.getD e.1 [] = (applyTermDet t (states.getD e.2.1 [])).2 :=
  buildTermOp_entries t states n hnd hlen es h e

/-- … and against the Spec: an entry `(target, s, k)` of a term on which the Spec action does not vanish has the
Spec sign and the Spec image: if `t|m⟩ = (-1)^k' |m'⟩` for the basis state `m` with the bits of determinant `s`,
then `k ≡ k' (mod 2)` and determinant number `target` has the bits of `m'`. -/
theorem build_term_op_entries_spec (t : Term) (states : List Det) (n : Nat) (hnd : states.Nodup)
    (hlen : ∀ d ∈ states, d.length = n) (hlt : ∀ f ∈ t, f.1 < n) (es : List (Nat × Nat × Nat))
    (h : buildTermOp t states (states.map encodeDet) (argsort (states.map encodeDet)) = .ok es)
    (e : Nat × Nat × Nat) (he : e ∈ es) (m k' m' : Nat) (hag : Agree (states.getD e.2.1 []) m)
    (hact : actFTerm t m = some (k', m')) :
    e.2.2 % 2 = k' % 2 ∧ Agree (states.getD e.1 []) m' := by
  obtain ⟨hs, _, hk, _, htar⟩ := (buildTermOp_entries t states n hnd hlen es h e).mp he
  have hd : states.getD e.2.1 [] ∈ states := by
    rw [List.getD_eq_getElem?_getD, List.getElem?_eq_getElem hs]; exact List.getElem_mem hs
  have := applyTermDet_sound t (states.getD e.2.1 []) m hag (by rw [hlen _ hd]; exact hlt) k' m' hact
  rw [hk, htar]
  exact this

/-- **the pre-filter is exact on normal-ordered terms**: for a term `a†_{cr…} a_{an…}` with distinct creation modes
and distinct annihilation modes (what `normal_ordered` produces), a basis determinant passes the occupied /
unoccupied test of `_build_term_op_` exactly when the Spec action of the term on its basis state does not vanish:
the filter drops no contribution and keeps no vanishing one. -/
theorem prefilter_exact (cr an : List Nat) (hc : cr.Nodup) (ha : an.Nodup) (d : Det) (m : Nat) (hag : Agree d m) :
    passes (noTerm cr an) d = true ↔ (actFTerm (noTerm cr an) m).isSome = true :=
  passes_iff_action cr an hc ha d m hag

/-- **number_preserving_sparse_operator_sound**: for a normal-ordered operator (every term: creation operators on
distinct modes, then annihilation operators on distinct modes, `NormalTerm`; normal ordering itself belongs to
another property) the function returns the basis `_iterate_basis_(reference, level, spin_preserving)` and the matrix
whose entry `(r, c)` is the Spec matrix element `⟨r| op |c⟩` between the basis states of determinants number `r` and
`c` (`ms i`: any basis-state mask with the bits of determinant `i`) — the compression of the operator to the
determinant basis: filter, sign / target loop, lookup, the `pos < size` guard and the accumulation over terms. -/
theorem number_preserving_sparse_operator_sound (opNO : Op) (n ne : Nat) (spin : Bool) (ref : Option Det)
    (level : Option Nat) (states : List Det) (M : SparseM)
    (h : numberPreservingSparse opNO n ne spin ref level = .ok (states, M))
    (hno : ∀ tc ∈ opNO, NormalTerm (npsRef n ne ref).length tc.1)
    (ms : Nat → Nat) (hms : ∀ i, i < states.length → Agree (states.getD i []) (ms i))
    (r c : Nat) (hr : r < states.length) (hc : c < states.length) :
    states = iterateBasis (npsRef n ne ref) (level.getD ne) spin ∧
      Dict.getD M (r, c) 0 = melF opNO (ms r) (ms c) :=
  nps_sound opNO n ne spin ref level states M h hno ms hms r c hr hc

/-- The big-endian integer encoding `determinant.dot(1 << arange(n)[::-1])` is injective on
determinants of one length, so distinct basis determinants have distinct encodings. -/
theorem encode_det_injective (a b : Det) (hl : a.length = b.length) (h : encodeDet a = encodeDet b) : a = b :=
  encodeDet_inj a b hl h

/-- `_iterate_basis_` yields the reference determinant first (so that it is the vector
`[1, 0, …, 0]`), for every excitation level and both spin flags. -/
theorem iterate_basis_reference_first (ref : Det) (level : Nat) (spin : Bool) :
    (iterateBasis ref level spin).head? = some ref := iterateBasis_head ref level spin

/-- `_iterate_basis_(ref, level, spin_preserving=False)` yields, each exactly once, the
determinants of the reference's length with the reference's particle number that vacate at most
`level` orbitals of the reference (`vacated ref d`: occupied in `ref`, empty in `d`). -/
theorem iterate_basis_spec_nospin (ref : Det) (level : Nat) :
    (iterateBasis ref level false).Nodup ∧ ∀ d, d ∈ iterateBasis ref level false ↔
      d.length = ref.length ∧ countTrue d = countTrue ref ∧ (vacated ref d).length ≤ level := by
  obtain ⟨h1, h2⟩ := iterateBasis_nospin ref level
  refine ⟨h1, fun d => ?_⟩
  rw [h2 d]
  constructor
  · rintro ⟨a, b, c⟩; exact ⟨a, (same_number_iff ref d a).mpr b, c⟩
  · rintro ⟨a, b, c⟩; exact ⟨a, (same_number_iff ref d a).mp b, c⟩

/-- `_iterate_basis_(ref, level, spin_preserving=True)` yields, each exactly once, the
determinants of the reference's length that vacate as many alpha (even) orbitals of the reference
as they fill empty alpha orbitals, likewise for beta (odd) orbitals — i.e. the same numbers of
alpha and beta particles, hence the same S_z — and vacate at most `level` orbitals in total. -/
theorem iterate_basis_spec_spin (ref : Det) (level : Nat) :
    (iterateBasis ref level true).Nodup ∧ ∀ d, d ∈ iterateBasis ref level true ↔
      d.length = ref.length ∧ (vacA ref d).length = (filA ref d).length ∧
        (vacB ref d).length = (filB ref d).length ∧ (vacA ref d).length + (vacB ref d).length ≤ level :=
  iterateBasis_spin ref level

/-! ## non-vacuity -/

example : jwNumberIndices 2 3 = [3, 5, 6] := by decide
example : iterateBasis [true, true, false, false] 2 true = [[true, true, false, false], [true, false, false, true], [false, true, true, false], [false, false, true, true]] := by
  decide
example : iterateBasis [true, false, false] 1 false = [[true, false, false], [false, true, false], [false, false, true]] := by
  decide
example : jwSzIndices (1 / 2) 4 (some 1) upIndex downIndex = .ok [8, 2] := by decide +kernel
example : (configuration_state_index [0, 2] 3 (by decide) (by decide)).1 = (by decide : configIndex [0, 2] 3 < 2 ^ 3) := rfl
example : configIndex [0, 2] 3 = 5 ∧ maskOfIndex 3 5 = 5 ∧ configIndex [0] 3 = 4 ∧ maskOfIndex 3 4 = 1 := by decide
example : GQ.isSmall Generated.eqTolerance 1 = false ∧ GQ.isSmall Generated.eqTolerance Model.C10.half = false ∧
    GQ.isSmall Generated.eqTolerance (-Model.C10.half) = false := by decide +kernel
example : actFTerm [(2, 1), (0, 0)] 3 = some (1, 6) ∧ applyTermDet [(2, 1), (0, 0)] [true, true, false] = (1, [false, true, true]) := by
  decide

end OFV.C10
