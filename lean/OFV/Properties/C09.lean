/-
C09 — property theorems (binary codes and BinaryPolynomial).
Helper lemmas live in OFV/Proofs/C09*.lean.  Every theorem is audited with `#print axioms`.

Notation: `evalPoly w p` (OFV.Spec.C09) is the GF(2) value of the polynomial `p` under the
assignment `w : Nat → Bool`; the Model functions (`iadd`, `imul`, `shift`, …, OFV.Model.C09)
are the ones the driver executes against the real `BinaryPolynomial` / `BinaryCode` code.
-/
import OFV.Proofs.C09
import OFV.Proofs.C09WF
import OFV.Proofs.C09Parity
import OFV.Proofs.C09Parse
import OFV.Proofs.C09Inter
import OFV.Proofs.C09Bk3
import OFV.Proofs.C09IntMul
import OFV.Proofs.C09Addr
import OFV.Proofs.C09Ext4
import OFV.Proofs.C09Seq
import OFV.Proofs.C09Bct4
import OFV.Proofs.C09Enc
import OFV.Proofs.C09Sum
import OFV.Proofs.C09JwEq
import OFV.Proofs.C09BkEq
import OFV.Proofs.C09Struct
import OFV.Proofs.C09Shaped

namespace OFV.C09
open OFV.Model.C09 OFV.Spec.C09

/-! ## BinaryPolynomial arithmetic agrees with evaluation over GF(2) -/

/-- `binary_sum_rule` toggles a monomial: the value changes by exactly that monomial. -/
theorem eval_sum_rule (w : Nat → Bool) (p : Poly) (s : Mono) :
    evalPoly w (sumRule p s) = xor (evalPoly w p) (evalMono w s) :=
  eval_sumRule w p s

/-- `p += q` (the code iterates over a snapshot of `q.terms`, so `q` may be `p` itself), hence
`p + q`: XOR of the values, for all polynomials (no canonical-form hypothesis is needed). -/
theorem eval_add (w : Nat → Bool) (p q : Poly) :
    evalPoly w (iadd p q) = xor (evalPoly w p) (evalPoly w q) := eval_iadd w p q

/-- `p *= q`, hence `p * q`: AND of the values (`w_i^2 = w_i` is the set union of indices). -/
theorem eval_mul (w : Nat → Bool) (p q : Poly) :
    evalPoly w (imul p q) = (evalPoly w p && evalPoly w q) := eval_imul w p q

/-- `p.shift(c)` renames `w_i` to `w_{i+c}`. -/
theorem eval_shift (w : Nat → Bool) (p : Poly) (c : Nat) :
    evalPoly w (shift p c) = evalPoly (fun i => w (i + c)) p := eval_shift' w p c

/-- `BinaryPolynomial(k)` for an integer is the constant `k mod 2`. -/
theorem eval_const (w : Nat → Bool) (k : Int) : evalPoly w (ofInt k) = (k % 2 != 0) := by
  unfold ofInt
  cases h : (k % 2 != 0) <;> simp <;> rfl

/-- `p + k` / `k + p` / `p += k` for an integer `k`. -/
theorem eval_add_int (w : Nat → Bool) (p : Poly) (k : Int) :
    evalPoly w (iaddInt p k) = xor (evalPoly w p) (k % 2 != 0) := by
  unfold iaddInt addOne
  cases h : (k % 2 != 0) <;> simp [eval_sumRule]

/-- `p * k` / `k * p` / `p *= k` for an integer `k`. -/
theorem eval_mul_int (w : Nat → Bool) (p : Poly) (k : Int) :
    evalPoly w (imulInt p k) = (evalPoly w p && (k % 2 != 0)) := by
  unfold imulInt
  cases h : (k % 2 != 0) <;> simp [evalPoly_nil]

/-- `p ** k`: the constant 1 for `k = 0`, `p` itself otherwise. -/
theorem eval_pow (w : Nat → Bool) (p : Poly) (k : Nat) :
    evalPoly w (pow p k) = (if k = 0 then true else evalPoly w p) := by
  unfold pow
  split <;> simp [evalPoly_cons, evalPoly_nil]

/-- `_canonical_term` does not change the value of a monomial. -/
theorem eval_canonical_term (w : Nat → Bool) (t : Mono) : evalMono w (canonTerm t) = evalMono w t :=
  evalMono_canonTerm w t

/-- `BinaryPolynomial('… + …')` (the tokens as the harness cuts them, `tokVal`: a constant is its
parity, `w<i>` the variable): when every summand has at least one token, the constructed
polynomial is the XOR over the summands of the product of their tokens.  (All decoders of
binary_codes.py are built through this constructor.) -/
theorem string_constructor_sound (w : Nat → Bool) (sm : List (List Tok)) (p : Poly)
    (h : ofString sm = .ok p) (hne : ∀ toks ∈ sm, toks ≠ []) :
    evalPoly w p = sm.foldr (fun toks a => xor (summandVal w toks) a) false :=
  ofString_sound' w sm p h hne

/-- `BinaryPolynomial([tuple, …])` (no negative factor; `'one'` factors count as 1, repeated
factors and repeated summands are handled by `_check_factor` / `binary_sum_rule`): when it
returns, the polynomial is the XOR over the non-empty summands of the product of their integer
factors.  (`gsum g l` is the XOR of `g` over `l`.) -/
theorem tuple_constructor_sound (w : Nat → Bool) (terms : List Mono) (p : Poly)
    (h : ofSeq false terms = .ok p) :
    evalPoly w p = gsum (fun t => !t.isEmpty && evalMono w t) terms := ofSeq_sound' w terms p h

example : ofSeq false [[some 2, none, some 1, some 2], [none], [some 7], [some 7], []] = .ok [[some 1, some 2], [none]] := by
  rfl

example : ofString [[.var 1, .const 1, .var 2], [.const 3], [.var 1, .const 0]] = .ok [[some 1, some 2], [none]] := by
  rfl

/-! ## canonical form (the invariant the `fix:` commit 35a1f8fb established)

`WF p`: `self.terms` has no duplicate monomial and every monomial is `('one',)` or a non-empty
strictly increasing tuple of integers. -/

/-- `+` keeps the canonical form. -/
theorem wf_add {p q : Poly} (hp : WF p) (hq : WF q) : WF (iadd p q) := wf_iadd' hp hq

/-- `*` produces the canonical form (whatever the operands). -/
theorem wf_mul (p q : Poly) : WF (imul p q) := wf_imul' p q

/-- `shift` keeps the canonical form. -/
theorem wf_shift {p : Poly} (c : Nat) (hp : WF p) : WF (shift p c) := wf_shift' c hp

/-- integer addend / multiplier / exponent keep the canonical form. -/
theorem wf_int_ops {p : Poly} (k : Int) (n : Nat) (hp : WF p) :
    WF (iaddInt p k) ∧ WF (imulInt p k) ∧ WF (pow p n) ∧ WF (ofInt k) := by
  refine ⟨?_, ?_, ?_, ?_⟩
  · unfold iaddInt; split
    · exact wf_addOne hp
    · exact hp
  · unfold imulInt; split
    · exact hp
    · exact wf_nil
  · unfold pow; split
    · exact ⟨by simp, by intro t ht; simp at ht; subst ht; exact canonMono_one⟩
    · exact hp
  · unfold ofInt
    split
    · exact ⟨by decide, by intro t ht; have : t = [none] := by revert ht; decide +revert
                           subst this; exact canonMono_one⟩
    · exact wf_nil

/-- `p + p = 0` for a polynomial in canonical form: every monomial added twice disappears
(this is what failed before the fix, when `(1, 8)` and `(8, 1)` were different monomials). -/
theorem add_self {p : Poly} (hp : WF p) : iadd p p = [] := add_self' hp

/-- `evaluate(binary_list)` on a 0/1 list that is long enough returns the GF(2) value. -/
theorem evaluate_spec (p : Poly) (bl : List Nat) (hp : WF p) (hb : ∀ b ∈ bl, b ≤ 1)
    (hlen : qubits p = [] ∨ maxL (qubits p) < bl.length) :
    evaluate p bl = .ok (if evalPoly (fun i => bl.getD i 0 == 1) p then 1 else 0) := by
  unfold evaluate
  by_cases hq : qubits p = []
  · rcases wf_no_qubits hp hq with rfl | rfl
    · simp [qubits, evalPoly_nil]
    · simp [qubits, evalPoly_cons, evalPoly_nil]
  · have hlt : maxL (qubits p) < bl.length := by
      rcases hlen with h | h
      · exact absurd h hq
      · exact h
    have hne : (qubits p).isEmpty = false := by simpa [List.isEmpty_iff] using hq
    simp only [hne, Bool.not_false, if_true, ge_iff_le, Nat.not_le.mpr hlt, if_false]
    let S := (p.map fun s => (idx s).foldl (fun acc i => acc * bl.getD i 0) 1).sum
    have key : (S % 2 == 1) = evalPoly (fun i => bl.getD i 0 == 1) p :=
      sum_mod2 p (fun s => (idx s).foldl (fun acc i => acc * bl.getD i 0) 1)
        (evalMono (fun i => bl.getD i 0 == 1)) (by
          intro t _
          rw [prod_bits (fun i => bl.getD i 0) (getD_le_one bl hb), evalMono_idx])
    show Except.ok (S % 2) = Except.ok (if evalPoly (fun i => bl.getD i 0 == 1) p then 1 else 0)
    rw [← key]
    have := Nat.mod_two_eq_zero_or_one S
    rcases this with h | h <;> simp [h]

example : WF [[some 1, some 8], [none]] :=
  ⟨by decide, by
    intro t ht
    simp at ht
    rcases ht with rfl | rfl
    · exact Or.inr ⟨by simp, [1, 8], rfl, by simp⟩
    · exact Or.inl rfl⟩

example : evaluate [[some 0, some 2], [none]] [1, 0, 1] = .ok 0 := by rfl

/-! ## decoders as functions; code constructions

`decFn d w k` (OFV.Proofs.C09Code) is the value of decoder component `k` under the qubit
assignment `w`; `encFn c v q` is bit `q` of `A v mod 2`; `ValidOn c v` says `d(e(v)) = v`
component by component; `Shaped c` is the shape invariant `BinaryCode.__init__` checks
(matrix is `nq x nm`, `nm` decoder components, every decoder variable `< nq`). -/

/-- `double_decoding(d1, d2)` (the decoder of a concatenation) denotes the composition
`w ↦ d1(d2(w))`, for every component. -/
theorem double_decoding_sound (d1 d2 dd : List DEntry) (w : Nat → Bool)
    (h : doubleDecoding d1 d2 = .ok dd) (i : Nat) :
    decFn dd w i = evalPoly (decFn d2 w) ((d1.getD i .int0).toPoly) :=
  eval_doubleDecoding d1 d2 dd w h i

/-- `shift_decoder(d, c)` reads qubit `q + c` where `d` reads qubit `q`. -/
theorem shift_decoder_sound (d sd : List DEntry) (c : Nat) (w : Nat → Bool)
    (h : shiftDecoder d c = .ok sd) (i : Nat) :
    decFn sd w i = decFn d (fun q => w (q + c)) i :=
  eval_shiftDecoder d sd c w h i

/-- `linearize_decoder(M)` always succeeds and component `i` is the GF(2)-linear form of row
`i` of `M` (XOR of the variables of the columns holding a 1). -/
theorem linearize_decoder_sound (M : Mat) :
    ∃ ps, linearizeDecoder M = .ok ps ∧ ps.length = M.length ∧
      ∀ w i, evalPoly w (ps.getD i []) = xorCols w (onesOf (M.getD i [])) :=
  linearizeDecoder_sound M

/-- Concatenation `a * f` is valid on `v` when `a` is valid on `v` and `f` is valid on the
encoding of `v` (the encoder product is *not* reduced mod 2 by the code; consumers reduce). -/
theorem concat_valid (a f c : Code) (v : List Nat) (h : a.imulCode f = .ok c) (ha : Shaped a)
    (hva : ValidOn a v) (hvf : ValidOn f (encode a v)) : ValidOn c v :=
  concat_valid' a f c v h ha hva hvf

/-- Appending `a + b` is valid on the concatenated vector when both are valid on their parts. -/
theorem append_valid (a b c : Code) (va vb : List Nat) (h : a.iadd b = .ok c) (ha : Shaped a)
    (hlen : va.length = a.nm) (hva : ValidOn a va) (hvb : ValidOn b vb) : ValidOn c (va ++ vb) :=
  append_valid' a b c va vb h ha hlen hva hvb

/-- `a + b` and `a * f` of well-shaped codes are well shaped (so the validity theorems compose
over code expressions). -/
theorem append_concat_shaped (a b c : Code) (ha : Shaped a) (hb : Shaped b) :
    (a.iadd b = .ok c → Shaped c) ∧ (a.imulCode b = .ok c → Shaped c) :=
  ⟨fun h => append_shaped' a b c h ha hb, fun h => concat_shaped' a b c h ha hb⟩

/-- `k * code` (`k ≥ 1`, numpy or Python integer) is well shaped and valid on every concatenation
of `k` vectors on which the code is valid: the `k`-fold product domain. -/
theorem int_mul_valid (a : Code) (ha : Shaped a) (m : Nat) (c : Code)
    (h : a.imulInt ((m + 1 : Nat) : Int) = .ok c) (vs : List (List Nat)) (hvs : vs.length = m + 1)
    (hv : ∀ v ∈ vs, v.length = a.nm ∧ ValidOn a v) : ValidOn c vs.flatten ∧ Shaped c :=
  int_mul_valid' a ha m c h vs hvs hv

/-- A code object built by `BinaryCode.__init__` from a well-shaped matrix satisfies `Shaped`. -/
theorem init_shaped (enc : Mat) (nq nm : Nat) (dec : List Poly) (c : Code)
    (h : Code.mk' enc nq nm dec = .ok c) (hr : enc.length = nq) (hc : ∀ row ∈ enc, row.length = nm) :
    Shaped c := shaped_mk' enc nq nm dec c h hr hc

/-- Validity makes the encoding injective: two 0/1 vectors of the right length on which the
code is valid and that have the same encoding are equal. -/
theorem encode_injective (c : Code) (v v' : List Nat) (hl : v.length = c.nm) (hl' : v'.length = c.nm)
    (hb : ∀ x ∈ v, x ≤ 1) (hb' : ∀ x ∈ v', x ≤ 1) (hv : ValidOn c v) (hv' : ValidOn c v')
    (he : encode c v = encode c v') : v = v' := by
  apply List.ext_getElem (by rw [hl, hl'])
  intro i h1 h2
  have hi : i < c.nm := by rw [← hl]; exact h1
  have e1 := hv i hi
  have e2 := hv' i hi
  have hfn : encFn c v = encFn c v' := by funext q; simp [encFn, he]
  rw [hfn, e2] at e1
  have g1 : v.getD i 0 = v[i] := by simp [List.getD_eq_getElem?_getD, h1]
  have g2 : v'.getD i 0 = v'[i] := by simp [List.getD_eq_getElem?_getD, h2]
  rw [g1, g2] at e1
  have b1 := hb v[i] (List.getElem_mem h1)
  have b2 := hb' v'[i] (List.getElem_mem h2)
  have : v[i] = 0 ∨ v[i] = 1 := by omega
  have : v'[i] = 0 ∨ v'[i] = 1 := by omega
  rcases ‹v[i] = 0 ∨ v[i] = 1› with a | a <;> rcases ‹v'[i] = 0 ∨ v'[i] = 1› with b | b <;>
    simp [a, b] at e1 ⊢

/-! ## the parametrised built-in codes, for every mode count -/

/-- `jordan_wigner_code(n)` decodes what it encodes, for every `n` and every 0/1 vector. -/
theorem jw_code_valid (n : Nat) (c : Code) (h : jordanWignerCode n = .ok c) (v : List Nat)
    (hb : ∀ x ∈ v, x ≤ 1) : ValidOn c v := jw_valid' n c h v hb

/-- `parity_code(n)`: the bidiagonal decoder matrix `eye(n) + eye(n, k=-1)` inverts the prefix
sums of the lower-triangular encoder, for every `n` and every 0/1 vector. -/
theorem parity_code_valid (n : Nat) (c : Code) (h : parityCode n = .ok c) (v : List Nat)
    (hlen : v.length = n) (hb : ∀ x ∈ v, x ≤ 1) : ValidOn c v := parity_valid' n c h v hlen hb

/-- `checksum_code(n, odd)` decodes what it encodes on every 0/1 vector whose Hamming weight
has the parity `odd`, for every `n`. -/
theorem checksum_code_valid (n : Nat) (odd : Bool) (c : Code) (h : checksumCode n odd = .ok c)
    (v : List Nat) (hlen : v.length = n) (hb : ∀ x ∈ v, x ≤ 1) (hpar : (v.sum % 2 == 1) = odd) :
    ValidOn c v := checksum_valid' n odd c h v hlen hb hpar

/-- The doubling loops of `_encoder_bk` / `_decoder_bk`: after `r` iterations the matrices are
`2^(r+1)` square, the last encoder row is all ones, the decoder is lower triangular with 0/1
entries and last column `e_last`, and the decoder inverts the encoder mod 2
(`D (E v) ≡ v` for every integer vector `v`). -/
theorem bk_matrices_inverse (r : Nat) : BkInv (2 ^ (r + 1)) (encIter r) (decIter r) := bkInv_iter r

/-- `bravyi_kitaev_code(n)` decodes what it encodes, for every `n` (also when `n` is not a power
of two: the principal `n x n` blocks of the binary-tree matrices) and every 0/1 vector. -/
theorem bk_code_valid (n : Nat) (c : Code) (hc : bravyiKitaevCode n = .ok c) (v : List Nat)
    (hlen : v.length = n) (hb : ∀ x ∈ v, x ≤ 1) : ValidOn c v := bk_valid' n c hc v hlen hb

/-- `interleaved_code(2h)`: the loop builds the permutation matrix sending mode `2i` to qubit `i`
and mode `2i + 1` to qubit `h + i` (rows `sigma`), the decoder is its transpose, and the code
decodes what it encodes for every `h` and every 0/1 vector. -/
theorem interleaved_code_valid (h : Nat) (c : Code) (hc : interleavedCode (2 * h) = .ok c) (v : List Nat)
    (hb : ∀ x ∈ v, x ≤ 1) : ValidOn c v := interleaved_valid' h c hc v hb

/-- the documented order: row `r` of the encoder of `interleaved_code(2h)` is the unit vector of
column `2r` (`r < h`) resp. `2(r - h) + 1`: even modes first, then odd modes. -/
theorem interleaved_code_order (h r : Nat) (hr : r < 2 * h) :
    (interleavedMat (2 * h)).getD r [] = (List.range (2 * h)).map fun c => if sigma h r = c then 1 else 0 :=
  interleaved_row h r hr

/-- `weight_one_binary_addressing_code(e)` decodes what it encodes on all `2^e` occupation
vectors of Hamming weight one (`unitVec (2^e) a`), for every exponent `e`: the decoder component
`j` is the product of the factors `w_i + 1 + bit_i(j)`, i.e. the indicator of the address `j`. -/
theorem weight_one_binary_addressing_valid (e : Nat) (c : Code)
    (hc : weightOneBinaryAddressingCode e = .ok c) (a : Nat) (ha : a < 2 ^ e) :
    ValidOn c (unitVec (2 ^ e) a) := w1ba_valid' e c hc a ha

/-! ## extractor / dissolve (binary_code_transform.py), tolerance-free Model

`diag w o` is the value `Σ c_t χ_t(w)` of an operator made of Z / identity strings on the basis
state with bits `w`; `melQ o t s` is the Spec matrix element `⟨t| o |s⟩`.  The Model functions
take the tolerance of `QubitOperator.__isub__` as a parameter; the theorems are for tolerance 0
(no coefficient is ever dropped).  With the library tolerance 1e-8 a monomial of more than 27
variables would lose its `2^(1-k)` coefficients: that regime is outside these theorems. -/

/-- `Q *= R` of the Symbolic Model is multiplicative on the values of Z / identity operators
(uses the Pauli table extracted from the source: `Z·Z = I`, `I·Z = Z`). -/
theorem z_operator_product (w : Nat → Bool) (a b : Model.Op) (ha : ZIop a) (hb : ZIop b) :
    diag w (Model.mulOp .qubit a b) = diag w a * diag w b ∧ ZIop (Model.mulOp .qubit a b) :=
  diag_mulOp w a b ha hb

/-- `dissolve(term)` is the operator with value `(-1)^{product of the variables of the term}`
(`1 - 2 Π (1 - Z_i)/2`). -/
theorem dissolve_sound (w : Nat → Bool) (term : Mono) (o : Model.Op) (h : dissolve 0 term = .ok o) :
    diag w o = sgnB (evalMono w term) ∧ ZIop o := dissolve_diag w term o h

/-- `extractor(p)`: the product over the monomials has the value `(-1)^{p(w)}` on the basis
state with bits `w` (for polynomials without an empty monomial, e.g. canonical ones). -/
theorem extractor_sound (w : Nat → Bool) (p : Poly) (hp : ∀ t ∈ p, t ≠ []) (q : QV)
    (h : extractor 0 p = .ok q) : diagQV w q = sgnB (evalPoly w p) ∧ ZIqv q :=
  extractor_diag w p hp q h

/-- … and in the Spec: when `extractor(p)` is an operator `o`, `⟨t| o |s⟩ = (-1)^{p(s)} δ_ts`. -/
theorem extractor_sound_spec (p : Poly) (hp : ∀ t ∈ p, t ≠ []) (o : Model.Op)
    (h : extractor 0 p = .ok (.op o)) (t s : Nat) :
    Spec.melQ o t s = if t = s then sgnB (evalPoly (fun i => s.testBit i) p) else 0 := by
  obtain ⟨h1, h2⟩ := extractor_diag (fun i => s.testBit i) p hp (.op o) h
  rw [melQ_ZI o h2 t s]
  split
  · exact h1
  · rfl

/-! ## binary_code_transform (tolerance-free Model)

`Sem.den .qubit R [m] [x]` is the Spec matrix element `⟨x| R |m⟩` (OFV.Proofs.C04Sem).  `BctHyp`
says that at the qubit state `wq` the decoder returns the occupations of the Fock state `s` and
the parity list the parities of `s`, without empty monomials; `bct_hypotheses_from_validity`
derives it from `decode(encode v) = v`.  The proof is an induction over the reversed term
(occupation projectors via `extractor_sound`, parity bookkeeping, update operator). -/

/-- **binary_code_transform_sound, one term** (every length, every product of ladder operators):
`⟨x| coef · update · transformed |wq⟩` vanishes when the Spec action `t|s⟩` vanishes, and otherwise
is `coef · (-1)^k` at the single state `x = wq ⊕ M`, where `t|s⟩ = (-1)^k|s'⟩` in the Spec and `M`
is the qubit mask of `A · (number of times each mode is flipped) mod 2` — by linearity of the
encoder the encoding of `s'`. -/
theorem binary_code_transform_term_sound (c : Code) (plist : List Poly) (wq s : Nat)
    (hyp : BctHyp c plist (bitsOf wq) s) (t : Model.Term) (ht : ∀ f ∈ t, f.2 ≤ 1) (coef : GQ) (R : Model.Op)
    (h : bctTerm 0 c plist t coef = .ok R) (x : Nat) :
    Sem.den .qubit R [wq] [x] =
      match Spec.actFTerm t s with
      | none => 0
      | some (k, _) =>
        if x = wq ^^^ updMask (encode c ((t.reverse.map (·.1)).foldl addAt (zeros c.nm))) then coef * GQ.sgn k
        else 0 :=
  bct_term_sound' c plist wq s hyp t ht coef R h x

/-- the hypotheses of the term theorem hold at the encoded state of every vector on which the
code is valid, with the parity list `make_parity_list(code)` the transform uses -/
theorem bct_hypotheses_from_validity (c : Code) (v : List Nat) (wq s : Nat) (hsh : c.dec.length = c.nm)
    (hpoly : ∀ e ∈ c.dec, ∃ p, e = .poly p) (hne : ∀ e ∈ c.dec, ∀ t ∈ e.toPoly, t ≠ [])
    (hval : ValidOn c v) (hw : bitsOf wq = encFn c v) (hs : ∀ j, s.testBit j = (v.getD j 0 == 1)) :
    BctHyp c (makeParityList c) (bitsOf wq) s :=
  bctHyp_of_valid c v wq s hsh hpoly hne hval hw hs

/-- the update operator `Π X_q` over the odd entries of `A · changed mod 2` flips exactly those qubits -/
theorem update_operator_sound (cq : List Nat) (m x : Nat) :
    Sem.den .qubit (updateOp cq) [m] [x] = if x = m ^^^ updMask cq then 1 else 0 :=
  (flipOp_update cq).2 m x

/-- **the encoding identity**: `wq ⊕ M` — the qubit state the update operator produces from the encoding
`wq` of the occupation vector `v` — is the encoding of the image `s'` of the Spec action `t|s⟩ = ±|s'⟩`
(linearity of `A · v mod 2`; no hypothesis on the encoder) -/
theorem encoding_identity (c : Code) (v : List Nat) (wq s : Nat) (t : Model.Term) (k s' : Nat)
    (hv : v.length = c.nm) (hv01 : ∀ x ∈ v, x ≤ 1) (ht : ∀ f ∈ t, f.1 < c.nm)
    (hw : bitsOf wq = encFn c v) (hs : ∀ j, s.testBit j = (v.getD j 0 == 1))
    (hact : Spec.actFTerm t s = some (k, s')) :
    bitsOf (wq ^^^ updMask (encode c ((t.reverse.map (·.1)).foldl addAt (zeros c.nm)))) =
      encFn c (occList s' c.nm) :=
  encoding_identity_occ c v wq s t k s' hv hv01 ht hw hs hact

/-- **binary_code_transform_sound, one term, between encoded states**: for a code that decodes what it
encodes at the occupation vector `v` (Fock state `s`, qubit state `wq = e(v)`), one transformed term
`R` of the Hamiltonian has `⟨x| R |e(v)⟩ = 0` for every `x` when the Spec action `t|s⟩` vanishes, and
when `t|s⟩ = (-1)^k |s'⟩` there is one qubit state `x'`, the encoding of `s'`, with
`⟨x| R |e(v)⟩ = coef · (-1)^k · δ_{x x'}`. -/
theorem binary_code_transform_term_encoded (c : Code) (v : List Nat) (wq s : Nat)
    (hsh : c.dec.length = c.nm) (hpoly : ∀ e ∈ c.dec, ∃ p, e = .poly p) (hne : ∀ e ∈ c.dec, ∀ t ∈ e.toPoly, t ≠ [])
    (hv : v.length = c.nm) (hv01 : ∀ x ∈ v, x ≤ 1) (hval : ValidOn c v)
    (hw : bitsOf wq = encFn c v) (hs : ∀ j, s.testBit j = (v.getD j 0 == 1))
    (t : Model.Term) (ht : ∀ f ∈ t, f.2 ≤ 1) (htm : ∀ f ∈ t, f.1 < c.nm) (coef : GQ) (R : Model.Op)
    (h : bctTerm 0 c (makeParityList c) t coef = .ok R) :
    match Spec.actFTerm t s with
    | none => ∀ x, Sem.den .qubit R [wq] [x] = 0
    | some (k, s') => ∃ x', bitsOf x' = encFn c (occList s' c.nm) ∧
        ∀ x, Sem.den .qubit R [wq] [x] = if x = x' then coef * GQ.sgn k else 0 := by
  have hyp := bctHyp_of_valid c v wq s hsh hpoly hne hval hw hs
  have hterm := bct_term_sound' c (makeParityList c) wq s hyp t ht coef R h
  cases hact : Spec.actFTerm t s with
  | none =>
    intro x
    have := hterm x
    rw [hact] at this
    exact this
  | some ks =>
    obtain ⟨k, s'⟩ := ks
    refine ⟨wq ^^^ updMask (encode c ((t.reverse.map (·.1)).foldl addAt (zeros c.nm))),
      encoding_identity_occ c v wq s t k s' hv hv01 htm hw hs hact, ?_⟩
    intro x
    have := hterm x
    rw [hact] at this
    exact this

/-- the loop over the terms and the final `compress()` add up the terms (tolerance-free Model): when every
transformed term has the matrix element `F term`, the result has the sum -/
theorem binary_code_transform_sum (c : Code) (h R : Model.Op) (F : Model.Term × GQ → GQ) (s x : List Nat)
    (hF : ∀ tc ∈ h, ∀ img, bctTerm 0 c (makeParityList c) tc.1 tc.2 = .ok img → Sem.den .qubit img s x = F tc)
    (hR : binaryCodeTransform 0 h c = .ok R) : Sem.den .qubit R s x = (h.map F).sum :=
  bct_den_sum c h R F s x hF hR

/-- **binary_code_transform_sound** (tolerance-free Model): let the code decode what it encodes on a set
`dom` of occupation vectors (`d(e(v)) = v`), and let every term of the Hamiltonian `h` map Fock states
of `dom` to Fock states of `dom` or to 0.  Then for `v, u ∈ dom` the transformed operator `R` has
`⟨e(u)| R |e(v)⟩ = ⟨u| h |v⟩`, the Spec matrix element of the fermion operator. -/
theorem binary_code_transform_sound (c : Code) (h R : Model.Op) (dom : List Nat → Prop)
    (hsh : c.dec.length = c.nm) (hpoly : ∀ e ∈ c.dec, ∃ p, e = .poly p) (hne : ∀ e ∈ c.dec, ∀ t ∈ e.toPoly, t ≠ [])
    (hdom : ∀ v, dom v → v.length = c.nm ∧ (∀ x ∈ v, x ≤ 1) ∧ ValidOn c v)
    (hwf : ∀ tc ∈ h, ∀ f ∈ tc.1, f.2 ≤ 1 ∧ f.1 < c.nm)
    (v u : List Nat) (hv : dom v) (hu : dom u) (wq xq s out : Nat)
    (hw : bitsOf wq = encFn c v) (hx : bitsOf xq = encFn c u)
    (hs : ∀ j, s.testBit j = (v.getD j 0 == 1)) (ho : ∀ j, out.testBit j = (u.getD j 0 == 1))
    (hpres : ∀ tc ∈ h, ∀ k s', Spec.actFTerm tc.1 s = some (k, s') → dom (occList s' c.nm))
    (hR : binaryCodeTransform 0 h c = .ok R) :
    Sem.den .qubit R [wq] [xq] = Spec.melF h out s :=
  bct_sound_encoded c h R dom hsh hpoly hne hdom hwf v u hv hu wq xq s out hw hx hs ho hpres hR

/-- `binary_code_transform(h, jordan_wigner_code(n))` (tolerance-free Model) has the matrix elements of `h`
in the occupation basis, for every `n`, every FermionOperator on modes `< n` and all basis states. -/
theorem bct_jw_matrix (n : Nat) (c : Code) (hc : jordanWignerCode n = .ok c) (h R : Model.Op)
    (hwf : ∀ tc ∈ h, ∀ f ∈ tc.1, f.2 ≤ 1 ∧ f.1 < n) (hR : binaryCodeTransform 0 h c = .ok R)
    (s out : Nat) (hs : s < 2 ^ n) (ho : out < 2 ^ n) : Sem.den .qubit R [s] [out] = Spec.melF h out s :=
  bct_jw_matrix' n c hc h R hwf hR s out hs ho

/-- **bct_jw_eq_jw** (as operators): `binary_code_transform(h, jordan_wigner_code(n))` and `jordan_wigner(h)`
(the C04 Model) have the same matrix elements between all `n`-qubit basis states. -/
theorem bct_jw_eq_jw (n : Nat) (c : Code) (hc : jordanWignerCode n = .ok c) (h R : Model.Op)
    (hwf : ∀ tc ∈ h, ∀ f ∈ tc.1, f.2 ≤ 1 ∧ f.1 < n) (hR : binaryCodeTransform 0 h c = .ok R)
    (s out : Nat) (hs : s < 2 ^ n) (ho : out < 2 ^ n) :
    Sem.den .qubit R [s] [out] = Sem.den .qubit (Model.C04.jwFermion 0 h) [s] [out] :=
  bct_jw_eq_jw' n c hc h R hwf hR s out hs ho

/-- `binary_code_transform(h, bravyi_kitaev_code(n))`: `⟨e(out)| R |e(s)⟩ = ⟨out| h |s⟩` for every `n`, every
FermionOperator on modes `< n` and all Fock states (`wq`, `xq` the qubit states with the bits `A·s`, `A·out mod 2`). -/
theorem bct_bk_matrix (n : Nat) (c : Code) (hc : bravyiKitaevCode n = .ok c) (h R : Model.Op)
    (hwf : ∀ tc ∈ h, ∀ f ∈ tc.1, f.2 ≤ 1 ∧ f.1 < n) (hR : binaryCodeTransform 0 h c = .ok R)
    (s out wq xq : Nat) (hs : s < 2 ^ n) (ho : out < 2 ^ n)
    (hw : bitsOf wq = encFn c (occList s n)) (hx : bitsOf xq = encFn c (occList out n)) :
    Sem.den .qubit R [wq] [xq] = Spec.melF h out s :=
  bct_bk_matrix' n c hc h R hwf hR s out wq xq hs ho hw hx

/-- the same for `parity_code(n)` -/
theorem bct_parity_matrix (n : Nat) (c : Code) (hc : parityCode n = .ok c) (h R : Model.Op)
    (hwf : ∀ tc ∈ h, ∀ f ∈ tc.1, f.2 ≤ 1 ∧ f.1 < n) (hR : binaryCodeTransform 0 h c = .ok R)
    (s out wq xq : Nat) (hs : s < 2 ^ n) (ho : out < 2 ^ n)
    (hw : bitsOf wq = encFn c (occList s n)) (hx : bitsOf xq = encFn c (occList out n)) :
    Sem.den .qubit R [wq] [xq] = Spec.melF h out s :=
  bct_parity_matrix' n c hc h R hwf hR s out wq xq hs ho hw hx

/-- the same for `interleaved_code(2h)`, every `h` -/
theorem bct_interleaved_matrix (hh : Nat) (c : Code) (hc : interleavedCode (2 * hh) = .ok c) (h R : Model.Op)
    (hwf : ∀ tc ∈ h, ∀ f ∈ tc.1, f.2 ≤ 1 ∧ f.1 < 2 * hh) (hR : binaryCodeTransform 0 h c = .ok R)
    (s out wq xq : Nat) (hs : s < 2 ^ (2 * hh)) (ho : out < 2 ^ (2 * hh))
    (hw : bitsOf wq = encFn c (occList s (2 * hh))) (hx : bitsOf xq = encFn c (occList out (2 * hh))) :
    Sem.den .qubit R [wq] [xq] = Spec.melF h out s :=
  bct_interleaved_matrix' hh c hc h R hwf hR s out wq xq hs ho hw hx

/-- `checksum_code(n, odd)`, every `n`: for a Hamiltonian whose terms map the Fock state `s` of the parity sector
into the parity sector (or to 0), `⟨e(out)| R |e(s)⟩ = ⟨out| h |s⟩` for all `out` of the sector. -/
theorem bct_checksum_matrix (n : Nat) (odd : Bool) (c : Code) (hc : checksumCode n odd = .ok c) (h R : Model.Op)
    (hwf : ∀ tc ∈ h, ∀ f ∈ tc.1, f.2 ≤ 1 ∧ f.1 < n) (hR : binaryCodeTransform 0 h c = .ok R)
    (s out wq xq : Nat) (hs : s < 2 ^ n) (ho : out < 2 ^ n)
    (hps : ((occList s n).sum % 2 == 1) = odd) (hpo : ((occList out n).sum % 2 == 1) = odd)
    (hpres : ∀ tc ∈ h, ∀ k s', Spec.actFTerm tc.1 s = some (k, s') → ((occList s' n).sum % 2 == 1) = odd)
    (hw : bitsOf wq = encFn c (occList s n)) (hx : bitsOf xq = encFn c (occList out n)) :
    Sem.den .qubit R [wq] [xq] = Spec.melF h out s :=
  bct_checksum_matrix' n odd c hc h R hwf hR s out wq xq hs ho hps hpo hpres hw hx

/-- the rows of `_encoder_bk`'s doubled matrix are the Fenwick intervals of the C05 Spec: entry `(k, c)` is 1
exactly for `k + 1 - lowbit(k + 1) ≤ c ≤ k` (`loM k`, every doubling level `r`, `k < 2^(r+1)`) -/
theorem bk_encoder_rows (r k c : Nat) (hk : k < 2 ^ (r + 1)) :
    ((encIter r).getD k []).getD c 0 = if OFV.BK.loM k ≤ c ∧ c ≤ k then 1 else 0 :=
  encIter_entry r k c hk

/-- `bravyi_kitaev_code(n)` encodes a Fock state as the C05 Spec encoding `enc .bk n` does (every `n`, also when `n`
is not a power of two) -/
theorem bk_code_encoding_is_spec (n : Nat) (c : Code) (hc : bravyiKitaevCode n = .ok c) (s : Nat) (hs : s < 2 ^ n) :
    bitsOf (Spec.C05.enc .bk n s) = encFn c (occList s n) :=
  bk_encoding_is_spec n c hc s hs

/-- **bct_bk_eq_bk** (as operators): `binary_code_transform(h, bravyi_kitaev_code(n))` and `bravyi_kitaev(h, n)`
(the C05 Model) have the same matrix elements between all encoded Fock states, for every `n` and every
FermionOperator on modes `< n` (tolerance-free Models). -/
theorem bct_bk_eq_bk (n : Nat) (c : Code) (hc : bravyiKitaevCode n = .ok c) (h R : Model.Op)
    (hwf : ∀ tc ∈ h, ∀ f ∈ tc.1, f.2 ≤ 1 ∧ f.1 < n) (hR : binaryCodeTransform 0 h c = .ok R)
    (s out : Nat) (hs : s < 2 ^ n) (ho : out < 2 ^ n) :
    Sem.den .qubit R [Spec.C05.enc .bk n s] [Spec.C05.enc .bk n out] =
      Sem.den .qubit (Model.C05.bkFermion 0 n h) [Spec.C05.enc .bk n s] [Spec.C05.enc .bk n out] :=
  bct_bk_eq_bk' n c hc h R hwf hR s out hs ho

/-! ## structural hypotheses of binary_code_transform_sound (`Struct`: one decoder polynomial per mode, no empty
monomial) for every constructor, closed under `+` and integer `*`; soundness for derived codes -/

/-- every constructor of binary_codes.py yields a code with the decoder structure `binary_code_transform` needs -/
theorem constructors_struct :
    (∀ n c, jordanWignerCode n = .ok c → Struct c) ∧ (∀ n c, bravyiKitaevCode n = .ok c → Struct c) ∧
    (∀ n c, parityCode n = .ok c → Struct c) ∧ (∀ n odd c, checksumCode n odd = .ok c → Struct c) ∧
    (∀ n c, interleavedCode n = .ok c → Struct c) ∧ (∀ e c, weightOneBinaryAddressingCode e = .ok c → Struct c) ∧
    (∀ c, weightOneSegmentCode = .ok c → Struct c) ∧ (∀ c, weightTwoSegmentCode = .ok c → Struct c) :=
  ⟨fun n c h => (jw_structure n c h).2.2, fun n c h => (bk_structure n c h).2, fun n c h => (parity_structure n c h).2,
    fun n odd c h => (checksum_structure n odd c h).2, fun n c h => (interleaved_structure n c h).2,
    fun e c h => w1ba_struct e c h, fun c h => w1seg_struct c h, fun c h => w2seg_struct c h⟩

/-- `Struct` is closed under appending and integer repetition -/
theorem struct_closed (a b c : Code) (sa : Struct a) (sb : Struct b) :
    (a.iadd b = .ok c → Struct c) ∧ (∀ m : Nat, a.imulInt ((m + 1 : Nat) : Int) = .ok c → Struct c) :=
  ⟨fun h => iadd_struct a b c h sa sb, fun m h => imulInt_struct a m c h sa⟩

/-- **binary_code_transform_sound for `c = a + b`**: when `a` and `b` decode what they encode on `domA`, `domB`, and the
terms of the Hamiltonian map the product domain `{va ++ vb}` to itself (or to 0), the transform with `c` has the Spec
matrix elements between the encoded states of the product domain. -/
theorem bct_append_sound (a b c : Code) (h : a.iadd b = .ok c) (ha : Shaped a) (sa : Struct a) (sb : Struct b)
    (domA domB : List Nat → Prop)
    (hA : ∀ v, domA v → v.length = a.nm ∧ (∀ x ∈ v, x ≤ 1) ∧ ValidOn a v)
    (hB : ∀ v, domB v → v.length = b.nm ∧ (∀ x ∈ v, x ≤ 1) ∧ ValidOn b v)
    (H R : Model.Op) (hwf : ∀ tc ∈ H, ∀ f ∈ tc.1, f.2 ≤ 1 ∧ f.1 < a.nm + b.nm)
    (v u : List Nat) (hv : ∃ va vb, v = va ++ vb ∧ domA va ∧ domB vb) (hu : ∃ ua ub, u = ua ++ ub ∧ domA ua ∧ domB ub)
    (wq xq s out : Nat) (hw : bitsOf wq = encFn c v) (hx : bitsOf xq = encFn c u)
    (hs : ∀ j, s.testBit j = (v.getD j 0 == 1)) (ho : ∀ j, out.testBit j = (u.getD j 0 == 1))
    (hpres : ∀ tc ∈ H, ∀ k s', Spec.actFTerm tc.1 s = some (k, s') →
      ∃ wa wb, occList s' (a.nm + b.nm) = wa ++ wb ∧ domA wa ∧ domB wb)
    (hR : binaryCodeTransform 0 H c = .ok R) :
    Sem.den .qubit R [wq] [xq] = Spec.melF H out s :=
  bct_append_sound' a b c h ha sa sb domA domB hA hB H R hwf v u hv hu wq xq s out hw hx hs ho hpres hR

/-- … and for `c = (m + 1) * a` on the `(m + 1)`-fold product domain -/
theorem bct_int_mul_sound (a : Code) (ha : Shaped a) (sa : Struct a) (m : Nat) (c : Code)
    (h : a.imulInt ((m + 1 : Nat) : Int) = .ok c) (dom : List Nat → Prop)
    (hA : ∀ v, dom v → v.length = a.nm ∧ (∀ x ∈ v, x ≤ 1) ∧ ValidOn a v)
    (H R : Model.Op) (hwf : ∀ tc ∈ H, ∀ f ∈ tc.1, f.2 ≤ 1 ∧ f.1 < a.nm * (m + 1))
    (v u : List Nat) (hv : ∃ vs : List (List Nat), vs.length = m + 1 ∧ v = vs.flatten ∧ ∀ x ∈ vs, dom x)
    (hu : ∃ us : List (List Nat), us.length = m + 1 ∧ u = us.flatten ∧ ∀ x ∈ us, dom x)
    (wq xq s out : Nat) (hw : bitsOf wq = encFn c v) (hx : bitsOf xq = encFn c u)
    (hs : ∀ j, s.testBit j = (v.getD j 0 == 1)) (ho : ∀ j, out.testBit j = (u.getD j 0 == 1))
    (hpres : ∀ tc ∈ H, ∀ k s', Spec.actFTerm tc.1 s = some (k, s') →
      ∃ ws : List (List Nat), ws.length = m + 1 ∧ occList s' (a.nm * (m + 1)) = ws.flatten ∧ ∀ x ∈ ws, dom x)
    (hR : binaryCodeTransform 0 H c = .ok R) :
    Sem.den .qubit R [wq] [xq] = Spec.melF H out s :=
  bct_int_mul_sound' a ha sa m c h dom hA H R hwf v u hv hu wq xq s out hw hx hs ho hpres hR

/-- `Struct` is also kept by concatenation `a * f` (`double_decoding`), whatever `f` is -/
theorem struct_closed_concat (a f c : Code) (h : a.imulCode f = .ok c) (sa : Struct a) : Struct c :=
  imulCode_struct a f c h sa

/-- **binary_code_transform_sound for `c = a * f`** (concatenation): when `a` decodes what it encodes on `dom`, `f`
decodes what it encodes on the encodings `e_a(v)`, `v ∈ dom`, and the terms of the Hamiltonian map `dom` to itself (or
to 0), the transform with `c` has the Spec matrix elements between the encoded states of `dom`.  With
`constructors_struct`, `struct_closed` and this, the hypotheses of `binary_code_transform_sound` are discharged for every
code expression built from the constructors with `+`, integer `*` and concatenation. -/
theorem bct_concat_sound (a f c : Code) (h : a.imulCode f = .ok c) (ha : Shaped a) (sa : Struct a)
    (dom : List Nat → Prop)
    (hA : ∀ v, dom v → v.length = a.nm ∧ (∀ x ∈ v, x ≤ 1) ∧ ValidOn a v ∧ ValidOn f (encode a v))
    (H R : Model.Op) (hwf : ∀ tc ∈ H, ∀ g ∈ tc.1, g.2 ≤ 1 ∧ g.1 < a.nm)
    (v u : List Nat) (hv : dom v) (hu : dom u)
    (wq xq s out : Nat) (hw : bitsOf wq = encFn c v) (hx : bitsOf xq = encFn c u)
    (hs : ∀ j, s.testBit j = (v.getD j 0 == 1)) (ho : ∀ j, out.testBit j = (u.getD j 0 == 1))
    (hpres : ∀ tc ∈ H, ∀ k s', Spec.actFTerm tc.1 s = some (k, s') → dom (occList s' a.nm))
    (hR : binaryCodeTransform 0 H c = .ok R) :
    Sem.den .qubit R [wq] [xq] = Spec.melF H out s :=
  bct_concat_sound' a f c h ha sa dom hA H R hwf v u hv hu wq xq s out hw hx hs ho hpres hR

/-- every constructor of binary_codes.py yields a well-shaped code (`Shaped`: encoder `n_qubits x n_modes`, one decoder
component per mode, decoder variables below `n_qubits`), for every parameter -/
theorem constructors_shaped :
    (∀ n c, jordanWignerCode n = .ok c → Shaped c) ∧ (∀ n c, bravyiKitaevCode n = .ok c → Shaped c) ∧
    (∀ n c, parityCode n = .ok c → Shaped c) ∧ (∀ n odd c, checksumCode n odd = .ok c → Shaped c) ∧
    (∀ h c, interleavedCode (2 * h) = .ok c → Shaped c) ∧ (∀ e c, weightOneBinaryAddressingCode e = .ok c → Shaped c) ∧
    (∀ c, weightOneSegmentCode = .ok c → Shaped c) ∧ (∀ c, weightTwoSegmentCode = .ok c → Shaped c) :=
  ⟨jw_shaped, bk_shaped, parity_shaped, checksum_shaped, interleaved_shaped, w1ba_shaped, w1seg_shaped, w2seg_shaped⟩

/-- **every code expression the driver builds** (`CExpr.build`: the constructors combined with `+`, integer `*` and
concatenation, to any depth) is well shaped and has the decoder structure `binary_code_transform_sound` needs — so the
validity / soundness theorems compose over all code expressions. -/
theorem code_expression_shaped_struct (e : CExpr) (c : Code) (h : e.build = .ok c) : Shaped c ∧ Struct c :=
  cexpr_shaped_struct e c h

/-! ## the literal segment codes (tables re-extracted from the source on every run) -/

instance (c : Code) (v : List Nat) : Decidable (ValidOn c v) := by unfold ValidOn; infer_instance

/-- the code was built and is valid on every listed vector -/
def validAll (r : Except Err Code) (dom : List (List Nat)) : Bool :=
  match r with
  | .ok c => dom.all fun v => decide (ValidOn c v)
  | .error _ => false

/-- `weight_one_segment_code()` is valid on its whole domain (Hamming weight 0 and 1 on 3 modes). -/
theorem weight_one_segment_code_valid :
    validAll weightOneSegmentCode [[0, 0, 0], [1, 0, 0], [0, 1, 0], [0, 0, 1]] = true := by decide

/- Full statement (FALSE on the current tree, known finding `C09-w2seg-decoder`):
   `weight_two_segment_code()` is valid on all 15 vectors of Hamming weight 1 and 2 on 5 modes.
   It fails exactly on (0,0,0,0,1) and (0,0,0,1,1); the 13 others are proved.  No counterexample
   theorem is stated over the extracted table, so that a repaired tree still builds. -/
/-- `weight_two_segment_code()` is valid on the 13 vectors of weight 1 and 2 other than
`(0,0,0,0,1)` and `(0,0,0,1,1)`. -/
theorem weight_two_segment_code_valid_partial :
    validAll weightTwoSegmentCode
      [[1,0,0,0,0], [0,1,0,0,0], [0,0,1,0,0], [0,0,0,1,0],
       [1,1,0,0,0], [1,0,1,0,0], [1,0,0,1,0], [1,0,0,0,1], [0,1,1,0,0], [0,1,0,1,0], [0,1,0,0,1],
       [0,0,1,1,0], [0,0,1,0,1]] = true := by decide

example : (jordanWignerCode 3).toBool = true ∧ (bravyiKitaevCode 5).toBool = true := by decide
example (c : Code) (h : jordanWignerCode 3 = .ok c) : ValidOn c [1, 0, 1] :=
  jw_code_valid 3 c h _ (by decide)
example : (parityCode 4).toBool = true ∧ (parityCode 1).toBool = true := by decide
example : (checksumCode 4 true).toBool = true ∧ (interleavedCode 6).toBool = true ∧
    (weightOneBinaryAddressingCode 2).toBool = true := by decide

example : evalPoly (fun i => i == 1) (imul [[some 0], [some 1]] [[some 1], [none]]) = false := by decide

end OFV.C09
