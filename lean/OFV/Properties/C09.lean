import OFV.Model.C09
import OFV.Spec.C09

namespace OFV.C09

end OFV.C09
