/-
C14 — property theorems (circuit primitives and gates).
Helper lemmas: OFV/Proofs/C14Swap.lean, OFV/Proofs/C14Gates.lean.
-/
import OFV.Model.C14Swap
import OFV.Spec.C14
import OFV.Proofs.C14Swap
import OFV.Proofs.C14Gates
import OFV.Proofs.C14Ffft
import OFV.Proofs.C14Givens
import OFV.Proofs.C14FfftAction
import OFV.Proofs.C14FfftGeneral

namespace OFV.C14
open OFV.Model.C14 OFV.Spec.C14

/-! ## swap network (all sizes, both offsets) -/

/-- After the `n` layers the `order` list is the reversal of `0 … n-1`. -/
theorem swap_network_order_reversed (n : Nat) (offset : Bool) :
    (swapNetwork n offset).1 = (List.range n).reverse := by
  rw [swapNetwork_closed]

/-- Every callback invocation receives two *adjacent* qubits `(a, a+1)` of the register and
two different modes of the register. -/
theorem swap_network_calls_adjacent (n : Nat) (offset : Bool) :
    ∀ e ∈ (swapNetwork n offset).2,
      e.2.2.2 = e.2.2.1 + 1 ∧ e.2.2.2 < n ∧ e.1 < n ∧ e.2.1 < n ∧ e.1 ≠ e.2.1 := by
  intro e he
  rw [swapNetwork_closed] at he
  obtain ⟨t, ht, m, hm, rfl⟩ := mem_logUpTo n offset.toNat n e he
  exact entry_ok n offset.toNat t m ht hm

/-- Every unordered pair of modes `{p, q}` is handed to the callback exactly once. -/
theorem swap_network_pair_once (n : Nat) (offset : Bool) (p q : Nat) (hpq : p < q) (hq : q < n) :
    ((swapNetwork n offset).2.filter (isPair p q)).length = 1 := by
  rw [swapNetwork_closed]
  exact pair_once n offset.toNat p q (by cases offset <;> simp) hpq hq

/-- The Model's network satisfies the executable contract `Spec.C14.swapOk` — the same
predicate the oracle evaluates on the callback log of the real `swap_network`. -/
theorem swap_network_spec (n : Nat) (offset : Bool) :
    swapOk n (swapNetwork n offset).1 (swapNetwork n offset).2 = true := by
  unfold swapOk
  simp only [Bool.and_eq_true, List.all_eq_true, beq_iff_eq, List.mem_range]
  refine ⟨⟨⟨swap_network_order_reversed n offset, ?_⟩, ?_⟩, ?_⟩
  · intro e he
    obtain ⟨h1, h2, _⟩ := swap_network_calls_adjacent n offset e he
    simp [adjacent, h1]; omega
  · intro e he
    obtain ⟨_, _, h3, h4, h5⟩ := swap_network_calls_adjacent n offset e he
    simp [validPair, h3, h4, h5]
  · intro q hq p hp
    exact swap_network_pair_once n offset p q hp hq

/-- The callback is invoked `n(n-1)/2` times. -/
theorem swap_network_call_count (n : Nat) (offset : Bool) :
    (swapNetwork n offset).2.length * 2 = n * (n - 1) :=
  OFV.C15.swapNetwork_call_count n offset

/-- At every callback the smaller mode is on the left qubit (`p < q`): two modes cross exactly once, starting in
ascending order. -/
theorem swap_network_calls_ascending (n : Nat) (offset : Bool) :
    ∀ e ∈ (swapNetwork n offset).2, e.1 < e.2.1 :=
  fun e he => swapNetwork_call_ascending n offset e he

/-- The network with `offset=True` is the mirror image, in time and in space, of the network with
`offset=False`: the same pairs of modes meet in reverse order, on the mirrored qubit positions
`(n-2-a, n-1-a)`.  (This is what makes a "network, then network with offset=True on the reversed
qubits" sequence a palindrome — see C15 `lsn_sym_step_mirrored`.) -/
theorem swap_network_offset_mirror (n : Nat) :
    (swapNetwork n true).2 = ((swapNetwork n false).2.reverse).map (mirror n) :=
  swapNetwork_mirror n

/-- non-vacuity: the contract is not trivially true (a log that misses a pair is rejected) and
the Model's log for `n = 4` is the documented one -/
example : swapOk 3 [2, 1, 0] [(0, 1, 0, 1), (0, 2, 1, 2)] = false := by decide
example : (swapNetwork 4 false).2 =
    [(0, 1, 0, 1), (2, 3, 2, 3), (0, 3, 1, 2), (1, 3, 0, 1), (0, 2, 2, 3), (1, 2, 1, 2)] := by decide
example : (swapNetwork 4 true).1 = [3, 2, 1, 0] := by decide

/-! ## Givens-network primitives: structure of the emitted circuit -/

/-- Structure theorem for `_slater_basis_change` / `prepare_slater_determinant`-style circuits whose
description comes from the C11 schedule of `givens_decomposition_square` (every layer a sub-list of the
rotations of one iteration `k`; in any order of layers, so also for the `reversed(...)` the code applies):
the emitted operations are `Ryxxy` on ADJACENT qubits `(a, a+1)` inside the register followed by a `Z**φ`
on the upper one, never an `X`, and the rotations of one layer act on pairwise DISJOINT qubit pairs — the
layers can be executed in parallel on a linear array. -/
theorem slater_circuit_structure (n : Nat) (desc : List (List (Option (Nat × Nat × Nat))))
    (h : FromSquareSchedule n desc) :
    (∀ o ∈ givensOps n desc, match o with
      | .x _ => False
      | .ryxxy a b _ => b = a + 1 ∧ b < n
      | .zpow b _ => 0 < b ∧ b < n) ∧
    (∀ layer ∈ desc, ∀ a b p a' b' p', some (a, b, p) ∈ layer → some (a', b', p') ∈ layer →
      (a, b) ≠ (a', b') → b + 2 ≤ b' ∨ b' + 2 ≤ b) := by
  constructor
  · intro o ho
    unfold givensOps at ho
    rw [List.mem_flatMap] at ho
    obtain ⟨layer, hl, ho⟩ := ho
    rw [List.mem_flatMap] at ho
    obtain ⟨op, hop, ho⟩ := ho
    obtain ⟨k, hk⟩ := h layer hl
    obtain ⟨a, b, p, rfl, hab⟩ := hk op hop
    obtain ⟨h1, h2⟩ := slaterLayerPairs_adjacent n k a b hab
    simp only [List.mem_cons, List.not_mem_nil, or_false] at ho
    rcases ho with rfl | rfl
    · exact ⟨h1, h2⟩
    · exact ⟨by omega, h2⟩
  · intro layer hl a b p a' b' p' h1 h2 hne
    obtain ⟨k, hk⟩ := h layer hl
    obtain ⟨a1, b1, p1, e1, m1⟩ := hk _ h1
    obtain ⟨a2, b2, p2, e2, m2⟩ := hk _ h2
    simp only [Option.some.injEq, Prod.mk.injEq] at e1 e2
    obtain ⟨rfl, rfl, rfl⟩ := e1
    obtain ⟨rfl, rfl, rfl⟩ := e2
    exact slaterLayerPairs_disjoint n k _ _ _ _ m1 m2 hne

/-- non-vacuity: the full schedule for `n = 4` is such a description (and is not empty) -/
example : slaterSchedulePairs 4 = [[(2, 3)], [(1, 2)], [(0, 1), (2, 3)], [(1, 2)], [(2, 3)]] := by decide

/-! ## initial-state glue of the primitives (all inputs) -/

/-- `_occupied_orbitals(state, n)`: exactly the big-endian one-bits of `state` -/
theorem occupied_orbitals_spec (state n j : Nat) :
    j ∈ occupiedOrbitals state n ↔ j < n ∧ state.testBit (n - 1 - j) = true := by
  simp [occupiedOrbitals]

/-- after the bit flips of `prepare_slater_determinant` / `_slater_basis_change` exactly the first `nOcc` qubits
are set: qubit `j < n` ends up occupied (initially occupied XOR flipped) iff `j < nOcc` -/
theorem slater_flips_spec (n nOcc : Nat) (occ : List Nat) (j : Nat) (hj : j < n) :
    (occ.contains j != (slaterFlips n nOcc occ).contains j) = decide (j < nOcc) := by
  have hmem : (slaterFlips n nOcc occ).contains j = (decide (j < nOcc) != occ.contains j) := by
    rw [Bool.eq_iff_iff]
    simp only [List.contains_iff_mem, slaterFlips, List.mem_filter, List.mem_range]
    constructor
    · intro h; exact h.2
    · intro h; exact ⟨hj, h⟩
  rw [hmem]
  cases occ.contains j <;> cases decide (j < nOcc) <;> rfl

/-- after the bit flips of `_generic_gaussian_circuit` exactly the start orbitals are set -/
theorem gaussian_flips_spec (n : Nat) (occ start : List Nat) (j : Nat) (hj : j < n) :
    (occ.contains j != (gaussianFlips n occ start).contains j) = start.contains j := by
  have hmem : (gaussianFlips n occ start).contains j = (occ.contains j != start.contains j) := by
    rw [Bool.eq_iff_iff]
    simp only [List.contains_iff_mem, gaussianFlips, List.mem_filter, List.mem_range]
    constructor
    · intro h; exact h.2
    · intro h; exact ⟨hj, h⟩
  rw [hmem]
  cases occ.contains j <;> cases start.contains j <;> rfl

/-- the flips only touch qubits of the register -/
theorem flips_in_register (n nOcc : Nat) (occ start : List Nat) :
    (∀ j ∈ slaterFlips n nOcc occ, j < n) ∧ (∀ j ∈ gaussianFlips n occ start, j < n) := by
  constructor <;> intro j hj
  · simp only [slaterFlips, List.mem_filter, List.mem_range] at hj; exact hj.1
  · simp only [gaussianFlips, List.mem_filter, List.mem_range] at hj; exact hj.1

/-- spin-block split: an index is occupied iff it is an occupied up-orbital or (shifted) an occupied down-orbital -/
theorem split_orbitals_spec (n : Nat) (occ : List Nat) (i : Nat) :
    (i ∈ (splitOrbitals n occ).1 ↔ i ∈ occ ∧ i < n / 2) ∧
    (i ∈ (splitOrbitals n occ).2 ↔ i + n / 2 ∈ occ) := by
  constructor
  · simp [splitOrbitals]
  · simp only [splitOrbitals, List.mem_map, List.mem_filter, decide_eq_true_eq]
    constructor
    · rintro ⟨a, ⟨ha, hle⟩, rfl⟩
      have : a - n / 2 + n / 2 = a := by omega
      rw [this]; exact ha
    · intro h
      exact ⟨i + n / 2, ⟨h, by omega⟩, by omega⟩
/-! ## from the one-particle block to Fock space -/

/-- Lift of the single-particle statements: if an invertible operator `U` conjugates every creation operator
`a†_p` into `b†_p` (the conjugation identities the oracle checks for `p = 0 … n−1`, the gate theorems above, and
`ffft_pow2_is_dft` on the one-particle sector), it conjugates every product `a†_{p1} ⋯ a†_{pk}` into
`b†_{p1} ⋯ b†_{pk}` … (in any monoid of operators) -/
theorem conjugation_lifts_to_products {A : Type} [Monoid A] (U Uinv : A) (h1 : Uinv * U = 1) (h2 : U * Uinv = 1)
    (a b : Nat → A) (hconj : ∀ p, U * a p * Uinv = b p) (l : List Nat) :
    U * (l.map a).prod * Uinv = (l.map b).prod := by
  induction l with
  | nil => simp [h2]
  | cons p l ih =>
    simp only [List.map_cons, List.prod_cons]
    calc U * (a p * (l.map a).prod) * Uinv
        = (U * a p * Uinv) * (U * (l.map a).prod * Uinv) := by
          simp only [mul_assoc]
          rw [← mul_assoc Uinv U, h1, one_mul]
      _ = b p * (l.map b).prod := by rw [hconj, ih]

/-- … and therefore its action on every Fock basis state `a†_{p1} ⋯ a†_{pk}|vac⟩` (a Slater determinant) is
`b†_{p1} ⋯ b†_{pk} U|vac⟩`: a number-conserving Gaussian unitary is determined by its one-particle block and its
action on the vacuum (a phase).  This is why the harness may check `U a†_p U⁻¹` for the `n` generators only,
and how prepared Slater determinants follow from the conjugation identity. -/
theorem conjugation_determines_fock_action {A : Type} [Monoid A] (U Uinv : A) (h1 : Uinv * U = 1) (h2 : U * Uinv = 1)
    (a b : Nat → A) (hconj : ∀ p, U * a p * Uinv = b p) (l : List Nat) (vac : A) :
    U * ((l.map a).prod * vac) = (l.map b).prod * (U * vac) := by
  rw [← conjugation_lifts_to_products U Uinv h1 h2 a b hconj l]
  simp only [mul_assoc]
  rw [← mul_assoc Uinv U, h1, one_mul]

/-! ## ffft: Cooley–Tukey index recursion (partial: exponents, not the unitary) -/

/-- `ffft_spec_partial`.  For EVERY factor list (prime or not, any order) the index recursion of
`_ffft` — `_permute` with `i ↦ (i % ny)·nx + i / ny`, the `_TwiddleGate(x·y, n)` exponents and the two
layers of sub-transforms — produces the discrete Fourier exponent table: `ctExp factors k j ≡ k·j (mod n)`,
`n = ∏ factors`.  Full statement (NOT proved): the circuit unitary `U` of `ffft` satisfies
`U a†_k U⁻¹ = n^{-1/2} Σ_j e^{-2πi k j / n} a†_j`; what is missing is that every emitted gate
(`F0`, `_TwiddleGate`, the FSWAP permutation networks, the prime-size `bogoliubov_transform`) acts on the
single-particle coefficients as `ctExp` assumes — checked numerically by the harness (oracle). -/
theorem ffft_spec_partial (factors : List Nat) (k j : Nat) (hj : j < listProd factors) :
    ctExp factors k j % listProd factors = (k * j) % listProd factors :=
  ctExp_modEq factors k j hj

/-- the factor list the Model uses (ascending trial division, mirrors `factorint`) multiplies to `n`,
so the table exported to the harness is the DFT table for every `n ≥ 1` -/
theorem ffft_table_is_dft (n k j : Nat) (hn : 1 ≤ n) (hj : j < n) :
    ctExp (primeFactors n n) k j % n = (k * j) % n := by
  have hp := primeFactors_prod n n (Nat.le_refl n) hn
  have := ffft_spec_partial (primeFactors n n) k j (by rw [hp]; exact hj)
  rwa [hp] at this

example : ctExp [2, 3] 4 5 = 8 ∧ 8 % 6 = (4 * 5) % 6 := by decide
example : primeFactors 12 12 = [2, 2, 3] := by decide

/-- `ffft_pow2_is_dft` — the GATE ACTION for registers of `2^M` modes: over any commutative ring with an element
`w` with `w^(2^(M-1)) = −1` (a primitive `2^M`-th root of unity; `ω = e^{-2πi/2^M}` in ℂ), letting the operations
emitted by the Model's `ffftOps (2^M)` — FSWAP permutation networks, `F0`, `_TwiddleGate`s, in circuit order — act
on the coefficient vector of `a†_k` produces the coefficients `w^(k·j)` on `a†_j`: the emitted op list implements
the discrete Fourier transform on the one-particle sector (times `2^{-M/2}`: one factor `2^{-1/2}` per `F0` layer,
kept out of the Model).  The single-gate actions assumed in `applyFfftOp` (`F0`: `(a,b) ↦ (a+b, a−b)`, twiddle:
multiplication by `ω_n^k`, permutation: relabelling) are the C14 gate facts checked against cirq by the harness. -/
theorem ffft_pow2_is_dft {R : Type} [CommRing R] (w : R) (M : Nat) (hneg : 1 ≤ M → w ^ (2 ^ (M - 1)) = -1)
    (k j : Nat) (hk : k < 2 ^ M) (hj : j < 2 ^ M) :
    runFfft (ringOps w) (2 ^ M) (ffftOps (2 ^ M)) (fun i => if i = k then 1 else 0) j = w ^ (j * k) := by
  have hops : ffftOps (2 ^ M) = ffftRec 0 (2 ^ M) (List.replicate M 2) := by
    unfold ffftOps
    rcases Nat.eq_zero_or_pos M with h0 | hpos
    · subst h0; simp [ffftRec]
    · have : ¬ (2 ^ M ≤ 1) := by
        have : 2 ^ 1 ≤ 2 ^ M := Nat.pow_le_pow_right (by norm_num) hpos
        omega
      rw [if_neg this, primeFactors_pow2 M (2 ^ M) (Nat.le_refl _)]
  obtain ⟨_, hd⟩ := ffftRec_pow2_isDFT w M hneg M (Nat.le_refl M) 0 (fun i => if i = k then (1 : R) else 0)
  have := hd j hj
  rw [Nat.zero_add] at this
  rw [hops, this, Nat.sub_self, pow_zero, pow_one]
  rw [Finset.sum_eq_single k]
  · simp
  · intro b _ hb; simp [hb]
  · intro hk'; exact absurd (Finset.mem_range.mpr hk) hk'

/-- `ffft_is_dft` — the gate action for EVERY register size `n ≥ 1` (prime, composite, power of two): over any
commutative ring with an `n`-th root of unity `w` (`w^n = 1`, and `w^(n/2) = −1` when `n` is even), the operations
emitted by `ffftOps n` — generalised Cooley–Tukey for the ascending prime factorisation: FSWAP shuffles
`i ↦ (i % ny)·nx + i / ny`, `ny` recursive transforms of size `nx`, the inverse shuffle, `_TwiddleGate(x·y, n)`,
`nx` transforms of size `ny` (`F0`, or a prime block whose action on coefficients is the size-`p` DFT — the
specification of `bogoliubov_transform(fft_matrix(p))`, C11 / conjugation oracle), the shuffle again — map the
coefficient vector of `a†_k` to `w^(k·j)` on `a†_j`. -/
theorem ffft_is_dft {R : Type} [CommRing R] (w : R) (n : Nat) (hn : 1 ≤ n) (hw : w ^ n = 1)
    (h2 : 2 ∣ n → w ^ (n / 2) = -1) (k j : Nat) (hk : k < n) (hj : j < n) :
    runFfft (ringOps w) n (ffftOps n) (fun i => if i = k then 1 else 0) j = w ^ (j * k) := by
  have hp := primeFactors_prod n n (Nat.le_refl n) hn
  have hd := ffftRec_isDFT w n hw h2 (primeFactors n n) 0 (fun i => if i = k then (1 : R) else 0)
    (primeFactors_pos n n) (by rw [hp])
  rw [hp] at hd
  obtain ⟨_, hd⟩ := hd
  have := hd j hj
  rw [Nat.zero_add] at this
  have hops : runFfft (ringOps w) n (ffftOps n) (fun i => if i = k then (1 : R) else 0) j
      = runFfft (ringOps w) n (ffftRec 0 n (primeFactors n n)) (fun i => if i = k then (1 : R) else 0) j := by
    unfold ffftOps
    by_cases h1 : n ≤ 1
    · have : n = 1 := by omega
      subst this
      simp [primeFactors, ffftRec]
    · rw [if_neg h1]
  rw [hops, this, Nat.div_self (by omega), pow_one]
  rw [Finset.sum_eq_single k]
  · simp
  · intro b _ hb; simp [hb]
  · intro hk'; exact absurd (Finset.mem_range.mpr hk) hk'

/-- The two descriptions of `ffft` the driver exports agree for every size: letting the emitted operations act on
coefficient vectors (`runFfft`, what `c14.ffftsim*` executes) gives the root of unity raised to the entry of the
Cooley–Tukey exponent table (`ffftExpTable`, what `c14.ffftexp` returns). -/
theorem ffft_ops_match_exponent_table {R : Type} [CommRing R] (w : R) (n : Nat) (hn : 1 ≤ n) (hw : w ^ n = 1)
    (h2 : 2 ∣ n → w ^ (n / 2) = -1) (k j : Nat) (hk : k < n) (hj : j < n) :
    runFfft (ringOps w) n (ffftOps n) (fun i => if i = k then 1 else 0) j
      = w ^ (ctExp (primeFactors n n) k j % n) := by
  rw [ffft_is_dft w n hn hw h2 k j hk hj, ffft_table_is_dft n k j hn hj, pow_mod_of_pow_eq_one w n _ hw, Nat.mul_comm]
/-- non-vacuity: `w = −1` for two modes (ℤ), `w = −i` for four modes (Gaussian rationals) -/
example : (1 : Nat) ≤ 1 → (-1 : Int) ^ (2 ^ (1 - 1)) = -1 := by intro _; norm_num
example : (1 : Nat) ≤ 2 → (⟨0, -1⟩ : GQ) ^ (2 ^ (2 - 1)) = -1 := by
  intro _; rw [show (2 : Nat) ^ (2 - 1) = 2 from rfl, pow_two]; apply GQ.ext <;> simp

/-! ## gate algebra (all rational points `(c, s)` of the unit circle; `cr2 p`, `an2 p` are the
Jordan–Wigner matrices of `a†_p`, `a_p` on two modes computed from the Spec action `actF`) -/

/-- `FSWAP` exchanges the two fermionic modes: `F a†_0 F⁻¹ = a†_1`, `F a†_1 F⁻¹ = a†_0`, and
`F† = F⁻¹`. -/
theorem fswap_swaps_modes :
    Mat.mul fswap (Mat.mul (cr2 0) (Mat.dagger fswap)) = cr2 1 ∧
    Mat.mul fswap (Mat.mul (cr2 1) (Mat.dagger fswap)) = cr2 0 ∧
    Mat.mul fswap (Mat.dagger fswap) = Mat.identity 4 := by
  decide +kernel

/-- `Ryxxy(θ)` is the Givens rotation of the two modes:
`U a†_0 U⁻¹ = cos θ a†_0 − sin θ a†_1`, `U a†_1 U⁻¹ = sin θ a†_0 + cos θ a†_1`. -/
theorem ryxxy_conjugation (c s : Rat) (h : c * c + s * s = 1) :
    Mat.mul (ryxxy c s) (Mat.mul (cr2 0) (Mat.dagger (ryxxy c s))) =
      Mat.add (Mat.smul (GQ.ofRat c) (cr2 0)) (Mat.smul (GQ.ofRat (-s)) (cr2 1)) ∧
    Mat.mul (ryxxy c s) (Mat.mul (cr2 1) (Mat.dagger (ryxxy c s))) =
      Mat.add (Mat.smul (GQ.ofRat s) (cr2 0)) (Mat.smul (GQ.ofRat c) (cr2 1)) ∧
    Mat.mul (ryxxy c s) (Mat.dagger (ryxxy c s)) = Mat.identity 4 := by
  rw [cr2_0, cr2_1, identity4]
  unfold ryxxy id4
  refine ⟨?_, ?_, ?_⟩ <;> mat_unfold <;> mat_entries

/-- `Rxxyy(θ) = exp(-iθ(XX+YY)/2)`:
`U a†_0 U⁻¹ = cos θ a†_0 − i sin θ a†_1`, `U a†_1 U⁻¹ = −i sin θ a†_0 + cos θ a†_1`. -/
theorem rxxyy_conjugation (c s : Rat) (h : c * c + s * s = 1) :
    Mat.mul (rxxyy c s) (Mat.mul (cr2 0) (Mat.dagger (rxxyy c s))) =
      Mat.add (Mat.smul (GQ.ofRat c) (cr2 0)) (Mat.smul ⟨0, -s⟩ (cr2 1)) ∧
    Mat.mul (rxxyy c s) (Mat.mul (cr2 1) (Mat.dagger (rxxyy c s))) =
      Mat.add (Mat.smul ⟨0, -s⟩ (cr2 0)) (Mat.smul (GQ.ofRat c) (cr2 1)) ∧
    Mat.mul (rxxyy c s) (Mat.dagger (rxxyy c s)) = Mat.identity 4 := by
  rw [cr2_0, cr2_1, identity4]
  unfold rxxyy id4
  refine ⟨?_, ?_, ?_⟩ <;> mat_unfold <;> mat_entries

/-- `Rzz(θ) = cos θ · 1 − i sin θ · Z⊗Z` (i.e. `exp(-iθ Z⊗Z)` since `(Z⊗Z)² = 1`). -/
theorem rzz_structure (c s : Rat) :
    rzz c s = Mat.add (Mat.smul (GQ.ofRat c) (Mat.identity 4)) (Mat.smul ⟨0, -s⟩ zz) ∧
    Mat.mul zz zz = Mat.identity 4 := by
  rw [zz_eq, identity4]
  unfold rzz id4
  refine ⟨?_, ?_⟩ <;> mat_unfold <;> mat_entries

/-- The eigen-components written in `FSwapPowGate._eigen_components` *today* (extracted on every
run) are a complete pair of orthogonal projectors with half-turn exponents `0, 1`, and
`FSWAP**t = P₀ + e^{iπt} P₁` is the docstring matrix (`g = e^{iπt/2} = c + i s`); at `t = 1`
it is `FSWAP`. -/
theorem fswapPow_spectral (c s : Rat) (h : c * c + s * s = 1) :
    OFV.Generated.C14.fswapEig = [(0, fswapP0), (1, fswapP1)] ∧
    Mat.add fswapP0 fswapP1 = Mat.identity 4 ∧
    Mat.mul fswapP0 fswapP1 = zero4 ∧ Mat.mul fswapP0 fswapP0 = fswapP0 ∧
    Mat.mul fswapP1 fswapP1 = fswapP1 ∧
    fswapPow c s = Mat.add fswapP0 (Mat.smul (cis c s * cis c s) fswapP1) ∧
    fswapPow 0 1 = fswap := by
  refine ⟨fswapEig_eq, by decide +kernel, by decide +kernel, by decide +kernel, by decide +kernel,
    ?_, by decide +kernel⟩
  unfold fswapPow fswapP0 fswapP1
  mat_unfold
  mat_entries

/-- `FSWAP**t` acts on the creation operators as the single-particle block of its docstring
matrix, and is unitary. -/
theorem fswapPow_conjugation (c s : Rat) (h : c * c + s * s = 1) :
    Mat.mul (fswapPow c s) (Mat.mul (cr2 0) (Mat.dagger (fswapPow c s))) =
      Mat.add (Mat.smul (cis c s * GQ.ofRat c) (cr2 0))
        (Mat.smul (-(GQ.I * cis c s * GQ.ofRat s)) (cr2 1)) ∧
    Mat.mul (fswapPow c s) (Mat.dagger (fswapPow c s)) = Mat.identity 4 := by
  rw [cr2_0, cr2_1, identity4]
  unfold fswapPow id4
  have h4 : (c * c + s * s) * (c * c + s * s) = 1 := by rw [h]; ring
  refine ⟨?_, ?_⟩ <;> mat_unfold <;> mat_entries
  all_goals try linear_combination h4
  all_goals try linear_combination (c * c) * h
  all_goals try linear_combination (s * c) * h
  all_goals try linear_combination (-(s * s)) * h
  all_goals try linear_combination (c * s) * h

/-- Angle addition (`G(θ₁)·G(θ₂) = G(θ₁+θ₂)` on rational points of the circle: `(c,s)·(c',s') = (cc'−ss', cs'+sc')`)
for the one-parameter gate families of the Model: `FSWAP**t`, `Rxxyy`, `Ryxxy`, `Rzz`, `rot11`. -/
theorem gates_angle_addition (c s c' s' : Rat) :
    Mat.mul (rxxyy c s) (rxxyy c' s') = rxxyy (c * c' - s * s') (c * s' + s * c') ∧
    Mat.mul (ryxxy c s) (ryxxy c' s') = ryxxy (c * c' - s * s') (c * s' + s * c') ∧
    Mat.mul (rzz c s) (rzz c' s') = rzz (c * c' - s * s') (c * s' + s * c') ∧
    Mat.mul (rot11 c s) (rot11 c' s') = rot11 (c * c' - s * s') (c * s' + s * c') := by
  unfold rxxyy ryxxy rzz rot11
  refine ⟨?_, ?_, ?_, ?_⟩ <;> mat_unfold <;> mat_entries

/-- …and for `FSWAP**t` (exponent additivity `FSWAP**t₁ · FSWAP**t₂ = FSWAP**(t₁+t₂)`) -/
theorem fswapPow_angle_addition (c s c' s' : Rat) (h : c * c + s * s = 1) (h' : c' * c' + s' * s' = 1) :
    Mat.mul (fswapPow c s) (fswapPow c' s') = fswapPow (c * c' - s * s') (c * s' + s * c') := by
  unfold fswapPow
  mat_unfold
  mat_entries
/-- `QuadraticFermionicSimulationGate._decompose_` equals the gate:
`CZ**(-w1 t/π) · Z₀**θ · ISWAP**(-r t) · Z₀**(-θ)` is `exp(-i t H)` for every phase `u = e^{iπθ}`. -/
theorem quadratic_decomposition (c0 s0 c1 s1 : Rat) (u : GQ) (hu : u * GQ.conj u = 1) :
    quadraticDecomposed c0 s0 u c1 s1 = quadratic c0 s0 u c1 s1 := by
  have hre : u.re * u.re + u.im * u.im = 1 := by
    have := congrArg GQ.re hu; simp [GQ.conj] at this; linarith
  unfold quadraticDecomposed quadratic rot11 zFirst rxxyy
  mat_unfold
  mat_entries
  all_goals try linear_combination c0 * hre
  all_goals try linear_combination c1 * hre
  all_goals try linear_combination (-s1) * hre

/-- The generator matrix of the quadratic gate is the Jordan–Wigner image (through the Spec) of
`w0·G₀ + w1·G₁ + h.c.` for the `fermion_generator_components` `G₀ = a†_0 a_1`,
`G₁ = ½ a†_0 a_0 a†_1 a_1` extracted from the live source (`w1` real). -/
theorem quadratic_generator_is_jw (w0 : GQ) (w1 : Rat) :
    let half := Mat.add (Mat.smul w0 (opMat2 (OFV.Generated.C14.quadraticComponents.getD 0 [])))
      (Mat.smul (GQ.ofRat w1) (opMat2 (OFV.Generated.C14.quadraticComponents.getD 1 [])))
    quadraticGenerator w0 (GQ.ofRat w1) = Mat.add half (Mat.dagger half) := by
  rw [quadComp0, quadComp1]
  unfold quadraticGenerator
  mat_unfold
  mat_entries

/-- Spectral form of the quadratic gate (mirrors `_eigen_components`): for `w0 = r·u`,
`|u| = 1`, the four matrices `P00, P11, P₊, P₋` are a complete family of orthogonal
projectors, `H = r P₊ − r P₋ + w1 P11`, and the Model unitary is
`P00 + e^{-irt} P₊ + e^{+irt} P₋ + e^{-i w1 t} P11` — i.e. `exp(-i t H)` evaluated on the
spectrum, with `(c0, s0) = (cos rt, sin rt)`, `(c1, s1) = (cos w1 t, sin w1 t)`. -/
theorem quadratic_spectral (r w1 c0 s0 c1 s1 : Rat) (u : GQ) (hu : u * GQ.conj u = 1) :
    Mat.add (Mat.add quadP00 quadP11) (Mat.add (quadPpm 1 u) (quadPpm (-1) u)) = Mat.identity 4 ∧
    Mat.mul (quadPpm 1 u) (quadPpm 1 u) = quadPpm 1 u ∧
    Mat.mul (quadPpm (-1) u) (quadPpm (-1) u) = quadPpm (-1) u ∧
    Mat.mul (quadPpm 1 u) (quadPpm (-1) u) = zero4 ∧
    quadraticGenerator (GQ.ofRat r * u) (GQ.ofRat w1) =
      Mat.add (Mat.add (Mat.smul (GQ.ofRat r) (quadPpm 1 u)) (Mat.smul (GQ.ofRat (-r)) (quadPpm (-1) u)))
        (Mat.smul (GQ.ofRat w1) quadP11) ∧
    quadratic c0 s0 u c1 s1 =
      Mat.add (Mat.add quadP00 (Mat.smul (cis c1 (-s1)) quadP11))
        (Mat.add (Mat.smul (cis c0 (-s0)) (quadPpm 1 u)) (Mat.smul (cis c0 s0) (quadPpm (-1) u))) := by
  have hre : u.re * u.re + u.im * u.im = 1 := by
    have := congrArg GQ.re hu; simp [GQ.conj] at this; linarith
  rw [identity4]
  unfold quadP00 quadP11 quadPpm quadraticGenerator quadratic zero4 id4
  refine ⟨?_, ?_, ?_, ?_, ?_, ?_⟩ <;> mat_unfold <;> mat_entries

/-- Cubic gate, GENERAL weights: `qubit_generator_matrix` is the Jordan–Wigner image (through the Spec, three
modes) of `w0·G₀ + w1·G₁ + w2·G₂ + h.c.` for the `fermion_generator_components` extracted from the live
source (`a†₀a₀a†₁a₂`, `−a†₀a†₁a₁a₂`, `a†₀a₁a†₂a₂`). -/
theorem cubic_generator_is_jw (w0 w1 w2 : GQ) :
    let half := Mat.add (Mat.add (Mat.smul w0 (opMat3 (OFV.Generated.C14.cubicComponents.getD 0 [])))
      (Mat.smul w1 (opMat3 (OFV.Generated.C14.cubicComponents.getD 1 []))))
      (Mat.smul w2 (opMat3 (OFV.Generated.C14.cubicComponents.getD 2 [])))
    cubicGenerator w0 w1 w2 = Mat.add half (Mat.dagger half) := by
  rw [cubicComp0, cubicComp1, cubicComp2, cubicGenerator_lit]
  unfold e65 e63 e53
  mat_unfold
  mat_entries

/-- Quartic gate, general weights: `qubit_generator_matrix` (`w0|1001⟩⟨0110| + w1|1010⟩⟨0101| + w2|1100⟩⟨0011| + h.c.`)
is the Jordan–Wigner image (through the Spec, four modes) of `w0·G₀ + w1·G₁ + w2·G₂ + h.c.` for the
`fermion_generator_components` extracted from the live source; the three two-level blocks act on disjoint index
pairs, so the gate is the product of the three rotations of `quartic` (Model; checked against cirq at 1e-9). -/
theorem quartic_generator_is_jw (w0 w1 w2 : GQ) :
    let half := Mat.add (Mat.add (Mat.smul w0 (opMat4 (OFV.Generated.C14.quarticComponents.getD 0 [])))
      (Mat.smul w1 (opMat4 (OFV.Generated.C14.quarticComponents.getD 1 []))))
      (Mat.smul w2 (opMat4 (OFV.Generated.C14.quarticComponents.getD 2 [])))
    quarticGenerator w0 w1 w2 = Mat.add half (Mat.dagger half) := by
  rw [quarticComp0, quarticComp1, quarticComp2, quarticGenerator_lit]
  unfold e9_6 e10_5 e12_3
  mat_unfold
  mat_entries

/-- `DoubleExcitationGate` as a generator statement: its generator `G = −|0011⟩⟨1100| − h.c.` is the Jordan–Wigner
image (Spec, four modes) of `−(a†_2 a†_3 a_1 a_0 + h.c.)`; the eigen-components written in the source today
(extracted on every run; half-turn exponents `0, −1, +1`) are a complete family of orthogonal projectors with
`G = P₋ − P₊`, and the Model unitary is `P₀ + e^{−iπt} P₋ + e^{+iπt} P₊` (`(c, s) = (cos πt, sin πt)`), i.e.
`exp(−iπt·G)` on the spectrum.  (The CNOT / `Z**(1/8)` decomposition lives in `ℚ(ζ₁₆)`: oracle only.) -/
theorem double_excitation_spectral (c s : Rat) :
    OFV.Generated.C14.doubleExcitationEig = [(0, dxP0), (-1, dxPm), (1, dxPp)] ∧
    doubleExcitationGenerator =
      Mat.smul (-1) (Mat.add (opMat4 [([(2, 1), (3, 1), (1, 0), (0, 0)], 1)])
        (Mat.dagger (opMat4 [([(2, 1), (3, 1), (1, 0), (0, 0)], 1)]))) ∧
    Mat.add (Mat.add dxP0 dxPm) dxPp = Mat.identity 16 ∧
    Mat.mul dxP0 dxP0 = dxP0 ∧ Mat.mul dxPm dxPm = dxPm ∧ Mat.mul dxPp dxPp = dxPp ∧
    Mat.mul dxP0 dxPm = zero16 ∧ Mat.mul dxP0 dxPp = zero16 ∧ Mat.mul dxPm dxPp = zero16 ∧
    doubleExcitationGenerator = Mat.add dxPm (Mat.smul (-1) dxPp) ∧
    doubleExcitation c s =
      Mat.add (Mat.add dxP0 (Mat.smul (cis c (-s)) dxPm)) (Mat.smul (cis c s) dxPp) := by
  refine ⟨dxEig_eq, by decide +kernel, by decide +kernel, by decide +kernel, by decide +kernel, by decide +kernel,
    by decide +kernel, by decide +kernel, by decide +kernel, by decide +kernel, ?_⟩
  rw [doubleExcitation_lit]
  unfold dxP0 dxPm dxPp
  mat_unfold
  mat_entries

/-- `QuadraticFermionicSimulationGate.fswap`: conjugating the gate by FSWAP is the gate with `w0 ↦ w̄0` (the weight
update the code performs), for all parameters. -/
theorem quadratic_fswap_rule (c0 s0 c1 s1 : Rat) (u : GQ) :
    Mat.mul fswap (Mat.mul (quadratic c0 s0 u c1 s1) (Mat.dagger fswap)) = quadratic c0 s0 (GQ.conj u) c1 s1 := by
  unfold fswap quadratic
  mat_unfold
  mat_entries

/-- the Model matrix of the quadratic gate is unitary -/
theorem quadratic_unitary (c0 s0 c1 s1 : Rat) (u : GQ) (h0 : c0 * c0 + s0 * s0 = 1) (h1 : c1 * c1 + s1 * s1 = 1)
    (hu : u * GQ.conj u = 1) :
    Mat.mul (quadratic c0 s0 u c1 s1) (Mat.dagger (quadratic c0 s0 u c1 s1)) = Mat.identity 4 := by
  have hre : u.re * u.re + u.im * u.im = 1 := by
    have := congrArg GQ.re hu; simp [GQ.conj] at this; linarith
  rw [identity4]
  unfold quadratic id4
  mat_unfold
  mat_entries
  all_goals try linear_combination h0 + (s0 * s0) * hre
/-- `CubicFermionicSimulationGate.fswap(0)` / `fswap(1)`: conjugating the generator by FSWAP on qubits (0,1) resp.
(1,2) gives the generator with the weights `(−w1, −w0, w̄2)` resp. `(w̄0, −w2, −w1)` — the update rules of the code. -/
theorem cubic_fswap_rules (w0 w1 w2 : GQ) :
    Mat.mul fswap01 (Mat.mul (cubicGenerator w0 w1 w2) (Mat.dagger fswap01))
      = cubicGenerator (-w1) (-w0) (GQ.conj w2) ∧
    Mat.mul fswap12 (Mat.mul (cubicGenerator w0 w1 w2) (Mat.dagger fswap12))
      = cubicGenerator (GQ.conj w0) (-w2) (-w1) := by
  rw [cubicGenerator_lit, cubicGenerator_lit, cubicGenerator_lit]
  unfold fswap01 fswap12
  refine ⟨?_, ?_⟩ <;> mat_unfold <;> mat_entries
/-- Eigen-structure of the cubic gate for general weights, without eigenvalues: the 3×3 block `M` that
`_eigen_components` hands to `numpy.linalg.eigh` is Hermitian and satisfies its characteristic equation
`M³ = (|w0|²+|w1|²+|w2|²)·M + 2Re(w0 w̄1 w2)·1`, so `exp(−itM)` is a polynomial of degree ≤ 2 in `M` with
coefficients determined by the three real roots of `λ³ − sλ − d` (the exponents of the eigen-components). -/
theorem cubic_block_characteristic (w0 w1 w2 : GQ) :
    Mat.dagger (cubicBlock w0 w1 w2) = cubicBlock w0 w1 w2 ∧
    Mat.mul (cubicBlock w0 w1 w2) (Mat.mul (cubicBlock w0 w1 w2) (cubicBlock w0 w1 w2)) =
      Mat.add (Mat.smul (GQ.ofRat (w0.normSq + w1.normSq + w2.normSq)) (cubicBlock w0 w1 w2))
        (Mat.smul (w0 * GQ.conj w1 * w2 + GQ.conj (w0 * GQ.conj w1 * w2)) [[1, 0, 0], [0, 1, 0], [0, 0, 1]]) := by
  unfold cubicBlock
  refine ⟨?_, ?_⟩ <;> mat_unfold <;> mat_entries
  all_goals (simp [GQ.normSq]; try ring)

/-- non-vacuity: the hypotheses are satisfiable by non-trivial rational angles -/
example : (3/5 : Rat) * (3/5) + (4/5) * (4/5) = 1 := by norm_num
example : (⟨3/5, 4/5⟩ : GQ) * GQ.conj ⟨3/5, 4/5⟩ = 1 := by decide +kernel

end OFV.C14
