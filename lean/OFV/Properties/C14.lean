/-
C14 — property theorems (circuit primitives and gates).
Helper lemmas: OFV/Proofs/C14Swap.lean, OFV/Proofs/C14Gates.lean.
-/
import OFV.Model.C14Swap
import OFV.Spec.C14
import OFV.Proofs.C14Swap

namespace OFV.C14
open OFV.Model.C14 OFV.Spec.C14

/-! ## swap network (all sizes, both offsets) -/

/-- After the `n` layers the `order` list is the reversal of `0 … n-1`. -/
theorem swap_network_order_reversed (n : Nat) (offset : Bool) :
    (swapNetwork n offset).1 = (List.range n).reverse := by
  rw [swapNetwork_closed]

/-- Every callback invocation receives two *adjacent* qubits `(a, a+1)` of the register and
two different modes of the register. -/
theorem swap_network_calls_adjacent (n : Nat) (offset : Bool) :
    ∀ e ∈ (swapNetwork n offset).2,
      e.2.2.2 = e.2.2.1 + 1 ∧ e.2.2.2 < n ∧ e.1 < n ∧ e.2.1 < n ∧ e.1 ≠ e.2.1 := by
  intro e he
  rw [swapNetwork_closed] at he
  obtain ⟨t, ht, m, hm, rfl⟩ := mem_logUpTo n offset.toNat n e he
  exact entry_ok n offset.toNat t m ht hm

/-- Every unordered pair of modes `{p, q}` is handed to the callback exactly once. -/
theorem swap_network_pair_once (n : Nat) (offset : Bool) (p q : Nat) (hpq : p < q) (hq : q < n) :
    ((swapNetwork n offset).2.filter (isPair p q)).length = 1 := by
  rw [swapNetwork_closed]
  exact pair_once n offset.toNat p q (by cases offset <;> simp) hpq hq

/-- The Model's network satisfies the executable contract `Spec.C14.swapOk` — the same
predicate the oracle evaluates on the callback log of the real `swap_network`. -/
theorem swap_network_spec (n : Nat) (offset : Bool) :
    swapOk n (swapNetwork n offset).1 (swapNetwork n offset).2 = true := by
  unfold swapOk
  simp only [Bool.and_eq_true, List.all_eq_true, beq_iff_eq, List.mem_range]
  refine ⟨⟨⟨swap_network_order_reversed n offset, ?_⟩, ?_⟩, ?_⟩
  · intro e he
    obtain ⟨h1, h2, _⟩ := swap_network_calls_adjacent n offset e he
    simp [adjacent, h1]; omega
  · intro e he
    obtain ⟨_, _, h3, h4, h5⟩ := swap_network_calls_adjacent n offset e he
    simp [validPair, h3, h4, h5]
  · intro q hq p hp
    exact swap_network_pair_once n offset p q hp hq

/-- non-vacuity: the contract is not trivially true (a log that misses a pair is rejected) and
the Model's log for `n = 4` is the documented one -/
example : swapOk 3 [2, 1, 0] [(0, 1, 0, 1), (0, 2, 1, 2)] = false := by decide
example : (swapNetwork 4 false).2 =
    [(0, 1, 0, 1), (2, 3, 2, 3), (0, 3, 1, 2), (1, 3, 0, 1), (0, 2, 2, 3), (1, 2, 1, 2)] := by decide
example : (swapNetwork 4 true).1 = [3, 2, 1, 0] := by decide

end OFV.C14
