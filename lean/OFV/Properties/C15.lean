/-
C15 — property theorems (Trotter simulation circuits): the combinatorial and arithmetic part of
`simulate_trotter` that is expressible without analysis.  `r k` stands for the irrational Suzuki
ratio `1/(4 - 4^(1/(2k-1)))`; every statement holds for all values of the ratios.

NOT proved here (see OPEN_STATEMENTS in harness/c15.py): the convergence order
`‖circuit − exp(−iHt)‖ = O(n_steps^{-p})`, `p = 1, 2, 4` (Suzuki's theorem: real analysis),
exactness for commuting pieces as a statement about matrix exponentials, and the controlled variants.
-/
import OFV.Model.C15
import OFV.Proofs.C15
import OFV.Proofs.C15Exp

namespace OFV.C15
open OFV.Model.C15 OFV.Model.C14 OFV.C14

/-- The leaf times of one (recursive) Trotter step add up to the step time. -/
theorem suzuki_times_sum (perm : List Nat → List Nat) (r : Nat → Rat) (order : Nat) (q : List Nat)
    (t : Rat) : ((performStep perm r order q t).map (·.time)).sum = t :=
  times_sum perm r order q t

/-- The sequence of leaf times is a palindrome (the formula is symmetric). -/
theorem suzuki_palindrome (perm : List Nat → List Nat) (r : Nat → Rat) (order : Nat) (q : List Nat)
    (t : Rat) :
    ((performStep perm r order q t).map (·.time)).reverse = (performStep perm r order q t).map (·.time) :=
  times_palindrome perm r order q t

/-- A step of order `k ≥ 1` consists of `5^(k-1)` leaf steps (order 0: one); the count is odd. -/
theorem suzuki_leaf_count (perm : List Nat → List Nat) (r : Nat → Rat) (k : Nat) (q : List Nat) (t : Rat) :
    (performStep perm r (k + 1) q t).length = 5 ^ k ∧ (performStep perm r 0 q t).length = 1 ∧
    (5 ^ k) % 2 = 1 := by
  refine ⟨by rw [performStep_length, leafCount_eq_pow], by rw [performStep_length]; rfl, ?_⟩
  rw [← leafCount_eq_pow]; exact leafCount_odd (k + 1)

/-- Suzuki's cancellation condition, algebraically: if `a^m = 4` with `m = 2k-1` odd and
`s = 1/(4 - a)`, the five-piece formula with times `s, s, 1-4s, s, s` satisfies
`4 s^m + (1 - 4s)^m = 0` — the identity that raises the order of the formula by two. -/
theorem suzuki_condition {R : Type} [CommRing R] (a s : R) (m : Nat) (hm : Odd m)
    (ha : a ^ m = 4) (hs : (4 - a) * s = 1) : 4 * s ^ m + (1 - 4 * s) ^ m = 0 := by
  have h1 : 1 - 4 * s = -(a * s) := by rw [← hs]; ring
  rw [h1, Odd.neg_pow hm, mul_pow, ha]; ring

/-- …and for the ratio the code actually uses, `split_time / time = 1 / (4 - 4^(1/(2k-1)))`
over the reals, for every order `k ≥ 2`. -/
theorem suzuki_condition_real (k : Nat) (hk : 2 ≤ k) :
    let m := 2 * k - 1
    let s : ℝ := 1 / (4 - (4 : ℝ) ^ ((1 : ℝ) / m))
    4 * s ^ m + (1 - 4 * s) ^ m = 0 := by
  intro m s
  have hm : Odd m := ⟨k - 1, by omega⟩
  have hmpos : (0 : ℝ) < (m : ℝ) := by
    have : 0 < m := by omega
    exact_mod_cast this
  have ha : ((4 : ℝ) ^ ((1 : ℝ) / m)) ^ m = 4 := by
    rw [← Real.rpow_natCast, ← Real.rpow_mul (by norm_num)]
    rw [one_div, inv_mul_cancel₀ (ne_of_gt hmpos), Real.rpow_one]
  have hlt : (4 : ℝ) ^ ((1 : ℝ) / m) < 4 := by
    have : (4 : ℝ) ^ ((1 : ℝ) / m) < (4 : ℝ) ^ (1 : ℝ) := by
      apply Real.rpow_lt_rpow_of_exponent_lt (by norm_num)
      rw [div_lt_one hmpos]
      have : 1 < m := by omega
      exact_mod_cast this
    simpa using this
  have hs : (4 - (4 : ℝ) ^ ((1 : ℝ) / m)) * s = 1 := by
    show (4 - (4 : ℝ) ^ ((1 : ℝ) / m)) * (1 / (4 - (4 : ℝ) ^ ((1 : ℝ) / m))) = 1
    rw [mul_one_div]; exact div_self (sub_ne_zero.mpr (ne_of_gt hlt))
  exact suzuki_condition _ s m hm ha hs

/-- Bookkeeping is right at every leaf: if `step_qubit_permutation` is an involution (identity or
reversal, the only ones in the library), the qubit list handed to the `i`-th leaf call of the
whole simulation is the order the qubits really are in after `i` leaf steps, although the
recursion applies the permutation to local variables only. -/
theorem leaf_qubits_track_permutation (perm : List Nat → List Nat) (h : ∀ q, perm (perm q) = q)
    (r : Nat → Rat) (order nSteps : Nat) (q : List Nat) (time : Rat) :
    Alternates perm q ((simulate perm r order nSteps q time).1.map (·.qubits)) :=
  (simulateLoop_spec perm h r order _ nSteps q).1

/-- The qubit order handed to `finish` (tracked with one permutation per *outer* step) is the true
final order (one permutation per *leaf* step): `n_steps · 5^k` has the parity of `n_steps`. -/
theorem final_permutation (perm : List Nat → List Nat) (h : ∀ q, perm (perm q) = q)
    (r : Nat → Rat) (order nSteps : Nat) (q : List Nat) (time : Rat) :
    (simulate perm r order nSteps q time).2 = perm^[(simulate perm r order nSteps q time).1.length] q ∧
    (simulate perm r order nSteps q time).1.length = nSteps * leafCount order ∧
    (nSteps * leafCount order) % 2 = nSteps % 2 := by
  obtain ⟨_, b, c⟩ := simulateLoop_spec perm h r order (time / nSteps) nSteps q
  have hodd := leafCount_odd order
  have hpar : (nSteps * leafCount order) % 2 = nSteps % 2 := by
    rw [Nat.mul_mod, hodd]; omega
  refine ⟨?_, b, hpar⟩
  unfold simulate
  rw [c, b, iterate_involutive perm h, iterate_involutive perm h, hpar]

/-- With the reversal as step permutation: `finish` swaps back exactly when `n_steps` is odd and
`omit_final_swaps` is false, so the final assignment of modes to qubits is the identity, or — only
with `omit_final_swaps` and an odd number of steps — the full reversal, as documented. -/
theorem final_order_documented (r : Nat → Rat) (order nSteps : Nat) (q : List Nat) (time : Rat)
    (omitSwaps : Bool) :
    let qf := (simulate reversal r order nSteps q time).2
    (if finishSwaps nSteps omitSwaps then reversal qf else qf) =
      if omitSwaps && nSteps % 2 == 1 then q.reverse else q := by
  have h : ∀ q, reversal (reversal q) = q := by intro q; simp [reversal]
  obtain ⟨_, _, c⟩ := simulateLoop_spec reversal h r order (time / nSteps) nSteps q
  simp only [simulate, c, iterate_involutive reversal h, finishSwaps]
  rcases Nat.mod_two_eq_zero_or_one nSteps with h2 | h2 <;> cases omitSwaps <;> simp [h2, reversal]

/-- One asymmetric linear-swap-network step is a product formula for the whole Hamiltonian: the
hopping generators of all unordered pairs occur with total coefficient `Σ_{p<q} Re T_pq` (each pair
exactly once, on adjacent qubits — C14), the density-density generators with `Σ_{p<q} 2 V_pq`, and
every number operator `n_i` once with coefficient `T_ii`, for every number of modes. -/
theorem lsn_asym_step_is_product_formula (n : Nat) (Tre Tim V : Nat → Nat → Rat)
    (hT : ∀ p q, Tre p q = Tre q p) (hV : ∀ p q, V p q = V q p) :
    (((lsnAsymStep n Tre Tim V).filter (·.1 == 0)).map (·.2.2.2.2)).sum
        = ((allPairs n).map fun k => Tre k.1 k.2).sum ∧
    (((lsnAsymStep n Tre Tim V).filter (·.1 == 2)).map (·.2.2.2.2)).sum
        = ((allPairs n).map fun k => 2 * V k.1 k.2).sum ∧
    ((lsnAsymStep n Tre Tim V).filter (·.1 == 3)).map (fun e => (e.2.1, e.2.2.2.2))
        = (List.range n).map fun i => (i, Tre i i) := by
  have key0 : ∀ (l : List SwapCall),
      ((l.flatMap fun e => [((0 : Nat), e.1, e.2.1, e.2.2.1, Tre e.1 e.2.1), (1, e.1, e.2.1, e.2.2.1, Tim e.1 e.2.1),
        (2, e.1, e.2.1, e.2.2.1, 2 * V e.1 e.2.1)]).filter (·.1 == 0)).map (·.2.2.2.2)
        = l.map fun e => Tre e.1 e.2.1 := by
    intro l; induction l with
    | nil => rfl
    | cons e l ih => simp only [List.flatMap_cons, List.filter_append, List.map_append, ih]; simp
  have key2 : ∀ (l : List SwapCall),
      ((l.flatMap fun e => [((0 : Nat), e.1, e.2.1, e.2.2.1, Tre e.1 e.2.1), (1, e.1, e.2.1, e.2.2.1, Tim e.1 e.2.1),
        (2, e.1, e.2.1, e.2.2.1, 2 * V e.1 e.2.1)]).filter (·.1 == 2)).map (·.2.2.2.2)
        = l.map fun e => 2 * V e.1 e.2.1 := by
    intro l; induction l with
    | nil => rfl
    | cons e l ih => simp only [List.flatMap_cons, List.filter_append, List.map_append, ih]; simp
  have key3 : ∀ (l : List SwapCall) (c : Nat), c = 3 →
      ((l.flatMap fun e => [((0 : Nat), e.1, e.2.1, e.2.2.1, Tre e.1 e.2.1), (1, e.1, e.2.1, e.2.2.1, Tim e.1 e.2.1),
        (2, e.1, e.2.1, e.2.2.1, 2 * V e.1 e.2.1)]).filter (·.1 == c)) = [] := by
    intro l c hc; subst hc; induction l with
    | nil => rfl
    | cons e l ih => simp only [List.flatMap_cons, List.filter_append, ih]; simp
  have num : ∀ (c : Nat), c ≠ 3 →
      (((List.range n).map fun i => ((3 : Nat), i, i, n - 1 - i, Tre i i)).filter (·.1 == c)) = [] := by
    intro c hc
    rw [List.filter_eq_nil_iff]
    intro e he
    obtain ⟨i, _, rfl⟩ := List.mem_map.mp he
    simp; omega
  refine ⟨?_, ?_, ?_⟩
  · unfold lsnAsymStep
    rw [List.filter_append, num 0 (by omega), List.append_nil, key0]
    exact sum_over_log n false Tre hT
  · unfold lsnAsymStep
    rw [List.filter_append, num 2 (by omega), List.append_nil, key2]
    exact sum_over_log n false (fun p q => 2 * V p q) (by intro p q; simp [hV p q])
  · unfold lsnAsymStep
    rw [List.filter_append, key3 _ 3 rfl, List.nil_append]
    rw [List.filter_eq_self.mpr (by intro e he; obtain ⟨i, _, rfl⟩ := List.mem_map.mp he; rfl)]
    simp [List.map_map, Function.comp]

/-- The imaginary (oriented) hopping part of the asymmetric linear-swap-network step: whenever two modes meet
the smaller mode sits on the left qubit (`p < q` at every callback — modes cross exactly once), so the `Ryxxy`
generator `i(a†_p a_q − a†_q a_p)` always appears in the orientation `p < q`, and its coefficients add up to
`Σ_{p<q} Im T_pq`: together with `lsn_asym_step_is_product_formula` every term of the hopping matrix occurs
exactly once. -/
theorem lsn_imaginary_part (n : Nat) (Tre Tim V : Nat → Nat → Rat) :
    ((lsnAsymStep n Tre Tim V).map (coeffOfKind 1)).sum = ((allPairs n).map fun k => Tim k.1 k.2).sum ∧
    (∀ e ∈ lsnAsymStep n Tre Tim V, e.1 = 1 → e.2.1 < e.2.2.1) := by
  constructor
  · have hg : ∀ p q : Nat, (fun p q : Nat => if p < q then Tim p q else Tim q p) p q
        = (fun p q : Nat => if p < q then Tim p q else Tim q p) q p := by
      intro p q
      simp only
      by_cases h1 : p < q
      · have : ¬ q < p := by omega
        simp [h1, this]
      · by_cases h2 : q < p
        · simp [h1, h2]
        · have : p = q := by omega
          subst this; simp
    have := sum_over_log n false (fun p q : Nat => if p < q then Tim p q else Tim q p) hg
    have hR : ((allPairs n).map fun k => (fun p q : Nat => if p < q then Tim p q else Tim q p) k.1 k.2)
        = (allPairs n).map fun k => Tim k.1 k.2 := by
      apply List.map_congr_left
      intro k hk
      rw [mem_allPairs] at hk
      simp [hk.1]
    rw [hR] at this
    rw [← this]
    unfold lsnAsymStep
    simp only [List.map_append, List.sum_append, sum_flatMap, List.map_map]
    have z : (((List.range n).map ((coeffOfKind 1) ∘ fun i => ((3 : Nat), i, i, n - 1 - i, Tre i i))).sum) = 0 := by
      apply List.sum_eq_zero; intro x hx; obtain ⟨i, _, rfl⟩ := List.mem_map.mp hx; simp [coeffOfKind]
    rw [z, add_zero]
    apply congrArg
    apply List.map_congr_left
    intro e he
    have := swapNetwork_call_ascending n false e he
    simp [coeffOfKind, this]
  · intro e he h1
    unfold lsnAsymStep at he
    simp only [List.mem_append, List.mem_flatMap, List.mem_map, List.mem_range] at he
    rcases he with ⟨c, hc, hce⟩ | ⟨i, _, rfl⟩
    · have := swapNetwork_call_ascending n false c hc
      simp only [List.mem_cons, List.not_mem_nil, or_false] at hce
      rcases hce with rfl | rfl | rfl <;> simp_all
    · simp at h1
/-- One *symmetric* linear-swap-network step: every hopping / density-density generator occurs
twice with half the coefficient (once in each of the two networks, offsets `False` / `True`), every
number operator once with the full coefficient — for every number of modes. -/
theorem lsn_sym_step_is_product_formula (n : Nat) (Tre Tim V : Nat → Nat → Rat)
    (hT : ∀ p q, Tre p q = Tre q p) (hV : ∀ p q, V p q = V q p) :
    ((lsnSymStep n Tre Tim V).map (coeffOfKind 0)).sum
        = ((allPairs n).map fun k => Tre k.1 k.2 / 2).sum + ((allPairs n).map fun k => Tre k.1 k.2 / 2).sum ∧
    ((lsnSymStep n Tre Tim V).map (coeffOfKind 2)).sum
        = ((allPairs n).map fun k => V k.1 k.2).sum + ((allPairs n).map fun k => V k.1 k.2).sum ∧
    ((lsnSymStep n Tre Tim V).map (coeffOfKind 3)).sum = ((List.range n).map fun i => Tre i i).sum := by
  have hT2 : ∀ p q, Tre p q / 2 = Tre q p / 2 := by intro p q; rw [hT]
  unfold lsnSymStep
  simp only [List.map_append, List.sum_append, sum_flatMap, List.map_map]
  refine ⟨?_, ?_, ?_⟩
  · have z : (((List.range n).map ((coeffOfKind 0) ∘ fun i => ((3 : Nat), i, i, n - 1 - i, Tre i i))).sum) = 0 := by
      apply List.sum_eq_zero; intro x hx; obtain ⟨i, _, rfl⟩ := List.mem_map.mp hx; simp [coeffOfKind]
    rw [z, add_zero]
    refine congrArg₂ (· + ·) ?_ ?_
    · rw [← sum_over_log n false _ hT2]
      apply congrArg; apply List.map_congr_left; intro e _; simp [coeffOfKind]
    · rw [← sum_over_log n true _ hT2]
      apply congrArg; apply List.map_congr_left; intro e _; simp [coeffOfKind]
  · have z : (((List.range n).map ((coeffOfKind 2) ∘ fun i => ((3 : Nat), i, i, n - 1 - i, Tre i i))).sum) = 0 := by
      apply List.sum_eq_zero; intro x hx; obtain ⟨i, _, rfl⟩ := List.mem_map.mp hx; simp [coeffOfKind]
    rw [z, add_zero]
    refine congrArg₂ (· + ·) ?_ ?_
    · rw [← sum_over_log n false _ hV]
      apply congrArg; apply List.map_congr_left; intro e _; simp [coeffOfKind]
    · rw [← sum_over_log n true _ hV]
      apply congrArg; apply List.map_congr_left; intro e _; simp [coeffOfKind]
  · have z1 : ∀ off, (((swapNetwork n off).2.map fun e =>
        ([((0 : Nat), e.1, e.2.1, e.2.2.1, Tre e.1 e.2.1 / 2), (1, e.1, e.2.1, e.2.2.1, Tim e.1 e.2.1 / 2),
          (2, e.1, e.2.1, e.2.2.1, V e.1 e.2.1)].map (coeffOfKind 3)).sum).sum) = 0 := by
      intro off; apply List.sum_eq_zero; intro x hx; obtain ⟨e, _, rfl⟩ := List.mem_map.mp hx; simp [coeffOfKind]
    have z2 : (((swapNetwork n true).2.map fun e =>
        ([((2 : Nat), e.1, e.2.1, n - 1 - e.2.2.1, V e.1 e.2.1), (1, e.1, e.2.1, n - 1 - e.2.2.1, Tim e.1 e.2.1 / 2),
          (0, e.1, e.2.1, n - 1 - e.2.2.1, Tre e.1 e.2.1 / 2)].map (coeffOfKind 3)).sum).sum) = 0 := by
      apply List.sum_eq_zero; intro x hx; obtain ⟨e, _, rfl⟩ := List.mem_map.mp hx; simp [coeffOfKind]
    rw [z1 false, z2, zero_add, add_zero]
    apply congrArg; apply List.map_congr_left; intro i _; simp [coeffOfKind]
/-- The imaginary (oriented) hopping part of the SYMMETRIC linear-swap-network step: in both networks
(`offset=False` and `offset=True`) the smaller mode sits on the left qubit at every callback, and the `Ryxxy`
coefficients add up to `Σ_{p<q} Im T_pq / 2` per network — every hopping term twice at half time. -/
theorem lsn_sym_imaginary_part (n : Nat) (Tre Tim V : Nat → Nat → Rat) :
    ((lsnSymStep n Tre Tim V).map (coeffOfKind 1)).sum
      = ((allPairs n).map fun k => Tim k.1 k.2 / 2).sum + ((allPairs n).map fun k => Tim k.1 k.2 / 2).sum ∧
    (∀ e ∈ lsnSymStep n Tre Tim V, e.1 = 1 → e.2.1 < e.2.2.1) := by
  constructor
  · have hg : ∀ p q : Nat, (fun p q : Nat => if p < q then Tim p q / 2 else Tim q p / 2) p q
        = (fun p q : Nat => if p < q then Tim p q / 2 else Tim q p / 2) q p := by
      intro p q
      simp only
      by_cases h1 : p < q
      · have : ¬ q < p := by omega
        simp [h1, this]
      · by_cases h2 : q < p
        · simp [h1, h2]
        · have : p = q := by omega
          subst this; simp
    have hR : ((allPairs n).map fun k => (fun p q : Nat => if p < q then Tim p q / 2 else Tim q p / 2) k.1 k.2)
        = (allPairs n).map fun k => Tim k.1 k.2 / 2 := by
      apply List.map_congr_left
      intro k hk
      rw [mem_allPairs] at hk
      simp [hk.1]
    have s0 := sum_over_log n false _ hg
    have s1 := sum_over_log n true _ hg
    rw [hR] at s0 s1
    unfold lsnSymStep
    simp only [List.map_append, List.sum_append, sum_flatMap, List.map_map]
    have z : (((List.range n).map ((coeffOfKind 1) ∘ fun i => ((3 : Nat), i, i, n - 1 - i, Tre i i))).sum) = 0 := by
      apply List.sum_eq_zero; intro x hx; obtain ⟨i, _, rfl⟩ := List.mem_map.mp hx; simp [coeffOfKind]
    rw [z, add_zero]
    refine congrArg₂ (· + ·) ?_ ?_
    · rw [← s0]; apply congrArg; apply List.map_congr_left; intro e he
      have := swapNetwork_call_ascending n false e he
      simp [coeffOfKind, this]
    · rw [← s1]; apply congrArg; apply List.map_congr_left; intro e he
      have := swapNetwork_call_ascending n true e he
      simp [coeffOfKind, this]
  · intro e he h1
    unfold lsnSymStep at he
    simp only [List.mem_append, List.mem_flatMap, List.mem_map, List.mem_range] at he
    rcases he with (⟨c, hc, hce⟩ | ⟨i, _, rfl⟩) | ⟨c, hc, hce⟩
    · have := swapNetwork_call_ascending n false c hc
      simp only [List.mem_cons, List.not_mem_nil, or_false] at hce
      rcases hce with rfl | rfl | rfl <;> simp_all
    · simp at h1
    · have := swapNetwork_call_ascending n true c hc
      simp only [List.mem_cons, List.not_mem_nil, or_false] at hce
      rcases hce with rfl | rfl | rfl <;> simp_all

/-- final order for a step whose permutation is the reversal only when `rev` (LOW_RANK: `rev` = odd number of
retained components): `finish` swaps back iff `n_steps` odd ∧ `rev` ∧ not omitted -/
theorem final_order_low_rank (r : Nat → Rat) (order nSteps : Nat) (q : List Nat) (time : Rat)
    (omitSwaps rev : Bool) :
    let perm : List Nat → List Nat := if rev then reversal else id
    let qf := (simulate perm r order nSteps q time).2
    (if finishSwaps nSteps omitSwaps && rev then reversal qf else qf) =
      if omitSwaps && rev && nSteps % 2 == 1 then q.reverse else q := by
  cases rev
  · have h : ∀ q : List Nat, id (id q) = q := fun _ => rfl
    obtain ⟨_, _, c⟩ := simulateLoop_spec id h r order (time / nSteps) nSteps q
    simp only [simulate, Bool.false_eq_true, if_false, c, iterate_involutive id h, finishSwaps]
    rcases Nat.mod_two_eq_zero_or_one nSteps with h2 | h2 <;> cases omitSwaps <;> simp [h2]
  · have h : ∀ q, reversal (reversal q) = q := by intro q; simp [reversal]
    obtain ⟨_, _, c⟩ := simulateLoop_spec reversal h r order (time / nSteps) nSteps q
    simp only [simulate, if_true, c, iterate_involutive reversal h, finishSwaps]
    rcases Nat.mod_two_eq_zero_or_one nSteps with h2 | h2 <;> cases omitSwaps <;> simp [h2, reversal]
/-- The symmetric linear-swap-network step is a PALINDROME: its third part (the network with
`offset=True` on the reversed qubits, gates in the order rot11, Ryxxy, Rxxyy) is exactly the first part
read backwards — the same generator with the same coefficient for the same pair of modes on the same two
physical qubits (`bump`: the left mode `p` now sits one qubit further right, the pair of qubits is the
same) — for every number of modes, even and odd.  With `lsn_sym_step_is_product_formula` this is
"each term twice at half time, mirrored". -/
theorem lsn_sym_step_mirrored (n : Nat) (Tre Tim V : Nat → Nat → Rat) :
    let first := (swapNetwork n false).2.flatMap fun e =>
      [((0 : Nat), e.1, e.2.1, e.2.2.1, Tre e.1 e.2.1 / 2), (1, e.1, e.2.1, e.2.2.1, Tim e.1 e.2.1 / 2),
       (2, e.1, e.2.1, e.2.2.1, V e.1 e.2.1)]
    lsnSymStep n Tre Tim V =
      first ++ ((List.range n).map fun i => (3, i, i, n - 1 - i, Tre i i)) ++ (first.reverse.map bump) := by
  intro first
  unfold lsnSymStep
  congr 1
  rw [swapNetwork_mirror, List.flatMap_map]
  show _ = (List.flatMap _ _).reverse.map bump
  rw [List.reverse_flatMap, List.map_flatMap]
  apply List.flatMap_congr
  intro e he
  have he' : e ∈ (swapNetwork n false).2 := List.mem_reverse.mp he
  obtain ⟨h1, h2⟩ := swapNetwork_call_adjacent n false e he'
  have hpos : n - 1 - (n - 2 - e.2.2.1) = e.2.2.1 + 1 := by omega
  simp [mirror, bump, hpos]
/-- `controlled_structure`: the controlled linear-swap-network emitters are the uncontrolled generator
lists (every generator understood with the control projector `|1⟩⟨1|_c`, as every gate is replaced by its
controlled version) followed by exactly one phase generator `constant·|1⟩⟨1|_c` — so the circuit is the
identity on control 0 and the same product formula times `e^{-i·constant·t}` on control 1.  (That every
real gate of the controlled step classes IS the controlled version on the control qubit is checked
operation by operation by the harness.) -/
theorem controlled_structure (n : Nat) (Tre Tim V : Nat → Nat → Rat) (const : Rat) :
    (lsnAsymStepControlled n Tre Tim V const).filter (fun e => e.1 != 4) = lsnAsymStep n Tre Tim V ∧
    (lsnAsymStepControlled n Tre Tim V const).filter (fun e => e.1 == 4) = [(4, 0, 0, 0, const)] ∧
    (lsnSymStepControlled n Tre Tim V const).filter (fun e => e.1 != 4) = lsnSymStep n Tre Tim V ∧
    (lsnSymStepControlled n Tre Tim V const).filter (fun e => e.1 == 4) = [(4, 0, 0, 0, const)] := by
  have hA : ∀ e ∈ lsnAsymStep n Tre Tim V, e.1 ≠ 4 := by
    intro e he
    unfold lsnAsymStep at he
    simp only [List.mem_append, List.mem_flatMap, List.mem_map, List.mem_range] at he
    rcases he with ⟨c, _, hc⟩ | ⟨i, _, rfl⟩
    · simp only [List.mem_cons, List.not_mem_nil, or_false] at hc
      rcases hc with rfl | rfl | rfl <;> simp
    · simp
  have hS : ∀ e ∈ lsnSymStep n Tre Tim V, e.1 ≠ 4 := by
    intro e he
    unfold lsnSymStep at he
    simp only [List.mem_append, List.mem_flatMap, List.mem_map, List.mem_range] at he
    rcases he with (⟨c, _, hc⟩ | ⟨i, _, rfl⟩) | ⟨c, _, hc⟩
    · simp only [List.mem_cons, List.not_mem_nil, or_false] at hc
      rcases hc with rfl | rfl | rfl <;> simp
    · simp
    · simp only [List.mem_cons, List.not_mem_nil, or_false] at hc
      rcases hc with rfl | rfl | rfl <;> simp
  unfold lsnAsymStepControlled lsnSymStepControlled
  simp only [List.filter_append]
  refine ⟨?_, ?_, ?_, ?_⟩
  · rw [List.filter_eq_self.mpr (by intro e he; simpa using hA e he)]; simp
  · rw [List.filter_eq_nil_iff.mpr (by intro e he; simpa using hA e he)]; simp
  · rw [List.filter_eq_self.mpr (by intro e he; simpa using hS e he)]; simp
  · rw [List.filter_eq_nil_iff.mpr (by intro e he; simpa using hS e he)]; simp

/-- SPLIT_OPERATOR steps as product formulas: every density–density term once with the full coefficient
`2V_pq` (C14 swap network), every orbital number operator once (asymmetric) or twice with half the energy,
before and after the interaction part (symmetric). -/
theorem so_steps_are_product_formulas (n : Nat) (V : Nat → Nat → Rat) (E : Nat → Rat)
    (hV : ∀ p q, V p q = V q p) :
    ((soAsymStep n V E).map (coeffOfKind 2)).sum = ((allPairs n).map fun k => 2 * V k.1 k.2).sum ∧
    ((soAsymStep n V E).map (coeffOfKind 5)).sum = ((List.range n).map E).sum ∧
    ((soSymStep n V E).map (coeffOfKind 2)).sum = ((allPairs n).map fun k => 2 * V k.1 k.2).sum ∧
    ((soSymStep n V E).map (coeffOfKind 5)).sum
      = ((List.range n).map fun i => E i / 2).sum + ((List.range n).map fun i => E i / 2).sum := by
  have hV2 : ∀ p q, 2 * V p q = 2 * V q p := by intro p q; rw [hV]
  have net : ∀ c, (((swapNetwork n false).2.map fun e => ((2 : Nat), e.1, e.2.1, e.2.2.1, 2 * V e.1 e.2.1)).map
      (coeffOfKind c)).sum = if c = 2 then ((allPairs n).map fun k => 2 * V k.1 k.2).sum else 0 := by
    intro c
    rw [List.map_map]
    by_cases hc : c = 2
    · subst hc
      rw [if_pos rfl, ← sum_over_log n false _ hV2]
      apply congrArg; apply List.map_congr_left; intro e _; simp [coeffOfKind]
    · rw [if_neg hc]
      apply List.sum_eq_zero; intro x hx; obtain ⟨e, _, rfl⟩ := List.mem_map.mp hx
      simp [coeffOfKind]; omega
  have orb : ∀ (c : Nat) (pos : Nat → Nat) (f : Nat → Rat),
      (((List.range n).map fun i => ((5 : Nat), i, i, pos i, f i)).map (coeffOfKind c)).sum
        = if c = 5 then ((List.range n).map f).sum else 0 := by
    intro c pos f
    rw [List.map_map]
    by_cases hc : c = 5
    · subst hc
      rw [if_pos rfl]; apply congrArg; apply List.map_congr_left; intro i _; simp [coeffOfKind]
    · rw [if_neg hc]
      apply List.sum_eq_zero; intro x hx; obtain ⟨e, _, rfl⟩ := List.mem_map.mp hx
      simp [coeffOfKind]; omega
  unfold soAsymStep soSymStep
  simp only [List.map_append, List.sum_append, net, orb]
  refine ⟨?_, ?_, ?_, ?_⟩ <;> simp [coeffOfKind]

/-- LOW_RANK step as a product formula: for every singular component its density–density terms once
(`2 c_j[p,q]` per pair, `c_j[p,p]` per mode), the one-body orbital energies once. -/
theorem lr_step_is_product_formula (n : Nat) (E : Nat → Rat) (cs : List (Nat → Nat → Rat))
    (h : ∀ c ∈ cs, ∀ p q, c p q = c q p) :
    ((lrStep n E cs).map (coeffOfKind 2)).sum
      = (cs.map fun c => ((allPairs n).map fun k => 2 * c k.1 k.2).sum).sum ∧
    ((lrStep n E cs).map (coeffOfKind 3)).sum
      = (cs.map fun c => ((List.range n).map fun p => c p p).sum).sum ∧
    ((lrStep n E cs).map (coeffOfKind 5)).sum = ((List.range n).map E).sum := by
  obtain ⟨i2, i3, i5⟩ := lrComponents_sums n cs 0 h
  have orb : ∀ k, (((List.range n).map fun p => ((5 : Nat), p, p, p, E p)).map (coeffOfKind k)).sum
      = if k = 5 then ((List.range n).map E).sum else 0 := by
    intro k
    rw [List.map_map]
    by_cases hk : k = 5
    · subst hk
      rw [if_pos rfl]; apply congrArg; apply List.map_congr_left; intro i _; simp [coeffOfKind]
    · rw [if_neg hk]
      apply List.sum_eq_zero; intro x hx; obtain ⟨e, _, rfl⟩ := List.mem_map.mp hx
      simp [coeffOfKind]; omega
  unfold lrStep
  simp only [List.map_append, List.sum_append, orb, i2, i3, i5]
  refine ⟨?_, ?_, ?_⟩ <;> simp [coeffOfKind]
/-- The symmetric split-operator step is a reverse-palindrome: half-time orbital phases, basis change, the
density–density network (generators of kind 2 only: all diagonal in the computational basis, hence mutually
commuting), inverse basis change on the reversed qubits, the same half-time orbital phases on the mirrored
qubit positions `n−1−i`.  (LOW_RANK has no symmetric step; LINEAR_SWAP_NETWORK: `lsn_sym_step_mirrored`.) -/
theorem so_sym_step_mirrored (n : Nat) (V : Nat → Nat → Rat) (E : Nat → Rat) :
    let half : List GenEntry := (List.range n).map fun i => (5, i, i, i, E i / 2)
    let net : List GenEntry := (swapNetwork n false).2.map fun e => (2, e.1, e.2.1, e.2.2.1, 2 * V e.1 e.2.1)
    soSymStep n V E = half ++ [(6, 0, 0, 0, 0)] ++ net ++ [(7, 0, 0, 0, 0)]
        ++ half.map (fun e => (e.1, e.2.1, e.2.2.1, n - 1 - e.2.2.2.1, e.2.2.2.2)) ∧
    (∀ e ∈ net, e.1 = 2) := by
  intro half net
  refine ⟨by simp [soSymStep, half, net, List.map_map, Function.comp], ?_⟩
  intro e he
  obtain ⟨c, _, rfl⟩ := List.mem_map.mp he
  rfl

/-- Closed form of the leaf-time multiset of a step of any order: ALL power sums.  For every `p`,
`Σ_leaves τ^p = t^p · ∏_{j=2}^{order} (4 r_j^p + (1 − 4 r_j)^p)`; `p = 0` is the leaf count `5^(order−1)`,
`p = 1` the total time `t`, and the power sums for all `p` determine the multiset of leaf times (each leaf is
`t · ∏_j (r_j or 1 − 4 r_j)`, a level contributing `1 − 4 r_j` once and `r_j` four times). -/
theorem suzuki_power_sums (perm : List Nat → List Nat) (r : Nat → Rat) (p k : Nat) (q : List Nat) (t : Rat) :
    (((performStep perm r k q t).map (·.time)).map (· ^ p)).sum = t ^ p * suzukiFactor r p k := by
  rw [times_eq_leafTimesK, leafTimesK_power_sums]

/-- …and with the ratio the code uses (over the reals) the `(2k−1)`-th power sum of the leaf times of an order-`k`
step vanishes: `Σ_leaves τ^(2k−1) = 0` — the condition under which Suzuki's recursion raises the order by two
(`leafTimesK` is the same recursion as the Model's `performStep`, see `times_eq_leafTimesK`, over any ring). -/
theorem suzuki_top_power_sum_vanishes (k : Nat) (hk : 2 ≤ k) (r : Nat → ℝ)
    (hr : r k = 1 / (4 - (4 : ℝ) ^ ((1 : ℝ) / ((2 * k - 1 : Nat) : ℝ)))) (t : ℝ) :
    ((leafTimesK r k t).map (· ^ (2 * k - 1))).sum = 0 := by
  obtain ⟨k', rfl⟩ : ∃ k', k = k' + 2 := ⟨k - 2, by omega⟩
  rw [leafTimesK_power_sums, suzukiFactor]
  have := suzuki_condition_real (k' + 2) hk
  simp only at this
  rw [hr, this]
  ring

/-- Phase of the constant term in the controlled variants: every leaf step contributes the control-phase generator
`constant·|1⟩⟨1|_c` for its leaf time (`controlled_structure`), and over the whole simulation — every order, step
count and value of the ratios — these phases multiply to exactly `exp(−i·t·constant)`. -/
theorem controlled_phase (perm : List Nat → List Nat) (r : Nat → Rat) (order nSteps : Nat) (hn : nSteps ≠ 0)
    (q : List Nat) (time : Rat) (c : ℂ) :
    ((simulate perm r order nSteps q time).1.map fun l => Complex.exp (-Complex.I * (l.time : ℂ) * c)).prod
      = Complex.exp (-Complex.I * (time : ℂ) * c) := by
  have gen : ∀ L : List Leaf, (L.map fun l : Leaf => Complex.exp (-Complex.I * (l.time : ℂ) * c)).prod
      = Complex.exp (-Complex.I * (((L.map (·.time)).sum : Rat) : ℂ) * c) := by
    intro L
    induction L with
    | nil => simp
    | cons a l ih =>
      simp only [List.map_cons, List.prod_cons, List.sum_cons, ih, ← Complex.exp_add]
      congr 1; push_cast; ring
  rw [gen, simulate_times_sum perm r order nSteps hn q time]

/-- Basis-change bookkeeping of the low-rank step: the single-particle matrices of the basis changes it emits,
`W⁻¹` (= `W†`, `bogoliubov_transform(one_body_basis_change_matrix.T.conj())`), then `prior·B_j⁻¹` for every
singular component, then the last `B_J`, multiply to the identity (in any group; the matrices are unitary) —
the step ends in the computational basis again, whatever the number of components. -/
theorem lr_basis_changes_telescope {G : Type} [Group G] (W : G) (Bs : List G) :
    (W⁻¹ :: lrBasisSeq W Bs).prod = 1 := by
  rw [List.prod_cons, lrBasisSeq_prod, inv_mul_cancel]

/-- Commuting case of the linear swap network steps: for a diagonal hopping matrix (`T_pq = 0` for `p ≠ q`) every
generator emitted with a non-zero coefficient is a density–density term `n_p n_q` (kind 2) or a number operator
(kind 3) — all diagonal in the occupation basis, hence pairwise commuting: the hypothesis of
`exact_when_commuting` holds for these Hamiltonians, for every number of modes. -/
theorem lsn_commuting_case (n : Nat) (Tre Tim V : Nat → Nat → Rat)
    (hT : ∀ p q, p ≠ q → Tre p q = 0) (hI : ∀ p q, p ≠ q → Tim p q = 0) :
    (∀ e ∈ lsnAsymStep n Tre Tim V, e.2.2.2.2 ≠ 0 → e.1 = 2 ∨ e.1 = 3) ∧
    (∀ e ∈ lsnSymStep n Tre Tim V, e.2.2.2.2 ≠ 0 → e.1 = 2 ∨ e.1 = 3) := by
  constructor
  · intro e he hne
    unfold lsnAsymStep at he
    simp only [List.mem_append, List.mem_flatMap, List.mem_map, List.mem_range] at he
    rcases he with ⟨c, hc, hce⟩ | ⟨i, _, rfl⟩
    · have hlt := swapNetwork_call_ascending n false c hc
      have hpq : c.1 ≠ c.2.1 := by omega
      simp only [List.mem_cons, List.not_mem_nil, or_false] at hce
      rcases hce with rfl | rfl | rfl
      · exact absurd (hT _ _ hpq) hne
      · exact absurd (hI _ _ hpq) hne
      · left; rfl
    · right; rfl
  · intro e he hne
    unfold lsnSymStep at he
    simp only [List.mem_append, List.mem_flatMap, List.mem_map, List.mem_range] at he
    rcases he with (⟨c, hc, hce⟩ | ⟨i, _, rfl⟩) | ⟨c, hc, hce⟩
    · have hlt := swapNetwork_call_ascending n false c hc
      have hpq : c.1 ≠ c.2.1 := by omega
      simp only [List.mem_cons, List.not_mem_nil, or_false] at hce
      rcases hce with rfl | rfl | rfl
      · exact absurd (by simp [hT _ _ hpq]) hne
      · exact absurd (by simp [hI _ _ hpq]) hne
      · left; rfl
    · right; rfl
    · have hlt := swapNetwork_call_ascending n true c hc
      have hpq : c.1 ≠ c.2.1 := by omega
      simp only [List.mem_cons, List.not_mem_nil, or_false] at hce
      rcases hce with rfl | rfl | rfl
      · left; rfl
      · exact absurd (by simp [hI _ _ hpq]) hne
      · exact absurd (by simp [hT _ _ hpq]) hne
/-- Closed form of EVERY leaf time: the `i`-th `trotter_step` call of a step of any order gets the time `leafTime`,
read off the base-5 digits of `i` (digit 2 = the middle sub-step with factor `1 − 4 r_j`, any other digit a side
sub-step with factor `r_j`; most significant digit = outermost recursion level). -/
theorem leaf_time_closed_form (perm : List Nat → List Nat) (r : Nat → Rat) :
    ∀ k q t i, i < leafCount k → ((performStep perm r k q t).map (·.time))[i]? = some (leafTime r k t i)
  | 0, q, t, i, hi => by
    have : i = 0 := by simp [leafCount] at hi; omega
    subst this; simp [performStep, leafTime]
  | 1, q, t, i, hi => by
    have : i = 0 := by simp [leafCount] at hi; omega
    subst this; simp [performStep, leafTime]
  | k + 2, q, t, i, hi => by
    have ih := leaf_time_closed_form perm r (k + 1)
    have hL := leafCount_pos (k + 1)
    have len : ∀ q' t', ((performStep perm r (k + 1) q' t').map (·.time)).length = leafCount (k + 1) := by
      intro q' t'; rw [List.length_map, performStep_length]
    simp only [leafCount] at hi
    simp only [performStep, List.map_append, leafTime]
    generalize hLd : leafCount (k + 1) = L at *
    by_cases c0 : i < L
    · obtain ⟨d, m⟩ := block_index L 0 i (by omega) (by omega)
      rw [d, m, if_neg (by omega)]
      rw [List.getElem?_append_left (by simp [len]; omega), List.getElem?_append_left (by simp [len]; omega),
        List.getElem?_append_left (by simp [len]; omega), List.getElem?_append_left (by rw [len]; omega)]
      simpa using ih q _ i (by omega)
    · by_cases c1 : i < 2 * L
      · obtain ⟨d, m⟩ := block_index L 1 i (by omega) (by omega)
        rw [d, m, if_neg (by omega)]
        rw [List.getElem?_append_left (by simp [len]; omega), List.getElem?_append_left (by simp [len]; omega),
          List.getElem?_append_left (by simp [len]; omega), List.getElem?_append_right (by rw [len]; omega), len]
        simpa using ih _ _ (i - L) (by omega)
      · by_cases c2 : i < 3 * L
        · obtain ⟨d, m⟩ := block_index L 2 i (by omega) (by omega)
          rw [d, m, if_pos rfl]
          rw [List.getElem?_append_left (by simp [len]; omega), List.getElem?_append_left (by simp [len]; omega),
            List.getElem?_append_right (by simp [len]; omega)]
          simp only [List.length_append, len]
          rw [show i - (L + L) = i - 2 * L by omega]
          exact ih (perm (perm q)) (t - 4 * (t * r (k + 2))) (i - 2 * L) (by omega)
        · by_cases c3 : i < 4 * L
          · obtain ⟨d, m⟩ := block_index L 3 i (by omega) (by omega)
            rw [d, m, if_neg (by omega)]
            rw [List.getElem?_append_left (by simp [len]; omega), List.getElem?_append_right (by simp [len]; omega)]
            simp only [List.length_append, len]
            rw [show i - (L + L + L) = i - 3 * L by omega]
            exact ih (perm (perm (perm q))) (t * r (k + 2)) (i - 3 * L) (by omega)
          · obtain ⟨d, m⟩ := block_index L 4 i (by omega) (by omega)
            rw [d, m, if_neg (by omega)]
            rw [List.getElem?_append_right (by simp [len]; omega)]
            simp only [List.length_append, len]
            rw [show i - (L + L + L + L) = i - 4 * L by omega]
            exact ih (perm (perm (perm (perm q)))) (t * r (k + 2)) (i - 4 * L) (by omega)
/-- Closed form of the qubit list of EVERY leaf call of the whole simulation: for an involutive
`step_qubit_permutation` the `i`-th `trotter_step` call receives `qubits` for even `i` and the permuted list for odd
`i` — together with `leaf_time_closed_form` the complete trace of `simulate_trotter` in closed form. -/
theorem leaf_qubits_closed_form (perm : List Nat → List Nat) (h : ∀ q, perm (perm q) = q)
    (r : Nat → Rat) (order nSteps : Nat) (q : List Nat) (time : Rat) (i : Nat)
    (hi : i < nSteps * leafCount order) :
    ((simulate perm r order nSteps q time).1.map (·.qubits))[i]? = some (if i % 2 = 0 then q else perm q) := by
  obtain ⟨a, b, _⟩ := simulateLoop_spec perm h r order (time / nSteps) nSteps q
  have := alternates_getElem perm _ q i a (by rw [qubitsOf_length, b]; exact hi)
  rw [iterate_involutive perm h] at this
  exact this
/-- Exactness for commuting pieces (Mathlib matrix exponential): if the generators `G` of one Trotter
step commute pairwise, the product over all leaf steps of the whole simulation — every order, every
step count, every value of the Suzuki ratios, any involutive or other qubit bookkeeping — of the step
unitaries `∏_g exp(z τ g)` is exactly `exp(z t ΣG)`; with `z = -i` this is `exp(-iHt)`.  (All factors
commute, so the order in which the circuit multiplies them is immaterial.) -/
theorem exact_when_commuting {d : Nat} (perm : List Nat → List Nat) (r : Nat → Rat) (order nSteps : Nat)
    (hn : nSteps ≠ 0) (q : List Nat) (time : Rat) (G : List (Matrix (Fin d) (Fin d) ℂ))
    (hc : G.Pairwise Commute) (z : ℂ) :
    ((simulate perm r order nSteps q time).1.map fun l => stepU G (z * (l.time : ℂ))).prod
      = NormedSpace.exp ((z * (time : ℂ)) • G.sum) := by
  have gen : ∀ L : List Leaf, (L.map fun l : Leaf => z * (l.time : ℂ)).sum
      = z * (((L.map (·.time)).sum : Rat) : ℂ) := by
    intro L
    induction L with
    | nil => simp
    | cons a l ih => simp only [List.map_cons, List.sum_cons, ih]; push_cast; ring
  have hs : ((simulate perm r order nSteps q time).1.map fun l : Leaf => z * (l.time : ℂ)).sum
      = z * (time : ℂ) := by
    rw [gen, simulate_times_sum perm r order nSteps hn q time]
  have h := prod_stepU G hc ((simulate perm r order nSteps q time).1.map fun l : Leaf => z * (l.time : ℂ))
  rw [List.map_map, hs] at h
  exact h

/-- non-vacuity of `exact_when_commuting`: diagonal matrices commute -/
example : ([Matrix.diagonal ![1, 2], Matrix.diagonal ![3, (-1 : ℂ)]] :
    List (Matrix (Fin 2) (Fin 2) ℂ)).Pairwise Commute := by
  simp [Commute, SemiconjBy, Matrix.diagonal_mul_diagonal, mul_comm]

/-- non-vacuity / sanity: the order-2 step with ratio `r 2 = 1/3` has times `⅓,⅓,-⅓,⅓,⅓`; the
reversal is an involution; three steps leave the register reversed -/
example : (performStep reversal (fun _ => 1/3) 2 [0, 1, 2] 1).map (·.time) = [1/3, 1/3, -1/3, 1/3, 1/3] := by
  decide +kernel
example : (performStep reversal (fun _ => 1/3) 2 [0, 1, 2] 1).map (·.qubits) =
    [[0, 1, 2], [2, 1, 0], [0, 1, 2], [2, 1, 0], [0, 1, 2]] := by decide +kernel
example : (simulate reversal (fun _ => 1/3) 2 3 [0, 1, 2] 1).2 = [2, 1, 0] := by decide +kernel
example : ∀ q : List Nat, reversal (reversal q) = q := by intro q; simp [reversal]
/-- symmetric coefficient tables exist (hypotheses of the product-formula theorems) -/
example : ∀ p q : Nat, (fun a b : Nat => ((a + b : Nat) : Rat)) p q = (fun a b : Nat => ((a + b : Nat) : Rat)) q p := by
  intro p q; simp [Nat.add_comm]

end OFV.C15
