/-
C08 — property theorems (tensor representations and conversions).  Helper lemmas live in
OFV/Proofs/C08*.lean.

Vocabulary.  `melF A t s` is the shared Spec matrix element `⟨t|A|s⟩` (OFV/Spec/Basic.lean) of a
fermion operator given as a list of (term, coefficient); `denotePT` / `denoteTensor` are the Spec
denotation of the arrays of a PolynomialTensor (OFV/Spec/C08.lean).  `evalW w A = Σ c·w(τ)` pairs
the formal sum `A` with an arbitrary weight on words; `melF A t s = evalW (termMel · t s) A`
(`melF_eq_evalW`), so a statement for all weights `w` is a statement about the formal polynomial
and implies the statement about matrix elements.  All theorems are about the Model functions the
driver executes (OFV/Model/C08.lean): `iadd`, `isub`, `imulS`, `idivS`, `neg`, `basisChange`,
`majoranaTermToFermion`, `fermionTermToMajorana`.

Not proved here (see OPEN_STATEMENTS in harness/c08.py): the Fock-space form of basis-change
soundness / spectrum invariance / composition of rotations; soundness of the three scatter
conversions composed with `normal_ordered` (C03); multiplicativity of the Majorana conversions
beyond generators (C01); quadrature/boson conversions; DOCI.
-/
import OFV.Proofs.C08Arith
import OFV.Proofs.C08Conv
import OFV.Proofs.C08Rot
import OFV.Proofs.C08Iter
import OFV.Proofs.C08Fock
import OFV.Proofs.C08Car
import OFV.Proofs.C08Maj
import OFV.Proofs.C08Comp
import OFV.Proofs.C08ScatterC03
import OFV.Proofs.C08Dch
import OFV.Proofs.C08Qh
import OFV.Proofs.C08DchIg
import OFV.Proofs.C08QhIg
import OFV.Proofs.C08QhDoc
import OFV.Proofs.C08Doci
import OFV.Spec.Expr

namespace OFV.C08
open OFV OFV.Spec OFV.Spec.C08 OFV.Model.C08 OFV.C08P

/-- **`+` / `+=` is a homomorphism**: the sum of two well-shaped PolynomialTensors (equal or
different key sets, any key order, tensors of any order) denotes the sum of the denoted operators. -/
theorem tensor_add_hom (a b r : PT) (ha : WF a) (hb : WF b) (h : iadd a b = .ok r) (t s : Nat) :
    melF (denotePT r.d) t s = melF (denotePT a.d) t s + melF (denotePT b.d) t s := by
  obtain ⟨hn, rfl⟩ := iadd_eq_fold h
  simp only [melF_eq_evalW, evalW_denotePT]
  exact fold_add _ a.n b.d a.d ha (hn ▸ hb)

/-- non-vacuity: well-shaped tensors with different key sets can be added -/
example : ∃ r, iadd exA exB = .ok r ∧ WF exA ∧ WF exB := ⟨_, rfl, exA_WF, exB_WF⟩

/-- **what `-` / `-=` really computes** (exact, for every pair of well-shaped tensors): tensors of
keys the minuend already has are subtracted, tensors of keys it lacks are **added**. -/
theorem tensor_sub_spec (a b r : PT) (ha : WF a) (hb : WF b) (hk : (b.d.map (·.1)).Nodup)
    (h : isub a b = .ok r) (t s : Nat) :
    melF (denotePT r.d) t s = melF (denotePT a.d) t s
      - melF (denotePT (b.d.filter fun e => (Dict.get? a.d e.1).isSome)) t s
      + melF (denotePT (b.d.filter fun e => !(Dict.get? a.d e.1).isSome)) t s := by
  obtain ⟨hn, rfl⟩ := isub_eq_fold h
  simp only [melF_eq_evalW, evalW_denotePT]
  have := fold_sub (fun τ => termMel τ t s) a.n b.d a.d ha (hn ▸ hb) hk
  simpa [part] using this

/- Full statement (FALSE for the code as it is — finding F08a, see `tensor_sub_counterexample`):
     `isub a b = .ok r → melF ⟦r⟧ t s = melF ⟦a⟧ t s - melF ⟦b⟧ t s` for all well-shaped a, b.
   Proved under the extra hypothesis that every key of the subtrahend is a key of the minuend. -/
theorem tensor_sub_hom_same_keys_partial (a b r : PT) (ha : WF a) (hb : WF b)
    (hk : (b.d.map (·.1)).Nodup) (hsub : ∀ e ∈ b.d, (Dict.get? a.d e.1).isSome = true)
    (h : isub a b = .ok r) (t s : Nat) :
    melF (denotePT r.d) t s = melF (denotePT a.d) t s - melF (denotePT b.d) t s := by
  rw [tensor_sub_spec a b r ha hb hk h]
  have h1 : (b.d.filter fun e => (Dict.get? a.d e.1).isSome) = b.d :=
    List.filter_eq_self.mpr hsub
  have h2 : (b.d.filter fun e => !(Dict.get? a.d e.1).isSome) = [] :=
    List.filter_eq_nil_iff.mpr (fun e he => by simp [hsub e he])
  rw [h1, h2]
  simp [denotePT, melF, applyF, SV.coeff, Dict.getD, Dict.get?]

/-- non-vacuity: `exC - exA` satisfies the hypotheses (the key of `exA` is a key of `exC`) -/
example : ∃ r, isub exC exA = .ok r ∧ WF exC ∧ WF exA ∧ (exA.d.map (·.1)).Nodup ∧
    ∀ e ∈ exA.d, (Dict.get? exC.d e.1).isSome = true :=
  ⟨_, rfl, exC_WF, exA_WF, by simp [exA], by simp [exA, exC, Dict.get?]⟩

/-- **finding F08a on the Model**: `a†a - a a†` computed by `-=` acts on the vacuum as `+1`
instead of `-1` (the `(0,1)` tensor, a key only in the subtrahend, is stored un-negated). -/
theorem tensor_sub_counterexample :
    ∃ a b r : PT, WF a ∧ WF b ∧ (b.d.map (·.1)).Nodup ∧ isub a b = .ok r ∧
      melF (denotePT r.d) 0 0 ≠ melF (denotePT a.d) 0 0 - melF (denotePT b.d) 0 0 := by
  refine ⟨exA, exB, _, exA_WF, exB_WF, by simp [exB], rfl, ?_⟩
  decide +kernel

/-- **`tensor_denote_iter`: `get_fermion_operator(PolynomialTensor)` denotes the tensor.**
The FermionOperator built by `_polynomial_tensor_to_fermion_operator` — driven by `__iter__` (keys
sorted by `(len, int(''.join(key)))`, zero entries skipped, `()` always yielded) and `__getitem__`,
accumulated with `+=` (which deletes coefficients below the tolerance) — has the matrix elements of
`⟦T⟧ = Σ_key Σ_index T_key[index] · (index, key)`, for tensors of any order and any key set.
Hypotheses: distinct keys, well-shaped arrays, and the exact regime (every coefficient the loop
reads is `0` or not below the tolerance; implied by "every entry is 0 or ≥ tol"). -/
theorem tensor_denote_iter (tol : Rat) (a : PT) (hn : (Dict.keys a.d).Nodup) (hs : WF a)
    (hx : ∀ e ∈ iterE a, GQ.isSmall tol e.2 = true → e.2 = 0) (t s : Nat) :
    melF (toFermion tol a) t s = melF (denotePT a.d) t s := by
  rw [melF_eq_evalW, melF_eq_evalW, evalW_denotePT, toFermion_eq]
  have hnd : ((iterE a).map Prod.fst).Nodup :=
    (iter_nodup a hn hs).sublist (iterE_fst_sublist a (iter a))
  rw [fold_fresh tol _ (iterE a) [] hnd (by intro e _; simp) hx]
  have := iterE_sum (fun τ => termMel τ t s) a hn hs
  simp only [evalW, zero_add]
  exact this

/-- **`getitem_spec`**: `T[(i_1, a_1), …, (i_k, a_k)]` is the entry `index = (i_1..i_k)` of the array
stored under the key `(a_1..a_k)` (non-constant keys). -/
theorem getitem_spec (a : PT) (k : Key) (T : Tensor) (idx : List Nat) (c : GQ) (hk : k ≠ [])
    (hl : idx.length = k.length) (hg : Dict.get? a.d k = some T) (ht : tget idx T = some c) :
    getitem a (idx.zip k) = .ok c := by
  rw [getitem_zip a k T idx hk hl hg, ht]

example : getitem exC [(0, 1), (0, 0)] = .ok ⟨2, 1⟩ := by decide +kernel

/-- the terms yielded by `__iter__` are pairwise distinct (no entry is yielded twice) -/
theorem iter_yields_distinct_terms (a : PT) (hn : (Dict.keys a.d).Nodup) (hs : WF a) : (iter a).Nodup :=
  iter_nodup a hn hs

/-- non-vacuity: `exC` (a one-body array and a constant) is in the exact regime of the live tolerance -/
example : (Dict.keys exC.d).Nodup ∧ WF exC ∧
    ∀ e ∈ iterE exC, GQ.isSmall Generated.eqTolerance e.2 = true → e.2 = 0 :=
  ⟨by decide, exC_WF, by decide +kernel⟩

/-- scalar `*` / `*=` -/
theorem tensor_smul_hom (a : PT) (c : GQ) (t s : Nat) :
    melF (denotePT (imulS a c).d) t s = c * melF (denotePT a.d) t s := by
  simp only [melF_eq_evalW, evalW_denotePT, imulS, tscale]
  exact evD_map_tmap _ _ c (by intro x; ring) a.d

/-- unary `-` -/
theorem tensor_neg_hom (a : PT) (t s : Nat) :
    melF (denotePT (neg a).d) t s = - melF (denotePT a.d) t s := by
  simp only [melF_eq_evalW, evalW_denotePT, neg, tneg]
  rw [evD_map_tmap _ _ (-1) (by intro x; ring) a.d]; ring

/-- scalar `/` / `/=` (multiplication by the inverse) -/
theorem tensor_div_hom (a : PT) (c : GQ) (t s : Nat) :
    melF (denotePT (idivS a c).d) t s = Model.C08.GQ.inv c * melF (denotePT a.d) t s := by
  simp only [melF_eq_evalW, evalW_denotePT, idivS]
  exact evD_map_tmap _ _ _ (by intro x; ring) a.d

/-- **general_basis_change = substitution of rotated ladder operators, as formal polynomials**
(keys of any order, mixed actions, any — also non-unitary, complex — matrix `R`).  For every
weight `w` on words, the rotated tensor `M'` (the einsum, contracted axis by axis as the Model
does) satisfies
`Σ_P M'[P]·w(word P) = Σ_a M[a] · Σ_{P} Π_i R_i[a_i, P_i] · w(word P)`, `R_i = conj R` iff `key_i = 1`,
i.e. `⟦M'⟧` is `⟦M⟧` with every ladder operator `(a, x)` replaced by `Σ_P R_x[a, P]·(P, x)` and the
product expanded multilinearly (`pull` is that expansion, OFV/Proofs/C08Rot.lean). -/
theorem basis_change_sound_formal (n : Nat) (R : Mat) (key : Key) (T : Tensor)
    (h : Shaped n key.length T) (w : List (Nat × Nat) → GQ) :
    evalW w (denoteTensor key (basisChange n R key T))
      = evalT key.length (pull n R key (fun P => w (P.zip key))) T := by
  rw [evalW_denoteTensor]
  exact (basisChange_spec n R key _ T h).2

/-- the same for Fock-space matrix elements of the denoted operators -/
theorem basis_change_mel (n : Nat) (R : Mat) (key : Key) (T : Tensor)
    (h : Shaped n key.length T) (t s : Nat) :
    melF (denoteTensor key (basisChange n R key T)) t s
      = evalT key.length (pull n R key (fun P => termMel (P.zip key) t s)) T := by
  rw [melF_eq_evalW]
  exact basis_change_sound_formal n R key T h _

/-- **`basis_change_sound` on Fock space.**  In `Module.End GQ (ℕ →₀ GQ)` with the ladder operators
`gF (P, x)` built from `Spec.actF` (C03's Fock interpretation, whose matrix elements are `Spec.melF`):
the operator denoted by the rotated tensor is the operator denoted by the original tensor with every
ladder operator `(a, x)` replaced by the rotated one `rotLadder a x = Σ_P R_x[a, P] · (P, x)`
(`R_x = conj R` for creation operators, `R` for annihilation operators):
`⟦general_basis_change(M, R, key)⟧ = Σ_a M[a] · Π_i rotLadder(a_i, key_i)`,
for every order, mixed actions and every complex matrix `R` (unitary or not). -/
theorem basis_change_sound_fock (n : Nat) (R : Mat) (key : Key) (T : Tensor)
    (hT : Shaped n key.length T) (hkey : ∀ x ∈ key, x < 2) :
    Proofs.C03.fockInterp.evalOp (denoteTensor key (basisChange n R key T))
      = ((indices n key.length).map fun a => (tget a T).getD 0 • rotWord n R a key).sum :=
  basisChange_fock n R key T hT hkey

/-- **anticommutators of the rotated ladder operators** (any `R`): `{ã_b, ã†_a} = (R R†)_{ba}`,
`{ã_a, ã_b} = {ã†_a, ã†_b} = 0`. -/
theorem rotated_ladder_anticommutators (n : Nat) (R : Mat) (a b : Nat) :
    (rotLadder n R b 0 * rotLadder n R a 1 + rotLadder n R a 1 * rotLadder n R b 0
      = sumN n (fun P => matGet R b P * matGet (conjMat R) a P) • (1 : FEnd)) ∧
    (∀ x, rotLadder n R b x * rotLadder n R a x + rotLadder n R a x * rotLadder n R b x = 0) :=
  ⟨rot_car_mixed_aux n R a b, fun x => rot_car_same_aux n R a b x⟩

/-- **for a unitary `R` the rotated ladder operators satisfy the CAR again**, so that by
`basis_change_sound_fock` `rotate_basis` is the substitution `a ↦ ã` by a family with the same
algebraic relations (a Bogoliubov transformation). -/
theorem rotated_ladder_car_unitary (n : Nat) (R : Mat)
    (hU : ∀ a b, a < n → b < n →
      sumN n (fun P => matGet R b P * matGet (conjMat R) a P) = if a = b then 1 else 0)
    (a b : Nat) (ha : a < n) (hb : b < n) :
    rotLadder n R b 0 * rotLadder n R a 1 + rotLadder n R a 1 * rotLadder n R b 0
      = if a = b then (1 : FEnd) else 0 := by
  rw [rot_car_mixed_aux, hU a b ha hb]
  split <;> simp

/-- non-vacuity: the complex permutation `[[0, i], [1, 0]]` is unitary in the sense of the hypothesis -/
example : ∀ a < 2, ∀ b < 2,
    sumN 2 (fun P => matGet [[0, GQ.I], [1, 0]] b P * matGet (conjMat [[0, GQ.I], [1, 0]]) a P)
      = if a = b then 1 else 0 := by decide +kernel

/-- **successive rotations compose**: `general_basis_change` by `R1` followed by `R2` denotes the
same polynomial (for every weight on words, hence the same matrix elements) as one basis change
by the matrix product `R1 · R2` — keys of any order, mixed actions, complex matrices. -/
theorem basis_change_compose (n : Nat) (R1 R2 : Mat) (key : Key) (T : Tensor)
    (hT : Shaped n key.length T) (w : List (Nat × Nat) → GQ) :
    evalW w (denoteTensor key (basisChange n R2 key (basisChange n R1 key T)))
      = evalW w (denoteTensor key (basisChange n (matMul n R1 R2) key T)) := by
  rw [evalW_denoteTensor, evalW_denoteTensor]
  exact basisChange_comp n R1 R2 key T hT _

theorem basis_change_compose_mel (n : Nat) (R1 R2 : Mat) (key : Key) (T : Tensor)
    (hT : Shaped n key.length T) (t s : Nat) :
    melF (denoteTensor key (basisChange n R2 key (basisChange n R1 key T))) t s
      = melF (denoteTensor key (basisChange n (matMul n R1 R2) key T)) t s := by
  rw [melF_eq_evalW, melF_eq_evalW]
  exact basis_change_compose n R1 R2 key T hT _

/-- the rotated array has the shape of the input -/
theorem basis_change_shape (n : Nat) (R : Mat) (key : Key) (T : Tensor)
    (h : Shaped n key.length T) : Shaped n key.length (basisChange n R key T) :=
  (basisChange_spec n R key (fun _ => 0) T h).1

/-- non-vacuity: a 2×2 one-body array is well shaped -/
example : Shaped 2 [1, 0].length (.v [.v [.s 1, .s 0], .v [.s 0, .s GQ.I]]) := by simp [Shaped]

/-- **Majorana → fermion on generators**: for every Majorana index `m` and all basis states,
the FermionOperator produced by `_majorana_term_to_fermion_operator((m,))`
(`a_j + a†_j` for `m = 2j`, `-i a_j + i a†_j` for `m = 2j+1`) acts as `γ_m` of the Spec. -/
theorem majorana_generator_sound (m t s : Nat) :
    melF (majoranaTermToFermion Generated.eqTolerance [m]) t s
      = (if (actM m s).2 = t then GQ.ipow (actM m s).1 else 0) := by
  rcases Nat.even_or_odd' m with ⟨j, rfl | rfl⟩
  · rw [majGen_even, melF_eq_evalW]
    have hc : countBelow s j % 2 = 0 ∨ countBelow s j % 2 = 1 := by omega
    have hj : 2 * j / 2 = j := by omega
    cases hb : s.testBit j <;> rcases hc with hc | hc <;>
      simp [evalW, termMel, actFTerm, actF, actM, hb, hc, hj, GQ.sgn, GQ.ipow]
  · rw [majGen_odd, melF_eq_evalW]
    have hc : countBelow s j % 2 = 0 ∨ countBelow s j % 2 = 1 := by omega
    have hj : (2 * j + 1) / 2 = j := by omega
    cases hb : s.testBit j <;> rcases hc with hc | hc <;>
      simp [evalW, termMel, actFTerm, actF, actM, hb, hc, hj, GQ.sgn, GQ.ipow]

/-- **fermion → Majorana on generators**: for every mode `j`, action `a ∈ {0, 1}` and all basis
states, the MajoranaOperator produced by `_fermion_term_to_majorana_operator(((j, a),))`
(`(γ_{2j} ± i γ_{2j+1})/2`) acts as the ladder operator of the Spec. -/
theorem fermion_generator_sound (j a t s : Nat) (ha : a = 0 ∨ a = 1) :
    SV.coeff (applyM (fermionTermToMajorana [(j, a)]) s) t = melF [([(j, a)], 1)] t s := by
  rw [ferGen, melM_eq_evalWM, melF_eq_evalW]
  have hc : countBelow s j % 2 = 0 ∨ countBelow s j % 2 = 1 := by omega
  have hj : 2 * j / 2 = j := by omega
  have hj1 : (2 * j + 1) / 2 = j := by omega
  rcases ha with rfl | rfl <;> cases hb : s.testBit j <;> rcases hc with hc | hc <;>
    by_cases ht : s ^^^ 1 <<< j = t <;>
    simp [evalW, evalWM, termMel, termMelM, actFTerm, actMTerm, actF, actM, hb, hc, hj, hj1, ht,
      GQ.sgn, GQ.ipow] <;>
    decide +kernel

/-- **`get_majorana_operator(FermionOperator)` is sound, at full strength**: for every
FermionOperator `A` (actions 0 / 1; any number of terms, any term length, repeated indices, any
complex coefficients — `MajoranaOperator.__iadd__` does not prune, so no tolerance hypothesis), the
MajoranaOperator built by `_fermion_operator_to_majorana_operator` denotes the same endomorphism of
Fock space (products by `_merge_majorana_terms`, sums by `+=`). -/
theorem get_majorana_operator_sound (A : Model.Op) (hv : ∀ e ∈ A, ∀ f ∈ e.1, f.2 < 2) :
    evM (fermionToMajorana A) = Proofs.C03.fockInterp.evalOp A :=
  evM_fermionToMajorana A hv

/-- … hence the same matrix elements in the shared Spec (`Spec.applyM` vs `Spec.melF`) -/
theorem get_majorana_operator_mel (A : Model.Op) (hv : ∀ e ∈ A, ∀ f ∈ e.1, f.2 < 2) (s t : Nat) :
    SV.coeff (applyM (fermionToMajorana A) s) t = melF A t s := by
  rw [← evM_apply, evM_fermionToMajorana A hv, Proofs.C03.fock_evalOp_melF A hv]

/-- non-vacuity / sanity: `a†_1 a_0` -/
example : ∀ f ∈ ([(1, 1), (0, 0)] : Model.Term), f.2 < 2 := by decide

/-- **Majorana products are operator products**: `MajoranaOperator.__mul__` (`mmul`, signs from
`_merge_majorana_terms`) is composition of the denoted endomorphisms when the left factor has
strictly increasing terms (which `MajoranaOperator.__init__` guarantees). -/
theorem majorana_mul_hom (a b : Model.MOp) (ha : SortedM a) : evM (Model.mmul a b) = evM a * evM b :=
  evM_mmul a b ha

/-! ### `get_interaction_operator` -/

/-- **the scatter loop of `get_interaction_operator` is sound on normal-ordered input**: for a
dictionary `no` with distinct terms, no negligible coefficient and mode indices `< n` (what
`normal_ordered` returns), if the loop succeeds — i.e. every term has one of the shapes `()`,
`p^ q`, `p^ q^ r s` — the InteractionOperator `(constant, one_body, two_body)` it fills by
ASSIGNMENT denotes the same formal polynomial as `no` (for every weight on words; no entry is
overwritten because the terms are distinct). -/
theorem get_interaction_operator_scatter_sound (tol : Rat) (n : Nat) (no : Model.Op) (c : GQ)
    (one two : Tensor) (h : scatterIO tol n no = .ok (c, one, two)) (hnd : (no.map Prod.fst).Nodup)
    (hsm : ∀ e ∈ no, GQ.isSmall tol e.2 = false) (hn : ∀ e ∈ no, ∀ f ∈ e.1, f.1 < n)
    (w : Model.Term → GQ) :
    evalW w (denotePT (mkIO c one two).d) = evalW w no :=
  scatterIO_denote tol n no c one two h hnd hsm hn w

/-- **`get_interaction_operator_sound`**: whenever `get_interaction_operator(A, n_qubits)` succeeds,
the InteractionOperator has the matrix elements of `A` — for every FermionOperator with actions 0 / 1
in ANY spelling (non-normal-ordered terms, repeated indices, any `n_qubits ≥ count_qubits`), at the
live tolerance on coefficients of a lattice `(1/D)·ℤ[i]` with `tol·D ≤ 1` (all dyadic inputs:
`D = 2^26` for `1e-8`).  `normal_ordered` is the Model of C03 and its soundness / exact-regime
theorems are used (`normalOrdered_sound_melF`, `normal_ordered_exact_regime_aux`). -/
theorem get_interaction_operator_sound (D : Nat) (hD : 0 < D) (tol : Rat) (h0 : 0 ≤ tol) (h1 : tol * D ≤ 1)
    (A : Model.Op) (n? : Option Nat) (P : PT) (hv : ∀ e ∈ A, ∀ f ∈ e.1, f.2 < 2)
    (la : ∀ e ∈ A, Proofs.C03.Lat D e.2) (h : getInteractionOperator tol A n? = .ok P) (t s : Nat) :
    melF (denotePT P.d) t s = melF A t s :=
  getIO_sound D hD tol h0 h1 A n? P hv la h t s

/-- non-vacuity: the live tolerance admits the dyadic lattice `2^-26`, and `a_0 a†_1 / 4` converts -/
example : (0 : Rat) ≤ Generated.eqTolerance ∧ Generated.eqTolerance * ((2 ^ 26 : Nat) : Rat) ≤ 1 ∧
    (match getInteractionOperator Generated.eqTolerance [([(0, 0), (1, 1)], ⟨1/4, 0⟩)] none with
      | .ok P => P.n
      | .error _ => 0) = 2 := by
  refine ⟨by norm_num [Generated.eqTolerance], by norm_num [Generated.eqTolerance], by decide +kernel⟩

/-! ### `get_diagonal_coulomb_hamiltonian` -/

/-- **`get_diagonal_coulomb_hamiltonian_sound`**: whenever
`get_diagonal_coulomb_hamiltonian(A, n_qubits, ignore_incompatible_terms=False)` succeeds and the
exactness flag of the run is `true` (the two-body coefficients of `normal_ordered(A)` are real — the
source silently drops an imaginary part below the tolerance; the driver reports the flag for every
generated input), the DiagonalCoulombHamiltonian `(one_body, two_body, constant)` — after the
constructor has moved the diagonal of `two_body` to `one_body` — denotes, by the class docstring
`Σ T_pq a†_p a_q + Σ V_pq a†_p a_p a†_q a_q + constant` (`Spec.C08.denoteDCH`), an operator with the
matrix elements of `A`: for every FermionOperator with actions 0 / 1 in any spelling, at the live
tolerance on a coefficient lattice `(1/D)·ℤ[i]` with `tol·D ≤ 1`.  Uses the Model and the theorems of
C03 for `normal_ordered` and the canonical anticommutation relations of the Spec for
`n_p n_q = n_q n_p = -a†_p a†_q a_p a_q` (`V_pq = V_qp = -c/2`). -/
theorem get_diagonal_coulomb_hamiltonian_sound (D : Nat) (hD : 0 < D) (tol : Rat) (h0 : 0 ≤ tol)
    (h1 : tol * D ≤ 1) (A : Model.Op) (n? : Option Nat) (H : DCH) (hv : ∀ e ∈ A, ∀ f ∈ e.1, f.2 < 2)
    (la : ∀ e ∈ A, Proofs.C03.Lat D e.2) (h : getDiagonalCoulomb tol A n? false = .ok H)
    (hex : dchExact tol A = true) (t s : Nat) :
    melF (denoteDCH H.n H.one H.two H.c) t s = melF A t s :=
  getDCH_sound_flag D hD tol h0 h1 A n? H hv la h hex t s

/-- the scatter loop and the constructor alone, on a normal-ordered dictionary, for every weight on
words that satisfies `n_p n_q = n_q n_p = -a†_p a†_q a_p a_q` (`p ≠ q`) -/
theorem get_diagonal_coulomb_hamiltonian_scatter_sound (tol : Rat) (n : Nat) (no : Model.Op) (c : GQ)
    (one two : Tensor) (H : DCH)
    (h : dchScatter tol false n no = .ok (c, one, two)) (hmk : mkDCH n one two c = .ok H)
    (hnd : (no.map Prod.fst).Nodup) (hsm : ∀ e ∈ no, GQ.isSmall tol e.2 = false)
    (hn : ∀ e ∈ no, ∀ f ∈ e.1, f.1 < n) (hno : ∀ e ∈ no, Spec.C02.NormalOrderedF e.1)
    (hre : ∀ p q, (Dict.getD no [(p, 1), (q, 1), (p, 0), (q, 0)] 0).im = 0)
    (w : Model.Term → GQ)
    (W : ∀ p q, p ≠ q → w [(p, 1), (p, 0), (q, 1), (q, 0)] = -(w [(p, 1), (q, 1), (p, 0), (q, 0)]) ∧
      w [(q, 1), (q, 0), (p, 1), (p, 0)] = -(w [(p, 1), (q, 1), (p, 0), (q, 0)])) :
    evalW w (denoteDCH H.n H.one H.two H.c) = evalW w no :=
  dch_denote tol n no c one two H h hmk hnd hsm hn hno hre w W

/-- non-vacuity: `2 a†_1 a†_0 a_1 a_0 + a†_0 a_1 + a†_1 a_0` converts, in the exact regime -/
example : dchExact Generated.eqTolerance
      [([(1, 1), (0, 1), (1, 0), (0, 0)], 2), ([(0, 1), (1, 0)], 1), ([(1, 1), (0, 0)], 1)] = true ∧
    (match getDiagonalCoulomb Generated.eqTolerance
        [([(1, 1), (0, 1), (1, 0), (0, 0)], 2), ([(0, 1), (1, 0)], 1), ([(1, 1), (0, 0)], 1)] none false with
      | .ok H => H.n
      | .error _ => 0) = 2 := by
  decide +kernel

/-- **`get_diagonal_coulomb_hamiltonian_sound_general`**: for EITHER value of
`ignore_incompatible_terms`, whenever the call succeeds in the exact regime of the run, the
DiagonalCoulombHamiltonian denotes exactly the part of `normal_ordered(A)` that has diagonal Coulomb
form — the terms `()`, `a†_p a_q`, `a†_p a†_q a_p a_q` with `q < p` below the register size
(`dch_forms_spec` says that `admKeysD n` lists exactly these words).  With
`ignore_incompatible_terms=False` a successful call has no other terms
(`get_diagonal_coulomb_hamiltonian_sound`); with `True` the other terms are dropped, and nothing else
is changed. -/
theorem get_diagonal_coulomb_hamiltonian_sound_general (D : Nat) (hD : 0 < D) (tol : Rat) (h0 : 0 ≤ tol)
    (h1 : tol * D ≤ 1) (A : Model.Op) (n? : Option Nat) (ig : Bool) (H : DCH)
    (hv : ∀ e ∈ A, ∀ f ∈ e.1, f.2 < 2) (la : ∀ e ∈ A, Proofs.C03.Lat D e.2)
    (h : getDiagonalCoulomb tol A n? ig = .ok H) (hex : dchExact tol A = true) (t s : Nat) :
    melF (denoteDCH H.n H.one H.two H.c) t s
      = melF ((normalOrdered tol A).filter fun e => decide (e.1 ∈ admKeysD H.n)) t s :=
  getDCH_sound_ig D hD tol h0 h1 A n? ig H hv la h hex t s

/-- the words kept by `get_diagonal_coulomb_hamiltonian` -/
theorem dch_forms_spec (n : Nat) (t : Model.Term) : t ∈ admKeysD n ↔ AdmD n t := mem_admKeysD_iff n t

/-- non-vacuity: with `ignore_incompatible_terms=True` the hopping-pair term `a†_2 a†_1 a_1 a_0`-like
incompatible term is dropped and the call succeeds -/
example : (match getDiagonalCoulomb Generated.eqTolerance
        [([(1, 1), (0, 1), (1, 0), (0, 0)], 2), ([(2, 1), (1, 1), (1, 0), (0, 0)], 1)] none true with
      | .ok H => H.n
      | .error _ => 0) = 3 ∧
    (match getDiagonalCoulomb Generated.eqTolerance
        [([(1, 1), (0, 1), (1, 0), (0, 0)], 2), ([(2, 1), (1, 1), (1, 0), (0, 0)], 1)] none false with
      | .ok _ => true
      | .error _ => false) = false := by
  decide +kernel

/-! ### `get_quadratic_hamiltonian` -/

/-- **`get_quadratic_hamiltonian_sound`**: whenever
`get_quadratic_hamiltonian(A, chemical_potential, n_qubits, ignore_incompatible_terms=False)` succeeds
and the exactness flag of the run is `true` (every pairing term `c a†_p a†_q` of `normal_ordered(A)`
has exactly the partner `-conj(c) a_p a_q` — the source accepts a discrepancy below the tolerance; the
driver reports the flag for every generated input), the QuadraticHamiltonian — the PolynomialTensor
`{(): constant, (1,0): M - μ·1, (1,1): Δ/2, (0,0): -Δ*/2}` the constructor builds from the combined
Hermitian part and the antisymmetric part, or without the last two when the antisymmetric part is
negligible — has the matrix elements of `A`: for every FermionOperator with actions 0 / 1 in any
spelling, every chemical potential, at the live tolerance on a coefficient lattice `(1/D)·ℤ[i]` with
`tol·D ≤ 1`.  Uses the Model and theorems of C03 for `normal_ordered` and the anticommutation of the
Spec for `a†_q a†_p = -a†_p a†_q`, `a_q a_p = -a_p a_q` (the antisymmetrisation halves). -/
theorem get_quadratic_hamiltonian_sound (D : Nat) (hD : 0 < D) (tol : Rat) (h0 : 0 ≤ tol) (h1 : tol * D ≤ 1)
    (A : Model.Op) (mu : GQ) (n? : Option Nat) (P : PT) (hv : ∀ e ∈ A, ∀ f ∈ e.1, f.2 < 2)
    (la : ∀ e ∈ A, Proofs.C03.Lat D e.2) (h : getQuadraticHamiltonian tol A mu n? false = .ok P)
    (hex : qhExact tol A = true) (t s : Nat) :
    melF (denotePT P.d) t s = melF A t s :=
  getQH_sound D hD tol h0 h1 A mu n? P hv la h hex t s

/-- non-vacuity: `a†_1 a†_0 - a_1 a_0 + a†_0 a_0` with chemical potential 1/2, in the exact regime;
the antisymmetric part is kept (four tensors) -/
example : qhExact Generated.eqTolerance
      [([(1, 1), (0, 1)], 1), ([(1, 0), (0, 0)], -1), ([(0, 1), (0, 0)], 1)] = true ∧
    (match getQuadraticHamiltonian Generated.eqTolerance
        [([(1, 1), (0, 1)], 1), ([(1, 0), (0, 0)], -1), ([(0, 1), (0, 0)], 1)] ⟨1/2, 0⟩ none false with
      | .ok P => P.d.length
      | .error _ => 0) = 4 := by
  decide +kernel

/-- **`get_quadratic_hamiltonian_sound_general`**: for EITHER value of `ignore_incompatible_terms`,
whenever the call succeeds in the exact regime of the run, the QuadraticHamiltonian denotes exactly
the quadratic part of `normal_ordered(A)` — the terms `()`, `a†_p a_q`, `a†_p a†_q`, `a_p a_q` below the
register size `n` the code resolves (`qh_forms_spec`: `admKeysQ n` lists exactly these words).  With
`ignore_incompatible_terms=False` a successful call has no other terms
(`get_quadratic_hamiltonian_sound`); with `True` the other terms are dropped and nothing else changes. -/
theorem get_quadratic_hamiltonian_sound_general (D : Nat) (hD : 0 < D) (tol : Rat) (h0 : 0 ≤ tol)
    (h1 : tol * D ≤ 1) (A : Model.Op) (mu : GQ) (n? : Option Nat) (ig : Bool) (P : PT)
    (hv : ∀ e ∈ A, ∀ f ∈ e.1, f.2 < 2) (la : ∀ e ∈ A, Proofs.C03.Lat D e.2)
    (h : getQuadraticHamiltonian tol A mu n? ig = .ok P) (hex : qhExact tol A = true) (t s : Nat) :
    ∃ n, resolveN A n? = .ok n ∧ melF (denotePT P.d) t s
      = melF ((normalOrdered tol A).filter fun e => decide (e.1 ∈ admKeysQ n)) t s :=
  getQH_sound_ig D hD tol h0 h1 A mu n? ig P hv la h hex t s

/-- the words kept by `get_quadratic_hamiltonian` -/
theorem qh_forms_spec (n : Nat) (t : Model.Term) : t ∈ admKeysQ n ↔ AdmQ n t := mem_admKeysQ_iff n t

/-- non-vacuity: with `ignore_incompatible_terms=True` a two-body term is dropped and the call
succeeds; with `False` it fails -/
example : (match getQuadraticHamiltonian Generated.eqTolerance
        [([(0, 1), (0, 0)], 1), ([(1, 1), (0, 1), (1, 0), (0, 0)], 2)] 0 none true with
      | .ok P => P.d.length
      | .error _ => 0) = 2 ∧
    (match getQuadraticHamiltonian Generated.eqTolerance
        [([(0, 1), (0, 0)], 1), ([(1, 1), (0, 1), (1, 0), (0, 0)], 2)] 0 none false with
      | .ok _ => true
      | .error _ => false) = false := by
  decide +kernel

/-- **`quadratic_hamiltonian_docstring`** (the constructor, all inputs): for `n × n` arrays
`hermitian_part = M` and `antisymmetric_part = Δ`, any constant and chemical potential, the
PolynomialTensor `QuadraticHamiltonian.__init__` builds —
`{(): constant, (1,0): M − μ·1, (1,1): Δ/2, (0,0): −Δ*/2}` — has the matrix elements of the operator of
the class docstring, `Σ (M_pq − μ δ_pq) a†_p a_q + ½ Σ (Δ_pq a†_p a†_q + Δ*_pq a_q a_p) + constant`
(`Spec.C08.denoteQH`): the `(0,0)` tensor stores `−Δ*/2` because `a_q a_p = −a_p a_q`. -/
theorem quadratic_hamiltonian_docstring (n : Nat) (herm Δ : Tensor) (c mu : GQ) (hH : Shaped n 2 herm)
    (hΔ : Shaped n 2 Δ) (t s : Nat) :
    melF (denotePT (mkQH n herm (some Δ) c mu).d) t s = melF (denoteQH n herm Δ mu c) t s := by
  rw [melF_eq_evalW, melF_eq_evalW]
  exact mkQH_docstring n herm Δ c mu hH hΔ (fun τ => termMel τ t s)
    (fun p q => termMel_pair_antisym t s 0 (by omega) p q)

/-- the same without an antisymmetric part (`antisymmetric_part=None`): the docstring operator with `Δ = 0` -/
theorem quadratic_hamiltonian_docstring_none (n : Nat) (herm : Tensor) (c mu : GQ) (hH : Shaped n 2 herm)
    (t s : Nat) :
    melF (denotePT (mkQH n herm none c mu).d) t s = melF (denoteQH n herm (tzeros n 2) mu c) t s := by
  rw [melF_eq_evalW, melF_eq_evalW]
  exact mkQH_docstring_none n herm c mu hH (fun τ => termMel τ t s)

/-- non-vacuity: 2 × 2 arrays have the shape the theorem asks for -/
example : Shaped 2 2 (tzeros 2 2) ∧ Shaped 2 2 (Tensor.v [.v [.s 0, .s 1], .v [.s (-1), .s 0]]) := by
  refine ⟨Shaped_tzeros 2 2, ?_⟩
  simp [Shaped]

/-! ### DOCIHamiltonian -/

open OFV.Model.C08.Doci in
/-- **`get_tensors_from_integrals`** (spin-orbital tensors from spatial integrals): entry `(i, j)` of the
one-body tensor is the (truncated) integral `(i/2, j/2)` when the spins `i % 2`, `j % 2` agree and `0`
otherwise; entry `(i, j, k, l)` of the two-body tensor is half the (truncated) integral when the spins
of `i, l` and of `j, k` agree and `0` otherwise. -/
theorem get_tensors_from_integrals_entries (tol : Rat) (n : Nat) (one two : Tensor) (i j k l : Nat)
    (hi : i < 2 * n) (hj : j < 2 * n) (hk : k < 2 * n) (hl : l < 2 * n) :
    at2 (tensorsFromIntegrals tol n one two).1 i j
      = (if i % 2 = j % 2 then (if GQ.isSmall tol (at2 one (i / 2) (j / 2)) then 0 else at2 one (i / 2) (j / 2)) else 0) ∧
    at4 (tensorsFromIntegrals tol n one two).2 i j k l
      = (if i % 2 = l % 2 ∧ j % 2 = k % 2 then
          (if GQ.isSmall tol (at4 two (i / 2) (j / 2) (k / 2) (l / 2) * Doci.half) then 0
           else at4 two (i / 2) (j / 2) (k / 2) (l / 2) * Doci.half) else 0) := by
  constructor
  · simp only [at2, tensorsFromIntegrals]
    rw [tget_tab (2 * n) 2 _ [i, j] rfl (by intro a ha; simp at ha; rcases ha with rfl | rfl <;> assumption)]
    rfl
  · simp only [at4, tensorsFromIntegrals]
    rw [tget_tab (2 * n) 4 _ [i, j, k, l] rfl
      (by intro a ha; simp at ha; rcases ha with rfl | rfl | rfl | rfl <;> assumption)]
    rfl

open OFV.Model.C08.Doci in
/-- **the two-body tensor of a DOCIHamiltonian is antisymmetrised without the factor 1/2**:
`T[i, j, k, l] = t[i, j, k, l] - t[i, j, l, k]` where `t` is the tensor of the parent Hamiltonian
(`get_tensors_from_integrals`); in particular it is antisymmetric in the annihilation indices.  Since
`a_k a_l = -a_l a_k`, `Σ T[ijkl] a†_i a†_j a_k a_l = 2 Σ t[ijkl] a†_i a†_j a_k a_l`: finding F08c. -/
theorem doci_two_body_tensor (tol : Rat) (n : Nat) (hc hr1 hr2 : Tensor) (i j k l : Nat)
    (hi : i < 2 * n) (hj : j < 2 * n) (hk : k < 2 * n) (hl : l < 2 * n) :
    let pi := projectedIntegrals n hc hr1 hr2
    let t := (tensorsFromIntegrals tol n pi.1 pi.2).2
    let T := (tensorsFromDoci tol n hc hr1 hr2).2
    at4 T i j k l = at4 t i j k l - at4 t i j l k ∧ at4 T i j k l = -(at4 T i j l k) := by
  have h1 : at4 (tensorsFromDoci tol n hc hr1 hr2).2 i j k l
      = at4 (tensorsFromIntegrals tol n (projectedIntegrals n hc hr1 hr2).1 (projectedIntegrals n hc hr1 hr2).2).2 i j k l
        - at4 (tensorsFromIntegrals tol n (projectedIntegrals n hc hr1 hr2).1 (projectedIntegrals n hc hr1 hr2).2).2 i j l k := by
    simp only [at4, tensorsFromDoci]
    rw [tget_tab (2 * n) 4 _ [i, j, k, l] rfl
      (by intro a ha; simp at ha; rcases ha with rfl | rfl | rfl | rfl <;> assumption)]
    rfl
  have h2 : at4 (tensorsFromDoci tol n hc hr1 hr2).2 i j l k
      = at4 (tensorsFromIntegrals tol n (projectedIntegrals n hc hr1 hr2).1 (projectedIntegrals n hc hr1 hr2).2).2 i j l k
        - at4 (tensorsFromIntegrals tol n (projectedIntegrals n hc hr1 hr2).1 (projectedIntegrals n hc hr1 hr2).2).2 i j k l := by
    simp only [at4, tensorsFromDoci]
    rw [tget_tab (2 * n) 4 _ [i, j, l, k] rfl
      (by intro a ha; simp at ha; rcases ha with rfl | rfl | rfl | rfl <;> assumption)]
    rfl
  refine ⟨h1, ?_⟩
  rw [h1, h2]; ring

/-- the witness DOCIHamiltonian of findings F08c / F08d: `hc = 0`, `hr1 = [[0, 1], [1, 0]]`, `hr2 = 0` -/
def exDoci : Doci.DOCI :=
  ⟨2, 0, .v [.s 0, .s 0], .v [.v [.s 0, .s 1], .v [.s 1, .s 0]], .v [.v [.s 0, .s 0], .v [.s 0, .s 0]]⟩

/-- **finding F08c on the Model**: `qubit_operator = (X0 X1 + Y0 Y1)/2` moves the pair from orbital 0
to orbital 1 with amplitude 1, the fermion operator denoted by `n_body_tensors` moves the doubly
occupied orbital (`|0011⟩ → |1100⟩`) with amplitude 2. -/
theorem doci_tensors_counterexample :
    GV.coeff (applyOp .qubit (Doci.qubitOperator Generated.eqTolerance exDoci) [1]) [2] = 1 ∧
    melF (denotePT (Doci.nBodyTensors Generated.eqTolerance exDoci)) 12 3 = 2 := by
  decide +kernel

/-- **finding F08d on the Model**: `__getitem__` returns `hr1[0,1]/2 = 1/2` for the term
`0^ 1^ 2 3` while the stored tensor entry is `-1/2`. -/
theorem doci_getitem_counterexample :
    Doci.getitem exDoci [(0, 1), (1, 1), (2, 0), (3, 0)] = .ok ⟨1/2, 0⟩ ∧
    Doci.at4 (Doci.tensorsFromDoci Generated.eqTolerance 2 exDoci.hc exDoci.hr1 exDoci.hr2).2 0 1 2 3 = ⟨-1/2, 0⟩ := by
  decide +kernel

open OFV.Model.C08.Doci in
/-- **`get_doci_from_integrals`** in closed form (the inverse direction of the integrals round trip):
`hc[p] = 2 h[p,p]`, `hr1[p,q] = g[p,p,q,q]` off the diagonal and `0` on it,
`hr2[p,q] = 2 g[p,q,q,p] - g[p,q,p,q]`, for all indices below `n`. -/
theorem get_doci_from_integrals_entries (n : Nat) (one two : Tensor) (p q : Nat) (hp : p < n) (hq : q < n) :
    at1 (dociFromIntegrals n one two).1 p = ⟨2, 0⟩ * at2 one p p ∧
    at2 (dociFromIntegrals n one two).2.1 p q = (if p = q then 0 else at4 two p p q q) ∧
    at2 (dociFromIntegrals n one two).2.2 p q = ⟨2, 0⟩ * at4 two p q q p - at4 two p q p q := by
  refine ⟨?_, ?_, ?_⟩
  · simp only [at1, dociFromIntegrals]
    rw [tget_tab n 1 _ [p] rfl (by intro a ha; simp at ha; subst ha; exact hp)]
    rfl
  · simp only [at2, dociFromIntegrals]
    rw [tget_tab n 2 _ [p, q] rfl (by intro a ha; simp at ha; rcases ha with rfl | rfl <;> assumption)]
    rfl
  · simp only [at2, dociFromIntegrals]
    rw [tget_tab n 2 _ [p, q] rfl (by intro a ha; simp at ha; rcases ha with rfl | rfl <;> assumption)]
    rfl

end OFV.C08
