/-
C08 — property theorems.
-/
import OFV.Model.C08
import OFV.Spec.C08

namespace OFV.C08
open OFV OFV.Model.C08

theorem tensor_neg_entry_placeholder (c : GQ) : tneg 0 (.s c) = .s (-c) := rfl

end OFV.C08
