/-
C20 — property theorems (text and file round trips).  Helper lemmas: OFV/Proofs/C20*.lean.
Everything is about the definitions the driver executes: `OFV.Model.C20.printOp` (`__str__`),
`initFromString` / `longStringInit` / `parseString` (the string constructor), `save` / `load`
(operator_utils.py over a finite map path ↦ content).

Contracts (hypotheses, checked on the real functions by the harness): `CoefOK nt txt v` — the text
`format(coeff)` has no white space / brackets / colon / leading `+` and the coefficient parser, fed
with Python's `float` / `complex` (tables `nt`), reads it back as `v`; `marshal.load ∘ marshal.dump = id`
(a binary file is modelled by the value handed to `marshal.dump`).
Not modelled: MolecularData / HDF5 (oracle only).
-/
import OFV.Proofs.C20
import OFV.Proofs.C20Files
import OFV.Proofs.C20Coef
import OFV.Proofs.C20Coef2
import OFV.Proofs.C20Coef3
import OFV.Proofs.C20Mol
import OFV.Proofs.C20Canon
import Mathlib.Tactic.NormNum

namespace OFV.C20
open OFV.Model OFV.Model.C20

/-- `int(str(n)) = n`: indices with any number of digits survive printing and parsing -/
theorem index_roundtrip (n : Nat) : parseNat (natStr n) = n := parseNat_natStr n

/-- `_parse_string` inverts the term printer for every term with actions of the class
(`^` / nothing for ladder operators, `X Y Z`, `q p`; action before or after the index) -/
theorem parse_string_print_term (cls : Cls) (t : Term) (h : ValidTerm cls t) :
    parseString cls (printTerm cls t) = some t := parseString_printTerm h

/-- **parse_print_roundtrip.**  For every dictionary `A` of one of the classes whose keys are
distinct, valid and in the canonical form `_simplify` produces, and whose non-negligible
coefficients are printed as texts the coefficient parser reads back: if `A` has at least one
non-negligible term, the string constructor applied to `str(A)` returns exactly the non-negligible
terms of `A` with their coefficients (negative, complex, multi-digit indices, … included). -/
theorem parse_print_roundtrip (cls : Cls) (tol : Rat) (nt : NumTables) (A : List Entry)
    (h : RoundTripOK cls tol nt A) (hne : printedEntries cls tol A ≠ []) :
    initFromString cls nt (printOp cls tol A) = some (entryOp (printedEntries cls tol A)) :=
  initFromString_printOp h hne

/-- **canonical_form_discharged.**  The canonical-form hypothesis `simplify cls key = (1, key)` of the round-trip
theorems holds for every key an operator of the four savable classes can store: stored keys are outputs of `_simplify`
(C01) and `_simplify` maps its own outputs to themselves with coefficient factor 1 (fermions: identity; bosons / quad:
the stable sort fixes sorted terms; qubits: the merge loop fixes strictly increasing terms without identity factors). -/
theorem canonical_form_discharged (cls : Cls) (hs : Savable cls) (t : Term) :
    simplify cls (simplify cls t).2 = (1, (simplify cls t).2) :=
  simplify_idem cls hs t

/-- for boson / quad keys the canonical-form hypothesis is exactly "indices non-decreasing" -/
theorem canonical_ladder_iff (cls : Cls) (hc : cls = .boson ∨ cls = .quad) (t : Term) :
    simplify cls t = (1, t) ↔ t.Pairwise (fun a b => a.1 ≤ b.1) :=
  canonical_iff_ladder cls hc t

/-- **parse_print_roundtrip for stored dictionaries**: `RoundTripOK` without the canonical-form hypothesis, for
dictionaries whose keys are `_simplify` outputs (what the operator classes store) -/
theorem roundtrip_ok_of_simplified (cls : Cls) (hs : Savable cls) (tol : Rat) (nt : NumTables) (A : List Entry)
    (hvalid : ∀ e ∈ A, ValidTerm cls e.1) (hkeys : ∀ e ∈ A, ∃ t, e.1 = (simplify cls t).2)
    (hnodup : (A.map (·.1)).Nodup) (hcoef : ∀ e ∈ A, GQ.isSmall tol e.2.1 = false → CoefOK nt e.2.2 e.2.1) :
    RoundTripOK cls tol nt A where
  valid := hvalid
  canonical := by
    intro e he
    obtain ⟨t, ht⟩ := hkeys e he
    rw [ht]; exact simplify_idem cls hs t
  nodup := hnodup
  coef := hcoef

/-- the printed entries are exactly the non-negligible entries of `A` -/
theorem printed_entries_spec (cls : Cls) (tol : Rat) (A : List Entry) (e : Entry) :
    e ∈ printedEntries cls tol A ↔ e ∈ A ∧ GQ.isSmall tol e.2.1 = false := mem_printedEntries

/-- **print_zero_counterexample.**  The premise "at least one non-negligible term" of
`parse_print_roundtrip` is necessary for the *string constructor*: the zero operator prints as `0`,
which the constructor reads as the ladder operator `a_0` (fermions, bosons) and rejects for qubit
operators; an operator with only negligible coefficients prints as the empty string, read as the
identity.  (`load_operator` special-cases both texts, see `text_file_roundtrip`.) -/
theorem print_zero_counterexample (tol : Rat) (nt : NumTables) :
    printOp .fermion tol [] = ['0'] ∧
    initFromString .fermion nt ['0'] = some [([(0, 0)], 1 * 1)] ∧
    initFromString .qubit nt ['0'] = none ∧
    initFromString .fermion nt [] = some [([], 1 * 1)] := by
  refine ⟨rfl, rfl, rfl, rfl⟩

/-- **text_file_roundtrip.**  What `save_operator(plain_text=True)` writes is read back by
`load_operator(plain_text=True)` as the non-negligible part of the operator, for every operator of
the four savable classes — the zero operator and operators with only negligible coefficients
included (they load as the zero operator). -/
theorem text_file_roundtrip (cls : Cls) (tol : Rat) (nt : NumTables) (A : List Entry)
    (hs : Savable cls) (h : RoundTripOK cls tol nt A) :
    loadContent tol nt (savedContent tol cls A true) true = .ok (cls, entryOp (printedEntries cls tol A)) := by
  simpa [savedContent] using loadContent_text hs h

/-- **binary_file_roundtrip** (marshal format; `marshal` is a contract) -/
theorem binary_file_roundtrip (cls : Cls) (tol : Rat) (nt : NumTables) (A : List Entry)
    (hs : Savable cls) (hcanon : ∀ e ∈ A, simplify cls e.1 = (1, e.1)) (hnodup : (A.map (·.1)).Nodup) :
    loadContent tol nt (savedContent tol cls A false) false = .ok (cls, entryOp (keptEntries tol A)) := by
  simpa [savedContent] using loadContent_binary (nt := nt) hs hcanon hnodup

/-- the plain-text and the binary format return the same dictionary (same terms, same coefficients) -/
theorem formats_agree (cls : Cls) (tol : Rat) (A : List Entry) :
    (normOp tol cls A true).Perm (normOp tol cls A false) := by
  simpa [normOp] using printed_perm_kept cls tol A

/-- `"name"` and `"name.data"` denote the same file -/
theorem file_name_alias (n d : Str) (hn : n ≠ []) (h : n.drop (n.length - 5) ≠ ['.', 'd', 'a', 't', 'a']) :
    getFilePath (n ++ ['.', 'd', 'a', 't', 'a']) d = getFilePath n d :=
  getFilePath_alias n d hn h

/-- **repeated cycles change nothing**: saving (in either format, with whatever texts Python prints
for the coefficients now) what a load returned and loading it again gives the same dictionary -/
theorem second_cycle (cls : Cls) (tol : Rat) (A A' : List Entry) (plain plain' : Bool)
    (h : entryOp A' = normOp tol cls A plain) :
    (normOp tol cls A' plain').Perm (normOp tol cls A plain) := by
  have hB : ∃ B : List Entry, normOp tol cls A plain = entryOp B ∧ ∀ e ∈ B, GQ.isSmall tol e.2.1 = false := by
    cases plain
    · exact ⟨keptEntries tol A, by simp [normOp], fun e he => by
        have := (List.mem_filter.1 he).2; simpa using this⟩
    · exact ⟨printedEntries cls tol A, by simp [normOp], fun e he => (mem_printedEntries.1 he).2⟩
  obtain ⟨B, hBeq, hBs⟩ := hB
  have hk : keptEntries tol A' = A' := keptEntries_self_of_entryOp (h.trans hBeq) hBs
  have h1 : (normOp tol cls A' plain').Perm (entryOp (keptEntries tol A')) := by
    cases plain'
    · simp [normOp]
    · simpa [normOp] using printed_perm_kept cls tol A'
  rw [hk, h] at h1
  exact h1


/-- the regular expression `(.*?)\[(.*?)\]` (leftmost match, both groups as short as possible): a text
that starts with a `[`-free part `p`, then `[`, a `]`-free part `b`, then `]`, yields the match
`(p, b)` followed by the matches of the rest -/
theorem regex_match_step (p b rest : Str) (hp : ∀ c ∈ p, c ≠ '[') (hb : ∀ c ∈ b, c ≠ ']') :
    findTerms (p ++ '[' :: (b ++ ']' :: rest)) = (p, b) :: findTerms rest :=
  findTermsAux_match p b rest hp hb

/-- `float(str(z)) = z` in the Model of Python's `float` on integer literals -/
theorem float_int_model_roundtrip (z : Int) : floatIntModel (intStr z) = some (intGQ z) := floatIntModel_intStr z

/-- **coef_contract_int.**  For integer coefficients the contract `CoefOK` of `parse_print_roundtrip` /
`text_file_roundtrip` is discharged up to ONE fact about the supplied `float` table: every syntactic requirement (no
white space / bracket / colon / leading `+`, not empty, not `-`, no `j`, hence handed to `float` unchanged) is proved for
the text `str(z)`; what remains is that the table agrees with the exact integer model on the integer literals it contains
(checked by the harness on the real `float`) -/
theorem coef_contract_int (nt : NumTables) (z : Int) (hmem : ∃ w, (intStr z, w) ∈ nt.pyFloat)
    (hagree : ∀ e ∈ nt.pyFloat, ∀ v, floatIntModel e.1 = some v → e.2 = v) :
    CoefOK nt (intStr z) (intGQ z) :=
  coefOK_int_of_model nt z hmem hagree

/-- **coef_contract_imag_int.**  For purely imaginary integer coefficients (printed as `2j`, `-13j`) the contract `CoefOK`
is discharged up to ONE table entry: every syntactic requirement is proved for the text `str(z) + 'j'`, the parser's sign
handling (`-` stripped before `complex()`, result negated) is proved to give `z i`; what remains is
`complex(str(|z|) + 'j') = |z| i` for the supplied table (checked on the real `complex` by the correspondence run) -/
theorem coef_contract_imag_int (nt : NumTables) (z : Int)
    (h : lookup nt.pyComplex (natStr z.natAbs ++ ['j']) = some (imagGQ z.natAbs)) :
    CoefOK nt (imagStr z) (imagGQ z) :=
  coefOK_imag_int nt z h

/-- **coef_contract_gauss_int.**  For Gaussian-integer coefficients printed as `(a+bj)` / `(a-bj)` the contract `CoefOK` is
discharged up to ONE table entry: the text has no white space, square bracket, colon or leading `+`, and the parser is proved
to hand exactly this text to `complex()` without negation; what remains is `complex("(a+bj)") = a + b i` for the supplied
table (checked on the real `complex` by the correspondence run) -/
theorem coef_contract_gauss_int (nt : NumTables) (a b : Int)
    (h : lookup nt.pyComplex (gaussStr a b) = some (gaussGQ a b)) :
    CoefOK nt (gaussStr a b) (gaussGQ a b) :=
  coefOK_gauss_int nt a b h

example : gaussStr 3 (-12) = ['(', '3', '-', '1', '2', 'j', ')'] := by
  simp [gaussStr, intStr, natStr, toDigitsRev, digitChar]

/-- **parse_print_roundtrip_int: the round trip for integer-coefficient operators with NO coefficient contract and NO
canonical-form hypothesis.**  For every dictionary of a savable class whose keys are `_simplify` outputs with valid actions
and whose coefficients are integers printed by `str`: if the supplied `float` table contains the printed texts and agrees
with the exact integer model (the one fact the run checks on the real `float`), the string constructor applied to
`str(A)` returns exactly the non-negligible terms of `A` -/
theorem parse_print_roundtrip_int (cls : Cls) (hs : Savable cls) (tol : Rat) (nt : NumTables) (A : List Entry)
    (hvalid : ∀ e ∈ A, ValidTerm cls e.1) (hkeys : ∀ e ∈ A, ∃ t, e.1 = (simplify cls t).2)
    (hnodup : (A.map (·.1)).Nodup)
    (hint : ∀ e ∈ A, ∃ z : Int, e.2.2 = intStr z ∧ e.2.1 = intGQ z)
    (hmem : ∀ e ∈ A, ∃ w, (e.2.2, w) ∈ nt.pyFloat)
    (hagree : ∀ e ∈ nt.pyFloat, ∀ v, floatIntModel e.1 = some v → e.2 = v)
    (hne : printedEntries cls tol A ≠ []) :
    initFromString cls nt (printOp cls tol A) = some (entryOp (printedEntries cls tol A)) := by
  apply parse_print_roundtrip cls tol nt A _ hne
  apply roundtrip_ok_of_simplified cls hs tol nt A hvalid hkeys hnodup
  intro e he _
  obtain ⟨z, htxt, hval⟩ := hint e he
  obtain ⟨w, hw⟩ := hmem e he
  rw [htxt, hval]
  exact coef_contract_int nt z ⟨w, htxt ▸ hw⟩ hagree

/-- **molecular_data_attribute_table** (`MolecularData.save` / `load` conventions `None ↦ False ↦ None`, `int(...)`,
`float(...)`; h5py itself is a contract): `None`, every number (zero included) and every array survive
`decode ∘ encode`; only a boolean-valued attribute collides with the sentinel -/
theorem molecular_data_attribute_table (v : AttrVal) (h : ∀ b, v ≠ .bool b) :
    decodeAttr 0 (encodeAttr v) = v ∧ decodeAttr 1 (encodeAttr (.int 0)) = .int 0 ∧
      decodeAttr 2 (encodeAttr (.real 0)) = .real 0 ∧ (∀ k, decodeAttr k (encodeAttr .none) = .none) ∧
      (∀ b k, decodeAttr k (encodeAttr (.bool b)) = .none) :=
  ⟨attr_roundtrip_keep v h, rfl, rfl, fun _ => rfl, fun _ _ => rfl⟩

/-- **overwrite_guard.**  `save_operator` without `allow_overwrite` on an existing file raises and
(returning an error) leaves the file system as it was. -/
theorem overwrite_guard (tol : Rat) (fs : FS) (cls : Cls) (A : List Entry) (name dir path : Str) (plain : Bool)
    (c : FileContent) (hp : getFilePath name dir = .ok path) (hex : fsGet fs path = some c) :
    save tol fs cls A name dir false plain = .error .fileExists := by
  rw [save_eq hp, hex]; rfl

/-- a successful save does not change what any *other* path holds -/
theorem save_frame (tol : Rat) (fs fs' : FS) (cls : Cls) (A : List Entry) (name dir path q : Str) (ow plain : Bool)
    (hp : getFilePath name dir = .ok path) (hs : save tol fs cls A name dir ow plain = .ok fs') (hq : q ≠ path) :
    fsGet fs' q = fsGet fs q := by
  rw [save_eq hp] at hs
  split at hs
  · cases hs
  · cases hs
    exact dict_get?_set_ne _ _ _ _ hq

/-- **file_history_refinement.**  Every history of `save_operator` / `load_operator` calls (operators
of the savable classes satisfying `RoundTripOK`; any names, formats and overwrite flags), started in
an empty directory, has the same observable results as the abstract map `path ↦ (format, operator)`:
`load` returns the value last saved under the (normalised) name, a save that is refused changes
nothing, repeated save / load cycles are idempotent, a wrong format is reported as such. -/
theorem file_history_refinement (tol : Rat) (nt : NumTables) (cmds : List Cmd)
    (hadm : ∀ c ∈ cmds, Admissible tol nt c) :
    runC tol nt [] cmds = runA tol [] cmds :=
  run_refines cmds [] [] (represents_empty tol nt) hadm

/-! non-vacuity -/
example : printTerm .qubit [(0, 1), (12, 3)] = ['X', '0', ' ', 'Z', '1', '2'] := by
  simp [printTerm, printFactor, actionBeforeIndex, actionStr, natStr, toDigitsRev, digitChar]
example : parseString .fermion "2^ 13".toList = some [(2, 1), (13, 0)] := by decide
example : findTerms "1.5 [2^ 3] +\n-2j [0]".toList = [("1.5 ".toList, "2^ 3".toList), (" +\n-2j ".toList, "0".toList)] := by
  decide
example : ValidTerm .qubit [(0, 1), (12, 3)] := by intro f hf; simp at hf; rcases hf with rfl | rfl <;> rfl
example : Savable .quad := by intro h; cases h
example : getFilePath "a".toList "d".toList = getFilePath "a.data".toList "d".toList := by decide

/-- a concrete instance of all hypotheses of `parse_print_roundtrip` (fermions, a float and a
negative imaginary coefficient, a two-digit index) -/
example : RoundTripOK .fermion (1 / 100000000) exNt exA where
  valid := by
    intro e he f hf
    simp [exA] at he
    rcases he with rfl | rfl <;> simp at hf
    · rcases hf with rfl | rfl <;> rfl
    · subst hf; rfl
  canonical := by intro e he; rfl
  nodup := by decide
  coef := by
    intro e he _
    simp [exA] at he
    rcases he with rfl | rfl
    · exact ⟨by decide, by decide, by decide, by decide, rfl⟩
    · exact ⟨by decide, by decide, by decide, by decide, rfl⟩

example : printedEntries .fermion (1 / 100000000) exA ≠ [] := by
  have h : ([(0, 0)], -(⟨0, 2⟩ : GQ), ['-', '2', 'j']) ∈ printedEntries .fermion (1 / 100000000) exA := by
    rw [mem_printedEntries]
    refine ⟨by simp [exA], ?_⟩
    simp [GQ.isSmall, GQ.normSq]
    norm_num
  intro h0; rw [h0] at h; simp at h

end OFV.C20
