/-
C20 — property theorems (text and file round trips).
-/
import OFV.Model.C20
import OFV.Model.C20Files

namespace OFV.C20

end OFV.C20
