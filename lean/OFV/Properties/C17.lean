/-
C17 — property theorems for the list / index logic of the chemistry reductions.
NOT proved (OPEN_STATEMENTS in harness/c17.py; oracle-checked): active-space sector matrix elements, the spin-orbital form of the
chemist bridge, N-representability of inputs.
-/
import OFV.Model.C17
import OFV.Spec.C17
import OFV.Proofs.C17
import OFV.Proofs.C17Rdm
import OFV.Proofs.C17Car
import OFV.Proofs.C17Hole
import OFV.Proofs.C17Sum
import OFV.Proofs.C17Bridge
import OFV.Proofs.C17LowRank
import Mathlib.Data.Matrix.Mul
import Mathlib.LinearAlgebra.Matrix.Notation

namespace OFV.C17
open OFV OFV.Model.C17 OFV.Spec.C17

/-! ## truncation of `low_rank_two_body_decomposition` -/

/-- for every non-empty weight list and EVERY rank `0 ≤ L ≤ full_rank` the reported truncation value is exactly
the weight of the discarded terms `Σ_{l ≥ L} w_l` (rank `0`: nothing is kept, the whole weight is reported — the
behaviour since the repair 438e3030; before it the value was `0`) -/
theorem truncation_value_is_discarded_weight (ws : List Rat) (L : Nat) (hne : ws ≠ []) (h2 : L ≤ ws.length) :
    truncationValue ws L = some (discarded ws L) := by
  unfold truncationValue discarded
  by_cases h0 : L = 0
  · subst h0
    simp only [if_true, List.drop_zero]
    exact cumsum_getLast ws hne
  · simp only [h0, if_false]
    have h := truncationErrors_get ws (L - 1) (by omega)
    have e : L - 1 + 1 = L := by omega
    rw [e] at h
    exact h

/-- threshold mode (`final_rank=None`), any non-empty weight list, any threshold `≥ 0`:
`max_rank = 1 + argmax(truncation_errors <= threshold)` is a valid rank, the reported value is the discarded
weight, it does not exceed the threshold, and no smaller rank `≥ 1` would do (the rank is minimal) -/
theorem threshold_rank_is_minimal (ws : List Rat) (thr : Rat) (hne : ws ≠ []) (hthr : 0 ≤ thr) :
    1 ≤ maxRank ws thr none ∧ maxRank ws thr none ≤ ws.length ∧
    truncationValue ws (maxRank ws thr none) = some (discarded ws (maxRank ws thr none)) ∧
    discarded ws (maxRank ws thr none) ≤ thr ∧
    ∀ L', 1 ≤ L' → L' < maxRank ws thr none → thr < discarded ws L' := by
  have hlen : 0 < ws.length := List.length_pos_iff.mpr hne
  let bs := (truncationErrors ws).map fun e => decide (e ≤ thr)
  have hbl : bs.length = ws.length := by simp [bs, truncationErrors_length]
  -- the last error is 0 ≤ thr, so some entry is true
  have hany : bs.any id = true := by
    rw [List.any_eq_true]
    refine ⟨true, ?_, rfl⟩
    have hlast := truncationErrors_get ws (ws.length - 1) (by omega)
    have e : ws.length - 1 + 1 = ws.length := by omega
    rw [e, List.drop_length] at hlast
    have : bs[ws.length - 1]? = some true := by
      simp only [bs, List.getElem?_map, hlast, Option.map_some]
      simp [hthr]
    exact List.mem_of_getElem? this
  obtain ⟨hfirst, hbefore⟩ := argmaxTrue_spec bs hany
  have hi : argmaxTrue bs < ws.length := by
    rw [← hbl]
    by_contra hcon
    rw [List.getElem?_eq_none (by omega)] at hfirst
    cases hfirst
  have hL : maxRank ws thr none = 1 + argmaxTrue bs := rfl
  have herr := truncationErrors_get ws (argmaxTrue bs) hi
  have hle : (ws.drop (argmaxTrue bs + 1)).sum ≤ thr := by
    have : bs[argmaxTrue bs]? = some (decide ((ws.drop (argmaxTrue bs + 1)).sum ≤ thr)) := by
      simp only [bs, List.getElem?_map, herr, Option.map_some]
    rw [this] at hfirst
    simpa using hfirst
  refine ⟨by omega, by omega, truncation_value_is_discarded_weight ws _ hne (by omega), ?_, ?_⟩
  · unfold discarded; rw [hL, Nat.add_comm]; exact hle
  · intro L' h1 h2
    have hj : L' - 1 < argmaxTrue bs := by omega
    have hjl : L' - 1 < ws.length := by omega
    have hb := hbefore (L' - 1) hj
    have herr' := truncationErrors_get ws (L' - 1) hjl
    have e : L' - 1 + 1 = L' := by omega
    rw [e] at herr'
    have : bs[L' - 1]? = some (decide ((ws.drop L').sum ≤ thr)) := by
      simp only [bs, List.getElem?_map, herr', Option.map_some]
    rw [this] at hb
    unfold discarded
    have : ¬ (ws.drop L').sum ≤ thr := by simpa using hb
    exact lt_of_not_ge this

example : maxRank [4, 2, 1] (5/2) none = 2 ∧ truncationValue [4, 2, 1] 2 = some 1 ∧
    minimalRank [4, 2, 1] (5/2) 2 = true := by decide +kernel

/-- `final_rank = 0`: no term is kept and the reported value is the total weight `Σ w_l` -/
theorem final_rank_zero_reports_total_weight (ws : List Rat) (hne : ws ≠ []) :
    maxRank ws 0 (some 0) = 0 ∧ truncationValue ws 0 = some ws.sum ∧ discarded ws 0 = ws.sum := by
  refine ⟨rfl, ?_, by simp [discarded]⟩
  rw [truncation_value_is_discarded_weight ws 0 hne (Nat.zero_le _)]
  simp [discarded]

example : truncationValue [4, 2, 1] 0 = some 7 ∧ truncationValue [4, 2, 1] 3 = some 0 := by decide +kernel

/-! ## `spinorb_from_spatial` / `get_tensors_from_integrals` : which blocks are filled -/

/-- the four assignments of the loop body: spin orbital `(2p+σ, 2q+τ, 2r+τ, 2s+σ)` receives the spatial
integral `[p,q,r,s]` (times the scale, truncated below the tolerance), for all spins `σ, τ` -/
theorem spinorb_two_body_filled (tol scale : Rat) (two : Nat → Nat → Nat → Nat → Rat) (p q r s σ τ : Nat)
    (hσ : σ < 2) (hτ : τ < 2) :
    spinTwo tol scale two (2 * p + σ) (2 * q + τ) (2 * r + τ) (2 * s + σ) = chop tol (two p q r s * scale) := by
  unfold spinTwo
  have h1 : (2 * p + σ) % 2 = (2 * s + σ) % 2 := by omega
  have h2 : (2 * q + τ) % 2 = (2 * r + τ) % 2 := by omega
  have e1 : (2 * p + σ) / 2 = p := by omega
  have e2 : (2 * q + τ) / 2 = q := by omega
  have e3 : (2 * r + τ) / 2 = r := by omega
  have e4 : (2 * s + σ) / 2 = s := by omega
  simp [h1, h2, e1, e2, e3, e4]

/-- every other entry is zero, and a filled entry determines `(p, q, r, s, σ, τ)` uniquely: the
spin-orbital tensor is exactly `Σ_{στ} T_pqrs` on the pattern `σ_P = σ_S`, `σ_Q = σ_R` -/
theorem spinorb_two_body_pattern (tol scale : Rat) (two : Nat → Nat → Nat → Nat → Rat) (P Q R S : Nat) :
    (¬ (P % 2 = S % 2 ∧ Q % 2 = R % 2) → spinTwo tol scale two P Q R S = 0) ∧
    ((P % 2 = S % 2 ∧ Q % 2 = R % 2) →
      P = 2 * (P / 2) + P % 2 ∧ Q = 2 * (Q / 2) + Q % 2 ∧ R = 2 * (R / 2) + Q % 2 ∧ S = 2 * (S / 2) + P % 2 ∧
      ∀ p q r s σ τ, σ < 2 → τ < 2 → P = 2 * p + σ → Q = 2 * q + τ → R = 2 * r + τ → S = 2 * s + σ →
        p = P / 2 ∧ q = Q / 2 ∧ r = R / 2 ∧ s = S / 2 ∧ σ = P % 2 ∧ τ = Q % 2) := by
  constructor
  · intro h
    unfold spinTwo chop
    simp [h]
  · intro h
    refine ⟨by omega, by omega, by omega, by omega, ?_⟩
    intro p q r s σ τ hσ hτ hP hQ hR hS
    omega

theorem spinorb_one_body (tol : Rat) (one : Nat → Nat → Rat) (p q σ τ : Nat) (hσ : σ < 2) (hτ : τ < 2) :
    spinOne tol one (2 * p + σ) (2 * q + τ) = if σ = τ then chop tol (one p q) else 0 := by
  unfold spinOne
  have e1 : (2 * p + σ) / 2 = p := by omega
  have e2 : (2 * q + τ) / 2 = q := by omega
  have e3 : (2 * p + σ) % 2 = σ := by omega
  have e4 : (2 * q + τ) % 2 = τ := by omega
  rw [e1, e2, e3, e4]
  by_cases h : σ = τ
  · simp [h]
  · simp [h, chop]

/-! ## `get_active_space_integrals` -/

/-- no core orbitals: no constant, integrals unchanged (the reduction is a pure restriction) -/
theorem active_space_no_core (one : Nat → Nat → Rat) (two : Nat → Nat → Nat → Nat → Rat) (act : List Nat) (u v : Nat) :
    coreConstant one two [] = 0 ∧ oneNew one two [] act u v = one u v := by
  constructor
  · simp [coreConstant]
  · simp [oneNew]

/-- one doubly occupied core orbital `i`: constant `2 h_ii + (ii|ii)`-type term `2 T_iiii - T_iiii`, and each
active pair visited once gets `2 T_iuvi - T_iuiv` (direct minus exchange) -/
theorem active_space_single_core (one : Nat → Nat → Rat) (two : Nat → Nat → Nat → Nat → Rat) (i : Nat)
    (act : List Nat) (u v : Nat) (hu : act.count u = 1) (hv : act.count v = 1) :
    coreConstant one two [i] = 2 * one i i + (2 * two i i i i - two i i i i) ∧
    oneNew one two [i] act u v = one u v + (2 * two i u v i - two i u i v) := by
  constructor
  · simp [coreConstant]
  · simp [oneNew, visits, hu, hv]

/-! ## `get_chemist_two_body_coefficients` -/

/-- with `spin_basis` the chemist tensor is the block `[α, α, β, β]` of the transposed tensor, i.e.
`g[p,q,r,s] = h[2p, 2r+1, 2s+1, 2q]`; the one-body correction is spin diagonal and equals
`-Σ_q g[p,q,q,s]` on both spin blocks -/
theorem chemist_entries (h : Nat → Nat → Nat → Nat → Rat) (n p q r s σ τ : Nat) (hσ : σ < 2) (hτ : τ < 2) :
    chemEntry h true p q r s = h (2 * p) (2 * r + 1) (2 * s + 1) (2 * q) ∧
    chemEntry h false p q r s = h p r s q ∧
    corrEntry h true n (2 * p + σ) (2 * s + τ) =
      if σ = τ then -(sumRange n fun q => chemEntry h true p q q s) else 0 := by
  refine ⟨rfl, rfl, ?_⟩
  unfold corrEntry
  have e1 : (2 * p + σ) / 2 = p := by omega
  have e2 : (2 * s + τ) / 2 = s := by omega
  have e3 : (2 * p + σ) % 2 = σ := by omega
  have e4 : (2 * s + τ) % 2 = τ := by omega
  rw [e1, e2, e3, e4]

/-! ## RDM mapping functions -/

/-- `map_two_pdm_to_particle_hole_dm` and `map_particle_hole_dm_to_two_pdm` are mutually inverse,
for all tensors (both directions) -/
theorem particle_hole_maps_inverse (t : C4) (opdm : C2) (p q r s : Nat) :
    phToTwoPdm (twoPdmToPh t opdm) opdm p q r s = t p q r s ∧
    twoPdmToPh (phToTwoPdm t opdm) opdm p q r s = t p q r s :=
  ⟨ph_roundtrip t opdm p q r s, ph_roundtrip' t opdm p q r s⟩

/-- `map_two_hole_dm_to_two_pdm ∘ map_two_pdm_to_two_hole_dm` is the identity on every tensor with the
pair-exchange symmetry `tpdm[q,p,s,r] = tpdm[p,q,r,s]` (which every 2-RDM has: `a†_p a†_q a_r a_s =
a†_q a†_p a_s a_r`) -/
theorem two_hole_maps_inverse (tpdm : C4) (opdm : C2) (hsym : ∀ p q r s, tpdm q p s r = tpdm p q r s)
    (p q r s : Nat) : twoHoleToTwoPdm (twoPdmToTwoHole tpdm opdm) opdm p q r s = tpdm p q r s := by
  rw [two_hole_roundtrip_raw, hsym]

example : ∀ p q r s, (fun (_ _ _ _ : Nat) => (0 : GQ)) q p s r = (fun (_ _ _ _ : Nat) => (0 : GQ)) p q r s :=
  fun _ _ _ _ => rfl

/-- `map_one_pdm_to_one_hole_dm` and `map_one_hole_dm_to_one_pdm` (both `eye - m.T` since the repair e512c44c) are
mutually inverse, for all matrices (complex, non-symmetric included) -/
theorem one_hole_maps_inverse (m : C2) (p q : Nat) : oneMinus (oneMinus m) p q = m p q :=
  oneMinus_involution m p q

/-- the one-hole map is the transposed complement: `oqdm[p,q] = δ_pq − opdm[q,p]` (`⟨a_p a†_q⟩ = δ_pq − ⟨a†_q a_p⟩`) -/
theorem one_hole_map_transposed (m : C2) (p q : Nat) : oneMinus m p q = delta p q - m q p := rfl

/-- **The two routes to the 1-hole-RDM agree**, for every 1-RDM / 2-RDM pair that satisfies the trace condition
`tr D = N` and the contraction condition `Σ_r tpdm[p,r,r,q] = (N − 1) D[p,q]` of an `N`-particle state — complex,
non-symmetric `D` included: contracting `map_two_pdm_to_two_hole_dm(tpdm, D)` over its inner indices and dividing by
`holes − 1 = n − N − 1` (`map_two_hole_dm_to_one_hole_dm`) gives `map_one_pdm_to_one_hole_dm(D) = eye − D.T`.
(With the untransposed `eye − D` of the code before the repair this fails whenever `D` is not symmetric.) -/
theorem one_hole_agrees_with_two_hole_contraction (n : Nat) (N : Rat) (tpdm : C4) (opdm : C2)
    (htr : gsumRange n (fun r => opdm r r) = ⟨N, 0⟩)
    (hc : ∀ p q, p < n → q < n → gsumRange n (fun r => tpdm p r r q) = GQ.smul (N - 1) (opdm p q))
    (hd : (n : Rat) - N - 1 ≠ 0) (p q : Nat) (hp : p < n) (hq : q < n) :
    contract n (twoPdmToTwoHole tpdm opdm) ((n : Rat) - N - 1) p q = oneMinus opdm p q := by
  unfold contract
  rw [two_hole_contraction n N tpdm opdm htr hc p q hp hq]
  refine GQ.ext ?_ ?_ <;> simp [GQ.smul] <;> field_simp

-- non-vacuity: the 1-RDM of (|100⟩ + i|010⟩)/√2 on three modes (N = 1, complex, NOT symmetric; its 2-RDM is 0)
example :
    let D : C2 := fun p q => if p = 0 ∧ q = 1 then ⟨0, 1/2⟩ else if p = 1 ∧ q = 0 then ⟨0, -1/2⟩ else
      if p = q ∧ p < 2 then ⟨1/2, 0⟩ else 0
    gsumRange 3 (fun r => D r r) = ⟨1, 0⟩ ∧ D 0 1 ≠ D 1 0 ∧
    (∀ p q, p < 3 → q < 3 → gsumRange 3 (fun r => (fun _ _ _ _ => (0 : GQ)) p r r q) = GQ.smul ((1 : Rat) - 1) (D p q)) ∧
    contract 3 (twoPdmToTwoHole (fun _ _ _ _ => 0) D) ((3 : Rat) - 1 - 1) 0 1 = ⟨0, 1/2⟩ ∧ oneMinus D 0 1 = ⟨0, 1/2⟩ := by
  refine ⟨by decide +kernel, by decide +kernel, ?_, by decide +kernel, by decide +kernel⟩
  intro p q hp hq
  have h1 : p = 0 ∨ p = 1 ∨ p = 2 := by omega
  have h2 : q = 0 ∨ q = 1 ∨ q = 2 := by omega
  rcases h1 with rfl | rfl | rfl <;> rcases h2 with rfl | rfl | rfl <;> decide +kernel

/-! ## The operator identities behind the formulas (any ring, any representation of the CAR)

The coefficient formulas of the Model (`chemEntry` / `corrEntry`, `twoPdmToPh`, `twoPdmToTwoHole`, `contract`) are
the term-by-term images of the following identities between ladder operators, valid in every ring containing
elements `a†_i = ad i`, `a_i = a i` (`i < n`) that satisfy the canonical anticommutation relations — in particular
for the Jordan–Wigner matrices and for the Fock representation of the Spec.  Taking expectation values `⟨ψ|·|ψ⟩`
(linear) turns them into the RDM maps; summing them with the coefficients `h_pqrs` gives the chemist reordering.
The summation / expectation step itself is checked by the oracles, not formalised. -/

open OFV.Car in
/-- chemist reordering, term level: `a†_p a†_q a_r a_s = a†_p a_s a†_q a_r − δ_qs a†_p a_r`
(hence `g[p,s,q,r] = h[p,q,r,s]`, i.e. `transpose(h, [0,3,1,2])`, and the one-body correction `−Σ_q g[p,q,q,r]`) -/
theorem chemist_reorder_term {R : Type} [Ring R] (n : Nat) (ad a : Nat → R) (h : CAR n ad a)
    (p q r s : Nat) (hp : p < n) (hq : q < n) (hr : r < n) (hs : s < n) :
    ad p * ad q * a r * a s = ad p * a s * ad q * a r - dl q s * (ad p * a r) :=
  chemist_reorder h p q r s hp hq hr hs

open OFV.Car in
/-- `map_two_pdm_to_particle_hole_dm`, term level: `a†_p a_r a†_q a_s = δ_qr a†_p a_s − a†_p a†_q a_r a_s` -/
theorem particle_hole_term {R : Type} [Ring R] (n : Nat) (ad a : Nat → R) (h : CAR n ad a)
    (p q r s : Nat) (hq : q < n) (hr : r < n) :
    ad p * a r * ad q * a s = dl q r * (ad p * a s) - ad p * ad q * a r * a s :=
  particle_hole h p q r s hq hr

open OFV.Car in
/-- `map_two_pdm_to_two_hole_dm`, term level, with exactly the three correction terms of the code:
`a_s a_r a†_q a†_p = a†_p a†_q a_r a_s − (δ_qr a†_p a_s + δ_ps a†_q a_r) + (δ_pr a†_q a_s + δ_qs a†_p a_r)
 − (δ_qs δ_pr − δ_ps δ_qr)` -/
theorem two_hole_term {R : Type} [Ring R] (n : Nat) (ad a : Nat → R) (h : CAR n ad a)
    (p q r s : Nat) (hp : p < n) (hq : q < n) (hr : r < n) (hs : s < n) :
    a s * a r * ad q * ad p =
      ad p * ad q * a r * a s - (dl q r * (ad p * a s) + dl p s * (ad q * a r))
        + (dl p r * (ad q * a s) + dl q s * (ad p * a r)) - (dl q s * dl p r - dl p s * dl q r) :=
  two_hole h p q r s hp hq hr hs

open OFV.Car in
/-- `map_two_pdm_to_one_pdm`, term level: `a†_p a†_r a_r a_q = a†_p a_q (a†_r a_r) − δ_rq a†_p a_r`; summed over `r`
this is `a†_p a_q (N̂ − 1)`, which on an `N`-particle state is `(N − 1) a†_p a_q` — the divisor of the code -/
theorem contraction_identity_term {R : Type} [Ring R] (n : Nat) (ad a : Nat → R) (h : CAR n ad a)
    (p q r : Nat) (hq : q < n) (hr : r < n) :
    ad p * ad r * a r * a q = ad p * a q * (ad r * a r) - dl r q * (ad p * a r) :=
  contraction_term h p q r hq hr

/-! ### The summation steps (algebra over a commutative ring `K`, modes `< n`) -/

open OFV.Car Finset in
/-- **operator-level chemist reordering** (what `get_chemist_two_body_coefficients` implements): for every coefficient
tensor `h`, `Σ h_pqrs a†_p a†_q a_r a_s = Σ h_pqrs a†_p a_s a†_q a_r − Σ_{pr} (Σ_q h_pqrq) a†_p a_r`; renaming the summation
indices, the first sum is `Σ g_pqrs a†_p a_q a†_r a_s` with `g[p,q,r,s] = h[p,r,s,q]` (`transpose(h, [0,3,1,2])`,
`chemist_entries`) and the one-body correction is `−Σ_q g[p,q,q,r]` -/
theorem chemist_reorder_identity {K R : Type} [CommRing K] [Ring R] [Algebra K R] (n : Nat) (ad a : Nat → R)
    (hc : CAR n ad a) (h : Nat → Nat → Nat → Nat → K) :
    ∑ p ∈ range n, ∑ q ∈ range n, ∑ r ∈ range n, ∑ s ∈ range n, h p q r s • (ad p * ad q * a r * a s) =
      (∑ p ∈ range n, ∑ q ∈ range n, ∑ r ∈ range n, ∑ s ∈ range n, h p q r s • (ad p * a s * ad q * a r))
      - ∑ p ∈ range n, ∑ r ∈ range n, (∑ q ∈ range n, h p q r q) • (ad p * a r) :=
  chemist_reorder_sum hc h

open OFV.Car Finset in
/-- **summed contraction** behind `map_two_pdm_to_one_pdm`: `Σ_r a†_p a†_r a_r a_q = a†_p a_q (N̂ − 1)`, and on a vector
with `N̂ v = N v` this is `(N − 1) a†_p a_q v` -/
theorem contraction_identity_summed {R V : Type} [Ring R] [AddCommGroup V] [Module R V] (n : Nat) (ad a : Nat → R)
    (hc : CAR n ad a) (p q : Nat) (hq : q < n) (v : V) (N : R)
    (hN : (∑ r ∈ range n, ad r * a r) • v = N • v) (hcomm : ad p * a q * N = N * (ad p * a q)) :
    (∑ r ∈ range n, ad p * ad r * a r * a q = ad p * a q * (∑ r ∈ range n, ad r * a r) - ad p * a q) ∧
    (∑ r ∈ range n, ad p * ad r * a r * a q) • v = (N - 1) • ((ad p * a q) • v) :=
  ⟨contraction_sum hc p q hq, contraction_on_sector hc p q hq v N hN hcomm⟩

open OFV.Car Finset in
/-- **`InteractionRDM.expectation` is the expectation value**: for every linear functional `φ` with `φ 1 = 1` (e.g.
`⟨ψ|·|ψ⟩` of a normalised state) and every `InteractionOperator` `H = c + Σ o1 a†a + Σ o2 a†a†aa` (any tensors, Hermitian or
not, complex constant), `φ(H) = c + Σ D_pq o1_pq + Σ Γ_pqrs o2_pqrs` with `D = φ(a†_p a_q)`, `Γ = φ(a†_p a†_q a_r a_s)` -/
theorem expectation_is_bilinear_pairing {K R : Type} [CommRing K] [Ring R] [Algebra K R] (n : Nat) (ad a : Nat → R)
    (φ : R →ₗ[K] K) (hφ : φ 1 = 1) (c : K) (o1 : Nat → Nat → K) (o2 : Nat → Nat → Nat → Nat → K) :
    φ (c • (1 : R) + (∑ p ∈ range n, ∑ q ∈ range n, o1 p q • (ad p * a q))
        + ∑ p ∈ range n, ∑ q ∈ range n, ∑ r ∈ range n, ∑ s ∈ range n, o2 p q r s • (ad p * ad q * a r * a s)) =
      c + (∑ p ∈ range n, ∑ q ∈ range n, φ (ad p * a q) * o1 p q)
        + ∑ p ∈ range n, ∑ q ∈ range n, ∑ r ∈ range n, ∑ s ∈ range n, φ (ad p * ad q * a r * a s) * o2 p q r s :=
  expectation_bilinear φ hφ c o1 o2

open OFV.Car in
/-- **`map_two_pdm_to_two_hole_dm` is correct for every state** (every linear functional `φ` with `φ 1 = 1`): with
`D_pq = φ(a†_p a_q)`, `Γ_pqrs = φ(a†_p a†_q a_r a_s)` the 2-hole-RDM entry `φ(a_s a_r a†_q a†_p)` (`tqdm[s,r,q,p]`) equals
`Γ_pqrs − term1 − term2 − term3` with exactly the three terms of the code (compare `twoPdmToTwoHole` / `term123`) -/
theorem two_hole_map_correct {K R : Type} [CommRing K] [Ring R] [Algebra K R] (n : Nat) (ad a : Nat → R) (hc : CAR n ad a)
    (φ : R →ₗ[K] K) (hφ : φ 1 = 1) (p q r s : Nat) (hp : p < n) (hq : q < n) (hr : r < n) (hs : s < n) :
    φ (a s * a r * ad q * ad p) =
      φ (ad p * ad q * a r * a s)
        - ((if q = r then φ (ad p * a s) else 0) + (if p = s then φ (ad q * a r) else 0))
        + ((if p = r then φ (ad q * a s) else 0) + (if q = s then φ (ad p * a r) else 0))
        - ((if q = s ∧ p = r then (1 : K) else 0) - (if p = s ∧ q = r then 1 else 0)) :=
  two_hole_expectation hc φ hφ p q r s hp hq hr hs

open OFV.Car in
/-- **`map_two_pdm_to_particle_hole_dm` is correct for every state**: `φ(a†_p a_r a†_q a_s) = δ_qr D_ps − Γ_pqrs`
(`phdm[p,r,q,s]`, compare `twoPdmToPh`) -/
theorem particle_hole_map_correct {K R : Type} [CommRing K] [Ring R] [Algebra K R] (n : Nat) (ad a : Nat → R)
    (hc : CAR n ad a) (φ : R →ₗ[K] K) (p q r s : Nat) (hq : q < n) (hr : r < n) :
    φ (ad p * a r * ad q * a s) = (if q = r then φ (ad p * a s) else 0) - φ (ad p * ad q * a r * a s) :=
  particle_hole_expectation hc φ p q r s hq hr

/-! ### Bridge: the Model's entry functions (what the driver executes, over the Gaussian rationals) ARE these maps

`GQ` is a commutative ring (`OFV/Proofs/GQRing.lean`), so the theorems above apply with `K = GQ`.  For ANY `GQ`-algebra `R`
with the CAR and ANY `GQ`-linear functional `φ` with `φ 1 = 1`, feed the Model functions the RDMs of `φ`
(`opdmOf φ = φ(a†_p a_q)`, `tpdmOf φ = φ(a†_p a†_q a_r a_s)`): they return the corresponding RDM / expectation value of `φ`. -/

open OFV.Car in
theorem model_two_hole_map_is_two_hole_rdm {R : Type} [Ring R] [Algebra GQ R] (n : Nat) (ad a : Nat → R) (hc : CAR n ad a)
    (φ : R →ₗ[GQ] GQ) (hφ : φ 1 = 1) (p q r s : Nat) (hp : p < n) (hq : q < n) (hr : r < n) (hs : s < n) :
    twoPdmToTwoHole (tpdmOf φ ad a) (opdmOf φ ad a) s r q p = φ (a s * a r * ad q * ad p) :=
  twoPdmToTwoHole_bridge hc φ hφ p q r s hp hq hr hs

open OFV.Car in
theorem model_particle_hole_map_is_ph_rdm {R : Type} [Ring R] [Algebra GQ R] (n : Nat) (ad a : Nat → R) (hc : CAR n ad a)
    (φ : R →ₗ[GQ] GQ) (p q r s : Nat) (hq : q < n) (hr : r < n) :
    twoPdmToPh (tpdmOf φ ad a) (opdmOf φ ad a) p r q s = φ (ad p * a r * ad q * a s) :=
  twoPdmToPh_bridge hc φ p q r s hq hr

open OFV.Car Finset in
/-- `contract n Γ (N − 1)` (`map_two_pdm_to_one_pdm`) returns the 1-RDM for every functional that sees `N̂` as `N` -/
theorem model_contraction_is_one_rdm {R : Type} [Ring R] [Algebra GQ R] (n : Nat) (ad a : Nat → R) (hc : CAR n ad a)
    (φ : R →ₗ[GQ] GQ) (N : Rat) (hN1 : N - 1 ≠ 0)
    (hN : ∀ x : R, φ (x * ∑ r ∈ range n, ad r * a r) = (⟨N, 0⟩ : GQ) * φ x) (p q : Nat) (hq : q < n) :
    contract n (tpdmOf φ ad a) (N - 1) p q = opdmOf φ ad a p q :=
  contract_bridge hc φ N hN1 hN p q hq

open OFV.Car Finset in
/-- `expectation` (Model of `InteractionRDM.expectation`) on the RDMs of `φ` is `φ(H)` -/
theorem model_expectation_is_expectation_value {R : Type} [Ring R] [Algebra GQ R] (n : Nat) (ad a : Nat → R)
    (φ : R →ₗ[GQ] GQ) (hφ : φ 1 = 1) (c : GQ) (o1 : C2) (o2 : C4) :
    expectation n c o1 (opdmOf φ ad a) o2 (tpdmOf φ ad a) =
      φ (c • (1 : R) + (∑ p ∈ range n, ∑ q ∈ range n, o1 p q • (ad p * a q))
        + ∑ p ∈ range n, ∑ q ∈ range n, ∑ r ∈ range n, ∑ s ∈ range n, o2 p q r s • (ad p * ad q * a r * a s)) :=
  expectation_bridge φ hφ c o1 o2

open OFV.Car Finset in
/-- **bridge for `get_chemist_two_body_coefficients`** (`spin_basis=False` entries of the Model): the physicist-ordered
operator of any rational tensor `h` equals the chemist-ordered operator with `g = chemEntry h false` (`g[p,q,r,s] = h[p,r,s,q]`)
plus the one-body correction `−Σ_q g[P,q,q,S]` — the reindexing of `chemist_reorder_identity` done by the code. -/
theorem model_chemist_entries_are_chemist_reordering {R : Type} [Ring R] [Algebra ℚ R] (n : Nat) (ad a : Nat → R)
    (hc : CAR n ad a) (h : Nat → Nat → Nat → Nat → ℚ) :
    ∑ p ∈ range n, ∑ q ∈ range n, ∑ r ∈ range n, ∑ s ∈ range n, h p q r s • (ad p * ad q * a r * a s) =
      (∑ P ∈ range n, ∑ Q ∈ range n, ∑ Rr ∈ range n, ∑ S ∈ range n,
          chemEntry h false P Q Rr S • (ad P * a Q * ad Rr * a S))
      + ∑ P ∈ range n, ∑ S ∈ range n, (-(∑ q ∈ range n, chemEntry h false P q q S)) • (ad P * a S) :=
  chemEntry_bridge hc h

open OFV.Car Finset in
/-- **low-rank reconstruction** (`low_rank_two_body_decomposition` without truncation), in any algebra with the CAR over any
commutative ring of coefficients: the only property of `numpy.linalg.eigh` + reshape that is used enters as the hypothesis
`h_{pqrs} = Σ_l λ_l g^l_{ps} g^l_{qr}` (eigendecomposition of the chemist-ordered `n² × n²` matrix, `g^l` the reshaped
eigenvectors).  Then  `Σ h_{pqrs} a†_p a†_q a_r a_s = Σ_l λ_l (Σ_{ps} g^l_{ps} a†_p a_s)² − Σ_{pr} (Σ_q h_{pqrq}) a†_p a_r`:
the squared one-body operators the function returns plus its one-body correction reproduce the two-body operator. -/
theorem low_rank_reconstruct {K R : Type} [CommRing K] [Ring R] [Algebra K R] (n : Nat) (ad a : Nat → R)
    (hc : CAR n ad a) (L : Nat) (lam : Nat → K) (g : Nat → Nat → Nat → K) (h : Nat → Nat → Nat → Nat → K)
    (hV : ∀ p < n, ∀ q < n, ∀ r < n, ∀ s < n, h p q r s = ∑ l ∈ range L, lam l * (g l p s * g l q r)) :
    ∑ p ∈ range n, ∑ q ∈ range n, ∑ r ∈ range n, ∑ s ∈ range n, h p q r s • (ad p * ad q * a r * a s) =
      (∑ l ∈ range L, lam l •
        ((∑ p ∈ range n, ∑ s ∈ range n, g l p s • (ad p * a s)) *
         (∑ q ∈ range n, ∑ r ∈ range n, g l q r • (ad q * a r))))
      - ∑ p ∈ range n, ∑ r ∈ range n, (∑ q ∈ range n, h p q r q) • (ad p * a r) :=
  low_rank_reconstruct_sum hc L lam g h hV

-- non-vacuity of the factorisation hypothesis: n = 1, one term, λ = 2, g = 3, h = 18
example : ∀ p < 1, ∀ q < 1, ∀ r < 1, ∀ s < 1,
    (fun _ _ _ _ => (18 : ℤ)) p q r s = ∑ l ∈ Finset.range 1, (fun _ => (2 : ℤ)) l * ((fun _ _ _ => (3 : ℤ)) l p s * (fun _ _ _ => (3 : ℤ)) l q r) := by
  intro p _ q _ r _ s _; simp

open OFV.Car Finset in
/-- **sum of squares** for every family of operators (no CAR needed): a tensor that factorises as
`V_{ps,qr} = Σ_l λ_l g^l_{ps} g^l_{qr}` gives `Σ V_{ps,qr} X_{ps} X_{qr} = Σ_l λ_l (Σ g^l_{ps} X_{ps})²` — the step used by
`prepare_one_body_squared_evolution` / the low-rank Trotter step on the chemist-ordered operator. -/
theorem one_body_squares_identity {K R : Type} [CommRing K] [Ring R] [Algebra K R] (n L : Nat) (lam : Nat → K)
    (g : Nat → Nat → Nat → K) (V : Nat → Nat → Nat → Nat → K) (X : Nat → Nat → R)
    (hV : ∀ p < n, ∀ q < n, ∀ r < n, ∀ s < n, V p q r s = ∑ l ∈ range L, lam l * (g l p s * g l q r)) :
    ∑ p ∈ range n, ∑ q ∈ range n, ∑ r ∈ range n, ∑ s ∈ range n, V p q r s • (X p s * X q r) =
      ∑ l ∈ range L, lam l •
        ((∑ p ∈ range n, ∑ s ∈ range n, g l p s • X p s) * (∑ q ∈ range n, ∑ r ∈ range n, g l q r • X q r)) :=
  sum_of_squares n L lam g V X hV

open OFV.Car Finset in
/-- **truncation**: keeping the first `L'` of `L' + d` squared one-body operators changes the operator by exactly the
discarded squares `Σ_{k<d} λ_{L'+k} O_{L'+k}²` (the list arithmetic of `truncation_value` bounds their weights,
`truncation_value_is_discarded_weight`) -/
theorem low_rank_truncation_error_is_discarded_squares {K R : Type} [CommRing K] [Ring R] [Algebra K R] (L' d : Nat)
    (lam : Nat → K) (O : Nat → R) :
    (∑ l ∈ range (L' + d), lam l • (O l * O l)) - ∑ l ∈ range L', lam l • (O l * O l) =
      ∑ k ∈ range d, lam (L' + k) • (O (L' + k) * O (L' + k)) :=
  low_rank_truncation_error L' d lam O

-- non-vacuity: one fermionic mode as 2 × 2 integer matrices satisfies the CAR for n = 1
open OFV.Car Matrix in
example : CAR 1 (fun _ => (!![0, 0; 1, 0] : Matrix (Fin 2) (Fin 2) ℤ)) (fun _ => !![0, 1; 0, 0]) := by
  refine ⟨?_, ?_, ?_⟩
  · intro i j _ _; decide
  · intro i j _ _; decide
  · intro i j hi hj
    have : i = 0 := by omega
    have : j = 0 := by omega
    subst_vars
    simp only [dl, if_true]
    decide

end OFV.C17
