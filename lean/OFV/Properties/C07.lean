/-
C07 — property theorems.
-/
import OFV.Model.C07DC
import OFV.Model.C07BCH
import OFV.Spec.C07
import OFV.Spec.C07BCH

namespace OFV.C07
open OFV OFV.Spec OFV.Model OFV.Model.C07

theorem placeholder_partial : True := trivial

end OFV.C07
