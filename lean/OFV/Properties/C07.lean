/-
C07 — property theorems (conjugation, commutators and their shortcuts).
Helper lemmas live in OFV/Proofs/C07*.lean.  Every theorem is audited with `#print axioms`.
The Model functions named here are the ones `ofv-driver` executes in the correspondence run.
-/
import OFV.Model.C07DC
import OFV.Model.C07BCH
import OFV.Spec.C07
import OFV.Spec.C07BCH
import OFV.Proofs.C07Pauli
import OFV.Proofs.C07Fermi
import OFV.Proofs.C07Dual
import OFV.Proofs.C07BCH
import OFV.Proofs.C07Ops
import OFV.Proofs.C07Hop
import OFV.Proofs.C07DCp
import OFV.Proofs.C07DoubleComm
import OFV.Proofs.C07DCMain
import OFV.Proofs.C07TermInfo
import OFV.Proofs.C07BosonAdj
import OFV.Proofs.C07BosonKey
import OFV.Proofs.C07BosonOp
import OFV.Proofs.C07HcOp
import OFV.Proofs.C07BCH8
import OFV.Proofs.C07BCHExp
import OFV.Proofs.C07BCHUniv
import OFV.Proofs.C07BCHMulti

namespace OFV.C07
open OFV OFV.Spec OFV.Spec.C07 OFV.Model OFV.Model.C07 OFV.Proofs.C07 OFV.Proofs.C07F

/-! ### `trotter_error.trivially_commutes` / `trivially_double_commutes` -/

/-- The parity rule of `trivially_commutes` is exact: for Pauli strings (strictly increasing
qubit indices, actions X/Y/Z — the keys of a QubitOperator) the merge walk answers `True`
iff `⟦a⟧⟦b⟧ = ⟦b⟧⟦a⟧` on every computational basis state (phase and state). -/
theorem pauli_trivially_commutes_iff (a b : List (Nat × Nat)) (ha : PauliString a) (hb : PauliString b) :
    triviallyCommutes a b = true ↔ CommutesP a b := by
  unfold triviallyCommutes CommutesP
  rw [trivCommLoop_eq true a b ha hb]
  constructor
  · intro h s
    rw [actPTerm_comm_iff]
    by_cases hc : cross a b % 2 = 0
    · exact hc
    · simp [hc] at h
  · intro h
    have := (actPTerm_comm_iff a b 0).mp (h 0)
    simp [this]

example : PauliString [(0, 1), (2, 3)] ∧ PauliString [(0, 2), (1, 1), (2, 1)] ∧
    triviallyCommutes [(0, 1), (2, 3)] [(0, 2), (1, 1), (2, 1)] = true := by
  refine ⟨⟨by decide, by decide⟩, ⟨by decide, by decide⟩, by simp [triviallyCommutes, trivCommLoop]⟩

example : triviallyCommutes [(0, 1)] [(0, 3)] = false := by simp [triviallyCommutes, trivCommLoop]

/-- Soundness of `trivially_double_commutes`: a `True` answer implies that the double commutator
`[a,[b,c]] = abc - acb - bca + cba` has all matrix elements zero. -/
theorem pauli_trivially_double_commutes_sound (a b c : List (Nat × Nat))
    (hb : PauliString b) (hc : PauliString c)
    (h : triviallyDoubleCommutes a b c = true) : DoubleCommZeroP a b c := by
  unfold triviallyDoubleCommutes at h
  rcases Bool.or_eq_true_iff.mp h with h1 | h2
  · have hcomm := (pauli_trivially_commutes_iff b c hb hc).mp h1
    exact dcP_of_comm a b c (funext hcomm)
  · have hd : ∀ f ∈ a, ∀ g ∈ b ++ c, f.1 ≠ g.1 := by
      intro f hf g hg heq
      simp only [Bool.not_eq_true', List.any_eq_false, qubitsOf] at h2
      have := h2 f.1 (List.mem_map.mpr ⟨f, hf, rfl⟩)
      simp only [Bool.or_eq_true, List.contains_iff_mem, List.mem_map, not_or] at this
      rcases List.mem_append.mp hg with hg | hg
      · exact this.1 ⟨g, hg, heq.symm⟩
      · exact this.2 ⟨g, hg, heq.symm⟩
    have hd' : ∀ f ∈ a, ∀ g ∈ c ++ b, f.1 ≠ g.1 := by
      intro f hf g hg
      exact hd f hf g (by simp at hg ⊢; exact hg.symm)
    exact dcP_of_outer a b c (actPTerm_comm_of_cross_zero _ _ (cross_eq_zero_of_disjoint _ _ hd))
      (actPTerm_comm_of_cross_zero _ _ (cross_eq_zero_of_disjoint _ _ hd'))

example : triviallyDoubleCommutes [(3, 1)] [(0, 1), (1, 3)] [(0, 3)] = true := by
  simp [triviallyDoubleCommutes, triviallyCommutes, trivCommLoop, qubitsOf]

/-! ### `hermitian_conjugated` -/

/-- FermionOperator branch, term level: the reversed term with flipped actions is the adjoint:
`⟨u| hc(t) |s⟩ = ⟨s| t |u⟩` for all Fock basis states (matrix elements are real, so this is the
conjugate transpose; the coefficient is conjugated by the Model separately). -/
theorem hc_fermion_term_sound (t : List (Nat × Nat)) (h : Ladder t) (s u : Nat) :
    ampF (hcTermF t) s u = ampF t u s := by
  have hadj := adj_term t h
  unfold ampF
  cases h1 : actFTerm (hcTermF t) s with
  | none =>
    cases h2 : actFTerm t u with
    | none => rfl
    | some r =>
      obtain ⟨k, s2⟩ := r
      by_cases hs : s2 = s
      · subst hs
        rw [(hadj u s2 k).mp h2] at h1
        cases h1
      · simp [hs]
  | some r =>
    obtain ⟨k, s1⟩ := r
    by_cases hu : s1 = u
    · subst hu
      rw [(hadj s1 s k).mpr h1]
      simp
    · cases h2 : actFTerm t u with
      | none => simp [hu]
      | some r2 =>
        obtain ⟨k2, s2⟩ := r2
        by_cases hs : s2 = s
        · subst hs
          rw [(hadj u s2 k2).mp h2] at h1
          simp only [Option.some.injEq, Prod.mk.injEq] at h1
          exact absurd h1.2.symm hu
        · simp [hu, hs]

example : Ladder [(3, 1), (1, 0)] ∧ ampF (hcTermF [(3, 1), (1, 0)]) 12 6 = -1 ∧ ampF [(3, 1), (1, 0)] 6 12 = -1 := by
  refine ⟨by unfold Ladder; decide, by decide, by decide⟩

/-- FermionOperator branch, dictionary level: the key map is injective on ladder terms, so the
plain assignment `terms[conjugate_term] = coefficient.conjugate()` never overwrites: the result
is the term-by-term image (same order). -/
theorem hc_fermion_terms (A : List (List (Nat × Nat) × GQ)) (hk : (Dict.keys A).Nodup)
    (hl : ∀ e ∈ A, Ladder e.1) :
    hcFermion A = A.map (fun e => (hcTermF e.1, e.2.conj)) := by
  unfold hcFermion
  have := foldl_set_fresh (κ := List (Nat × Nat)) (α := GQ) hcTermF GQ.conj A [] (by
    simp only [Dict.keys, List.map_nil, List.nil_append, List.map_map]
    rw [List.Nodup, List.pairwise_map]
    have hk' : A.Pairwise (fun a b => a.1 ≠ b.1) := by
      have := hk; rw [List.Nodup, Dict.keys, List.pairwise_map] at this; exact this
    refine hk'.imp_of_mem ?_
    intro a b ha hb hne heq
    apply hne
    have := congrArg hcTermF heq
    simp only [Function.comp] at this
    rw [hcTermF_involutive _ (hl a ha), hcTermF_involutive _ (hl b hb)] at this
    exact this)
  simpa using this

/-- `hermitian_conjugated` is an involution on FermionOperators -/
theorem hc_fermion_involutive (A : List (List (Nat × Nat) × GQ)) (hk : (Dict.keys A).Nodup)
    (hl : ∀ e ∈ A, Ladder e.1) : hcFermion (hcFermion A) = A := by
  have hinj : ∀ a ∈ A, ∀ b ∈ A, hcTermF a.1 = hcTermF b.1 → a.1 = b.1 := by
    intro a ha b hb heq
    have := congrArg hcTermF heq
    rwa [hcTermF_involutive _ (hl a ha), hcTermF_involutive _ (hl b hb)] at this
  have hl' : ∀ e ∈ A.map (fun e => (hcTermF e.1, e.2.conj)), Ladder e.1 := by
    intro e he
    obtain ⟨e0, he0, rfl⟩ := List.mem_map.mp he
    intro f hf
    simp only [hcTermF, List.mem_map, List.mem_reverse] at hf
    obtain ⟨g, _, rfl⟩ := hf
    simp only; omega
  have hk' : (Dict.keys (A.map (fun e => (hcTermF e.1, e.2.conj)))).Nodup := by
    simp only [Dict.keys, List.map_map]
    rw [List.Nodup, List.pairwise_map]
    have hk'' : A.Pairwise (fun a b => a.1 ≠ b.1) := by
      have := hk; rw [List.Nodup, Dict.keys, List.pairwise_map] at this; exact this
    refine hk''.imp_of_mem ?_
    intro a b ha hb hne heq
    exact hne (hinj a ha b hb heq)
  rw [hc_fermion_terms A hk hl, hc_fermion_terms _ hk' hl', List.map_map]
  have : ∀ e ∈ A, ((fun e : List (Nat × Nat) × GQ => (hcTermF e.1, e.2.conj)) ∘
      (fun e => (hcTermF e.1, e.2.conj))) e = e := by
    intro e he
    simp only [Function.comp, hcTermF_involutive _ (hl e he), conj_conj]
  rw [List.map_congr_left this]
  simp

example : hcFermion [([(2, 1), (0, 0)], ⟨1, 2⟩), ([(0, 1)], ⟨3, 0⟩)] =
    [([(0, 1), (2, 0)], ⟨1, -2⟩), ([(0, 0)], ⟨3, 0⟩)] := by decide

/-- QubitOperator branch: a Pauli string (distinct qubits) is Hermitian, so keeping the term and
conjugating the coefficient is the adjoint: if `t|s⟩ = i^k |s'⟩` then `t|s'⟩ = i^{-k} |s⟩`,
i.e. `⟨s| t |s'⟩ = conj ⟨s'| t |s⟩`. -/
theorem hc_qubit_term_sound (t : List (Nat × Nat)) (h : PauliString t) (s : Nat) :
    actPTerm t (actPTerm t s).2 = ((4 - (actPTerm t s).1) % 4, s) := by
  have := padj_term t s
  rwa [actPTerm_reverse t h.1] at this

example : PauliString [(0, 2), (2, 3)] ∧ actPTerm [(0, 2), (2, 3)] 4 = (3, 5) ∧ actPTerm [(0, 2), (2, 3)] 5 = (1, 4) := by
  refine ⟨⟨by decide, by decide⟩, by decide, by decide⟩

/-- QubitOperator branch, dictionary level: distinct keys are never overwritten -/
theorem hc_qubit_terms (A : List (List (Nat × Nat) × GQ)) (hk : (Dict.keys A).Nodup) :
    hcQubit A = A.map (fun e => (e.1, e.2.conj)) := by
  unfold hcQubit
  have := foldl_set_fresh (κ := List (Nat × Nat)) (α := GQ) id GQ.conj A [] (by simpa [Dict.keys] using hk)
  simpa using this

/-- **`hc_fermion_operator_adjoint`** — FermionOperator branch at operator level, for ALL stored operators
(distinct keys, ladder terms, complex coefficients): every Fock matrix element of the dictionary the Model
function returns is the conjugate-transposed matrix element of the argument,
`⟨u| hermitian_conjugated(A) |s⟩ = conj ⟨s| A |u⟩` with `⟨u|A|s⟩ = Σ c · ⟨u|t|s⟩` (`den`). -/
theorem hc_fermion_operator_adjoint (A : List (List (Nat × Nat) × GQ)) (hk : (Dict.keys A).Nodup)
    (hl : ∀ e ∈ A, Ladder e.1) (s u : Nat) :
    den (fun t => GQ.ofInt (ampF t s u)) (hcFermion A) = GQ.conj (den (fun t => GQ.ofInt (ampF t u s)) A) := by
  rw [hc_fermion_terms A hk hl]
  apply Proofs.C07A.den_image_conj
  intro e he
  rw [hc_fermion_term_sound e.1 (hl e he) s u, Proofs.C07A.conj_ofInt]

/-- **`hc_qubit_operator_adjoint`** — QubitOperator branch at operator level, for ALL stored operators whose
keys are Pauli strings: `⟨u| hermitian_conjugated(A) |s⟩ = conj ⟨s| A |u⟩`. -/
theorem hc_qubit_operator_adjoint (A : List (List (Nat × Nat) × GQ)) (hk : (Dict.keys A).Nodup)
    (hp : ∀ e ∈ A, PauliString e.1) (s u : Nat) :
    den (fun t => ampP t s u) (hcQubit A) = GQ.conj (den (fun t => ampP t u s) A) := by
  rw [hc_qubit_terms A hk]
  exact Proofs.C07A.den_image_conj id _ _ A (fun e he => Proofs.C07A.ampP_hermitian e.1 (hp e he) s u)

/-! ### dual-basis shortcuts -/

/-- Soundness of `trivially_commutes_dual_basis` for all dual-basis terms `p^ p`, `p^ q`,
`p^ q^ p q` on arbitrary modes: a `True` answer implies `⟦a⟧⟦b⟧|s⟩ = ⟦b⟧⟦a⟧|s⟩` for every Fock
basis state, hence all matrix elements of `[a, b]` vanish. -/
theorem trivially_commutes_dual_basis_sound (a b : List (Nat × Nat)) (ha : DualTerm a) (hb : DualTerm b)
    (h : triviallyCommutesDualBasis a b = true) : CommutesF a b ∧ CommZeroF a b := by
  have hc := tc_dual_commutes a b ha hb h
  refine ⟨fun s => by rw [hc], fun s u => ?_⟩
  simp only [ampF, hc]; omega

example : DualTerm [(2, 1), (5, 0)] ∧ DualTerm [(5, 1), (2, 1), (5, 0), (2, 0)] ∧
    triviallyCommutesDualBasis [(2, 1), (5, 0)] [(5, 1), (2, 1), (5, 0), (2, 0)] = true :=
  ⟨.hop 2 5 (by decide), .n2 5 2 (by decide), by decide⟩

/-- Finding F07: `trivially_double_commutes_dual_basis(0^ 0, 0^ 0, 0^ 1)` answers `True` in the
Model (and in the code) although `⟨01| [a,[b,c]] |10⟩ = 1`: the full-strength soundness statement
`∀ a b c, triviallyDoubleCommutesDualBasis a b c = true → DoubleCommZeroF a b c` is FALSE. -/
theorem tdc_dual_counterexample :
    triviallyDoubleCommutesDualBasis [(0, 1), (0, 0)] [(0, 1), (0, 0)] [(0, 1), (1, 0)] = true ∧
    dcAmpF [(0, 1), (0, 0)] [(0, 1), (0, 0)] [(0, 1), (1, 0)] 2 1 = 1 ∧
    ¬ DoubleCommZeroF [(0, 1), (0, 0)] [(0, 1), (0, 0)] [(0, 1), (1, 0)] := by
  refine ⟨by decide, by decide, ?_⟩
  intro h
  have := h 2 1
  revert this
  decide

/-- Soundness of `trivially_double_commutes_dual_basis` outside finding F07.
Full statement (FALSE, see `tdc_dual_counterexample`):
  `∀ a b c dual-basis terms, triviallyDoubleCommutesDualBasis a b c = true → DoubleCommZeroF a b c`.
Proved: the same with the explicit decidable hypothesis `f07Class b c = false` (`b` is not a
one-mode number operator `p^ p` sharing its mode with a hopping term `c`). -/
theorem tdc_dual_sound_partial (a b c : List (Nat × Nat)) (ha : DualTerm a) (hb : DualTerm b)
    (hc : DualTerm c) (hex : f07Class b c = false)
    (h : triviallyDoubleCommutesDualBasis a b c = true) : DoubleCommZeroF a b c := by
  rcases tdc_cases a b c hb hc hex h with h1 | h2 | h3
  · exact dcF_of_comm a b c (tc_dual_commutes b c hb hc h1)
  · -- `a` shares no mode with `b`, `c`
    have hd : ∀ f ∈ a, ∀ g ∈ b ++ c, f.1 ≠ g.1 := by
      intro f hf g hg heq
      simp only [Bool.not_eq_true', Bool.or_eq_false_iff, List.contains_eq_mem, List.mem_cons,
        List.not_mem_nil, or_false, decide_eq_false_iff_not, not_or] at h2
      have hfm := ha.modes f hf
      have hgm : g.1 = fIdx b 0 ∨ g.1 = fIdx b 1 ∨ g.1 = fIdx c 0 ∨ g.1 = fIdx c 1 := by
        rcases List.mem_append.mp hg with hg | hg
        · rcases hb.modes g hg with e | e <;> simp [e]
        · rcases hc.modes g hg with e | e <;> simp [e]
      omega
    have hd' : ∀ f ∈ a, ∀ g ∈ c ++ b, f.1 ≠ g.1 := by
      intro f hf g hg
      exact hd f hf g (by simp at hg ⊢; exact hg.symm)
    exact dcF_of_outer a b c (term_comm_disjoint_even _ _ hd (Or.inl ha.even))
      (term_comm_disjoint_even _ _ hd' (Or.inl ha.even))
  · -- some mode is created or annihilated twice net
    have hl : Ladder (a ++ b ++ c) := by
      intro f hf
      simp only [List.mem_append] at hf
      rcases hf with (hf | hf) | hf
      · exact ha.ladder f hf
      · exact hb.ladder f hf
      · exact hc.ladder f hf
    rcases Bool.or_eq_true_iff.mp h3 with h3 | h3
    · obtain ⟨e, he, hgt⟩ := List.any_eq_true.mp h3
      have := countChanges_mem _ e he
      rw [netM_eq_net _ _ hl] at this
      exact dcF_of_net a b c e.1 (Or.inl (by simp at hgt; omega))
    · obtain ⟨e, he, hlt⟩ := List.any_eq_true.mp h3
      have := countChanges_mem _ e he
      rw [netM_eq_net _ _ hl] at this
      exact dcF_of_net a b c e.1 (Or.inr (by simp at hlt; omega))

example : DualTerm [(0, 1), (1, 0)] ∧ DualTerm [(1, 1), (2, 0)] ∧ DualTerm [(2, 1), (1, 1), (2, 0), (1, 0)] ∧
    f07Class [(1, 1), (2, 0)] [(2, 1), (1, 1), (2, 0), (1, 0)] = false ∧
    triviallyDoubleCommutesDualBasis [(0, 1), (1, 0)] [(1, 1), (2, 0)] [(2, 1), (1, 1), (2, 0), (1, 0)] = true :=
  ⟨.hop 0 1 (by decide), .hop 1 2 (by decide), .n2 2 1 (by decide), by decide, by decide⟩

/-! ### Baker–Campbell–Hausdorff -/

/-- `bch_expand` truncated at order `k ≤ 6` is exact on the free nilpotent algebra of class `k`:
with the coefficient table of `_generate_nested_commutator(k)` (Model, exact rationals),
`exp(Σ coeff · nested commutator) = exp X · exp Y` modulo words longer than `k`.
(Kernel computation for each `k`; the statement for every `k` — Dynkin's formula — is open.) -/
theorem bch_exact_upto_6_partial (k : Nat) (hk : k ≤ 6) :
    Spec.BCH.check k (generateNestedCommutator k) = true := by
  have : k = 0 ∨ k = 1 ∨ k = 2 ∨ k = 3 ∨ k = 4 ∨ k = 5 ∨ k = 6 := by omega
  rcases this with rfl | rfl | rfl | rfl | rfl | rfl | rfl <;> decide +kernel

/-- the same for order 7: `bch_expand` truncated at any order `k ≤ 7` is exact on the free nilpotent
algebra of class `k`.  (Order 8 is within reach of the same kernel computation but needs about 14 GB of
memory, so it is left to the exact correspondence run and the Spec oracle, which cover orders `≤ 8`.) -/
theorem bch_exact_upto_7_partial (k : Nat) (hk : k ≤ 7) :
    Spec.BCH.check k (generateNestedCommutator k) = true := by
  by_cases h6 : k ≤ 6
  · exact bch_exact_upto_6_partial k h6
  · have : k = 7 := by omega
    subst this
    exact Proofs.C07.bch_check_7

/-- Dynkin-style nested commutator `'010…' ↦ [x, [y, [x, …]]]` in a ring (`false = x`, `true = y`) -/
def nestedComm {A : Type} [Ring A] (x y : A) : List Bool → A
  | [] => 1
  | [g] => if g then y else x
  | g :: r => (if g then y else x) * nestedComm x y r - nestedComm x y r * (if g then y else x)

/-- **`bch_universal_upto_7`** — the BCH table in EVERY nilpotent setting, not only the free one.  Let `A`
be any ℚ-algebra and `x, y ∈ A` such that every product of more than `k` factors from `{x, y}` vanishes
(`k ≤ 7`).  With the coefficient table `_generate_nested_commutator(k)` of the Model (exact rationals),
`z = Σ coeff · nested commutator` — the value `_bch_expand_two_terms(x, y, order=k)` computes — satisfies
`exp z = exp x · exp y`, where `exp t = Σ_{j ≤ k} t^j / j!` (all three series terminate there).
This is the universal property of the free nilpotent algebra, formalised for the list representation of
the Spec (`Proofs.C07U`): evaluation at `(x, y)` is additive and, modulo words longer than `k`,
multiplicative. -/
theorem bch_universal_upto_7 (k : Nat) (hk : k ≤ 7) {A : Type} [Ring A] [Algebra ℚ A] (x y : A)
    (hnil : ∀ w : List Bool, k < w.length → (w.map fun g => if g then y else x).prod = 0) :
    (∑ j ∈ Finset.range (k + 1), ((j.factorial : ℚ)⁻¹) •
        (((generateNestedCommutator k).map fun tc => (tc.2 : ℚ) • nestedComm x y tc.1).sum) ^ j) =
      (∑ j ∈ Finset.range (k + 1), ((j.factorial : ℚ)⁻¹) • x ^ j) *
        (∑ j ∈ Finset.range (k + 1), ((j.factorial : ℚ)⁻¹) • y ^ j) := by
  have hn : Proofs.C07U.Nil x y k := by
    intro w hw; rw [Proofs.C07U.wordEval_eq]; exact hnil w hw
  have hnest : ∀ w, nestedComm x y w = Proofs.C07U.nestedA x y w := by
    intro w
    induction w with
    | nil => rfl
    | cons g r ih =>
      cases r with
      | nil => rfl
      | cons g' r' => simp only [nestedComm, Proofs.C07U.nestedA, Proofs.C07U.gen, ih]
  have h := Proofs.C07U.check_universal x y k (generateNestedCommutator k) (bch_exact_upto_7_partial k hk)
    (Proofs.C07.expXexpY_split k (by omega)) hn
  simp only [Proofs.C07U.expT_eq] at h
  simpa only [hnest] using h

/-- `Σ_{j ≤ k} t^j / j!` -/
noncomputable def expTrunc {A : Type} [Ring A] [Algebra ℚ A] (k : Nat) (t : A) : A :=
  ∑ j ∈ Finset.range (k + 1), ((j.factorial : ℚ)⁻¹) • t ^ j

/-- what `_bch_expand_two_terms(x, y, order=k)` denotes: `Σ coeff · nested commutator` over the table -/
def bchTwo {A : Type} [Ring A] [Algebra ℚ A] (k : Nat) (x y : A) : A :=
  ((generateNestedCommutator k).map fun tc => (tc.2 : ℚ) • nestedComm x y tc.1).sum

/-- what `_bch_expand_multiple_terms` denotes along its bracketing tree -/
def bchMany {A : Type} [Ring A] [Algebra ℚ A] (k : Nat) (xs : Nat → A) : BTree → A
  | .leaf i => xs i
  | .node l r => bchTwo k (bchMany k xs l) (bchMany k xs r)

/-- **`bch_expand` with any number of operators** (`order = k ≤ 7`).  Let `A` be a ℚ-algebra with a
multiplicative filtration `F 1 ⊇ F 2 ⊇ …`, `F i · F j ⊆ F (i + j)`, `F (k + 1) = 0` (e.g. strictly upper
triangular matrices; polynomials in a small parameter modulo `ε^{k+1}`), and `x_0, …, x_{n-1} ∈ F 1`,
`n ≥ 1`.  Then `z = bch_expand(x_0, …, x_{n-1}, order=k)` — the recursive halving
`ops[: n // 2]`, `ops[n // 2 :]` with the two-operator table at every node — lies in `F 1` and satisfies
`exp z = exp x_0 · exp x_1 ⋯ exp x_{n-1}` (in this order). -/
theorem bch_expand_sound_upto_7 (k : Nat) (hk : k ≤ 7) {A : Type} [Ring A] [Algebra ℚ A]
    (F : Nat → Submodule ℚ A) (anti : ∀ i, F (i + 1) ≤ F i)
    (mul : ∀ i j a b, a ∈ F i → b ∈ F j → a * b ∈ F (i + j)) (top : ∀ a ∈ F (k + 1), a = 0)
    (n : Nat) (hn : 1 ≤ n) (xs : Nat → A) (hx : ∀ i, i < n → xs i ∈ F 1) :
    bchMany k xs (splitTree n 0 n) ∈ F 1 ∧
    expTrunc k (bchMany k xs (splitTree n 0 n)) = ((List.range n).map fun i => expTrunc k (xs i)).prod := by
  have hnest : ∀ (x y : A) w, nestedComm x y w = Proofs.C07U.nestedA x y w := by
    intro x y w
    induction w with
    | nil => rfl
    | cons g r ih =>
      cases r with
      | nil => rfl
      | cons g' r' => simp only [nestedComm, Proofs.C07U.nestedA, Proofs.C07U.gen, ih]
  have htwo : ∀ x y : A, bchTwo k x y = Proofs.C07U.bch2 k x y := by
    intro x y; simp only [bchTwo, Proofs.C07U.bch2, hnest]
  have hmany : ∀ t, bchMany k xs t = Proofs.C07U.bchTree k xs t := by
    intro t
    induction t with
    | leaf i => rfl
    | node l r ihl ihr => simp only [bchMany, Proofs.C07U.bchTree, htwo, ihl, ihr]
  have hexp : ∀ t : A, expTrunc k t = Proofs.C07U.expT k t := by
    intro t; rw [Proofs.C07U.expT_eq]; rfl
  have h2 : ∀ x y : A, Proofs.C07U.Nil x y k →
      Proofs.C07U.expT k (Proofs.C07U.bch2 k x y) = Proofs.C07U.expT k x * Proofs.C07U.expT k y := by
    intro x y hnil
    exact Proofs.C07U.check_universal x y k (generateNestedCommutator k) (bch_exact_upto_7_partial k hk)
      (Proofs.C07.expXexpY_split k (by omega)) hnil
  have hl : leaves (splitTree n 0 n) = List.range n := by
    rw [splitTree_leaves n 0 n hn (Nat.le_refl _), List.range_eq_range']
  obtain ⟨hm, he⟩ := Proofs.C07U.bchTree_sound ⟨F, anti, mul, top⟩ h2 xs (splitTree n 0 n) (by
    intro i hi
    rw [hl] at hi
    exact hx i (List.mem_range.mp hi))
  refine ⟨by rw [hmany]; exact hm, ?_⟩
  rw [hmany, hexp, he, hl]
  simp only [hexp]

/-- the check is not vacuous: doubling the third-order coefficients breaks it -/
example : Spec.BCH.check 3 ((generateNestedCommutator 3).map fun tc =>
    (tc.1, if tc.1.length = 3 then 2 * tc.2 else tc.2)) = false := by decide +kernel

/-- The bracketing of `_bch_expand_multiple_terms` (`ops[: n // 2]`, `ops[n // 2 :]`, recursively)
uses each of the `n ≥ 1` operators exactly once and in the given order: the leaves of the
tree, read left to right, are `0, 1, …, n-1`. -/
theorem bch_split_tree_leaves (n : Nat) (h : 1 ≤ n) : leaves (splitTree n 0 n) = List.range n := by
  rw [splitTree_leaves n 0 n h (Nat.le_refl _), List.range_eq_range']

example : splitTree 3 0 3 = .node (.leaf 0) (.node (.leaf 1) (.leaf 2)) := rfl

/-! ### operator level: `commutator`, `anticommutator` as dictionaries -/

/-- `commutator_def`: for every term functional `φ` (e.g. `φ τ = ⟨u|τ|s⟩`), the dictionary returned by
`commutator(A, B)` (`result = A * B; result -= B * A`) denotes `⟦A·B⟧_φ - ⟦B·A⟧_φ`, where a product
denotes the bilinear extension of the simplified term product; hypothesis: the exact regime of the
in-place subtraction (no non-zero coefficient below `EQ_TOLERANCE` is pruned). -/
theorem commutator_def (tol : Rat) (cls : Cls) (φ : List (Nat × Nat) → GQ) (A B : List (List (Nat × Nat) × GQ))
    (h : ExactAdd tol (mulOp cls A B) ((mulOp cls B A).map fun e => (e.1, -e.2))) :
    den φ (commutator tol cls A B) = bil (prodF cls φ) A B + -(bil (prodF cls φ) B A) :=
  den_commutator tol cls φ A B h

/-- `anticommutator_def` -/
theorem anticommutator_def (tol : Rat) (cls : Cls) (φ : List (Nat × Nat) → GQ) (A B : List (List (Nat × Nat) × GQ))
    (h : ExactAdd tol (mulOp cls A B) (mulOp cls B A)) :
    den φ (anticommutator tol cls A B) = bil (prodF cls φ) A B + bil (prodF cls φ) B A :=
  den_anticommutator tol cls φ A B h

example : commutator Generated.eqTolerance .fermion [([(0, 1)], 1)] [([(0, 0)], 1)] =
    [([(0, 1), (0, 0)], 1), ([(0, 0), (0, 1)], -1)] := by decide +kernel

/-- operands whose terms commute pairwise (under `φ`) have a commutator that denotes 0 -/
theorem commutator_zero_of_termwise (tol : Rat) (cls : Cls) (φ : List (Nat × Nat) → GQ)
    (A B : List (List (Nat × Nat) × GQ))
    (h : ExactAdd tol (mulOp cls A B) ((mulOp cls B A).map fun e => (e.1, -e.2)))
    (hc : ∀ l ∈ A, ∀ r ∈ B, prodF cls φ l.1 r.1 = prodF cls φ r.1 l.1) :
    den φ (commutator tol cls A B) = 0 :=
  den_commutator_zero tol cls φ A B h hc

/-- the shortcut and the generic path agree: when `trivially_commutes_dual_basis(a, b)` answers `True`,
every matrix element `⟨u| commutator(c_a·a, c_b·b) |s⟩` of the Model's `commutator` is 0 -/
theorem commutator_zero_of_trivially_commutes_dual (tol : Rat) (a b : List (Nat × Nat)) (ca cb : GQ)
    (ha : DualTerm a) (hb : DualTerm b) (ht : triviallyCommutesDualBasis a b = true)
    (h : ExactAdd tol (mulOp .fermion [(a, ca)] [(b, cb)])
      ((mulOp .fermion [(b, cb)] [(a, ca)]).map fun e => (e.1, -e.2))) (s u : Nat) :
    den (fun τ => GQ.ofInt (ampF τ s u)) (commutator tol .fermion [(a, ca)] [(b, cb)]) = 0 := by
  apply den_commutator_zero tol .fermion _ _ _ h
  intro l hl r hr
  simp only [List.mem_singleton] at hl hr
  subst hl; subst hr
  have hz := (trivially_commutes_dual_basis_sound a b ha hb ht).2 s u
  have : ampF (a ++ b) s u = ampF (b ++ a) s u := by omega
  simp only [prodF, simplify, this]

/-! ### `hermitian_conjugated` for Boson / Quad operators: the formal involution -/

/-- BosonOperator branch.  The adjoint on ladder words is the formal involution `b_j ↔ b†_j`
extended as an anti-homomorphism (`hcTermF`: reverse and flip; it maps generators to their adjoints
and reverses products); the key stored by the code, `sorted(hcTermF t)`, denotes the same operator
as `hcTermF t` on every monomial of the polynomial representation (stable sort; different modes
commute).  (That the formal involution is the Hilbert-space adjoint is not formalised.) -/
theorem hc_boson_term_sound (t t₁ t₂ : List (Nat × Nat)) (j : Nat) (e : Spec.Mono) :
    Spec.actTermWith Spec.actB (sortF (hcTermF t)) e = Spec.actTermWith Spec.actB (hcTermF t) e ∧
    hcTermF (t₁ ++ t₂) = hcTermF t₂ ++ hcTermF t₁ ∧
    hcTermF [(j, 1)] = [(j, 0)] ∧ hcTermF [(j, 0)] = [(j, 1)] :=
  ⟨hcBoson_key_sound t e, hcTermF_append t₁ t₂, rfl, rfl⟩

/-- **`hc_boson_adjoint`**: the key stored by `hermitian_conjugated(BosonOperator)` is the Hilbert-space
adjoint.  On the polynomial (Bargmann) representation of the Spec (`b†_j = x_j·`, `b_j = ∂_j`) with the
Fock inner product `⟨x^e, x^e'⟩ = δ_{e e'} Π e_i!` (in which `x^e / √(Π e_i!)` are the orthonormal number
states), every matrix element of a ladder word `t` and of the stored key `sorted(reverse-and-flip(t))`
satisfy `⟨x^{e1}, t x^{e0}⟩ = ⟨t† x^{e1}, x^{e0}⟩`, for all canonical exponent vectors `e0`, `e1`
(unbounded occupation numbers, any number of modes).  `melB t e_in e_out` is the coefficient of
`x^{e_out}` in `t x^{e_in}`; the weights are `Π e_i!`. -/
theorem hc_boson_adjoint (t : List (Nat × Nat)) (ht : ∀ f ∈ t, f.2 ≤ 1) (e0 e1 : Spec.Mono)
    (h0 : Spec.trimZeros e0 = e0) (h1 : Spec.trimZeros e1 = e1) :
    Proofs.C07A.melB t e0 e1 * GQ.ofInt (Proofs.C06B.wfact e1 : Int) =
      Proofs.C07A.melB (sortF (hcTermF t)) e1 e0 * GQ.ofInt (Proofs.C06B.wfact e0 : Int) := by
  have hk : Proofs.C07A.melB (sortF (hcTermF t)) e1 e0 = Proofs.C07A.melB (hcTermF t) e1 e0 := by
    unfold Proofs.C07A.melB; rw [hcBoson_key_sound t e1]
  rw [hk]
  exact Proofs.C07A.melB_adjoint t ht e0 e1 h0 h1

example : Proofs.C07A.melB [(0, 1), (0, 1), (1, 0)] [1, 2] [3, 1] = 2 ∧
    Proofs.C07A.melB (sortF (hcTermF [(0, 1), (0, 1), (1, 0)])) [3, 1] [1, 2] = 6 ∧
    Proofs.C06B.wfact [3, 1] = 6 ∧ Proofs.C06B.wfact [1, 2] = 2 := by
  refine ⟨by decide +kernel, by decide +kernel, by decide, by decide⟩

/-- **`hc_boson_key_injective`**: on the terms a BosonOperator stores (ladder words sorted by mode index,
as `_simplify` leaves them) the key map `t ↦ sorted(reverse-and-flip(t))` of `hermitian_conjugated` is
injective — the stable sort keeps the sub-word of every mode, and an index-sorted word is determined by
its sub-words. -/
theorem hc_boson_key_injective (t₁ t₂ : List (Nat × Nat))
    (s₁ : t₁.Pairwise (fun a b => a.1 ≤ b.1)) (s₂ : t₂.Pairwise (fun a b => a.1 ≤ b.1))
    (l₁ : ∀ f ∈ t₁, f.2 ≤ 1) (l₂ : ∀ f ∈ t₂, f.2 ≤ 1)
    (h : sortF (hcTermF t₁) = sortF (hcTermF t₂)) : t₁ = t₂ :=
  Proofs.C07K.key_injective t₁ t₂ s₁ s₂ l₁ l₂ h

/-- **`hc_boson_terms`** — BosonOperator branch, dictionary level, for ALL stored operators: the plain
assignment `conjugate_operator.terms[key] = coefficient.conjugate()` never overwrites; the Model function
the driver executes returns the term-by-term image `(sorted(reverse-and-flip(t)), conj c)`, in order. -/
theorem hc_boson_terms (A : List (List (Nat × Nat) × GQ)) (hk : (Dict.keys A).Nodup)
    (hs : ∀ e ∈ A, e.1.Pairwise (fun a b => a.1 ≤ b.1)) (hl : ∀ e ∈ A, ∀ f ∈ e.1, f.2 ≤ 1) :
    hcBoson A = A.map (fun e => (sortF (hcTermF e.1), e.2.conj)) :=
  Proofs.C07K.hcBoson_terms A hk hs hl

/-- **`hc_boson_operator_adjoint`** — the Model function the driver executes against the Spec, for ALL
stored BosonOperators (distinct keys, ladder words sorted by mode index, arbitrary complex coefficients):
`hermitian_conjugated(A)` is the adjoint of `A` for the Fock inner product of the polynomial
representation, `⟨x^{e1}, A x^{e0}⟩ = ⟨A† x^{e1}, x^{e0}⟩` for all canonical exponent vectors:
`(Σ_t c_t ⟨t⟩_{e0→e1}) · Π e1_i! = conj(Σ_{t'} c'_{t'} ⟨t'⟩_{e1→e0}) · Π e0_i!` with `(t', c')` ranging over
the returned dictionary `hcBoson A` (`den φ A = Σ c · φ(t)`). -/
theorem hc_boson_operator_adjoint (A : List (List (Nat × Nat) × GQ)) (hk : (Dict.keys A).Nodup)
    (hs : ∀ e ∈ A, e.1.Pairwise (fun a b => a.1 ≤ b.1)) (hl : ∀ e ∈ A, ∀ f ∈ e.1, f.2 ≤ 1)
    (e0 e1 : Spec.Mono) (h0 : Spec.trimZeros e0 = e0) (h1 : Spec.trimZeros e1 = e1) :
    den (fun t => Proofs.C07A.melB t e0 e1) A * GQ.ofInt (Proofs.C06B.wfact e1 : Int) =
      GQ.conj (den (fun t => Proofs.C07A.melB t e1 e0) (hcBoson A)) * GQ.ofInt (Proofs.C06B.wfact e0 : Int) := by
  rw [Proofs.C07K.hcBoson_terms A hk hs hl]
  exact Proofs.C07A.hcBoson_image_adjoint A hl e0 e1 h0 h1

/-- QuadOperator branch, dictionary level: on index-sorted stored terms the key map
`t ↦ sorted(reversed(t))` is injective, so nothing is overwritten and the Model function returns the
term-by-term image `(sorted(reversed(t)), conj c)`, in order. -/
theorem hc_quad_terms (A : List (List (Nat × Nat) × GQ)) (hk : (Dict.keys A).Nodup)
    (hs : ∀ e ∈ A, e.1.Pairwise (fun a b => a.1 ≤ b.1)) :
    (∀ a ∈ A, ∀ b ∈ A, sortF a.1.reverse = sortF b.1.reverse → a.1 = b.1) ∧
    hcQuad A = A.map (fun e => (sortF e.1.reverse, e.2.conj)) :=
  ⟨fun a ha b hb h => Proofs.C07A.quad_key_injective a.1 b.1 (hs a ha) (hs b hb) h,
   Proofs.C07A.hcQuad_terms A hk hs⟩

/-- QuadOperator branch: `q_j`, `p_j` are self-adjoint, so the involution is word reversal; the stored
key `sorted(reversed(t))` denotes the reversed word for every `ħ` and every monomial. -/
theorem hc_quad_term_sound (hbar : GQ) (t t₁ t₂ : List (Nat × Nat)) (e : Spec.Mono) :
    Spec.actTermWith (Spec.actQuad hbar) (sortF t.reverse) e = Spec.actTermWith (Spec.actQuad hbar) t.reverse e ∧
    (t₁ ++ t₂).reverse = t₂.reverse ++ t₁.reverse :=
  ⟨hcQuad_key_sound hbar t e, List.reverse_append⟩

example : hcBoson [([(0, 1), (1, 0), (0, 0)], ⟨1, 2⟩)] = [([(0, 1), (0, 0), (1, 1)], ⟨1, -2⟩)] := by decide +kernel

/-! ### the hopping shortcut of `double_commutator` -/

/-- `hopping_shortcut_sound`, one shared mode.  For hopping operators `t (i^ k + k^ i)` and
`w (k^ j + j^ k)` on index sets `{i, k}`, `{k, j}` (distinct `i, k, j`, any listing order of the sets):
(1) the Model of `double_commutator(op1, op2, op3, indices2, indices3, True, True)` is
`normal_ordered(commutator(op1, C))` with the shortcut operator `C = t w (i^ j) + (-t w) (j^ i)`;
(2) `C` is the true commutator: `⟨u| commutator(op2, op3) |s⟩ = ⟨u| C |s⟩` for all Fock basis states
— so the shortcut and the generic path `normal_ordered(commutator(op1, normal_ordered(commutator(op2, op3))))`
feed the same operator to the common outer step.  (Exact regimes of the in-place additions assumed.) -/
theorem hopping_shortcut_sound (tol : Rat) (a : List (List (Nat × Nat) × GQ)) (i k j : Nat) (t w : GQ)
    (hik : i ≠ k) (hjk : j ≠ k) (hij : i ≠ j) (i2 i3 : List Nat)
    (h2 : i2 = [i, k] ∨ i2 = [k, i]) (h3 : i3 = [k, j] ∨ i3 = [j, k]) (s u : Nat)
    (he : ExactAdd tol (mulOp .fermion (hopOp i k t) (hopOp k j w))
      ((mulOp .fermion (hopOp k j w) (hopOp i k t)).map fun e => (e.1, -e.2)))
    (hc : ExactAdd tol (Model.mk .fermion [(i, 1), (j, 0)] (t * w)) (Model.mk .fermion [(j, 1), (i, 0)] (-(t * w)))) :
    doubleCommutatorHopping tol a (hopOp i k t) (hopOp k j w) i2 i3 =
      normalOrdered tol (commutator tol .fermion a (hopC23 tol i j (t * w))) ∧
    den (phiF s u) (commutator tol .fermion (hopOp i k t) (hopOp k j w)) =
      den (phiF s u) (hopC23 tol i j (t * w)) := by
  refine ⟨doubleCommutatorHopping_shared tol a i k j t w hik hjk hij i2 i3 h2 h3, ?_⟩
  rw [hop_commutator tol i k j t w hik hjk hij s u he, den_hopC23 tol _ i j (t * w) hc]

/-- `hopping_shortcut_sound`, no shared mode: the shortcut returns the zero operator, and the
commutator of the two hopping operators really has only zero matrix elements. -/
theorem hopping_shortcut_disjoint (tol : Rat) (a : List (List (Nat × Nat) × GQ)) (i k j l : Nat) (t w : GQ)
    (h1 : i ≠ j) (h2 : i ≠ l) (h3 : k ≠ j) (h4 : k ≠ l) (s u : Nat)
    (he : ExactAdd tol (mulOp .fermion (hopOp i k t) (hopOp j l w))
      ((mulOp .fermion (hopOp j l w) (hopOp i k t)).map fun e => (e.1, -e.2))) :
    doubleCommutatorHopping tol a (hopOp i k t) (hopOp j l w) [i, k] [j, l] = [] ∧
    den (phiF s u) (commutator tol .fermion (hopOp i k t) (hopOp j l w)) = 0 :=
  ⟨doubleCommutatorHopping_disjoint tol a _ _ i k j l h1 h2 h3 h4, hop_commutator_disjoint tol i k j l t w h1 h2 h3 h4 s u he⟩

/-- `hopping_shortcut_sound`, both modes shared (the case the shortcut answers with zero through the
`ValueError` of the tuple unpacking): `[t (i^ k + k^ i), w (i^ k + k^ i)]` denotes 0 under every term
functional. -/
theorem hopping_shortcut_same (tol : Rat) (φ : List (Nat × Nat) → GQ) (i k : Nat) (t w : GQ)
    (B : List (List (Nat × Nat) × GQ)) (hB : B = hopOp i k w ∨ B = hopOp k i w)
    (he : ExactAdd tol (mulOp .fermion (hopOp i k t) B) ((mulOp .fermion B (hopOp i k t)).map fun e => (e.1, -e.2))) :
    den φ (commutator tol .fermion (hopOp i k t) B) = 0 :=
  hop_commutator_same tol φ i k t w B hB he

example : hopOp 0 1 ⟨2, 0⟩ = [([(0, 1), (1, 0)], ⟨2, 0⟩), ([(1, 1), (0, 0)], ⟨2, 0⟩)] ∧
    ([0, 1].filter [2, 1].contains) = [1] := by
  refine ⟨rfl, by decide⟩

/-! ### the diagonal-Coulomb commutator: one-body with one-body -/

/-- `dc_commutator_sound` is PARTIAL: the full statement (open) is, for all admissible operators,
`⟨u| commutator_ordered_diagonal_coulomb_with_two_body_operator(A, B, prior) |s⟩ =
 ⟨u| prior |s⟩ + Σ_{a ∈ A, b ∈ B} c_a c_b ⟨u| [a, b] |s⟩`.
Proved here, completely: the helper `_commutator_one_body_with_one_body`.  For one-body terms
`a = i^ j`, `b = k^ l` with ANY coincidences among the four modes (number operators `i^ i`, the double
pairing `i^ j, j^ i ↦ n_i - n_j`, single pairings, shared creation or annihilation mode, disjoint
modes; only `a = b` is excluded, which the caller skips) it adds exactly `coef · [a, b]` to
`prior_terms`: every matrix element of the result is that of `prior` plus `coef · ⟨u| ab - ba |s⟩`.
The one-body / two-body and two-body / two-body helpers, the three-body insertion and the sum over
the term pairs are proved below in ring form (`dc_one_body_two_body_sound`, `dc_two_body_two_body_sound`,
`dc_three_body_insertion_sound`, `dc_commutator_sound_ring`, `dc_commutator_sound`). -/
theorem dc_one_body_one_body_sound (i j k l : Nat) (coef : GQ) (prior : List (List (Nat × Nat) × GQ))
    (hne : ¬ (i = k ∧ j = l)) (s u : Nat) :
    den (phiF s u) (dcOneOne [(i, 1), (j, 0)] [(k, 1), (l, 0)] coef prior) =
      den (phiF s u) prior + pairComm s u [(i, 1), (j, 0)] [(k, 1), (l, 0)] coef :=
  dcOneOne_sound i j k l coef prior hne s u

/-- `dc_commutator_sound` for ONE-BODY operators (hopping / number Hamiltonians), complete: if every
term of `A` and of `B` is a one-body term `i^ j`, then for every `prior_terms` every matrix element of
`commutator_ordered_diagonal_coulomb_with_two_body_operator(A, B, prior)` is
`⟨u| prior |s⟩ + Σ_{a ∈ A} Σ_{b ∈ B} c_a c_b ⟨u| a b - b a |s⟩` (main double loop included). -/
theorem dc_commutator_one_body_sound (tol : Rat) (A B prior : List (List (Nat × Nat) × GQ))
    (hA : ∀ e ∈ A, OneBody e.1) (hB : ∀ e ∈ B, OneBody e.1) (s u : Nat) :
    den (phiF s u) (dcCommutator tol A B prior) =
      A.foldl (fun acc e => commRow s u e.1 e.2 B acc) (den (phiF s u) prior) :=
  dcCommutator_oneBody tol s u A B hA hB prior

example : dcOneOne [(2, 1), (1, 0)] [(1, 1), (0, 0)] ⟨3, 0⟩ [] = [([(2, 1), (0, 0)], ⟨0 + 3, 0 + 0⟩)] := by decide +kernel

/-! ### the diagonal-Coulomb commutator with two-body terms, ring form -/

/-- the canonical anticommutation relations for a ring interpretation `I` of the ladder operators
(`(p, 1)` creation, `(p, 0)` annihilation): `{a_p, a†_q} = δ_pq`, `{a_p, a_q} = {a†_p, a†_q} = 0`. -/
def CARRel {A : Type} [Ring A] (I : Proofs.C03.Interp A) : Prop :=
  (∀ x l : Nat × Nat, x.2 ≠ 0 → l.2 = 0 → I.g l * I.g x + I.g x * I.g l = if x.1 = l.1 then 1 else 0) ∧
  (∀ x l : Nat × Nat, x.2 = l.2 → x.1 ≠ l.1 → I.g l * I.g x + I.g x * I.g l = 0) ∧
  (∀ x l : Nat × Nat, x.2 = l.2 → x.1 = l.1 → I.g l * I.g x = 0)

theorem CARRel.car {A : Type} [Ring A] {I : Proofs.C03.Interp A} (h : CARRel I) : Proofs.C07R.CAR I :=
  ⟨h.1, h.2.1, h.2.2⟩

/-- the Fock space of the Spec satisfies the relations -/
theorem fock_CARRel : CARRel Proofs.C03.fockInterp :=
  ⟨Proofs.C07R.fock_CAR.mixed, Proofs.C07R.fock_CAR.same, Proofs.C07R.fock_CAR.sq⟩

/-- `_commutator_one_body_with_one_body`, ring form and without any side condition: the helper adds
`coef · [i^ j, k^ l]`. -/
theorem dc_one_body_one_body_sound_ring {A : Type} [Ring A] (I : Proofs.C03.Interp A) (h : CARRel I)
    (i j k l : Nat) (coef : GQ) (prior : List (List (Nat × Nat) × GQ)) :
    I.evalOp (dcOneOne [(i, 1), (j, 0)] [(k, 1), (l, 0)] coef prior) =
      I.evalOp prior + I.ι coef *
        (I.evalT [(i, 1), (j, 0)] * I.evalT [(k, 1), (l, 0)] - I.evalT [(k, 1), (l, 0)] * I.evalT [(i, 1), (j, 0)]) :=
  Proofs.C07R.dcOneOne_eval h.car i j k l coef prior

/-- **`_commutator_one_body_with_two_body`**: for a one-body term `a = p^ q` (ANY `p`, `q`, number
operators included) and a two-body term `b = r^ s^ t u` with `r ≠ s`, `t ≠ u` (every coincidence
between the one-body and the two-body modes allowed: none, one pairing, both pairings, the early
return `p = q ∧ (r, s) = (t, u)`), in either argument order, the helper adds `coef · [first, second]`
to `prior_terms` — in every ring with the anticommutation relations.  The re-sorting of the new
creation / annihilation pair with its sign, and the dropped term when the pair coincides, are part of
the statement. -/
theorem dc_one_body_two_body_sound {A : Type} [Ring A] (I : Proofs.C03.Interp A) (h : CARRel I)
    (p q r s t u : Nat) (hrs : r ≠ s) (htu : t ≠ u) (coef : GQ) (prior : List (List (Nat × Nat) × GQ)) :
    (I.evalOp (dcOneTwo [(p, 1), (q, 0)] [(r, 1), (s, 1), (t, 0), (u, 0)] coef prior) =
      I.evalOp prior + I.ι coef *
        (I.evalT [(p, 1), (q, 0)] * I.evalT [(r, 1), (s, 1), (t, 0), (u, 0)] -
          I.evalT [(r, 1), (s, 1), (t, 0), (u, 0)] * I.evalT [(p, 1), (q, 0)])) ∧
    (I.evalOp (dcOneTwo [(r, 1), (s, 1), (t, 0), (u, 0)] [(p, 1), (q, 0)] coef prior) =
      I.evalOp prior + I.ι coef *
        (I.evalT [(r, 1), (s, 1), (t, 0), (u, 0)] * I.evalT [(p, 1), (q, 0)] -
          I.evalT [(p, 1), (q, 0)] * I.evalT [(r, 1), (s, 1), (t, 0), (u, 0)])) :=
  ⟨Proofs.C07R.dcOneTwo_eval h.car p q r s t u hrs htu coef prior,
   Proofs.C07R.dcOneTwo_eval_swap h.car p q r s t u hrs htu coef prior⟩

/-- **`_add_three_body_term`**: inserting `x^` and `x` into `k^ l^ m n` and re-sorting adds
`coef · x^ k^ l^ x m n`, for every order relation (ties included) among the indices. -/
theorem dc_three_body_insertion_sound {A : Type} [Ring A] (I : Proofs.C03.Interp A) (h : CARRel I)
    (x k l m n : Nat) (coef : GQ) (prior : List (List (Nat × Nat) × GQ)) :
    I.evalOp (addThreeBody [(k, 1), (l, 1), (m, 0), (n, 0)] coef x prior) =
      I.evalOp prior + I.ι coef * I.evalT [(x, 1), (k, 1), (l, 1), (x, 0), (m, 0), (n, 0)] := by
  rw [Proofs.C07R.addThreeBody_eval h.car, Proofs.C07R.evalT6]; rfl

/-- **`_commutator_two_body_diagonal_with_two_body`**: for a normal-ordered diagonal Coulomb term
`D = i^ j^ i j` (`i > j`) and a normal-ordered two-body term `T = k^ l^ m n` (`k > l`, `m > n`)
different from `D` (the caller skips `D = T`), the helper adds `coef · [D, T]`: all seven branches
(both pairings, one annihilation match with or without the unbalanced creation, one creation match,
no match) are covered. -/
theorem dc_two_body_two_body_sound {A : Type} [Ring A] (I : Proofs.C03.Interp A) (h : CARRel I)
    (i j k l m n : Nat) (hij : j < i) (hkl : l < k) (hmn : n < m)
    (hne : ¬ (i = k ∧ j = l ∧ i = m ∧ j = n)) (coef : GQ) (prior : List (List (Nat × Nat) × GQ)) :
    I.evalOp (dcTwoTwo [(i, 1), (j, 1), (i, 0), (j, 0)] [(k, 1), (l, 1), (m, 0), (n, 0)] coef prior) =
      I.evalOp prior + I.ι coef *
        (I.evalT [(i, 1), (j, 1), (i, 0), (j, 0)] * I.evalT [(k, 1), (l, 1), (m, 0), (n, 0)] -
          I.evalT [(k, 1), (l, 1), (m, 0), (n, 0)] * I.evalT [(i, 1), (j, 1), (i, 0), (j, 0)]) :=
  Proofs.C07R.dcTwoTwo_eval h.car i j k l m n hij hkl hmn hne coef prior

/-- the documented contract on a term of `operator_a`: the identity, a hopping / number term `i^ j`, or
a normal-ordered diagonal Coulomb term `i^ j^ i j` with `i > j` -/
def ContractA (t : List (Nat × Nat)) : Prop :=
  t = [] ∨ (∃ i j, t = [(i, 1), (j, 0)]) ∨ (∃ i j, j < i ∧ t = [(i, 1), (j, 1), (i, 0), (j, 0)])

/-- the documented contract on a term of `operator_b`: the identity, a one-body term, or a
normal-ordered two-body term `k^ l^ m n` with `k > l`, `m > n` -/
def ContractB (t : List (Nat × Nat)) : Prop :=
  t = [] ∨ (∃ i j, t = [(i, 1), (j, 0)]) ∨
    (∃ k l m n, l < k ∧ n < m ∧ t = [(k, 1), (l, 1), (m, 0), (n, 0)])

/-- **`dc_commutator_sound`, ring form — the whole function as one statement.**  If every term of
`operator_a` keeps `ContractA` and every term of `operator_b` keeps `ContractB`, then for every
`prior_terms`, every tolerance and every coefficient values,
`commutator_ordered_diagonal_coulomb_with_two_body_operator(A, B, prior)` denotes
`prior + (A·B - B·A)` in every ring with the anticommutation relations and multiplicative
coefficients: the double loop, the `term_a == term_b` / empty-term skips, the dispatch on the term
lengths and the four helpers are all inside the statement (the out-of-spec fallback is unreachable
under the contract). -/
theorem dc_commutator_sound_ring {A : Type} [Ring A] (I : Proofs.C03.Interp A) (h : CARRel I)
    (hmul : ∀ x y, I.ι (x * y) = I.ι x * I.ι y) (tol : Rat)
    (a b prior : List (List (Nat × Nat) × GQ))
    (ha : ∀ e ∈ a, ContractA e.1) (hb : ∀ e ∈ b, ContractB e.1) :
    I.evalOp (dcCommutator tol a b prior) =
      I.evalOp prior + (I.evalOp a * I.evalOp b - I.evalOp b * I.evalOp a) :=
  Proofs.C07R.dcCommutator_eval h.car hmul tol a b ha hb prior

/-- `dc_commutator_sound` on the Fock space of the Spec: as endomorphisms of Fock space (the lifted
`actF` action), the result of the function is `prior + [A, B]`. -/
theorem dc_commutator_sound (tol : Rat) (a b prior : List (List (Nat × Nat) × GQ))
    (ha : ∀ e ∈ a, ContractA e.1) (hb : ∀ e ∈ b, ContractB e.1) :
    Proofs.C03.fockInterp.evalOp (dcCommutator tol a b prior) =
      Proofs.C03.fockInterp.evalOp prior +
        (Proofs.C03.fockInterp.evalOp a * Proofs.C03.fockInterp.evalOp b -
          Proofs.C03.fockInterp.evalOp b * Proofs.C03.fockInterp.evalOp a) :=
  dc_commutator_sound_ring Proofs.C03.fockInterp fock_CARRel Proofs.C07D.fock_ι_mul tol a b prior ha hb

/-- **outside the contract** ("Still compute the commutator, but warn the user"): if the terms of
`operator_a` are merely identity / one-body / normal-ordered two-body terms — NOT necessarily diagonal —
the pairs (non-diagonal two-body, two-body) go through the fallback
`additional = normal_ordered(c·t_a t_b - c·t_b t_a); prior_terms += additional`.  In the exact regime
(tolerance 0: no pruning in `normal_ordered` and `+=`) the function still denotes `prior + [A, B]`
in every ring with the anticommutation relations. -/
theorem dc_commutator_fallback_sound_ring {A : Type} [Ring A] (I : Proofs.C03.Interp A) (h : CARRel I)
    (hmul : ∀ x y, I.ι (x * y) = I.ι x * I.ι y) (a b prior : List (List (Nat × Nat) × GQ))
    (ha : ∀ e ∈ a, ContractB e.1) (hb : ∀ e ∈ b, ContractB e.1) :
    I.evalOp (dcCommutator 0 a b prior) =
      I.evalOp prior + (I.evalOp a * I.evalOp b - I.evalOp b * I.evalOp a) :=
  Proofs.C07R.dcCommutator_eval0 h.car hmul a b ha hb prior

/-- the same on Fock space for the tolerance the code uses, in the exact regime (hypothesis: pruning
with that tolerance changes nothing; an executable condition). -/
theorem dc_commutator_fallback_sound (tol : Rat) (a b prior : List (List (Nat × Nat) × GQ))
    (ha : ∀ e ∈ a, ContractB e.1) (hb : ∀ e ∈ b, ContractB e.1)
    (hexact : dcCommutator tol a b prior = dcCommutator 0 a b prior) :
    Proofs.C03.fockInterp.evalOp (dcCommutator tol a b prior) =
      Proofs.C03.fockInterp.evalOp prior +
        (Proofs.C03.fockInterp.evalOp a * Proofs.C03.fockInterp.evalOp b -
          Proofs.C03.fockInterp.evalOp b * Proofs.C03.fockInterp.evalOp a) := by
  rw [hexact]
  exact dc_commutator_fallback_sound_ring Proofs.C03.fockInterp fock_CARRel Proofs.C07D.fock_ι_mul a b prior ha hb

/-- **`commutator_def_ring` / `anticommutator_def_ring`**: for FermionOperators, in every ring interpretation
of the ladder operators with multiplicative coefficients (no relations needed: the product loop only
concatenates words), `commutator(A, B)` denotes `AB - BA` and `anticommutator(A, B)` denotes `AB + BA`
(tolerance 0: nothing pruned by the in-place addition), for ALL operators. -/
theorem commutator_def_ring {A : Type} [Ring A] (I : Proofs.C03.Interp A)
    (hmul : ∀ x y, I.ι (x * y) = I.ι x * I.ι y) (a b : List (List (Nat × Nat) × GQ)) :
    I.evalOp (commutator 0 .fermion a b) = I.evalOp a * I.evalOp b - I.evalOp b * I.evalOp a ∧
    I.evalOp (anticommutator 0 .fermion a b) = I.evalOp a * I.evalOp b + I.evalOp b * I.evalOp a := by
  refine ⟨Proofs.C07D.evalOp_commutator0 I hmul a b, ?_⟩
  unfold anticommutator
  rw [I.evalOp_iadd, Proofs.C07D.evalOp_mulOp I hmul, Proofs.C07D.evalOp_mulOp I hmul]

/-- **the shortcut equals the generic path**: under the documented contract,
`commutator_ordered_diagonal_coulomb_with_two_body_operator(A, B)` (any tolerance, no `prior_terms`) and
`commutator(A, B)` (tolerance 0) denote the same element in every ring with the anticommutation
relations — in particular the same operator on Fock space. -/
theorem dc_commutator_eq_generic {A : Type} [Ring A] (I : Proofs.C03.Interp A) (h : CARRel I)
    (hmul : ∀ x y, I.ι (x * y) = I.ι x * I.ι y) (tol : Rat) (a b : List (List (Nat × Nat) × GQ))
    (ha : ∀ e ∈ a, ContractA e.1) (hb : ∀ e ∈ b, ContractB e.1) :
    I.evalOp (dcCommutator tol a b []) = I.evalOp (commutator 0 .fermion a b) := by
  rw [dc_commutator_sound_ring I h hmul tol a b [] ha hb, (commutator_def_ring I hmul a b).1]
  simp

/-! ### `trivially_double_commutes_dual_basis_using_term_info` -/

/-- **`term_info_sound`, ring form.**  Let `α`, `β`, `α'` be grouped terms of the dual-basis Hamiltonian
(`Spec.C07.DualGroup`: hopping group `t (i^ j + j^ i)`, number group `w i^ j^ i j + c_i i^ i + c_j j^ j`
on two distinct modes, or external-potential term `c_i i^ i` on one mode; arbitrary coefficients),
described to the function by their index sets `idx` and hopping flags exactly as
`low_depth_second_order_trotter_error_operator` does (both settings of `external_potential_at_end`).
If `jellium_only` is passed as `True` only when the number groups among `β`, `α'` have `c_i = c_j`
(the promise in the docstring), then a `True` answer implies `[α, [β, α']] = 0` in every ring with the
anticommutation relations.  All three reasons the function gives are covered: two number groups; the
jellium rule (`|indices_β ∩ indices_α'| ≠ 1`, i.e. disjoint or the same pair of modes); `α` disjoint
from `β` and `α'`. -/
theorem term_info_sound_ring {A : Type} [Ring A] (I : Proofs.C03.Interp A) (h : CARRel I)
    (a b c : DualGroup) (jellium : Bool) (ha : a.WF) (hb : b.WF) (hc : c.WF)
    (hj : jellium = true → (b.hop = false → b.ci = b.cj) ∧ (c.hop = false → c.ci = c.cj))
    (hT : triviallyDoubleCommutesTermInfo a.idx b.idx c.idx a.hop b.hop c.hop jellium = true) :
    I.evalOp a.op * (I.evalOp b.op * I.evalOp c.op - I.evalOp c.op * I.evalOp b.op) -
      (I.evalOp b.op * I.evalOp c.op - I.evalOp c.op * I.evalOp b.op) * I.evalOp a.op = 0 := by
  rw [Proofs.C07R.grp_evalOp h.car a ha, Proofs.C07R.grp_evalOp h.car b hb, Proofs.C07R.grp_evalOp h.car c hc]
  exact Proofs.C07R.termInfo_sound h.car a b c jellium hb hc hj hT

/-- `term_info_sound` on the Fock space of the Spec. -/
theorem term_info_sound (a b c : DualGroup) (jellium : Bool) (ha : a.WF) (hb : b.WF) (hc : c.WF)
    (hj : jellium = true → (b.hop = false → b.ci = b.cj) ∧ (c.hop = false → c.ci = c.cj))
    (hT : triviallyDoubleCommutesTermInfo a.idx b.idx c.idx a.hop b.hop c.hop jellium = true) :
    Proofs.C03.fockInterp.evalOp a.op *
        (Proofs.C03.fockInterp.evalOp b.op * Proofs.C03.fockInterp.evalOp c.op -
          Proofs.C03.fockInterp.evalOp c.op * Proofs.C03.fockInterp.evalOp b.op) -
      (Proofs.C03.fockInterp.evalOp b.op * Proofs.C03.fockInterp.evalOp c.op -
          Proofs.C03.fockInterp.evalOp c.op * Proofs.C03.fockInterp.evalOp b.op) *
        Proofs.C03.fockInterp.evalOp a.op = 0 :=
  term_info_sound_ring Proofs.C03.fockInterp fock_CARRel a b c jellium ha hb hc hj hT

/-- the jellium promise matters: with `jellium_only = True` the function answers `True` for a hopping
and a number group on the same pair of modes whatever `c_i`, `c_j` are (kernel-checked instance). -/
example : triviallyDoubleCommutesTermInfo [1, 0] [1, 0] [1, 0] true true false true = true := by decide

/-! ### `double_commutator`, generic path -/

/-- `double_commutator_def`, algebraic form: in EVERY ring interpretation of the ladder operators that
satisfies the fermionic relations (`Relations I .fermion`: CAR) and has multiplicative coefficients,
`normal_ordered(commutator(A, normal_ordered(commutator(B, C))))` (tolerance 0) denotes `[A, [B, C]]`.
The Model's `normalOrdered` is the C03 Model, whose soundness theorem is used twice. -/
theorem double_commutator_def_ring {A : Type} [Ring A] (I : Proofs.C03.Interp A)
    (R : Proofs.C03.Relations I .fermion) (hmul : ∀ x y, I.ι (x * y) = I.ι x * I.ι y)
    (a b c : List (List (Nat × Nat) × GQ)) :
    I.evalOp (doubleCommutator 0 a b c) =
      I.evalOp a * (I.evalOp b * I.evalOp c - I.evalOp c * I.evalOp b) -
        (I.evalOp b * I.evalOp c - I.evalOp c * I.evalOp b) * I.evalOp a :=
  Proofs.C07D.evalOp_doubleCommutator0 I R hmul a b c

/-- `double_commutator_def` on Fock space: as endomorphisms of the Fock space of the Spec (the lifted
`actF` action, `Proofs.C03.fockInterp`), `double_commutator(A, B, C)` is `[A, [B, C]]` — for the
tolerance the code uses, in the exact regime (hypothesis: pruning with that tolerance changes nothing,
i.e. the result equals the tolerance-0 result; an executable condition). -/
theorem double_commutator_def (tol : Rat) (a b c : List (List (Nat × Nat) × GQ))
    (hexact : doubleCommutator tol a b c = doubleCommutator 0 a b c) :
    Proofs.C03.fockInterp.evalOp (doubleCommutator tol a b c) =
      Proofs.C03.fockInterp.evalOp a *
          (Proofs.C03.fockInterp.evalOp b * Proofs.C03.fockInterp.evalOp c -
            Proofs.C03.fockInterp.evalOp c * Proofs.C03.fockInterp.evalOp b) -
        (Proofs.C03.fockInterp.evalOp b * Proofs.C03.fockInterp.evalOp c -
            Proofs.C03.fockInterp.evalOp c * Proofs.C03.fockInterp.evalOp b) *
          Proofs.C03.fockInterp.evalOp a := by
  rw [hexact]
  exact Proofs.C07D.fock_doubleCommutator0 a b c

end OFV.C07
